(* C06 struct level, ALL struct types with a finite type graph (members of container and struct types included):
   decoding any prefix of an encoding fails with an error, or yields exactly the
   members completely present with all later members optional and at their reset values. *)
From Coq Require Import List NArith ZArith Lia Bool Arith.
From Coq Require Import ZifyN ZifyNat ZifyBool.
From TarsV Require Import Gen.Consts Base.Hex Codec.Wire Codec.WireProofs Codec.Skip Codec.SkipProofs Codec.Prim
  Codec.PrimProofs Codec.GenCodec Codec.Corr Codec.GenProofs Codec.RoundTrip Codec.RoundTripProofs Codec.PrefixProofs
  Codec.WireSpec Codec.WireSpecProofs.
Import ListNotations.
Ltac Zify.zify_post_hook ::= Z.div_mod_to_equations.
Open Scope N_scope.

Definition bad {A} (r : dres A) : Prop := r = DErr.

(* ---------- a member that is not found ---------- *)
Definition absent_val (f : nat) (e : env) (t : ty) (prior : val) : val :=
  match t with TStruct sid => reset_default f e sid prior | _ => prior end.
Ltac unfold_scalar := unfold dec_scalar, r_bool, r_int8, r_uint8, r_int16, r_uint16, r_int32, r_uint32, r_int64, r_int, r_f32, r_f64, r_string, with_seek.

Lemma dec_var_notfound e f tag t prior bs r : skip_to_no_check f tag false bs = NotFound r ->
  dec_var (S f) e tag false t prior bs = DOk (absent_val f e t prior) r.
Proof.
  intros Hs. destruct t; cbn [absent_val];
    try (rewrite dec_var_scalar by reflexivity; unfold_scalar; rewrite Hs; reflexivity).
  - rewrite dec_var_vec, Hs. reflexivity.
  - rewrite dec_var_map. unfold skip_to. rewrite Hs. reflexivity.
  - rewrite dec_var_arr, Hs. reflexivity.
  - rewrite dec_var_struct. cbv zeta. unfold skip_to. rewrite Hs. reflexivity.
Qed.
Lemma dec_var_seekerr e f tag req t prior bs : skip_to_no_check f tag req bs = SeekErr ->
  dec_var (S f) e tag req t prior bs = DErr.
Proof.
  intros Hs. destruct t;
    try (rewrite dec_var_scalar by reflexivity; unfold_scalar; rewrite Hs; reflexivity).
  - rewrite dec_var_vec, Hs. reflexivity.
  - rewrite dec_var_map. unfold skip_to. rewrite Hs. reflexivity.
  - rewrite dec_var_arr, Hs. reflexivity.
  - rewrite dec_var_struct. cbv zeta. unfold skip_to. rewrite Hs. reflexivity.
Qed.
(* a member whose head is found is decoded the same whether it is required or optional *)
Lemma dec_var_req_indep e f tag t prior ty r : ty < 16 -> tag < 256 -> (ty =? tSE) = false ->
  dec_var (S (S f)) e tag false t prior (head ty tag ++ r) = dec_var (S (S f)) e tag true t prior (head ty tag ++ r).
Proof.
  intros Hty Htag Hse. destruct t;
    try (rewrite !dec_var_scalar by reflexivity; unfold_scalar; rewrite !seek_first by assumption; reflexivity).
  - rewrite !dec_var_vec, !seek_first by assumption. reflexivity.
  - rewrite !dec_var_map. unfold skip_to. rewrite !seek_first by assumption. reflexivity.
  - rewrite !dec_var_arr, !seek_first by assumption. reflexivity.
  - rewrite !dec_var_struct. cbv zeta. unfold skip_to. rewrite !seek_first by assumption. reflexivity.
Qed.

Lemma absent_prior_ok e k f t d prior : (forall sid, t = TStruct sid -> nest_ok k e t = true /\ (k <= f)%nat) ->
  (d <> None -> scalar_ty t = true) -> prior_ok e t d prior ->
  prior_ok e t d (absent_val f e t prior).
Proof.
  intros Hn Hd Hp. destruct t; try exact Hp. cbn [absent_val]. unfold prior_ok in *.
  destruct d; [specialize (Hd ltac:(discriminate)); discriminate|]. destruct (Hn sid eq_refl). now apply (reset_zlike e k).
Qed.

(* a member on an exhausted input *)
Lemma dec_var_nil e f tag req t prior :
  dec_var (S (S f)) e tag req t prior [] = if req then DErr else DOk (absent_val (S f) e t prior) [].
Proof.
  destruct req.
  - apply dec_var_seekerr. reflexivity.
  - apply dec_var_notfound. reflexivity.
Qed.
Lemma dec_var_halfhead e f tag req t prior p : halfhead p ->
  dec_var (S (S f)) e tag req t prior p = if req then DErr else DOk (absent_val (S f) e t prior) [].
Proof.
  intros (ty & Hty & ->). destruct req.
  - apply dec_var_seekerr. cbn [skip_to_no_check]. now rewrite halfhead_none.
  - apply dec_var_notfound. cbn [skip_to_no_check]. now rewrite halfhead_none.
Qed.

(* the members on an exhausted input: an error if one is required, else all keep their (reset) target values *)
Lemma fields_on_nil_gen e k : forall fds ps fuel, Forall (fun fd => fdef fd <> None -> scalar_ty (fty fd) = true) fds ->
  Forall (fun fd => nest_ok k e (fty fd) = true) fds ->
  Forall2 (fun fd p => prior_ok e (fty fd) (fdef fd) p) fds ps -> (length fds + k + 3 <= fuel)%nat ->
  dec_fields fuel e fds ps [] = DErr \/
  exists ps', dec_fields fuel e fds ps [] = DOk ps' [] /\ optional fds /\ Forall2 (fun fd p => prior_ok e (fty fd) (fdef fd) p) fds ps'.
Proof.
  induction fds as [|fd fds IH]; intros ps fuel Hd Hnest Hps Hf.
  - inversion Hps; subst. destruct fuel; [lia|]. right. exists []. repeat split; constructor.
  - inversion Hps as [|? p ? ps0 Hp Hps0]; subst. inversion Hd as [|? ? Hd1 Hd']; subst. cbn [length] in Hf.
    inversion Hnest as [|? ? Hn1 Hnest']; subst.
    destruct fuel as [|f]; [lia|]. rewrite dec_fields_S. cbv zeta. cbn [tl].
    destruct f as [|f]; [lia|]. destruct f as [|f]; [lia|]. rewrite dec_var_nil.
    destruct (freq fd) eqn:Er; [now left|].
    destruct (IH ps0 (S (S f)) Hd' Hnest' Hps0 ltac:(lia)) as [->|(ps' & -> & Ho & Hps')]; [now left|].
    right. eexists. split; [reflexivity|]. split; [constructor; assumption|].
    constructor; [apply (absent_prior_ok e k); [intros; split; [assumption|lia]|assumption|assumption]|assumption].
Qed.

(* ---------- counts cut short ---------- *)
Lemma count_prefix n r u : N.of_nat n < 2147483648 -> w_int32 (Z.of_nat n) 0 = r ++ u -> u <> [] ->
  exists r', read_count r = CErr r'.
Proof.
  intros Hn E Hu. rewrite w_int32_count in E by assumption. unfold w_len in E.
  assert (Hgen : forall ty k x, (ty = tBYTE /\ k = 1%nat) \/ (ty = tSHORT /\ k = 2%nat) \/ (ty = tINT /\ k = 4%nat) ->
            head ty 0 ++ be k x = r ++ u -> exists r', read_count r = CErr r').
  { intros ty k x Hk E'. destruct r as [|b r]; [exists []; reflexivity|].
    assert (Hh : head ty 0 = [ty]) by (destruct Hk as [[-> _]|[[-> _]|[-> _]]]; reflexivity).
    rewrite Hh in E'. cbn [app] in E'. injection E' as Eb Er. subst b.
    assert (Hlt : (length r < k)%nat) by (apply (be_prefix_short k x r u); [exact Er|exact Hu]).
    unfold read_count. destruct Hk as [[-> ->]|[[-> ->]|[-> ->]]].
    - destruct r; [|cbn [length] in Hlt; lia]. eexists. reflexivity.
    - eexists. change (read_head (tSHORT :: r)) with (Some (tSHORT, 0, r)). cbn [negb N.eqb orb]. cbv iota.
      change (tSHORT =? tSE) with false. change (tSHORT =? tZERO) with false. change (tSHORT =? tBYTE) with false.
      change (tSHORT =? tSHORT) with true. cbv iota. now rewrite bread_short.
    - eexists. change (read_head (tINT :: r)) with (Some (tINT, 0, r)). cbn [negb N.eqb orb]. cbv iota.
      change (tINT =? tSE) with false. change (tINT =? tZERO) with false. change (tINT =? tBYTE) with false.
      change (tINT =? tSHORT) with false. change (tINT =? tINT) with true. cbv iota. now rewrite bread_short. }
  destruct (N.of_nat n =? 0).
  - destruct r as [|b r]; [exists []; reflexivity|]. cbn in E. injection E as _ Er. destruct r; [|discriminate]. cbn in Er. congruence.
  - destruct (N.of_nat n <? 128) eqn:E1.
    + apply (Hgen tBYTE 1%nat (N.of_nat n)); [now left|]. cbn [be app]. rewrite <- E. f_equal. f_equal. rewrite N.mod_small by lia. reflexivity.
    + destruct (N.of_nat n <? 32768).
      * apply (Hgen tSHORT 2%nat (N.of_nat n)); [right; now left|exact E].
      * apply (Hgen tINT 4%nat (N.of_nat n)); [right; now right|exact E].
Qed.

(* ---------- encoded members ---------- *)
Lemma enc_var_shape e tag req t d v : has_type e t v ->
  (left_out t req d v = true /\ req = false /\ enc_var e tag req t d v = []) \/
  (left_out t req d v = false /\ exists ty r, ty < 16 /\ (ty =? tSE) = false /\ enc_var e tag req t d v = head ty tag ++ r).
Proof.
  intros Hty. destruct (wire_all e (need v)) as (HV & _). rewrite (HV tag req t d v Hty (le_n _)).
  destruct (left_out t req d v) eqn:El.
  - left. repeat split. destruct req; [|reflexivity]. now rewrite left_out_req in El.
  - right. split; [reflexivity|]. exists (ty_of (wire_of e t v)), (ser_body (wire_of e t v)).
    repeat split; [apply ty_of_lt|apply ty_of_not_se].
Qed.

Lemma written_req_true e tag t req d v : has_type e t v -> left_out t req d v = false ->
  enc_var e tag req t d v = enc_var e tag true t d v /\ norm e t req d v = norm e t true d v.
Proof.
  intros Hty Hl. inversion Hty; subst.
  - rewrite left_out_scalar in Hl by assumption. rewrite !enc_var_scalar, !norm_scalar by assumption. rewrite Hl.
    assert (omit t true d v = false) as -> by (unfold omit; destruct t; reflexivity). split; reflexivity.
  - cbn [left_out] in Hl. cbn [enc_var norm]. rewrite Hl. cbn [negb andb]. split; reflexivity.
  - cbn [left_out] in Hl. rewrite !enc_var_list, !norm_vec. rewrite Hl. cbn [negb andb]. split; reflexivity.
  - cbn [left_out] in Hl. rewrite !enc_var_arr, !norm_arr. rewrite Hl. cbn [negb andb]. split; reflexivity.
  - cbn [left_out] in Hl. rewrite !enc_var_map, !norm_map. rewrite Hl. cbn [negb andb]. split; reflexivity.
  - rewrite !enc_var_struct, !norm_str. split; reflexivity.
Qed.

Lemma left_out_prior e t req d v prior : has_type e t v -> prior_ok e t d prior -> (d <> None -> scalar_ty t = true) ->
  left_out t req d v = true -> norm e t req d v = prior /\ (forall f, absent_val f e t prior = prior).
Proof.
  intros Hty Hp Hd Hl. inversion Hty; subst.
  - rewrite left_out_scalar in Hl by assumption. split; [now apply omitted_norm|]. intros f. destruct t; try discriminate; reflexivity.
  - assert (d = None) by (destruct d; [specialize (Hd ltac:(discriminate)); discriminate|reflexivity]). subst d.
    cbn [left_out] in Hl. apply andb_true_iff in Hl. destruct Hl as [_ Hl]. destruct s; [|discriminate].
    apply zlike_vec in Hp. subst prior. split; reflexivity.
  - assert (d = None) by (destruct d; [specialize (Hd ltac:(discriminate)); discriminate|reflexivity]). subst d.
    cbn [left_out] in Hl. apply andb_true_iff in Hl. destruct Hl as [_ Hl]. destruct xs; [|discriminate].
    apply zlike_vec in Hp. subst prior. split; [rewrite norm_vec; destruct x; try reflexivity; congruence|reflexivity].
  - cbn [left_out] in Hl. apply andb_true_iff in Hl. destruct Hl as [_ Hl]. destruct xs; [|discriminate]. cbn [length] in *. lia.
  - assert (d = None) by (destruct d; [specialize (Hd ltac:(discriminate)); discriminate|reflexivity]). subst d.
    cbn [left_out] in Hl. apply andb_true_iff in Hl. destruct Hl as [_ Hl]. destruct kvs; [|discriminate].
    apply zlike_map in Hp. subst prior. split; [now rewrite norm_map|reflexivity].
  - discriminate.
Qed.

Lemma tneed_ge3 e n t : tfin n e t = true -> (3 <= tneed n e t)%nat.
Proof. destruct n; [discriminate|]. destruct t; cbn [tneed]; intros _; lia. Qed.

Section PrefixGen.
Variable e : env.
Variable k : nat.
Hypothesis Hwf : wf_schema k e.

(* a member that is written decodes to its normal form whatever follows it *)
Lemma member_complete f m tag req t d v prior rest :
  has_type e t v -> ty_nest k e t = true -> tag < 256 -> (d <> None -> scalar_ty t = true) -> prior_ok e t d prior ->
  tfin m e t = true -> left_out t req d v = false ->
  (tneed m e t + k + 4 * length (enc_var e tag req t d v) + 2 * length rest + 3 <= f)%nat ->
  dec_var f e tag req t prior (enc_var e tag req t d v ++ rest) = DOk (norm e t req d v) rest.
Proof.
  intros Hty Hn Htag Hd Hp Hfin Hl Hf.
  destruct (written_req_true e tag t req d v Hty Hl) as [Ee En]. rewrite Ee, En in *.
  destruct (rt_all e k Hwf f) as (HV & _).
  pose proof (need_bound e m t v tag true d Hfin Hty) as Hb.
  assert (H1 : dec_var f e tag true t prior (enc_var e tag true t d v ++ rest) = DOk (norm e t true d v) rest).
  { apply (HV tag true t d v prior None [] rest); try assumption; [apply junk_nil|now left|].
    unfold fuel_ok. cbn [ser_fields app]. rewrite app_length. lia. }
  destruct req; [exact H1|].
  destruct (enc_var_shape e tag true t d v Hty) as [(El & _)|(_ & ty & r & Hty' & Hse & E)]; [now rewrite left_out_req in El|].
  rewrite E in *. rewrite <- app_assoc in *. pose proof (tneed_ge3 e m t Hfin).
  destruct f as [|[|f]]; [lia|lia|]. rewrite dec_var_req_indep by assumption. exact H1.
Qed.

Definition W_var (f : nat) : Prop := forall m t tag req d v prior p q,
  tfin m e t = true -> has_type e t v -> ty_nest k e t = true -> tag < 256 ->
  (d <> None -> scalar_ty t = true) -> prior_ok e t d prior ->
  enc_var e tag req t d v = p ++ q -> q <> [] -> (tneed m e t + k + 4 * length p + 3 <= f)%nat ->
  bad (dec_var f e tag req t prior p) \/
  (req = false /\ (p = [] \/ halfhead p) /\ exists x, dec_var f e tag req t prior p = DOk x [] /\ prior_ok e t d x).
Definition W_elems (f : nat) : Prop := forall m x xs p q,
  tfin m e x = true -> Forall (has_type e x) xs -> ty_nest k e x = true ->
  enc_elems e x xs = p ++ q -> q <> [] -> (tneed m e x + 1 + k + 4 * length p + 3 <= f)%nat ->
  bad (dec_elems f e x (Z.of_nat (length xs)) p).
Definition W_arr (f : nat) : Prop := forall m x len dn todo xs p q,
  tfin m e x = true -> Forall (has_type e x) xs -> ty_nest k e x = true ->
  length todo = length xs -> (length dn + length xs = len)%nat -> Forall (zlike e x) todo ->
  enc_elems e x xs = p ++ q -> q <> [] -> (tneed m e x + 1 + k + 4 * length p + 3 <= f)%nat ->
  bad (dec_arr f e x len (length dn) (Z.of_nat (length xs)) (dn ++ todo) p).
Definition W_entries (f : nat) : Prop := forall m kt vt kvs p q,
  tfin m e kt = true -> tfin m e vt = true ->
  Forall (fun pr => has_type e kt (fst pr) /\ has_type e vt (snd pr)) kvs -> ty_nest k e kt = true -> ty_nest k e vt = true ->
  enc_entries e kt vt kvs = p ++ q -> q <> [] ->
  (Nat.max (tneed m e kt) (tneed m e vt) + 1 + k + 4 * length p + 3 <= f)%nat ->
  bad (dec_entries f e kt vt (Z.of_nat (length kvs)) p).
Definition W_fields (f : nat) : Prop := forall m fds vs ps p q lo,
  (forall fd, In fd fds -> tfin m e (fty fd) = true) ->
  Forall2 (fun fd x => has_type e (fty fd) x) fds vs -> Forall (member_ok e k) fds -> asc_opt lo fds ->
  Forall2 (fun fd pr => prior_ok e (fty fd) (fdef fd) pr) fds ps ->
  enc_fields e vs fds = p ++ q -> (length fds + tmax (tneed m e) fds + 1 + k + 4 * length p + 3 <= f)%nat ->
  bad (dec_fields f e fds ps p) \/
  exists i h ps', (i <= length fds)%nat /\ p = enc_fields e (firstn i vs) (firstn i fds) ++ h /\ (h = [] \/ halfhead h) /\
    optional (skipn i fds) /\ Forall2 (fun fd pr => prior_ok e (fty fd) (fdef fd) pr) fds ps' /\
    dec_fields f e fds ps p = DOk (firstn i (norm_fields e vs fds) ++ skipn i ps') [].

Lemma bad_err {A} : @bad A DErr. Proof. reflexivity. Qed.

Lemma wstep_elems f : W_var f -> W_elems f -> W_elems (S f).
Proof.
  intros HV HE m x xs p q Hfin Hty Hn E Hq Hf. rewrite dec_elems_S. destruct Hty as [|y r Hy Hr].
  - cbn [enc_elems] in E. destruct p; [|discriminate]. cbn [app] in E. congruence.
  - destruct (Z.of_nat (length (y :: r)) <=? 0)%Z eqn:E0; [cbn [length] in E0; lia|].
    cbn [enc_elems] in E. pose proof (left_out_req x None y) as Hl.
    pose proof (enc_var_req_length e 0 x None y Hy) as Hb1.
    replace (Z.of_nat (length (y :: r)) - 1)%Z with (Z.of_nat (length r)) by (cbn [length]; lia).
    destruct (app_prefix_cases _ _ _ _ E) as [(t & Ha & Hq')|(t & Hp' & HB)].
    + destruct t as [|t0 t].
      * (* the element is exactly complete: the next one is missing *)
        rewrite app_nil_r in Ha. subst p. cbn [app] in Hq'. subst q.
        assert (H1 : dec_var f e 0 true x (zero_of f e x) (enc_var e 0 true x None y ++ []) = DOk (norm e x true None y) []).
        { apply (member_complete f m); try assumption; try (cbn [length]; lia).
          - intros Hc; congruence.
          - apply (zero_zlike e k); [now apply (ty_nest_nest e k)|lia]. }
        rewrite app_nil_r in H1. rewrite H1.
        assert (H2 : bad (dec_elems f e x (Z.of_nat (length r)) [])).
        { apply (HE m x r [] (enc_elems e x r)); try assumption; [reflexivity|cbn [length]; lia]. }
        unfold bad in H2; rewrite H2; apply bad_err.
      * (* cut inside the element *)
        assert (H1 : bad (dec_var f e 0 true x (zero_of f e x) p)).
        { destruct (HV m x 0 true None y (zero_of f e x) p (t0 :: t) Hfin Hy Hn) as [H|(Hc & _)]; try assumption; try lia; try discriminate.
          - intros Hc; congruence.
          - apply (zero_zlike e k); [now apply (ty_nest_nest e k)|lia]. }
        unfold bad in H1; rewrite H1; apply bad_err.
    + subst p. rewrite app_length in Hf.
      assert (H1 : dec_var f e 0 true x (zero_of f e x) (enc_var e 0 true x None y ++ t) = DOk (norm e x true None y) t).
      { apply (member_complete f m); try assumption; try lia.
        - intros Hc; congruence.
        - apply (zero_zlike e k); [now apply (ty_nest_nest e k)|lia]. }
      rewrite H1.
      assert (H2 : bad (dec_elems f e x (Z.of_nat (length r)) t)).
      { apply (HE m x r t q); try assumption. lia. }
      unfold bad in H2; rewrite H2; apply bad_err.
Qed.

Ltac bad_of H := unfold bad in H; rewrite H; apply bad_err.

Lemma wstep_arr f : W_var f -> W_arr f -> W_arr (S f).
Proof.
  intros HV HA m x len dn todo xs p q Hfin Hty Hn Hlen Hsum Hz E Hq Hf. rewrite dec_arr_S. destruct Hty as [|y r Hy Hr].
  - cbn [enc_elems] in E. destruct p; [|discriminate]. cbn [app] in E. congruence.
  - destruct todo as [|z todo]; [discriminate|]. cbn [length] in Hlen, Hsum.
    destruct (Z.of_nat (length (y :: r)) <=? 0)%Z eqn:E0; [cbn [length] in E0; lia|].
    destruct (len <=? length dn)%nat eqn:E2; [apply Nat.leb_le in E2; lia|].
    rewrite nth_app_here. cbn [enc_elems] in E.
    pose proof (enc_var_req_length e 0 x None y Hy) as Hb1. pose proof (left_out_req x None y) as Hl.
    inversion Hz as [|? ? Hz1 Hz2]; subst.
    replace (Z.of_nat (length (y :: r)) - 1)%Z with (Z.of_nat (length r)) by (cbn [length]; lia).
    assert (Hnext : forall t q', enc_elems e x r = t ++ q' -> q' <> [] -> (tneed m e x + 1 + k + 4 * length t + 3 <= f)%nat ->
              bad (dec_arr f e x (length dn + S (length r)) (S (length dn)) (Z.of_nat (length r))
                     (replace_nth (length dn) (norm e x true None y) (dn ++ z :: todo)) t)).
    { intros t q' Et Hq' Hft. rewrite replace_nth_app.
      replace (dn ++ norm e x true None y :: todo) with ((dn ++ [norm e x true None y]) ++ todo) by (now rewrite <- app_assoc).
      replace (S (length dn)) with (length (dn ++ [norm e x true None y])) by (rewrite app_length; cbn [length]; lia).
      apply (HA m x _ _ todo r t q'); try assumption; [lia|rewrite app_length; cbn [length]; lia]. }
    destruct (app_prefix_cases _ _ _ _ E) as [(t & Ha & Hq')|(t & Hp' & HB)].
    + destruct t as [|t0 t].
      * rewrite app_nil_r in Ha. subst p. cbn [app] in Hq'. subst q.
        assert (H1 : dec_var f e 0 true x z (enc_var e 0 true x None y ++ []) = DOk (norm e x true None y) []).
        { apply (member_complete f m); try assumption; try (cbn [length]; lia). intros Hc; congruence. }
        rewrite app_nil_r in H1. rewrite H1.
        assert (H2 := Hnext [] (enc_elems e x r) eq_refl Hq ltac:(cbn [length]; lia)). bad_of H2.
      * assert (H1 : bad (dec_var f e 0 true x z p)).
        { destruct (HV m x 0 true None y z p (t0 :: t) Hfin Hy Hn) as [H|(Hc & _)]; try assumption; try lia; try discriminate.
          intros Hc; congruence. }
        bad_of H1.
    + subst p. rewrite app_length in Hf.
      assert (H1 : dec_var f e 0 true x z (enc_var e 0 true x None y ++ t) = DOk (norm e x true None y) t).
      { apply (member_complete f m); try assumption; try lia. intros Hc; congruence. }
      rewrite H1. assert (H2 := Hnext t q HB Hq ltac:(lia)). bad_of H2.
Qed.

Lemma wstep_entries f : W_var f -> W_entries f -> W_entries (S f).
Proof.
  intros HV HM m kt vt kvs p q Hfk Hfv Hty Hnk Hnv E Hq Hf. rewrite dec_entries_S. destruct Hty as [|[ky y] r [Hk Hy] Hr].
  - cbn [enc_entries] in E. destruct p; [|discriminate]. cbn [app] in E. congruence.
  - cbn [fst snd] in Hk, Hy.
    destruct (Z.of_nat (length ((ky, y) :: r)) <=? 0)%Z eqn:E0; [cbn [length] in E0; lia|].
    cbn [enc_entries] in E.
    pose proof (enc_var_req_length e 0 kt None ky Hk) as Hb1. pose proof (enc_var_req_length e 1 vt None y Hy) as Hb2.
    pose proof (left_out_req kt None ky) as Hlk. pose proof (left_out_req vt None y) as Hlv.
    replace (Z.of_nat (length ((ky, y) :: r)) - 1)%Z with (Z.of_nat (length r)) by (cbn [length]; lia).
    assert (Hzk : prior_ok e kt None (zero_of f e kt)) by (apply (zero_zlike e k); [now apply (ty_nest_nest e k)|lia]).
    assert (Hzv : prior_ok e vt None (zero_of f e vt)) by (apply (zero_zlike e k); [now apply (ty_nest_nest e k)|lia]).
    assert (Hnd : forall t0 : ty, @None val <> None -> scalar_ty t0 = true) by (intros ? Hc; congruence).
    (* the value part and the rest, given what is left after the key *)
    assert (Hval : forall t q', enc_var e 1 true vt None y ++ enc_entries e kt vt r = t ++ q' -> q' <> [] ->
              (Nat.max (tneed m e kt) (tneed m e vt) + k + 4 * length t + 3 <= f)%nat ->
              bad (match dec_var f e 1 true vt (zero_of f e vt) t with
                   | DOk v r' => match dec_entries f e kt vt (Z.of_nat (length r)) r' with
                                 | DOk kvs0 r'' => DOk ((norm e kt true None ky, v) :: kvs0) r'' | o => o end
                   | DErr => DErr | DPanic s => DPanic s | DHuge => DHuge | DFuel => DFuel end)).
    { intros t q' Et Hq' Hft.
      destruct (app_prefix_cases _ _ _ _ Et) as [(u & Ha & Hqu)|(u & Hp' & HB)].
      - destruct u as [|u0 u].
        + rewrite app_nil_r in Ha. subst t. cbn [app] in Hqu. subst q'.
          assert (H1 : dec_var f e 1 true vt (zero_of f e vt) (enc_var e 1 true vt None y ++ []) = DOk (norm e vt true None y) []).
          { apply (member_complete f m); try assumption; try apply Hnd; try (cbn [length]; lia). }
          rewrite app_nil_r in H1. rewrite H1.
          assert (H2 : bad (dec_entries f e kt vt (Z.of_nat (length r)) [])).
          { apply (HM m kt vt r [] (enc_entries e kt vt r)); try assumption; [reflexivity|cbn [length]; lia]. }
          bad_of H2.
        + assert (H1 : bad (dec_var f e 1 true vt (zero_of f e vt) t)).
          { destruct (HV m vt 1 true None y (zero_of f e vt) t (u0 :: u) Hfv Hy Hnv) as [H|(Hc & _)]; try assumption; try apply Hnd; try lia; try discriminate. }
          bad_of H1.
      - subst t. rewrite app_length in Hft.
        assert (H1 : dec_var f e 1 true vt (zero_of f e vt) (enc_var e 1 true vt None y ++ u) = DOk (norm e vt true None y) u).
        { apply (member_complete f m); try assumption; try apply Hnd; try lia. }
        rewrite H1.
        assert (H2 : bad (dec_entries f e kt vt (Z.of_nat (length r)) u)).
        { apply (HM m kt vt r u q'); try assumption. lia. }
        bad_of H2. }
    destruct (app_prefix_cases _ _ _ _ E) as [(t & Ha & Hq')|(t & Hp' & HB)].
    + destruct t as [|t0 t].
      * rewrite app_nil_r in Ha. subst p. cbn [app] in Hq'. subst q.
        assert (H1 : dec_var f e 0 true kt (zero_of f e kt) (enc_var e 0 true kt None ky ++ []) = DOk (norm e kt true None ky) []).
        { apply (member_complete f m); try assumption; try apply Hnd; try (cbn [length]; lia). }
        rewrite app_nil_r in H1. rewrite H1.
        apply (Hval [] (enc_var e 1 true vt None y ++ enc_entries e kt vt r)); [reflexivity| |cbn [length]; lia].
        intros Hc. apply app_eq_nil in Hc. destruct Hc as [Hc _]. rewrite Hc in Hb2. cbn in Hb2. lia.
      * assert (H1 : bad (dec_var f e 0 true kt (zero_of f e kt) p)).
        { destruct (HV m kt 0 true None ky (zero_of f e kt) p (t0 :: t) Hfk Hk Hnk) as [H|(Hc & _)]; try assumption; try apply Hnd; try lia; try discriminate. }
        bad_of H1.
    + subst p. rewrite app_length in Hf.
      assert (H1 : dec_var f e 0 true kt (zero_of f e kt) (enc_var e 0 true kt None ky ++ t) = DOk (norm e kt true None ky) t).
      { apply (member_complete f m); try assumption; try apply Hnd; try lia. }
      rewrite H1. apply (Hval t q HB Hq). lia.
Qed.

Lemma members_default_ok fds : Forall (member_ok e k) fds -> Forall (fun fd => fdef fd <> None -> scalar_ty (fty fd) = true) fds.
Proof. intros H. eapply Forall_impl; [|exact H]. intros fd [_ A]. exact A. Qed.

Lemma members_nest_ok fds : Forall (member_ok e k) fds -> Forall (fun fd => nest_ok k e (fty fd) = true) fds.
Proof. intros H. eapply Forall_impl; [|exact H]. intros fd [A _]. now apply (ty_nest_nest e k). Qed.

Lemma wstep_fields f : W_var f -> W_fields f -> W_fields (S f).
Proof.
  intros HV HF m fds vs ps p q lo Hfin Hty Hmem Hasc Hps E Hf. rewrite dec_fields_S.
  destruct Hty as [|fd x fds vs Hx Hvs].
  - cbn [enc_fields] in E. destruct p; [|discriminate]. inversion Hps; subst.
    right. exists 0%nat, [], []. split5; [cbn; lia|reflexivity|now left|constructor|]. split; [constructor|reflexivity].
  - inversion Hps as [|? p0 ? ps0 Hp0 Hps0]; subst. inversion Hmem as [|? ? [Hm1 Hm2] Hmem']; subst.
    assert (H256 : ftag fd < 256 /\ ascending (ftag fd) fds).
    { destruct lo; cbn [asc_opt schema_ascending ascending] in Hasc; tauto. }
    destruct H256 as [H256 Hasc'].
    cbn [enc_fields length tmax fold_right] in *. fold (tmax (tneed m e) fds) in Hf. cbv zeta. cbn [tl].
    assert (Hfd : tfin m e (fty fd) = true) by (apply Hfin; now left).
    assert (Hfin' : forall fd', In fd' fds -> tfin m e (fty fd') = true) by (intros fd' Hin; apply Hfin; now right).
    pose proof (tneed_ge3 e m (fty fd) Hfd) as H3.
    destruct f as [|[|f0]]; [lia|lia|].
    assert (Hnil : dec_fields (S (S f0)) e fds ps0 [] = DErr \/
              exists ps', dec_fields (S (S f0)) e fds ps0 [] = DOk ps' [] /\ optional fds /\
                          Forall2 (fun fd pr => prior_ok e (fty fd) (fdef fd) pr) fds ps').
    { apply (fields_on_nil_gen e k); [now apply members_default_ok|now apply members_nest_ok|assumption|lia]. }
    destruct (enc_var_shape e (ftag fd) (freq fd) (fty fd) (fdef fd) x Hx) as [(Hl & Hreq & Ea)|(Hl & ty & r & Hty' & Hse & Ea)].
    + (* the member was left out by the encoder *)
      rewrite Ea in *. cbn [app] in E. rewrite Hreq in *.
      destruct (left_out_prior e (fty fd) false (fdef fd) x p0 Hx Hp0 Hm2 Hl) as [Hn0 Hav].
      assert (Hfo : follows (ftag fd) (enc_fields e vs fds)) by (now apply enc_fields_follows).
      destruct (pre_follows f0 (ftag fd) _ p q Hfo E) as [Hs|[Hh Hs]].
      * rewrite (dec_var_notfound e (S f0) _ _ _ _ _ Hs), Hav.
        destruct (HF m fds vs ps0 p q (Some (ftag fd)) Hfin' Hvs Hmem' Hasc' Hps0 E ltac:(lia)) as [Hb|(i & h & ps' & Hi & Hp & Hh & Ho & Hps' & ->)].
        -- left. bad_of Hb.
        -- right. exists (S i), h, (p0 :: ps'). split5; [lia| |assumption|assumption|].
           ++ cbn [firstn enc_fields]. rewrite Hreq, Ea. exact Hp.
           ++ split; [constructor; assumption|]. cbn [norm_fields firstn skipn app]. now rewrite Hreq, Hn0.
      * rewrite (dec_var_notfound e (S f0) _ _ _ _ _ Hs), Hav.
        destruct Hnil as [->|(ps' & -> & Ho & Hps')]; [left; apply bad_err|].
        right. exists 1%nat, p, (p0 :: ps'). split5; [lia| |now right|exact Ho|].
        -- cbn [firstn enc_fields]. now rewrite Hreq, Ea.
        -- split; [constructor; assumption|]. cbn [norm_fields firstn skipn app]. now rewrite Hreq, Hn0.
    + (* the member was written *)
      destruct (app_prefix_cases _ _ _ _ E) as [(t & Ha & Hq')|(t & Hp' & HB)].
      * destruct t as [|t0 t].
        -- (* exactly complete *)
           rewrite app_nil_r in Ha. subst p.
           assert (H1 : dec_var (S (S f0)) e (ftag fd) (freq fd) (fty fd) p0 (enc_var e (ftag fd) (freq fd) (fty fd) (fdef fd) x ++ [])
                        = DOk (norm e (fty fd) (freq fd) (fdef fd) x) []).
           { apply (member_complete (S (S f0)) m); try assumption. cbn [length]. lia. }
           rewrite app_nil_r in H1. rewrite H1.
           destruct Hnil as [->|(ps' & -> & Ho & Hps')]; [left; apply bad_err|].
           right. exists 1%nat, [], (p0 :: ps'). split5; [lia| |now left|exact Ho|].
           ++ cbn [firstn enc_fields]. now rewrite !app_nil_r.
           ++ split; [constructor; assumption|]. reflexivity.
        -- (* cut inside the member *)
           destruct (HV m (fty fd) (ftag fd) (freq fd) (fdef fd) x p0 p (t0 :: t) Hfd Hx Hm1 H256 Hm2 Hp0 Ha ltac:(discriminate) ltac:(lia))
             as [Hb|(Hreq & Hph & x0 & -> & Hx0)].
           ++ left. bad_of Hb.
           ++ destruct Hnil as [->|(ps' & -> & Ho & Hps')]; [left; apply bad_err|].
              right. exists 0%nat, p, (x0 :: ps'). split5; [lia|reflexivity|exact Hph| |].
              ** cbn [skipn]. constructor; assumption.
              ** split; [constructor; assumption|]. reflexivity.
      * (* complete, the cut is later *)
        subst p. rewrite app_length in Hf.
        assert (H1 : dec_var (S (S f0)) e (ftag fd) (freq fd) (fty fd) p0 (enc_var e (ftag fd) (freq fd) (fty fd) (fdef fd) x ++ t)
                     = DOk (norm e (fty fd) (freq fd) (fdef fd) x) t).
        { apply (member_complete (S (S f0)) m); try assumption. lia. }
        rewrite H1.
        destruct (HF m fds vs ps0 t q (Some (ftag fd)) Hfin' Hvs Hmem' Hasc' Hps0 HB ltac:(lia)) as [Hb|(i & h & ps' & Hi & Hp & Hh & Ho & Hps' & ->)].
        -- left. bad_of Hb.
        -- right. exists (S i), h, (p0 :: ps'). split5; [lia| |assumption|assumption|].
           ++ cbn [firstn enc_fields]. rewrite Hp. now rewrite app_assoc.
           ++ split; [constructor; assumption|]. reflexivity.
Qed.

Lemma head_cut ty tag body p q : ty < 16 -> head ty tag ++ body = p ++ q -> q <> [] ->
  (p = [] \/ halfhead p) \/ exists u, p = head ty tag ++ u /\ body = u ++ q.
Proof.
  intros Hty E Hq. destruct (app_prefix_cases _ _ _ _ E) as [(t & Ha & Hq')|(t & Hp' & HB)].
  - destruct t as [|t0 t].
    + rewrite app_nil_r in Ha. right. exists []. rewrite app_nil_r. split; [now symmetry|now symmetry].
    + left. destruct (head_proper_prefix ty tag p (t0 :: t) Hty Ha ltac:(discriminate)) as [->|[-> _]]; [now left|].
      right. exists ty. split; [assumption|reflexivity].
  - right. exists t. split; assumption.
Qed.

Definition w_concl (f : nat) (tag : N) (req : bool) (t : ty) (d : option val) (prior : val) (p : list N) : Prop :=
  bad (dec_var f e tag req t prior p) \/
  (req = false /\ (p = [] \/ halfhead p) /\ exists x, dec_var f e tag req t prior p = DOk x [] /\ prior_ok e t d x).

Lemma w_absent f tag req t d prior p : (forall sid, t = TStruct sid -> nest_ok k e t = true /\ (k <= S f)%nat) ->
  (p = [] \/ halfhead p) -> (d <> None -> scalar_ty t = true) -> prior_ok e t d prior ->
  w_concl (S (S f)) tag req t d prior p.
Proof.
  intros Hnest Hp Hd Hpr. unfold w_concl.
  assert (E : dec_var (S (S f)) e tag req t prior p = if req then DErr else DOk (absent_val (S f) e t prior) []).
  { destruct Hp as [->|Hh]; [apply dec_var_nil|now apply dec_var_halfhead]. }
  rewrite E. destruct req; [left; apply bad_err|]. right. split; [reflexivity|]. split; [assumption|].
  eexists. split; [reflexivity|]. now apply (absent_prior_ok e k).
Qed.
Ltac not_struct := let s := fresh in let H := fresh in intros s H; first [discriminate H | subst; discriminate].

(* what follows the head of a LIST / MAP member: the count, then the elements *)
Lemma count_cut n body u q : N.of_nat n < 2147483648 -> w_int32 (Z.of_nat n) 0 ++ body = u ++ q -> q <> [] ->
  (exists r', read_count u = CErr r') \/
  exists u2, read_count u = COk (Z.of_nat n) u2 /\ body = u2 ++ q /\ (length u2 < length u)%nat.
Proof.
  intros Hn E Hq. pose proof (headed_length 0 _ (w_int32_headed (Z.of_nat n) 0)) as Hc.
  destruct (app_prefix_cases _ _ _ _ E) as [(t & Ha & Hq')|(t & Hp' & HB)].
  - destruct t as [|t0 t].
    + rewrite app_nil_r in Ha. right. exists []. subst u. rewrite <- (app_nil_r (w_int32 _ _)) at 1.
      rewrite read_count_len by assumption. split; [reflexivity|]. split; [now symmetry|cbn [length]; lia].
    + left. apply (count_prefix n u (t0 :: t)); [assumption|assumption|discriminate].
  - right. exists t. subst u. rewrite read_count_len by assumption. split; [reflexivity|]. split; [assumption|].
    rewrite app_length. lia.
Qed.

Lemma wstep_var_scalar f m tag req t d v prior p q :
  scalar_ty t = true -> sc_typed t v -> tag < 256 -> (d <> None -> scalar_ty t = true) -> prior_ok e t d prior ->
  enc_var e tag req t d v = p ++ q -> q <> [] -> tfin m e t = true -> (tneed m e t + k + 4 * length p + 3 <= S f)%nat ->
  w_concl (S f) tag req t d prior p.
Proof.
  intros Hsc Hty Htag Hd Hpr E Hq Hfin Hf. pose proof (tneed_ge3 e m t Hfin). destruct f as [|f0]; [lia|].
  destruct p as [|b p]; [apply w_absent; [intros s0 Hs0; subst t; discriminate|now left|assumption|assumption]|].
  rewrite enc_var_scalar in E by assumption. destruct (omit t req d v); [discriminate|].
  unfold w_concl. rewrite dec_var_scalar by assumption.
  destruct (scalar_prefix f0 tag req t v prior (b :: p) q Hsc Hty Htag E Hq ltac:(discriminate)) as [->|(Hr & Hh & ->)].
  - left. apply bad_err.
  - right. split; [assumption|]. split; [now right|]. exists prior. split; [reflexivity|assumption].
Qed.

Ltac sf := first [reflexivity | assumption | lia].

Lemma wstep_var_bytes f tag req d s prior p q :
  N.of_nat (length s) < 2147483648 -> tag < 256 -> (d <> None -> scalar_ty (TVec TI8) = true) -> prior_ok e (TVec TI8) d prior ->
  enc_var e tag req (TVec TI8) d (VBytes s) = p ++ q -> q <> [] ->
  w_concl (S (S (S f))) tag req (TVec TI8) d prior p.
Proof.
  intros Hs Htag Hd Hpr E Hq. cbn [enc_var] in E.
  destruct (negb req && match s with [] => true | _ => false end); [destruct p; [|discriminate]; cbn [app] in E; congruence|].
  destruct (head_cut tSIMPLE tag _ p q ltac:(reflexivity) E Hq) as [Hab|(u & -> & Eu)]; [apply w_absent; [not_struct|assumption..]|].
  left. rewrite dec_var_vec, seek_first by sf.
  change (tSIMPLE =? tLIST) with false. change (tSIMPLE =? tSIMPLE) with true. cbv iota. cbn [is_byte].
  destruct (head_cut tBYTE 0 _ u q ltac:(reflexivity) Eu Hq) as [[->|(ty & Hty0 & ->)]|(u1 & -> & Eu1)].
  - apply bad_err.
  - unfold skip_to. cbn [skip_to_no_check]. rewrite halfhead_none by assumption. apply bad_err.
  - unfold skip_to. rewrite seek_first by sf. change (tBYTE =? tBYTE) with true. cbv iota.
    destruct (count_cut (length s) s u1 q Hs Eu1 Hq) as [(r' & ->)|(u2 & -> & Es & Hlu)]; [apply bad_err|].
    assert (Hlen : (length u2 < length s)%nat).
    { assert (length s = length u2 + length q)%nat by (rewrite Es, app_length; reflexivity). destruct q; [congruence|]. cbn [length] in *. lia. }
    unfold read_slice. destruct (Z.of_nat (length s) <? 0)%Z eqn:E0; [lia|].
    destruct (Z.of_nat (length u2) <? Z.of_nat (length s))%Z eqn:E1; [apply bad_err|lia].
Qed.

Lemma wstep_var_vec f m tag req d x xs prior p q : W_elems (S (S f)) ->
  x <> TI8 -> N.of_nat (length xs) < 2147483648 -> Forall (has_type e x) xs -> ty_nest k e x = true -> tfin m e x = true ->
  tag < 256 -> (d <> None -> scalar_ty (TVec x) = true) -> prior_ok e (TVec x) d prior ->
  enc_var e tag req (TVec x) d (VList xs) = p ++ q -> q <> [] ->
  (3 + tneed m e x + k + 4 * length p + 3 <= S (S (S f)))%nat ->
  w_concl (S (S (S f))) tag req (TVec x) d prior p.
Proof.
  intros HE Hx Hlen Hty Hn Hfin Htag Hd Hpr E Hq Hf. rewrite enc_var_list in E.
  destruct (negb req && match xs with [] => true | _ => false end); [destruct p; [|discriminate]; cbn [app] in E; congruence|].
  destruct (head_cut tLIST tag _ p q ltac:(reflexivity) E Hq) as [Hab|(u & -> & Eu)]; [apply w_absent; [not_struct|assumption..]|].
  left. rewrite dec_var_vec, seek_first by sf. change (tLIST =? tLIST) with true. cbv iota.
  destruct (count_cut (length xs) _ u q Hlen Eu Hq) as [(r' & ->)|(u2 & -> & Es & Hlu)]; [apply bad_err|].
  destruct (Z.of_nat (length xs) <? 0)%Z eqn:E1; [lia|].
  destruct (Z.of_nat (length u2) <? Z.of_nat (length xs))%Z; [apply bad_err|].
  assert (H2 : bad (dec_elems (S (S f)) e x (Z.of_nat (length xs)) u2)).
  { apply (HE m x xs u2 q); try assumption. rewrite !app_length in Hf. pose proof (head_length tLIST tag). lia. }
  bad_of H2.
Qed.

Lemma wstep_var_arr f m tag req d n x xs prior p q : W_arr (S (S f)) ->
  length xs = n -> (0 < n)%nat -> N.of_nat n < 2147483648 -> Forall (has_type e x) xs -> ty_nest k e x = true -> tfin m e x = true ->
  tag < 256 -> (d <> None -> scalar_ty (TArr n x) = true) -> prior_ok e (TArr n x) d prior ->
  enc_var e tag req (TArr n x) d (VList xs) = p ++ q -> q <> [] ->
  (3 + tneed m e x + k + 4 * length p + 3 <= S (S (S f)))%nat ->
  w_concl (S (S (S f))) tag req (TArr n x) d prior p.
Proof.
  intros HA Hl Hpos Hlen Hty Hn Hfin Htag Hd Hpr E Hq Hf. rewrite enc_var_arr in E.
  destruct (negb req && match xs with [] => true | _ => false end); [destruct p; [|discriminate]; cbn [app] in E; congruence|].
  destruct (head_cut tLIST tag _ p q ltac:(reflexivity) E Hq) as [Hab|(u & -> & Eu)]; [apply w_absent; [not_struct|assumption..]|].
  left. rewrite dec_var_arr, seek_first by sf. change (tLIST =? tLIST) with true. cbv iota.
  assert (d = None) by (destruct d; [specialize (Hd ltac:(discriminate)); discriminate|reflexivity]). subst d.
  unfold prior_ok in Hpr. inversion Hpr as [? Hb|? ? l Hll Hz|]; subst; [discriminate|].
  destruct (count_cut (length xs) _ u q ltac:(rewrite <- Hll in Hlen; lia) Eu Hq) as [(r' & ->)|(u2 & -> & Es & Hlu)]; [apply bad_err|].
  replace ((Z.of_nat (length xs) <? 0)%Z || (Z.of_nat (length xs) <? Z.of_nat (length xs))%Z) with false by lia.
  assert (H2 : bad (dec_arr (S (S f)) e x (length xs) 0 (Z.of_nat (length xs)) l u2)).
  { pose proof (HA m x (length xs) [] l xs u2 q) as H1. cbn [length app] in H1. apply H1; try assumption; try reflexivity.
    rewrite !app_length in Hf. pose proof (head_length tLIST tag). lia. }
  bad_of H2.
Qed.

Lemma wstep_var_map f m tag req d kt vt kvs prior p q : W_entries (S (S f)) ->
  N.of_nat (length kvs) < 2147483648 -> Forall (fun pr => has_type e kt (fst pr) /\ has_type e vt (snd pr)) kvs ->
  ty_nest k e kt = true -> ty_nest k e vt = true -> tfin m e kt = true -> tfin m e vt = true ->
  tag < 256 -> (d <> None -> scalar_ty (TMap kt vt) = true) -> prior_ok e (TMap kt vt) d prior ->
  enc_var e tag req (TMap kt vt) d (VMap kvs) = p ++ q -> q <> [] ->
  (3 + Nat.max (tneed m e kt) (tneed m e vt) + k + 4 * length p + 3 <= S (S (S f)))%nat ->
  w_concl (S (S (S f))) tag req (TMap kt vt) d prior p.
Proof.
  intros HM Hlen Hty Hnk Hnv Hfk Hfv Htag Hd Hpr E Hq Hf. rewrite enc_var_map in E.
  destruct (negb req && match kvs with [] => true | _ => false end); [destruct p; [|discriminate]; cbn [app] in E; congruence|].
  destruct (head_cut tMAP tag _ p q ltac:(reflexivity) E Hq) as [Hab|(u & -> & Eu)]; [apply w_absent; [not_struct|assumption..]|].
  left. rewrite dec_var_map. unfold skip_to. rewrite seek_first by sf. change (tMAP =? tMAP) with true. cbv iota.
  destruct (count_cut (length kvs) _ u q Hlen Eu Hq) as [(r' & ->)|(u2 & -> & Es & Hlu)]; [apply bad_err|].
  destruct ((Z.of_nat (length kvs) <? 0)%Z || (Z.of_nat (length u2) / 2 <? Z.of_nat (length kvs))%Z); [apply bad_err|].
  assert (H2 : bad (dec_entries (S (S f)) e kt vt (Z.of_nat (length kvs)) u2)).
  { apply (HM m kt vt kvs u2 q); try assumption. rewrite !app_length in Hf. pose proof (head_length tMAP tag). lia. }
  bad_of H2.
Qed.

Lemma wstep_var_struct f m tag req d sid vs prior p q : W_fields (S (S f)) ->
  Forall2 (fun fd x => has_type e (fty fd) x) (fields_of e sid) vs ->
  (forall fd, In fd (fields_of e sid) -> tfin m e (fty fd) = true) ->
  nest_ok k e (TStruct sid) = true ->
  tag < 256 -> (d <> None -> scalar_ty (TStruct sid) = true) -> prior_ok e (TStruct sid) d prior ->
  enc_var e tag req (TStruct sid) d (VStruct vs) = p ++ q -> q <> [] ->
  (4 + length (fields_of e sid) + tmax (tneed m e) (fields_of e sid) + k + 4 * length p + 3 <= S (S (S f)))%nat ->
  w_concl (S (S (S f))) tag req (TStruct sid) d prior p.
Proof.
  intros HF Hty Hfin Hnest Htag Hd Hpr E Hq Hf. rewrite enc_var_struct in E.
  destruct (head_cut tSB tag _ p q ltac:(reflexivity) E Hq) as [Hab|(u & -> & Eu)]; [apply w_absent; [intros s0 Hs0; split; [exact Hnest|lia]|assumption..]|].
  left. rewrite dec_var_struct. cbv zeta. unfold skip_to. rewrite seek_first by sf. change (tSB =? tSB) with true. cbv iota.
  assert (d = None) by (destruct d; [specialize (Hd ltac:(discriminate)); discriminate|reflexivity]). subst d.
  destruct (struct_priors e k (S f) sid prior Hwf ltac:(lia)) as (ps & -> & Hps).
  (* u is a prefix of the member bytes: the closing StructEnd is not in it *)
  assert (Hu : exists t', enc_fields e vs (fields_of e sid) = u ++ t').
  { destruct (app_prefix_cases _ _ _ _ Eu) as [(t & Ha & Hq')|(t & Hp' & HB)]; [now exists t|].
    change (head tSE 0) with [11] in HB. destruct t as [|t0 t].
    - exists []. now rewrite app_nil_r in *.
    - cbn [app] in HB. injection HB as _ HB. destruct t; [|discriminate]. cbn [app] in HB. congruence. }
  destruct Hu as (t' & Et).
  destruct (HF m (fields_of e sid) vs ps u t' None Hfin Hty (members_ok e k Hwf sid) (wf_asc k e Hwf sid) Hps Et) as [Hb|(i & h & ps' & _ & _ & _ & _ & _ & ->)].
  - rewrite !app_length in Hf. pose proof (head_length tSB tag). lia.
  - bad_of Hb.
  - apply bad_err.
Qed.

Lemma wstep_var f : W_elems f -> W_arr f -> W_entries f -> W_fields f -> W_var (S f).
Proof.
  intros HE HA HM HF m t tag req d v prior p q Hfin Hty Hn Htag Hd Hpr E Hq Hf.
  fold (w_concl (S f) tag req t d prior p). pose proof (tneed_ge3 e m t Hfin) as H3.
  inversion Hty; subst.
  - now apply (wstep_var_scalar f m tag req t d v prior p q).
  - destruct f as [|[|f0]]; [lia|lia|]. now apply (wstep_var_bytes f0 tag req d s prior p q).
  - destruct m as [|m']; [discriminate|]. cbn [tfin tneed] in Hfin, Hf.
    destruct f as [|[|f0]]; [lia|lia|]. apply (wstep_var_vec f0 m' tag req d x xs prior p q); try assumption.
    now apply (ty_nest_vec e k).
  - destruct m as [|m']; [discriminate|]. cbn [tfin tneed] in Hfin, Hf.
    destruct f as [|[|f0]]; [lia|lia|]. apply (wstep_var_arr f0 m' tag req d (length xs) x xs prior p q); try assumption; try reflexivity.
    now apply (ty_nest_arr e k) in Hn.
  - destruct m as [|m']; [discriminate|]. cbn [tfin tneed] in Hfin, Hf. apply andb_true_iff in Hfin. destruct Hfin as [Hfk Hfv].
    apply (ty_nest_map e k) in Hn. destruct Hn as [Hnk Hnv].
    destruct f as [|[|f0]]; [lia|lia|]. now apply (wstep_var_map f0 m' tag req d kt vt kvs prior p q).
  - destruct m as [|m']; [discriminate|]. cbn [tfin tneed] in Hfin, Hf. rewrite forallb_forall in Hfin.
    destruct f as [|[|f0]]; [lia|lia|]. apply (wstep_var_struct f0 m' tag req d sid vs prior p q); try assumption.
    now apply (ty_nest_nest e k).
Qed.

Theorem w_all : forall f, W_var f /\ W_elems f /\ W_arr f /\ W_entries f /\ W_fields f.
Proof.
  induction f as [|f (HV & HE & HA & HM & HF)].
  - repeat split; intro; intros; lia.
  - repeat split.
    + now apply wstep_var.
    + now apply wstep_elems.
    + now apply wstep_arr.
    + now apply wstep_entries.
    + now apply wstep_fields.
Qed.
End PrefixGen.

(* C06, every struct type with a finite type graph: every prefix p of the encoding of a well-typed value decodes to
   an error (DErr), or to exactly the first i members - those completely
   present in p; p is their encoding, possibly followed by the lone first byte of a two-byte head - with all later
   members optional and holding admissible reset values (declared default, else zero), nothing left unread *)
Theorem prefix_general e k n sid vs p q :
  wf_schema k e -> (S k <= 64)%nat -> tfin n e (TStruct sid) = true -> (tneed n e (TStruct sid) + k <= 64)%nat ->
  has_type e (TStruct sid) (VStruct vs) -> encode e sid (VStruct vs) = p ++ q ->
  bad (decode e sid p) \/
  exists i h ps, (i <= length (fields_of e sid))%nat /\
    p = enc_fields e (firstn i vs) (firstn i (fields_of e sid)) ++ h /\ (h = [] \/ halfhead h) /\
    optional (skipn i (fields_of e sid)) /\
    Forall2 (fun fd pr => prior_ok e (fty fd) (fdef fd) pr) (fields_of e sid) ps /\
    decode e sid p = DOk (VStruct (firstn i (norm_fields e vs (fields_of e sid)) ++ skipn i ps)) [].
Proof.
  intros Hwf Hk Hfin Hn Hty HE. unfold decode, decode_into.
  replace (4 * length p + 64)%nat with (S (4 * length p + 63)) by lia.
  destruct (struct_priors1 e k (4 * length p + 63) sid (zero_struct e sid) Hwf ltac:(lia)) as (ps & -> & Hps).
  rewrite encode_fields in HE. inversion Hty as [| | | | |? ? Hvs]; subst; [discriminate|].
  destruct n as [|n']; [discriminate|]. cbn [tfin tneed] in Hfin, Hn. rewrite forallb_forall in Hfin.
  destruct (w_all e k Hwf (S (4 * length p + 63))) as (_ & _ & _ & _ & HF).
  destruct (HF n' (fields_of e sid) vs ps p q None Hfin Hvs (members_ok e k Hwf sid) (wf_asc k e Hwf sid) Hps HE ltac:(lia))
    as [->|(i & h & ps' & Hi & Hp & Hh & Ho & Hps' & ->)].
  - left. apply bad_err.
  - right. exists i, h, ps'. repeat (split; [assumption|]). reflexivity.
Qed.
Print Assumptions prefix_general.
