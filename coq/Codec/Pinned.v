(* The generated decoder as it was BEFORE the repairs of the generator template (fix commits "generated decoders
   size a vector by the count on the wire ...", "generated decoder of a fixed-size array indexes it ...",
   "generated ResetDefault leaves members without a declared default untouched", "ReadSliceInt8/ReadSliceUint8
   leave the target's previous content ..."): kept only to state, as _pinned_refuted examples, what the pinned
   code did on the witnesses of the recorded findings and that the repaired model (Codec/GenCodec.v) behaves
   differently on exactly those inputs. Nothing else depends on this file. *)
From Coq Require Import List NArith ZArith Lia Bool Arith.
From TarsV Require Import Gen.Consts Base.Hex Codec.Wire Codec.Skip Codec.Prim Codec.GenCodec.
Import ListNotations.
Open Scope N_scope.

(* ResetDefault: members with a declared default are set to it, struct members are reset recursively,
   everything else keeps its prior value *)
Fixpoint reset_default_pinned (fuel : nat) (e : env) (sid : nat) (v : val) : val :=
  match fuel with O => v | S f =>
  match v with
  | VStruct vs =>
      VStruct ((fix go (fds : schema) (vs : list val) : list val :=
                  match fds, vs with
                  | fd :: fds', x :: vs' =>
                      (match fdef fd with
                       | Some d => d
                       | None => match fty fd with TStruct s => reset_default_pinned f e s x | _ => x end
                       end) :: go fds' vs'
                  | _, _ => vs
                  end) (fields_of e sid) vs)
  | _ => v
  end end.

(* ReadSliceInt8 / ReadSliceUint8 at the pinned revision + 7b8c6ea: len <= 0 leaves the target alone, len > remaining is an error *)
Definition read_slice_pinned (n : Z) (r : list N) : option (option (list N) * list N) :=
  if (n <=? 0)%Z then Some (None, r)
  else if (Z.of_nat (length r) <? n)%Z then None
  else Some (Some (firstn (Z.to_nat n) r), skipn (Z.to_nat n) r).

Fixpoint dec_var_pinned (fuel : nat) (e : env) (tag : N) (req : bool) (t : ty) (prior : val) (bs : list N) {struct fuel} : dres val :=
  match fuel with O => DFuel | S f =>
  match t with
  | TVec x =>
      match skip_to_no_check f tag req bs with
      | NotFound r => DOk prior r
      | SeekErr => DErr | SeekFuel => DFuel
      | Found wt r =>
          if wt =? tLIST then
            match read_count r with
            | CErr _ => DErr
            | COk n r1 =>
                if (n <? 0)%Z then DPanic site_makeslice
                else if (Z.of_nat (length r1) <? n)%Z then DHuge
                else match dec_elems_pinned f e x n r1 with
                     | DOk xs r2 => DOk (list_val x xs) r2
                     | DErr => DErr | DPanic s => DPanic s | DHuge => DHuge | DFuel => DFuel
                     end
            end
          else if wt =? tSIMPLE then
            if is_byte x then
              match skip_to f tBYTE 0 true r with
              | Found _ r1 =>
                  match read_count r1 with
                  | CErr _ => DErr
                  | COk n r2 => match read_slice_pinned n r2 with
                                | None => DErr
                                | Some (None, r3) => DOk prior r3
                                | Some (Some s, r3) => DOk (bytes_val x s) r3
                                end
                  end
              | SeekFuel => DFuel
              | _ => DErr
              end
            else DErr
          else DErr
      end
  | TArr len x =>
      match skip_to_no_check f tag req bs with
      | NotFound r => DOk prior r
      | SeekErr => DErr | SeekFuel => DFuel
      | Found wt r =>
          if wt =? tLIST then
            match read_count r with
            | CErr _ => DErr
            | COk n r1 =>
                match dec_arr_pinned f e x len 0 n (match prior with VList l => l | _ => [] end) r1 with
                | DOk xs r2 => DOk (VList xs) r2
                | DErr => DErr | DPanic s => DPanic s | DHuge => DHuge | DFuel => DFuel
                end
            end
          else DErr                                      (* SimpleList into a fixed array is not generated *)
      end
  | TMap kt vt =>
      match skip_to f tMAP tag req bs with
      | NotFound r => DOk prior r
      | SeekErr => DErr | SeekFuel => DFuel
      | Found _ r =>
          match read_count r with
          | CErr _ => DErr
          | COk n r1 => match dec_entries_pinned f e kt vt n r1 with
                        | DOk kvs r2 => DOk (VMap kvs) r2
                        | DErr => DErr | DPanic s => DPanic s | DHuge => DHuge | DFuel => DFuel
                        end
          end
      end
  | TStruct sid =>
      let prior' := reset_default_pinned f e sid prior in
      match skip_to f tSB tag req bs with
      | NotFound r => DOk prior' r
      | SeekErr => DErr | SeekFuel => DFuel
      | Found _ r =>
          match dec_fields_pinned f e (fields_of e sid) (match reset_default_pinned f e sid prior' with VStruct l => l | _ => [] end) r with
          | DOk vs r1 => match skip_to_end f 0 r1 with
                         | (SOk, r2) => DOk (VStruct vs) r2
                         | (SFuel, _) => DFuel
                         | _ => DErr
                         end
          | DErr => DErr | DPanic s => DPanic s | DHuge => DHuge | DFuel => DFuel
          end
      end
  | _ => dec_scalar f tag req t prior bs
  end end
with dec_elems_pinned (fuel : nat) (e : env) (x : ty) (n : Z) (bs : list N) {struct fuel} : dres (list val) :=
  match fuel with O => DFuel | S f =>
    if (n <=? 0)%Z then DOk [] bs else
    match dec_var_pinned f e 0 true x (zero_of f e x) bs with
    | DOk v r => match dec_elems_pinned f e x (n - 1)%Z r with
                 | DOk vs r' => DOk (v :: vs) r'
                 | o => o
                 end
    | DErr => DErr | DPanic s => DPanic s | DHuge => DHuge | DFuel => DFuel
    end
  end
with dec_arr_pinned (fuel : nat) (e : env) (x : ty) (len : nat) (i : nat) (n : Z) (cur : list val) (bs : list N) {struct fuel} : dres (list val) :=
  match fuel with O => DFuel | S f =>
    if (n <=? 0)%Z then DOk cur bs else
    if (len <=? i)%nat then DPanic site_array_index else
    match dec_var_pinned f e 0 true x (nth i cur (zero_of f e x)) bs with
    | DOk v r => dec_arr_pinned f e x len (S i) (n - 1)%Z (replace_nth i v cur) r
    | DErr => DErr | DPanic s => DPanic s | DHuge => DHuge | DFuel => DFuel
    end
  end
with dec_entries_pinned (fuel : nat) (e : env) (kt vt : ty) (n : Z) (bs : list N) {struct fuel} : dres (list (val * val)) :=
  match fuel with O => DFuel | S f =>
    if (n <=? 0)%Z then DOk [] bs else
    match dec_var_pinned f e 0 true kt (zero_of f e kt) bs with
    | DOk k r =>
        match dec_var_pinned f e 1 true vt (zero_of f e vt) r with
        | DOk v r' => match dec_entries_pinned f e kt vt (n - 1)%Z r' with
                      | DOk kvs r'' => DOk ((k, v) :: kvs) r''
                      | o => o
                      end
        | DErr => DErr | DPanic s => DPanic s | DHuge => DHuge | DFuel => DFuel
        end
    | DErr => DErr | DPanic s => DPanic s | DHuge => DHuge | DFuel => DFuel
    end
  end
with dec_fields_pinned (fuel : nat) (e : env) (fds : schema) (priors : list val) (bs : list N) {struct fuel} : dres (list val) :=
  match fuel with O => DFuel | S f =>
    match fds with
    | [] => DOk [] bs
    | fd :: fds' =>
        let p := match priors with p :: _ => p | [] => zero_of f e (fty fd) end in
        match dec_var_pinned f e (ftag fd) (freq fd) (fty fd) p bs with
        | DOk v r => match dec_fields_pinned f e fds' (tl priors) r with
                     | DOk vs r' => DOk (v :: vs) r'
                     | o => o
                     end
        | DErr => DErr | DPanic s => DPanic s | DHuge => DHuge | DFuel => DFuel
        end
    end
  end.

(* ReadFrom of a top-level struct into a target holding [prior] *)
Definition decode_into_pinned (e : env) (sid : nat) (prior : val) (bs : list N) : dres val :=
  let fuel := (4 * length bs + 64)%nat in
  match dec_fields_pinned fuel e (fields_of e sid) (match reset_default_pinned fuel e sid prior with VStruct l => l | _ => [] end) bs with
  | DOk vs r => DOk (VStruct vs) r
  | DErr => DErr | DPanic s => DPanic s | DHuge => DHuge | DFuel => DFuel
  end.
Definition decode_pinned (e : env) (sid : nat) (bs : list N) : dres val := decode_into_pinned e sid (zero_struct e sid) bs.

(* ---------- C05 (F1): LIST count -1 panicked in make, 2^30 with nothing behind it reached make ---------- *)
Definition ex_env_bytes : env := [[ {| ftag := 7; freq := true; fty := TVec TI8; fdef := None |} ]].
Example C05_total_pinned_refuted :
  decode_pinned ex_env_bytes 0 [121; 0; 255] = DPanic site_makeslice /\
  decode_pinned ex_env_bytes 0 [121; 2; 64; 0; 0; 0] = DHuge.
Proof. vm_compute. split; reflexivity. Qed.
Example C05_total_repaired_witness :
  decode ex_env_bytes 0 [121; 0; 255] = DErr /\ decode ex_env_bytes 0 [121; 2; 64; 0; 0; 0] = DErr.
Proof. vm_compute. split; reflexivity. Qed.

(* ---------- C06/C05 (F2): a fixed array int x[3] sent with count 4 indexed st.X[3] ---------- *)
Definition ex_env_arr : env := [[ {| ftag := 1; freq := true; fty := TArr 3 TI32; fdef := None |} ]].
Example C06_array_count_pinned_refuted :
  decode_pinned ex_env_arr 0 [25; 0; 4; 12; 12; 12; 12] = DPanic site_array_index.
Proof. vm_compute. reflexivity. Qed.
Example C06_array_count_repaired_witness :
  decode ex_env_arr 0 [25; 0; 4; 12; 12; 12; 12] = DErr /\
  decode ex_env_arr 0 [25; 0; 3; 12; 0; 7; 12] = DOk (VStruct [VList [VInt 0; VInt 7; VInt 0]]) [].
Proof. vm_compute. split; reflexivity. Qed.

(* ---------- C04 (F3): a reused target kept a stale optional member without a declared default ---------- *)
Definition ex_env_opt : env := [[ {| ftag := 0; freq := true; fty := TI32; fdef := None |};
                                  {| ftag := 1; freq := false; fty := TStr; fdef := None |} ]].
Example C04_reuse_pinned_refuted :
  decode_into_pinned ex_env_opt 0 (VStruct [VInt 7; VStr [98; 111; 111; 109]]) (w_int32 5 0)
  = DOk (VStruct [VInt 5; VStr [98; 111; 111; 109]]) [].
Proof. vm_compute. reflexivity. Qed.
Example C04_reuse_repaired_witness :
  decode_into ex_env_opt 0 (VStruct [VInt 7; VStr [98; 111; 111; 109]]) (w_int32 5 0) = DOk (VStruct [VInt 5; VStr []]) [].
Proof. vm_compute. reflexivity. Qed.

(* ---------- C01/C04 (F4): an empty byte vector (SimpleList, length 0) left the target's bytes in place ---------- *)
Example C04_empty_bytes_pinned_refuted :
  decode_into_pinned ex_env_bytes 0 (VStruct [VBytes [1; 2; 3]]) [125; 0; 12] = DOk (VStruct [VBytes [1; 2; 3]]) [].
Proof. vm_compute. reflexivity. Qed.
Example C04_empty_bytes_repaired_witness :
  decode_into ex_env_bytes 0 (VStruct [VBytes [1; 2; 3]]) [125; 0; 12] = DOk (VStruct [VBytes []]) [] /\
  decode_into ex_env_bytes 0 (VStruct [VBytes [1; 2; 3]]) [125; 0; 0; 255] = DErr.
Proof. vm_compute. split; reflexivity. Qed.
