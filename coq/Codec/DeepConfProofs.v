(* C03, second clause at every depth: the wire tree of a well-typed value conforms to its IDL type recursively - every
   struct level carries its members under their declared tags, in schema order, required ones present; every vector /
   array element sits under tag 0, every map key under tag 0 and value under tag 1; every leaf has a wire type its
   reader accepts; vector<byte> is a SimpleList. *)
From Coq Require Import List NArith ZArith Lia Bool Arith.
From Coq Require Import ZifyN ZifyNat ZifyBool.
From TarsV Require Import Gen.Consts Base.Hex Codec.Wire Codec.Skip Codec.SkipProofs Codec.Prim Codec.PrimProofs
  Codec.GenCodec Codec.Corr Codec.GenProofs Codec.RoundTrip Codec.RoundTripProofs Codec.WireSpec Codec.WireSpecProofs.
Import ListNotations.
Open Scope N_scope.

Inductive tconf (e : env) : ty -> wf -> Prop :=
| TC_scalar t w : scalar_ty t = true -> adm t (ty_of w) = true -> wdepth w = 0 -> tconf e t w
| TC_bytes s : tconf e (TVec TI8) (WSimple s)
| TC_vec x l : x <> TI8 -> Forall (fun p => fst p = 0 /\ tconf e x (snd p)) l -> tconf e (TVec x) (WList l)
| TC_arr n x l : length l = n -> Forall (fun p => fst p = 0 /\ tconf e x (snd p)) l -> tconf e (TArr n x) (WList l)
| TC_map kt vt m :
    Forall (fun p => fst (fst p) = 0 /\ fst (snd p) = 1 /\ tconf e kt (snd (fst p)) /\ tconf e vt (snd (snd p))) m ->
    tconf e (TMap kt vt) (WMap m)
| TC_struct sid fs : sconf e (fields_of e sid) fs -> tconf e (TStruct sid) (WStruct fs)
with sconf (e : env) : schema -> list (N * wf) -> Prop :=
| SC_nil : sconf e [] []
| SC_skip fd fds fs : freq fd = false -> sconf e fds fs -> sconf e (fd :: fds) fs
| SC_take fd fds w fs : tconf e (fty fd) w -> sconf e fds fs -> sconf e (fd :: fds) ((ftag fd, w) :: fs).

Lemma scalar_wire_flat e t v : scalar_ty t = true -> sc_typed t v -> wdepth (wire_of e t v) = 0.
Proof.
  intros Hs Hty. destruct t; try discriminate; destruct v; cbn [sc_typed] in *; try contradiction; cbn [wire_of]; unfold wint, wstr;
    repeat match goal with |- context [if ?c then _ else _] => destruct c end; reflexivity.
Qed.

Section Deep.
Variable e : env.

Definition T_var (n : nat) : Prop := forall t v, has_type e t v -> (need v <= n)%nat -> tconf e t (wire_of e t v).
Definition T_elems (n : nat) : Prop := forall x xs, Forall (has_type e x) xs -> (need_list xs <= n)%nat ->
  Forall (fun p => fst p = 0 /\ tconf e x (snd p)) (wire_elems e x xs).
Definition T_entries (n : nat) : Prop := forall kt vt kvs,
  Forall (fun p => has_type e kt (fst p) /\ has_type e vt (snd p)) kvs -> (need_entries kvs <= n)%nat ->
  Forall (fun p => fst (fst p) = 0 /\ fst (snd p) = 1 /\ tconf e kt (snd (fst p)) /\ tconf e vt (snd (snd p))) (wire_entries e kt vt kvs).
Definition T_fields (n : nat) : Prop := forall fds vs, Forall2 (fun fd x => has_type e (fty fd) x) fds vs ->
  (need_list vs <= n)%nat -> sconf e fds (wire_fields e vs fds).

Lemma deep_all : forall n, T_var n /\ T_elems n /\ T_entries n /\ T_fields n.
Proof.
  induction n as [|n (HV & HE & HM & HF)].
  { repeat split.
    - intros t v _ Hn. pose proof (need_ge v). lia.
    - intros x xs _ Hn. pose proof (need_list_ge xs). lia.
    - intros kt vt kvs _ Hn. pose proof (need_entries_ge kvs). lia.
    - intros fds vs _ Hn. pose proof (need_list_ge vs). lia. }
  repeat split.
  - intros t v Hty Hn. inversion Hty; subst.
    + apply TC_scalar; [assumption|now apply adm_wire|now apply scalar_wire_flat].
    + cbn [wire_of]. apply TC_bytes.
    + rewrite wire_of_vec. rewrite need_VList in Hn. apply TC_vec; [assumption|]. apply HE; [assumption|lia].
    + rewrite wire_of_arr. rewrite need_VList in Hn. apply TC_arr; [now rewrite wire_elems_length|]. apply HE; [assumption|lia].
    + rewrite wire_of_map. rewrite need_VMap in Hn. apply TC_map. apply HM; [assumption|lia].
    + rewrite wire_of_struct. rewrite need_VStruct in Hn. apply TC_struct. apply HF; [assumption|lia].
  - intros x xs Hty Hn. destruct Hty as [|y r Hy Hr]; [constructor|]. cbn [wire_elems need_list] in *.
    constructor; [cbn [fst snd]; split; [reflexivity|apply HV; [assumption|lia]]|apply HE; [assumption|lia]].
  - intros kt vt kvs Hty Hn. destruct Hty as [|[ky y] r [Hk Hy] Hr]; [constructor|]. cbn [fst snd] in Hk, Hy.
    cbn [wire_entries need_entries] in *.
    constructor; [cbn [fst snd]; repeat split; apply HV; try assumption; lia|apply HM; [assumption|lia]].
  - intros fds vs Hty Hn. destruct Hty as [|fd x fds vs Hx Hvs]; [constructor|]. cbn [wire_fields need_list] in *.
    destruct (left_out (fty fd) (freq fd) (fdef fd) x) eqn:El.
    + apply SC_skip; [|apply HF; [assumption|lia]]. destruct (freq fd) eqn:Er; [|reflexivity]. now rewrite left_out_req in El.
    + apply SC_take; [apply HV; [assumption|lia]|apply HF; [assumption|lia]].
Qed.

Theorem wire_tconf t v : has_type e t v -> tconf e t (wire_of e t v).
Proof. intros H. destruct (deep_all (need v)) as (HV & _). now apply HV. Qed.
Theorem wire_fields_sconf sid vs : has_type e (TStruct sid) (VStruct vs) -> sconf e (fields_of e sid) (wire_fields e vs (fields_of e sid)).
Proof.
  intros H. inversion H as [| | | | |? ? Hvs]; subst; [discriminate|]. destruct (deep_all (need_list vs)) as (_ & _ & _ & HF). now apply HF.
Qed.
End Deep.
Print Assumptions wire_tconf.
Print Assumptions wire_fields_sconf.
