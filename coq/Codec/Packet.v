(* C05T model: packet-level pack / unpack.
     tars/protocol/tarsprotocol.go  TarsProtocol.RequestPack, ResponseUnpack, ParsePackage (= TarsRequest, Frame/Framing.v)
     tars/tarsprotocol.go           Protocol.rsp2Byte, req2Byte (server side framing of the reply)
   A packet is a 4-byte big-endian length (which counts itself) followed by the body, the encoding of a
   RequestPacket / ResponsePacket (schema-directed codec of GenCodec.v over the regenerated schemas).
   ResponseUnpack slices pkg[4:] without a length check: the Go panic is an explicit outcome.
   Definitions only; proofs are in PacketProofs.v. *)
From Coq Require Import List NArith ZArith Lia Bool Arith.
From TarsV Require Import Gen.Consts Base.Hex Codec.Wire Codec.Skip Codec.Prim Codec.GenCodec Frame.Framing.
Import ListNotations.
Open Scope N_scope.

(* binary.BigEndian.PutUint32(bs, uint32(len(bs))) over four reserved bytes followed by the body *)
Definition frame (body : list N) : list N := be 4 ((4 + N.of_nat (length body)) mod 4294967296) ++ body.

Definition site_slice_bounds : N := 3.   (* pkg[4:] with len(pkg) < 4 *)

Section Packets.
Variable e : env.
Variables req_sid rsp_sid : nat.          (* struct ids of RequestPacket / ResponsePacket in e *)
Variable tup_version : Z.                 (* basef.TUPVERSION *)

Definition request_pack (req : val) : list N := frame (encode e req_sid req).

Definition unpack (sid : nat) (pkg : list N) : dres val :=
  if (length pkg <? 4)%nat then DPanic site_slice_bounds else decode e sid (skipn 4 pkg).
Definition response_unpack := unpack rsp_sid.
(* the server's Invoke / InvokeTimeout read the request the same way: codec.NewReader(req[4:]); ReadFrom *)
Definition request_unpack := unpack req_sid.

(* member of a struct value by its tag *)
Fixpoint member (fds : schema) (vs : list val) (tag : N) : option val :=
  match fds, vs with
  | fd :: fds', v :: vs' => if ftag fd =? tag then Some v else member fds' vs' tag
  | _, _ => None
  end.

(* req2Byte: a zero RequestPacket that takes over seven members of the response; pairs (request tag, response tag):
   iVersion 1<-1, cPacketType 2<-2, iMessageType 3<-4, iRequestId 4<-3, sBuffer 7<-6, context 9<-9, status 10<-7 *)
Definition req_from : list (N * N) := [(1, 1); (2, 2); (3, 4); (4, 3); (7, 6); (9, 9); (10, 7)].
Fixpoint assoc (l : list (N * N)) (k : N) : option N :=
  match l with [] => None | (a, b) :: r => if a =? k then Some b else assoc r k end.
Definition req_of_rsp (rsp : val) : val :=
  let vs := match rsp with VStruct l => l | _ => [] end in
  VStruct (map (fun fd =>
                  match assoc req_from (ftag fd) with
                  | Some t => match member (fields_of e rsp_sid) vs t with Some v => v | None => zero_of 64 e (fty fd) end
                  | None => zero_of 64 e (fty fd)
                  end) (fields_of e req_sid)).

Definition rsp_version (rsp : val) : Z :=
  match rsp with
  | VStruct l => match member (fields_of e rsp_sid) l 1 with Some (VInt z) => z | _ => 0%Z end
  | _ => 0%Z
  end.

(* rsp2Byte: a reply to a TUP request is sent as a RequestPacket *)
Definition rsp_body (rsp : val) : nat * val :=
  if (rsp_version rsp =? tup_version)%Z then (req_sid, req_of_rsp rsp) else (rsp_sid, rsp).
Definition rsp2byte (rsp : val) : list N := let '(sid, v) := rsp_body rsp in frame (encode e sid v).

(* Protocol.InvokeTimeout: the request is read like in Invoke (pkg[4:], ReadFrom, the error ignored), and a reply
   carrying its version, packet type and request id, iRet = 1 and a fixed description is framed by rsp2Byte. When the
   request does not decode, the reply is built from whatever members were read before the error: not modelled
   (DErr); the reply is then only monitored to be a well-formed packet. *)
Definition timeout_desc : list N := raw "server invoke timeout"%hex.
Definition timeout_rsp (req : val) : val :=
  let vs := match req with VStruct l => l | _ => [] end in
  let from t z := match member (fields_of e req_sid) vs t with Some v => v | None => z end in
  VStruct (map (fun fd =>
                  let z := zero_of 64 e (fty fd) in
                  if ftag fd =? 1 then from 1 z            (* iVersion *)
                  else if ftag fd =? 2 then from 2 z       (* cPacketType *)
                  else if ftag fd =? 3 then from 4 z       (* iRequestId <- request tag 4 *)
                  else if ftag fd =? 5 then VInt 1         (* iRet *)
                  else if ftag fd =? 8 then VStr timeout_desc
                  else z) (fields_of e rsp_sid)).
Definition invoke_timeout (pkg : list N) : dres (list N) :=
  match request_unpack pkg with
  | DOk req r => DOk (rsp2byte (timeout_rsp req)) r
  | DErr => DErr | DPanic s => DPanic s | DHuge => DHuge | DFuel => DFuel
  end.

End Packets.

(* ParsePackage = TarsRequest: status and length as the Go function returns them *)
Definition parse_package (max : N) (buf : list N) : N * N :=
  match tars_request max buf with
  | Less => (0, c_PackageLess)
  | Full n => (N.of_nat n, c_PackageFull)
  | Bad => (0, c_PackageError)
  end.
