(* Codec core: head bytes, big-endian integers, the bytes.Reader model (the reader is its remaining
   suffix), fixed-width reads as repaired (io.ReadFull: a short read is an error and consumes what is left). *)
From Coq Require Import List NArith ZArith Lia Bool Arith.
From Coq Require Import ZifyN ZifyNat ZifyBool.
From TarsV Require Import Gen.Consts.
Import ListNotations.
Ltac Zify.zify_post_hook ::= Z.div_mod_to_equations.
Open Scope N_scope.

(* wire type codes: regenerated from the tree (Gen/Consts.v) *)
Definition tBYTE := c_BYTE.  Definition tSHORT := c_SHORT. Definition tINT := c_INT.   Definition tLONG := c_LONG.
Definition tFLOAT := c_FLOAT. Definition tDOUBLE := c_DOUBLE. Definition tSTR1 := c_STRING1. Definition tSTR4 := c_STRING4.
Definition tMAP := c_MAP.   Definition tLIST := c_LIST.   Definition tSB := c_StructBegin.  Definition tSE := c_StructEnd.
Definition tZERO := c_ZeroTag. Definition tSIMPLE := c_SimpleList.

Definition head (ty tag : N) : list N :=
  if tag <? 15 then [tag * 16 + ty] else [240 + ty; tag].

(* readHead: type, tag, rest, and whether the head occupied two bytes *)
Definition read_head2 (bs : list N) : option (N * N * list N * bool) :=
  match bs with
  | [] => None
  | b :: r =>
      let ty := b mod 16 in let tg := b / 16 in
      if tg =? 15 then match r with [] => None | t :: r' => Some (ty, t, r', true) end
      else Some (ty, tg, r, false)
  end.
Definition read_head (bs : list N) : option (N * N * list N) :=
  match read_head2 bs with Some (ty, tg, r, _) => Some (ty, tg, r) | None => None end.

(* big-endian, MSB first *)
Fixpoint be (n : nat) (v : N) : list N :=
  match n with O => [] | S k => be k (v / 256) ++ [v mod 256] end.

Fixpoint be_val (acc : N) (bs : list N) : N :=
  match bs with [] => acc | b :: r => be_val (acc * 256 + b) r end.

(* io.ReadFull into an n-byte array: all n bytes or an error (the reader is then at the end) *)
Definition bread (n : nat) (bs : list N) : option (N * list N) :=
  if (n <=? length bs)%nat then Some (be_val 0 (firstn n bs), skipn n bs) else None.

(* two's complement *)
Definition sext (bits : Z) (v : N) : Z :=
  let z := Z.of_N v in if (z <? 2 ^ (bits - 1))%Z then z else (z - 2 ^ bits)%Z.
Definition wrapu (bits : Z) (z : Z) : N := Z.to_N (z mod 2 ^ bits).
Definition wraps (bits : Z) (z : Z) : Z := sext bits (wrapu bits z).
