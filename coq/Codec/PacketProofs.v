From TarsV Require Import Codec.Packet.
