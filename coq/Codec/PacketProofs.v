(* C05T proofs about the packet-level pack / unpack model (Packet.v): the header announces exactly the packet's
   length, ParsePackage accepts a packed packet at exactly that length, unpack (pack body) is the struct decoder on
   the body, and the slice panic of the unpack functions cannot be reached through ParsePackage. *)
From Coq Require Import List NArith ZArith Lia Bool Arith.
From Coq Require Import ZifyN ZifyNat ZifyBool.
From TarsV Require Import Gen.Consts Base.Hex Codec.Wire Codec.WireProofs Codec.Skip Codec.Prim Codec.GenCodec
  Frame.Framing Codec.Packet.
Import ListNotations.
Ltac Zify.zify_post_hook ::= Z.div_mod_to_equations.
Open Scope N_scope.

Lemma be4_shape v : exists a b c d, be 4 v = [a; b; c; d].
Proof.
  pose proof (be_length 4 v) as H. destruct (be 4 v) as [|a [|b [|c [|d [|x l]]]]]; try discriminate. now exists a, b, c, d.
Qed.
Lemma hdr_be4 v rest : v < 4294967296 -> hdr (be 4 v ++ rest) = Some v.
Proof.
  intros Hv. pose proof (be_val_be 4 v 0 ltac:(cbn; lia)) as H.
  destruct (be4_shape v) as (a & b & c & d & E). rewrite E in *. cbn [app hdr]. f_equal.
  cbn [be_val] in H. cbn in H. lia.
Qed.

Lemma frame_length body : length (frame body) = (4 + length body)%nat.
Proof. unfold frame. now rewrite app_length, be_length. Qed.

(* header length consistency: the four header bytes are the big-endian length of the whole packet *)
Theorem frame_header body more : 4 + N.of_nat (length body) < 4294967296 ->
  hdr (frame body ++ more) = Some (N.of_nat (length (frame body))).
Proof.
  intros H. unfold frame. rewrite <- app_assoc. rewrite N.mod_small by assumption. rewrite hdr_be4 by assumption.
  f_equal. rewrite app_length, be_length. lia.
Qed.

(* ParsePackage on a packed packet followed by anything: a full package of exactly the packet's length *)
Theorem parse_frame max body more : 4 + N.of_nat (length body) < 4294967296 -> 4 + N.of_nat (length body) <= max ->
  tars_request max (frame body ++ more) = Full (length (frame body)) /\
  firstn (length (frame body)) (frame body ++ more) = frame body.
Proof.
  intros H Hm. split.
  - unfold tars_request. rewrite frame_header by assumption. rewrite frame_length.
    destruct ((N.of_nat (4 + length body) <? 4) || (max <? N.of_nat (4 + length body))) eqn:E; [lia|].
    rewrite app_length, frame_length.
    destruct (N.of_nat (4 + length body + length more) <? N.of_nat (4 + length body)) eqn:E2; [lia|].
    now rewrite Nnat.Nat2N.id.
  - rewrite firstn_app, Nat.sub_diag, firstn_all. cbn. now rewrite app_nil_r.
Qed.

Lemma skipn4_frame body : skipn 4 (frame body) = body.
Proof. unfold frame. destruct (be4_shape ((4 + N.of_nat (length body)) mod 4294967296)) as (a & b & c & d & ->). reflexivity. Qed.

Section Packets.
Variable e : env.
Variables req_sid rsp_sid : nat.
Variable tup_version : Z.

(* unpack of a packed body is the struct decoder on the body: no panic at the slice, nothing lost or added *)
Theorem unpack_frame sid body : unpack e sid (frame body) = decode e sid body.
Proof.
  unfold unpack. rewrite frame_length. destruct (4 + length body <? 4)%nat eqn:E; [lia|]. now rewrite skipn4_frame.
Qed.

(* on arbitrary bytes: the only outcome unpack adds to those of the struct decoder is the slice panic, and it
   occurs exactly on inputs shorter than the header *)
Theorem unpack_total sid pkg :
  ((length pkg < 4)%nat /\ unpack e sid pkg = DPanic site_slice_bounds) \/
  ((4 <= length pkg)%nat /\ unpack e sid pkg = decode e sid (skipn 4 pkg)).
Proof. unfold unpack. destruct (length pkg <? 4)%nat eqn:E; [left|right]; split; try reflexivity; lia. Qed.

(* whatever ParsePackage hands over as a full package is at least a header long: the receive paths cannot reach
   the slice panic *)
Theorem full_package_unpack_safe max buf n sid : tars_request max buf = Full n ->
  (4 <= length (firstn n buf))%nat /\ unpack e sid (firstn n buf) = decode e sid (skipn 4 (firstn n buf)).
Proof.
  unfold tars_request. destruct (hdr buf) as [l|]; [|discriminate].
  destruct ((l <? 4) || (max <? l)) eqn:E; [discriminate|]. destruct (N.of_nat (length buf) <? l) eqn:E2; [discriminate|].
  intros H; inversion H; subst n. assert (Hl : (4 <= length (firstn (N.to_nat l) buf))%nat) by (rewrite firstn_length; lia).
  split; [assumption|]. unfold unpack. destruct (length (firstn (N.to_nat l) buf) <? 4)%nat eqn:E3; [lia|reflexivity].
Qed.

(* RequestPack then the server's unpack / rsp2Byte then the client's ResponseUnpack: the struct codec round trip
   on the packet value, with nothing added by the framing *)
Theorem request_pack_unpack req :
  request_unpack e req_sid (request_pack e req_sid req) = decode e req_sid (encode e req_sid req).
Proof. apply unpack_frame. Qed.

Theorem rsp2byte_unpack rsp :
  let '(sid, v) := rsp_body e req_sid rsp_sid tup_version rsp in
  unpack e sid (rsp2byte e req_sid rsp_sid tup_version rsp) = decode e sid (encode e sid v).
Proof. unfold rsp2byte. destruct (rsp_body e req_sid rsp_sid tup_version rsp) as [sid v]. apply unpack_frame. Qed.

Theorem rsp2byte_plain rsp : (rsp_version e rsp_sid rsp =? tup_version)%Z = false ->
  response_unpack e rsp_sid (rsp2byte e req_sid rsp_sid tup_version rsp) = decode e rsp_sid (encode e rsp_sid rsp).
Proof. intros H. unfold rsp2byte, rsp_body, response_unpack. rewrite H. apply unpack_frame. Qed.

Theorem rsp2byte_tup rsp : (rsp_version e rsp_sid rsp =? tup_version)%Z = true ->
  request_unpack e req_sid (rsp2byte e req_sid rsp_sid tup_version rsp) =
  decode e req_sid (encode e req_sid (req_of_rsp e req_sid rsp_sid rsp)).
Proof. intros H. unfold rsp2byte, rsp_body, request_unpack. rewrite H. apply unpack_frame. Qed.

(* every packet the pack functions produce is accepted by ParsePackage at its full length (below the limit) *)
Theorem request_pack_parses max req more : let pk := request_pack e req_sid req in
  N.of_nat (length pk) < 4294967296 -> N.of_nat (length pk) <= max ->
  hdr (pk ++ more) = Some (N.of_nat (length pk)) /\ tars_request max (pk ++ more) = Full (length pk).
Proof.
  cbv zeta. unfold request_pack. rewrite frame_length. intros H1 H2.
  split; [rewrite frame_header by lia; now rewrite frame_length|].
  rewrite <- (frame_length (encode e req_sid req)). apply parse_frame; lia.
Qed.
Theorem rsp2byte_parses max rsp more : let pk := rsp2byte e req_sid rsp_sid tup_version rsp in
  N.of_nat (length pk) < 4294967296 -> N.of_nat (length pk) <= max ->
  hdr (pk ++ more) = Some (N.of_nat (length pk)) /\ tars_request max (pk ++ more) = Full (length pk).
Proof.
  cbv zeta. unfold rsp2byte. destruct (rsp_body e req_sid rsp_sid tup_version rsp) as [sid v]. rewrite frame_length. intros H1 H2.
  split; [rewrite frame_header by lia; now rewrite frame_length|].
  rewrite <- (frame_length (encode e sid v)). apply parse_frame; lia.
Qed.
(* InvokeTimeout: below four bytes the slice panic, otherwise never that panic; a reply, when the request decodes,
   is a packet that ParsePackage accepts at exactly its length *)
Theorem invoke_timeout_short pkg : (length pkg < 4)%nat ->
  invoke_timeout e req_sid rsp_sid tup_version pkg = DPanic site_slice_bounds.
Proof. intros H. unfold invoke_timeout, request_unpack, unpack. destruct (length pkg <? 4)%nat eqn:E; [reflexivity|lia]. Qed.
Theorem invoke_timeout_reply max pkg reply r more : invoke_timeout e req_sid rsp_sid tup_version pkg = DOk reply r ->
  N.of_nat (length reply) < 4294967296 -> N.of_nat (length reply) <= max ->
  hdr (reply ++ more) = Some (N.of_nat (length reply)) /\ tars_request max (reply ++ more) = Full (length reply).
Proof.
  unfold invoke_timeout. destruct (request_unpack e req_sid pkg) as [req r0| | | |]; try discriminate.
  intros H; inversion H; subst. apply rsp2byte_parses.
Qed.
End Packets.

(* the unguarded statement "ResponseUnpack never panics on any bytes" is false of the faithful model *)
Example unpack_unguarded_refuted : exists pkg, forall e sid, unpack e sid pkg = DPanic site_slice_bounds.
Proof. exists [0; 0; 0]. reflexivity. Qed.

Print Assumptions frame_header.
Print Assumptions parse_frame.
Print Assumptions unpack_frame.
Print Assumptions full_package_unpack_safe.

(* concrete instances over the regenerated schemas of requestf.RequestPacket / ResponsePacket *)
From TarsV Require Import Codec.Corr Gen.Schemas.
Definition ex_rsp (ver : Z) : val :=
  VStruct [VInt ver; VInt 0; VInt 7; VInt 0; VInt (-3); VBytes [1; 2; 255]; VMap [(VStr [107], VStr [118])]; VStr [111; 107]; VMap []].
Example rsp2byte_roundtrip_ex :
  response_unpack env0 sid_requestf_ResponsePacket (rsp2byte env0 sid_requestf_RequestPacket sid_requestf_ResponsePacket c_TUPVERSION (ex_rsp 1))
  = DOk (ex_rsp 1) [].
Proof. vm_compute. reflexivity. Qed.
Example rsp2byte_tup_ex :
  request_unpack env0 sid_requestf_RequestPacket (rsp2byte env0 sid_requestf_RequestPacket sid_requestf_ResponsePacket c_TUPVERSION (ex_rsp c_TUPVERSION))
  = DOk (VStruct [VInt c_TUPVERSION; VInt 0; VInt 0; VInt 7; VStr []; VStr []; VBytes [1; 2; 255]; VInt 0; VMap []; VMap [(VStr [107], VStr [118])]]) [].
Proof. vm_compute. reflexivity. Qed.
Example invoke_timeout_ex :
  invoke_timeout env0 sid_requestf_RequestPacket sid_requestf_ResponsePacket c_TUPVERSION
    (request_pack env0 sid_requestf_RequestPacket
       (VStruct [VInt 1; VInt 0; VInt 0; VInt 77; VStr [111]; VStr [102]; VBytes [5]; VInt 0; VMap []; VMap []]))
  = DOk (rsp2byte env0 sid_requestf_RequestPacket sid_requestf_ResponsePacket c_TUPVERSION
           (VStruct [VInt 1; VInt 0; VInt 77; VInt 0; VInt 1; VBytes []; VMap []; VStr (raw "server invoke timeout"%hex); VMap []])) [].
Proof. vm_compute. reflexivity. Qed.
Example parse_ex : tars_request c_maxPackageLength (rsp2byte env0 sid_requestf_RequestPacket sid_requestf_ResponsePacket c_TUPVERSION (ex_rsp 1) ++ [9; 9])
  = Full (length (rsp2byte env0 sid_requestf_RequestPacket sid_requestf_ResponsePacket c_TUPVERSION (ex_rsp 1))).
Proof. vm_compute. reflexivity. Qed.
