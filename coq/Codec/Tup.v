(* C05T model: the TUP attribute codec of tars/protocol/tup/tup.go (UniAttribute.Encode / Decode, PutBuffer /
   GetBuffer) over the reader / writer model of Wire.v, Skip.v and Prim.v.

   An attribute set is a Go map[string][]byte. On the wire it is a MAP at tag 0: the head, an int32 count at
   tag 0, then per entry the key (string at tag 0) and the buffer (SimpleList at tag 1: BYTE head at tag 0, an
   int32 length at tag 0, the bytes).

   The decoder is mirrored statement by statement, including what it does NOT check: the result of the first
   SkipTo (`have`) is ignored (harmless once the lookup is required), fields with tag 0 between key and value are skipped, a later equal key overwrites an earlier one. Loop iterations and
   the bytes allocated for keys and buffers are explicit outputs, so that "terminates in a number of steps
   and with an allocation linear in the input" is a statement about the model. [mreq] / [kreq] / [vreq] are the
   `require` flags of the map, key and value lookups: all true in the repaired code (fa80196, b18cffe, 5664fef),
   all false in the pinned snapshot (kept as parameters to exhibit the defects on the same model).

   Definitions only; proofs are in TupProofs.v. *)
From Coq Require Import List NArith ZArith Lia Bool Arith.
From TarsV Require Import Gen.Consts Base.Hex Codec.Wire Codec.Skip Codec.Prim.
Import ListNotations.
Open Scope N_scope.

(* association list in iteration / insertion order; key bytes, buffer bytes *)
Definition attrs := list (list N * list N).
Definition len (s : list N) : N := N.of_nat (length s).

(* ---------- Go map semantics of an insertion sequence ---------- *)
Fixpoint get (m : attrs) (k : list N) : option (list N) :=      (* GetBuffer: the last binding wins *)
  match m with
  | [] => None
  | (k', v) :: r => match get r k with Some x => Some x | None => if bytes_eqb k' k then Some v else None end
  end.
Definition put (m : attrs) (k v : list N) : attrs := m ++ [(k, v)].   (* PutBuffer *)
Fixpoint dedupe (m : attrs) : attrs :=                           (* one binding per key: the last one *)
  match m with
  | [] => []
  | (k, v) :: r => let r' := dedupe r in if existsb (fun p => bytes_eqb k (fst p)) r' then r' else (k, v) :: r'
  end.

(* ---------- Encode ---------- *)
Definition enc_entry (kv : list N * list N) : list N :=
  w_string (fst kv) 0 ++ head tSIMPLE 1 ++ head tBYTE 0 ++ w_int32 (wrap32 (Z.of_nat (length (snd kv)))) 0 ++ snd kv.
Definition tup_encode (m : attrs) : list N :=
  head tMAP 0 ++ w_int32 (wrap32 (Z.of_nat (length m))) 0 ++ flat_map enc_entry m.

(* ---------- Decode ---------- *)
(* ReadBytes as repaired (7b8c6ea: a length that is negative or exceeds the bytes left is an error;
   91498e3: an empty buffer at the end of the input is not an error) *)
Definition read_bytes (n : Z) (r : list N) : option (list N * list N) :=
  if ((n <? 0) || (Z.of_nat (length r) <? n))%Z then None
  else Some (firstn (Z.to_nat n) r, skipn (Z.to_nat n) r).

(* one loop iteration: entry inserted / entry without a value / error (with the bytes allocated before it) *)
Inductive eres := EIns (k v rest : list N) | ESkip (k rest : list N) | EErr (alloc : N) | EFuel.

Definition dec_value (vreq : bool) (k r : list N) : eres :=
  match skip_to_no_check (fuel_for r) 1 vreq r with
  | SeekErr => EErr (len k)
  | SeekFuel => EFuel
  | NotFound r1 => ESkip k r1
  | Found ty r1 =>
      if ty =? tSIMPLE then
        match skip_to (fuel_for r1) tBYTE 0 true r1 with
        | Found _ r2 =>
            match read_count r2 with
            | CErr _ => EErr (len k)
            | COk n r3 => match read_bytes n r3 with
                          | Some (v, r4) => EIns k v r4
                          | None => EErr (len k)
                          end
            end
        | SeekFuel => EFuel
        | _ => EErr (len k)
        end
      else EErr (len k)                                   (* "require vector, but not" *)
  end.

Definition dec_entry (kreq vreq : bool) (bs : list N) : eres :=
  match r_string (fuel_for bs) 0 kreq bs with
  | ROk k r => dec_value vreq k r
  | RAbsent r => dec_value vreq [] r
  | RErr => EErr 0
  | RFuel => EFuel
  end.

Inductive tstat := TSOk | TSErr | TSFuel.
(* status, entries inserted (in order, also those before an error), reader afterwards (meaningful for TSOk),
   loop iterations started, bytes allocated for keys and buffers *)
Record tout := mk_tout { t_stat : tstat; t_ins : attrs; t_rest : list N; t_iter : N; t_alloc : N }.

Fixpoint dec_loop (kreq vreq : bool) (fuel : nat) (n : Z) (bs : list N) : tout :=
  if (n <=? 0)%Z then mk_tout TSOk [] bs 0 0 else
  match fuel with
  | O => mk_tout TSFuel [] bs 0 0
  | S f =>
      match dec_entry kreq vreq bs with
      | EIns k v r => let o := dec_loop kreq vreq f (n - 1)%Z r in
                      mk_tout (t_stat o) ((k, v) :: t_ins o) (t_rest o) (1 + t_iter o) (len k + len v + t_alloc o)
      | ESkip k r => let o := dec_loop kreq vreq f (n - 1)%Z r in
                     mk_tout (t_stat o) (t_ins o) (t_rest o) (1 + t_iter o) (len k + t_alloc o)
      | EErr a => mk_tout TSErr [] [] 1 a
      | EFuel => mk_tout TSFuel [] bs 1 0
      end
  end.

Definition t_err : tout := mk_tout TSErr [] [] 0 0.
Definition tup_decode_gen (mreq kreq vreq : bool) (loop_fuel : list N -> Z -> nat) (bs : list N) : tout :=
  match skip_to (fuel_for bs) tMAP 0 mreq bs with
  | SeekErr => t_err
  | SeekFuel => mk_tout TSFuel [] bs 0 0
  | Found _ r | NotFound r =>                               (* `_, err = is.SkipTo(...)`: have is ignored (NotFound only when mreq = false) *)
      match read_count r with
      | CErr _ => t_err
      | COk n r1 => dec_loop kreq vreq (loop_fuel r1 n) n r1
      end
  end.

(* the repaired decoder: every iteration consumes input, so the bytes left bound the iterations *)
Definition tup_decode (bs : list N) : tout := tup_decode_gen true true true (fun r _ => S (length r)) bs.
(* the decoder of the pinned snapshot (key optional, value optional): only the announced count bounds the iterations *)
Definition tup_decode_pinned (bs : list N) : tout := tup_decode_gen false false false (fun _ n => Z.to_nat n) bs.
(* after b18cffe (key required), before 5664fef (value still optional) *)
Definition tup_decode_b18cffe (bs : list N) : tout := tup_decode_gen false true false (fun r _ => S (length r)) bs.
(* after 5664fef (value required), before fa80196 (map lookup still optional, its result ignored) *)
Definition tup_decode_5664fef (bs : list N) : tout := tup_decode_gen false true true (fun r _ => S (length r)) bs.

(* the attribute set after Decode into a set holding [prior] *)
Definition decoded_into (prior : attrs) (o : tout) : attrs := dedupe (prior ++ t_ins o).

(* ---------- finite-map comparison for the correspondence ---------- *)
Definition entry_eqb (a b : list N * list N) : bool := bytes_eqb (fst a) (fst b) && bytes_eqb (snd a) (snd b).
Definition attrs_sim (a b : attrs) : bool :=      (* a, b without duplicate keys: same set of bindings *)
  (length a =? length b)%nat && forallb (fun x => existsb (entry_eqb x) b) a.
