(* C03 struct-level round trip and C04 unknown-fields theorems for the generated-codec model, for every
   schema environment satisfying wf_schema and every well-typed value: proofs. *)
From Coq Require Import List NArith ZArith Lia Bool Arith.
From Coq Require Import ZifyN ZifyNat ZifyBool.
From TarsV Require Import Gen.Consts Base.Hex Codec.Wire Codec.WireProofs Codec.Skip Codec.SkipProofs Codec.Prim
  Codec.PrimProofs Codec.GenCodec Codec.Corr Codec.GenProofs Codec.RoundTrip.
Import ListNotations.
Ltac Zify.zify_post_hook ::= Z.div_mod_to_equations.
Open Scope N_scope.

(* ---------- inner loops = the top-level list functions ---------- *)
Lemma enc_elems_go e x xs :
  (fix go l := match l with [] => [] | y :: r => enc_var e 0 true x None y ++ go r end) xs = enc_elems e x xs.
Proof. induction xs as [|y r IH]; cbn [enc_elems]; [reflexivity|]. now rewrite IH. Qed.
Lemma enc_entries_go e kt vt kvs :
  (fix go l := match l with [] => []
     | (k, x) :: r => enc_var e 0 true kt None k ++ enc_var e 1 true vt None x ++ go r end) kvs = enc_entries e kt vt kvs.
Proof. induction kvs as [|[k x] r IH]; cbn [enc_entries]; [reflexivity|]. now rewrite IH. Qed.
Lemma enc_fields_go e vs : forall fds,
  (fix go (l : list val) (fds : schema) {struct l} : list N :=
     match l, fds with
     | x :: l', fd :: fds' => enc_var e (ftag fd) (freq fd) (fty fd) (fdef fd) x ++ go l' fds'
     | _, _ => []
     end) vs fds = enc_fields e vs fds.
Proof. induction vs as [|x r IH]; intros [|fd fds]; cbn [enc_fields]; try reflexivity. now rewrite IH. Qed.

Lemma enc_var_list e tag req x d xs :
  enc_var e tag req (TVec x) d (VList xs) =
  if negb req && (match xs with [] => true | _ => false end) then []
  else head tLIST tag ++ w_int32 (Z.of_nat (length xs)) 0 ++ enc_elems e x xs.
Proof. rewrite <- enc_elems_go. destruct x; reflexivity. Qed.
Lemma enc_var_arr e tag req n x d xs :
  enc_var e tag req (TArr n x) d (VList xs) =
  if negb req && (match xs with [] => true | _ => false end) then []
  else head tLIST tag ++ w_int32 (Z.of_nat (length xs)) 0 ++ enc_elems e x xs.
Proof. rewrite <- enc_elems_go. reflexivity. Qed.
Lemma enc_var_map e tag req kt vt d kvs :
  enc_var e tag req (TMap kt vt) d (VMap kvs) =
  if negb req && (match kvs with [] => true | _ => false end) then []
  else head tMAP tag ++ w_int32 (Z.of_nat (length kvs)) 0 ++ enc_entries e kt vt kvs.
Proof. rewrite <- enc_entries_go. reflexivity. Qed.
Lemma enc_var_struct e tag req sid d vs :
  enc_var e tag req (TStruct sid) d (VStruct vs) = head tSB tag ++ enc_fields e vs (fields_of e sid) ++ head tSE 0.
Proof. rewrite <- enc_fields_go. reflexivity. Qed.
Lemma encode_fields e sid vs : encode e sid (VStruct vs) = enc_fields e vs (fields_of e sid).
Proof. unfold encode. now rewrite enc_fields_go. Qed.

Lemma norm_elems_go e x xs :
  (fix go l := match l with [] => [] | y :: r => norm e x true None y :: go r end) xs = norm_elems e x xs.
Proof. induction xs as [|y r IH]; cbn [norm_elems]; [reflexivity|]. now rewrite IH. Qed.
Lemma norm_entries_go e kt vt kvs :
  (fix go l := match l with [] => []
     | (k, x) :: r => (norm e kt true None k, norm e vt true None x) :: go r end) kvs = norm_entries e kt vt kvs.
Proof. induction kvs as [|[k x] r IH]; cbn [norm_entries]; [reflexivity|]. now rewrite IH. Qed.
Lemma norm_fields_go e vs : forall fds,
  (fix go l (fds : schema) := match l, fds with
     | x :: l', fd :: fds' => norm e (fty fd) (freq fd) (fdef fd) x :: go l' fds'
     | _, _ => [] end) vs fds = norm_fields e vs fds.
Proof. induction vs as [|x r IH]; intros [|fd fds]; cbn [norm_fields]; try reflexivity. now rewrite IH. Qed.
Lemma norm_vec e req d x xs : norm e (TVec x) req d (VList xs) = VList (norm_elems e x xs).
Proof. cbn [norm]. now rewrite norm_elems_go. Qed.
Lemma norm_arr e req d n x xs : norm e (TArr n x) req d (VList xs) = VList (norm_elems e x xs).
Proof. cbn [norm]. now rewrite norm_elems_go. Qed.
Lemma norm_map e req d kt vt kvs : norm e (TMap kt vt) req d (VMap kvs) = VMap (norm_entries e kt vt kvs).
Proof. cbn [norm]. now rewrite norm_entries_go. Qed.
Lemma norm_str e req d sid vs : norm e (TStruct sid) req d (VStruct vs) = VStruct (norm_fields e vs (fields_of e sid)).
Proof. cbn [norm]. now rewrite norm_fields_go. Qed.

Lemma need_list_go xs :
  (fix go l := match l with [] => 1%nat | y :: r => S (Nat.max (need y) (go r)) end) xs = need_list xs.
Proof. induction xs as [|y r IH]; cbn [need_list]; [reflexivity|]. now rewrite IH. Qed.
Lemma need_entries_go kvs :
  (fix go l := match l with [] => 1%nat
     | (k, x) :: r => S (Nat.max (need k) (Nat.max (need x) (go r))) end) kvs = need_entries kvs.
Proof. induction kvs as [|[k x] r IH]; cbn [need_entries]; [reflexivity|]. now rewrite IH. Qed.
Lemma need_VList xs : need (VList xs) = (2 + need_list xs)%nat.
Proof. cbn [need]. now rewrite need_list_go. Qed.
Lemma need_VMap kvs : need (VMap kvs) = (2 + need_entries kvs)%nat.
Proof. cbn [need]. now rewrite need_entries_go. Qed.
Lemma need_VStruct vs : need (VStruct vs) = (3 + need_list vs)%nat.
Proof. cbn [need]. now rewrite need_list_go. Qed.
Lemma need_list_ge l : (1 <= need_list l)%nat.
Proof. destruct l; cbn [need_list]; lia. Qed.
Lemma need_entries_ge l : (1 <= need_entries l)%nat.
Proof. destruct l as [|[k x] r]; cbn [need_entries]; lia. Qed.
Lemma need_ge v : (3 <= need v)%nat.
Proof.
  destruct v; rewrite ?need_VList, ?need_VMap, ?need_VStruct; cbn [need]; try lia.
  - pose proof (need_list_ge xs). lia.
  - pose proof (need_entries_ge kvs). lia.
Qed.

(* ---------- one-step unfoldings of the decoder ---------- *)
Lemma dec_var_scalar f e tag req t prior bs : scalar_ty t = true ->
  dec_var (S f) e tag req t prior bs = dec_scalar f tag req t prior bs.
Proof. destruct t; cbn [scalar_ty]; intros H; try discriminate; reflexivity. Qed.
Lemma dec_elems_S f e x n bs : dec_elems (S f) e x n bs =
  if (n <=? 0)%Z then DOk [] bs else
  match dec_var f e 0 true x (zero_of f e x) bs with
  | DOk v r => match dec_elems f e x (n - 1)%Z r with DOk vs r' => DOk (v :: vs) r' | o => o end
  | DErr => DErr | DPanic s => DPanic s | DHuge => DHuge | DFuel => DFuel
  end.
Proof. reflexivity. Qed.
Lemma dec_arr_S f e x len i n cur bs : dec_arr (S f) e x len i n cur bs =
  if (n <=? 0)%Z then DOk cur bs else
  if (len <=? i)%nat then DPanic site_array_index else
  match dec_var f e 0 true x (nth i cur (zero_of f e x)) bs with
  | DOk v r => dec_arr f e x len (S i) (n - 1)%Z (replace_nth i v cur) r
  | DErr => DErr | DPanic s => DPanic s | DHuge => DHuge | DFuel => DFuel
  end.
Proof. reflexivity. Qed.
Lemma dec_entries_S f e kt vt n bs : dec_entries (S f) e kt vt n bs =
  if (n <=? 0)%Z then DOk [] bs else
  match dec_var f e 0 true kt (zero_of f e kt) bs with
  | DOk k r =>
      match dec_var f e 1 true vt (zero_of f e vt) r with
      | DOk v r' => match dec_entries f e kt vt (n - 1)%Z r' with DOk kvs r'' => DOk ((k, v) :: kvs) r'' | o => o end
      | DErr => DErr | DPanic s => DPanic s | DHuge => DHuge | DFuel => DFuel
      end
  | DErr => DErr | DPanic s => DPanic s | DHuge => DHuge | DFuel => DFuel
  end.
Proof. reflexivity. Qed.
Lemma dec_fields_S f e fds priors bs : dec_fields (S f) e fds priors bs =
  match fds with
  | [] => DOk [] bs
  | fd :: fds' =>
      let p := match priors with p :: _ => p | [] => zero_of f e (fty fd) end in
      match dec_var f e (ftag fd) (freq fd) (fty fd) p bs with
      | DOk v r => match dec_fields f e fds' (tl priors) r with DOk vs r' => DOk (v :: vs) r' | o => o end
      | DErr => DErr | DPanic s => DPanic s | DHuge => DHuge | DFuel => DFuel
      end
  end.
Proof. reflexivity. Qed.
Lemma dec_var_vec f e tag req x prior bs : dec_var (S f) e tag req (TVec x) prior bs =
  match skip_to_no_check f tag req bs with
  | NotFound r => DOk prior r
  | SeekErr => DErr | SeekFuel => DFuel
  | Found wt r =>
      if wt =? tLIST then
        match read_count r with
        | CErr _ => DErr
        | COk n r1 =>
            if (n <? 0)%Z then DErr
            else if (Z.of_nat (length r1) <? n)%Z then DErr
            else match dec_elems f e x n r1 with
                 | DOk xs r2 => DOk (list_val x xs) r2
                 | DErr => DErr | DPanic s => DPanic s | DHuge => DHuge | DFuel => DFuel
                 end
        end
      else if wt =? tSIMPLE then
        if is_byte x then
          match skip_to f tBYTE 0 true r with
          | Found _ r1 =>
              match read_count r1 with
              | CErr _ => DErr
              | COk n r2 => match read_slice n r2 with
                            | None => DErr
                            | Some (s, r3) => DOk (bytes_val x s) r3
                            end
              end
          | SeekFuel => DFuel
          | _ => DErr
          end
        else DErr
      else DErr
  end.
Proof. reflexivity. Qed.
Lemma dec_var_arr f e tag req len x prior bs : dec_var (S f) e tag req (TArr len x) prior bs =
  match skip_to_no_check f tag req bs with
  | NotFound r => DOk prior r
  | SeekErr => DErr | SeekFuel => DFuel
  | Found wt r =>
      if wt =? tLIST then
        match read_count r with
        | CErr _ => DErr
        | COk n r1 =>
            if (n <? 0)%Z || (Z.of_nat len <? n)%Z then DErr else
            match dec_arr f e x len 0 n (match prior with VList l => l | _ => [] end) r1 with
            | DOk xs r2 => DOk (VList xs) r2
            | DErr => DErr | DPanic s => DPanic s | DHuge => DHuge | DFuel => DFuel
            end
        end
      else DErr
  end.
Proof. reflexivity. Qed.
Lemma dec_var_map f e tag req kt vt prior bs : dec_var (S f) e tag req (TMap kt vt) prior bs =
  match skip_to f tMAP tag req bs with
  | NotFound r => DOk prior r
  | SeekErr => DErr | SeekFuel => DFuel
  | Found _ r =>
      match read_count r with
      | CErr _ => DErr
      | COk n r1 => if (n <? 0)%Z || (Z.of_nat (length r1) / 2 <? n)%Z then DErr else
                    match dec_entries f e kt vt n r1 with
                    | DOk kvs r2 => DOk (VMap kvs) r2
                    | DErr => DErr | DPanic s => DPanic s | DHuge => DHuge | DFuel => DFuel
                    end
      end
  end.
Proof. reflexivity. Qed.
Lemma dec_var_struct f e tag req sid prior bs : dec_var (S f) e tag req (TStruct sid) prior bs =
  let prior' := reset_default f e sid prior in
  match skip_to f tSB tag req bs with
  | NotFound r => DOk prior' r
  | SeekErr => DErr | SeekFuel => DFuel
  | Found _ r =>
      match dec_fields f e (fields_of e sid) (match reset_default f e sid prior' with VStruct l => l | _ => [] end) r with
      | DOk vs r1 => match skip_to_end f 0 r1 with
                     | (SOk, r2) => DOk (VStruct vs) r2
                     | (SFuel, _) => DFuel
                     | _ => DErr
                     end
      | DErr => DErr | DPanic s => DPanic s | DHuge => DHuge | DFuel => DFuel
      end
  end.
Proof. reflexivity. Qed.

(* ---------- seeking through unknown fields ---------- *)
Lemma ser_fields_cons t w J : ser_fields ((t, w) :: J) = head (ty_of w) t ++ ser_body w ++ ser_fields J.
Proof. cbn [ser_fields]. unfold ser_field. cbn [fst snd]. now rewrite <- app_assoc. Qed.
Lemma ser_fields_length J : (length J <= length (ser_fields J))%nat.
Proof.
  induction J as [|[t w] J IH]; [cbn; lia|]. rewrite ser_fields_cons, !app_length.
  pose proof (head_length (ty_of w) t). cbn [length]. lia.
Qed.

Lemma seek_junk J : forall f lo tag req bs', junk_ok lo tag J ->
  (2 * length (ser_fields J ++ bs') + 3 <= f)%nat ->
  skip_to_no_check f tag req (ser_fields J ++ bs') = skip_to_no_check (f - length J) tag req bs'.
Proof.
  induction J as [|[t0 w0] J IH]; intros f lo tag req bs' HJ Hf.
  - cbn [ser_fields app length]. now rewrite Nat.sub_0_r.
  - inversion HJ as [|? ? (Ht0 & Hw0 & Hd0 & Hlt & _) HJ']; subst. cbn [fst snd] in *.
    destruct f as [|f]; [lia|]. rewrite ser_fields_cons, <- !app_assoc in *.
    rewrite !app_length in Hf. pose proof (head_length (ty_of w0) t0).
    cbn [skip_to_no_check]. rewrite read_head2_head by hd.
    rewrite ty_of_not_se. cbn [orb]. replace (tag <? t0) with false by lia. replace (t0 =? tag) with false by lia.
    rewrite (skip_exact w0 Hw0 0 f) by (rewrite ?app_length; lia).
    cbn [length Nat.sub]. apply (IH f lo); [exact HJ'|rewrite app_length; lia].
Qed.

Lemma seek_stop f tag rest : follows tag rest -> skip_to_no_check (S f) tag false rest = NotFound rest.
Proof.
  intros [->|(ty & tg & r & Hty & Htg & -> & Hc)]; [reflexivity|].
  cbn [skip_to_no_check]. rewrite read_head2_head by assumption.
  assert (Hb : (ty =? tSE) || (tag <? tg) = true) by (destruct Hc as [->|Hc]; [reflexivity|]; lia).
  rewrite Hb. unfold unread. destruct (tg <? 15); reflexivity.
Qed.
Lemma seek_stop_req f tag rest : follows tag rest -> skip_to_no_check (S f) tag true rest = SeekErr.
Proof.
  intros [->|(ty & tg & r & Hty & Htg & -> & Hc)]; [reflexivity|].
  cbn [skip_to_no_check]. rewrite read_head2_head by assumption.
  assert (Hb : (ty =? tSE) || (tag <? tg) = true) by (destruct Hc as [->|Hc]; [reflexivity|]; lia).
  now rewrite Hb.
Qed.
Lemma follows_mono t t' rest : t <= t' -> follows t' rest -> follows t rest.
Proof.
  intros Hle [->|(ty & tg & r & Hty & Htg & -> & Hc)]; [now left|].
  right. exists ty, tg, r. repeat split; try assumption. destruct Hc; [now left|right; lia].
Qed.

(* ---------- counts ---------- *)
Lemma wrapu_small bits m : (Z.of_N m < 2 ^ bits)%Z -> wrapu bits (Z.of_N m) = m.
Proof. intros H. unfold wrapu. rewrite Z.mod_small by lia. apply N2Z.id. Qed.
Lemma w_int32_len m : m < 2147483648 -> w_int32 (Z.of_N m) 0 = w_len m.
Proof.
  intros Hm. unfold w_int32, w_int16, w_int8, w_len.
  destruct (m =? 0) eqn:D.
  - assert (m = 0) by lia. subst. reflexivity.
  - destruct (m <? 128) eqn:E.
    + replace ((-32768 <=? Z.of_N m) && (Z.of_N m <=? 32767))%Z with true by lia.
      replace ((-128 <=? Z.of_N m) && (Z.of_N m <=? 127))%Z with true by lia.
      replace (Z.of_N m =? 0)%Z with false by lia.
      rewrite wrapu_small by (cbn; lia). reflexivity.
    + replace ((-128 <=? Z.of_N m) && (Z.of_N m <=? 127))%Z with false by lia.
      destruct (m <? 32768) eqn:F.
      * replace ((-32768 <=? Z.of_N m) && (Z.of_N m <=? 32767))%Z with true by lia.
        rewrite wrapu_small by (cbn; lia). reflexivity.
      * replace ((-32768 <=? Z.of_N m) && (Z.of_N m <=? 32767))%Z with false by lia.
        rewrite wrapu_small by (cbn; lia). reflexivity.
Qed.
Lemma read_count_len n rest : N.of_nat n < 2147483648 ->
  read_count (w_int32 (Z.of_nat n) 0 ++ rest) = COk (Z.of_nat n) rest.
Proof.
  intros Hn. replace (Z.of_nat n) with (Z.of_N (N.of_nat n)) by lia.
  rewrite w_int32_len by assumption. apply read_count_w_len. cbn. lia.
Qed.
Lemma read_slice_app s rest : read_slice (Z.of_nat (length s)) (s ++ rest) = Some (s, rest).
Proof.
  unfold read_slice. destruct (Z.of_nat (length s) <? 0)%Z eqn:E; [lia|].
  rewrite app_length. destruct (Z.of_nat (length s + length rest) <? Z.of_nat (length s))%Z eqn:E2; [lia|].
  rewrite Nat2Z.id, firstn_app, skipn_app, Nat.sub_diag, firstn_all, skipn_all. cbn [firstn skipn app].
  now rewrite app_nil_r.
Qed.

(* ---------- scalars ---------- *)
Definition omit (t : ty) (req : bool) (d : option val) (v : val) : bool :=
  match t with TEnum => false | _ => negb req && scalar_is_default t d v end.
Lemma enc_var_scalar e tag req t d v : scalar_ty t = true ->
  enc_var e tag req t d v = if omit t req d v then [] else w_scalar t v tag.
Proof. destruct t; cbn [scalar_ty]; intros H; try discriminate; destruct v; reflexivity. Qed.
Lemma norm_scalar e t req d v : scalar_ty t = true -> sc_typed t v ->
  norm e t req d v = if omit t req d v then match d with Some dv => dv | None => zscalar t end else v.
Proof.
  destruct t; cbn [scalar_ty]; intros H Hs; try discriminate; destruct v; cbn [sc_typed] in Hs; try contradiction; reflexivity.
Qed.


Definition headed (tag : N) (bs : list N) : Prop := exists ty r, ty < 16 /\ bs = head ty tag ++ r.
Lemma headed_head ty tag : ty < 16 -> headed tag (head ty tag).
Proof. intros H. exists ty, []. split; [assumption|now rewrite app_nil_r]. Qed.
Lemma headed_app ty tag r : ty < 16 -> headed tag (head ty tag ++ r).
Proof. intros H. exists ty, r. split; [assumption|reflexivity]. Qed.
Lemma w_int8_headed v tag : headed tag (w_int8 v tag).
Proof. unfold w_int8. destruct (v =? 0)%Z; [apply headed_head|apply headed_app]; reflexivity. Qed.
Lemma w_int16_headed v tag : headed tag (w_int16 v tag).
Proof. unfold w_int16. destruct (_ && _)%bool; [apply w_int8_headed|apply headed_app; reflexivity]. Qed.
Lemma w_int32_headed v tag : headed tag (w_int32 v tag).
Proof. unfold w_int32. destruct (_ && _)%bool; [apply w_int16_headed|apply headed_app; reflexivity]. Qed.
Lemma w_int64_headed v tag : headed tag (w_int64 v tag).
Proof. unfold w_int64. destruct (_ && _)%bool; [apply w_int32_headed|apply headed_app; reflexivity]. Qed.
Lemma w_scalar_headed t v tag : scalar_ty t = true -> sc_typed t v -> headed tag (w_scalar t v tag).
Proof.
  destruct t; cbn [scalar_ty]; intros H Hs; try discriminate; destruct v; cbn [sc_typed] in Hs; try contradiction;
  cbn [w_scalar]; unfold w_bool, w_uint8, w_uint16, w_uint32, w_f32, w_f64;
  first [apply w_int8_headed | apply w_int16_headed | apply w_int32_headed | apply w_int64_headed
        | apply headed_app; reflexivity | idtac].
  unfold w_string. cbv zeta. destruct (255 <? _); apply headed_app; reflexivity.
Qed.

Lemma headed_length tag bs : headed tag bs -> (1 <= length bs)%nat.
Proof. intros (ty & r & _ & ->). rewrite app_length. pose proof (head_length ty tag). lia. Qed.

(* an encoded member is either omitted (optional only) or starts with a head carrying its tag *)
Lemma enc_var_head e tag req t d v : has_type e t v ->
  (req = false /\ enc_var e tag req t d v = []) \/ headed tag (enc_var e tag req t d v).
Proof.
  intros Hty. inversion Hty; subst.
  - rewrite enc_var_scalar by assumption. unfold omit.
    destruct t; try (right; now apply w_scalar_headed);
    (destruct req; cbn [negb andb]; [right; now apply w_scalar_headed|]);
    (destruct (scalar_is_default _ d v); [left; split; reflexivity|right; now apply w_scalar_headed]).
  - cbn [enc_var]. destruct req; cbn [negb andb]; [right; apply headed_app; reflexivity|].
    destruct s; [left; split; reflexivity|right; apply headed_app; reflexivity].
  - rewrite enc_var_list. destruct req; cbn [negb andb]; [right; apply headed_app; reflexivity|].
    destruct xs; [left; split; reflexivity|right; apply headed_app; reflexivity].
  - rewrite enc_var_arr. destruct req; cbn [negb andb]; [right; apply headed_app; reflexivity|].
    destruct xs; [left; split; reflexivity|right; apply headed_app; reflexivity].
  - rewrite enc_var_map. destruct req; cbn [negb andb]; [right; apply headed_app; reflexivity|].
    destruct kvs; [left; split; reflexivity|right; apply headed_app; reflexivity].
  - rewrite enc_var_struct. right. apply headed_app. reflexivity.
Qed.
Lemma enc_var_req_length e tag t d v : has_type e t v -> (1 <= length (enc_var e tag true t d v))%nat.
Proof. intros H. destruct (enc_var_head e tag true t d v H) as [[? _]|Hh]; [discriminate|]. now apply headed_length in Hh. Qed.
Lemma enc_elems_length e x xs : Forall (has_type e x) xs -> (length xs <= length (enc_elems e x xs))%nat.
Proof.
  induction 1 as [|y r Hy _ IH]; [cbn; lia|]. cbn [enc_elems length]. rewrite app_length.
  pose proof (enc_var_req_length e 0 x None y Hy). lia.
Qed.

Lemma enc_entries_length e kt vt kvs : Forall (fun p => has_type e kt (fst p) /\ has_type e vt (snd p)) kvs ->
  (2 * length kvs <= length (enc_entries e kt vt kvs))%nat.
Proof.
  induction 1 as [|[ky y] r [Hk Hy] _ IH]; [cbn; lia|]. cbn [fst snd] in *. cbn [enc_entries length]. rewrite !app_length.
  pose proof (enc_var_req_length e 0 kt None ky Hk). pose proof (enc_var_req_length e 1 vt None y Hy). lia.
Qed.

(* ---------- prior targets ---------- *)
Lemma zero_zlike e : forall n t f, nest_ok n e t = true -> (n <= f)%nat -> zlike e t (zero_of f e t).
Proof.
  induction n as [|n IH]; intros t f Hn Hf; [discriminate|]. destruct f as [|f]; [lia|].
  destruct t; cbn [nest_ok] in Hn;
    try (match goal with |- zlike _ ?t _ => exact (ZL_base e t eq_refl) end).
  - cbn [zero_of]. apply ZL_arr; [apply repeat_length|]. apply Forall_forall. intros z Hz.
    apply repeat_spec in Hz. subst z. apply IH; [assumption|lia].
  - cbn [zero_of]. apply ZL_struct. revert Hn. generalize (fields_of e sid). intros fds.
    induction fds as [|fd fds IHf]; cbn [forallb map]; intros Hn; [constructor|].
    apply andb_true_iff in Hn. destruct Hn as [Hn1 Hn2]. constructor; [|now apply IHf].
    intros _. apply IH; [assumption|lia].
Qed.

(* the repaired ResetDefault: with fuel for the by-value nesting of the struct type, every member holds its
   declared default or is zero-like - whatever the target held *)
Lemma reset_val_zlike e : forall n s f, nest_ok n e (TStruct s) = true -> (n <= f)%nat -> zlike e (TStruct s) (reset_val f e s).
Proof.
  induction n as [|n IH]; intros s f Hn Hf; [discriminate|]. destruct f as [|f]; [lia|].
  cbn [nest_ok] in Hn. cbn [reset_val]. apply ZL_struct. revert Hn. generalize (fields_of e s). intros fds.
  induction fds as [|fd fds IHf]; cbn [forallb map]; intros Hn; [constructor|].
  apply andb_true_iff in Hn. destruct Hn as [Hn1 Hn2]. constructor; [|now apply IHf].
  intros Hd. rewrite Hd. destruct (fty fd) eqn:Et; try (apply (zero_zlike e n); [assumption|lia]).
  apply IH; [assumption|lia].
Qed.
Lemma reset_zlike e n : forall f s x, nest_ok n e (TStruct s) = true -> (n <= f)%nat -> zlike e (TStruct s) (reset_default f e s x).
Proof. intros f s x Hn Hf. unfold reset_default. now apply (reset_val_zlike e n). Qed.
Lemma reset_val_priors e k f sid : wf_schema k e -> (k <= f)%nat ->
  Forall2 (fun fd p => prior_ok e (fty fd) (fdef fd) p) (fields_of e sid)
    (map (fun fd => match fdef fd with
                    | Some d => d
                    | None => match fty fd with TStruct s => reset_val f e s | t => zero_of f e t end
                    end) (fields_of e sid)).
Proof.
  intros Hwf Hk. pose proof (wf_nest k e Hwf sid) as Hn. revert Hn. generalize (fields_of e sid). intros fds.
  induction fds as [|fd fds IH]; intros Hn; cbn [map]; [constructor|].
  constructor; [|apply IH; intros fd' Hin; apply Hn; now right].
  unfold prior_ok. destruct (fdef fd) eqn:Ed; [reflexivity|].
  assert (Hnest : nest_ok k e (fty fd) = true).
  { specialize (Hn fd (or_introl eq_refl)). destruct (fty fd); cbn [ty_nest] in Hn; apply andb_true_iff in Hn; tauto. }
  destruct (fty fd) eqn:Et; try (apply (zero_zlike e k); [assumption|lia]).
  apply (reset_val_zlike e k); [assumption|lia].
Qed.
(* the member priors the generated ReadFrom/ReadBlock uses, from ANY target *)
Lemma struct_priors e k f sid prior : wf_schema k e -> (k <= f)%nat ->
  exists ps, reset_default (S f) e sid (reset_default (S f) e sid prior) = VStruct ps /\
             Forall2 (fun fd p => prior_ok e (fty fd) (fdef fd) p) (fields_of e sid) ps.
Proof.
  intros Hwf Hk. unfold reset_default. cbn [reset_val]. eexists. split; [reflexivity|]. now apply (reset_val_priors e k).
Qed.
Lemma struct_priors1 e k f sid prior : wf_schema k e -> (k <= f)%nat ->
  exists ps, reset_default (S f) e sid prior = VStruct ps /\
             Forall2 (fun fd p => prior_ok e (fty fd) (fdef fd) p) (fields_of e sid) ps.
Proof.
  intros Hwf Hk. unfold reset_default. cbn [reset_val]. eexists. split; [reflexivity|]. now apply (reset_val_priors e k).
Qed.

(* ---------- scalar members behind unknown fields ---------- *)
Lemma dec_scalar_junk J f lo tag req t prior bs' : junk_ok lo tag J ->
  (2 * length (ser_fields J ++ bs') + 3 <= f)%nat ->
  dec_scalar f tag req t prior (ser_fields J ++ bs') = dec_scalar (f - length J) tag req t prior bs'.
Proof.
  intros HJ Hf. unfold dec_scalar, r_bool, r_int8, r_uint8, r_int16, r_uint16, r_int32, r_uint32, r_int64, r_int, r_f32, r_f64,
    r_string, with_seek.
  destruct t; try reflexivity; now rewrite (seek_junk J f lo).
Qed.
Lemma dec_scalar_absent f tag t prior rest : scalar_ty t = true -> follows tag rest ->
  dec_scalar (S f) tag false t prior rest = DOk prior rest.
Proof.
  intros Ht Hfo. unfold dec_scalar, r_bool, r_int8, r_uint8, r_int16, r_uint16, r_int32, r_uint32, r_int64, r_int, r_f32, r_f64,
    r_string, with_seek.
  destruct t; try discriminate; now rewrite seek_stop.
Qed.
Lemma dec_scalar_absent_req f tag t prior rest : scalar_ty t = true -> follows tag rest ->
  dec_scalar (S f) tag true t prior rest = DErr.
Proof.
  intros Ht Hfo. unfold dec_scalar, r_bool, r_int8, r_uint8, r_int16, r_uint16, r_int32, r_uint32, r_int64, r_int, r_f32, r_f64,
    r_string, with_seek.
  destruct t; try discriminate; now rewrite seek_stop_req.
Qed.
Lemma zlike_scalar e t p : scalar_ty t = true -> zlike e t p -> p = zscalar t.
Proof. intros Ht H. inversion H; subst; try discriminate. destruct t; try discriminate; reflexivity. Qed.
Lemma zlike_vec e x p : zlike e (TVec x) p -> p = match x with TI8 => VBytes [] | _ => VList [] end.
Proof. intros H. inversion H; subst. reflexivity. Qed.
Lemma zlike_map e a b p : zlike e (TMap a b) p -> p = VMap [].
Proof. intros H. inversion H; subst. reflexivity. Qed.

Lemma replace_nth_app dn z todo v : replace_nth (length dn) v (dn ++ z :: todo) = dn ++ v :: todo.
Proof. induction dn as [|a dn IH]; cbn [length app replace_nth]; [reflexivity|]. now rewrite IH. Qed.
Lemma nth_app_here dn z todo (dflt : val) : nth (length dn) (dn ++ z :: todo) dflt = z.
Proof. rewrite app_nth2 by lia. now rewrite Nat.sub_diag. Qed.

Lemma Forall2_len {A B} (R : A -> B -> Prop) l1 l2 : Forall2 R l1 l2 -> length l1 = length l2.
Proof. induction 1; cbn [length]; congruence. Qed.

(* ================= the struct-level theorem ================= *)
Section RT.
Variable e : env.
Variable k : nat.
Hypothesis Hwf : wf_schema k e.

Definition fuel_ok (n : nat) (bs : list N) (fuel : nat) : Prop := (n + k + 2 * length bs + 3 <= fuel)%nat.

Definition asc_opt (lo : option N) (fds : schema) : Prop :=
  match lo with None => schema_ascending fds | Some p => ascending p fds end.
Definition member_ok (fd : field) : Prop :=
  ty_nest k e (fty fd) = true /\ (fdef fd <> None -> scalar_ty (fty fd) = true).

Definition P_var (fuel : nat) : Prop := forall tag req t d v prior lo J rest,
  has_type e t v -> ty_nest k e t = true -> tag < 256 ->
  (d <> None -> scalar_ty t = true) -> prior_ok e t d prior -> junk_ok lo tag J ->
  (req = true \/ follows tag rest) ->
  fuel_ok (need v) (ser_fields J ++ enc_var e tag req t d v ++ rest) fuel ->
  dec_var fuel e tag req t prior (ser_fields J ++ enc_var e tag req t d v ++ rest) = DOk (norm e t req d v) rest.
Definition P_elems (fuel : nat) : Prop := forall x xs rest,
  Forall (has_type e x) xs -> ty_nest k e x = true ->
  fuel_ok (need_list xs) (enc_elems e x xs ++ rest) fuel ->
  dec_elems fuel e x (Z.of_nat (length xs)) (enc_elems e x xs ++ rest) = DOk (norm_elems e x xs) rest.
Definition P_arr (fuel : nat) : Prop := forall x len dn todo xs rest,
  Forall (has_type e x) xs -> ty_nest k e x = true ->
  length todo = length xs -> (length dn + length xs = len)%nat -> Forall (zlike e x) todo ->
  fuel_ok (need_list xs) (enc_elems e x xs ++ rest) fuel ->
  dec_arr fuel e x len (length dn) (Z.of_nat (length xs)) (dn ++ todo) (enc_elems e x xs ++ rest)
  = DOk (dn ++ norm_elems e x xs) rest.
Definition P_entries (fuel : nat) : Prop := forall kt vt kvs rest,
  Forall (fun p => has_type e kt (fst p) /\ has_type e vt (snd p)) kvs ->
  ty_nest k e kt = true -> ty_nest k e vt = true ->
  fuel_ok (need_entries kvs) (enc_entries e kt vt kvs ++ rest) fuel ->
  dec_entries fuel e kt vt (Z.of_nat (length kvs)) (enc_entries e kt vt kvs ++ rest) = DOk (norm_entries e kt vt kvs) rest.
Definition P_fields (fuel : nat) : Prop := forall fds vs ps Js lo tail,
  Forall2 (fun fd x => has_type e (fty fd) x) fds vs -> Forall member_ok fds -> asc_opt lo fds ->
  Forall2 (fun fd p => prior_ok e (fty fd) (fdef fd) p) fds ps -> junks_ok lo fds Js ->
  (forall fd, In fd fds -> follows (ftag fd) tail) ->
  fuel_ok (need_list vs) (encx_fields e vs fds Js ++ tail) fuel ->
  dec_fields fuel e fds ps (encx_fields e vs fds Js ++ tail) = DOk (norm_fields e vs fds) tail.

Lemma ty_nest_nest t : ty_nest k e t = true -> nest_ok k e t = true.
Proof. destruct t; cbn [ty_nest]; intros H; apply andb_true_iff in H; tauto. Qed.
Lemma ty_nest_vec x : ty_nest k e (TVec x) = true -> ty_nest k e x = true.
Proof. cbn [ty_nest]. intros H. apply andb_true_iff in H. tauto. Qed.
Lemma ty_nest_arr n x : ty_nest k e (TArr n x) = true -> ty_nest k e x = true.
Proof. cbn [ty_nest]. intros H. apply andb_true_iff in H. tauto. Qed.
Lemma ty_nest_map a b : ty_nest k e (TMap a b) = true -> ty_nest k e a = true /\ ty_nest k e b = true.
Proof. cbn [ty_nest]. intros H. apply andb_true_iff in H. destruct H as [_ H]. now apply andb_true_iff in H. Qed.

Lemma junk_nil lo tag : junk_ok lo tag [].
Proof. constructor. Qed.

Lemma step_elems f : P_var f -> P_elems f -> P_elems (S f).
Proof.
  intros HV HE x xs rest Hty Hn Hf. rewrite dec_elems_S. destruct Hty as [|y r Hy Hr].
  - reflexivity.
  - destruct (Z.of_nat (length (y :: r)) <=? 0)%Z eqn:E; [cbn [length] in E; lia|].
    cbn [enc_elems norm_elems] in *. rewrite <- app_assoc in *. unfold fuel_ok in Hf. cbn [need_list] in Hf.
    rewrite app_length in Hf.
    assert (H1 : dec_var f e 0 true x (zero_of f e x) (enc_var e 0 true x None y ++ enc_elems e x r ++ rest)
                 = DOk (norm e x true None y) (enc_elems e x r ++ rest)).
    { apply (HV 0 true x None y (zero_of f e x) None [] (enc_elems e x r ++ rest)); try assumption.
      - lia.
      - intros Hc; congruence.
      - apply (zero_zlike e k); [now apply ty_nest_nest|lia].
      - apply junk_nil.
      - now left.
      - unfold fuel_ok. cbn [ser_fields app]. rewrite app_length. lia. }
    rewrite H1.
    replace (Z.of_nat (length (y :: r)) - 1)%Z with (Z.of_nat (length r)) by (cbn [length]; lia).
    rewrite HE; try assumption; [reflexivity|]. unfold fuel_ok. lia.
Qed.

Lemma step_arr f : P_var f -> P_arr f -> P_arr (S f).
Proof.
  intros HV HA x len dn todo xs rest Hty Hn Hlen Hsum Hz Hf. rewrite dec_arr_S. destruct Hty as [|y r Hy Hr].
  - destruct todo; [|discriminate]. reflexivity.
  - destruct todo as [|z todo]; [discriminate|]. cbn [length] in Hlen, Hsum.
    destruct (Z.of_nat (length (y :: r)) <=? 0)%Z eqn:E; [cbn [length] in E; lia|].
    destruct (len <=? length dn)%nat eqn:E2; [apply Nat.leb_le in E2; lia|].
    rewrite nth_app_here. cbn [enc_elems norm_elems] in *. rewrite <- app_assoc in *.
    unfold fuel_ok in Hf. cbn [need_list] in Hf. rewrite app_length in Hf.
    inversion Hz as [|? ? Hz1 Hz2]; subst.
    assert (H1 : dec_var f e 0 true x z (enc_var e 0 true x None y ++ enc_elems e x r ++ rest)
                 = DOk (norm e x true None y) (enc_elems e x r ++ rest)).
    { apply (HV 0 true x None y z None [] (enc_elems e x r ++ rest)); try assumption.
      - lia.
      - intros Hc; congruence.
      - apply junk_nil.
      - now left.
      - unfold fuel_ok. cbn [ser_fields app]. rewrite app_length. lia. }
    rewrite H1. rewrite replace_nth_app.
    replace (Z.of_nat (length (y :: r)) - 1)%Z with (Z.of_nat (length r)) by (cbn [length]; lia).
    replace (dn ++ norm e x true None y :: todo) with ((dn ++ [norm e x true None y]) ++ todo) by (now rewrite <- app_assoc).
    replace (S (length dn)) with (length (dn ++ [norm e x true None y])) by (rewrite app_length; cbn [length]; lia).
    rewrite HA; try assumption.
    + now rewrite <- app_assoc.
    + lia.
    + rewrite app_length. cbn [length]. lia.
    + unfold fuel_ok. lia.
Qed.

Lemma step_entries f : P_var f -> P_entries f -> P_entries (S f).
Proof.
  intros HV HE kt vt kvs rest Hty Hnk Hnv Hf. rewrite dec_entries_S. destruct Hty as [|[ky y] r [Hk Hy] Hr].
  - reflexivity.
  - cbn [fst snd] in Hk, Hy.
    destruct (Z.of_nat (length ((ky, y) :: r)) <=? 0)%Z eqn:E; [cbn [length] in E; lia|].
    cbn [enc_entries norm_entries] in *. rewrite <- !app_assoc in *. unfold fuel_ok in Hf. cbn [need_entries] in Hf.
    rewrite !app_length in Hf.
    assert (H1 : dec_var f e 0 true kt (zero_of f e kt)
                   (enc_var e 0 true kt None ky ++ enc_var e 1 true vt None y ++ enc_entries e kt vt r ++ rest)
                 = DOk (norm e kt true None ky) (enc_var e 1 true vt None y ++ enc_entries e kt vt r ++ rest)).
    { apply (HV 0 true kt None ky (zero_of f e kt) None []); try assumption.
      - lia.
      - intros Hc; congruence.
      - apply (zero_zlike e k); [now apply ty_nest_nest|lia].
      - apply junk_nil.
      - now left.
      - unfold fuel_ok. cbn [ser_fields app]. rewrite !app_length. lia. }
    rewrite H1.
    assert (H2 : dec_var f e 1 true vt (zero_of f e vt) (enc_var e 1 true vt None y ++ enc_entries e kt vt r ++ rest)
                 = DOk (norm e vt true None y) (enc_entries e kt vt r ++ rest)).
    { apply (HV 1 true vt None y (zero_of f e vt) None []); try assumption.
      - lia.
      - intros Hc; congruence.
      - apply (zero_zlike e k); [now apply ty_nest_nest|lia].
      - apply junk_nil.
      - now left.
      - unfold fuel_ok. cbn [ser_fields app]. rewrite !app_length. lia. }
    rewrite H2.
    replace (Z.of_nat (length ((ky, y) :: r)) - 1)%Z with (Z.of_nat (length r)) by (cbn [length]; lia).
    rewrite HE; try assumption; [reflexivity|]. unfold fuel_ok. rewrite app_length. lia.
Qed.

(* whatever follows a member inside a struct's member sequence starts with a larger tag (or is the tail) *)
Lemma follows_encx : forall fds vs Js lo t tail,
  t <= lo -> ascending lo fds -> junks_ok (Some lo) fds Js ->
  Forall2 (fun fd x => has_type e (fty fd) x) fds vs ->
  follows t tail -> follows t (encx_fields e vs fds Js ++ tail).
Proof.
  induction fds as [|fd fds IH]; intros vs Js lo t tail Hle Hasc HJ Hty Hfo.
  - destruct vs, Js; exact Hfo.
  - inversion Hty as [|? x ? vs' Hx Hvs]; subst. destruct Js as [|J Js]; [contradiction|].
    destruct Hasc as (Hlt & H256 & Hasc). destruct HJ as [HJ HJs]. cbn [encx_fields].
    destruct J as [|[t0 w0] J].
    + cbn [ser_fields app]. destruct (enc_var_head e (ftag fd) (freq fd) (fty fd) (fdef fd) x Hx) as [[_ ->]|(ty & r & Hty' & ->)].
      * cbn [app]. apply (IH vs' Js (ftag fd)); try assumption. lia.
      * right. exists ty, (ftag fd), (r ++ encx_fields e vs' fds Js ++ tail). repeat split; try assumption.
        -- now rewrite <- !app_assoc.
        -- right. lia.
    + inversion HJ as [|? ? (A1 & A2 & A3 & A4 & A5) _]; subst. cbn [fst snd] in *.
      right. exists (ty_of w0), t0. eexists. repeat split.
      * apply ty_of_lt.
      * assumption.
      * rewrite ser_fields_cons, <- !app_assoc. reflexivity.
      * right. lia.
Qed.

Lemma step_fields f : P_var f -> P_fields f -> P_fields (S f).
Proof.
  intros HV HF fds vs ps Js lo tail Hty Hmem Hasc Hps HJ Htail Hf. rewrite dec_fields_S.
  destruct Hty as [|fd x fds vs Hx Hvs].
  - destruct Js; reflexivity.
  - inversion Hps as [|? p ? ps' Hp Hps']; subst. destruct Js as [|J Js]; [contradiction|]. destruct HJ as [HJ HJs].
    inversion Hmem as [|? ? [Hm1 Hm2] Hmem']; subst.
    assert (H256 : ftag fd < 256 /\ ascending (ftag fd) fds).
    { destruct lo; cbn [asc_opt schema_ascending ascending] in Hasc; tauto. }
    destruct H256 as [H256 Hasc'].
    cbn [encx_fields norm_fields tl] in *. rewrite <- !app_assoc in *. cbv zeta.
    unfold fuel_ok in Hf. cbn [need_list] in Hf. rewrite !app_length in Hf.
    assert (H1 : dec_var f e (ftag fd) (freq fd) (fty fd) p
                   (ser_fields J ++ enc_var e (ftag fd) (freq fd) (fty fd) (fdef fd) x ++ encx_fields e vs fds Js ++ tail)
                 = DOk (norm e (fty fd) (freq fd) (fdef fd) x) (encx_fields e vs fds Js ++ tail)).
    { apply (HV (ftag fd) (freq fd) (fty fd) (fdef fd) x p lo J); try assumption.
      - right. apply (follows_encx fds vs Js (ftag fd)); try assumption; [lia|]. apply Htail. now left.
      - unfold fuel_ok. rewrite !app_length. lia. }
    rewrite H1.
    rewrite (HF fds vs ps' Js (Some (ftag fd)) tail); try assumption; [reflexivity| |].
    + intros fd' Hin. apply Htail. now right.
    + unfold fuel_ok. rewrite app_length. lia.
Qed.

Lemma fuel_sub J bs' f : (2 * length (ser_fields J ++ bs') + 3 <= f)%nat -> exists f', (f - length J = S f')%nat /\ (2 * length bs' + 2 <= f')%nat.
Proof.
  intros H. rewrite app_length in H. pose proof (ser_fields_length J). exists (f - length J - 1)%nat. lia.
Qed.

Lemma step_var_scalar f tag req t d v prior lo J rest :
  scalar_ty t = true -> sc_typed t v -> tag < 256 -> prior_ok e t d prior -> junk_ok lo tag J ->
  (req = true \/ follows tag rest) ->
  fuel_ok (need v) (ser_fields J ++ enc_var e tag req t d v ++ rest) (S f) ->
  dec_var (S f) e tag req t prior (ser_fields J ++ enc_var e tag req t d v ++ rest) = DOk (norm e t req d v) rest.
Proof.
  intros Hsc Hty Htag Hp HJ Hfo Hf. unfold fuel_ok in Hf. pose proof (need_ge v).
  rewrite dec_var_scalar by assumption. rewrite (dec_scalar_junk J f lo) by (try assumption; lia).
  destruct (fuel_sub J (enc_var e tag req t d v ++ rest) f ltac:(lia)) as (f' & -> & Hf').
  rewrite norm_scalar by assumption. rewrite enc_var_scalar in * by assumption.
  destruct (omit t req d v) eqn:Eo.
  - cbn [app]. assert (req = false) by (unfold omit in Eo; destruct t; destruct req; cbn in Eo; congruence). subst req.
    destruct Hfo as [|Hfo]; [discriminate|]. rewrite dec_scalar_absent by assumption. f_equal.
    unfold prior_ok in Hp. destruct d; [assumption|]. now apply (zlike_scalar e).
  - rewrite <- (dec_var_scalar (S f') e) by assumption. now apply scalar_member_roundtrip.
Qed.

Ltac sf := first [reflexivity | assumption | lia].

Lemma step_var_bytes f tag req d s prior lo J rest :
  N.of_nat (length s) < 2147483648 -> tag < 256 -> zlike e (TVec TI8) prior -> junk_ok lo tag J ->
  (req = true \/ follows tag rest) ->
  fuel_ok 3 (ser_fields J ++ enc_var e tag req (TVec TI8) d (VBytes s) ++ rest) (S f) ->
  dec_var (S f) e tag req (TVec TI8) prior (ser_fields J ++ enc_var e tag req (TVec TI8) d (VBytes s) ++ rest) = DOk (VBytes s) rest.
Proof.
  intros Hs Htag Hp HJ Hfo Hf. unfold fuel_ok in Hf. apply zlike_vec in Hp. subst prior.
  rewrite dec_var_vec. rewrite (seek_junk J f lo) by (try assumption; lia).
  destruct (fuel_sub J (enc_var e tag req (TVec TI8) d (VBytes s) ++ rest) f ltac:(lia)) as (f' & -> & Hf').
  cbn [enc_var] in *.
  destruct (negb req && match s with [] => true | _ => false end) eqn:Eo.
  - destruct req; [discriminate|]. destruct s; [|discriminate]. cbn [app].
    destruct Hfo as [|Hfo]; [discriminate|]. now rewrite seek_stop by assumption.
  - rewrite <- !app_assoc. rewrite seek_first by sf.
    change (tSIMPLE =? tLIST) with false. change (tSIMPLE =? tSIMPLE) with true. cbv iota. cbn [is_byte].
    unfold skip_to. destruct f as [|f0]; [lia|]. rewrite seek_first by sf.
    change (tBYTE =? tBYTE) with true. cbv iota.
    rewrite read_count_len by assumption.
    rewrite read_slice_app. reflexivity.
Qed.

Lemma step_var_vec f tag req d x xs prior lo J rest : P_elems f ->
  x <> TI8 -> N.of_nat (length xs) < 2147483648 -> Forall (has_type e x) xs -> ty_nest k e x = true ->
  tag < 256 -> zlike e (TVec x) prior -> junk_ok lo tag J -> (req = true \/ follows tag rest) ->
  fuel_ok (need (VList xs)) (ser_fields J ++ enc_var e tag req (TVec x) d (VList xs) ++ rest) (S f) ->
  dec_var (S f) e tag req (TVec x) prior (ser_fields J ++ enc_var e tag req (TVec x) d (VList xs) ++ rest)
  = DOk (VList (norm_elems e x xs)) rest.
Proof.
  intros HE Hx Hlen Hty Hn Htag Hp HJ Hfo Hf. unfold fuel_ok in Hf. rewrite need_VList in Hf.
  assert (prior = VList []) by (apply zlike_vec in Hp; destruct x; congruence). subst prior.
  rewrite dec_var_vec. rewrite (seek_junk J f lo) by (try assumption; lia).
  destruct (fuel_sub J (enc_var e tag req (TVec x) d (VList xs) ++ rest) f ltac:(lia)) as (f' & -> & Hf').
  rewrite enc_var_list in *.
  destruct (negb req && match xs with [] => true | _ => false end) eqn:Eo.
  - destruct req; [discriminate|]. destruct xs; [|discriminate]. cbn [app].
    destruct Hfo as [|Hfo]; [discriminate|]. now rewrite seek_stop by assumption.
  - rewrite <- !app_assoc in *. rewrite seek_first by sf.
    change (tLIST =? tLIST) with true. cbv iota.
    rewrite read_count_len by assumption.
    destruct (Z.of_nat (length xs) <? 0)%Z eqn:E1; [lia|].
    pose proof (enc_elems_length e x xs Hty) as Hel.
    destruct (Z.of_nat (length (enc_elems e x xs ++ rest)) <? Z.of_nat (length xs))%Z eqn:E2; [rewrite app_length in E2; lia|].
    rewrite HE; try assumption.
    + destruct x; try reflexivity. congruence.
    + unfold fuel_ok. rewrite !app_length in *. lia.
Qed.

Lemma step_var_arr f tag req d n x xs prior lo J rest : P_arr f ->
  length xs = n -> (0 < n)%nat -> N.of_nat n < 2147483648 -> Forall (has_type e x) xs -> ty_nest k e x = true ->
  tag < 256 -> zlike e (TArr n x) prior -> junk_ok lo tag J ->
  fuel_ok (need (VList xs)) (ser_fields J ++ enc_var e tag req (TArr n x) d (VList xs) ++ rest) (S f) ->
  dec_var (S f) e tag req (TArr n x) prior (ser_fields J ++ enc_var e tag req (TArr n x) d (VList xs) ++ rest)
  = DOk (VList (norm_elems e x xs)) rest.
Proof.
  intros HA Hl Hpos Hlen Hty Hn Htag Hp HJ Hf. unfold fuel_ok in Hf. rewrite need_VList in Hf.
  inversion Hp as [? Hb|? ? l Hll Hz|]; subst; [discriminate|].
  rewrite dec_var_arr. rewrite (seek_junk J f lo) by (try assumption; lia).
  destruct (fuel_sub J (enc_var e tag req (TArr (length xs) x) d (VList xs) ++ rest) f ltac:(lia)) as (f' & -> & Hf').
  rewrite enc_var_arr in *.
  destruct (negb req && match xs with [] => true | _ => false end) eqn:Eo.
  - destruct xs; [cbn [length] in Hpos; lia|]. destruct req; discriminate.
  - rewrite <- !app_assoc in *. rewrite seek_first by sf.
    change (tLIST =? tLIST) with true. cbv iota.
    rewrite read_count_len by (rewrite <- Hll in Hlen; lia).
    replace ((Z.of_nat (length xs) <? 0)%Z || (Z.of_nat (length xs) <? Z.of_nat (length xs))%Z) with false by lia.
    pose proof (HA x (length xs) [] l xs rest) as H1. cbn [length app] in H1. rewrite H1; try assumption; try reflexivity.
    unfold fuel_ok. rewrite !app_length in *. lia.
Qed.

Lemma step_var_map f tag req d kt vt kvs prior lo J rest : P_entries f ->
  N.of_nat (length kvs) < 2147483648 -> Forall (fun p => has_type e kt (fst p) /\ has_type e vt (snd p)) kvs ->
  ty_nest k e kt = true -> ty_nest k e vt = true ->
  tag < 256 -> zlike e (TMap kt vt) prior -> junk_ok lo tag J -> (req = true \/ follows tag rest) ->
  fuel_ok (need (VMap kvs)) (ser_fields J ++ enc_var e tag req (TMap kt vt) d (VMap kvs) ++ rest) (S f) ->
  dec_var (S f) e tag req (TMap kt vt) prior (ser_fields J ++ enc_var e tag req (TMap kt vt) d (VMap kvs) ++ rest)
  = DOk (VMap (norm_entries e kt vt kvs)) rest.
Proof.
  intros HE Hlen Hty Hnk Hnv Htag Hp HJ Hfo Hf. unfold fuel_ok in Hf. rewrite need_VMap in Hf.
  apply zlike_map in Hp. subst prior.
  rewrite dec_var_map. unfold skip_to. rewrite (seek_junk J f lo) by (try assumption; lia).
  destruct (fuel_sub J (enc_var e tag req (TMap kt vt) d (VMap kvs) ++ rest) f ltac:(lia)) as (f' & -> & Hf').
  rewrite enc_var_map in *.
  destruct (negb req && match kvs with [] => true | _ => false end) eqn:Eo.
  - destruct req; [discriminate|]. destruct kvs; [|discriminate]. cbn [app].
    destruct Hfo as [|Hfo]; [discriminate|]. now rewrite seek_stop by assumption.
  - rewrite <- !app_assoc in *. rewrite seek_first by sf.
    change (tMAP =? tMAP) with true. cbv iota.
    rewrite read_count_len by assumption.
    pose proof (enc_entries_length e kt vt kvs Hty) as Hel.
    replace ((Z.of_nat (length kvs) <? 0)%Z || (Z.of_nat (length (enc_entries e kt vt kvs ++ rest)) / 2 <? Z.of_nat (length kvs))%Z)
      with false by (rewrite app_length; lia).
    rewrite HE; try assumption; [reflexivity|].
    unfold fuel_ok. rewrite !app_length in *. lia.
Qed.

Lemma encx_nil vs : forall fds, length fds = length vs ->
  encx_fields e vs fds (map (fun _ => []) fds) = enc_fields e vs fds.
Proof.
  induction vs as [|x vs IH]; intros [|fd fds] Hl; try discriminate; [reflexivity|].
  cbn [map encx_fields enc_fields ser_fields app]. rewrite IH by (cbn [length] in Hl; lia). reflexivity.
Qed.
Lemma junks_nil : forall fds lo, junks_ok lo fds (map (fun _ => []) fds).
Proof. induction fds as [|fd fds IH]; intros lo; cbn [map junks_ok]; [exact I|]. split; [apply junk_nil|apply IH]. Qed.
Lemma members_ok sid : Forall member_ok (fields_of e sid).
Proof.
  apply Forall_forall. intros fd Hin. split; [now apply (wf_nest k e Hwf sid)|now apply (wf_def k e Hwf sid)].
Qed.
Lemma skip_to_end_se f d rest : skip_to_end (S (S f)) d (head tSE 0 ++ rest) = (SOk, rest).
Proof. reflexivity. Qed.
Lemma follows_se t rest : follows t (head tSE 0 ++ rest).
Proof. right. exists tSE, 0, rest. repeat split; try reflexivity. now left. Qed.

Lemma step_var_struct f tag req d sid vs prior lo J rest : P_fields f ->
  Forall2 (fun fd x => has_type e (fty fd) x) (fields_of e sid) vs ->
  tag < 256 -> zlike e (TStruct sid) prior -> junk_ok lo tag J ->
  fuel_ok (need (VStruct vs)) (ser_fields J ++ enc_var e tag req (TStruct sid) d (VStruct vs) ++ rest) (S f) ->
  dec_var (S f) e tag req (TStruct sid) prior (ser_fields J ++ enc_var e tag req (TStruct sid) d (VStruct vs) ++ rest)
  = DOk (VStruct (norm_fields e vs (fields_of e sid))) rest.
Proof.
  intros HF Hty Htag Hp HJ Hf. unfold fuel_ok in Hf. rewrite need_VStruct in Hf.
  rewrite dec_var_struct. cbv zeta. unfold skip_to. rewrite (seek_junk J f lo) by (try assumption; lia).
  destruct (fuel_sub J (enc_var e tag req (TStruct sid) d (VStruct vs) ++ rest) f ltac:(lia)) as (f' & -> & Hf').
  rewrite enc_var_struct in *. rewrite <- !app_assoc in *. rewrite seek_first by sf.
  change (tSB =? tSB) with true. cbv iota.
  pose proof (need_list_ge vs).
  destruct f as [|f0]; [lia|]. destruct (struct_priors e k f0 sid prior Hwf ltac:(lia)) as (ps & -> & Hps).
  rewrite <- (encx_nil vs (fields_of e sid)) by (now apply Forall2_len in Hty).
  rewrite (HF (fields_of e sid) vs ps (map (fun _ => []) (fields_of e sid)) None (head tSE 0 ++ rest)); try assumption.
  - destruct f0 as [|f1]; [lia|]. now rewrite skip_to_end_se.
  - apply members_ok.
  - apply (wf_asc k e Hwf).
  - apply junks_nil.
  - intros fd _. apply follows_se.
  - unfold fuel_ok. rewrite encx_nil by (now apply Forall2_len in Hty). rewrite !app_length in *. lia.
Qed.

Lemma step_var f : P_elems f -> P_arr f -> P_entries f -> P_fields f -> P_var (S f).
Proof.
  intros HE HA HM HF tag req t d v prior lo J rest Hty Hn Htag Hd Hp HJ Hfo Hf.
  inversion Hty; subst.
  - rewrite (step_var_scalar f tag req t d v prior lo J rest); auto.
  - assert (d = None) by (destruct d; [specialize (Hd ltac:(discriminate)); discriminate|reflexivity]). subst d.
    apply (step_var_bytes f tag req None s prior lo J rest); auto.
  - assert (d = None) by (destruct d; [specialize (Hd ltac:(discriminate)); discriminate|reflexivity]). subst d.
    rewrite norm_vec. apply (step_var_vec f tag req None x xs prior lo J rest); auto. now apply ty_nest_vec.
  - assert (d = None) by (destruct d; [specialize (Hd ltac:(discriminate)); discriminate|reflexivity]). subst d.
    rewrite norm_arr. apply (step_var_arr f tag req None (length xs) x xs prior lo J rest); auto. now apply ty_nest_arr in Hn.
  - assert (d = None) by (destruct d; [specialize (Hd ltac:(discriminate)); discriminate|reflexivity]). subst d.
    rewrite norm_map. apply ty_nest_map in Hn. destruct Hn.
    apply (step_var_map f tag req None kt vt kvs prior lo J rest); auto.
  - assert (d = None) by (destruct d; [specialize (Hd ltac:(discriminate)); discriminate|reflexivity]). subst d.
    rewrite norm_str. apply (step_var_struct f tag req None sid vs prior lo J rest); auto.
Qed.

Theorem rt_all : forall fuel, P_var fuel /\ P_elems fuel /\ P_arr fuel /\ P_entries fuel /\ P_fields fuel.
Proof.
  induction fuel as [|f (HV & HE & HA & HM & HF)].
  - repeat split; intro; intros; unfold fuel_ok in *; lia.
  - repeat split.
    + now apply step_var.
    + now apply step_elems.
    + now apply step_arr.
    + now apply step_entries.
    + now apply step_fields.
Qed.
End RT.

(* ================= top-level statements ================= *)
Lemma zero_struct_zlike e k sid : wf_schema k e -> (S k <= 64)%nat -> zlike e (TStruct sid) (zero_struct e sid).
Proof.
  intros Hwf Hk. unfold zero_struct. apply (zero_zlike e (S k)); [|assumption].
  cbn [nest_ok]. apply forallb_forall. intros fd Hin. apply (ty_nest_nest e k). now apply (wf_nest k e Hwf sid).
Qed.

(* ReadFrom of the encoding with unknown fields before any member and after the last one, into any
   target, followed by anything that cannot be mistaken for a member *)
Theorem decode_into_extras e k sid vs prior Js tail :
  wf_schema k e -> has_type e (TStruct sid) (VStruct vs) ->
  junks_ok None (fields_of e sid) Js ->
  (forall fd, In fd (fields_of e sid) -> follows (ftag fd) tail) ->
  (need_list vs + k + 3 <= 2 * length (encx_fields e vs (fields_of e sid) Js ++ tail) + 64)%nat ->
  decode_into e sid prior (encx_fields e vs (fields_of e sid) Js ++ tail) = DOk (norm_struct e sid (VStruct vs)) tail.
Proof.
  intros Hwf Hty HJ Htail Hfuel. unfold decode_into, norm_struct. rewrite norm_str.
  set (bs := encx_fields e vs (fields_of e sid) Js ++ tail) in *.
  replace (4 * length bs + 64)%nat with (S (4 * length bs + 63)) by lia.
  destruct (struct_priors1 e k (4 * length bs + 63) sid prior Hwf ltac:(lia)) as (ps & -> & Hps).
  destruct (rt_all e k Hwf (S (4 * length bs + 63))) as (_ & _ & _ & _ & HF).
  inversion Hty as [| | | | |? ? Hvs]; subst; [discriminate|].
  assert (H1 : dec_fields (S (4 * length bs + 63)) e (fields_of e sid) ps bs = DOk (norm_fields e vs (fields_of e sid)) tail).
  { unfold bs. apply (HF (fields_of e sid) vs ps Js None tail); try assumption.
    - now apply members_ok.
    - apply (wf_asc k e Hwf).
    - unfold fuel_ok. fold bs. lia. }
  now rewrite H1.
Qed.

Theorem roundtrip_into e k sid vs prior rest :
  wf_schema k e -> has_type e (TStruct sid) (VStruct vs) ->
  (forall fd, In fd (fields_of e sid) -> follows (ftag fd) rest) ->
  (need_list vs + k + 3 <= 2 * length (encode e sid (VStruct vs) ++ rest) + 64)%nat ->
  decode_into e sid prior (encode e sid (VStruct vs) ++ rest) = DOk (norm_struct e sid (VStruct vs)) rest.
Proof.
  intros Hwf Hty Htail Hfuel.
  assert (Hl : length (fields_of e sid) = length vs).
  { inversion Hty as [| | | | |? ? Hvs]; subst; [discriminate|]. now apply Forall2_len in Hvs. }
  rewrite encode_fields in *. rewrite <- (encx_nil e vs (fields_of e sid) Hl) in *.
  apply (decode_into_extras e k); try assumption. apply junks_nil.
Qed.

Lemma follows_nil t : follows t [].
Proof. now left. Qed.

(* C03: decode (encode v) = norm v, everything consumed *)
Theorem roundtrip_struct e k sid vs :
  wf_schema k e -> (S k <= 64)%nat -> has_type e (TStruct sid) (VStruct vs) ->
  (need_list vs + k + 3 <= 2 * length (encode e sid (VStruct vs)) + 64)%nat ->
  decode e sid (encode e sid (VStruct vs)) = DOk (norm_struct e sid (VStruct vs)) [].
Proof.
  intros Hwf Hk Hty Hfuel. unfold decode.
  rewrite <- (app_nil_r (encode e sid (VStruct vs))). apply (roundtrip_into e k); try assumption.
  - intros; apply follows_nil.
  - now rewrite app_nil_r.
Qed.

(* ---------- boolean checkers are sound ---------- *)
Lemma tags_asc_some s : forall p, tags_ascending (Some p) s = true -> ascending p s.
Proof.
  induction s as [|fd s IH]; intros p H; [exact I|]. cbn [tags_ascending] in H.
  apply andb_true_iff in H. destruct H as [H H3]. apply andb_true_iff in H. destruct H as [H1 H2].
  cbn [ascending]. repeat split; [lia|lia|now apply IH].
Qed.
Lemma tags_asc_none s : tags_ascending None s = true -> schema_ascending s.
Proof.
  destruct s as [|fd s]; intros H; [exact I|]. cbn [tags_ascending] in H.
  apply andb_true_iff in H. destruct H as [H H3]. apply andb_true_iff in H. destruct H as [H1 _].
  cbn [schema_ascending]. split; [lia|now apply tags_asc_some].
Qed.
Theorem wf_schema_b_sound k e : wf_schema_b k e = true -> wf_schema k e.
Proof.
  intros H. unfold wf_schema_b in H. rewrite forallb_forall in H.
  assert (Hs : forall sid, fields_of e sid = [] \/ In (fields_of e sid) e).
  { intros sid. unfold fields_of. destruct (nth_in_or_default sid e []); [now right|now left]. }
  split.
  - intros sid. destruct (Hs sid) as [->|Hin]; [exact I|]. specialize (H _ Hin).
    apply andb_true_iff in H. now apply tags_asc_none.
  - intros sid fd Hfd Hd. destruct (Hs sid) as [E|Hin]; [rewrite E in Hfd; contradiction|]. specialize (H _ Hin).
    apply andb_true_iff in H. destruct H as [_ H]. rewrite forallb_forall in H. specialize (H _ Hfd).
    apply andb_true_iff in H. destruct H as [H _]. destruct (fdef fd); [assumption|congruence].
  - intros sid fd Hfd. destruct (Hs sid) as [E|Hin]; [rewrite E in Hfd; contradiction|]. specialize (H _ Hin).
    apply andb_true_iff in H. destruct H as [_ H]. rewrite forallb_forall in H. specialize (H _ Hfd).
    apply andb_true_iff in H. tauto.
Qed.

Lemma sc_typed_b_sound t v : sc_typed_b t v = true -> sc_typed t v.
Proof. destruct t; destruct v; cbn [sc_typed_b sc_typed]; intros H; try discriminate; try exact I; try assumption; lia. Qed.
Lemma is_i8_true x : is_i8 x = true -> x = TI8.
Proof. destruct x; cbn; congruence. Qed.
Lemma is_i8_false x : is_i8 x = false -> x <> TI8.
Proof. destruct x; cbn; congruence. Qed.
Theorem has_type_b_sound e : forall fuel t v, has_type_b fuel e t v = true -> has_type e t v.
Proof.
  induction fuel as [|f IH]; intros t v H; [discriminate|]. cbn [has_type_b] in H.
  assert (Hsc : scalar_ty t && sc_typed_b t v = true -> has_type e t v).
  { intros Hc. apply andb_true_iff in Hc. destruct Hc. apply HT_scalar; [assumption|now apply sc_typed_b_sound]. }
  destruct v; try (now apply Hsc).
  - destruct t; try discriminate. apply andb_true_iff in H. destruct H as [H1 H2]. apply is_i8_true in H1. subst.
    apply HT_bytes. lia.
  - destruct t; try discriminate.
    + apply andb_true_iff in H. destruct H as [H H3]. apply andb_true_iff in H. destruct H as [H1 H2].
      apply HT_vec; [apply is_i8_false; now destruct (is_i8 t)|lia|].
      rewrite forallb_forall in H3. apply Forall_forall. intros y Hy. apply IH. now apply H3.
    + apply andb_true_iff in H. destruct H as [H H4]. apply andb_true_iff in H. destruct H as [H H3].
      apply andb_true_iff in H. destruct H as [H1 H2]. apply Nat.eqb_eq in H1. apply Nat.ltb_lt in H2.
      apply HT_arr; [assumption|assumption|lia|].
      rewrite forallb_forall in H4. apply Forall_forall. intros y Hy. apply IH. now apply H4.
  - destruct t; try discriminate. apply andb_true_iff in H. destruct H as [H1 H2].
    apply HT_map; [lia|]. rewrite forallb_forall in H2. apply Forall_forall. intros p Hp.
    specialize (H2 _ Hp). apply andb_true_iff in H2. destruct H2. split; now apply IH.
  - destruct t; try discriminate. apply HT_struct. clear Hsc. revert fs H. generalize (fields_of e sid). intros fds.
    induction fds as [|fd fds IHf]; intros [|x vs] H; try discriminate; constructor.
    + apply andb_true_iff in H. destruct H. now apply IH.
    + apply andb_true_iff in H. destruct H. now apply IHf.
Qed.
Print Assumptions roundtrip_struct.
Print Assumptions decode_into_extras.

(* ================= fuel adequacy from the schema alone (non-recursive types) ================= *)
Section Need.
Variable e : env.

Lemma need_list_bound x T xs :
  Forall (fun y => has_type e x y /\ (need y <= T + 2 * length (enc_var e 0 true x None y))%nat) xs ->
  (need_list xs <= 1 + T + 2 * length (enc_elems e x xs))%nat.
Proof.
  induction 1 as [|y r [Hy Hb] _ IH]; cbn [need_list enc_elems length]; [lia|].
  rewrite app_length. pose proof (enc_var_req_length e 0 x None y Hy). lia.
Qed.
Lemma need_entries_bound kt vt T kvs :
  Forall (fun p => (has_type e kt (fst p) /\ (need (fst p) <= T + 2 * length (enc_var e 0 true kt None (fst p)))%nat) /\
                   (has_type e vt (snd p) /\ (need (snd p) <= T + 2 * length (enc_var e 1 true vt None (snd p)))%nat)) kvs ->
  (need_entries kvs <= 1 + T + 2 * length (enc_entries e kt vt kvs))%nat.
Proof.
  induction 1 as [|[ky y] r [[Hk Hbk] [Hy Hby]] _ IH]; cbn [need_entries enc_entries length fst snd] in *; [lia|].
  rewrite !app_length. pose proof (enc_var_req_length e 0 kt None ky Hk). pose proof (enc_var_req_length e 1 vt None y Hy). lia.
Qed.
Lemma need_fields_bound (g : ty -> nat) : forall fds vs,
  Forall2 (fun fd x => (need x <= g (fty fd) + 2 * length (enc_var e (ftag fd) (freq fd) (fty fd) (fdef fd) x))%nat) fds vs ->
  (need_list vs <= 1 + length fds + tmax g fds + 2 * length (enc_fields e vs fds))%nat.
Proof.
  induction 1 as [|fd x fds vs Hb _ IH]; cbn [need_list enc_fields length tmax fold_right]; [lia|].
  fold (tmax g fds). rewrite app_length. lia.
Qed.

Lemma fields_bound_aux (g : ty -> nat) fds vs :
  Forall2 (fun fd x => has_type e (fty fd) x) fds vs ->
  (forall fd, In fd fds -> forall x tag req d, has_type e (fty fd) x ->
     (need x <= g (fty fd) + 2 * length (enc_var e tag req (fty fd) d x))%nat) ->
  Forall2 (fun fd x => (need x <= g (fty fd) + 2 * length (enc_var e (ftag fd) (freq fd) (fty fd) (fdef fd) x))%nat) fds vs.
Proof.
  induction 1 as [|fd x fds vs Hx _ IHF]; intros Hb; constructor.
  - apply Hb; [now left|assumption].
  - apply IHF. intros fd' Hin. apply Hb. now right.
Qed.

Lemma need_bound : forall n t v tag req d, tfin n e t = true -> has_type e t v ->
  (need v <= tneed n e t + 2 * length (enc_var e tag req t d v))%nat.
Proof.
  induction n as [|n IH]; intros t v tag req d Hfin Hty; [discriminate|].
  inversion Hty; subst; cbn [tfin] in Hfin.
  - assert (need v = 3%nat) as -> by (destruct t; try discriminate; destruct v; cbn [sc_typed] in *; try contradiction; reflexivity).
    assert (tneed (S n) e t = 3%nat) as -> by (destruct t; try discriminate; reflexivity). lia.
  - cbn [need tneed]. lia.
  - rewrite need_VList, enc_var_list. cbn [tneed].
    assert (Hb : (need_list xs <= 1 + tneed n e x + 2 * length (enc_elems e x xs))%nat).
    { apply need_list_bound. eapply Forall_impl; [|eassumption]. intros y Hy. split; [assumption|]. now apply IH. }
    destruct (negb req && _)%bool eqn:Eo.
    + destruct xs; [cbn [need_list]; lia|]. destruct req; discriminate.
    + rewrite !app_length. lia.
  - rewrite need_VList, enc_var_arr. cbn [tneed].
    assert (Hb : (need_list xs <= 1 + tneed n e x + 2 * length (enc_elems e x xs))%nat).
    { apply need_list_bound. eapply Forall_impl; [|eassumption]. intros y Hy. split; [assumption|]. now apply IH. }
    destruct (negb req && _)%bool eqn:Eo.
    + destruct xs; [cbn [need_list]; lia|]. destruct req; discriminate.
    + rewrite !app_length. lia.
  - rewrite need_VMap, enc_var_map. cbn [tneed]. apply andb_true_iff in Hfin. destruct Hfin as [Hfa Hfb].
    assert (Hb : (need_entries kvs <= 1 + Nat.max (tneed n e kt) (tneed n e vt) + 2 * length (enc_entries e kt vt kvs))%nat).
    { apply need_entries_bound. eapply Forall_impl; [|eassumption]. intros [ky y] [Hk Hy]. cbn [fst snd] in *.
      pose proof (IH kt ky 0 true None Hfa Hk). pose proof (IH vt y 1 true None Hfb Hy). repeat split; try assumption; lia. }
    destruct (negb req && _)%bool eqn:Eo.
    + destruct kvs; [cbn [need_entries]; lia|]. destruct req; discriminate.
    + rewrite !app_length. lia.
  - rewrite need_VStruct, enc_var_struct. cbn [tneed]. rewrite !app_length.
    assert (Hb : (need_list vs <= 1 + length (fields_of e sid) + tmax (tneed n e) (fields_of e sid)
                                  + 2 * length (enc_fields e vs (fields_of e sid)))%nat).
    { apply need_fields_bound. rewrite forallb_forall in Hfin. apply fields_bound_aux; [assumption|].
      intros fd Hin x tag' req' d' Hx. apply IH; [now apply Hfin|assumption]. }
    lia.
Qed.

(* the top level: what the model's fuel 4*len+64 must cover *)
Lemma need_top n sid vs : tfin n e (TStruct sid) = true -> has_type e (TStruct sid) (VStruct vs) ->
  (3 + need_list vs <= tneed n e (TStruct sid) + 2 * length (encode e sid (VStruct vs)))%nat.
Proof.
  intros Hfin Hty. pose proof (need_bound n (TStruct sid) (VStruct vs) 0 true None Hfin Hty) as H.
  rewrite need_VStruct, enc_var_struct, !app_length, encode_fields in *. cbn [length head] in H.
  change (length (head tSB 0)) with 1%nat in H. change (length (head tSE 0)) with 1%nat in H.
  destruct n; [discriminate|]. cbn [tneed] in *.
  assert (Hb : (need_list vs <= 1 + length (fields_of e sid) + tmax (tneed n e) (fields_of e sid)
                                + 2 * length (enc_fields e vs (fields_of e sid)))%nat).
  { apply need_fields_bound. cbn [tfin] in Hfin. rewrite forallb_forall in Hfin.
    inversion Hty as [| | | | |? ? Hvs]; subst; [discriminate|]. apply fields_bound_aux; [assumption|].
    intros fd Hin x tag' req' d' Hx. apply need_bound; [now apply Hfin|assumption]. }
  lia.
Qed.
End Need.

(* C03 with the fuel condition discharged from the schema: for struct types whose type graph is finite *)
Theorem roundtrip_struct_static e k n sid vs :
  wf_schema k e -> (S k <= 64)%nat -> tfin n e (TStruct sid) = true -> (tneed n e (TStruct sid) + k <= 64)%nat ->
  has_type e (TStruct sid) (VStruct vs) ->
  decode e sid (encode e sid (VStruct vs)) = DOk (norm_struct e sid (VStruct vs)) [].
Proof.
  intros Hwf Hk Hfin Hn Hty. apply (roundtrip_struct e k); try assumption.
  pose proof (need_top e n sid vs Hfin Hty). lia.
Qed.
Print Assumptions roundtrip_struct_static.
Lemma tneed_overflow n e sid : (length e <= sid)%nat -> tneed (S n) e (TStruct sid) = 4%nat.
Proof. intros H. cbn [tneed]. unfold fields_of. rewrite nth_overflow by assumption. reflexivity. Qed.

(* ================= C04: unknown fields, absent members ================= *)
Lemma encx_length_ge e : forall fds vs Js lo,
  Forall2 (fun fd x => has_type e (fty fd) x) fds vs -> junks_ok lo fds Js ->
  (length (enc_fields e vs fds) <= length (encx_fields e vs fds Js))%nat.
Proof.
  induction fds as [|fd fds IH]; intros vs Js lo Hty HJ; inversion Hty; subst.
  - cbn. lia.
  - destruct Js as [|J Js]; [contradiction|]. destruct HJ as [_ HJs].
    cbn [enc_fields encx_fields]. rewrite !app_length. specialize (IH _ _ _ H3 HJs). lia.
Qed.

Definition trailing_ok (fds : schema) (Jl : list (N * wf)) : Prop :=
  Forall (fun p => fst p < 256 /\ forall fd, In fd fds -> ftag fd < fst p) Jl.
Lemma follows_trailing fds Jl fd : trailing_ok fds Jl -> In fd fds -> follows (ftag fd) (ser_fields Jl).
Proof.
  intros Ht Hin. destruct Jl as [|[t w] Jl]; [now left|]. inversion Ht as [|? ? [H1 H2] _]; subst. cbn [fst] in *.
  right. exists (ty_of w), t. eexists. repeat split; [apply ty_of_lt|assumption|apply ser_fields_cons|]. right. now apply H2.
Qed.

(* unknown fields before any member and after the last one change neither the value nor success; the cursor
   stops exactly in front of the trailing unknown fields *)
Theorem extras_ignored e k n sid vs Js Jl :
  wf_schema k e -> (S k <= 64)%nat -> tfin n e (TStruct sid) = true -> (tneed n e (TStruct sid) + k <= 64)%nat ->
  has_type e (TStruct sid) (VStruct vs) ->
  junks_ok None (fields_of e sid) Js -> trailing_ok (fields_of e sid) Jl ->
  decode e sid (encx_fields e vs (fields_of e sid) Js ++ ser_fields Jl) = DOk (norm_struct e sid (VStruct vs)) (ser_fields Jl)
  /\ decode e sid (encode e sid (VStruct vs)) = DOk (norm_struct e sid (VStruct vs)) [].
Proof.
  intros Hwf Hk Hfin Hn Hty HJ HJl. split; [|now apply (roundtrip_struct_static e k n)].
  unfold decode. apply (decode_into_extras e k); try assumption.
  - intros fd Hin. now apply (follows_trailing (fields_of e sid)).
  - pose proof (need_top e n sid vs Hfin Hty) as H1. rewrite encode_fields in H1.
    inversion Hty as [| | | | |? ? Hvs]; subst; [discriminate|].
    pose proof (encx_length_ge e _ _ _ _ Hvs HJ). rewrite app_length. lia.
Qed.

(* a member that is absent from the input: what follows is the end, a StructEnd or a larger tag *)
Lemma member_absent_required e f tag t prior lo J rest : junk_ok lo tag J -> follows tag rest ->
  (2 * length (ser_fields J ++ rest) + 3 <= f)%nat ->
  dec_var (S f) e tag true t prior (ser_fields J ++ rest) = DErr.
Proof.
  intros HJ Hfo Hf. destruct (fuel_sub J rest f Hf) as (f' & Ef & Hf').
  assert (Hs : skip_to_no_check f tag true (ser_fields J ++ rest) = SeekErr).
  { rewrite (seek_junk J f lo) by assumption. rewrite Ef. now apply seek_stop_req. }
  destruct t; try (rewrite dec_var_scalar by reflexivity; rewrite (dec_scalar_junk J f lo) by assumption;
                   rewrite Ef; now apply dec_scalar_absent_req).
  - rewrite dec_var_vec. now rewrite Hs.
  - rewrite dec_var_map. unfold skip_to. now rewrite Hs.
  - rewrite dec_var_arr. now rewrite Hs.
  - rewrite dec_var_struct. cbv zeta. unfold skip_to. now rewrite Hs.
Qed.
(* an absent optional member of a non-struct type keeps the target's value (the declared default after
   ResetDefault, else the zero value of a fresh target), and nothing is consumed *)
Lemma member_absent_optional e f tag t prior lo J rest : junk_ok lo tag J -> follows tag rest ->
  (match t with TStruct _ => False | _ => True end) ->
  (2 * length (ser_fields J ++ rest) + 3 <= f)%nat ->
  dec_var (S f) e tag false t prior (ser_fields J ++ rest) = DOk prior rest.
Proof.
  intros HJ Hfo Hns Hf. destruct (fuel_sub J rest f Hf) as (f' & Ef & Hf').
  assert (Hs : skip_to_no_check f tag false (ser_fields J ++ rest) = NotFound rest).
  { rewrite (seek_junk J f lo) by assumption. rewrite Ef. now apply seek_stop. }
  destruct t; try (rewrite dec_var_scalar by reflexivity; rewrite (dec_scalar_junk J f lo) by assumption;
                   rewrite Ef; now apply dec_scalar_absent).
  - rewrite dec_var_vec. now rewrite Hs.
  - rewrite dec_var_map. unfold skip_to. now rewrite Hs.
  - rewrite dec_var_arr. now rewrite Hs.
  - contradiction.
Qed.

Lemma ascending_app_l p a b : ascending p (a ++ b) -> ascending p a.
Proof. revert p. induction a as [|x a IH]; intros p H; [exact I|]. cbn [app ascending] in *. destruct H as (H1 & H2 & H3). repeat split; try assumption. now apply IH. Qed.
Lemma ascending_app_mid p a fd b : ascending p (a ++ fd :: b) -> p < ftag fd /\ ftag fd < 256 /\ ascending (ftag fd) b.
Proof.
  revert p. induction a as [|x a IH]; intros p H; cbn [app ascending] in H.
  - tauto.
  - destruct H as (H1 & H2 & H3). destruct (IH _ H3) as (A & B & C). repeat split; try assumption. lia.
Qed.

Section Absent.
Variable e : env.
Variable k : nat.
Hypothesis Hwf : wf_schema k e.

(* the members before a member whose own decoding fails decode; then the failure is the result *)
Lemma fields_member_error : forall fuel fds1 vs1 ps1 ps2 Js lo fd fds2 tail,
  Forall2 (fun fd x => has_type e (fty fd) x) fds1 vs1 -> Forall (member_ok e k) fds1 ->
  asc_opt lo (fds1 ++ fd :: fds2) ->
  Forall2 (fun fd p => prior_ok e (fty fd) (fdef fd) p) fds1 ps1 -> junks_ok lo fds1 Js ->
  (forall f' prior, (2 * length tail + 4 <= f')%nat -> dec_var f' e (ftag fd) (freq fd) (fty fd) prior tail = DErr) ->
  (forall fd1, In fd1 fds1 -> follows (ftag fd1) tail) ->
  fuel_ok k (S (need_list vs1)) (encx_fields e vs1 fds1 Js ++ tail) fuel ->
  dec_fields fuel e (fds1 ++ fd :: fds2) (ps1 ++ ps2) (encx_fields e vs1 fds1 Js ++ tail) = DErr.
Proof.
  induction fuel as [|f IH]; intros fds1 vs1 ps1 ps2 Js lo fd fds2 tail Hty Hmem Hasc Hps HJ Hfail Hfol Hf;
    [unfold fuel_ok in Hf; lia|].
  rewrite dec_fields_S. destruct Hty as [|fd1 x fds1 vs1 Hx Hvs].
  - destruct Js; [|contradiction]. inversion Hps; subst. cbn [app encx_fields] in *. cbv zeta.
    rewrite Hfail; [reflexivity|]. unfold fuel_ok in Hf. cbn [need_list] in Hf. lia.
  - inversion Hps as [|? p ? ps' Hp Hps']; subst. destruct Js as [|J Js]; [contradiction|]. destruct HJ as [HJ HJs].
    inversion Hmem as [|? ? [Hm1 Hm2] Hmem']; subst.
    assert (H256 : ftag fd1 < 256 /\ ascending (ftag fd1) (fds1 ++ fd :: fds2)).
    { destruct lo; cbn [app asc_opt schema_ascending ascending] in Hasc; tauto. }
    destruct H256 as [H256 Hasc'].
    cbn [app encx_fields tl] in *. rewrite <- !app_assoc in *. cbv zeta.
    unfold fuel_ok in Hf. cbn [need_list] in Hf. rewrite !app_length in Hf.
    destruct (rt_all e k Hwf f) as (HV & _).
    assert (H1 : dec_var f e (ftag fd1) (freq fd1) (fty fd1) p
                   (ser_fields J ++ enc_var e (ftag fd1) (freq fd1) (fty fd1) (fdef fd1) x ++ encx_fields e vs1 fds1 Js ++ tail)
                 = DOk (norm e (fty fd1) (freq fd1) (fdef fd1) x) (encx_fields e vs1 fds1 Js ++ tail)).
    { apply (HV (ftag fd1) (freq fd1) (fty fd1) (fdef fd1) x p lo J); try assumption.
      - right. apply (follows_encx e fds1 vs1 Js (ftag fd1)); try assumption; [lia|now apply ascending_app_l in Hasc'|].
        apply Hfol. now left.
      - unfold fuel_ok. rewrite !app_length. lia. }
    rewrite H1.
    rewrite (IH fds1 vs1 ps' ps2 Js (Some (ftag fd1)) fd fds2 tail); try assumption; [reflexivity| |].
    + intros fd' Hin. apply Hfol. now right.
    + unfold fuel_ok. rewrite app_length. lia.
Qed.
End Absent.

Lemma enc_fields_follows e : forall fds vs t, ascending t fds ->
  Forall2 (fun fd x => has_type e (fty fd) x) fds vs -> follows t (enc_fields e vs fds).
Proof.
  intros fds vs t Hasc Hty. rewrite <- (app_nil_r (enc_fields e vs fds)).
  rewrite <- (encx_nil e vs fds) by (now apply Forall2_len in Hty).
  apply (follows_encx e fds vs _ t t); try assumption; [lia|apply junks_nil|apply follows_nil].
Qed.

Lemma tmax_app_l g a b : (tmax g a <= tmax g (a ++ b))%nat.
Proof. induction a as [|x a IH]; cbn [tmax fold_right app]; [lia|]. fold (tmax g a). fold (tmax g (a ++ b)). lia. Qed.
Lemma schema_ascending_mid a fd b : schema_ascending (a ++ fd :: b) -> ascending (ftag fd) b.
Proof.
  destruct a as [|x a]; cbn [app schema_ascending]; [tauto|]. intros [_ H]. apply ascending_app_mid in H. tauto.
Qed.

Lemma ascending_all_gt p a : ascending p a -> forall fd, In fd a -> p < ftag fd.
Proof.
  revert p. induction a as [|x a IH]; intros p H fd Hin; [contradiction|]. cbn [ascending] in H. destruct H as (H1 & H2 & H3).
  destruct Hin as [->|Hin]; [assumption|]. specialize (IH _ H3 fd Hin). lia.
Qed.
Lemma ascending_before fd b fd1 : forall l p, ascending p (l ++ fd :: b) -> In fd1 l -> ftag fd1 < ftag fd.
Proof.
  induction l as [|y l IH]; intros p Hl Hi; [contradiction|]. cbn [app ascending] in Hl. destruct Hl as (_ & _ & Hl).
  destruct Hi as [->|Hi]; [|now apply (IH _ Hl)].
  apply (ascending_all_gt _ _ Hl). apply in_or_app. right. now left.
Qed.
Lemma schema_ascending_before a fd b fd1 : schema_ascending (a ++ fd :: b) -> In fd1 a -> ftag fd1 <= ftag fd.
Proof.
  intros H Hin. destruct a as [|x a]; [contradiction|]. cbn [app schema_ascending] in H. destruct H as [_ H].
  destruct Hin as [->|Hin].
  - pose proof (ascending_all_gt _ _ H fd ltac:(apply in_or_app; right; now left)). lia.
  - pose proof (ascending_before fd b fd1 a _ H Hin). lia.
Qed.

(* an input in which the members before fd are encoded normally and what follows makes fd's own decoding fail *)
Theorem struct_member_error e k n sid fds1 fd fds2 vs1 tail :
  wf_schema k e -> (S k <= 64)%nat -> fields_of e sid = fds1 ++ fd :: fds2 ->
  Forall2 (fun fd x => has_type e (fty fd) x) fds1 vs1 ->
  (forall f' prior, (2 * length tail + 4 <= f')%nat -> dec_var f' e (ftag fd) (freq fd) (fty fd) prior tail = DErr) ->
  (forall fd1, In fd1 fds1 -> follows (ftag fd1) tail) ->
  tfin n e (TStruct sid) = true -> (tneed n e (TStruct sid) + k <= 64)%nat ->
  decode e sid (enc_fields e vs1 fds1 ++ tail) = DErr.
Proof.
  intros Hwf Hk Hsid H1 Hfail Hfo Hfin Hn. unfold decode, decode_into.
  set (bs := enc_fields e vs1 fds1 ++ tail).
  replace (4 * length bs + 64)%nat with (S (4 * length bs + 63)) by lia.
  destruct (struct_priors1 e k (4 * length bs + 63) sid (zero_struct e sid) Hwf ltac:(lia)) as (ps & -> & Hps).
  pose proof (members_ok e k Hwf sid) as Hmem. pose proof (wf_asc k e Hwf sid) as Hasc.
  destruct n as [|n']; [discriminate|]. cbn [tfin tneed] in Hfin, Hn. rewrite forallb_forall in Hfin.
  rewrite Hsid in *.
  apply Forall2_app_inv_l in Hps. destruct Hps as (ps1 & ps2 & Hps1 & _ & ->).
  apply Forall_app in Hmem. destruct Hmem as [Hmem1 _].
  assert (Hb : (need_list vs1 <= 1 + length fds1 + tmax (tneed n' e) fds1 + 2 * length (enc_fields e vs1 fds1))%nat).
  { apply need_fields_bound. apply fields_bound_aux; [assumption|].
    intros fd' Hin x tag' req' d' Hx. apply need_bound; [|assumption]. apply Hfin. apply in_or_app. now left. }
  pose proof (tmax_app_l (tneed n' e) fds1 (fd :: fds2)) as Hm. rewrite app_length in Hn. cbn [length] in Hn.
  assert (Hlen : (length (enc_fields e vs1 fds1) <= length bs)%nat) by (unfold bs; rewrite app_length; lia).
  assert (HD : dec_fields (S (4 * length bs + 63)) e (fds1 ++ fd :: fds2) (ps1 ++ ps2) bs = DErr).
  { revert Hlen. unfold bs. rewrite <- (encx_nil e vs1 fds1) by (now apply Forall2_len in H1). intros Hlen.
    apply (fields_member_error e k Hwf _ fds1 vs1 ps1 ps2 _ None); try assumption.
    - apply junks_nil.
    - unfold fuel_ok. rewrite encx_nil in * by (now apply Forall2_len in H1). lia. }
  now rewrite HD.
Qed.

(* an input written without a member the reader requires is rejected *)
Theorem required_absent e k n sid fds1 fd fds2 vs1 vs2 :
  wf_schema k e -> (S k <= 64)%nat -> fields_of e sid = fds1 ++ fd :: fds2 -> freq fd = true ->
  Forall2 (fun fd x => has_type e (fty fd) x) fds1 vs1 -> Forall2 (fun fd x => has_type e (fty fd) x) fds2 vs2 ->
  tfin n e (TStruct sid) = true -> (tneed n e (TStruct sid) + k <= 64)%nat ->
  decode e sid (enc_fields e vs1 fds1 ++ enc_fields e vs2 fds2) = DErr.
Proof.
  intros Hwf Hk Hsid Hreq H1 H2 Hfin Hn. unfold decode, decode_into.
  set (bs := enc_fields e vs1 fds1 ++ enc_fields e vs2 fds2).
  replace (4 * length bs + 64)%nat with (S (4 * length bs + 63)) by lia.
  destruct (struct_priors1 e k (4 * length bs + 63) sid (zero_struct e sid) Hwf ltac:(lia)) as (ps & -> & Hps).
  pose proof (members_ok e k Hwf sid) as Hmem. pose proof (wf_asc k e Hwf sid) as Hasc.
  destruct n as [|n']; [discriminate|]. cbn [tfin tneed] in Hfin, Hn. rewrite forallb_forall in Hfin.
  rewrite Hsid in *.
  apply Forall2_app_inv_l in Hps. destruct Hps as (ps1 & ps2 & Hps1 & _ & ->).
  apply Forall_app in Hmem. destruct Hmem as [Hmem1 _].
  assert (Hb : (need_list vs1 <= 1 + length fds1 + tmax (tneed n' e) fds1 + 2 * length (enc_fields e vs1 fds1))%nat).
  { apply need_fields_bound. apply fields_bound_aux; [assumption|].
    intros fd' Hin x tag' req' d' Hx. apply need_bound; [|assumption]. apply Hfin. apply in_or_app. now left. }
  pose proof (tmax_app_l (tneed n' e) fds1 (fd :: fds2)) as Hm. rewrite app_length in Hn. cbn [length] in Hn.
  assert (Hlen : (length (enc_fields e vs1 fds1) <= length bs)%nat) by (unfold bs; rewrite app_length; lia).
  assert (HD : dec_fields (S (4 * length bs + 63)) e (fds1 ++ fd :: fds2) (ps1 ++ ps2) bs = DErr).
  { revert Hlen. unfold bs. rewrite <- (encx_nil e vs1 fds1) by (now apply Forall2_len in H1). intros Hlen.
    assert (Hfo : follows (ftag fd) (enc_fields e vs2 fds2)).
    { apply enc_fields_follows; [|assumption]. now apply (schema_ascending_mid fds1). }
    apply (fields_member_error e k Hwf _ fds1 vs1 ps1 ps2 _ None); try assumption.
    - apply junks_nil.
    - intros f' prior Hf'. rewrite Hreq. destruct f' as [|f'']; [lia|].
      pose proof (member_absent_required e f'' (ftag fd) (fty fd) prior None [] _ (junk_nil None (ftag fd)) Hfo) as H9.
      cbn [ser_fields app] in H9. apply H9. lia.
    - intros fd1 Hin. apply (follows_mono _ (ftag fd)); [|assumption].
      apply (schema_ascending_before fds1 fd fds2 fd1 Hasc Hin).
    - unfold fuel_ok. rewrite encx_nil in * by (now apply Forall2_len in H1). lia. }
  now rewrite HD.
Qed.
Print Assumptions required_absent.
Print Assumptions extras_ignored.
