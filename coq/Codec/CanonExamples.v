(* The canonicity (C03) and damage (C06) theorems instantiated on the schemas regenerated from the tree, and the
   round-trip theorems instantiated on the member shapes recent seeded changes aimed at: fixed arrays of vectors,
   ragged nested vectors, arrays of byte vectors, an empty required byte vector as the last bytes of the input,
   optional members of every scalar type at and away from non-zero declared defaults. *)
From Coq Require Import List NArith ZArith Lia Bool Arith.
From TarsV Require Import Gen.Consts Base.Hex Codec.Wire Codec.Skip Codec.Prim Codec.GenCodec Codec.Corr
  Codec.RoundTrip Codec.RoundTripProofs Codec.NormProofs Codec.CanonProofs Codec.Damage Codec.DamageProofs
  Codec.TypedProofs Codec.RoundTripExamples Gen.Schemas.
Import ListNotations.
Open Scope N_scope.

Theorem env0_reencode_canonical : forall sid vs, fits_model sid = true -> has_type env0 (TStruct sid) (VStruct vs) ->
  exists v', decode env0 sid (encode env0 sid (VStruct vs)) = DOk v' [] /\ encode env0 sid v' = encode env0 sid (VStruct vs).
Proof.
  intros sid vs Hm Hty. destruct (fits_model_spec sid Hm) as [Hfin Hn].
  apply (reencode_canonical env0 8 8 env0_wf_schema env0_defaults_typed ltac:(lia) sid Hfin Hn vs Hty).
Qed.
Theorem env0_encode_injective : forall sid vs1 vs2, fits_model sid = true ->
  has_type env0 (TStruct sid) (VStruct vs1) -> has_type env0 (TStruct sid) (VStruct vs2) ->
  (encode env0 sid (VStruct vs1) = encode env0 sid (VStruct vs2) <-> norm_struct env0 sid (VStruct vs1) = norm_struct env0 sid (VStruct vs2)).
Proof.
  intros sid vs1 vs2 Hm H1 H2. destruct (fits_model_spec sid Hm) as [Hfin Hn].
  apply (encode_injective env0 8 8 env0_wf_schema env0_defaults_typed ltac:(lia) sid Hfin Hn vs1 vs2 H1 H2).
Qed.
Theorem env0_damage_rejected : forall sid fds1 fd fds2 vs1 bs', fits_model sid = true ->
  fields_of env0 sid = fds1 ++ fd :: fds2 -> Forall2 (fun fd x => has_type env0 (fty fd) x) fds1 vs1 ->
  dmg env0 (ftag fd) (fty fd) bs' -> decode env0 sid (enc_fields env0 vs1 fds1 ++ bs') = DErr.
Proof.
  intros sid fds1 fd fds2 vs1 bs' Hm Hsid Hvs Hd. destruct (fits_model_spec sid Hm) as [Hfin Hn].
  apply (damage_rejected env0 8 8 sid fds1 fd fds2 vs1 bs'); try assumption; [apply env0_wf_schema|lia].
Qed.

(* ---------- member shapes ---------- *)
Definition shapes : env :=
  [ [ {| ftag := 1; freq := true; fty := TArr 2 (TVec (TVec TI32)); fdef := None |};     (* array of ragged nested vectors *)
      {| ftag := 2; freq := true; fty := TArr 3 (TVec TI8); fdef := None |};             (* array of byte vectors *)
      {| ftag := 3; freq := false; fty := TVec (TArr 2 (TMap TStr (TVec TI16))); fdef := None |};
      {| ftag := 4; freq := false; fty := TBool; fdef := Some (VBool true) |};
      {| ftag := 5; freq := false; fty := TI8; fdef := Some (VInt (-1)) |};
      {| ftag := 6; freq := false; fty := TU8; fdef := Some (VInt 255) |};
      {| ftag := 7; freq := false; fty := TI16; fdef := Some (VInt (-32768)) |};
      {| ftag := 8; freq := false; fty := TU16; fdef := Some (VInt 65535) |};
      {| ftag := 9; freq := false; fty := TI32; fdef := Some (VInt 2147483647) |};
      {| ftag := 10; freq := false; fty := TU32; fdef := Some (VInt 4294967295) |};
      {| ftag := 11; freq := false; fty := TI64; fdef := Some (VInt (-9223372036854775808)) |};
      {| ftag := 12; freq := false; fty := TF32; fdef := Some (VFlt 1069547520) |};
      {| ftag := 13; freq := false; fty := TF64; fdef := Some (VFlt 13830554455654793216) |};
      {| ftag := 14; freq := false; fty := TStr; fdef := Some (VStr [120; 32; 121]) |};
      {| ftag := 15; freq := false; fty := TEnum; fdef := Some (VInt 5) |};
      {| ftag := 200; freq := true; fty := TVec TI8; fdef := None |} ] ].              (* required byte vector, last *)
Definition defaults_row : list val :=
  [VBool true; VInt (-1); VInt 255; VInt (-32768); VInt 65535; VInt 2147483647; VInt 4294967295;
   VInt (-9223372036854775808); VFlt 1069547520; VFlt 13830554455654793216; VStr [120; 32; 121]; VInt 5].
Definition away_row : list val :=
  [VBool false; VInt 0; VInt 0; VInt 0; VInt 0; VInt 0; VInt 0; VInt 0; VFlt 0; VFlt 9223372036854775808; VStr []; VInt 0].
Definition shape1 : list val :=
  [ VList [VList [VList [VInt 1; VInt 2; VInt 3]; VList []; VList [VInt (-70000)]]; VList []];
    VList [VBytes []; VBytes [1; 2]; VBytes [255]];
    VList [VList [VMap [(VStr [97], VList [VInt 1; VInt (-2)]); (VStr [], VList [])]; VMap []]] ]
  ++ defaults_row ++ [VBytes []].
Definition shape2 : list val :=
  [ VList [VList []; VList [VList []; VList [VInt 0]]];
    VList [VBytes [0]; VBytes []; VBytes []];
    VList [] ]
  ++ away_row ++ [VBytes [7; 8; 9]].
Lemma shapes_wf : wf_schema 2 shapes.
Proof. apply wf_schema_b_sound. vm_compute. reflexivity. Qed.
Lemma shapes_fit : tfin 8 shapes (TStruct 0) = true /\ (tneed 8 shapes (TStruct 0) + 2 <= 64)%nat.
Proof. vm_compute. split; [reflexivity|lia]. Qed.
Example shape1_roundtrip :
  has_type shapes (TStruct 0) (VStruct shape1) /\
  decode shapes 0 (encode shapes 0 (VStruct shape1)) = DOk (norm_struct shapes 0 (VStruct shape1)) [] /\
  norm_struct shapes 0 (VStruct shape1) = VStruct shape1.
Proof.
  assert (Hty : has_type shapes (TStruct 0) (VStruct shape1)) by (apply (has_type_b_sound shapes 12); vm_compute; reflexivity).
  split; [exact Hty|]. split; [|vm_compute; reflexivity].
  destruct shapes_fit as [Hfin Hn]. apply (roundtrip_struct_static shapes 2 8); try assumption; [apply shapes_wf|lia].
Qed.
Example shape2_roundtrip :
  has_type shapes (TStruct 0) (VStruct shape2) /\
  decode shapes 0 (encode shapes 0 (VStruct shape2)) = DOk (norm_struct shapes 0 (VStruct shape2)) [] /\
  norm_struct shapes 0 (VStruct shape2) = VStruct shape2.
Proof.
  assert (Hty : has_type shapes (TStruct 0) (VStruct shape2)) by (apply (has_type_b_sound shapes 12); vm_compute; reflexivity).
  split; [exact Hty|]. split; [|vm_compute; reflexivity].
  destruct shapes_fit as [Hfin Hn]. apply (roundtrip_struct_static shapes 2 8); try assumption; [apply shapes_wf|lia].
Qed.
(* the optional members at their defaults leave no bytes: the encoding of shape1 ends with the empty byte vector
   (SimpleList head with extended tag 200, element type head, ZeroTag count) *)
Example shape1_tail :
  let bs := encode shapes 0 (VStruct shape1) in skipn (length bs - 4) bs = [253; 200; 0; 12].
Proof. vm_compute. reflexivity. Qed.

(* C06/C03 on the code's schemas: fixed arrays have a positive length the format can express; whatever the bytes, a
   returned value is a value of the struct type; re-encoding is the identity exactly on the encoder's images *)
Theorem env0_arrs_ok : arrs_ok env0.
Proof. apply arrs_ok_b_sound. vm_compute. reflexivity. Qed.
Theorem env0_decode_typed : forall sid prior bs v r, fits_model sid = true -> bytes_ok bs -> lenok bs ->
  decode_into env0 sid prior bs = DOk v r -> has_type env0 (TStruct sid) v /\ sfx r bs.
Proof.
  intros sid prior bs v r Hm Hbs Hl E. destruct (fits_model_spec sid Hm) as [Hfin Hn].
  apply (decode_typed env0 8 env0_wf_schema env0_defaults_typed env0_arrs_ok 8 sid prior bs v r); try assumption; lia.
Qed.
Theorem env0_reencode_exact : forall sid bs v, fits_model sid = true -> bytes_ok bs -> lenok bs ->
  decode env0 sid bs = DOk v [] ->
  (encode env0 sid v = bs <-> exists vs, has_type env0 (TStruct sid) (VStruct vs) /\ bs = encode env0 sid (VStruct vs)).
Proof.
  intros sid bs v Hm Hbs Hl E. destruct (fits_model_spec sid Hm) as [Hfin Hn].
  apply (reencode_exact env0 8 8 sid bs v); try assumption; try lia;
    [apply env0_wf_schema|apply env0_defaults_typed|apply env0_arrs_ok].
Qed.

