(* C04, last clause: "old readers and new writers, and vice versa, interoperate" - two versions of a struct type in one
   schema environment, the new one being the old one with optional members added.
   Part 1, old writer -> new reader: the bytes an old writer produces decode, with the new schema, to the old value
   with every added member at its default.
   Part 2, new writer -> old reader: the bytes a new writer produces decode, with the old schema, to the value
   without the added members. *)
From Coq Require Import List NArith ZArith Lia Bool Arith.
From Coq Require Import ZifyN ZifyNat ZifyBool.
From TarsV Require Import Gen.Consts Base.Hex Codec.Wire Codec.WireProofs Codec.Skip Codec.SkipProofs Codec.Prim
  Codec.PrimProofs Codec.GenCodec Codec.Corr Codec.GenProofs Codec.RoundTrip Codec.RoundTripProofs Codec.NormProofs
  Codec.WireSpec Codec.WireSpecProofs Codec.PrefixGenProofs.
Import ListNotations.
Open Scope N_scope.

(* the value a reader gives a member that is not on the wire *)
Definition dflt (e : env) (fd : field) : val :=
  match fdef fd with Some dv => dv | None => zero_of 1 e (fty fd) end.

(* fn is fo with optional members added; vn is vo with the added members at their defaults. An added member has a
   scalar, string, vector, byte-vector or map type (so that its default is a value the writer leaves out) *)
Inductive evolves (e : env) : schema -> schema -> list val -> list val -> Prop :=
| EV_nil : evolves e [] [] [] []
| EV_same fd fn fo x vo vn : evolves e fn fo vo vn -> evolves e (fd :: fn) (fd :: fo) (x :: vo) (x :: vn)
| EV_new fd fn fo vo vn : freq fd = false -> has_type e (fty fd) (dflt e fd) ->
    left_out (fty fd) false (fdef fd) (dflt e fd) = true ->
    evolves e fn fo vo vn -> evolves e (fd :: fn) fo vo (dflt e fd :: vn).

Lemma evolves_enc e fn fo vo vn : evolves e fn fo vo vn -> enc_fields e vn fn = enc_fields e vo fo.
Proof.
  induction 1 as [|fd fn fo x vo vn _ IH|fd fn fo vo vn Hr Hty Hl _ IH]; [reflexivity| |].
  - cbn [enc_fields]. now rewrite IH.
  - cbn [enc_fields]. rewrite Hr.
    destruct (enc_var_shape e (ftag fd) false (fty fd) (fdef fd) (dflt e fd) Hty) as [(_ & _ & ->)|(Hl' & _)]; [exact IH|congruence].
Qed.
Lemma evolves_typed e fn fo vo vn : evolves e fn fo vo vn ->
  Forall2 (fun fd x => has_type e (fty fd) x) fo vo -> Forall2 (fun fd x => has_type e (fty fd) x) fn vn.
Proof.
  induction 1 as [|fd fn fo x vo vn _ IH|fd fn fo vo vn Hr Hty Hl _ IH]; intros H; [constructor| |].
  - inversion H; subst. constructor; [assumption|now apply IH].
  - constructor; [assumption|now apply IH].
Qed.

(* old writer -> new reader *)
Theorem old_writer_new_reader e k n so sn vo vn :
  wf_schema k e -> (S k <= 64)%nat -> tfin n e (TStruct sn) = true -> (tneed n e (TStruct sn) + k <= 64)%nat ->
  evolves e (fields_of e sn) (fields_of e so) vo vn -> has_type e (TStruct so) (VStruct vo) ->
  decode e sn (encode e so (VStruct vo)) = DOk (norm_struct e sn (VStruct vn)) [].
Proof.
  intros Hwf Hk Hfin Hn Hev Hty.
  assert (Htn : has_type e (TStruct sn) (VStruct vn)).
  { apply HT_struct. apply (evolves_typed e _ _ _ _ Hev). inversion Hty as [| | | | |? ? Hvs]; subst; [discriminate|exact Hvs]. }
  rewrite encode_fields, <- (evolves_enc e _ _ _ _ Hev), <- encode_fields.
  now apply (roundtrip_struct_static e k n).
Qed.
Print Assumptions old_writer_new_reader.

(* ---------- the nesting depth of a value's wire tree is bounded by its type ---------- *)
Lemma mxd_ub fs B : Forall (fun p => wdepth (snd p) <= B) fs -> mxd fs <= B.
Proof.
  induction 1 as [|[t x] r Hx _ IH]; [cbn; lia|]. change (mxd ((t, x) :: r)) with (N.max (wdepth x) (mxd r)). cbn [snd] in Hx. lia.
Qed.
Lemma wire_elems_Forall e x (P : N * wf -> Prop) xs : Forall (fun y => P (0, wire_of e x y)) xs -> Forall P (wire_elems e x xs).
Proof. induction 1; cbn [wire_elems]; constructor; assumption. Qed.
Lemma wire_entries_flat_Forall e kt vt (P : N * wf -> Prop) kvs :
  Forall (fun p => P (0, wire_of e kt (fst p)) /\ P (1, wire_of e vt (snd p))) kvs -> Forall P (flat (wire_entries e kt vt kvs)).
Proof.
  induction 1 as [|[ky y] r [H1 H2] _ IH]; [constructor|]. cbn [wire_entries]. unfold flat. cbn [flat_map fst snd app].
  constructor; [exact H1|]. constructor; [exact H2|exact IH].
Qed.
Lemma wire_fields_Forall e (P : N * wf -> Prop) : forall fds vs,
  Forall2 (fun fd x => P (ftag fd, wire_of e (fty fd) x)) fds vs -> Forall P (wire_fields e vs fds).
Proof.
  induction 1 as [|fd x fds vs H _ IH]; cbn [wire_fields]; [constructor|].
  destruct (left_out (fty fd) (freq fd) (fdef fd) x); [exact IH|constructor; assumption].
Qed.
Lemma tmax_ge g fds fd : In fd fds -> (g (fty fd) <= tmax g fds)%nat.
Proof.
  induction fds as [|x r IH]; intros Hin; [contradiction|]. cbn [tmax fold_right]. fold (tmax g r).
  destruct Hin as [->|Hin]; [lia|]. specialize (IH Hin). lia.
Qed.
Lemma Forall2_in_l {A B} (R : A -> B -> Prop) (Q : A -> B -> Prop) l1 l2 :
  Forall2 R l1 l2 -> (forall a b, In a l1 -> R a b -> Q a b) -> Forall2 Q l1 l2.
Proof. induction 1 as [|a b l1 l2 H _ IH]; intros HQ; constructor; [apply HQ; [now left|assumption]|apply IH; intros; apply HQ; [now right|assumption]]. Qed.

Lemma wdepth_static e : forall n t v, tfin n e t = true -> has_type e t v -> wdepth (wire_of e t v) <= N.of_nat (tneed n e t).
Proof.
  induction n as [|n IH]; intros t v Hfin Hty; [discriminate|]. inversion Hty; subst; cbn [tfin] in Hfin.
  - assert (E : wdepth (wire_of e t v) = 0).
    { destruct t; try discriminate; destruct v; cbn [sc_typed] in *; try contradiction; cbn [wire_of]; unfold wint, wstr;
        repeat match goal with |- context [if ?c then _ else _] => destruct c end; reflexivity. }
    rewrite E. lia.
  - cbn. lia.
  - rewrite wire_of_vec. cbn [wdepth tneed]. fold (mxd (wire_elems e x xs)).
    assert (Hb : mxd (wire_elems e x xs) <= N.of_nat (tneed n e x)).
    { apply mxd_ub. apply wire_elems_Forall. eapply Forall_impl; [|eassumption]. intros y Hy. cbn [snd]. now apply IH. }
    lia.
  - rewrite wire_of_arr. cbn [wdepth tneed]. fold (mxd (wire_elems e x xs)).
    assert (Hb : mxd (wire_elems e x xs) <= N.of_nat (tneed n e x)).
    { apply mxd_ub. apply wire_elems_Forall. eapply Forall_impl; [|eassumption]. intros y Hy. cbn [snd]. now apply IH. }
    lia.
  - apply andb_true_iff in Hfin. destruct Hfin as [Hfa Hfb]. rewrite wire_of_map. cbn [wdepth tneed]. rewrite mxd_flat.
    assert (Hb : mxd (flat (wire_entries e kt vt kvs)) <= N.of_nat (Nat.max (tneed n e kt) (tneed n e vt))).
    { apply mxd_ub. apply wire_entries_flat_Forall. eapply Forall_impl; [|eassumption]. intros [ky y] [Hk Hy]. cbn [fst snd] in *.
      pose proof (IH kt ky Hfa Hk). pose proof (IH vt y Hfb Hy). split; lia. }
    lia.
  - rewrite forallb_forall in Hfin. rewrite wire_of_struct. cbn [wdepth tneed]. fold (mxd (wire_fields e vs (fields_of e sid))).
    assert (Hb : mxd (wire_fields e vs (fields_of e sid)) <= N.of_nat (tmax (tneed n e) (fields_of e sid))).
    { apply mxd_ub. apply wire_fields_Forall. eapply Forall2_in_l; [eassumption|]. intros fd x Hin Hx. cbn [snd].
      pose proof (IH (fty fd) x (Hfin fd Hin) Hx). pose proof (tmax_ge (tneed n e) _ fd Hin). lia. }
    lia.
Qed.

(* ---------- new writer -> old reader ---------- *)
(* fn is fo with members added (groups [news] in front of old members and after the last one); vo is vn without the
   added members; Js / Jl are the added members that are on the wire, as wire fields, grouped the same way *)
Inductive projects (e : env) : schema -> schema -> list val -> list val -> list (list (N * wf)) -> list (N * wf) -> Prop :=
| PJ_end news vnews : projects e news [] vnews [] [] (wire_fields e vnews news)
| PJ_old news vnews fd fn fo x vn vo Js Jl : length news = length vnews -> projects e fn fo vn vo Js Jl ->
    projects e (news ++ fd :: fn) (fd :: fo) (vnews ++ x :: vn) (x :: vo) (wire_fields e vnews news :: Js) Jl.

Lemma enc_fields_app e : forall fa a fb b, length fa = length a ->
  enc_fields e (a ++ b) (fa ++ fb) = enc_fields e a fa ++ enc_fields e b fb.
Proof.
  induction fa as [|fd fa IH]; intros [|x a] fb b Hl; try discriminate; [reflexivity|].
  cbn [app enc_fields]. rewrite IH by (cbn [length] in Hl; lia). now rewrite app_assoc.
Qed.
Lemma wire_fields_app e : forall fa a fb b, length fa = length a ->
  wire_fields e (a ++ b) (fa ++ fb) = wire_fields e a fa ++ wire_fields e b fb.
Proof.
  induction fa as [|fd fa IH]; intros [|x a] fb b Hl; try discriminate; [reflexivity|].
  cbn [app wire_fields]. rewrite IH by (cbn [length] in Hl; lia). destruct (left_out _ _ _ x); reflexivity.
Qed.
Lemma enc_fields_wire e fds vs : Forall2 (fun fd x => has_type e (fty fd) x) fds vs ->
  enc_fields e vs fds = ser_fields (wire_fields e vs fds).
Proof. intros H. destruct (wire_all e (need_list vs)) as (_ & _ & _ & HF). now apply HF. Qed.
Lemma ser_fields_app a b : ser_fields (a ++ b) = ser_fields a ++ ser_fields b.
Proof. induction a as [|f a IH]; cbn [app ser_fields]; [reflexivity|]. now rewrite IH, app_assoc. Qed.

Lemma app_len_inj {A} : forall (a a' b b' : list A), length a = length a' -> a ++ b = a' ++ b' -> a = a' /\ b = b'.
Proof.
  induction a as [|x a IH]; intros [|y a'] b b' Hl E; try discriminate; [now split|].
  cbn [app] in E. injection E as -> E. cbn [length] in Hl. destruct (IH a' b b' ltac:(lia) E) as [-> ->]. now split.
Qed.

Lemma projects_enc e fn fo vn vo Js Jl : projects e fn fo vn vo Js Jl ->
  Forall2 (fun fd x => has_type e (fty fd) x) fn vn ->
  enc_fields e vn fn = encx_fields e vo fo Js ++ ser_fields Jl /\ Forall2 (fun fd x => has_type e (fty fd) x) fo vo.
Proof.
  induction 1 as [news vnews|news vnews fd fn fo x vn vo Js Jl Hl _ IH]; intros Hty.
  - split; [|constructor]. cbn [encx_fields app]. now apply enc_fields_wire.
  - apply Forall2_app_inv_l in Hty. destruct Hty as (a & b & Ha & Hb & E).
    assert (a = vnews /\ b = x :: vn) as [-> ->].
    { apply Forall2_len in Ha. symmetry in E. destruct (app_len_inj a vnews b (x :: vn) ltac:(lia) E). now split. }
    inversion Hb as [|? ? ? ? Hx Hvn]; subst. destruct (IH Hvn) as [IH1 IH2].
    split; [|constructor; assumption].
    rewrite enc_fields_app by assumption. cbn [enc_fields encx_fields]. rewrite IH1, (enc_fields_wire e news vnews Ha).
    now rewrite <- !app_assoc.
Qed.

Definition above (lo : option N) (t : N) : Prop := match lo with Some l => l < t | None => True end.
Lemma wire_fields_tags e : forall fds vs, Forall (fun p => exists fd, In fd fds /\ fst p = ftag fd) (wire_fields e vs fds).
Proof.
  induction fds as [|fd fds IH]; intros [|x vs]; cbn [wire_fields]; try constructor.
  assert (Hr : Forall (fun p => exists fd0, In fd0 (fd :: fds) /\ fst p = ftag fd0) (wire_fields e vs fds)).
  { eapply Forall_impl; [|apply IH]. intros p (fd0 & Hin & E). exists fd0. split; [now right|assumption]. }
  destruct (left_out _ _ _ x); [exact Hr|]. constructor; [|exact Hr]. exists fd. split; [now left|reflexivity].
Qed.
Lemma asc_opt_all lo l : asc_opt lo l -> forall fd, In fd l -> above lo (ftag fd) /\ ftag fd < 256.
Proof.
  intros H fd Hin. destruct lo as [p|]; cbn [asc_opt above] in *.
  - split; [now apply (ascending_all_gt p l)|]. revert p H. induction l as [|y l IH]; intros p H; [contradiction|].
    destruct H as (_ & H2 & H3). destruct Hin as [->|Hin]; [assumption|]. now apply (IH Hin (ftag y)).
  - split; [exact I|]. destruct l as [|y l]; [contradiction|]. destruct H as [H1 H2]. destruct Hin as [->|Hin]; [assumption|].
    clear H1. revert H2. generalize (ftag y). induction l as [|z l IH]; intros p H; [contradiction|].
    destruct H as (_ & H2 & H3). destruct Hin as [->|Hin]; [assumption|]. now apply (IH Hin (ftag z)).
Qed.
Lemma asc_opt_split lo news fd fn : asc_opt lo (news ++ fd :: fn) ->
  (forall fd', In fd' news -> ftag fd' < ftag fd) /\ asc_opt (Some (ftag fd)) fn.
Proof.
  intros H. destruct lo as [p|]; cbn [asc_opt] in *.
  - split; [intros fd' Hin; now apply (ascending_before fd fn fd' news p)|]. apply ascending_app_mid in H. tauto.
  - destruct news as [|y news]; cbn [app schema_ascending] in H.
    + split; [intros ? []|tauto].
    + destruct H as [_ H]. split; [|apply ascending_app_mid in H; tauto].
      intros fd' [<-|Hin]; [apply (ascending_all_gt _ _ H); apply in_or_app; right; now left|now apply (ascending_before fd fn fd' news (ftag y))].
Qed.

Lemma projects_junks e fn fo vn vo Js Jl : projects e fn fo vn vo Js Jl -> forall lo, asc_opt lo fn ->
  fields_ok (wire_fields e vn fn) -> Forall (fun p => wdepth (snd p) <= maxd) (wire_fields e vn fn) ->
  junks_ok lo fo Js /\
  Forall (fun p => fst p < 256 /\ above lo (fst p) /\ forall fd, In fd fo -> ftag fd < fst p) Jl.
Proof.
  induction 1 as [news vnews|news vnews fd fn fo x vn vo Js Jl Hl _ IH]; intros lo Hasc Hok Hdp.
  - split; [exact I|]. pose proof (wire_fields_tags e news vnews) as Ht.
    apply Forall_forall. intros p Hp. rewrite Forall_forall in Ht. destruct (Ht p Hp) as (fd0 & Hin & E).
    destruct (asc_opt_all lo news Hasc fd0 Hin) as [A B]. rewrite E. repeat split; try assumption. intros ? [].
  - rewrite wire_fields_app in Hok, Hdp by assumption. unfold fields_ok in Hok. apply Forall_app in Hok. apply Forall_app in Hdp.
    destruct Hok as [Hok1 Hok2]. destruct Hdp as [Hdp1 Hdp2].
    destruct (asc_opt_split lo news fd fn Hasc) as [Hlt Hasc'].
    assert (Hfd : above lo (ftag fd) /\ ftag fd < 256) by (apply (asc_opt_all lo _ Hasc); apply in_or_app; right; now left).
    assert (Hok' : fields_ok (wire_fields e vn fn) /\ Forall (fun p => wdepth (snd p) <= maxd) (wire_fields e vn fn)).
    { cbn [wire_fields] in Hok2, Hdp2. destruct (left_out _ _ _ x); [split; assumption|].
      inversion Hok2; subst. inversion Hdp2; subst. split; assumption. }
    destruct Hok' as [Hok3 Hdp3]. destruct (IH (Some (ftag fd)) Hasc' Hok3 Hdp3) as [HJs HJl].
    split.
    + cbn [junks_ok]. split; [|exact HJs]. unfold junk_ok. pose proof (wire_fields_tags e news vnews) as Ht.
      apply Forall_forall. intros p Hp. rewrite Forall_forall in Ht, Hok1, Hdp1.
      destruct (Ht p Hp) as (fd0 & Hin & E). destruct (Hok1 p Hp) as [A B]. specialize (Hdp1 p Hp).
      destruct (asc_opt_all lo _ Hasc fd0 ltac:(apply in_or_app; now left)) as [C _].
      repeat split; try assumption; [rewrite E; now apply Hlt|]. rewrite E. destruct lo; exact C.
    + eapply Forall_impl; [|exact HJl]. intros p (A & B & C). cbn [above] in B. repeat split; [assumption| |].
      * destruct lo as [l|]; [|exact I]. cbn [above] in *. destruct Hfd as [Hfd _]. lia.
      * intros fd0 [<-|Hin]; [assumption|now apply C].
Qed.

(* new writer -> old reader: the old reader decodes what a new writer produced to the value without the added members
   (normal form), and stops in front of the added members that follow its last member. The added members may be of
   any type and required or optional; the encoding is shorter than 2^30 bytes *)
Theorem new_writer_old_reader e k n so sn vn vo Js Jl :
  wf_schema k e -> (S k <= 64)%nat ->
  tfin n e (TStruct so) = true -> (tneed n e (TStruct so) + k <= 64)%nat ->
  tfin n e (TStruct sn) = true -> (tneed n e (TStruct sn) <= 512)%nat ->
  projects e (fields_of e sn) (fields_of e so) vn vo Js Jl -> has_type e (TStruct sn) (VStruct vn) ->
  N.of_nat (length (encode e sn (VStruct vn))) < 1073741824 ->
  decode e so (encode e sn (VStruct vn)) = DOk (norm_struct e so (VStruct vo)) (ser_fields Jl).
Proof.
  intros Hwf Hk Hfo Hno Hfn Hnn Hpj Hty Hsz.
  destruct (encode_conforms e k sn vn Hwf Hty Hsz) as (_ & Hok & _ & _).
  inversion Hty as [| | | | |? ? Hvs]; subst; [discriminate|].
  destruct (projects_enc e _ _ _ _ _ _ Hpj Hvs) as [Henc Hvo].
  assert (Hdp : Forall (fun p => wdepth (snd p) <= maxd) (wire_fields e vn (fields_of e sn))).
  { apply wire_fields_Forall. destruct n as [|n']; [discriminate|]. cbn [tfin tneed] in Hfn, Hnn. rewrite forallb_forall in Hfn.
    eapply Forall2_in_l; [exact Hvs|]. intros fd x Hin Hx. cbn [snd].
    pose proof (wdepth_static e n' (fty fd) x (Hfn fd Hin) Hx). pose proof (tmax_ge (tneed n' e) _ fd Hin).
    unfold maxd, c_maxSkipDepth. lia. }
  destruct (projects_junks e _ _ _ _ _ _ Hpj None (wf_asc k e Hwf sn) Hok Hdp) as [HJs HJl].
  rewrite encode_fields, Henc.
  apply (extras_ignored e k n so vo Js Jl); try assumption.
  - now apply HT_struct.
  - unfold trailing_ok. eapply Forall_impl; [|exact HJl]. intros p (A & _ & C). split; assumption.
Qed.
Print Assumptions new_writer_old_reader.

(* ---------- non-vacuity ---------- *)
(* version 1 and version 2 of a struct type in one environment: v2 adds an optional string with a default in the
   middle, an optional map at the end, and (for the second direction) a required nested struct *)
Definition ev_schema : env :=
  [ (* 0: v1 *) [ {| ftag := 0; freq := true; fty := TI32; fdef := None |};
                  {| ftag := 4; freq := false; fty := TVec TStr; fdef := None |} ];
    (* 1: v2 *) [ {| ftag := 0; freq := true; fty := TI32; fdef := None |};
                  {| ftag := 2; freq := false; fty := TStr; fdef := Some (VStr [110; 111]) |};
                  {| ftag := 4; freq := false; fty := TVec TStr; fdef := None |};
                  {| ftag := 9; freq := false; fty := TMap TI32 TI64; fdef := None |} ];
    (* 2: v3 *) [ {| ftag := 0; freq := true; fty := TI32; fdef := None |};
                  {| ftag := 1; freq := true; fty := TStruct 0; fdef := None |};
                  {| ftag := 4; freq := false; fty := TVec TStr; fdef := None |};
                  {| ftag := 200; freq := true; fty := TVec TI8; fdef := None |} ] ].
Definition ev_v1 : list val := [VInt 7; VList [VStr [97]; VStr []]].
Example ev_old_to_new :
  decode ev_schema 1 (encode ev_schema 0 (VStruct ev_v1))
  = DOk (VStruct [VInt 7; VStr [110; 111]; VList [VStr [97]; VStr []]; VMap []]) [].
Proof.
  assert (Hwf : wf_schema 2 ev_schema) by (apply wf_schema_b_sound; vm_compute; reflexivity).
  rewrite (old_writer_new_reader ev_schema 2 6 0 1 ev_v1 [VInt 7; VStr [110; 111]; VList [VStr [97]; VStr []]; VMap []]);
    try assumption; try (vm_compute; reflexivity); try lia.
  - vm_compute. lia.
  - change (fields_of ev_schema 1) with (nth 1 ev_schema []). change (fields_of ev_schema 0) with (nth 0 ev_schema []). cbn [nth ev_schema].
    apply EV_same.
    apply (EV_new ev_schema {| ftag := 2; freq := false; fty := TStr; fdef := Some (VStr [110; 111]) |});
      [reflexivity|apply (has_type_b_sound ev_schema 4); vm_compute; reflexivity|reflexivity|].
    apply EV_same.
    apply (EV_new ev_schema {| ftag := 9; freq := false; fty := TMap TI32 TI64; fdef := None |});
      [reflexivity|apply (has_type_b_sound ev_schema 4); vm_compute; reflexivity|reflexivity|].
    apply EV_nil.
  - apply (has_type_b_sound ev_schema 6). vm_compute. reflexivity.
Qed.
Definition ev_v3 : list val := [VInt 7; VStruct [VInt 1; VList []]; VList [VStr [98]]; VBytes [1; 2]].
Example ev_new_to_old :
  decode ev_schema 0 (encode ev_schema 2 (VStruct ev_v3))
  = DOk (VStruct [VInt 7; VList [VStr [98]]]) (ser_fields [(200, WSimple [1; 2])]).
Proof.
  assert (Hwf : wf_schema 2 ev_schema) by (apply wf_schema_b_sound; vm_compute; reflexivity).
  rewrite (new_writer_old_reader ev_schema 2 6 0 2 ev_v3 [VInt 7; VList [VStr [98]]]
             [[]; wire_fields ev_schema [VStruct [VInt 1; VList []]] [ {| ftag := 1; freq := true; fty := TStruct 0; fdef := None |} ]]
             (wire_fields ev_schema [VBytes [1; 2]] [ {| ftag := 200; freq := true; fty := TVec TI8; fdef := None |} ]));
    try assumption; try (vm_compute; reflexivity); try lia.
  - vm_compute. lia.
  - vm_compute. lia.
  - change (fields_of ev_schema 2) with (nth 2 ev_schema []). change (fields_of ev_schema 0) with (nth 0 ev_schema []). cbn [nth ev_schema].
    apply (PJ_old ev_schema [] [] {| ftag := 0; freq := true; fty := TI32; fdef := None |}); [reflexivity|].
    apply (PJ_old ev_schema [ {| ftag := 1; freq := true; fty := TStruct 0; fdef := None |} ] [VStruct [VInt 1; VList []]]
             {| ftag := 4; freq := false; fty := TVec TStr; fdef := None |}); [reflexivity|].
    apply (PJ_end ev_schema [ {| ftag := 200; freq := true; fty := TVec TI8; fdef := None |} ] [VBytes [1; 2]]).
  - apply (has_type_b_sound ev_schema 6). vm_compute. reflexivity.
Qed.
