(* C05: the decoders of types without vector/array members never panic or over-allocate, on any bytes; and the
   model's linear fuel never runs out, on any bytes, for any type with a finite type graph. *)
From Coq Require Import List NArith ZArith Lia Bool Arith.
From Coq Require Import ZifyN ZifyNat ZifyBool.
From TarsV Require Import Gen.Consts Base.Hex Codec.Wire Codec.WireProofs Codec.Skip Codec.SkipProofs Codec.Prim
  Codec.PrimProofs Codec.GenCodec Codec.Corr Codec.GenProofs Codec.RoundTrip Codec.RoundTripProofs.
Import ListNotations.
Ltac Zify.zify_post_hook ::= Z.div_mod_to_equations.
Open Scope N_scope.

(* ================= no panic, no over-allocation: every type, every schema environment ================= *)
Section NoPanic.
Variable e : env.

(* the only outcome of the repaired decoder that is neither a value, an error nor the fuel artifact would be the
   index check of a fixed array (DPanic site_array_index in dec_arr): the count check in front of the loop keeps the
   index below the array's length *)
Definition NP_var (f : nat) : Prop := forall t tag req prior bs, ok_out (dec_var f e tag req t prior bs).
Definition NP_elems (f : nat) : Prop := forall x cnt bs, ok_out (dec_elems f e x cnt bs).
Definition NP_arr (f : nat) : Prop := forall x len i cnt cur bs, (Z.of_nat i + cnt <= Z.of_nat len)%Z ->
  ok_out (dec_arr f e x len i cnt cur bs).
Definition NP_entries (f : nat) : Prop := forall kt vt cnt bs, ok_out (dec_entries f e kt vt cnt bs).
Definition NP_fields (f : nat) : Prop := forall fds ps bs, ok_out (dec_fields f e fds ps bs).

Lemma np_all : forall f, NP_var f /\ NP_elems f /\ NP_arr f /\ NP_entries f /\ NP_fields f.
Proof.
  induction f as [|f (HV & HL & HA & HE & HF)]; [repeat split; intro; intros; exact I|]. repeat split.
  - intros t tag req prior bs.
    destruct t; try (rewrite dec_var_scalar by reflexivity; apply dec_scalar_safe).
    + rewrite dec_var_vec. destruct (skip_to_no_check f tag req bs); try exact I.
      destruct (ty =? tLIST).
      { destruct (read_count rest); try exact I. destruct (z <? 0)%Z; [exact I|]. destruct (_ <? z)%Z; [exact I|].
        pose proof (HL t z rest0) as H. destruct (dec_elems f e t z rest0); try exact I; exact H. }
      destruct (ty =? tSIMPLE); [|exact I]. destruct (is_byte t); [|exact I].
      destruct (skip_to f tBYTE 0 true rest); try exact I. destruct (read_count rest0); try exact I.
      destruct (read_slice z rest1) as [[? ?]|]; exact I.
    + rewrite dec_var_map.
      destruct (skip_to f tMAP tag req bs); try exact I. destruct (read_count rest); try exact I.
      destruct ((z <? 0)%Z || (_ <? z)%Z); [exact I|].
      pose proof (HE t1 t2 z rest0) as H. destruct (dec_entries f e t1 t2 z rest0); try exact I; exact H.
    + rewrite dec_var_arr. destruct (skip_to_no_check f tag req bs); try exact I.
      destruct (ty =? tLIST); [|exact I]. destruct (read_count rest); try exact I.
      destruct ((z <? 0)%Z || (Z.of_nat n <? z)%Z) eqn:Eg; [exact I|].
      pose proof (HA t n 0%nat z (match prior with VList l => l | _ => [] end) rest0 ltac:(lia)) as H.
      destruct (dec_arr f e t n 0 z _ rest0); try exact I; exact H.
    + rewrite dec_var_struct. cbv zeta. destruct (skip_to f tSB tag req bs); try exact I.
      pose proof (HF (fields_of e sid) (match reset_default f e sid (reset_default f e sid prior) with VStruct l => l | _ => [] end) rest) as H.
      destruct (dec_fields f e (fields_of e sid) _ rest); try exact I; try exact H.
      destruct (skip_to_end f 0 rest0) as [[| |] ?]; exact I.
  - intros x cnt bs. rewrite dec_elems_S. destruct (cnt <=? 0)%Z; [exact I|].
    pose proof (HV x 0 true (zero_of f e x) bs) as H1. destruct (dec_var f e 0 true x (zero_of f e x) bs); try exact I; try exact H1.
    pose proof (HL x (cnt - 1)%Z rest) as H2. destruct (dec_elems f e x (cnt - 1)%Z rest); try exact I; exact H2.
  - intros x len i cnt cur bs Hi. rewrite dec_arr_S. destruct (cnt <=? 0)%Z eqn:Ec; [exact I|].
    destruct (len <=? i)%nat eqn:Ei; [apply Nat.leb_le in Ei; lia|].
    pose proof (HV x 0 true (nth i cur (zero_of f e x)) bs) as H1. destruct (dec_var f e 0 true x _ bs); try exact I; try exact H1.
    apply HA. lia.
  - intros kt vt cnt bs. rewrite dec_entries_S. destruct (cnt <=? 0)%Z; [exact I|].
    pose proof (HV kt 0 true (zero_of f e kt) bs) as H1. destruct (dec_var f e 0 true kt (zero_of f e kt) bs); try exact I; try exact H1.
    pose proof (HV vt 1 true (zero_of f e vt) rest) as H2. destruct (dec_var f e 1 true vt (zero_of f e vt) rest); try exact I; try exact H2.
    pose proof (HE kt vt (cnt - 1)%Z rest0) as H3. destruct (dec_entries f e kt vt (cnt - 1)%Z rest0); try exact I; exact H3.
  - intros fds ps bs. rewrite dec_fields_S. destruct fds as [|fd fds]; [exact I|]. cbv zeta.
    pose proof (HV (fty fd) (ftag fd) (freq fd) (match ps with p :: _ => p | [] => zero_of f e (fty fd) end) bs) as H1.
    destruct (dec_var f e (ftag fd) (freq fd) (fty fd) _ bs); try exact I; try exact H1.
    pose proof (HF fds (tl ps) rest) as H2.
    destruct (dec_fields f e fds (tl ps) rest); try exact I; exact H2.
Qed.

(* any environment, any struct type (vectors, arrays, maps, recursive types included), any target, any bytes *)
Theorem decode_no_panic sid prior bs : ok_out (decode_into e sid prior bs).
Proof.
  unfold decode_into. destruct (np_all (4 * length bs + 64)) as (_ & _ & _ & _ & HF).
  pose proof (HF (fields_of e sid) (match reset_default (4 * length bs + 64) e sid prior with VStruct l => l | _ => [] end) bs) as H.
  destruct (dec_fields _ e (fields_of e sid) _ bs); try exact I; exact H.
Qed.
Theorem decode_no_panic_cases sid prior bs :
  match decode_into e sid prior bs with DOk _ _ | DErr | DFuel => True | _ => False end.
Proof. pose proof (decode_no_panic sid prior bs) as H. destruct (decode_into e sid prior bs); exact H || exact I. Qed.
(* the same at member level and for any fuel *)
Theorem dec_var_no_panic f t tag req prior bs : ok_out (dec_var f e tag req t prior bs).
Proof. destruct (np_all f) as (HV & _). apply HV. Qed.
End NoPanic.
Print Assumptions decode_no_panic.

(* ================= fuel sufficiency on arbitrary bytes ================= *)
Lemma read_head2_len bs ty tg r two : read_head2 bs = Some (ty, tg, r, two) -> (length r < length bs)%nat.
Proof.
  unfold read_head2. destruct bs as [|b r0]; [discriminate|].
  destruct (b / 16 =? 15); [destruct r0; [discriminate|]|]; intros H; inversion H; subst; cbn [length]; lia.
Qed.
Lemma read_head_len bs ty tg r : read_head bs = Some (ty, tg, r) -> (length r < length bs)%nat.
Proof.
  unfold read_head. destruct (read_head2 bs) as [[[[a b] c] d]|] eqn:E; [|discriminate].
  intros H; inversion H; subst. eapply read_head2_len; eauto.
Qed.
Lemma drop_len n bs : (length (drop n bs) <= length bs)%nat.
Proof. unfold drop. destruct (_ <=? _); [cbn; lia|]. rewrite skipn_length. lia. Qed.
Lemma bread_len n bs v r : bread n bs = Some (v, r) -> (length r <= length bs)%nat.
Proof. unfold bread. destruct (n <=? length bs)%nat; [|discriminate]. intros H; inversion H. rewrite skipn_length. lia. Qed.
Lemma read_count_len_ok bs :
  match read_count bs with COk _ r => (length r < length bs)%nat | CErr r => (length r <= length bs)%nat end.
Proof.
  unfold read_count. destruct (read_head bs) as [[[ty tg] r]|] eqn:E; [|cbn; lia].
  apply read_head_len in E.
  destruct (negb (tg =? 0) || (ty =? tSE)); [lia|].
  destruct (ty =? tZERO); [lia|].
  destruct (ty =? tBYTE). { destruct r; cbn [length] in *; lia. }
  destruct (ty =? tSHORT). { destruct (bread 2 r) as [[v r']|] eqn:B; [apply bread_len in B; lia|cbn; lia]. }
  destruct (ty =? tINT). { destruct (bread 4 r) as [[v r']|] eqn:B; [apply bread_len in B; lia|cbn; lia]. }
  lia.
Qed.

Definition skip_good (bs : list N) (res : st * list N) : Prop :=
  fst res <> SFuel /\ (length (snd res) <= length bs)%nat.
Lemma skip_good_le bs bs' res : skip_good bs' res -> (length bs' <= length bs)%nat -> skip_good bs res.
Proof. intros [A B] H. split; [assumption|lia]. Qed.

Lemma skip_fuel : forall fuel,
  (forall d ty bs, (2 * length bs + 2 <= fuel)%nat -> skip_good bs (skip_field fuel d ty bs)) /\
  (forall d n bs, (2 * length bs + 1 <= fuel)%nat -> skip_good bs (skip_n fuel d n bs)) /\
  (forall d bs, (2 * length bs + 1 <= fuel)%nat -> skip_good bs (skip_to_end fuel d bs)).
Proof.
  induction fuel as [|f (IHf & IHn & IHe)]; [repeat split; intros; lia|].
  assert (Hd : forall n bs, skip_good bs (SOk, drop n bs)) by (intros; split; [discriminate|apply drop_len]).
  assert (Hsame : forall s bs, s <> SFuel -> skip_good bs (s, bs)) by (intros; split; [assumption|cbn; lia]).
  split; [|split].
  - intros d ty bs Hf. cbn [skip_field].
    destruct (ty =? tBYTE); [apply Hd|]. destruct (ty =? tSHORT); [apply Hd|].
    destruct (ty =? tINT); [apply Hd|]. destruct (ty =? tLONG); [apply Hd|].
    destruct (ty =? tFLOAT); [apply Hd|]. destruct (ty =? tDOUBLE); [apply Hd|].
    destruct (ty =? tSTR1).
    { destruct bs as [|l r]; [split; [discriminate|cbn; lia]|]. apply (skip_good_le _ r); [apply Hd|cbn; lia]. }
    destruct (ty =? tSTR4).
    { destruct (bread 4 bs) as [[l r]|] eqn:B; [|split; [discriminate|cbn; lia]].
      apply bread_len in B. apply (skip_good_le _ r); [apply Hd|lia]. }
    destruct (ty =? tMAP).
    { destruct (maxd <=? d); [apply Hsame; discriminate|]. pose proof (read_count_len_ok bs) as Hc.
      destruct (read_count bs) as [n r|r]; [|split; [discriminate|cbn; lia]].
      apply (skip_good_le _ r); [apply IHn; lia|lia]. }
    destruct (ty =? tLIST).
    { destruct (maxd <=? d); [apply Hsame; discriminate|]. pose proof (read_count_len_ok bs) as Hc.
      destruct (read_count bs) as [n r|r]; [|split; [discriminate|cbn; lia]].
      apply (skip_good_le _ r); [apply IHn; lia|lia]. }
    destruct (ty =? tSIMPLE).
    { destruct (read_head bs) as [[[t tg] r]|] eqn:E; [|split; [discriminate|cbn; lia]]. apply read_head_len in E.
      destruct (negb (t =? tBYTE)); [split; [discriminate|cbn; lia]|].
      pose proof (read_count_len_ok r) as Hc. destruct (read_count r) as [n r'|r']; [|split; [discriminate|cbn; lia]].
      split; [discriminate|]. cbn [snd]. destruct (0 <? n)%Z; [pose proof (drop_len (Z.to_N n) r')|]; lia. }
    destruct (ty =? tSB). { destruct (maxd <=? d); [apply Hsame; discriminate|]. apply IHe. lia. }
    destruct ((ty =? tSE) || (ty =? tZERO)); apply Hsame; discriminate.
  - intros d n bs Hf. cbn [skip_n]. destruct (n <=? 0)%Z; [apply Hsame; discriminate|].
    destruct (read_head bs) as [[[ty tg] r]|] eqn:E; [|split; [discriminate|cbn; lia]]. apply read_head_len in E.
    destruct (skip_field f d ty r) as [s r'] eqn:Es.
    destruct (IHf d ty r ltac:(lia)) as [_ Hl]. rewrite Es in Hl. cbn [snd] in Hl.
    apply (skip_good_le _ r'); [apply IHn; lia|lia].
  - intros d bs Hf. cbn [skip_to_end].
    destruct (read_head bs) as [[[ty tg] r]|] eqn:E; [|split; [discriminate|cbn; lia]]. apply read_head_len in E.
    destruct (skip_field f d ty r) as [s r'] eqn:Es.
    destruct (IHf d ty r ltac:(lia)) as [Hne Hl]. rewrite Es in Hne, Hl. cbn [fst snd] in Hne, Hl.
    destruct s; [|split; [discriminate|cbn [snd]; lia]|congruence].
    destruct (ty =? tSE); [split; [discriminate|cbn [snd]; lia]|].
    apply (skip_good_le _ r'); [apply IHe; lia|lia].
Qed.

Definition seek_good (req : bool) (bs : list N) (s : seek) : Prop :=
  match s with
  | SeekFuel => False
  | Found _ r => (length r < length bs)%nat
  | NotFound r => (length r <= length bs)%nat /\ req = false
  | SeekErr => True
  end.
Lemma seek_fuel : forall fuel tag req bs, (2 * length bs + 3 <= fuel)%nat -> seek_good req bs (skip_to_no_check fuel tag req bs).
Proof.
  induction fuel as [|f IH]; intros tag req bs Hf; [lia|]. cbn [skip_to_no_check].
  destruct (read_head2 bs) as [[[[ty tg] r] two]|] eqn:E.
  - apply read_head2_len in E. destruct ((ty =? tSE) || (tag <? tg)).
    + destruct req; cbn [seek_good]; [exact I|]. split; [|reflexivity]. unfold unread.
      destruct (two && (tg <? 15)); [destruct bs; cbn [tl length]; lia|lia].
    + destruct (tg =? tag); [cbn [seek_good]; lia|]. destruct (skip_field f 0 ty r) as [s r'] eqn:Es.
      destruct (skip_fuel f) as (IHf & _). destruct (IHf 0 ty r ltac:(lia)) as [Hne Hl]. rewrite Es in Hne, Hl. cbn [fst snd] in Hne, Hl.
      destruct s; [|exact I|congruence]. specialize (IH tag req r' ltac:(lia)).
      destruct (skip_to_no_check f tag req r'); cbn [seek_good] in *; try tauto; try lia.
      destruct IH. split; [lia|assumption].
  - destruct req; cbn [seek_good]; [exact I|]. split; [cbn; lia|reflexivity].
Qed.
Lemma skip_to_fuel fuel ty tag req bs : (2 * length bs + 3 <= fuel)%nat -> seek_good req bs (skip_to fuel ty tag req bs).
Proof.
  intros Hf. unfold skip_to. pose proof (seek_fuel fuel tag req bs Hf) as H.
  destruct (skip_to_no_check fuel tag req bs); try exact H. destruct (ty0 =? ty); [exact H|exact I].
Qed.

Definition rgood {A} (req : bool) (bs : list N) (r : rres A) : Prop :=
  match r with
  | RFuel => False
  | ROk _ rest => (length rest < length bs)%nat
  | RAbsent rest => (length rest <= length bs)%nat /\ req = false
  | RErr => True
  end.
Definition good {A} (req : bool) (bs : list N) (res : dres A) : Prop :=
  match res with
  | DFuel => False
  | DOk _ r => (length r <= length bs)%nat /\ (req = true -> (length r < length bs)%nat)
  | _ => True
  end.

Lemma with_seek_good {A} f tag req bs (body : N -> list N -> option (A * list N)) :
  (forall ty r a r', body ty r = Some (a, r') -> (length r' <= length r)%nat) ->
  (2 * length bs + 3 <= f)%nat -> rgood req bs (with_seek f tag req bs body).
Proof.
  intros Hb Hf. unfold with_seek. pose proof (seek_fuel f tag req bs Hf) as H.
  destruct (skip_to_no_check f tag req bs); cbn [seek_good rgood] in *; try tauto.
  destruct (body ty rest) as [[a r']|] eqn:E; [|exact I]. apply Hb in E. cbn [rgood]. lia.
Qed.
Lemma map_r_good {A B} (g : A -> B) req bs r : rgood req bs r -> rgood req bs (map_r g r).
Proof. destruct r; exact (fun H => H). Qed.
Lemma of_rres_good {A} req bs (r : rres A) prior inj : rgood req bs r -> good req bs (of_rres r prior inj).
Proof.
  destruct r; cbn [rgood of_rres good]; try tauto.
  - intros H. split; [lia|intros; lia].
  - intros [H ->]. split; [lia|discriminate].
Qed.
Lemma read_int_body_len bits ty r a r' : read_int_body bits ty r = Some (a, r') -> (length r' <= length r)%nat.
Proof.
  unfold read_int_body. destruct (ty =? tZERO); [intros H; inversion H; lia|].
  destruct (ty =? tBYTE). { destruct r; [discriminate|]. intros H; inversion H; cbn; lia. }
  destruct ((ty =? tSHORT) && (16 <=? bits)%Z). { destruct (bread 2 r) as [[v x]|] eqn:B; [|discriminate]. apply bread_len in B. intros H; inversion H; subst; lia. }
  destruct ((ty =? tINT) && (32 <=? bits)%Z). { destruct (bread 4 r) as [[v x]|] eqn:B; [|discriminate]. apply bread_len in B. intros H; inversion H; subst; lia. }
  destruct ((ty =? tLONG) && (64 <=? bits)%Z). { destruct (bread 8 r) as [[v x]|] eqn:B; [|discriminate]. apply bread_len in B. intros H; inversion H; subst; lia. }
  discriminate.
Qed.
Lemma read_f32_body_len ty r a r' : read_f32_body ty r = Some (a, r') -> (length r' <= length r)%nat.
Proof.
  unfold read_f32_body. destruct (ty =? tZERO); [intros H; inversion H; lia|].
  destruct (ty =? tFLOAT); [apply bread_len|discriminate].
Qed.
Lemma read_f64_body_len ty r a r' : read_f64_body ty r = Some (a, r') -> (length r' <= length r)%nat.
Proof.
  unfold read_f64_body. destruct (ty =? tZERO); [intros H; inversion H; lia|].
  destruct (ty =? tFLOAT). { destruct (bread 4 r) as [[v x]|] eqn:B; [|discriminate]. apply bread_len in B. intros H; inversion H; subst; lia. }
  destruct (ty =? tDOUBLE); [apply bread_len|discriminate].
Qed.
Lemma take_str_len l r s r' : take_str l r = Some (s, r') -> (length r' <= length r)%nat.
Proof. unfold take_str. destruct (_ <? _); [discriminate|]. intros H; inversion H. rewrite skipn_length. lia. Qed.
Lemma read_string_body_len ty r a r' : read_string_body ty r = Some (a, r') -> (length r' <= length r)%nat.
Proof.
  unfold read_string_body. destruct (ty =? tSTR4).
  { destruct (bread 4 r) as [[l x]|] eqn:B; [|discriminate]. apply bread_len in B. intros H. apply take_str_len in H. lia. }
  destruct (ty =? tSTR1); [|discriminate]. destruct r as [|l x]; [discriminate|]. intros H. apply take_str_len in H. cbn [length]. lia.
Qed.
Lemma dec_scalar_good f tag req t prior bs : (2 * length bs + 3 <= f)%nat -> good req bs (dec_scalar f tag req t prior bs).
Proof.
  intros Hf. unfold dec_scalar, r_bool, r_int8, r_uint8, r_int16, r_uint16, r_int32, r_uint32, r_int64, r_int, r_f32, r_f64, r_string.
  destruct t; try exact I; apply of_rres_good; repeat apply map_r_good; apply with_seek_good; try assumption;
    first [apply read_int_body_len | apply read_f32_body_len | apply read_f64_body_len | apply read_string_body_len].
Qed.
Lemma read_slice_len n r o r' : read_slice n r = Some (o, r') -> (length r' <= length r)%nat.
Proof.
  unfold read_slice. destruct (n <? 0)%Z; [discriminate|].
  destruct (_ <? _)%Z; [discriminate|]. intros H; inversion H. rewrite skipn_length. lia.
Qed.

Section Fuel.
Variable e : env.

Definition FS_var (f : nat) : Prop := forall n t tag req prior bs, tfin n e t = true ->
  (2 * length bs + 3 + tneed n e t <= f)%nat -> good req bs (dec_var f e tag req t prior bs).
Definition FS_elems (f : nat) : Prop := forall n x cnt bs, tfin n e x = true ->
  (2 * length bs + 4 + tneed n e x <= f)%nat -> good false bs (dec_elems f e x cnt bs).
Definition FS_arr (f : nat) : Prop := forall n x len i cnt cur bs, tfin n e x = true ->
  (2 * length bs + 4 + tneed n e x <= f)%nat -> good false bs (dec_arr f e x len i cnt cur bs).
Definition FS_entries (f : nat) : Prop := forall n kt vt cnt bs, tfin n e kt = true -> tfin n e vt = true ->
  (2 * length bs + 4 + Nat.max (tneed n e kt) (tneed n e vt) <= f)%nat -> good false bs (dec_entries f e kt vt cnt bs).
Definition FS_fields (f : nat) : Prop := forall n fds ps bs, (forall fd, In fd fds -> tfin n e (fty fd) = true) ->
  (2 * length bs + 4 + length fds + tmax (tneed n e) fds <= f)%nat -> good false bs (dec_fields f e fds ps bs).

Lemma tneed_ge n t : tfin n e t = true -> (3 <= tneed n e t)%nat.
Proof. destruct n; [discriminate|]. destruct t; cbn [tneed]; intros _; lia. Qed.

Lemma fs_all : forall f, FS_var f /\ FS_elems f /\ FS_arr f /\ FS_entries f /\ FS_fields f.
Proof.
  induction f as [|f (HV & HE & HA & HM & HF)].
  { repeat split; intro; intros; lia. }
  repeat split.
  - (* dec_var *)
    intros n t tag req prior bs Hfin Hf. destruct n as [|n]; [discriminate|].
    destruct t; try (rewrite dec_var_scalar by reflexivity; apply dec_scalar_good; cbn [tneed] in Hf; lia).
    + (* vec *) cbn [tfin tneed] in Hfin, Hf. rewrite dec_var_vec.
      pose proof (seek_fuel f tag req bs ltac:(lia)) as Hs.
      destruct (skip_to_no_check f tag req bs) as [wt r|r| |]; cbn [seek_good good] in *; try tauto.
      * destruct (wt =? tLIST).
        { pose proof (read_count_len_ok r) as Hc. destruct (read_count r) as [c r1|]; [|exact I].
          destruct (c <? 0)%Z; [exact I|]. destruct (_ <? c)%Z; [exact I|].
          pose proof (HE n t c r1 Hfin ltac:(lia)) as H. destruct (dec_elems f e t c r1); cbn [good] in *; try tauto.
          split; [lia|intros; lia]. }
        destruct (wt =? tSIMPLE); [|exact I]. destruct (is_byte t); [|exact I].
        pose proof (skip_to_fuel f tBYTE 0 true r ltac:(lia)) as Hs2.
        destruct (skip_to f tBYTE 0 true r) as [wt1 r1|r1| |]; cbn [seek_good good] in *; try tauto.
        pose proof (read_count_len_ok r1) as Hc. destruct (read_count r1) as [c r2|]; [|exact I].
        destruct (read_slice c r2) as [[s r3]|] eqn:Er; [|exact I]; apply read_slice_len in Er; cbn [good]; split; try lia; intros; lia.
      * destruct Hs as [Hl ->]. split; [lia|discriminate].
    + (* map *) cbn [tfin tneed] in Hfin, Hf. apply andb_true_iff in Hfin. destruct Hfin as [Ha Hb]. rewrite dec_var_map.
      pose proof (skip_to_fuel f tMAP tag req bs ltac:(lia)) as Hs.
      destruct (skip_to f tMAP tag req bs) as [wt r|r| |]; cbn [seek_good good] in *; try tauto.
      * pose proof (read_count_len_ok r) as Hc. destruct (read_count r) as [c r1|]; [|exact I].
        destruct ((c <? 0)%Z || (_ <? c)%Z); [exact I|].
        pose proof (HM n t1 t2 c r1 Ha Hb ltac:(lia)) as H. destruct (dec_entries f e t1 t2 c r1); cbn [good] in *; try tauto.
        split; [lia|intros; lia].
      * destruct Hs as [Hl ->]. split; [lia|discriminate].
    + (* arr *) cbn [tfin tneed] in Hfin, Hf. rewrite dec_var_arr.
      pose proof (seek_fuel f tag req bs ltac:(lia)) as Hs.
      destruct (skip_to_no_check f tag req bs) as [wt r|r| |]; cbn [seek_good good] in *; try tauto.
      * destruct (wt =? tLIST); [|exact I].
        pose proof (read_count_len_ok r) as Hc. destruct (read_count r) as [c r1|]; [|exact I].
        destruct ((c <? 0)%Z || (_ <? c)%Z); [exact I|].
        pose proof (HA n t n0 0%nat c (match prior with VList l => l | _ => [] end) r1 Hfin ltac:(lia)) as H.
        destruct (dec_arr f e t n0 0 c _ r1); cbn [good] in *; try tauto. split; [lia|intros; lia].
      * destruct Hs as [Hl ->]. split; [lia|discriminate].
    + (* struct *) cbn [tfin tneed] in Hfin, Hf. rewrite forallb_forall in Hfin. rewrite dec_var_struct. cbv zeta.
      pose proof (skip_to_fuel f tSB tag req bs ltac:(lia)) as Hs.
      destruct (skip_to f tSB tag req bs) as [wt r|r| |]; cbn [seek_good good] in *; try tauto.
      * pose proof (HF n (fields_of e sid) (match reset_default f e sid (reset_default f e sid prior) with VStruct l => l | _ => [] end) r Hfin ltac:(lia)) as H.
        destruct (dec_fields f e (fields_of e sid) _ r) as [vs r1| | | |]; cbn [good] in *; try tauto.
        destruct (skip_fuel f) as (_ & _ & He). destruct (He 0 r1 ltac:(lia)) as [Hne Hl].
        destruct (skip_to_end f 0 r1) as [s r2]. cbn [fst snd] in *. destruct s; cbn [good]; try tauto; try congruence.
        split; [lia|intros; lia].
      * destruct Hs as [Hl ->]. split; [lia|discriminate].
  - (* dec_elems *)
    intros n x cnt bs Hfin Hf. rewrite dec_elems_S. destruct (cnt <=? 0)%Z; [cbn [good]; split; [lia|discriminate]|].
    pose proof (HV n x 0 true (zero_of f e x) bs Hfin ltac:(lia)) as H1.
    destruct (dec_var f e 0 true x (zero_of f e x) bs) as [v r| | | |]; cbn [good] in *; try tauto.
    destruct H1 as [_ H1]. specialize (H1 eq_refl).
    pose proof (HE n x (cnt - 1)%Z r Hfin ltac:(lia)) as H2.
    destruct (dec_elems f e x (cnt - 1)%Z r); cbn [good] in *; try tauto. split; [lia|discriminate].
  - (* dec_arr *)
    intros n x len i cnt cur bs Hfin Hf. rewrite dec_arr_S. destruct (cnt <=? 0)%Z; [cbn [good]; split; [lia|discriminate]|].
    destruct (len <=? i)%nat; [exact I|].
    pose proof (HV n x 0 true (nth i cur (zero_of f e x)) bs Hfin ltac:(lia)) as H1.
    destruct (dec_var f e 0 true x _ bs) as [v r| | | |]; cbn [good] in *; try tauto.
    destruct H1 as [_ H1]. specialize (H1 eq_refl).
    pose proof (HA n x len (S i) (cnt - 1)%Z (replace_nth i v cur) r Hfin ltac:(lia)) as H2.
    destruct (dec_arr f e x len (S i) (cnt - 1)%Z _ r); cbn [good] in *; try tauto. split; [lia|discriminate].
  - (* dec_entries *)
    intros n kt vt cnt bs Ha Hb Hf. rewrite dec_entries_S. destruct (cnt <=? 0)%Z; [cbn [good]; split; [lia|discriminate]|].
    pose proof (HV n kt 0 true (zero_of f e kt) bs Ha ltac:(lia)) as H1.
    destruct (dec_var f e 0 true kt (zero_of f e kt) bs) as [v r| | | |]; cbn [good] in *; try tauto.
    destruct H1 as [_ H1]. specialize (H1 eq_refl).
    pose proof (HV n vt 1 true (zero_of f e vt) r Hb ltac:(lia)) as H2.
    destruct (dec_var f e 1 true vt (zero_of f e vt) r) as [v' r'| | | |]; cbn [good] in *; try tauto.
    destruct H2 as [_ H2]. specialize (H2 eq_refl).
    pose proof (HM n kt vt (cnt - 1)%Z r' Ha Hb ltac:(lia)) as H3.
    destruct (dec_entries f e kt vt (cnt - 1)%Z r'); cbn [good] in *; try tauto. split; [lia|discriminate].
  - (* dec_fields *)
    intros n fds ps bs Hfin Hf. rewrite dec_fields_S. destruct fds as [|fd fds]; [cbn [good]; split; [lia|discriminate]|]. cbv zeta.
    cbn [length tmax fold_right] in Hf. fold (tmax (tneed n e) fds) in Hf.
    pose proof (HV n (fty fd) (ftag fd) (freq fd) (match ps with p :: _ => p | [] => zero_of f e (fty fd) end) bs
                  (Hfin fd (or_introl eq_refl)) ltac:(lia)) as H1.
    destruct (dec_var f e (ftag fd) (freq fd) (fty fd) _ bs) as [v r| | | |]; cbn [good] in *; try tauto.
    destruct H1 as [H1 _].
    pose proof (HF n fds (tl ps) r (fun fd' Hin => Hfin fd' (or_intror Hin)) ltac:(lia)) as H2.
    destruct (dec_fields f e fds (tl ps) r); cbn [good] in *; try tauto. split; [lia|discriminate].
Qed.

(* the model's fuel never runs out, whatever the bytes and the target *)
Theorem decode_fuel n sid prior bs : tfin n e (TStruct sid) = true -> (tneed n e (TStruct sid) <= 64)%nat ->
  decode_into e sid prior bs <> DFuel.
Proof.
  intros Hfin Hn. destruct n as [|n]; [discriminate|]. cbn [tfin tneed] in Hfin, Hn. rewrite forallb_forall in Hfin.
  unfold decode_into. destruct (fs_all (4 * length bs + 64)) as (_ & _ & _ & _ & HF).
  pose proof (HF n (fields_of e sid) (match reset_default (4 * length bs + 64) e sid prior with VStruct l => l | _ => [] end) bs Hfin ltac:(lia)) as H.
  destruct (dec_fields _ e (fields_of e sid) _ bs); cbn [good] in H; try discriminate. contradiction.
Qed.
End Fuel.

(* C05: every struct type with a finite type graph (vectors, arrays and maps included), any target, ANY bytes:
   a value or an error - no panic, no count beyond the bytes left reaching an allocation, and the model's fuel
   suffices *)
Theorem decode_total e n sid prior bs : tfin n e (TStruct sid) = true -> (tneed n e (TStruct sid) <= 64)%nat ->
  total_out (decode_into e sid prior bs).
Proof.
  intros Hs Hn. pose proof (decode_no_panic e sid prior bs) as H1.
  pose proof (decode_fuel e n sid prior bs Hs Hn) as H2.
  destruct (decode_into e sid prior bs); cbn [ok_out total_out] in *; try tauto; congruence.
Qed.
Print Assumptions decode_fuel.
Print Assumptions decode_total.
