(* C06: an encoding damaged at any depth (Damage.v) is rejected. *)
From Coq Require Import List NArith ZArith Lia Bool Arith.
From Coq Require Import ZifyN ZifyNat ZifyBool.
From TarsV Require Import Gen.Consts Base.Hex Codec.Wire Codec.WireProofs Codec.Skip Codec.SkipProofs Codec.Prim
  Codec.PrimProofs Codec.GenCodec Codec.Corr Codec.GenProofs Codec.RoundTrip Codec.RoundTripProofs Codec.PrefixProofs
  Codec.WireSpec Codec.WireSpecProofs Codec.PrefixGenProofs Codec.Damage.
Import ListNotations.
Ltac Zify.zify_post_hook ::= Z.div_mod_to_equations.
Open Scope N_scope.

Lemma spot_rejected e tag t bs : spot e tag t bs -> tag < 256 -> forall f req prior, (2 * length bs + 3 <= f)%nat ->
  dec_var (S f) e tag req t prior bs = DErr.
Proof.
  intros Hs Htag f req prior Hf. destruct Hs.
  - apply (inadmissible_member e f tag req t prior None [] ty r); try assumption. apply junk_nil.
  - apply (inflated_string_member e f tag req prior None [] four l r); try assumption. apply junk_nil.
  - apply (inflated_bytes_member e f tag req x prior None [] n r); try assumption. apply junk_nil.
  - apply (inflated_list_member e f tag req x prior None [] n r); try assumption. apply junk_nil.
  - apply (inflated_map_member e f tag req kt vt prior None [] n r); try assumption. apply junk_nil.
  - apply (array_count_member e f tag req len x prior None [] n r); try assumption. apply junk_nil.
Qed.

Lemma spot_headed e tag t bs : spot e tag t bs -> headed tag bs.
Proof.
  intros Hs. destruct Hs; try (apply headed_app; first [assumption | reflexivity]).
  destruct four; rewrite <- app_assoc; apply headed_app; reflexivity.
Qed.
Lemma dmg_headed e tag t bs : dmg e tag t bs -> headed tag bs.
Proof. intros H. destruct H; try (apply headed_app; reflexivity). now apply (spot_headed e tag t). Qed.

Section Damage.
Variable e : env.
Variable k : nat.
Hypothesis Hwf : wf_schema k e.

(* what the theorem says of one member *)
Definition G (tag : N) (t : ty) (bs : list N) : Prop := forall m f req d prior,
  tfin m e t = true -> ty_nest k e t = true -> tag < 256 -> (d <> None -> scalar_ty t = true) -> prior_ok e t d prior ->
  (tneed m e t + k + 4 * length bs + 3 <= f)%nat -> dec_var f e tag req t prior bs = DErr.

Lemma zero_prior x f : ty_nest k e x = true -> (k <= f)%nat -> prior_ok e x None (zero_of f e x).
Proof. intros Hn Hf. apply (zero_zlike e k); [now apply (ty_nest_nest e k)|assumption]. Qed.
Lemma none_scalar (t : ty) : @None val <> None -> scalar_ty t = true.
Proof. intros H; congruence. Qed.

Lemma elem_complete f m tag x y prior rest : has_type e x y -> ty_nest k e x = true -> tfin m e x = true -> tag < 256 ->
  prior_ok e x None prior ->
  (tneed m e x + k + 4 * length (enc_var e tag true x None y) + 2 * length rest + 3 <= f)%nat ->
  dec_var f e tag true x prior (enc_var e tag true x None y ++ rest) = DOk (norm e x true None y) rest.
Proof.
  intros Hy Hn Hfin Htag Hp Hf. apply (member_complete e k Hwf f m); try assumption; [apply none_scalar|apply left_out_req].
Qed.

Lemma elems_err x bs' : G 0 x bs' -> forall xs m f n, tfin m e x = true -> ty_nest k e x = true ->
  Forall (has_type e x) xs -> (length xs < n)%nat ->
  (tneed m e x + 1 + k + 4 * length (enc_elems e x xs ++ bs') + 3 <= f)%nat ->
  dec_elems f e x (Z.of_nat n) (enc_elems e x xs ++ bs') = DErr.
Proof.
  intros HG. induction xs as [|y r IH]; intros m f n Hfin Hn Hty Hlen Hf; (destruct f as [|f]; [lia|]); rewrite dec_elems_S;
    (destruct (Z.of_nat n <=? 0)%Z eqn:E0; [cbn [length] in Hlen; lia|]).
  - cbn [enc_elems app] in *. rewrite (HG m f true None (zero_of f e x)); try assumption; try reflexivity; try lia.
    + apply none_scalar.
    + apply zero_prior; [assumption|lia].
  - pose proof (Forall_inv Hty) as Hy. pose proof (Forall_inv_tail Hty) as Hr. cbn [enc_elems length] in *.
    pose proof (enc_var_req_length e 0 x None y Hy) as Hb1.
    rewrite <- app_assoc in *. rewrite app_length in Hf.
    rewrite (elem_complete f m 0 x y); try assumption; try lia.
    + replace (Z.of_nat n - 1)%Z with (Z.of_nat (n - 1)) by lia. rewrite (IH m f (n - 1)%nat); try assumption; try reflexivity; lia.
    + apply zero_prior; [assumption|lia].
Qed.

Lemma arr_err x bs' : G 0 x bs' -> forall xs m f n len dn todo, tfin m e x = true -> ty_nest k e x = true ->
  Forall (has_type e x) xs -> (length xs < n)%nat -> (length dn + n <= len)%nat -> length (dn ++ todo) = len ->
  Forall (zlike e x) todo ->
  (tneed m e x + 1 + k + 4 * length (enc_elems e x xs ++ bs') + 3 <= f)%nat ->
  dec_arr f e x len (length dn) (Z.of_nat n) (dn ++ todo) (enc_elems e x xs ++ bs') = DErr.
Proof.
  intros HG. induction xs as [|y r IH]; intros m f n len dn todo Hfin Hn Hty Hlen Hsum Hl Hz Hf;
    (destruct f as [|f]; [lia|]); rewrite dec_arr_S;
    (destruct (Z.of_nat n <=? 0)%Z eqn:E0; [cbn [length] in Hlen; lia|]);
    (destruct (len <=? length dn)%nat eqn:E1; [apply Nat.leb_le in E1; cbn [length] in Hlen; lia|]);
    (destruct todo as [|z todo]; [rewrite app_nil_r in Hl; cbn [length] in Hlen; lia|]);
    rewrite nth_app_here; inversion Hz as [|? ? Hz1 Hz2]; subst.
  - cbn [enc_elems app] in *. rewrite (HG m f true None z); try assumption; try reflexivity; try lia. apply none_scalar.
  - pose proof (Forall_inv Hty) as Hy. pose proof (Forall_inv_tail Hty) as Hr. cbn [enc_elems length] in *.
    pose proof (enc_var_req_length e 0 x None y Hy) as Hb1.
    rewrite <- app_assoc in *. rewrite app_length in Hf.
    rewrite (elem_complete f m 0 x y); try assumption; try lia.
    rewrite replace_nth_app.
    replace (Z.of_nat n - 1)%Z with (Z.of_nat (n - 1)) by lia.
    replace (dn ++ norm e x true None y :: todo) with ((dn ++ [norm e x true None y]) ++ todo) by (now rewrite <- app_assoc).
    replace (S (length dn)) with (length (dn ++ [norm e x true None y])) by (rewrite app_length; cbn [length]; lia).
    apply (IH m f (n - 1)%nat); try assumption; try lia.
    + rewrite app_length. cbn [length]. lia.
    + rewrite <- app_assoc. cbn [app]. rewrite !app_length in *. cbn [length] in *. lia.
Qed.

Lemma entries_err_key kt vt bs' : G 0 kt bs' -> forall kvs m f n, tfin m e kt = true -> tfin m e vt = true ->
  ty_nest k e kt = true -> ty_nest k e vt = true ->
  Forall (fun p => has_type e kt (fst p) /\ has_type e vt (snd p)) kvs -> (length kvs < n)%nat ->
  (Nat.max (tneed m e kt) (tneed m e vt) + 1 + k + 4 * length (enc_entries e kt vt kvs ++ bs') + 3 <= f)%nat ->
  dec_entries f e kt vt (Z.of_nat n) (enc_entries e kt vt kvs ++ bs') = DErr.
Proof.
  intros HG. induction kvs as [|[ky y] r IH]; intros m f n Hfk Hfv Hnk Hnv Hty Hlen Hf; (destruct f as [|f]; [lia|]);
    rewrite dec_entries_S; (destruct (Z.of_nat n <=? 0)%Z eqn:E0; [cbn [length] in Hlen; lia|]).
  - cbn [enc_entries app] in *. rewrite (HG m f true None (zero_of f e kt)); try assumption; try reflexivity; try lia.
    + apply none_scalar.
    + apply zero_prior; [assumption|lia].
  - pose proof (Forall_inv Hty) as [Hk Hy]. pose proof (Forall_inv_tail Hty) as Hr. cbn [fst snd] in Hk, Hy.
    pose proof (enc_var_req_length e 0 kt None ky Hk) as Hb1. pose proof (enc_var_req_length e 1 vt None y Hy) as Hb2.
    cbn [enc_entries length] in *. rewrite <- !app_assoc in *. rewrite !app_length in Hf.
    assert (Hzk : prior_ok e kt None (zero_of f e kt)) by (apply zero_prior; [assumption|lia]).
    assert (Hzv : prior_ok e vt None (zero_of f e vt)) by (apply zero_prior; [assumption|lia]).
    rewrite (elem_complete f m 0 kt ky) by (try assumption; rewrite ?app_length; lia).
    rewrite (elem_complete f m 1 vt y) by (try assumption; rewrite ?app_length; lia).
    replace (Z.of_nat n - 1)%Z with (Z.of_nat (n - 1)) by lia.
    rewrite (IH m f (n - 1)%nat); try assumption; try reflexivity; try lia; rewrite ?app_length; lia.
Qed.

Lemma entries_err_val kt vt k0 bs' : G 1 vt bs' -> has_type e kt k0 -> forall kvs m f n, tfin m e kt = true -> tfin m e vt = true ->
  ty_nest k e kt = true -> ty_nest k e vt = true ->
  Forall (fun p => has_type e kt (fst p) /\ has_type e vt (snd p)) kvs -> (length kvs < n)%nat ->
  (Nat.max (tneed m e kt) (tneed m e vt) + 1 + k + 4 * length (enc_entries e kt vt kvs ++ enc_var e 0 true kt None k0 ++ bs') + 3 <= f)%nat ->
  dec_entries f e kt vt (Z.of_nat n) (enc_entries e kt vt kvs ++ enc_var e 0 true kt None k0 ++ bs') = DErr.
Proof.
  intros HG Hk0. induction kvs as [|[ky y] r IH]; intros m f n Hfk Hfv Hnk Hnv Hty Hlen Hf; (destruct f as [|f]; [lia|]);
    rewrite dec_entries_S; (destruct (Z.of_nat n <=? 0)%Z eqn:E0; [cbn [length] in Hlen; lia|]).
  - cbn [enc_entries app] in *. rewrite app_length in Hf.
    assert (Hzk : prior_ok e kt None (zero_of f e kt)) by (apply zero_prior; [assumption|lia]).
    assert (Hzv : prior_ok e vt None (zero_of f e vt)) by (apply zero_prior; [assumption|lia]).
    pose proof (enc_var_req_length e 0 kt None k0 Hk0) as Hb0.
    rewrite (elem_complete f m 0 kt k0) by (try assumption; rewrite ?app_length; lia).
    rewrite (HG m f true None (zero_of f e vt)); try assumption; try reflexivity; try lia. apply none_scalar.
  - pose proof (Forall_inv Hty) as [Hk Hy]. pose proof (Forall_inv_tail Hty) as Hr. cbn [fst snd] in Hk, Hy.
    pose proof (enc_var_req_length e 0 kt None ky Hk) as Hb1. pose proof (enc_var_req_length e 1 vt None y Hy) as Hb2.
    cbn [enc_entries length] in *. rewrite <- !app_assoc in *. rewrite !app_length in Hf.
    assert (Hzk : prior_ok e kt None (zero_of f e kt)) by (apply zero_prior; [assumption|lia]).
    assert (Hzv : prior_ok e vt None (zero_of f e vt)) by (apply zero_prior; [assumption|lia]).
    rewrite (elem_complete f m 0 kt ky) by (try assumption; rewrite ?app_length; lia).
    rewrite (elem_complete f m 1 vt y) by (try assumption; rewrite ?app_length; lia).
    replace (Z.of_nat n - 1)%Z with (Z.of_nat (n - 1)) by lia.
    rewrite (IH m f (n - 1)%nat); try assumption; try reflexivity; try lia; rewrite ?app_length; lia.
Qed.
End Damage.

Section Damage2.
Variable e : env.
Variable k : nat.
Hypothesis Hwf : wf_schema k e.

(* the members in front of a damaged member decode; the damaged member's error is the result *)
Lemma dfields_err fd fds2 bs' : G e k (ftag fd) (fty fd) bs' -> headed (ftag fd) bs' ->
  forall fds1 vs1 ps lo m f,
  Forall2 (fun fd x => has_type e (fty fd) x) fds1 vs1 -> Forall (member_ok e k) (fds1 ++ fd :: fds2) ->
  asc_opt lo (fds1 ++ fd :: fds2) ->
  Forall2 (fun fd p => prior_ok e (fty fd) (fdef fd) p) (fds1 ++ fd :: fds2) ps ->
  (forall fd', In fd' (fds1 ++ fd :: fds2) -> tfin m e (fty fd') = true) ->
  (length (fds1 ++ fd :: fds2) + tmax (tneed m e) (fds1 ++ fd :: fds2) + 1 + k + 4 * length (enc_fields e vs1 fds1 ++ bs') + 3 <= f)%nat ->
  dec_fields f e (fds1 ++ fd :: fds2) ps (enc_fields e vs1 fds1 ++ bs') = DErr.
Proof.
  intros HG Hh. induction fds1 as [|fd1 fds1 IH]; intros vs1 ps lo m f Hty Hmem Hasc Hps Hfin Hf;
    (destruct f as [|f]; [lia|]); rewrite dec_fields_S; cbn [app] in *.
  - inversion Hty; subst. inversion Hps as [|? p ? ps' Hp Hps']; subst. inversion Hmem as [|? ? [Hm1 Hm2] _]; subst.
    cbn [enc_fields app length tmax fold_right] in *. cbv zeta.
    assert (H256 : ftag fd < 256) by (destruct lo; cbn [asc_opt schema_ascending ascending] in Hasc; tauto).
    rewrite (HG m f (freq fd) (fdef fd) p); try assumption; try reflexivity; [now apply Hfin; left|lia].
  - inversion Hty as [|? x ? vs1' Hx Hvs]; subst. inversion Hps as [|? p ? ps' Hp Hps']; subst.
    inversion Hmem as [|? ? [Hm1 Hm2] Hmem']; subst.
    assert (H256 : ftag fd1 < 256 /\ ascending (ftag fd1) (fds1 ++ fd :: fds2)).
    { destruct lo; cbn [asc_opt schema_ascending ascending] in Hasc; tauto. }
    destruct H256 as [H256 Hasc'].
    destruct (ascending_app_mid _ _ _ _ Hasc') as (Hlt & Hfd256 & _).
    cbn [enc_fields length tmax fold_right tl] in *. fold (tmax (tneed m e) (fds1 ++ fd :: fds2)) in Hf.
    rewrite <- app_assoc in *. rewrite !app_length in Hf. cbv zeta.
    assert (Hfd1 : tfin m e (fty fd1) = true) by (apply Hfin; now left).
    pose proof (need_bound e m (fty fd1) x (ftag fd1) (freq fd1) (fdef fd1) Hfd1 Hx) as Hb.
    destruct (rt_all e k Hwf f) as (HV & _).
    assert (Hfo : follows (ftag fd1) (enc_fields e vs1' fds1 ++ bs')).
    { rewrite <- (encx_nil e vs1' fds1) by (now apply Forall2_len in Hvs).
      apply (follows_encx e fds1 vs1' _ (ftag fd1) (ftag fd1)); try assumption; [lia|now apply ascending_app_l in Hasc'|apply junks_nil|].
      destruct Hh as (ty & r & Hty' & ->). right. exists ty, (ftag fd), r. repeat split; try assumption. now right. }
    assert (H1 : dec_var f e (ftag fd1) (freq fd1) (fty fd1) p
                   (enc_var e (ftag fd1) (freq fd1) (fty fd1) (fdef fd1) x ++ enc_fields e vs1' fds1 ++ bs')
                 = DOk (norm e (fty fd1) (freq fd1) (fdef fd1) x) (enc_fields e vs1' fds1 ++ bs')).
    { apply (HV (ftag fd1) (freq fd1) (fty fd1) (fdef fd1) x p None []); try assumption; [apply junk_nil|now right|].
      unfold fuel_ok. cbn [ser_fields app]. rewrite !app_length. lia. }
    rewrite H1.
    rewrite (IH vs1' ps' (Some (ftag fd1)) m f); try assumption; try reflexivity.
    + intros fd' Hin. apply Hfin. now right.
    + rewrite !app_length. lia.
Qed.

Theorem dmg_rejected : forall tag t bs, dmg e tag t bs -> G e k tag t bs.
Proof.
  intros tag t bs Hd. induction Hd as
    [tag t bs Hs
    |tag x xs n bs' Hxs Hlen Hn Hd IH
    |tag len x xs n bs' Hxs Hlen Hn Hd IH
    |tag kt vt kvs n bs' Hkvs Hlen Hn Hd IH
    |tag kt vt kvs k0 n bs' Hkvs Hlen Hn Hk0 Hd IH
    |tag sid fds1 fd fds2 vs1 bs' Hsid Hvs Hd IH];
    intros m f req d prior Hfin Hnest Htag Hdd Hp Hf; pose proof (tneed_ge3 e m _ Hfin) as H3.
  - destruct f as [|f]; [lia|]. apply (spot_rejected e tag t bs Hs Htag). lia.
  - destruct m as [|m']; [discriminate|]. cbn [tfin tneed] in Hfin, Hf. destruct f as [|[|f]]; [lia|lia|].
    rewrite dec_var_vec, seek_first by (first [reflexivity | assumption]). change (tLIST =? tLIST) with true. cbv iota.
    rewrite read_count_len by assumption.
    destruct (Z.of_nat n <? 0)%Z; [reflexivity|]. destruct (_ <? Z.of_nat n)%Z; [reflexivity|].
    rewrite (elems_err e k Hwf x bs' IH xs m' (S f) n); try assumption; try reflexivity; [now apply (ty_nest_vec e k)|].
    rewrite !app_length in *. pose proof (head_length tLIST tag). lia.
  - destruct m as [|m']; [discriminate|]. cbn [tfin tneed] in Hfin, Hf. destruct f as [|[|f]]; [lia|lia|].
    rewrite dec_var_arr, seek_first by (first [reflexivity | assumption]). change (tLIST =? tLIST) with true. cbv iota.
    rewrite read_count_len by assumption.
    destruct ((Z.of_nat n <? 0)%Z || (Z.of_nat len <? Z.of_nat n)%Z) eqn:Ec; [reflexivity|].
    assert (d = None) by (destruct d; [specialize (Hdd ltac:(discriminate)); discriminate|reflexivity]). subst d.
    unfold prior_ok in Hp. inversion Hp as [? Hb|? ? l Hll Hz|]; subst; [discriminate|].
    pose proof (arr_err e k Hwf x bs' IH xs m' (S f) n (length l) [] l) as H1. cbn [length app] in H1.
    rewrite H1; try assumption; try reflexivity; try lia; [now apply (ty_nest_arr e k) in Hnest|].
    rewrite !app_length in *. pose proof (head_length tLIST tag). lia.
  - destruct m as [|m']; [discriminate|]. cbn [tfin tneed] in Hfin, Hf. apply andb_true_iff in Hfin. destruct Hfin as [Hfk Hfv].
    apply (ty_nest_map e k) in Hnest. destruct Hnest as [Hnk Hnv]. destruct f as [|[|f]]; [lia|lia|].
    rewrite dec_var_map. unfold skip_to. rewrite seek_first by (first [reflexivity | assumption]). change (tMAP =? tMAP) with true. cbv iota.
    rewrite read_count_len by assumption.
    destruct ((Z.of_nat n <? 0)%Z || _)%bool; [reflexivity|].
    rewrite (entries_err_key e k Hwf kt vt bs' IH kvs m' (S f) n); try assumption; try reflexivity.
    rewrite !app_length in *. pose proof (head_length tMAP tag). lia.
  - destruct m as [|m']; [discriminate|]. cbn [tfin tneed] in Hfin, Hf. apply andb_true_iff in Hfin. destruct Hfin as [Hfk Hfv].
    apply (ty_nest_map e k) in Hnest. destruct Hnest as [Hnk Hnv]. destruct f as [|[|f]]; [lia|lia|].
    rewrite dec_var_map. unfold skip_to. rewrite seek_first by (first [reflexivity | assumption]). change (tMAP =? tMAP) with true. cbv iota.
    rewrite read_count_len by assumption.
    destruct ((Z.of_nat n <? 0)%Z || _)%bool; [reflexivity|].
    rewrite (entries_err_val e k Hwf kt vt k0 bs' IH Hk0 kvs m' (S f) n); try assumption; try reflexivity.
    rewrite !app_length in *. pose proof (head_length tMAP tag). lia.
  - destruct m as [|m']; [discriminate|]. cbn [tfin tneed] in Hfin, Hf. rewrite forallb_forall in Hfin.
    destruct f as [|[|f]]; [lia|lia|].
    rewrite dec_var_struct. cbv zeta. unfold skip_to. rewrite seek_first by (first [reflexivity | assumption]).
    change (tSB =? tSB) with true. cbv iota.
    destruct (struct_priors e k f sid prior Hwf ltac:(lia)) as (ps & -> & Hps).
    pose proof (members_ok e k Hwf sid) as Hmem. pose proof (wf_asc k e Hwf sid) as Hasc. rewrite Hsid in *.
    rewrite (dfields_err fd fds2 bs' IH (dmg_headed e _ _ _ Hd) fds1 vs1 ps None m' (S f)); try assumption; try reflexivity.
    rewrite !app_length in Hf. pose proof (head_length tSB tag). rewrite !app_length. lia.
Qed.
End Damage2.

(* C06, damage at any depth: the members in front of member fd encoded normally, then a member fd damaged at any
   depth (a field of a wire type its reader does not accept, or an embedded length / count announcing more than is
   left - in the member itself, in a vector or array element, in a map key or value, in a member of a nested
   struct, recursively - everything in front of the spot encoded normally, anything behind it): rejected *)
Theorem damage_rejected e k n sid fds1 fd fds2 vs1 bs' :
  wf_schema k e -> (S k <= 64)%nat -> fields_of e sid = fds1 ++ fd :: fds2 ->
  Forall2 (fun fd x => has_type e (fty fd) x) fds1 vs1 -> dmg e (ftag fd) (fty fd) bs' ->
  tfin n e (TStruct sid) = true -> (tneed n e (TStruct sid) + k <= 64)%nat ->
  decode e sid (enc_fields e vs1 fds1 ++ bs') = DErr.
Proof.
  intros Hwf Hk Hsid Hvs Hd Hfin Hn. unfold decode, decode_into.
  set (bs := enc_fields e vs1 fds1 ++ bs').
  replace (4 * length bs + 64)%nat with (S (4 * length bs + 63)) by lia.
  destruct (struct_priors1 e k (4 * length bs + 63) sid (zero_struct e sid) Hwf ltac:(lia)) as (ps & -> & Hps).
  pose proof (members_ok e k Hwf sid) as Hmem. pose proof (wf_asc k e Hwf sid) as Hasc.
  destruct n as [|n']; [discriminate|]. cbn [tfin tneed] in Hfin, Hn. rewrite forallb_forall in Hfin.
  rewrite Hsid in *.
  assert (HD : dec_fields (S (4 * length bs + 63)) e (fds1 ++ fd :: fds2) ps bs = DErr).
  { unfold bs. apply (dfields_err e k Hwf fd fds2 bs' (dmg_rejected e k Hwf _ _ _ Hd) (dmg_headed e _ _ _ Hd) fds1 vs1 ps None n'); try assumption.
    fold bs. lia. }
  now rewrite HD.
Qed.
Print Assumptions damage_rejected.

(* non-vacuity: a struct with a vector of structs; the second element's string member is sent as a LIST (wire-type
   substitution two levels down), and - second witness - the map value of a nested struct announces a string longer
   than what is left; the theorem's hypotheses hold and the model agrees by evaluation *)
Definition d_schema : env :=
  [ [ {| ftag := 0; freq := true; fty := TI32; fdef := None |};
      {| ftag := 2; freq := true; fty := TVec (TStruct 1); fdef := None |};
      {| ftag := 3; freq := false; fty := TStr; fdef := None |} ];
    [ {| ftag := 1; freq := true; fty := TI32; fdef := None |};
      {| ftag := 4; freq := true; fty := TMap TI32 TStr; fdef := None |} ] ].
Definition d_elem0 : val := VStruct [VInt 7; VMap [(VInt 1, VStr [97])]].
Definition d_bytes1 : list N :=   (* vector of 2 structs; in the second one member 4 (a map) arrives as STRING1 *)
  head tLIST 2 ++ w_int32 2 0 ++ enc_elems d_schema (TStruct 1) [d_elem0] ++
  (head tSB 0 ++ enc_fields d_schema [VInt 9] [ {| ftag := 1; freq := true; fty := TI32; fdef := None |} ] ++
   (head tSTR1 4 ++ [1; 98; 11; 54; 1; 120])).
Definition d_bytes2 : list N :=   (* in the first struct, the map's first value announces 200 bytes *)
  head tLIST 2 ++ w_int32 1 0 ++ enc_elems d_schema (TStruct 1) [] ++
  (head tSB 0 ++ enc_fields d_schema [VInt 9] [ {| ftag := 1; freq := true; fty := TI32; fdef := None |} ] ++
   (head tMAP 4 ++ w_int32 1 0 ++ enc_entries d_schema TI32 TStr [] ++ enc_var d_schema 0 true TI32 None (VInt 5) ++
    ((head tSTR1 1 ++ [200]) ++ [97; 98; 11]))).
Example d_damaged1 : dmg d_schema 2 (TVec (TStruct 1)) d_bytes1.
Proof.
  apply (DM_vec d_schema 2 (TStruct 1) [d_elem0] 2).
  - constructor; [|constructor]. apply (has_type_b_sound d_schema 8). vm_compute. reflexivity.
  - cbn. lia.
  - cbn. lia.
  - apply (DM_struct d_schema 0 1 [ {| ftag := 1; freq := true; fty := TI32; fdef := None |} ]
             {| ftag := 4; freq := true; fty := TMap TI32 TStr; fdef := None |} [] [VInt 9]).
    + reflexivity.
    + constructor; [|constructor]. apply (has_type_b_sound d_schema 8). vm_compute. reflexivity.
    + apply DM_spot. apply (SP_mistyped d_schema 4 (TMap TI32 TStr) tSTR1); reflexivity.
Qed.
Example d_damaged2 : dmg d_schema 2 (TVec (TStruct 1)) d_bytes2.
Proof.
  apply (DM_vec d_schema 2 (TStruct 1) [] 1).
  - constructor.
  - cbn. lia.
  - cbn. lia.
  - apply (DM_struct d_schema 0 1 [ {| ftag := 1; freq := true; fty := TI32; fdef := None |} ]
             {| ftag := 4; freq := true; fty := TMap TI32 TStr; fdef := None |} [] [VInt 9]).
    + reflexivity.
    + constructor; [|constructor]. apply (has_type_b_sound d_schema 8). vm_compute. reflexivity.
    + apply (DM_map_val d_schema 4 TI32 TStr [] (VInt 5) 1).
      * constructor.
      * cbn. lia.
      * cbn. lia.
      * apply (has_type_b_sound d_schema 8). vm_compute. reflexivity.
      * apply DM_spot. apply (SP_strlen d_schema 1 false 200 [97; 98; 11]); [cbn; lia|lia].
Qed.
Example d_rejected :
  decode d_schema 0 (enc_fields d_schema [VInt 1] [ {| ftag := 0; freq := true; fty := TI32; fdef := None |} ] ++ d_bytes1) = DErr
  /\ decode d_schema 0 (enc_fields d_schema [VInt 1] [ {| ftag := 0; freq := true; fty := TI32; fdef := None |} ] ++ d_bytes2) = DErr.
Proof.
  assert (Hwf : wf_schema 2 d_schema) by (apply wf_schema_b_sound; vm_compute; reflexivity).
  split.
  - apply (damage_rejected d_schema 2 6 0 [ {| ftag := 0; freq := true; fty := TI32; fdef := None |} ]
             {| ftag := 2; freq := true; fty := TVec (TStruct 1); fdef := None |}
             [ {| ftag := 3; freq := false; fty := TStr; fdef := None |} ] [VInt 1]); try assumption; try (vm_compute; reflexivity); try lia.
    + constructor; [|constructor]. apply (has_type_b_sound d_schema 8). vm_compute. reflexivity.
    + apply d_damaged1.
    + vm_compute. lia.
  - apply (damage_rejected d_schema 2 6 0 [ {| ftag := 0; freq := true; fty := TI32; fdef := None |} ]
             {| ftag := 2; freq := true; fty := TVec (TStruct 1); fdef := None |}
             [ {| ftag := 3; freq := false; fty := TStr; fdef := None |} ] [VInt 1]); try assumption; try (vm_compute; reflexivity); try lia.
    + constructor; [|constructor]. apply (has_type_b_sound d_schema 8). vm_compute. reflexivity.
    + apply d_damaged2.
    + vm_compute. lia.
Qed.
Example d_rejected_eval :
  decode d_schema 0 (enc_fields d_schema [VInt 1] [ {| ftag := 0; freq := true; fty := TI32; fdef := None |} ] ++ d_bytes1) = DErr.
Proof. vm_compute. reflexivity. Qed.

(* ---------- the table of admissible wire types is the model's acceptance set ---------- *)
(* adm (RoundTrip.v) is written by hand; here it is characterised by the decoder model itself: for every non-struct IDL
   type shape and every one of the 16 wire type codes, a field of that wire type under the member's tag followed by
   eight zero bytes (enough for every fixed-width body; a zero length / count for strings, lists, maps, SimpleLists) is
   refused if and only if adm says the wire type is not admissible. Together with inadmissible_member (adm false =>
   refused whatever follows) the table cannot drift from the readers of the model - which are tied to the Go readers by
   the translated-code equivalences (Xlate/ReaderEquiv.v) and the correspondence. *)
Definition adm_probe (t : ty) (wt : N) : bool :=
  match dec_var 6 [] 5 true t (VInt 0) (head wt 5 ++ [0; 0; 0; 0; 0; 0; 0; 0]) with DErr => false | _ => true end.
Definition adm_types : list ty :=
  [TBool; TI8; TU8; TI16; TU16; TI32; TU32; TI64; TF32; TF64; TStr; TEnum;
   TVec TI8; TVec TU8; TVec TI32; TVec TStr; TMap TStr TI32; TArr 2 TI32].
Example adm_is_acceptance :
  forallb (fun t => forallb (fun wt => Bool.eqb (adm_probe t wt) (adm t wt && negb (wt =? tSE))) (map N.of_nat (seq 0 16))) adm_types = true.
Proof. vm_compute. reflexivity. Qed.
