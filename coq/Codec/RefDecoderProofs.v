(* The independent reference decoder maps the wire tree of every well-typed value back to the value (its normal form). *)
From Coq Require Import List NArith ZArith Lia Bool Arith.
From Coq Require Import ZifyN ZifyNat ZifyBool.
From TarsV Require Import Gen.Consts Base.Hex Codec.Wire Codec.WireProofs Codec.Skip Codec.SkipProofs Codec.Prim
  Codec.PrimProofs Codec.GenCodec Codec.Corr Codec.GenProofs Codec.RoundTrip Codec.RoundTripProofs Codec.WireSpec
  Codec.WireSpecProofs Codec.PrefixGenProofs Codec.PrefixProofs Codec.EvolveProofs.
From TarsV Require Import Codec.RefDecoder.
Import ListNotations.
Open Scope N_scope.

(* the inner loops *)
Fixpoint unwire_elems (f : nat) (e : env) (x : ty) (l : list (N * wf)) : option (list val) :=
  match l with
  | [] => Some []
  | p :: r => match unwire f e x (snd p), unwire_elems f e x r with Some v, Some vs => Some (v :: vs) | _, _ => None end
  end.
Fixpoint unwire_entries (f : nat) (e : env) (kt vt : ty) (m : list ((N * wf) * (N * wf))) : option (list (val * val)) :=
  match m with
  | [] => Some []
  | p :: r => match unwire f e kt (snd (fst p)), unwire f e vt (snd (snd p)), unwire_entries f e kt vt r with
              | Some k, Some v, Some kvs => Some ((k, v) :: kvs) | _, _, _ => None end
  end.
Fixpoint unwire_fields (f : nat) (e : env) (fds : schema) (fs : list (N * wf)) : option (list val) :=
  match fds with
  | [] => match fs with [] => Some [] | _ => None end
  | fd :: fds' =>
      match fs with
      | (tg, x) :: fs' =>
          if tg =? ftag fd then
            match unwire f e (fty fd) x, unwire_fields f e fds' fs' with Some v, Some vs => Some (v :: vs) | _, _ => None end
          else if freq fd then None
          else match unwire_fields f e fds' fs with Some vs => Some (ref_default e fd :: vs) | None => None end
      | [] => if freq fd then None
              else match unwire_fields f e fds' [] with Some vs => Some (ref_default e fd :: vs) | None => None end
      end
  end.

Lemma unwire_vec f e x l : unwire (S f) e (TVec x) (WList l) =
  match unwire_elems f e x l with Some vs => Some (list_val x vs) | None => None end.
Proof.
  cbn [unwire]. match goal with |- match ?a with _ => _ end = match ?b with _ => _ end => assert (E : a = b) end.
  { induction l as [|p r IH]; cbn [unwire_elems]; [reflexivity|]. now rewrite IH. }
  now rewrite E.
Qed.
Lemma unwire_arr f e n x l : unwire (S f) e (TArr n x) (WList l) =
  match unwire_elems f e x l with Some vs => if (length vs =? n)%nat then Some (VList vs) else None | None => None end.
Proof.
  cbn [unwire]. match goal with |- match ?a with _ => _ end = match ?b with _ => _ end => assert (E : a = b) end.
  { induction l as [|p r IH]; cbn [unwire_elems]; [reflexivity|]. now rewrite IH. }
  now rewrite E.
Qed.
Lemma unwire_map f e kt vt m : unwire (S f) e (TMap kt vt) (WMap m) =
  match unwire_entries f e kt vt m with Some kvs => Some (VMap kvs) | None => None end.
Proof.
  cbn [unwire]. match goal with |- match ?a with _ => _ end = match ?b with _ => _ end => assert (E : a = b) end.
  { induction m as [|p r IH]; cbn [unwire_entries]; [reflexivity|]. now rewrite IH. }
  now rewrite E.
Qed.
Lemma unwire_struct f e sid fs : unwire (S f) e (TStruct sid) (WStruct fs) =
  match unwire_fields f e (fields_of e sid) fs with Some vs => Some (VStruct vs) | None => None end.
Proof.
  cbn [unwire]. match goal with |- match ?a with _ => _ end = match ?b with _ => _ end => assert (E : a = b) end.
  { generalize (fields_of e sid). intros fds. revert fs. induction fds as [|fd fds IH]; intros fs; cbn [unwire_fields]; [reflexivity|].
    destruct fs as [|[tg x] fs']; rewrite ?IH; reflexivity. }
  now rewrite E.
Qed.

Lemma unint_wint z : fits 64 z = true -> unint (wint z) = Some z.
Proof.
  intros H. unfold wint. destruct (z =? 0)%Z eqn:E0; [cbn; f_equal; lia|].
  destruct (fits 8 z) eqn:F8; [cbn [unint]; now rewrite (sext_wrapu 8) by (first [widths|assumption])|].
  destruct (fits 16 z) eqn:F16; [cbn [unint]; now rewrite (sext_wrapu 16) by (first [widths|assumption])|].
  destruct (fits 32 z) eqn:F32; [cbn [unint]; now rewrite (sext_wrapu 32) by (first [widths|assumption])|].
  cbn [unint]. now rewrite (sext_wrapu 64) by (first [widths|assumption]).
Qed.

Lemma unwire_scalar f e t v : scalar_ty t = true -> sc_typed t v -> unwire (S f) e t (wire_of e t v) = Some v.
Proof.
  intros Hs Hty. destruct t; try discriminate; destruct v; cbn [sc_typed] in Hty; try contradiction; cbn [unwire wire_of];
    try (rewrite unint_wint by fits_tac; reflexivity); try reflexivity.
  - rewrite unint_wint by (destruct b; reflexivity). destruct b; reflexivity.
  - unfold wstr. destruct (_ <=? 255); reflexivity.
Qed.

Definition ref_default' (t : ty) (d : option val) : val :=
  match d with Some dv => dv | None => match t with
    | TBool => VBool false | TF32 | TF64 => VFlt 0 | TStr => VStr [] | TVec TI8 => VBytes [] | TVec _ => VList [] | TMap _ _ => VMap []
    | _ => VInt 0 end end.
Lemma ref_default_eq e fd : ref_default e fd = ref_default' (fty fd) (fdef fd).
Proof. reflexivity. Qed.
Lemma left_out_default e t req d x : has_type e t x -> (d <> None -> scalar_ty t = true) -> left_out t req d x = true ->
  norm e t req d x = ref_default' t d.
Proof.
  intros Hty Hd Hl. inversion Hty; subst.
  - rewrite left_out_scalar in Hl by assumption. rewrite norm_scalar by assumption. rewrite Hl. unfold ref_default'.
    destruct d; [reflexivity|]. destruct t; try discriminate; reflexivity.
  - assert (d = None) by (destruct d; [specialize (Hd ltac:(discriminate)); discriminate|reflexivity]). subst d.
    cbn [left_out] in Hl. apply andb_true_iff in Hl. destruct Hl as [_ Hl]. destruct s; [reflexivity|discriminate].
  - assert (d = None) by (destruct d; [specialize (Hd ltac:(discriminate)); discriminate|reflexivity]). subst d.
    cbn [left_out] in Hl. apply andb_true_iff in Hl. destruct Hl as [_ Hl]. destruct xs; [|discriminate].
    rewrite norm_vec. cbn [norm_elems ref_default']. destruct x0; try reflexivity. congruence.
  - cbn [left_out] in Hl. apply andb_true_iff in Hl. destruct Hl as [_ Hl]. destruct xs; [cbn [length] in *; lia|discriminate].
  - assert (d = None) by (destruct d; [specialize (Hd ltac:(discriminate)); discriminate|reflexivity]). subst d.
    cbn [left_out] in Hl. apply andb_true_iff in Hl. destruct Hl as [_ Hl]. destruct kvs; [|discriminate].
    rewrite norm_map. reflexivity.
  - discriminate.
Qed.

Section Ref.
Variable e : env.
Variable k : nat.
Hypothesis Hwf : wf_schema k e.

Definition R_var (n : nat) : Prop := forall t v, has_type e t v -> (need v <= n)%nat ->
  unwire n e t (wire_of e t v) = Some (norm e t true None v).
Definition R_elems (n : nat) : Prop := forall x xs, Forall (has_type e x) xs -> (need_list xs <= n)%nat ->
  unwire_elems n e x (wire_elems e x xs) = Some (norm_elems e x xs).
Definition R_entries (n : nat) : Prop := forall kt vt kvs,
  Forall (fun p => has_type e kt (fst p) /\ has_type e vt (snd p)) kvs -> (need_entries kvs <= n)%nat ->
  unwire_entries n e kt vt (wire_entries e kt vt kvs) = Some (norm_entries e kt vt kvs).
Definition R_fields (n : nat) : Prop := forall fds vs lo, Forall2 (fun fd x => has_type e (fty fd) x) fds vs ->
  asc_opt lo fds -> (forall fd, In fd fds -> fdef fd <> None -> scalar_ty (fty fd) = true) -> (need_list vs <= n)%nat ->
  unwire_fields n e fds (wire_fields e vs fds) = Some (norm_fields e vs fds).

Lemma norm_scalar_id t v : scalar_ty t = true -> sc_typed t v -> norm e t true None v = v.
Proof. intros Hs Hty. rewrite norm_scalar by assumption. unfold omit. destruct t; reflexivity. Qed.

Lemma tags_above_head lo fds vs : asc_opt lo fds -> forall fd, (match lo with Some l => ftag fd <= l | None => False end) ->
  match wire_fields e vs fds with (tg, _) :: _ => (tg =? ftag fd) = false | [] => True end.
Proof.
  intros Hasc fd Hle. pose proof (wire_fields_tags e fds vs) as Ht. destruct (wire_fields e vs fds) as [|[tg w] r]; [exact I|].
  inversion Ht as [|? ? (fd0 & Hin & E) _]; subst. cbn [fst] in E. destruct lo as [l|]; [|contradiction].
  destruct (asc_opt_all (Some l) fds Hasc fd0 Hin) as [A _]. cbn [above] in A. apply N.eqb_neq. lia.
Qed.

Lemma norm_true_d t d v : has_type e t v -> norm e t true d v = norm e t true None v.
Proof.
  intros Hty. inversion Hty; subst.
  - rewrite !norm_scalar by assumption. assert (Ho : forall d', omit t true d' v = false) by (intros; unfold omit; destruct t; reflexivity). now rewrite !Ho.
  - reflexivity.
  - now rewrite !norm_vec.
  - now rewrite !norm_arr.
  - now rewrite !norm_map.
  - now rewrite !norm_str.
Qed.

Lemma ref_all : forall n, R_var n /\ R_elems n /\ R_entries n /\ R_fields n.
Proof.
  induction n as [|n (HV & HE & HM & HF)].
  { repeat split.
    - intros t v _ Hn. pose proof (need_ge v). lia.
    - intros x xs _ Hn. pose proof (need_list_ge xs). lia.
    - intros kt vt kvs _ Hn. pose proof (need_entries_ge kvs). lia.
    - intros fds vs lo _ _ _ Hn. pose proof (need_list_ge vs). lia. }
  assert (HV' : R_var (S n)).
  { intros t v Hty Hn. inversion Hty; subst.
    - rewrite norm_scalar_id by assumption. now apply unwire_scalar.
    - reflexivity.
    - rewrite wire_of_vec, norm_vec, unwire_vec. rewrite need_VList in Hn. rewrite (HE x xs) by (try assumption; lia).
      destruct x; try reflexivity. congruence.
    - rewrite wire_of_arr, norm_arr, unwire_arr. rewrite need_VList in Hn. rewrite (HE x xs) by (try assumption; lia).
      assert (El : length (norm_elems e x xs) = length xs) by (clear; induction xs; cbn [norm_elems length]; congruence).
      rewrite El, Nat.eqb_refl. reflexivity.
    - rewrite wire_of_map, norm_map, unwire_map. rewrite need_VMap in Hn. rewrite (HM kt vt kvs) by (try assumption; lia). reflexivity.
    - rewrite wire_of_struct, norm_str, unwire_struct. rewrite need_VStruct in Hn.
      rewrite (HF (fields_of e sid) vs None); try assumption; try lia; [reflexivity|apply (wf_asc k e Hwf)|apply (wf_def k e Hwf)]. }
  split; [exact HV'|]. split; [|split].
  - intros x xs Hty. induction Hty as [|y r Hy Hr IH]; intros Hn; [reflexivity|]. cbn [wire_elems unwire_elems norm_elems need_list snd] in *.
    rewrite (HV' x y) by (try assumption; lia). rewrite IH by lia. reflexivity.
  - intros kt vt kvs Hty. induction Hty as [|[ky y] r [Hk Hy] Hr IH]; intros Hn; [reflexivity|]. cbn [fst snd] in Hk, Hy.
    cbn [wire_entries unwire_entries norm_entries need_entries fst snd] in *.
    rewrite (HV' kt ky) by (try assumption; lia). rewrite (HV' vt y) by (try assumption; lia). rewrite IH by lia. reflexivity.
  - intros fds vs lo Hty. revert lo. induction Hty as [|fd x fds vs Hx Hvs IH]; intros lo Hasc Hd Hn; [reflexivity|].
    cbn [wire_fields norm_fields need_list] in *.
    assert (H256 : ftag fd < 256 /\ asc_opt (Some (ftag fd)) fds) by (destruct lo; cbn [asc_opt schema_ascending ascending] in *; tauto).
    destruct H256 as [H256 Hasc'].
    assert (Hd' : forall fd0, In fd0 fds -> fdef fd0 <> None -> scalar_ty (fty fd0) = true) by (intros; apply Hd; [now right|assumption]).
    specialize (IH (Some (ftag fd)) Hasc' Hd' ltac:(lia)).
    destruct (left_out (fty fd) (freq fd) (fdef fd) x) eqn:El.
    + (* left out: the next wire field, if any, has a larger tag *)
      assert (Hr : freq fd = false) by (destruct (freq fd) eqn:Er; [now rewrite left_out_req in El|reflexivity]).
      rewrite (left_out_default e (fty fd) (freq fd) (fdef fd) x Hx (Hd fd (or_introl eq_refl)) El), <- (ref_default_eq e fd).
      cbn [unwire_fields]. pose proof (tags_above_head (Some (ftag fd)) fds vs Hasc' fd ltac:(cbn; lia)) as Hh.
      destruct (wire_fields e vs fds) as [|[tg w] r] eqn:Ew.
      * rewrite Hr. cbn [unwire_fields] in IH. rewrite IH. reflexivity.
      * rewrite Hh, Hr. rewrite IH. reflexivity.
    + cbn [unwire_fields]. rewrite N.eqb_refl. rewrite (HV' (fty fd) x) by (try assumption; lia). rewrite IH.
      destruct (written_req_true e (ftag fd) (fty fd) (freq fd) (fdef fd) x Hx El) as [_ En]. rewrite En. now rewrite (norm_true_d (fty fd) (fdef fd) x Hx).
Qed.

(* the reference decoder inverts the encoder's wire tree: struct level *)
Theorem ref_decodes sid vs : has_type e (TStruct sid) (VStruct vs) ->
  unwire (need (VStruct vs)) e (TStruct sid) (WStruct (wire_fields e vs (fields_of e sid))) = Some (norm_struct e sid (VStruct vs)).
Proof.
  intros Hty. destruct (ref_all (need (VStruct vs))) as (HV & _). specialize (HV (TStruct sid) (VStruct vs) Hty (le_n _)).
  rewrite wire_of_struct in HV. exact HV.
Qed.
End Ref.

(* C03, second clause as the property words it: the bytes are the serialisation of a wire tree that an independent
   schema-directed reference decoder maps back to the same value (its normal form) *)
Theorem reference_decoder e k sid vs : wf_schema k e -> has_type e (TStruct sid) (VStruct vs) ->
  let fs := wire_fields e vs (fields_of e sid) in
  encode e sid (VStruct vs) = ser_fields fs /\
  unwire (need (VStruct vs)) e (TStruct sid) (WStruct fs) = Some (norm_struct e sid (VStruct vs)).
Proof. intros Hwf Hty fs. split; [now apply encode_wire|now apply (ref_decodes e k)]. Qed.
Print Assumptions reference_decoder.
(* the reference decoder is not the identity on trees: it refuses a tree whose member sits under an undeclared tag, a
   missing required member, an integer field where a string is declared *)
Example reference_decoder_refuses :
  let e := [[ {| ftag := 0; freq := true; fty := TI32; fdef := None |}; {| ftag := 2; freq := false; fty := TStr; fdef := None |} ]] in
  unwire 5 e (TStruct 0) (WStruct [(0, WByte 5); (2, WStr1 [97])]) = Some (VStruct [VInt 5; VStr [97]]) /\
  unwire 5 e (TStruct 0) (WStruct [(0, WByte 5)]) = Some (VStruct [VInt 5; VStr []]) /\
  unwire 5 e (TStruct 0) (WStruct [(2, WStr1 [97])]) = None /\
  unwire 5 e (TStruct 0) (WStruct [(0, WByte 5); (1, WByte 1)]) = None /\
  unwire 5 e (TStruct 0) (WStruct [(0, WByte 5); (2, WByte 1)]) = None.
Proof. vm_compute. repeat split; reflexivity. Qed.
