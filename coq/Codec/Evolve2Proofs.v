(* C04: an absent optional member of ANY type at struct level. The new version of a struct type is the old one with
   optional members of any type added (fixed arrays and nested structs included); the bytes an old writer produces
   decode with the new schema to the old members' values and, for every added member, an admissible reset value of
   the member's type: the declared default, else the Go zero value (prior_ok). *)
From Coq Require Import List NArith ZArith Lia Bool Arith.
From Coq Require Import ZifyN ZifyNat ZifyBool.
From TarsV Require Import Gen.Consts Base.Hex Codec.Wire Codec.WireProofs Codec.Skip Codec.SkipProofs Codec.Prim
  Codec.PrimProofs Codec.GenCodec Codec.Corr Codec.GenProofs Codec.RoundTrip Codec.RoundTripProofs Codec.PrefixProofs
  Codec.WireSpec Codec.WireSpecProofs Codec.PrefixGenProofs.
Import ListNotations.
Open Scope N_scope.

Inductive grows : schema -> schema -> Prop :=
| GR_nil : grows [] []
| GR_same fd fn fo : grows fn fo -> grows (fd :: fn) (fd :: fo)
| GR_new fd fn fo : freq fd = false -> grows fn fo -> grows (fd :: fn) fo.

(* the decoded members: the writer's values (normal forms) at the old positions, admissible reset values at the new ones *)
Inductive merged (e : env) : schema -> schema -> list val -> list val -> Prop :=
| MG_nil : merged e [] [] [] []
| MG_same fd fn fo x vo vs : merged e fn fo vo vs ->
    merged e (fd :: fn) (fd :: fo) (x :: vo) (norm e (fty fd) (freq fd) (fdef fd) x :: vs)
| MG_new fd fn fo vo y vs : prior_ok e (fty fd) (fdef fd) y -> merged e fn fo vo vs -> merged e (fd :: fn) fo vo (y :: vs).

Lemma grows_ascending fn fo : grows fn fo -> forall p, ascending p fn -> ascending p fo.
Proof.
  induction 1 as [|fd fn fo _ IH|fd fn fo _ _ IH]; intros p H; [exact I| |].
  - cbn [ascending] in *. destruct H as (A & B & C). repeat split; try assumption. now apply IH.
  - cbn [ascending] in H. destruct H as (A & B & C). specialize (IH _ C).
    clear - IH A. revert IH A. generalize (ftag fd). intros q IH A. destruct fo as [|y fo]; [exact I|].
    cbn [ascending] in *. destruct IH as (A' & B' & C'). repeat split; try assumption. lia.
Qed.

Section Grow.
Variable e : env.
Variable k : nat.
Hypothesis Hwf : wf_schema k e.

Lemma grow_fields : forall fn fo, grows fn fo -> forall vo ps lo m f tail,
  Forall2 (fun fd x => has_type e (fty fd) x) fo vo -> Forall (member_ok e k) fn -> asc_opt lo fn ->
  Forall2 (fun fd p => prior_ok e (fty fd) (fdef fd) p) fn ps ->
  (forall fd, In fd fn -> tfin m e (fty fd) = true) -> (forall fd, In fd fn -> follows (ftag fd) tail) ->
  (length fn + tmax (tneed m e) fn + 1 + k + 4 * length (enc_fields e vo fo ++ tail) + 3 <= f)%nat ->
  exists vs, dec_fields f e fn ps (enc_fields e vo fo ++ tail) = DOk vs tail /\ merged e fn fo vo vs.
Proof.
  induction 1 as [|fd fn fo Hg IH|fd fn fo Hr Hg IH]; intros vo ps lo m f tail Hvo Hmem Hasc Hps Hfin Htail Hf.
  - inversion Hvo; subst. destruct f as [|f]; [lia|]. exists []. split; [reflexivity|constructor].
  - inversion Hvo as [|? x ? vo' Hx Hvo']; subst. inversion Hps as [|? p ? ps' Hp Hps']; subst.
    inversion Hmem as [|? ? [Hm1 Hm2] Hmem']; subst.
    assert (H256 : ftag fd < 256 /\ ascending (ftag fd) fn) by (destruct lo; cbn [asc_opt schema_ascending ascending] in Hasc; tauto).
    destruct H256 as [H256 Hasc'].
    cbn [enc_fields length tmax fold_right] in *. fold (tmax (tneed m e) fn) in Hf. rewrite <- app_assoc in *. rewrite !app_length in Hf.
    destruct f as [|f]; [lia|]. rewrite dec_fields_S. cbv zeta. cbn [tl].
    assert (Hfd : tfin m e (fty fd) = true) by (apply Hfin; now left).
    pose proof (need_bound e m (fty fd) x (ftag fd) (freq fd) (fdef fd) Hfd Hx) as Hb.
    destruct (rt_all e k Hwf f) as (HV & _).
    assert (Hfo : follows (ftag fd) (enc_fields e vo' fo ++ tail)).
    { rewrite <- (encx_nil e vo' fo) by (now apply Forall2_len in Hvo').
      apply (follows_encx e fo vo' _ (ftag fd) (ftag fd)); try assumption; [lia|now apply (grows_ascending fn fo)|apply junks_nil|].
      apply Htail. now left. }
    assert (H1 : dec_var f e (ftag fd) (freq fd) (fty fd) p (enc_var e (ftag fd) (freq fd) (fty fd) (fdef fd) x ++ enc_fields e vo' fo ++ tail)
                 = DOk (norm e (fty fd) (freq fd) (fdef fd) x) (enc_fields e vo' fo ++ tail)).
    { apply (HV (ftag fd) (freq fd) (fty fd) (fdef fd) x p None []); try assumption; [apply junk_nil|now right|].
      unfold fuel_ok. cbn [ser_fields app]. rewrite !app_length. lia. }
    rewrite H1.
    destruct (IH vo' ps' (Some (ftag fd)) m f tail Hvo' Hmem' Hasc' Hps') as (vs & -> & Hm); try assumption.
    + intros fd' Hin. apply Hfin. now right.
    + intros fd' Hin. apply Htail. now right.
    + rewrite !app_length. lia.
    + eexists. split; [reflexivity|]. now constructor.
  - inversion Hps as [|? p ? ps' Hp Hps']; subst. inversion Hmem as [|? ? [Hm1 Hm2] Hmem']; subst.
    assert (H256 : ftag fd < 256 /\ ascending (ftag fd) fn) by (destruct lo; cbn [asc_opt schema_ascending ascending] in Hasc; tauto).
    destruct H256 as [H256 Hasc'].
    cbn [length tmax fold_right] in *. fold (tmax (tneed m e) fn) in Hf.
    destruct f as [|[|[|f]]]; [lia|lia|lia|]. rewrite dec_fields_S. cbv zeta. cbn [tl]. rewrite Hr.
    assert (Hfo : follows (ftag fd) (enc_fields e vo fo ++ tail)).
    { rewrite <- (encx_nil e vo fo) by (now apply Forall2_len in Hvo).
      apply (follows_encx e fo vo _ (ftag fd) (ftag fd)); try assumption; [lia|now apply (grows_ascending fn fo)|apply junks_nil|].
      apply Htail. now left. }
    rewrite (dec_var_notfound e (S f) (ftag fd) (fty fd) p _ _ (seek_stop f (ftag fd) _ Hfo)).
    destruct (IH vo ps' (Some (ftag fd)) m (S (S f)) tail Hvo Hmem' Hasc' Hps') as (vs & -> & Hm); try assumption.
    + intros fd' Hin. apply Hfin. now right.
    + intros fd' Hin. apply Htail. now right.
    + lia.
    + eexists. split; [reflexivity|]. constructor; [|assumption].
      apply (absent_prior_ok e k (S f)); try assumption. intros sid0 Hs. split; [now apply (ty_nest_nest e k)|lia].
Qed.

(* old writer -> new reader, added optional members of any type *)
Theorem old_writer_new_reader_any n so sn vo :
  (S k <= 64)%nat -> tfin n e (TStruct sn) = true -> (tneed n e (TStruct sn) + k <= 64)%nat ->
  grows (fields_of e sn) (fields_of e so) -> has_type e (TStruct so) (VStruct vo) ->
  exists vs, decode e sn (encode e so (VStruct vo)) = DOk (VStruct vs) [] /\ merged e (fields_of e sn) (fields_of e so) vo vs.
Proof.
  intros Hk Hfin Hn Hg Hty. unfold decode, decode_into. rewrite encode_fields.
  set (bs := enc_fields e vo (fields_of e so)).
  replace (4 * length bs + 64)%nat with (S (4 * length bs + 63)) by lia.
  destruct (struct_priors1 e k (4 * length bs + 63) sn (zero_struct e sn) Hwf ltac:(lia)) as (ps & -> & Hps).
  inversion Hty as [| | | | |? ? Hvo]; subst; [discriminate|].
  destruct n as [|n']; [discriminate|]. cbn [tfin tneed] in Hfin, Hn. rewrite forallb_forall in Hfin.
  destruct (grow_fields _ _ Hg vo ps None n' (S (4 * length bs + 63)) [] Hvo (members_ok e k Hwf sn) (wf_asc k e Hwf sn) Hps Hfin) as (vs & E & Hm).
  - intros fd _. now left.
  - fold bs. rewrite app_nil_r. lia.
  - rewrite app_nil_r in E. fold bs in E. rewrite E. exists vs. split; [reflexivity|assumption].
Qed.
End Grow.
Print Assumptions old_writer_new_reader_any.

(* non-vacuity: the new version adds an optional fixed array, an optional nested struct and an optional int with a
   default; an old writer's bytes give the zero array, the reset struct and the default *)
Definition gr_schema : env :=
  [ [ {| ftag := 0; freq := true; fty := TI32; fdef := None |} ];
    [ {| ftag := 0; freq := true; fty := TI32; fdef := None |};
      {| ftag := 1; freq := false; fty := TArr 2 TI32; fdef := None |};
      {| ftag := 2; freq := false; fty := TStruct 0; fdef := None |};
      {| ftag := 3; freq := false; fty := TI32; fdef := Some (VInt 9) |} ] ].
Example gr_example :
  grows (fields_of gr_schema 1) (fields_of gr_schema 0) /\
  decode gr_schema 1 (encode gr_schema 0 (VStruct [VInt 7])) = DOk (VStruct [VInt 7; VList [VInt 0; VInt 0]; VStruct [VInt 0]; VInt 9]) [].
Proof.
  split; [|vm_compute; reflexivity].
  change (fields_of gr_schema 1) with (nth 1 gr_schema []). change (fields_of gr_schema 0) with (nth 0 gr_schema []). cbn [nth gr_schema].
  apply GR_same. apply GR_new; [reflexivity|]. apply GR_new; [reflexivity|]. apply GR_new; [reflexivity|]. apply GR_nil.
Qed.
