(* C03 struct-level round trip: typing judgement for values, the expected decode result, the fuel
   (recursion depth) a value needs, and the "fresh target" values of the generated ReadFrom. Definitions only. *)
From Coq Require Import List NArith ZArith Lia Bool Arith.
From TarsV Require Import Gen.Consts Base.Hex Codec.Wire Codec.Skip Codec.Prim Codec.GenCodec.
Import ListNotations.
Open Scope N_scope.

(* ---------- the encoder's inner loops as top-level functions ---------- *)
Fixpoint enc_elems (e : env) (x : ty) (l : list val) : list N :=
  match l with [] => [] | y :: r => enc_var e 0 true x None y ++ enc_elems e x r end.
Fixpoint enc_entries (e : env) (kt vt : ty) (l : list (val * val)) : list N :=
  match l with [] => [] | (k, x) :: r => enc_var e 0 true kt None k ++ enc_var e 1 true vt None x ++ enc_entries e kt vt r end.
Fixpoint enc_fields (e : env) (l : list val) (fds : schema) : list N :=
  match l, fds with
  | x :: l', fd :: fds' => enc_var e (ftag fd) (freq fd) (fty fd) (fdef fd) x ++ enc_fields e l' fds'
  | _, _ => []
  end.

(* ---------- typing ---------- *)
Definition scalar_ty (t : ty) : bool :=
  match t with TVec _ | TMap _ _ | TArr _ _ | TStruct _ => false | _ => true end.

Definition scalar_typed (t : ty) (v : val) : Prop :=
  match t, v with
  | TBool, VBool _ => True
  | TI8, VInt z => fits 8 z = true | TI16, VInt z => fits 16 z = true
  | TI32, VInt z => fits 32 z = true | TEnum, VInt z => fits 32 z = true | TI64, VInt z => fits 64 z = true
  | TU8, VInt z => (0 <= z < 256)%Z | TU16, VInt z => (0 <= z < 65536)%Z | TU32, VInt z => (0 <= z < 4294967296)%Z
  | TF32, VFlt b => b < 4294967296 | TF64, VFlt b => b < 18446744073709551616
  | TStr, VStr s => N.of_nat (length s) < 4294967296
  | _, _ => False
  end.

(* a value of IDL type t: integers in the Go type's range, float bit patterns of the right width, container
   sizes that an int32 count can express, fixed arrays of exactly the declared length, struct members typed
   by the schema. vector<byte> ([]int8) is the raw-bytes value; every other vector is a list. *)
Fixpoint has_type (e : env) (t : ty) (v : val) {struct v} : Prop :=
  match v with
  | VBytes s => t = TVec TI8 /\ N.of_nat (length s) < 2147483648
  | VList xs =>
      match t with
      | TVec x => x <> TI8 /\ N.of_nat (length xs) < 2147483648 /\
                  (fix all l := match l with [] => True | y :: r => has_type e x y /\ all r end) xs
      | TArr n x => length xs = n /\ N.of_nat n < 2147483648 /\
                  (fix all l := match l with [] => True | y :: r => has_type e x y /\ all r end) xs
      | _ => False
      end
  | VMap kvs =>
      match t with
      | TMap kt vt => N.of_nat (length kvs) < 2147483648 /\
                  (fix all l := match l with [] => True | (k, x) :: r => has_type e kt k /\ has_type e vt x /\ all r end) kvs
      | _ => False
      end
  | VStruct vs =>
      match t with
      | TStruct sid =>
          (fix all l (fds : schema) := match l, fds with
             | [], [] => True
             | x :: l', fd :: fds' => has_type e (fty fd) x /\ all l' fds'
             | _, _ => False end) vs (fields_of e sid)
      | _ => False
      end
  | _ => scalar_typed t v
  end.

(* ---------- what decoding the encoding of v into a fresh target yields ---------- *)
Definition zscalar (t : ty) : val :=
  match t with TBool => VBool false | TF32 | TF64 => VFlt 0 | TStr => VStr [] | _ => VInt 0 end.

(* the only members whose decoded value is not literally the written one: an optional scalar that the encoder
   omitted because it compared equal to the default comes back as the default (identical except that for
   floats -0 == +0) *)
Fixpoint ex (e : env) (t : ty) (req : bool) (d : option val) (v : val) {struct v} : val :=
  match v with
  | VList xs =>
      match t with
      | TVec x | TArr _ x => VList ((fix go l := match l with [] => [] | y :: r => ex e x true None y :: go r end) xs)
      | _ => v
      end
  | VMap kvs =>
      match t with
      | TMap kt vt => VMap ((fix go l := match l with [] => []
                               | (k, x) :: r => (ex e kt true None k, ex e vt true None x) :: go r end) kvs)
      | _ => v
      end
  | VStruct vs =>
      match t with
      | TStruct sid => VStruct ((fix go l (fds : schema) := match l, fds with
                                  | x :: l', fd :: fds' => ex e (fty fd) (freq fd) (fdef fd) x :: go l' fds'
                                  | _, _ => [] end) vs (fields_of e sid))
      | _ => v
      end
  | VBytes _ => v
  | _ => match t with
         | TEnum => v
         | _ => if negb req && scalar_is_default t d v
                then match d with Some dv => dv | None => zscalar t end else v
         end
  end.
Fixpoint ex_elems (e : env) (x : ty) (l : list val) : list val :=
  match l with [] => [] | y :: r => ex e x true None y :: ex_elems e x r end.
Fixpoint ex_entries (e : env) (kt vt : ty) (l : list (val * val)) : list (val * val) :=
  match l with [] => [] | (k, x) :: r => (ex e kt true None k, ex e vt true None x) :: ex_entries e kt vt r end.
Fixpoint ex_fields (e : env) (l : list val) (fds : schema) : list val :=
  match l, fds with
  | x :: l', fd :: fds' => ex e (fty fd) (freq fd) (fdef fd) x :: ex_fields e l' fds'
  | _, _ => []
  end.

(* ---------- recursion depth (fuel) the decoder needs for a value ---------- *)
Fixpoint need (v : val) : nat :=
  match v with
  | VList xs => 2 + (fix go l := match l with [] => 1%nat | y :: r => S (Nat.max (need y) (go r)) end) xs
  | VMap kvs => 2 + (fix go l := match l with [] => 1%nat
                       | (k, x) :: r => S (Nat.max (need k) (Nat.max (need x) (go r))) end) kvs
  | VStruct vs => 3 + (fix go l := match l with [] => 1%nat | y :: r => S (Nat.max (need y) (go r)) end) vs
  | _ => 2
  end.
Fixpoint need_list (l : list val) : nat :=
  match l with [] => 1%nat | y :: r => S (Nat.max (need y) (need_list r)) end.
Fixpoint need_entries (l : list (val * val)) : nat :=
  match l with [] => 1%nat | (k, x) :: r => S (Nat.max (need k) (Nat.max (need x) (need_entries r))) end.

(* ---------- subterm types of a schema environment ---------- *)
Fixpoint subty (a t : ty) : Prop :=
  a = t \/ match t with
           | TVec x | TArr _ x => subty a x
           | TMap k v => subty a k \/ subty a v
           | _ => False
           end.
Definition ty_in (e : env) (t : ty) : Prop :=
  exists sid fd, In fd (fields_of e sid) /\ subty t (fty fd).

(* declared defaults exist on scalar members only (the IDL allows nothing else) *)
Definition defaults_scalar (e : env) : Prop :=
  forall sid fd, In fd (fields_of e sid) -> fdef fd <> None -> scalar_ty (fty fd) = true.

(* what may follow an omitted optional member: the end of the input, or the head of a member with a larger
   tag, or a StructEnd head *)
Definition follows (tag : N) (rest : list N) : Prop :=
  rest = [] \/ exists ty tg r, ty < 16 /\ tg < 256 /\ rest = head ty tg ++ r /\ (ty = tSE \/ tag < tg).

(* strictly ascending member tags below 256 *)
Fixpoint ascending (prev : N) (fds : schema) : Prop :=
  match fds with [] => True | fd :: r => prev < ftag fd /\ ftag fd < 256 /\ ascending (ftag fd) r end.
Definition schema_ascending (fds : schema) : Prop :=
  match fds with [] => True | fd :: r => ftag fd < 256 /\ ascending (ftag fd) r end.
