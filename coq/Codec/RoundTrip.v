(* C03/C04 struct level: typing judgement for values, the expected decode result (norm), the recursion
   depth (fuel) a value needs, admissible prior targets, schema conditions, encodings with unknown fields
   interleaved. Definitions only. *)
From Coq Require Import List NArith ZArith Lia Bool Arith.
From TarsV Require Import Gen.Consts Base.Hex Codec.Wire Codec.Skip Codec.Prim Codec.GenCodec Codec.Corr.
Import ListNotations.
Open Scope N_scope.

(* ---------- the encoder's inner loops as top-level functions ---------- *)
Fixpoint enc_elems (e : env) (x : ty) (l : list val) : list N :=
  match l with [] => [] | y :: r => enc_var e 0 true x None y ++ enc_elems e x r end.
Fixpoint enc_entries (e : env) (kt vt : ty) (l : list (val * val)) : list N :=
  match l with [] => [] | (k, x) :: r => enc_var e 0 true kt None k ++ enc_var e 1 true vt None x ++ enc_entries e kt vt r end.
Fixpoint enc_fields (e : env) (l : list val) (fds : schema) : list N :=
  match l, fds with
  | x :: l', fd :: fds' => enc_var e (ftag fd) (freq fd) (fty fd) (fdef fd) x ++ enc_fields e l' fds'
  | _, _ => []
  end.

(* ---------- typing ---------- *)
Definition scalar_ty (t : ty) : bool :=
  match t with TVec _ | TMap _ _ | TArr _ _ | TStruct _ => false | _ => true end.

Definition sc_typed (t : ty) (v : val) : Prop :=
  match t, v with
  | TBool, VBool _ => True
  | TI8, VInt z => fits 8 z = true | TI16, VInt z => fits 16 z = true
  | TI32, VInt z => fits 32 z = true | TEnum, VInt z => fits 32 z = true | TI64, VInt z => fits 64 z = true
  | TU8, VInt z => (0 <= z < 256)%Z | TU16, VInt z => (0 <= z < 65536)%Z | TU32, VInt z => (0 <= z < 4294967296)%Z
  | TF32, VFlt b => b < 4294967296 | TF64, VFlt b => b < 18446744073709551616
  | TStr, VStr s => N.of_nat (length s) < 4294967296
  | _, _ => False
  end.

(* a value of IDL type t: integers in the Go type's range, float bit patterns of the right width, container
   sizes that an int32 count can express, fixed arrays of exactly the declared (positive) length, struct
   members typed by the schema. vector<byte> ([]int8) is the raw-bytes value; every other vector is a list. *)
Inductive has_type (e : env) : ty -> val -> Prop :=
| HT_scalar t v : scalar_ty t = true -> sc_typed t v -> has_type e t v
| HT_bytes s : N.of_nat (length s) < 2147483648 -> has_type e (TVec TI8) (VBytes s)
| HT_vec x xs : x <> TI8 -> N.of_nat (length xs) < 2147483648 -> Forall (has_type e x) xs ->
    has_type e (TVec x) (VList xs)
| HT_arr n x xs : length xs = n -> (0 < n)%nat -> N.of_nat n < 2147483648 -> Forall (has_type e x) xs ->
    has_type e (TArr n x) (VList xs)
| HT_map kt vt kvs : N.of_nat (length kvs) < 2147483648 ->
    Forall (fun p => has_type e kt (fst p) /\ has_type e vt (snd p)) kvs -> has_type e (TMap kt vt) (VMap kvs)
| HT_struct sid vs : Forall2 (fun fd x => has_type e (fty fd) x) (fields_of e sid) vs ->
    has_type e (TStruct sid) (VStruct vs).

(* ---------- what decoding the encoding of v into a fresh target yields ---------- *)
Definition zscalar (t : ty) : val :=
  match t with TBool => VBool false | TF32 | TF64 => VFlt 0 | TStr => VStr [] | _ => VInt 0 end.

(* the only members whose decoded value is not literally the written one: an optional scalar that the encoder
   omitted because it compared equal to the default comes back as the default (identical except that for
   floats -0 == +0) *)
Fixpoint norm (e : env) (t : ty) (req : bool) (d : option val) (v : val) {struct v} : val :=
  match v with
  | VList xs =>
      match t with
      | TVec x | TArr _ x => VList ((fix go l := match l with [] => [] | y :: r => norm e x true None y :: go r end) xs)
      | _ => v
      end
  | VMap kvs =>
      match t with
      | TMap kt vt => VMap ((fix go l := match l with [] => []
                               | (k, x) :: r => (norm e kt true None k, norm e vt true None x) :: go r end) kvs)
      | _ => v
      end
  | VStruct vs =>
      match t with
      | TStruct sid => VStruct ((fix go l (fds : schema) := match l, fds with
                                  | x :: l', fd :: fds' => norm e (fty fd) (freq fd) (fdef fd) x :: go l' fds'
                                  | _, _ => [] end) vs (fields_of e sid))
      | _ => v
      end
  | VBytes _ => v
  | _ => match t with
         | TEnum => v
         | _ => if negb req && scalar_is_default t d v
                then match d with Some dv => dv | None => zscalar t end else v
         end
  end.
Fixpoint norm_elems (e : env) (x : ty) (l : list val) : list val :=
  match l with [] => [] | y :: r => norm e x true None y :: norm_elems e x r end.
Fixpoint norm_entries (e : env) (kt vt : ty) (l : list (val * val)) : list (val * val) :=
  match l with [] => [] | (k, x) :: r => (norm e kt true None k, norm e vt true None x) :: norm_entries e kt vt r end.
Fixpoint norm_fields (e : env) (l : list val) (fds : schema) : list val :=
  match l, fds with
  | x :: l', fd :: fds' => norm e (fty fd) (freq fd) (fdef fd) x :: norm_fields e l' fds'
  | _, _ => []
  end.
Definition norm_struct (e : env) (sid : nat) (v : val) : val := norm e (TStruct sid) true None v.

(* ---------- recursion depth (fuel) the decoder needs for a value ---------- *)
Fixpoint need (v : val) : nat :=
  match v with
  | VList xs => 2 + (fix go l := match l with [] => 1%nat | y :: r => S (Nat.max (need y) (go r)) end) xs
  | VMap kvs => 2 + (fix go l := match l with [] => 1%nat
                       | (k, x) :: r => S (Nat.max (need k) (Nat.max (need x) (go r))) end) kvs
  | VStruct vs => 3 + (fix go l := match l with [] => 1%nat | y :: r => S (Nat.max (need y) (go r)) end) vs
  | _ => 3
  end.
Fixpoint need_list (l : list val) : nat :=
  match l with [] => 1%nat | y :: r => S (Nat.max (need y) (need_list r)) end.
Fixpoint need_entries (l : list (val * val)) : nat :=
  match l with [] => 1%nat | (k, x) :: r => S (Nat.max (need k) (Nat.max (need x) (need_entries r))) end.

(* ---------- by-value nesting of struct types is bounded (a Go struct cannot contain itself by value) ---------- *)
Fixpoint nest_ok (fuel : nat) (e : env) (t : ty) : bool :=
  match fuel with O => false | S f =>
  match t with
  | TArr _ x => nest_ok f e x
  | TStruct sid => forallb (fun fd => nest_ok f e (fty fd)) (fields_of e sid)
  | _ => true
  end end.
Fixpoint ty_nest (k : nat) (e : env) (t : ty) : bool :=
  nest_ok k e t &&
  match t with
  | TVec x | TArr _ x => ty_nest k e x
  | TMap a b => ty_nest k e a && ty_nest k e b
  | _ => true
  end.

(* strictly ascending member tags below 256 *)
Fixpoint ascending (prev : N) (fds : schema) : Prop :=
  match fds with [] => True | fd :: r => prev < ftag fd /\ ftag fd < 256 /\ ascending (ftag fd) r end.
Definition schema_ascending (fds : schema) : Prop :=
  match fds with [] => True | fd :: r => ftag fd < 256 /\ ascending (ftag fd) r end.

(* the schema conditions of the struct-level theorems: member tags strictly ascending and below 256 (what the
   tars2go parser guarantees by sorting and rejecting duplicates), declared defaults on scalar members only
   (all the IDL allows), by-value struct nesting of depth at most k *)
Record wf_schema (k : nat) (e : env) : Prop := {
  wf_asc : forall sid, schema_ascending (fields_of e sid);
  wf_def : forall sid fd, In fd (fields_of e sid) -> fdef fd <> None -> scalar_ty (fty fd) = true;
  wf_nest : forall sid fd, In fd (fields_of e sid) -> ty_nest k e (fty fd) = true
}.
(* the same as a boolean, for concrete environments *)
Definition wf_schema_b (k : nat) (e : env) : bool :=
  forallb (fun s => tags_ascending None s &&
                    forallb (fun fd => (match fdef fd with None => true | Some _ => scalar_ty (fty fd) end)
                                       && ty_nest k e (fty fd)) s) e.

(* ---------- admissible prior targets ---------- *)
(* what the decoder may find in the target where a member is absent: the Go zero value in every position that
   has no declared default (positions with a declared default are overwritten by ResetDefault first) *)
Inductive zlike (e : env) : ty -> val -> Prop :=
| ZL_base t : (match t with TArr _ _ | TStruct _ => false | _ => true end) = true -> zlike e t (zero_of 1 e t)
| ZL_arr n x l : length l = n -> Forall (zlike e x) l -> zlike e (TArr n x) (VList l)
| ZL_struct sid vs : Forall2 (fun fd p => fdef fd = None -> zlike e (fty fd) p) (fields_of e sid) vs ->
    zlike e (TStruct sid) (VStruct vs).
Definition prior_ok (e : env) (t : ty) (d : option val) (p : val) : Prop :=
  match d with Some dv => p = dv | None => zlike e t p end.

(* ResetDefault's member loop *)
Fixpoint reset_go (f : nat) (e : env) (fds : schema) (vs : list val) : list val :=
  match fds, vs with
  | fd :: fds', x :: vs' =>
      (match fdef fd with
       | Some d => d
       | None => match fty fd with TStruct s => reset_default f e s x | _ => x end
       end) :: reset_go f e fds' vs'
  | _, _ => vs
  end.

(* ---------- unknown fields ---------- *)
(* well-formed wire fields (any wire type, any nesting within the skip depth limit) with tags in (lo, hi) *)
Definition junk_ok (lo : option N) (hi : N) (J : list (N * wf)) : Prop :=
  Forall (fun p => fst p < 256 /\ wf_ok (snd p) /\ wdepth (snd p) <= maxd /\ fst p < hi /\
                   (match lo with Some l => l < fst p | None => True end)) J.

(* what may follow an omitted optional member: the end of the input, or a head with a larger tag, or a
   StructEnd head *)
Definition follows (tag : N) (rest : list N) : Prop :=
  rest = [] \/ exists ty tg r, ty < 16 /\ tg < 256 /\ rest = head ty tg ++ r /\ (ty = tSE \/ tag < tg).

(* the members of a struct with a group of unknown fields in front of each member *)
Fixpoint encx_fields (e : env) (l : list val) (fds : schema) (Js : list (list (N * wf))) : list N :=
  match l, fds, Js with
  | x :: l', fd :: fds', J :: Js' =>
      ser_fields J ++ enc_var e (ftag fd) (freq fd) (fty fd) (fdef fd) x ++ encx_fields e l' fds' Js'
  | _, _, _ => []
  end.
Fixpoint junks_ok (prev : option N) (fds : schema) (Js : list (list (N * wf))) : Prop :=
  match fds, Js with
  | [], [] => True
  | fd :: fds', J :: Js' => junk_ok prev (ftag fd) J /\ junks_ok (Some (ftag fd)) fds' Js'
  | _, _ => False
  end.

(* ---------- a boolean type checker (for concrete examples) ---------- *)
Definition sc_typed_b (t : ty) (v : val) : bool :=
  match t, v with
  | TBool, VBool _ => true
  | TI8, VInt z => fits 8 z | TI16, VInt z => fits 16 z
  | TI32, VInt z => fits 32 z | TEnum, VInt z => fits 32 z | TI64, VInt z => fits 64 z
  | TU8, VInt z => (0 <=? z)%Z && (z <? 256)%Z | TU16, VInt z => (0 <=? z)%Z && (z <? 65536)%Z
  | TU32, VInt z => (0 <=? z)%Z && (z <? 4294967296)%Z
  | TF32, VFlt b => b <? 4294967296 | TF64, VFlt b => b <? 18446744073709551616
  | TStr, VStr s => N.of_nat (length s) <? 4294967296
  | _, _ => false
  end.
Definition is_i8 (t : ty) : bool := match t with TI8 => true | _ => false end.
Fixpoint has_type_b (fuel : nat) (e : env) (t : ty) (v : val) : bool :=
  match fuel with O => false | S f =>
  match v with
  | VBytes s => (match t with TVec x => is_i8 x | _ => false end) && (N.of_nat (length s) <? 2147483648)
  | VList xs =>
      match t with
      | TVec x => negb (is_i8 x) && (N.of_nat (length xs) <? 2147483648) && forallb (has_type_b f e x) xs
      | TArr n x => (length xs =? n)%nat && (0 <? n)%nat && (N.of_nat n <? 2147483648) && forallb (has_type_b f e x) xs
      | _ => false
      end
  | VMap kvs =>
      match t with
      | TMap kt vt => (N.of_nat (length kvs) <? 2147483648) &&
                      forallb (fun p => has_type_b f e kt (fst p) && has_type_b f e vt (snd p)) kvs
      | _ => false
      end
  | VStruct vs =>
      match t with
      | TStruct sid =>
          (fix go (fds : schema) (l : list val) : bool :=
             match fds, l with
             | [], [] => true
             | fd :: fds', x :: l' => has_type_b f e (fty fd) x && go fds' l'
             | _, _ => false
             end) (fields_of e sid) vs
      | _ => false
      end
  | _ => scalar_ty t && sc_typed_b t v
  end end.

(* ---------- static bound on the recursion depth of values of a (non-recursive) type ---------- *)
Fixpoint tfin (fuel : nat) (e : env) (t : ty) : bool :=
  match fuel with O => false | S f =>
  match t with
  | TVec x | TArr _ x => tfin f e x
  | TMap a b => tfin f e a && tfin f e b
  | TStruct sid => forallb (fun fd => tfin f e (fty fd)) (fields_of e sid)
  | _ => true
  end end.
Definition tmax (g : ty -> nat) (fds : schema) : nat := fold_right (fun fd m => Nat.max (g (fty fd)) m) 0%nat fds.
Fixpoint tneed (fuel : nat) (e : env) (t : ty) : nat :=
  match fuel with O => 0%nat | S f =>
  match t with
  | TVec x | TArr _ x => 3 + tneed f e x
  | TMap a b => 3 + Nat.max (tneed f e a) (tneed f e b)
  | TStruct sid => 4 + length (fields_of e sid) + tmax (tneed f e) (fields_of e sid)
  | _ => 3
  end end.

(* ---------- C05: types none of whose decoders contains a known-finding site ---------- *)
(* the generated LIST branch (make([]T, n) with the wire count; also taken by vector<byte> when the writer
   sends a LIST) and the fixed-array index are the sites of the recorded findings: a type is [safe_ty] when no
   vector or array is reachable from it *)
Fixpoint safe_ty (fuel : nat) (e : env) (t : ty) : bool :=
  match fuel with O => false | S f =>
  match t with
  | TVec _ | TArr _ _ => false
  | TMap a b => safe_ty f e a && safe_ty f e b
  | TStruct sid => forallb (fun fd => safe_ty f e (fty fd)) (fields_of e sid)
  | _ => true
  end end.
Definition ok_out {A} (r : dres A) : Prop := match r with DPanic _ | DHuge => False | _ => True end.
Definition total_out {A} (r : dres A) : Prop := match r with DOk _ _ | DErr => True | _ => False end.

(* ---------- C06: the wire types a reader of IDL type t admits ---------- *)
Definition adm_int (bits : Z) (ty : N) : bool :=
  (ty =? tZERO) || (ty =? tBYTE) || ((ty =? tSHORT) && (16 <=? bits)%Z) || ((ty =? tINT) && (32 <=? bits)%Z)
  || ((ty =? tLONG) && (64 <=? bits)%Z).
Definition adm (t : ty) (ty : N) : bool :=
  match t with
  | TBool | TI8 => adm_int 8 ty
  | TU8 | TI16 => adm_int 16 ty
  | TU16 | TI32 | TEnum => adm_int 32 ty
  | TU32 | TI64 => adm_int 64 ty
  | TF32 => (ty =? tZERO) || (ty =? tFLOAT)
  | TF64 => (ty =? tZERO) || (ty =? tFLOAT) || (ty =? tDOUBLE)
  | TStr => (ty =? tSTR4) || (ty =? tSTR1)
  | TVec x => (ty =? tLIST) || ((ty =? tSIMPLE) && is_byte x)
  | TArr _ _ => ty =? tLIST
  | TMap _ _ => ty =? tMAP
  | TStruct _ => ty =? tSB
  end.
