(* Correspondence evaluators that know the domain of the theorems (C03-C06).
   C03: besides decode = ReadFrom and encode(decode bytes) = WriteTo bytes, the value decoded from the
   implementation's bytes is well typed in the sense of the round-trip theorems (has_type, decided by has_type_b),
   and the theorems' conclusion decode (encode v) = norm v is evaluated on it.
   All: the model's fuel (4*len+64) is an artifact the generated Go code does not have. For struct types that fit the
   model (finite type graph, static depth bound within the fuel constant) the fuel provably never runs out
   (Props/C05: C05_fuel_sufficient), so DFuel stays a mismatch there; for struct types outside that class (wider
   than the constant allows, or recursive) a DFuel outcome is inconclusive and is not reported as a disagreement
   between model and code - it would be a false alarm caused by adding a harmless wide IDL struct. *)
From Coq Require Import List NArith ZArith Bool Arith.
From TarsV Require Import Gen.Consts Base.Hex Codec.Wire Codec.Skip Codec.Prim Codec.GenCodec Codec.Corr Codec.RoundTrip.
Import ListNotations.
Open Scope N_scope.

Definition model_fits (e : env) (sid : nat) : bool :=
  tfin 8 e (TStruct sid) && (tneed 8 e (TStruct sid) + 8 <=? 64)%nat.
Definition fuel_excuse (e : env) (sid : nat) (r : dres val) : bool :=
  match r with DFuel => negb (model_fits e sid) | _ => false end.

Definition c03_check_t (e : env) (c : c03_case) : bool :=
  let '(sid, h, _) := c in
  fuel_excuse e sid (decode e sid (unhex h)) ||
  (c03_check e c &&
   match decode e sid (unhex h) with
   | DOk v _ =>
       has_type_b 24 e (TStruct sid) v &&
       match decode e sid (encode e sid v) with
       | DOk v' [] => val_eqb v' (norm_struct e sid v)
       | r => fuel_excuse e sid r
       end
   | _ => false
   end).
Definition gcase_check_t (e : env) (c : gcase) : bool :=
  match c with
  | GEnc x => c03_check_t e x
  | GDec (sid, h, obs) => dec_check e (sid, h, obs) || fuel_excuse e sid (decode e sid (unhex h))
  | GReuse (sid, prior, h, obs) => reuse_check e (sid, prior, h, obs) || fuel_excuse e sid (decode_into e sid prior (unhex h))
  | GHuge sid h => huge_check e sid h || fuel_excuse e sid (decode e sid (unhex h))
  | GSlice n h o => slice_check n h o
  end.

(* on struct types that fit the model the lenient evaluators are the strict ones *)
Lemma fuel_excuse_fits e sid r : model_fits e sid = true -> fuel_excuse e sid r = false.
Proof. intros H. unfold fuel_excuse. destruct r; try reflexivity. now rewrite H. Qed.
Lemma gcase_check_t_strict e c : (match c with GEnc (sid, _, _) | GDec (sid, _, _) | GReuse (sid, _, _, _) | GHuge sid _ => model_fits e sid
                                  | GSlice _ _ _ => true end) = true ->
  gcase_check_t e c = true -> gcase_check e c = true.
Proof.
  destruct c as [[[sid h] obs]|[[sid h] obs]|[[[sid prior] h] obs]|sid h|n h o]; cbn [gcase_check_t gcase_check]; intros Hf H.
  - unfold c03_check_t in H. rewrite fuel_excuse_fits in H by assumption. cbn [orb] in H. apply andb_true_iff in H. tauto.
  - rewrite fuel_excuse_fits, orb_false_r in H by assumption. exact H.
  - rewrite fuel_excuse_fits, orb_false_r in H by assumption. exact H.
  - rewrite fuel_excuse_fits, orb_false_r in H by assumption. exact H.
  - exact H.
Qed.
