(* C03 correspondence with the domain of the theorems checked on the data: besides decode = ReadFrom and
   encode(decode bytes) = WriteTo bytes, the value decoded from the implementation's bytes is well typed in the
   sense of the round-trip theorems (has_type, decided by has_type_b), and the theorem's conclusion
   decode (encode v) = norm v is evaluated on it. *)
From Coq Require Import List NArith ZArith Bool Arith.
From TarsV Require Import Gen.Consts Base.Hex Codec.Wire Codec.Skip Codec.Prim Codec.GenCodec Codec.Corr Codec.RoundTrip.
Import ListNotations.
Open Scope N_scope.

Definition val_same (a b : val) : bool := val_sim (canon a) (canon b).
Definition c03_check_t (e : env) (c : c03_case) : bool :=
  c03_check e c &&
  let '(sid, h, _) := c in
  match decode e sid (unhex h) with
  | DOk v _ =>
      has_type_b 24 e (TStruct sid) v &&
      match decode e sid (encode e sid v) with
      | DOk v' [] => val_eqb v' (norm_struct e sid v)
      | _ => false
      end
  | _ => false
  end.
Definition gcase_check_t (e : env) (c : gcase) : bool :=
  match c with GEnc x => c03_check_t e x | _ => gcase_check e c end.
