(* C05T proofs about the TUP attribute codec model (Tup.v): totality with linear bounds on arbitrary bytes,
   round trip for every attribute list, rejection of truncated and inflated encodings, and the defects of the
   pinned snapshot exhibited on the same model. *)
From Coq Require Import List NArith ZArith Lia Bool Arith.
From Coq Require Import ZifyN ZifyNat ZifyBool.
From TarsV Require Import Gen.Consts Base.Hex Codec.Wire Codec.WireProofs Codec.Skip Codec.SkipProofs Codec.Prim
  Codec.PrimProofs Codec.Tup.
Import ListNotations.
Ltac Zify.zify_post_hook ::= Z.div_mod_to_equations.
Open Scope N_scope.

(* ================= fuel sufficiency of the skipping functions on arbitrary bytes =================
   (the statements of skip_fuel / seek_fuel are those of Codec/TotalProofs.v on the codec branch; they are
   proved here again so that this file depends only on the models) *)
Lemma read_head2_len bs ty tg r two : read_head2 bs = Some (ty, tg, r, two) -> (length r < length bs)%nat.
Proof.
  unfold read_head2. destruct bs as [|b r0]; [discriminate|].
  destruct (b / 16 =? 15); [destruct r0; [discriminate|]|]; intros H; inversion H; subst; cbn [length]; lia.
Qed.
Lemma read_head_len bs ty tg r : read_head bs = Some (ty, tg, r) -> (length r < length bs)%nat.
Proof.
  unfold read_head. destruct (read_head2 bs) as [[[[a b] c] d]|] eqn:E; [|discriminate].
  intros H; inversion H; subst. eapply read_head2_len; eauto.
Qed.
Lemma drop_len n bs : (length (drop n bs) <= length bs)%nat.
Proof. unfold drop. destruct (_ <=? _); [cbn; lia|]. rewrite skipn_length. lia. Qed.
Lemma bread_len n bs v r : bread n bs = Some (v, r) -> (length r + n = length bs)%nat.
Proof. unfold bread. destruct (n <=? length bs)%nat eqn:E; [|discriminate]. intros H; inversion H. rewrite skipn_length. lia. Qed.
Lemma read_count_len_ok bs :
  match read_count bs with COk _ r => (length r < length bs)%nat | CErr r => (length r <= length bs)%nat end.
Proof.
  unfold read_count. destruct (read_head bs) as [[[ty tg] r]|] eqn:E; [|cbn; lia].
  apply read_head_len in E.
  destruct (negb (tg =? 0) || (ty =? tSE)); [lia|].
  destruct (ty =? tZERO); [lia|].
  destruct (ty =? tBYTE). { destruct r; cbn [length] in *; lia. }
  destruct (ty =? tSHORT). { destruct (bread 2 r) as [[v r']|] eqn:B; [apply bread_len in B; lia|cbn; lia]. }
  destruct (ty =? tINT). { destruct (bread 4 r) as [[v r']|] eqn:B; [apply bread_len in B; lia|cbn; lia]. }
  lia.
Qed.

Definition skip_good (bs : list N) (res : st * list N) : Prop :=
  fst res <> SFuel /\ (length (snd res) <= length bs)%nat.
Lemma skip_good_le bs bs' res : skip_good bs' res -> (length bs' <= length bs)%nat -> skip_good bs res.
Proof. intros [A B] H. split; [assumption|lia]. Qed.

Lemma skip_fuel : forall fuel,
  (forall d ty bs, (2 * length bs + 2 <= fuel)%nat -> skip_good bs (skip_field fuel d ty bs)) /\
  (forall d n bs, (2 * length bs + 1 <= fuel)%nat -> skip_good bs (skip_n fuel d n bs)) /\
  (forall d bs, (2 * length bs + 1 <= fuel)%nat -> skip_good bs (skip_to_end fuel d bs)).
Proof.
  induction fuel as [|f (IHf & IHn & IHe)]; [repeat split; intros; lia|].
  assert (Hd : forall n bs, skip_good bs (SOk, drop n bs)) by (intros; split; [discriminate|apply drop_len]).
  assert (Hsame : forall s bs, s <> SFuel -> skip_good bs (s, bs)) by (intros; split; [assumption|cbn; lia]).
  split; [|split].
  - intros d ty bs Hf. cbn [skip_field].
    destruct (ty =? tBYTE); [apply Hd|]. destruct (ty =? tSHORT); [apply Hd|].
    destruct (ty =? tINT); [apply Hd|]. destruct (ty =? tLONG); [apply Hd|].
    destruct (ty =? tFLOAT); [apply Hd|]. destruct (ty =? tDOUBLE); [apply Hd|].
    destruct (ty =? tSTR1).
    { destruct bs as [|l r]; [split; [discriminate|cbn; lia]|]. apply (skip_good_le _ r); [apply Hd|cbn; lia]. }
    destruct (ty =? tSTR4).
    { destruct (bread 4 bs) as [[l r]|] eqn:B; [|split; [discriminate|cbn; lia]].
      apply bread_len in B. apply (skip_good_le _ r); [apply Hd|lia]. }
    destruct (ty =? tMAP).
    { destruct (maxd <=? d); [apply Hsame; discriminate|]. pose proof (read_count_len_ok bs) as Hc.
      destruct (read_count bs) as [n r|r]; [|split; [discriminate|cbn; lia]].
      apply (skip_good_le _ r); [apply IHn; lia|lia]. }
    destruct (ty =? tLIST).
    { destruct (maxd <=? d); [apply Hsame; discriminate|]. pose proof (read_count_len_ok bs) as Hc.
      destruct (read_count bs) as [n r|r]; [|split; [discriminate|cbn; lia]].
      apply (skip_good_le _ r); [apply IHn; lia|lia]. }
    destruct (ty =? tSIMPLE).
    { destruct (read_head bs) as [[[t tg] r]|] eqn:E; [|split; [discriminate|cbn; lia]]. apply read_head_len in E.
      destruct (negb (t =? tBYTE)); [split; [discriminate|cbn; lia]|].
      pose proof (read_count_len_ok r) as Hc. destruct (read_count r) as [n r'|r']; [|split; [discriminate|cbn; lia]].
      split; [discriminate|]. cbn [snd]. destruct (0 <? n)%Z; [pose proof (drop_len (Z.to_N n) r')|]; lia. }
    destruct (ty =? tSB). { destruct (maxd <=? d); [apply Hsame; discriminate|]. apply IHe. lia. }
    destruct ((ty =? tSE) || (ty =? tZERO)); apply Hsame; discriminate.
  - intros d n bs Hf. cbn [skip_n]. destruct (n <=? 0)%Z; [apply Hsame; discriminate|].
    destruct (read_head bs) as [[[ty tg] r]|] eqn:E; [|split; [discriminate|cbn; lia]]. apply read_head_len in E.
    destruct (skip_field f d ty r) as [s r'] eqn:Es.
    destruct (IHf d ty r ltac:(lia)) as [_ Hl]. rewrite Es in Hl. cbn [snd] in Hl.
    apply (skip_good_le _ r'); [apply IHn; lia|lia].
  - intros d bs Hf. cbn [skip_to_end].
    destruct (read_head bs) as [[[ty tg] r]|] eqn:E; [|split; [discriminate|cbn; lia]]. apply read_head_len in E.
    destruct (skip_field f d ty r) as [s r'] eqn:Es.
    destruct (IHf d ty r ltac:(lia)) as [Hne Hl]. rewrite Es in Hne, Hl. cbn [fst snd] in Hne, Hl.
    destruct s; [|split; [discriminate|cbn [snd]; lia]|congruence].
    destruct (ty =? tSE); [split; [discriminate|cbn [snd]; lia]|].
    apply (skip_good_le _ r'); [apply IHe; lia|lia].
Qed.

Definition seek_good (req : bool) (bs : list N) (s : seek) : Prop :=
  match s with
  | SeekFuel => False
  | Found _ r => (length r < length bs)%nat
  | NotFound r => (length r <= length bs)%nat /\ req = false
  | SeekErr => True
  end.
Lemma seek_fuel : forall fuel tag req bs, (2 * length bs + 3 <= fuel)%nat -> seek_good req bs (skip_to_no_check fuel tag req bs).
Proof.
  induction fuel as [|f IH]; intros tag req bs Hf; [lia|]. cbn [skip_to_no_check].
  destruct (read_head2 bs) as [[[[ty tg] r] two]|] eqn:E.
  - apply read_head2_len in E. destruct ((ty =? tSE) || (tag <? tg)).
    + destruct req; cbn [seek_good]; [exact I|]. split; [|reflexivity]. unfold unread.
      destruct (two && (tg <? 15)); [destruct bs; cbn [tl length]; lia|lia].
    + destruct (tg =? tag); [cbn [seek_good]; lia|]. destruct (skip_field f 0 ty r) as [s r'] eqn:Es.
      destruct (skip_fuel f) as (IHf & _). destruct (IHf 0 ty r ltac:(lia)) as [Hne Hl]. rewrite Es in Hne, Hl. cbn [fst snd] in Hne, Hl.
      destruct s; [|exact I|congruence]. specialize (IH tag req r' ltac:(lia)).
      destruct (skip_to_no_check f tag req r'); cbn [seek_good] in *; try tauto; try lia.
      destruct IH. split; [lia|assumption].
  - destruct req; cbn [seek_good]; [exact I|]. split; [cbn; lia|reflexivity].
Qed.
Lemma skip_to_fuel fuel ty tag req bs : (2 * length bs + 3 <= fuel)%nat -> seek_good req bs (skip_to fuel ty tag req bs).
Proof.
  intros Hf. unfold skip_to. pose proof (seek_fuel fuel tag req bs Hf) as H.
  destruct (skip_to_no_check fuel tag req bs); try exact H. destruct (ty0 =? ty); [exact H|exact I].
Qed.
Lemma fuel_for_ok bs : (2 * length bs + 3 <= fuel_for bs)%nat.
Proof. unfold fuel_for. lia. Qed.

(* ================= Decode is total on arbitrary bytes, with linear bounds ================= *)
Definition nlen (bs : list N) : N := N.of_nat (length bs).

Lemma take_str_split l r s r' : take_str l r = Some (s, r') -> r = s ++ r' /\ len s = l.
Proof.
  unfold take_str. destruct (N.of_nat (length r) <? l) eqn:E; [discriminate|]. intros H; inversion H; subst.
  split; [symmetry; apply firstn_skipn|]. unfold len. rewrite firstn_length. lia.
Qed.
Lemma read_string_body_len ty r s r' : read_string_body ty r = Some (s, r') -> (length s + length r' <= length r)%nat.
Proof.
  unfold read_string_body. destruct (ty =? tSTR4).
  - destruct (bread 4 r) as [[l r1]|] eqn:B; [|discriminate]. apply bread_len in B.
    intros H. apply take_str_split in H. destruct H as [-> _]. rewrite app_length in B. lia.
  - destruct (ty =? tSTR1); [|discriminate]. destruct r as [|l r1]; [discriminate|].
    intros H. apply take_str_split in H. destruct H as [-> _]. cbn [length]. rewrite app_length. lia.
Qed.

(* the key read: a key that is read is paid for by at least one more byte of input than it holds *)
Lemma r_string_good req bs :
  match r_string (fuel_for bs) 0 req bs with
  | ROk k r => (length k + length r < length bs)%nat
  | RAbsent r => (length r <= length bs)%nat /\ req = false
  | RErr => True
  | RFuel => False
  end.
Proof.
  unfold r_string, with_seek. pose proof (seek_fuel (fuel_for bs) 0 req bs (fuel_for_ok bs)) as H.
  destruct (skip_to_no_check (fuel_for bs) 0 req bs) as [ty r|r| |]; cbn [seek_good] in H; try tauto.
  destruct (read_string_body ty r) as [[s r']|] eqn:E; [|exact I]. apply read_string_body_len in E. lia.
Qed.

Lemma read_bytes_split n r v r' : read_bytes n r = Some (v, r') -> r = v ++ r' /\ Z.of_nat (length v) = n.
Proof.
  unfold read_bytes. destruct ((n <? 0)%Z || (Z.of_nat (length r) <? n)%Z) eqn:E; [discriminate|].
  intros H; inversion H; subst. split; [symmetry; apply firstn_skipn|]. rewrite firstn_length. lia.
Qed.

Lemma dec_value_good vreq k r :
  match dec_value vreq k r with
  | EIns k' v r' => k' = k /\ (length v + length r' < length r)%nat
  | ESkip k' r' => k' = k /\ (length r' <= length r)%nat /\ vreq = false
  | EErr a => a = len k
  | EFuel => False
  end.
Proof.
  unfold dec_value. pose proof (seek_fuel (fuel_for r) 1 vreq r (fuel_for_ok r)) as H.
  destruct (skip_to_no_check (fuel_for r) 1 vreq r) as [ty r1|r1| |]; cbn [seek_good] in H; try tauto; try reflexivity.
  destruct (ty =? tSIMPLE); [|reflexivity].
  pose proof (skip_to_fuel (fuel_for r1) tBYTE 0 true r1 (fuel_for_ok r1)) as H2.
  destruct (skip_to (fuel_for r1) tBYTE 0 true r1) as [ty2 r2|r2| |]; cbn [seek_good] in H2; try tauto; try reflexivity.
  pose proof (read_count_len_ok r2) as H3. destruct (read_count r2) as [n r3|r3]; [|reflexivity].
  destruct (read_bytes n r3) as [[v r4]|] eqn:E; [|reflexivity].
  apply read_bytes_split in E. destruct E as [-> _]. rewrite app_length in H3. split; [reflexivity|lia].
Qed.

Lemma dec_entry_good kreq vreq bs :
  match dec_entry kreq vreq bs with
  | EIns k v r => (length k + length v + length r < length bs)%nat
  | ESkip k r => (length k + length r <= length bs)%nat /\ (kreq = true -> (length k + length r < length bs)%nat)
  | EErr a => a <= nlen bs
  | EFuel => False
  end.
Proof.
  unfold dec_entry. pose proof (r_string_good kreq bs) as H.
  destruct (r_string (fuel_for bs) 0 kreq bs) as [k r|r| |]; try tauto; [| |unfold nlen; lia].
  - pose proof (dec_value_good vreq k r) as H2. destruct (dec_value vreq k r) as [k' v r'|k' r'|a|]; try tauto.
    + destruct H2 as [-> H2]. lia.
    + destruct H2 as (-> & H2 & _). split; [lia|intros _; lia].
    + subst a. unfold len, nlen. lia.
  - destruct H as [H ->]. pose proof (dec_value_good vreq [] r) as H2.
    destruct (dec_value vreq [] r) as [k' v r'|k' r'|a|]; try tauto.
    + destruct H2 as [-> H2]. cbn [length]. lia.
    + destruct H2 as (-> & H2 & _). cbn [length]. split; [lia|discriminate].
    + subst a. unfold len, nlen. cbn [length]. lia.
Qed.

(* the loop of the repaired decoder (key required): every iteration that does not fail consumes input *)
Lemma dec_loop_good vreq : forall fuel n bs, (length bs < fuel)%nat ->
  let o := dec_loop true vreq fuel n bs in
  t_stat o <> TSFuel /\ t_iter o <= nlen bs + 1 /\ t_alloc o <= nlen bs /\ (length (t_rest o) <= length bs)%nat.
Proof.
  induction fuel as [|f IH]; intros n bs Hf; [lia|]. cbn [dec_loop].
  destruct (n <=? 0)%Z. { cbn. repeat split; try discriminate; unfold nlen; lia. }
  pose proof (dec_entry_good true vreq bs) as H.
  destruct (dec_entry true vreq bs) as [k v r|k r|a|]; try tauto.
  - specialize (IH (n - 1)%Z r ltac:(lia)). cbv zeta in IH. destruct IH as (A & B & C & D).
    cbn [t_stat t_iter t_alloc t_rest]. unfold nlen, len in *. repeat split; [assumption|lia|lia|lia].
  - destruct H as [_ H]. specialize (H eq_refl). specialize (IH (n - 1)%Z r ltac:(lia)). cbv zeta in IH. destruct IH as (A & B & C & D).
    cbn [t_stat t_iter t_alloc t_rest]. unfold nlen, len in *. repeat split; [assumption|lia|lia|lia].
  - cbn [t_stat t_iter t_alloc t_rest]. unfold nlen in *. repeat split; [discriminate|lia|lia|cbn; lia].
Qed.

(* C05 for the TUP decoder: on ANY bytes the (repaired) decoder terminates with a value or an error (the model's
   linear fuel never runs out); the number of loop iterations and the bytes allocated for keys and buffers are
   bounded by the input length, and the reader only moves forward. *)
Theorem tup_decode_total bs :
  let o := tup_decode bs in
  t_stat o <> TSFuel /\ t_iter o <= nlen bs /\ t_alloc o <= nlen bs /\ (length (t_rest o) <= length bs)%nat.
Proof.
  unfold tup_decode, tup_decode_gen.
  pose proof (skip_to_fuel (fuel_for bs) tMAP 0 true bs (fuel_for_ok bs)) as H.
  assert (Herr : t_stat t_err <> TSFuel /\ t_iter t_err <= nlen bs /\ t_alloc t_err <= nlen bs /\ (length (t_rest t_err) <= length bs)%nat)
    by (cbn; repeat split; try discriminate; unfold nlen; lia).
  assert (Hgo : forall r, (length r <= length bs)%nat ->
     let o := match read_count r with CErr _ => t_err | COk n r1 => dec_loop true true (S (length r1)) n r1 end in
     t_stat o <> TSFuel /\ t_iter o <= nlen bs /\ t_alloc o <= nlen bs /\ (length (t_rest o) <= length bs)%nat).
  { intros r Hr. pose proof (read_count_len_ok r) as Hc. destruct (read_count r) as [n r1|r1]; [|exact Herr].
    pose proof (dec_loop_good true (S (length r1)) n r1 ltac:(lia)) as Hl. cbv zeta in *. destruct Hl as (A & B & C & D).
    unfold nlen in *. repeat split; [assumption|lia|lia|lia]. }
  destruct (skip_to (fuel_for bs) tMAP 0 true bs) as [ty r|r| |]; cbn [seek_good] in H; try tauto.
  - apply Hgo. lia.
  - apply Hgo. lia.
Qed.
Print Assumptions tup_decode_total.

(* ================= round trip: Decode (Encode m) = m ================= *)
Lemma wrap32_small z : (0 <= z < 2 ^ 31)%Z -> wrap32 z = z.
Proof.
  intros H. unfold wrap32. change (2 ^ 32)%Z with 4294967296%Z. change (2 ^ 31)%Z with 2147483648%Z in *.
  rewrite Z.mod_small by lia. destruct (z <? 2147483648)%Z eqn:E; lia.
Qed.
Lemma wrapu_small bits z : (0 <= z < 2 ^ bits)%Z -> wrapu bits z = Z.to_N z.
Proof. intros H. unfold wrapu. now rewrite Z.mod_small by lia. Qed.

(* WriteInt32 of a non-negative count is the narrowest count field *)
Lemma w_int32_w_len n : n < 2 ^ 31 -> w_int32 (Z.of_N n) 0 = w_len n.
Proof.
  intros Hn. change (2 ^ 31) with 2147483648 in Hn. unfold w_int32, w_int16, w_int8, w_len.
  destruct (n =? 0) eqn:E0.
  - assert (n = 0) as -> by lia. reflexivity.
  - destruct (n <? 128) eqn:E1.
    + destruct ((-32768 <=? Z.of_N n) && (Z.of_N n <=? 32767))%Z eqn:A; [|lia].
      destruct ((-128 <=? Z.of_N n) && (Z.of_N n <=? 127))%Z eqn:B; [|lia].
      destruct (Z.of_N n =? 0)%Z eqn:C; [lia|]. rewrite wrapu_small by (cbn; lia). now rewrite N2Z.id.
    + destruct (n <? 32768) eqn:E2.
      * destruct ((-32768 <=? Z.of_N n) && (Z.of_N n <=? 32767))%Z eqn:A; [|lia].
        destruct ((-128 <=? Z.of_N n) && (Z.of_N n <=? 127))%Z eqn:B; [lia|].
        rewrite wrapu_small by (cbn; lia). now rewrite N2Z.id.
      * destruct ((-32768 <=? Z.of_N n) && (Z.of_N n <=? 32767))%Z eqn:A; [lia|].
        rewrite wrapu_small by (cbn; lia). now rewrite N2Z.id.
Qed.
Lemma count_field n : N.of_nat n < 2147483648 ->
  w_int32 (wrap32 (Z.of_nat n)) 0 = w_len (N.of_nat n).
Proof.
  intros H. rewrite wrap32_small by (change (2 ^ 31)%Z with 2147483648%Z; lia).
  rewrite <- (w_int32_w_len (N.of_nat n)) by (change (2 ^ 31) with 2147483648; lia). f_equal. lia.
Qed.
Lemma read_count_field n rest : N.of_nat n < 2147483648 ->
  read_count (w_int32 (wrap32 (Z.of_nat n)) 0 ++ rest) = COk (Z.of_nat n) rest.
Proof.
  intros H. rewrite count_field by assumption. rewrite read_count_w_len by (change (2 ^ 31) with 2147483648; lia).
  f_equal. lia.
Qed.

Lemma read_bytes_app v rest : read_bytes (Z.of_nat (length v)) (v ++ rest) = Some (v, rest).
Proof.
  unfold read_bytes. rewrite app_length.
  destruct ((Z.of_nat (length v) <? 0)%Z || (Z.of_nat (length v + length rest) <? Z.of_nat (length v))%Z) eqn:E; [lia|].
  rewrite Nat2Z.id, firstn_app, skipn_app, Nat.sub_diag, firstn_all, skipn_all. cbn. now rewrite app_nil_r.
Qed.

Definition entry_ok (kv : list N * list N) : Prop := len (fst kv) < 4294967296 /\ len (snd kv) < 2147483648.
Definition attrs_ok (m : attrs) : Prop := N.of_nat (length m) < 2147483648 /\ Forall entry_ok m.

Lemma fuel_for_S bs : fuel_for bs = S (2 * length bs + 3).
Proof. unfold fuel_for. lia. Qed.

Lemma dec_entry_enc kreq vreq k v rest : entry_ok (k, v) ->
  dec_entry kreq vreq (enc_entry (k, v) ++ rest) = EIns k v rest.
Proof.
  intros [Hk Hv]. cbn [fst snd] in Hk, Hv. unfold dec_entry, enc_entry. cbn [fst snd].
  rewrite fuel_for_S. rewrite <- app_assoc. rewrite roundtrip_string by (unfold len in Hk; first [reflexivity | assumption]).
  unfold dec_value. rewrite fuel_for_S. rewrite <- app_assoc.
  rewrite seek_first by reflexivity. change (tSIMPLE =? tSIMPLE) with true. cbv iota.
  unfold skip_to. rewrite fuel_for_S. rewrite <- app_assoc. rewrite seek_first by reflexivity.
  change (tBYTE =? tBYTE) with true. cbv iota.
  rewrite <- app_assoc. rewrite read_count_field by assumption. now rewrite read_bytes_app.
Qed.

Lemma enc_entry_nonempty kv : (1 <= length (enc_entry kv))%nat.
Proof.
  unfold enc_entry, w_string. cbv zeta. destruct (255 <? _); repeat rewrite app_length; pose proof (head_length tSTR4 0); pose proof (head_length tSTR1 0); lia.
Qed.
Lemma entries_length m : (length m <= length (flat_map enc_entry m))%nat.
Proof.
  induction m as [|kv m IH]; [cbn; lia|]. cbn [flat_map length]. rewrite app_length. pose proof (enc_entry_nonempty kv). lia.
Qed.

Fixpoint alloc_of (m : attrs) : N := match m with [] => 0 | (k, v) :: r => len k + len v + alloc_of r end.

Lemma dec_loop_entries kreq vreq rest : forall m fuel extra, Forall entry_ok m -> (length m <= fuel)%nat -> (0 <= extra)%Z ->
  (extra = 0%Z \/ (length m < fuel)%nat) ->
  dec_loop kreq vreq fuel (Z.of_nat (length m) + extra)%Z (flat_map enc_entry m ++ rest) =
  let o := dec_loop kreq vreq (fuel - length m) extra rest in
  mk_tout (t_stat o) (m ++ t_ins o) (t_rest o) (N.of_nat (length m) + t_iter o) (alloc_of m + t_alloc o).
Proof.
  induction m as [|[k v] m IH]; intros fuel extra Hok Hf He Hx.
  - cbn [length flat_map app Z.of_nat alloc_of]. rewrite Nat.sub_0_r, Z.add_0_l. cbv zeta.
    destruct (dec_loop kreq vreq fuel extra rest); cbn. f_equal; lia.
  - destruct fuel as [|f]; [cbn in Hf; lia|]. cbn [dec_loop].
    destruct (Z.of_nat (length ((k, v) :: m)) + extra <=? 0)%Z eqn:E; [cbn [length] in E; lia|].
    cbn [flat_map]. rewrite <- app_assoc. inversion Hok; subst. rewrite dec_entry_enc by assumption.
    replace (Z.of_nat (length ((k, v) :: m)) + extra - 1)%Z with (Z.of_nat (length m) + extra)%Z by (cbn [length]; lia).
    rewrite IH by (try assumption; cbn [length] in *; lia). cbv zeta. cbn [length Nat.sub].
    cbn [t_stat t_ins t_rest t_iter t_alloc alloc_of app]. f_equal; lia.
Qed.

(* C03 for the TUP codec: for EVERY attribute list (any keys, any buffers, any order, below the format's length
   limits) Decode reads back from Encode's bytes exactly the entries, in order, and stops exactly at their end;
   the iterations and the allocation are those of the entries. *)
Theorem tup_roundtrip m rest : attrs_ok m ->
  tup_decode (tup_encode m ++ rest) = mk_tout TSOk m rest (N.of_nat (length m)) (alloc_of m).
Proof.
  intros [Hl Hok]. unfold tup_decode, tup_decode_gen, tup_encode, skip_to.
  rewrite fuel_for_S. rewrite <- app_assoc. rewrite seek_first by reflexivity.
  change (tMAP =? tMAP) with true. cbv iota.
  rewrite <- app_assoc. rewrite read_count_field by assumption.
  pose proof (dec_loop_entries true true rest m (S (length (flat_map enc_entry m ++ rest))) 0%Z Hok) as H.
  rewrite Z.add_0_r in H. rewrite H; [|rewrite app_length; pose proof (entries_length m); lia|lia|left; reflexivity].
  cbv zeta. destruct (S _ - length m)%nat; cbn; rewrite app_nil_r; f_equal; lia.
Qed.
Print Assumptions tup_roundtrip.

(* the attribute set after decoding into an empty set is the encoded map (Go map semantics: one binding per
   key, the last one), and GetBuffer finds exactly the encoded bindings *)
Corollary tup_roundtrip_map m : attrs_ok m ->
  decoded_into [] (tup_decode (tup_encode m)) = dedupe m /\
  forall k, get (t_ins (tup_decode (tup_encode m))) k = get m k.
Proof.
  intros H. pose proof (tup_roundtrip m [] H) as E. rewrite app_nil_r in E. rewrite E. split; reflexivity.
Qed.

Example tup_roundtrip_ex :
  attrs_ok [([97], [1; 2; 3]); ([], []); ([255; 0], repeat 7 300)] /\
  t_ins (tup_decode (tup_encode [([97], [1; 2; 3]); ([], []); ([255; 0], repeat 7 300)])) =
    [([97], [1; 2; 3]); ([], []); ([255; 0], repeat 7 300)].
Proof. split; [split; [cbn; lia|repeat constructor; cbn; lia]|vm_compute; reflexivity]. Qed.

(* ================= inflated counts and lengths are rejected (C06) ================= *)
Lemma dec_entry_nil vreq : dec_entry true vreq [] = EErr 0.
Proof. reflexivity. Qed.

(* a map count larger than the number of entries that follow: error after exactly the entries present *)
Theorem tup_inflated_count m (extra : nat) : Forall entry_ok m -> (0 < extra)%nat -> N.of_nat (length m + extra) < 2147483648 ->
  let o := tup_decode (head tMAP 0 ++ w_int32 (wrap32 (Z.of_nat (length m + extra))) 0 ++ flat_map enc_entry m) in
  t_stat o = TSErr /\ t_ins o = m.
Proof.
  intros Hok Hx Hl. unfold tup_decode, tup_decode_gen, skip_to.
  rewrite fuel_for_S. rewrite seek_first by reflexivity. change (tMAP =? tMAP) with true. cbv iota.
  rewrite read_count_field by assumption.
  pose proof (dec_loop_entries true true [] m (S (length (flat_map enc_entry m))) (Z.of_nat extra) Hok) as H.
  rewrite app_nil_r in H. rewrite Nat2Z.inj_add. rewrite H; [|pose proof (entries_length m); lia|lia|right; pose proof (entries_length m); lia].
  cbv zeta. destruct (S (length (flat_map enc_entry m)) - length m)%nat as [|f] eqn:E; [pose proof (entries_length m); lia|].
  cbn [dec_loop]. destruct (Z.of_nat extra <=? 0)%Z eqn:E2; [lia|]. rewrite dec_entry_nil.
  cbn [t_stat t_ins]. split; [reflexivity|apply app_nil_r].
Qed.

(* a buffer length larger than the bytes that remain (an entry anywhere: [tail] is whatever follows its bytes):
   error, and only the complete entries before it have been added *)
Theorem tup_inflated_buffer m k v tail (cnt announced : nat) : Forall entry_ok m -> len k < 4294967296 ->
  (length m < cnt)%nat -> N.of_nat cnt < 2147483648 ->
  (length v + length tail < announced)%nat -> N.of_nat announced < 2147483648 ->
  let o := tup_decode (head tMAP 0 ++ w_int32 (wrap32 (Z.of_nat cnt)) 0 ++ flat_map enc_entry m ++
                       w_string k 0 ++ head tSIMPLE 1 ++ head tBYTE 0 ++ w_int32 (wrap32 (Z.of_nat announced)) 0 ++ v ++ tail) in
  t_stat o = TSErr /\ t_ins o = m.
Proof.
  intros Hok Hk Hc Hl Hx Hv. unfold tup_decode, tup_decode_gen, skip_to.
  rewrite fuel_for_S. rewrite seek_first by reflexivity. change (tMAP =? tMAP) with true. cbv iota.
  rewrite read_count_field by assumption.
  set (last := w_string k 0 ++ _).
  pose proof (dec_loop_entries true true last m (S (length (flat_map enc_entry m ++ last))) (Z.of_nat (cnt - length m)) Hok) as H.
  replace (Z.of_nat cnt) with (Z.of_nat (length m) + Z.of_nat (cnt - length m))%Z by lia.
  rewrite H; [|rewrite app_length; pose proof (entries_length m); lia|lia|right; rewrite app_length; pose proof (entries_length m); lia].
  cbv zeta. destruct (S (length (flat_map enc_entry m ++ last)) - length m)%nat as [|f] eqn:E;
    [rewrite app_length in E; pose proof (entries_length m); lia|].
  cbn [dec_loop]. destruct (Z.of_nat (cnt - length m) <=? 0)%Z eqn:E0; [lia|].
  assert (Hd : dec_entry true true last = EErr (len k)).
  { subst last. unfold dec_entry. rewrite fuel_for_S. rewrite roundtrip_string by (unfold len in Hk; first [reflexivity | assumption]).
    unfold dec_value. rewrite fuel_for_S. rewrite seek_first by reflexivity. change (tSIMPLE =? tSIMPLE) with true. cbv iota.
    unfold skip_to. rewrite fuel_for_S. rewrite seek_first by reflexivity. change (tBYTE =? tBYTE) with true. cbv iota.
    rewrite read_count_field by assumption. unfold read_bytes. rewrite app_length.
    destruct ((Z.of_nat announced <? 0)%Z || (Z.of_nat (length v + length tail) <? Z.of_nat announced)%Z) eqn:E3; [reflexivity|lia]. }
  rewrite Hd. cbn [t_stat t_ins]. split; [reflexivity|apply app_nil_r].
Qed.
Print Assumptions tup_inflated_count.
Print Assumptions tup_inflated_buffer.

(* ================= the defects of the pinned snapshot, on the same model ================= *)
(* key optional (before b18cffe): at the end of the input every iteration is a no-op, so the loop runs as often as
   the count says - for every count; the steps are not bounded by the input *)
Lemma pinned_loop_spins : forall k : nat,
  dec_loop false false k (Z.of_nat k) [] = mk_tout TSOk [] [] (N.of_nat k) 0.
Proof.
  induction k as [|k IH]; [reflexivity|]. cbn [dec_loop].
  destruct (Z.of_nat (S k) <=? 0)%Z eqn:E; [lia|].
  change (dec_entry false false []) with (ESkip [] []). cbv iota.
  replace (Z.of_nat (S k) - 1)%Z with (Z.of_nat k) by lia. rewrite IH.
  cbv zeta. cbn [t_stat t_ins t_rest t_iter t_alloc]. unfold len. cbn [length]. f_equal; lia.
Qed.

Theorem pinned_decode_spins (n : nat) : N.of_nat n < 2147483648 ->
  let bs := head tMAP 0 ++ w_int32 (wrap32 (Z.of_nat n)) 0 in
  (length bs <= 6)%nat /\ tup_decode_pinned bs = mk_tout TSOk [] [] (N.of_nat n) 0.
Proof.
  intros Hn. split.
  - rewrite count_field by assumption. unfold w_len. cbn [head N.ltb N.compare app length].
    destruct (_ =? 0); [cbn; lia|]. destruct (_ <? 128); [cbn; lia|]. destruct (_ <? 32768); cbn; lia.
  - unfold tup_decode_pinned, tup_decode_gen, skip_to. rewrite fuel_for_S.
    rewrite <- (app_nil_r (w_int32 _ 0)). rewrite seek_first by reflexivity. change (tMAP =? tMAP) with true. cbv iota.
    rewrite read_count_field by assumption. rewrite Nat2Z.id. apply pinned_loop_spins.
Qed.
(* the totality-with-linear-steps statement is false of the pinned decoder: 6 bytes, 1 000 000 iterations, no error *)
Example pinned_total_refuted :
  exists bs, let o := tup_decode_pinned bs in nlen bs = 6 /\ t_stat o = TSOk /\ t_iter o = 1000000.
Proof. exists [8; 2; 0; 15; 66; 64]. vm_compute. repeat split. Qed.
(* the repaired decoder on the same input *)
Example repaired_rejects_count_bomb : t_stat (tup_decode [8; 2; 127; 255; 255; 255]) = TSErr /\ t_iter (tup_decode [8; 2; 127; 255; 255; 255]) = 1.
Proof. vm_compute. split; reflexivity. Qed.

(* value optional (before 5664fef): an encoding cut right after the last key decodes "successfully" to a set
   without that entry *)
Example value_optional_accepts_truncated :
  let full := tup_encode [([97], [120])] in
  let cut := firstn 6 full in
  (length cut < length full)%nat /\ t_stat (tup_decode_b18cffe cut) = TSOk /\ t_ins (tup_decode_b18cffe cut) = [] /\
  t_stat (tup_decode cut) = TSErr.
Proof. vm_compute. repeat split; lia. Qed.

(* ================= every proper prefix of an encoding is rejected (C06) ================= *)
Definition pprefix (p l : list N) : Prop := exists s, s <> [] /\ l = p ++ s.

Lemma pprefix_app a : forall b p, pprefix p (a ++ b) -> pprefix p a \/ (exists q, p = a ++ q /\ pprefix q b).
Proof.
  induction a as [|x a IH]; intros b p [s [Hs E]].
  - right. exists p. split; [reflexivity|]. exists s. split; assumption.
  - destruct p as [|y p].
    + left. exists (x :: a). split; [discriminate|reflexivity].
    + cbn [app] in E. inversion E; subst y. destruct (IH b p) as [[s' [Hs' E']]|[q [-> Hq]]].
      * exists s. split; assumption.
      * left. exists s'. split; [assumption|]. cbn [app]. now rewrite E'.
      * right. exists q. split; [reflexivity|assumption].
Qed.
Lemma pprefix_single x p : pprefix p [x] -> p = [].
Proof.
  intros [s [Hs E]]. destruct p as [|y p]; [reflexivity|]. cbn [app] in E. inversion E.
  destruct p; [destruct s; [congruence|discriminate]|discriminate].
Qed.
Lemma pprefix_nil p : ~ pprefix p [].
Proof. intros [s [Hs E]]. destruct p; destruct s; try discriminate. congruence. Qed.
Lemma pprefix_length p l : pprefix p l -> (length p < length l)%nat.
Proof. intros [s [Hs ->]]. rewrite app_length. destruct s; [congruence|cbn; lia]. Qed.

Lemma read_count_nil : read_count [] = CErr [].
Proof. reflexivity. Qed.

(* a count field cut short *)
Lemma read_count_prefix n p : n < 2147483648 -> pprefix p (w_len n) -> exists r, read_count p = CErr r.
Proof.
  intros Hn Hp. unfold w_len in Hp.
  assert (Hcut : forall ty k body, (ty = tBYTE /\ k = 1%nat) \/ (ty = tSHORT /\ k = 2%nat) \/ (ty = tINT /\ k = 4%nat) ->
            length body = k -> pprefix p (head ty 0 ++ body) -> exists r, read_count p = CErr r).
  { intros ty k body Hty Hb Hpp. apply pprefix_app in Hpp. destruct Hpp as [Hpp|[q [-> Hq]]].
    - apply pprefix_single in Hpp. subst p. eexists. reflexivity.
    - apply pprefix_length in Hq. unfold read_count.
      destruct Hty as [[-> ->]|[[-> ->]|[-> ->]]]; rewrite read_head_head by (first [reflexivity | lia]).
      + destruct q; [eexists; reflexivity|cbn [length] in *; lia].
      + change (negb (0 =? 0) || (tSHORT =? tSE)) with false. change (tSHORT =? tZERO) with false. change (tSHORT =? tBYTE) with false.
        change (tSHORT =? tSHORT) with true. cbv iota. rewrite bread_short by lia. eexists. reflexivity.
      + change (negb (0 =? 0) || (tINT =? tSE)) with false. change (tINT =? tZERO) with false. change (tINT =? tBYTE) with false.
        change (tINT =? tSHORT) with false. change (tINT =? tINT) with true. cbv iota. rewrite bread_short by lia. eexists. reflexivity. }
  destruct (n =? 0).
  - apply pprefix_single in Hp. subst p. eexists. reflexivity.
  - destruct (n <? 128); [apply (Hcut tBYTE 1%nat [n]); auto|].
    destruct (n <? 32768); [apply (Hcut tSHORT 2%nat (be 2 n)); auto using be_length|].
    apply (Hcut tINT 4%nat (be 4 n)); auto using be_length.
Qed.

Lemma take_str_short l r : N.of_nat (length r) < l -> take_str l r = None.
Proof. intros H. unfold take_str. destruct (N.of_nat (length r) <? l) eqn:E; [reflexivity|lia]. Qed.

(* a key cut short *)
Lemma r_string_prefix k p f : len k < 4294967296 -> pprefix p (w_string k 0) -> r_string (S f) 0 true p = RErr.
Proof.
  intros Hk Hp. unfold len in Hk. unfold w_string in Hp. cbv zeta in Hp. unfold r_string, with_seek.
  destruct (255 <? N.of_nat (length k)) eqn:E.
  - apply pprefix_app in Hp. destruct Hp as [Hp|[q [-> Hq]]].
    + apply pprefix_single in Hp. subst p. reflexivity.
    + rewrite seek_first by reflexivity. unfold read_string_body. change (tSTR4 =? tSTR4) with true. cbv iota.
      rewrite N.mod_small in Hq by assumption. apply pprefix_app in Hq. destruct Hq as [Hq|[k' [-> Hk']]].
      * apply pprefix_length in Hq. rewrite be_length in Hq. now rewrite bread_short by lia.
      * rewrite bread_be by (cbn; lia). apply pprefix_length in Hk'. now rewrite take_str_short by lia.
  - apply pprefix_app in Hp. destruct Hp as [Hp|[q [-> Hq]]].
    + apply pprefix_single in Hp. subst p. reflexivity.
    + rewrite seek_first by reflexivity. unfold read_string_body. change (tSTR1 =? tSTR4) with false. change (tSTR1 =? tSTR1) with true. cbv iota.
      apply (pprefix_app [_]) in Hq. destruct Hq as [Hq|[k' [-> Hk']]].
      * apply pprefix_single in Hq. subst q. reflexivity.
      * cbn [app]. apply pprefix_length in Hk'. now rewrite take_str_short by lia.
Qed.

(* an entry cut short anywhere: the iteration fails *)
Lemma dec_entry_prefix k v p : entry_ok (k, v) -> pprefix p (enc_entry (k, v)) -> exists a, dec_entry true true p = EErr a.
Proof.
  intros [Hk Hv] Hp. cbn [fst snd] in Hk, Hv. unfold enc_entry in Hp. cbn [fst snd] in Hp. unfold dec_entry.
  apply pprefix_app in Hp. destruct Hp as [Hp|[q1 [-> Hq1]]].
  { rewrite fuel_for_S. rewrite (r_string_prefix k) by assumption. eexists. reflexivity. }
  rewrite fuel_for_S. rewrite roundtrip_string by (unfold len in Hk; first [reflexivity | assumption]).
  unfold dec_value. apply pprefix_app in Hq1. destruct Hq1 as [Hq1|[q2 [-> Hq2]]].
  { apply pprefix_single in Hq1. subst q1. eexists. reflexivity. }
  rewrite fuel_for_S. rewrite seek_first by reflexivity. change (tSIMPLE =? tSIMPLE) with true. cbv iota.
  unfold skip_to. apply pprefix_app in Hq2. destruct Hq2 as [Hq2|[q3 [-> Hq3]]].
  { apply pprefix_single in Hq2. subst q2. eexists. reflexivity. }
  rewrite fuel_for_S. rewrite seek_first by reflexivity. change (tBYTE =? tBYTE) with true. cbv iota.
  rewrite count_field in Hq3 by assumption. apply pprefix_app in Hq3. destruct Hq3 as [Hq3|[v' [-> Hv']]].
  { destruct (read_count_prefix _ _ Hv Hq3) as [r ->]. eexists. reflexivity. }
  rewrite <- count_field by assumption. rewrite read_count_field by assumption.
  apply pprefix_length in Hv'. unfold read_bytes.
  destruct ((Z.of_nat (length v) <? 0)%Z || (Z.of_nat (length v') <? Z.of_nat (length v))%Z) eqn:E; [eexists; reflexivity|lia].
Qed.

Lemma dec_loop_prefix : forall m fuel n p, Forall entry_ok m -> pprefix p (flat_map enc_entry m) ->
  (Z.of_nat (length m) <= n)%Z -> (length p < fuel)%nat ->
  let o := dec_loop true true fuel n p in t_stat o = TSErr /\ exists m2, m = t_ins o ++ m2.
Proof.
  induction m as [|[k v] m IH]; intros fuel n p Hok Hp Hn Hf.
  - cbn in Hp. now apply pprefix_nil in Hp.
  - destruct fuel as [|f]; [lia|]. cbn [dec_loop]. destruct (n <=? 0)%Z eqn:E; [cbn [length] in Hn; lia|].
    inversion Hok; subst. cbn [flat_map] in Hp. apply pprefix_app in Hp. destruct Hp as [Hp|[q [-> Hq]]].
    + destruct (dec_entry_prefix k v p H1 Hp) as [a ->]. cbn [t_stat t_ins]. split; [reflexivity|]. eexists. reflexivity.
    + rewrite dec_entry_enc by assumption. rewrite app_length in Hf. pose proof (enc_entry_nonempty (k, v)).
      specialize (IH f (n - 1)%Z q H2 Hq ltac:(cbn [length] in Hn; lia) ltac:(lia)). cbv zeta in IH. destruct IH as [A [m2 B]].
      cbn [t_stat t_ins]. split; [assumption|]. exists m2. cbn [app]. now rewrite <- B.
Qed.

(* C06 for the TUP decoder: EVERY proper prefix of the encoding of EVERY attribute list is rejected with an error,
   and the entries added before the error are a prefix of the encoded entries - nothing is made up *)
Theorem tup_truncated_rejected m p : attrs_ok m -> pprefix p (tup_encode m) ->
  let o := tup_decode p in t_stat o = TSErr /\ exists m2, m = t_ins o ++ m2.
Proof.
  intros [Hl Hok] Hp. unfold tup_encode in Hp. unfold tup_decode, tup_decode_gen.
  apply pprefix_app in Hp. destruct Hp as [Hp|[q [-> Hq]]].
  { apply pprefix_single in Hp. subst p. cbn. split; [reflexivity|]. exists m. reflexivity. }
  unfold skip_to. rewrite fuel_for_S. rewrite seek_first by reflexivity. change (tMAP =? tMAP) with true. cbv iota.
  rewrite count_field in Hq by assumption. apply pprefix_app in Hq. destruct Hq as [Hq|[q' [-> Hq']]].
  { destruct (read_count_prefix _ _ Hl Hq) as [r ->]. cbn. split; [reflexivity|]. exists m. reflexivity. }
  rewrite <- count_field by assumption. rewrite read_count_field by assumption.
  apply dec_loop_prefix; try assumption; lia.
Qed.
Print Assumptions tup_truncated_rejected.

(* ================= nothing is made up, on arbitrary bytes (C06) =================
   Every key and every buffer the decoder adds to the set is a contiguous piece of the input, the buffer after the
   key: no zero padding, no partial strings, whatever the bytes are. *)
Definition suffix (r bs : list N) : Prop := exists a, bs = a ++ r.
Lemma suffix_refl bs : suffix bs bs. Proof. exists []. reflexivity. Qed.
Lemma suffix_trans a b c : suffix a b -> suffix b c -> suffix a c.
Proof. intros [x ->] [y ->]. exists (y ++ x). now rewrite app_assoc. Qed.
Lemma suffix_cons x bs : suffix bs (x :: bs). Proof. exists [x]. reflexivity. Qed.
Lemma suffix_nil bs : suffix [] bs. Proof. exists bs. now rewrite app_nil_r. Qed.
Lemma suffix_skipn n bs : suffix (skipn n bs) bs.
Proof. exists (firstn n bs). symmetry. apply firstn_skipn. Qed.
Lemma suffix_tl bs : suffix (tl bs) bs.
Proof. destruct bs; [apply suffix_refl|apply suffix_cons]. Qed.
Lemma suffix_drop n bs : suffix (drop n bs) bs.
Proof. unfold drop. destruct (_ <=? _); [apply suffix_nil|apply suffix_skipn]. Qed.
Lemma suffix_read_head2 bs ty tg r two : read_head2 bs = Some (ty, tg, r, two) -> suffix r bs.
Proof.
  unfold read_head2. destruct bs as [|b r0]; [discriminate|].
  destruct (b / 16 =? 15); [destruct r0; [discriminate|]|]; intros H; inversion H; subst.
  - eapply suffix_trans; [apply suffix_cons|apply suffix_cons].
  - apply suffix_cons.
Qed.
Lemma suffix_read_head bs ty tg r : read_head bs = Some (ty, tg, r) -> suffix r bs.
Proof.
  unfold read_head. destruct (read_head2 bs) as [[[[a b] c] d]|] eqn:E; [|discriminate].
  intros H; inversion H; subst. eapply suffix_read_head2; eauto.
Qed.
Lemma suffix_bread n bs v r : bread n bs = Some (v, r) -> suffix r bs.
Proof. unfold bread. destruct (n <=? length bs)%nat; [|discriminate]. intros H; inversion H. apply suffix_skipn. Qed.
Lemma suffix_read_count bs : match read_count bs with COk _ r => suffix r bs | CErr r => suffix r bs end.
Proof.
  unfold read_count. destruct (read_head bs) as [[[ty tg] r]|] eqn:E; [|apply suffix_nil].
  apply suffix_read_head in E.
  destruct (negb (tg =? 0) || (ty =? tSE)); [assumption|].
  destruct (ty =? tZERO); [assumption|].
  destruct (ty =? tBYTE). { destruct r; [apply suffix_nil|]. eapply suffix_trans; [apply suffix_cons|eassumption]. }
  destruct (ty =? tSHORT). { destruct (bread 2 r) as [[v r']|] eqn:B; [apply suffix_bread in B; eapply suffix_trans; eassumption|apply suffix_nil]. }
  destruct (ty =? tINT). { destruct (bread 4 r) as [[v r']|] eqn:B; [apply suffix_bread in B; eapply suffix_trans; eassumption|apply suffix_nil]. }
  assumption.
Qed.

Lemma skip_suffix : forall fuel,
  (forall d ty bs, suffix (snd (skip_field fuel d ty bs)) bs) /\
  (forall d n bs, suffix (snd (skip_n fuel d n bs)) bs) /\
  (forall d bs, suffix (snd (skip_to_end fuel d bs)) bs).
Proof.
  induction fuel as [|f (IHf & IHn & IHe)]; [repeat split; intros; apply suffix_refl|].
  split; [|split].
  - intros d ty bs. cbn [skip_field].
    destruct (ty =? tBYTE); [apply suffix_drop|]. destruct (ty =? tSHORT); [apply suffix_drop|].
    destruct (ty =? tINT); [apply suffix_drop|]. destruct (ty =? tLONG); [apply suffix_drop|].
    destruct (ty =? tFLOAT); [apply suffix_drop|]. destruct (ty =? tDOUBLE); [apply suffix_drop|].
    destruct (ty =? tSTR1).
    { destruct bs as [|l r]; [apply suffix_nil|]. cbn [snd]. eapply suffix_trans; [apply suffix_drop|apply suffix_cons]. }
    destruct (ty =? tSTR4).
    { destruct (bread 4 bs) as [[l r]|] eqn:B; [|apply suffix_nil]. apply suffix_bread in B. cbn [snd].
      eapply suffix_trans; [apply suffix_drop|eassumption]. }
    destruct (ty =? tMAP).
    { destruct (maxd <=? d); [apply suffix_refl|]. pose proof (suffix_read_count bs) as Hc.
      destruct (read_count bs) as [n r|r]; [|exact Hc]. eapply suffix_trans; [apply IHn|exact Hc]. }
    destruct (ty =? tLIST).
    { destruct (maxd <=? d); [apply suffix_refl|]. pose proof (suffix_read_count bs) as Hc.
      destruct (read_count bs) as [n r|r]; [|exact Hc]. eapply suffix_trans; [apply IHn|exact Hc]. }
    destruct (ty =? tSIMPLE).
    { destruct (read_head bs) as [[[t tg] r]|] eqn:E; [|apply suffix_nil]. apply suffix_read_head in E.
      destruct (negb (t =? tBYTE)); [exact E|].
      pose proof (suffix_read_count r) as Hc. destruct (read_count r) as [n r'|r']; [|eapply suffix_trans; eassumption].
      cbn [snd]. destruct (0 <? n)%Z; [eapply suffix_trans; [apply suffix_drop|]|]; eapply suffix_trans; eassumption. }
    destruct (ty =? tSB). { destruct (maxd <=? d); [apply suffix_refl|]. apply IHe. }
    destruct ((ty =? tSE) || (ty =? tZERO)); apply suffix_refl.
  - intros d n bs. cbn [skip_n]. destruct (n <=? 0)%Z; [apply suffix_refl|].
    destruct (read_head bs) as [[[ty tg] r]|] eqn:E; [|apply suffix_nil]. apply suffix_read_head in E.
    pose proof (IHf d ty r) as H1. destruct (skip_field f d ty r) as [s r'] eqn:Es. cbn [snd] in H1.
    eapply suffix_trans; [apply IHn|]. eapply suffix_trans; eassumption.
  - intros d bs. cbn [skip_to_end].
    destruct (read_head bs) as [[[ty tg] r]|] eqn:E; [|apply suffix_nil]. apply suffix_read_head in E.
    pose proof (IHf d ty r) as H1. destruct (skip_field f d ty r) as [s r'] eqn:Es. cbn [snd] in H1.
    destruct s; [|cbn [snd]; eapply suffix_trans; eassumption|cbn [snd]; eapply suffix_trans; eassumption].
    destruct (ty =? tSE); [cbn [snd]; eapply suffix_trans; eassumption|].
    eapply suffix_trans; [apply IHe|]. eapply suffix_trans; eassumption.
Qed.

Lemma seek_suffix : forall fuel tag req bs,
  match skip_to_no_check fuel tag req bs with Found _ r => suffix r bs | NotFound r => suffix r bs | _ => True end.
Proof.
  induction fuel as [|f IH]; intros tag req bs; [exact I|]. cbn [skip_to_no_check].
  destruct (read_head2 bs) as [[[[ty tg] r] two]|] eqn:E.
  - apply suffix_read_head2 in E. destruct ((ty =? tSE) || (tag <? tg)).
    + destruct req; [exact I|]. unfold unread. destruct (two && (tg <? 15)); [apply suffix_tl|apply suffix_refl].
    + destruct (tg =? tag); [exact E|]. destruct (skip_suffix f) as (Hf & _). pose proof (Hf 0 ty r) as H1.
      destruct (skip_field f 0 ty r) as [s r'] eqn:Es. cbn [snd] in H1. destruct s; try exact I.
      specialize (IH tag req r'). destruct (skip_to_no_check f tag req r'); try exact I; eapply suffix_trans; try eassumption; eapply suffix_trans; eassumption.
  - destruct req; [exact I|apply suffix_nil].
Qed.
Lemma skip_to_suffix fuel ty tag req bs :
  match skip_to fuel ty tag req bs with Found _ r => suffix r bs | NotFound r => suffix r bs | _ => True end.
Proof.
  unfold skip_to. pose proof (seek_suffix fuel tag req bs) as H.
  destruct (skip_to_no_check fuel tag req bs); try exact H. destruct (ty0 =? ty); [exact H|exact I].
Qed.

(* the value [x] lies in [bs] and is followed by [r] *)
Definition piece (x r bs : list N) : Prop := exists a, bs = a ++ x ++ r.
Lemma piece_suffix x r bs bs' : piece x r bs -> suffix bs bs' -> piece x r bs'.
Proof. intros [a ->] [b ->]. exists (b ++ a). now rewrite <- app_assoc. Qed.

Lemma r_string_piece f req bs k r : r_string f 0 req bs = ROk k r -> piece k r bs.
Proof.
  unfold r_string, with_seek. pose proof (seek_suffix f 0 req bs) as H.
  destruct (skip_to_no_check f 0 req bs) as [ty r0|r0| |]; try discriminate.
  destruct (read_string_body ty r0) as [[s r']|] eqn:E; [|discriminate]. intros X; inversion X; subst.
  apply (piece_suffix _ _ r0); [|exact H]. unfold read_string_body in E. destruct (ty =? tSTR4).
  - destruct (bread 4 r0) as [[l r1]|] eqn:B; [|discriminate]. apply suffix_bread in B.
    apply take_str_split in E. destruct E as [-> _]. apply (piece_suffix _ _ (k ++ r)); [exists []; reflexivity|exact B].
  - destruct (ty =? tSTR1); [|discriminate]. destruct r0 as [|l r1]; [discriminate|].
    apply take_str_split in E. destruct E as [-> _]. exists [l]. reflexivity.
Qed.

Lemma dec_value_piece vreq k r k' v r' : dec_value vreq k r = EIns k' v r' -> k' = k /\ piece v r' r.
Proof.
  unfold dec_value. pose proof (seek_suffix (fuel_for r) 1 vreq r) as H.
  destruct (skip_to_no_check (fuel_for r) 1 vreq r) as [ty r1|r1| |]; try discriminate.
  destruct (ty =? tSIMPLE); [|discriminate].
  pose proof (skip_to_suffix (fuel_for r1) tBYTE 0 true r1) as H2.
  destruct (skip_to (fuel_for r1) tBYTE 0 true r1) as [ty2 r2|r2| |]; try discriminate.
  pose proof (suffix_read_count r2) as H3. destruct (read_count r2) as [n r3|r3]; [|discriminate].
  destruct (read_bytes n r3) as [[v0 r4]|] eqn:E; [|discriminate]. intros X; inversion X; subst.
  split; [reflexivity|]. apply read_bytes_split in E. destruct E as [-> _].
  apply (piece_suffix _ _ (v ++ r')); [exists []; reflexivity|].
  eapply suffix_trans; [exact H3|]. eapply suffix_trans; eassumption.
Qed.

Lemma dec_entry_piece kreq vreq bs k v r : dec_entry kreq vreq bs = EIns k v r ->
  exists mid, piece k mid bs /\ piece v r mid /\ suffix r bs.
Proof.
  unfold dec_entry. destruct (r_string (fuel_for bs) 0 kreq bs) as [k0 r0|r0| |] eqn:E; try discriminate.
  - apply r_string_piece in E. intros H. apply dec_value_piece in H. destruct H as [-> Hv].
    exists r0. split; [exact E|split; [exact Hv|]]. destruct E as [a ->]. destruct Hv as [b ->].
    exists (a ++ k0 ++ b ++ v). now rewrite <- !app_assoc.
  - intros H. apply dec_value_piece in H. destruct H as [-> Hv].
    assert (Hs : suffix r0 bs).
    { unfold r_string, with_seek in E. pose proof (seek_suffix (fuel_for bs) 0 kreq bs) as Hk.
      destruct (skip_to_no_check (fuel_for bs) 0 kreq bs) as [ty x|x| |]; try discriminate.
      - destruct (read_string_body ty x) as [[? ?]|]; discriminate.
      - inversion E; subst. exact Hk. }
    exists r0. split; [destruct Hs as [a ->]; exists a; reflexivity|split; [exact Hv|]].
    destruct Hv as [b ->]. eapply suffix_trans; [|exact Hs]. exists (b ++ v). now rewrite <- app_assoc.
Qed.

Definition lies_in (kv : list N * list N) (bs : list N) : Prop :=
  exists a b c, bs = a ++ fst kv ++ b ++ snd kv ++ c.

Lemma dec_loop_pieces kreq vreq : forall fuel n bs kv, In kv (t_ins (dec_loop kreq vreq fuel n bs)) -> lies_in kv bs.
Proof.
  induction fuel as [|f IH]; intros n bs kv; cbn [dec_loop]; destruct (n <=? 0)%Z; try (cbn; tauto).
  destruct (dec_entry kreq vreq bs) as [k v r|k r|a|] eqn:E; cbn [t_ins]; try (cbn; tauto).
  - apply dec_entry_piece in E. destruct E as (mid & [a Ha] & [b Hb] & Hs). intros [<-|Hin].
    + exists a, b, r. cbn [fst snd]. now rewrite Ha, Hb.
    + apply IH in Hin. destruct Hin as (x & y & z & ->). destruct Hs as [w ->].
      exists (w ++ x), y, z. now rewrite <- app_assoc.
  - intros Hin. apply IH in Hin. destruct Hin as (x & y & z & Hr).
    assert (Hs : suffix r bs).
    { unfold dec_entry in E. pose proof (seek_suffix (fuel_for bs) 0 kreq bs) as Hk.
      unfold r_string, with_seek in E.
      destruct (skip_to_no_check (fuel_for bs) 0 kreq bs) as [ty x0|x0| |]; try discriminate.
      - destruct (read_string_body ty x0) as [[s r']|] eqn:Eb; [|discriminate].
        assert (suffix r' x0).
        { unfold read_string_body in Eb. destruct (ty =? tSTR4).
          - destruct (bread 4 x0) as [[l r1]|] eqn:B; [|discriminate]. apply suffix_bread in B. apply take_str_split in Eb.
            destruct Eb as [-> _]. eapply suffix_trans; [|exact B]. exists s. reflexivity.
          - destruct (ty =? tSTR1); [|discriminate]. destruct x0 as [|l r1]; [discriminate|]. apply take_str_split in Eb.
            destruct Eb as [-> _]. exists (l :: s). reflexivity. }
        unfold dec_value in E. pose proof (seek_suffix (fuel_for r') 1 vreq r') as Hv.
        destruct (skip_to_no_check (fuel_for r') 1 vreq r') as [ty1 y1|y1| |]; try discriminate.
        + destruct (ty1 =? tSIMPLE); [|discriminate]. destruct (skip_to (fuel_for y1) tBYTE 0 true y1); try discriminate.
          destruct (read_count rest); [|discriminate]. destruct (read_bytes z0 rest0) as [[? ?]|]; discriminate.
        + inversion E; subst. eapply suffix_trans; [exact Hv|]. eapply suffix_trans; eassumption.
      - unfold dec_value in E. pose proof (seek_suffix (fuel_for x0) 1 vreq x0) as Hv.
        destruct (skip_to_no_check (fuel_for x0) 1 vreq x0) as [ty1 y1|y1| |]; try discriminate.
        + destruct (ty1 =? tSIMPLE); [|discriminate]. destruct (skip_to (fuel_for y1) tBYTE 0 true y1); try discriminate.
          destruct (read_count rest); [|discriminate]. destruct (read_bytes z0 rest0) as [[? ?]|]; discriminate.
        + inversion E; subst. eapply suffix_trans; eassumption. }
    destruct Hs as [w ->]. exists (w ++ x), y, z. rewrite Hr. now rewrite <- app_assoc.
Qed.

Theorem tup_nothing_made_up bs kv : In kv (t_ins (tup_decode bs)) -> lies_in kv bs.
Proof.
  unfold tup_decode, tup_decode_gen. pose proof (skip_to_suffix (fuel_for bs) tMAP 0 true bs) as H.
  assert (Hgo : forall r, suffix r bs ->
     In kv (t_ins (match read_count r with CErr _ => t_err | COk n r1 => dec_loop true true (S (length r1)) n r1 end)) -> lies_in kv bs).
  { intros r Hr. pose proof (suffix_read_count r) as Hc. destruct (read_count r) as [n r1|r1]; [|cbn; tauto].
    intros Hin. apply dec_loop_pieces in Hin. destruct Hin as (x & y & z & E).
    destruct (suffix_trans _ _ _ Hc Hr) as [w ->]. exists (w ++ x), y, z. rewrite E. now rewrite <- app_assoc. }
  destruct (skip_to (fuel_for bs) tMAP 0 true bs) as [ty r|r| |]; try (cbn; tauto); apply Hgo; exact H.
Qed.
Print Assumptions tup_nothing_made_up.


(* ================= mistyped fields are rejected, not reinterpreted (C06, second clause) ================= *)
(* the attribute map itself: any other wire type at tag 0 *)
Theorem tup_mistyped_map ty rest : ty < 16 -> ty <> tMAP -> t_stat (tup_decode (head ty 0 ++ rest)) = TSErr.
Proof.
  intros Hty Hne. unfold tup_decode, tup_decode_gen, skip_to. rewrite fuel_for_S.
  destruct (ty =? tSE) eqn:Ese.
  - assert (ty = tSE) as -> by lia. cbn [skip_to_no_check]. rewrite read_head2_head by (first [reflexivity | lia]). reflexivity.
  - rewrite seek_first by (first [assumption | reflexivity]). destruct (ty =? tMAP) eqn:E; [lia|reflexivity].
Qed.
(* the key of an entry: anything but a string at tag 0 *)
Lemma dec_entry_mistyped_key ty rest : ty < 16 -> ty <> tSTR1 -> ty <> tSTR4 -> dec_entry true true (head ty 0 ++ rest) = EErr 0.
Proof.
  intros Hty H1 H4. unfold dec_entry, r_string, with_seek. rewrite fuel_for_S.
  destruct (ty =? tSE) eqn:Ese.
  - assert (ty = tSE) as -> by lia. cbn [skip_to_no_check]. rewrite read_head2_head by (first [reflexivity | lia]). reflexivity.
  - rewrite seek_first by (first [assumption | reflexivity]). unfold read_string_body.
    destruct (ty =? tSTR4) eqn:E4; [lia|]. destruct (ty =? tSTR1) eqn:E1; [lia|reflexivity].
Qed.
(* the value of an entry: anything but a SimpleList at tag 1 *)
Lemma dec_value_mistyped k ty rest : ty < 16 -> ty <> tSIMPLE -> dec_value true k (head ty 1 ++ rest) = EErr (len k).
Proof.
  intros Hty Hne. unfold dec_value. rewrite fuel_for_S.
  destruct (ty =? tSE) eqn:Ese.
  - assert (ty = tSE) as -> by lia. cbn [skip_to_no_check]. rewrite read_head2_head by (first [reflexivity | lia]). reflexivity.
  - rewrite seek_first by (first [assumption | reflexivity]). destruct (ty =? tSIMPLE) eqn:E; [lia|reflexivity].
Qed.
(* the element head of the SimpleList: anything but BYTE at tag 0 *)
Lemma dec_value_mistyped_elem k ty rest : ty < 16 -> ty <> tBYTE ->
  dec_value true k (head tSIMPLE 1 ++ head ty 0 ++ rest) = EErr (len k).
Proof.
  intros Hty Hne. unfold dec_value. rewrite fuel_for_S. rewrite seek_first by reflexivity.
  change (tSIMPLE =? tSIMPLE) with true. cbv iota. unfold skip_to. rewrite fuel_for_S.
  destruct (ty =? tSE) eqn:Ese.
  - assert (ty = tSE) as -> by lia. cbn [skip_to_no_check]. rewrite read_head2_head by (first [reflexivity | lia]). reflexivity.
  - rewrite seek_first by (first [assumption | reflexivity]). destruct (ty =? tBYTE) eqn:E; [lia|reflexivity].
Qed.

(* after any complete entries, a mistyped key / value / element head makes Decode fail with exactly those entries *)
Theorem tup_mistyped_entry m bad (cnt : nat) : Forall entry_ok m -> (length m < cnt)%nat -> N.of_nat cnt < 2147483648 ->
  (exists a, dec_entry true true bad = EErr a) ->
  let o := tup_decode (head tMAP 0 ++ w_int32 (wrap32 (Z.of_nat cnt)) 0 ++ flat_map enc_entry m ++ bad) in
  t_stat o = TSErr /\ t_ins o = m.
Proof.
  intros Hok Hc Hl [a Hbad]. unfold tup_decode, tup_decode_gen, skip_to.
  rewrite fuel_for_S. rewrite seek_first by reflexivity. change (tMAP =? tMAP) with true. cbv iota.
  rewrite read_count_field by assumption.
  pose proof (dec_loop_entries true true bad m (S (length (flat_map enc_entry m ++ bad))) (Z.of_nat (cnt - length m)) Hok) as H.
  replace (Z.of_nat cnt) with (Z.of_nat (length m) + Z.of_nat (cnt - length m))%Z by lia.
  rewrite H; [|rewrite app_length; pose proof (entries_length m); lia|lia|right; rewrite app_length; pose proof (entries_length m); lia].
  cbv zeta. destruct (S (length (flat_map enc_entry m ++ bad)) - length m)%nat as [|f] eqn:E;
    [rewrite app_length in E; pose proof (entries_length m); lia|].
  cbn [dec_loop]. destruct (Z.of_nat (cnt - length m) <=? 0)%Z eqn:E0; [lia|].
  rewrite Hbad. cbn [t_stat t_ins]. split; [reflexivity|apply app_nil_r].
Qed.
Lemma dec_entry_after_key k q a : len k < 4294967296 -> dec_value true k q = EErr a -> dec_entry true true (w_string k 0 ++ q) = EErr a.
Proof.
  intros Hk H. unfold dec_entry. rewrite fuel_for_S. rewrite roundtrip_string by (unfold len in Hk; first [reflexivity | assumption]). exact H.
Qed.
Theorem tup_mistyped m k ty rest (cnt : nat) : Forall entry_ok m -> (length m < cnt)%nat -> N.of_nat cnt < 2147483648 ->
  len k < 4294967296 -> ty < 16 ->
  let dec tail := tup_decode (head tMAP 0 ++ w_int32 (wrap32 (Z.of_nat cnt)) 0 ++ flat_map enc_entry m ++ tail) in
  (ty <> tSTR1 -> ty <> tSTR4 -> t_stat (dec (head ty 0 ++ rest)) = TSErr /\ t_ins (dec (head ty 0 ++ rest)) = m) /\
  (ty <> tSIMPLE -> t_stat (dec (w_string k 0 ++ head ty 1 ++ rest)) = TSErr /\ t_ins (dec (w_string k 0 ++ head ty 1 ++ rest)) = m) /\
  (ty <> tBYTE -> t_stat (dec (w_string k 0 ++ head tSIMPLE 1 ++ head ty 0 ++ rest)) = TSErr /\
                  t_ins (dec (w_string k 0 ++ head tSIMPLE 1 ++ head ty 0 ++ rest)) = m).
Proof.
  intros Hok Hc Hl Hk Hty. cbv zeta. repeat split; intros.
  all: try (apply (tup_mistyped_entry m _ cnt Hok Hc Hl); eexists;
            first [ apply dec_entry_mistyped_key; assumption
                  | apply dec_entry_after_key; [assumption|apply dec_value_mistyped; assumption]
                  | apply dec_entry_after_key; [assumption|apply dec_value_mistyped_elem; assumption] ]).
Qed.
Print Assumptions tup_mistyped_map.
Print Assumptions tup_mistyped.

(* concrete instances of the hypotheses of the theorems above *)
Definition ex_m : attrs := [([97], [1; 2; 3]); ([], []); ([255; 0], repeat 7 300)].
Example ex_m_ok : attrs_ok ex_m.
Proof. split; [cbn; lia|repeat constructor; cbn; lia]. Qed.
Example tup_truncated_ex :
  pprefix (firstn 20 (tup_encode ex_m)) (tup_encode ex_m) /\
  t_stat (tup_decode (firstn 20 (tup_encode ex_m))) = TSErr /\ t_ins (tup_decode (firstn 20 (tup_encode ex_m))) = [([97], [1; 2; 3]); ([], [])].
Proof.
  split; [exists (skipn 20 (tup_encode ex_m)); split; [vm_compute; discriminate|symmetry; apply firstn_skipn]|].
  vm_compute. split; reflexivity.
Qed.
Example tup_inflated_count_ex :
  t_stat (tup_decode (head tMAP 0 ++ w_int32 (wrap32 (Z.of_nat (length ex_m + 2))) 0 ++ flat_map enc_entry ex_m)) = TSErr.
Proof. vm_compute. reflexivity. Qed.
Example tup_mistyped_ex :
  t_stat (tup_decode (head tMAP 0 ++ w_int32 1 0 ++ w_string [97] 0 ++ head tLIST 1 ++ [0; 1; 0; 120])) = TSErr /\
  t_stat (tup_decode (head tLIST 0 ++ w_int32 1 0 ++ enc_entry ([97], [120]))) = TSErr.
Proof. vm_compute. split; reflexivity. Qed.
Example tup_nothing_made_up_ex :   (* an input that is no encoder's output: tag-0 junk between key and value, trailing bytes *)
  t_ins (tup_decode [8; 0; 1; 6; 1; 97; 0; 7; 12; 29; 0; 0; 2; 120; 121; 99]) = [([97], [120; 121])].
Proof. vm_compute. reflexivity. Qed.

(* ================= the attribute map is mandatory (fa80196) ================= *)
(* Decode succeeds only on an input whose first field is a MAP at tag 0 *)
Theorem tup_strict_map bs : t_stat (tup_decode bs) = TSOk -> exists r two, read_head2 bs = Some (tMAP, 0, r, two).
Proof.
  unfold tup_decode, tup_decode_gen, skip_to. rewrite fuel_for_S. cbn [skip_to_no_check].
  destruct (read_head2 bs) as [[[[ty tg] r] two]|] eqn:E; [|cbn; discriminate].
  destruct ((ty =? tSE) || (0 <? tg)) eqn:E1; [cbn; discriminate|].
  destruct (tg =? 0) eqn:E2; [|lia].
  destruct (ty =? tMAP) eqn:E3; [|cbn; discriminate].
  intros _. assert (ty = tMAP) as -> by lia. assert (tg = 0) as -> by lia. now exists r, two.
Qed.
Print Assumptions tup_strict_map.
(* false of the decoder before fa80196: the lookup's result was ignored, and after a two-byte head with a small
   tag SkipTo steps back one byte only - the tag byte was then read as the head of the count. This input has no
   field at tag 0 (a MAP at tag 2 in a two-byte head) and decoded to {"a": "x"} *)
Example optional_map_reinterprets :
  let bs := [248; 2; 0; 0; 0; 1; 6; 1; 97; 29; 0; 0; 1; 120] in
  read_head2 bs = Some (tMAP, 2, [0; 0; 0; 1; 6; 1; 97; 29; 0; 0; 1; 120], true) /\
  t_stat (tup_decode_5664fef bs) = TSOk /\ t_ins (tup_decode_5664fef bs) = [([97], [120])] /\
  t_stat (tup_decode bs) = TSErr.
Proof. vm_compute. repeat split. Qed.
