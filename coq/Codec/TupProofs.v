From TarsV Require Import Codec.Tup.
