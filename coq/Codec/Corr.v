(* Correspondence evaluators for the generated-codec model (C03-C06) and schema well-formedness. *)
From Coq Require Import List NArith ZArith Bool Arith.
From TarsV Require Import Gen.Consts Base.Hex Codec.Wire Codec.Skip Codec.Prim Codec.GenCodec.
Import ListNotations.
Open Scope N_scope.

Definition vstr (h : hexs) : val := VStr (unhex h).
Definition vbytes (h : hexs) : val := VBytes (unhex h).

(* well-formed schema environment: tags < 256 and strictly ascending, referenced structs exist, arrays non-empty *)
Fixpoint ty_ok (n : nat) (t : ty) : bool :=
  match t with
  | TVec x => ty_ok n x
  | TMap k v => ty_ok n k && ty_ok n v
  | TArr len x => (0 <? len)%nat && ty_ok n x
  | TStruct sid => (sid <? n)%nat
  | _ => true
  end.
Fixpoint tags_ascending (prev : option N) (s : schema) : bool :=
  match s with
  | [] => true
  | f :: r => (ftag f <? 256) && (match prev with None => true | Some p => p <? ftag f end) && tags_ascending (Some (ftag f)) r
  end.
Definition wf_env (e : env) : bool :=
  forallb (fun s => tags_ascending None s && forallb (fun f => ty_ok (length e) (fty f)) s) e.

(* Go map semantics for a decoded entry list: a later entry with an equal key overwrites an earlier one *)
Fixpoint dedupe_last (l : list (val * val)) : list (val * val) :=
  match l with
  | [] => []
  | (k, v) :: r => let r' := dedupe_last r in
                   if existsb (fun p => val_eqb k (fst p)) r' then r' else (k, v) :: r'
  end.

(* equality with maps as finite maps (order-insensitive); [a] is the model's value, [b] the observed dump *)
Fixpoint val_sim (a b : val) {struct a} : bool :=
  match a, b with
  | VList xs, VList ys =>
      (fix go l1 l2 := match l1, l2 with
         | [], [] => true | x :: r1, y :: r2 => val_sim x y && go r1 r2 | _, _ => false end) xs ys
  | VStruct xs, VStruct ys =>
      (fix go l1 l2 := match l1, l2 with
         | [], [] => true | x :: r1, y :: r2 => val_sim x y && go r1 r2 | _, _ => false end) xs ys
  | VMap xs, VMap ys =>
      (length xs =? length ys)%nat &&
      (fix go l1 := match l1 with
         | [] => true
         | (k, v) :: r1 => existsb (fun p => val_sim k (fst p) && val_sim v (snd p)) ys && go r1
         end) xs
  | _, _ => val_eqb a b
  end.

Fixpoint canon (v : val) : val :=
  match v with
  | VList xs => VList (map canon xs)
  | VStruct xs => VStruct (map canon xs)
  | VMap kvs => VMap (dedupe_last (map (fun p => (canon (fst p), canon (snd p))) kvs))
  | _ => v
  end.

(* observation of a decode on the implementation *)
Inductive dobs := OVal (v : val) | OErr | OPanic.

(* C03: bytes written by the implementation for some value, and what the implementation decoded from them *)
Definition c03_case := (nat * hexs * dobs)%type.
Definition c03_check (e : env) (c : c03_case) : bool :=
  let '(sid, h, obs) := c in
  let bs := unhex h in
  match decode e sid bs, obs with
  | DOk v _, OVal o => val_sim (canon v) o && bytes_eqb (encode e sid v) bs
  | _, _ => false
  end.

(* C04-C06: arbitrary bytes decoded into a fresh target: same outcome class, same value *)
Definition dec_case := (nat * hexs * dobs)%type.
Definition dec_check (e : env) (c : dec_case) : bool :=
  let '(sid, h, obs) := c in
  match decode e sid (unhex h), obs with
  | DOk v _, OVal o => val_sim (canon v) o
  | DErr, OErr => true
  | DPanic _, OPanic => true
  | _, _ => false
  end.

(* decoding into a reused target: (sid, prior value, bytes, observation) *)
Definition reuse_case := (nat * val * hexs * dobs)%type.
Definition reuse_check (e : env) (c : reuse_case) : bool :=
  let '(sid, prior, h, obs) := c in
  match decode_into e sid prior (unhex h), obs with
  | DOk v _, OVal o => val_sim (canon v) o
  | DErr, OErr => true
  | DPanic _, OPanic => true
  | _, _ => false
  end.

(* the implementation died (out of memory) or allocated more than its bound while decoding these bytes: the
   repaired model has no outcome that explains that (DHuge is never produced any more, see Props/C05), so such a
   case is always a mismatch between model and code *)
Definition huge_check (e : env) (sid : nat) (h : hexs) : bool :=
  match decode e sid (unhex h) with DHuge => true | _ => false end.

(* codec.Reader.ReadSliceInt8 / ReadSliceUint8 called directly with length n on these bytes, into a slice that holds
   other content: the bytes read and the number of bytes left, or an error *)
Inductive sobs := SlVal (h : hexs) (remaining : N) | SlErr.
Definition slice_check (n : Z) (h : hexs) (o : sobs) : bool :=
  match read_slice n (unhex h), o with
  | Some (s, r), SlVal hs rem => bytes_eqb s (unhex hs) && (N.of_nat (length r) =? rem)
  | None, SlErr => true
  | _, _ => false
  end.

Inductive gcase := GEnc (c : c03_case) | GDec (c : dec_case) | GReuse (c : reuse_case) | GHuge (sid : nat) (h : hexs)
| GSlice (n : Z) (h : hexs) (o : sobs).
Definition gcase_check (e : env) (c : gcase) : bool :=
  match c with GEnc x => c03_check e x | GDec x => dec_check e x | GReuse x => reuse_check e x
  | GHuge sid h => huge_check e sid h
  | GSlice n h o => slice_check n h o end.
