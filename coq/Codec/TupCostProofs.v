(* C05T: the step count of UniAttribute.Decode (TupCost.v) is linear in the input length, on arbitrary bytes. *)
From Coq Require Import List NArith ZArith Lia Bool Arith.
From Coq Require Import ZifyN ZifyNat ZifyBool.
From TarsV Require Import Gen.Consts Base.Hex Codec.Wire Codec.WireProofs Codec.Skip Codec.Prim Codec.Tup Codec.TupProofs Codec.TupCost.
Import ListNotations.
Ltac Zify.zify_post_hook ::= Z.div_mod_to_equations.
Open Scope N_scope.

Lemma suffix_len r bs : suffix r bs -> (length r <= length bs)%nat.
Proof. intros [a ->]. rewrite app_length. lia. Qed.
Lemma skip_field_len fuel d ty bs : (length (snd (skip_field fuel d ty bs)) <= length bs)%nat.
Proof. apply suffix_len. destruct (skip_suffix fuel) as (H & _). apply H. Qed.

Lemma skip_field_map f d bs : skip_field (S f) d tMAP bs =
  if maxd <=? d then (SErr, bs) else match read_count bs with CErr r => (SErr, r) | COk n r => skip_n f (d + 1) (wrap32 (n * 2)) r end.
Proof. reflexivity. Qed.
Lemma skip_field_list f d bs : skip_field (S f) d tLIST bs =
  if maxd <=? d then (SErr, bs) else match read_count bs with CErr r => (SErr, r) | COk n r => skip_n f (d + 1) n r end.
Proof. reflexivity. Qed.
Lemma skip_field_sb f d bs : skip_field (S f) d tSB bs = if maxd <=? d then (SErr, bs) else skip_to_end f (d + 1) bs.
Proof. reflexivity. Qed.

(* steps of the skipping functions: paid for by the bytes they consume *)
Lemma cost_skip : forall fuel,
  (forall d ty bs, (skf fuel d ty bs + 3 * length (snd (skip_field fuel d ty bs)) <= 3 * length bs + 2)%nat) /\
  (forall d n bs, (skn fuel d n bs + 3 * length (snd (skip_n fuel d n bs)) <= 3 * length bs + 1)%nat) /\
  (forall d bs, (ske fuel d bs + 3 * length (snd (skip_to_end fuel d bs)) <= 3 * length bs + 1)%nat).
Proof.
  induction fuel as [|f (IHf & IHn & IHe)]; [repeat split; intros; cbn; lia|].
  split; [|split].
  - intros d ty bs. destruct (ty =? tMAP) eqn:EM.
    { assert (ty = tMAP) as -> by lia. rewrite skip_field_map. cbn [skf]. change (tMAP =? tMAP) with true. cbv iota.
      destruct (maxd <=? d); [cbn [snd]; lia|]. pose proof (read_count_len_ok bs) as Hc.
      destruct (read_count bs) as [n r|r]; [|cbn [snd]; lia].
      specialize (IHn (d + 1) (wrap32 (n * 2)) r). lia. }
    destruct (ty =? tLIST) eqn:EL.
    { assert (ty = tLIST) as -> by lia. rewrite skip_field_list. cbn [skf]. change (tLIST =? tMAP) with false. change (tLIST =? tLIST) with true. cbv iota.
      destruct (maxd <=? d); [cbn [snd]; lia|]. pose proof (read_count_len_ok bs) as Hc.
      destruct (read_count bs) as [n r|r]; [|cbn [snd]; lia].
      specialize (IHn (d + 1) n r). lia. }
    destruct (ty =? tSB) eqn:ES.
    { assert (ty = tSB) as -> by lia. rewrite skip_field_sb. cbn [skf]. change (tSB =? tMAP) with false. change (tSB =? tLIST) with false.
      change (tSB =? tSB) with true. cbv iota.
      destruct (maxd <=? d); [cbn [snd]; lia|]. specialize (IHe (d + 1) bs). lia. }
    pose proof (skip_field_len (S f) d ty bs) as Hl. cbn [skf]. rewrite EM, EL, ES. lia.
  - intros d n bs. cbn [skn skip_n]. destruct (n <=? 0)%Z; [cbn [snd]; lia|].
    destruct (read_head bs) as [[[ty tg] r]|] eqn:E; [|cbn [snd length]; lia]. apply read_head_len in E.
    specialize (IHf d ty r). destruct (skip_field f d ty r) as [s r'] eqn:Es. cbn [snd] in IHf |- *.
    specialize (IHn d (n - 1)%Z r'). lia.
  - intros d bs. cbn [ske skip_to_end].
    destruct (read_head bs) as [[[ty tg] r]|] eqn:E; [|cbn [snd length]; lia]. apply read_head_len in E.
    specialize (IHf d ty r). destruct (skip_field f d ty r) as [s r'] eqn:Es. cbn [snd] in IHf.
    destruct s; [|cbn [snd]; lia|cbn [snd]; lia].
    destruct (ty =? tSE); [cbn [snd]; lia|]. specialize (IHe d r'). lia.
Qed.

Definition rest_len (s : seek) : nat := match s with Found _ r => length r | NotFound r => length r | _ => O end.
Lemma cost_seek : forall fuel tag req bs,
  (seekc fuel tag bs + 3 * rest_len (skip_to_no_check fuel tag req bs) <= 3 * length bs + 1)%nat.
Proof.
  induction fuel as [|f IH]; intros tag req bs; [cbn; lia|]. cbn [seekc skip_to_no_check].
  destruct (read_head2 bs) as [[[[ty tg] r] two]|] eqn:E; [|destruct req; cbn [rest_len length]; lia].
  pose proof (read_head2_len _ _ _ _ _ E) as Hl.
  destruct ((ty =? tSE) || (tag <? tg)).
  { destruct req; cbn [rest_len]; [lia|]. unfold unread. destruct (two && (tg <? 15)); [destruct bs; cbn [tl length]; lia|lia]. }
  destruct (tg =? tag); [cbn [rest_len]; lia|].
  destruct (cost_skip f) as (Hf & _). specialize (Hf 0 ty r).
  destruct (skip_field f 0 ty r) as [s r'] eqn:Es. cbn [snd] in Hf.
  destruct s; [|cbn [rest_len]; lia|cbn [rest_len]; lia]. specialize (IH tag req r'). lia.
Qed.
Lemma cost_skip_to fuel ty tag req bs :
  (seekc fuel tag bs + 3 * rest_len (skip_to fuel ty tag req bs) <= 3 * length bs + 1)%nat.
Proof.
  pose proof (cost_seek fuel tag req bs) as H. unfold skip_to.
  destruct (skip_to_no_check fuel tag req bs); try exact H. destruct (ty0 =? ty); [exact H|cbn [rest_len] in *; lia].
Qed.

Definition next_len (e : eres) : nat := match e with EIns _ _ r => length r | ESkip _ r => length r | _ => O end.

Lemma cost_value vreq k r : (value_cost vreq r + 3 * next_len (dec_value vreq k r) <= 3 * length r + 4)%nat.
Proof.
  unfold value_cost, dec_value. pose proof (cost_seek (fuel_for r) 1 vreq r) as H.
  destruct (skip_to_no_check (fuel_for r) 1 vreq r) as [ty r1|r1| |]; cbn [rest_len next_len] in *; try lia.
  destruct (ty =? tSIMPLE); [|cbn [next_len]; lia].
  pose proof (cost_skip_to (fuel_for r1) tBYTE 0 true r1) as H2.
  destruct (skip_to (fuel_for r1) tBYTE 0 true r1) as [ty2 r2|r2| |]; cbn [rest_len next_len] in *; try lia.
  pose proof (read_count_len_ok r2) as H3. destruct (read_count r2) as [n r3|r3]; [|cbn [next_len]; lia].
  destruct (read_bytes n r3) as [[v r4]|] eqn:E; [|cbn [next_len]; lia].
  apply read_bytes_split in E. destruct E as [-> _]. rewrite app_length in H3. cbn [next_len]. lia.
Qed.

Lemma cost_entry kreq vreq bs : (entry_cost kreq vreq bs + 3 * next_len (dec_entry kreq vreq bs) <= 3 * length bs + 6)%nat.
Proof.
  unfold entry_cost, dec_entry, r_string, with_seek. pose proof (cost_seek (fuel_for bs) 0 kreq bs) as H.
  destruct (skip_to_no_check (fuel_for bs) 0 kreq bs) as [ty r0|r0| |]; cbn [rest_len next_len] in *; try lia.
  - destruct (read_string_body ty r0) as [[k r]|] eqn:E; [|cbn [next_len]; lia].
    apply read_string_body_len in E. pose proof (cost_value vreq k r). lia.
  - pose proof (cost_value vreq [] r0). lia.
Qed.

Lemma cost_loop vreq : forall fuel n bs, (loop_cost true vreq fuel n bs <= 10 * length bs + 7)%nat.
Proof.
  induction fuel as [|f IH]; intros n bs; cbn [loop_cost]; destruct (n <=? 0)%Z; try lia.
  pose proof (cost_entry true vreq bs) as H. pose proof (dec_entry_good true vreq bs) as G.
  destruct (dec_entry true vreq bs) as [k v r|k r|a|]; cbn [next_len] in H; try lia.
  - specialize (IH (n - 1)%Z r). lia.
  - destruct G as [_ G]. specialize (G eq_refl). specialize (IH (n - 1)%Z r). lia.
Qed.

(* C05 for the TUP decoder, time: on ANY bytes the whole of Decode - every lookup, every activation of the skipping
   functions below it, every loop iteration - takes at most 10 steps per input byte plus 9 *)
Theorem tup_cost_linear bs : (tup_cost bs <= 10 * length bs + 9)%nat.
Proof.
  unfold tup_cost. pose proof (cost_skip_to (fuel_for bs) tMAP 0 true bs) as H.
  destruct (skip_to (fuel_for bs) tMAP 0 true bs) as [ty r|r| |]; cbn [rest_len] in H; try lia.
  - pose proof (read_count_len_ok r) as Hc. destruct (read_count r) as [n r1|r1]; [|lia].
    pose proof (cost_loop true (S (length r1)) n r1). lia.
  - pose proof (read_count_len_ok r) as Hc. destruct (read_count r) as [n r1|r1]; [|lia].
    pose proof (cost_loop true (S (length r1)) n r1). lia.
Qed.
Print Assumptions tup_cost_linear.

(* the pinned decoder's cost is not bounded by the input: one step per announced entry *)
Example pinned_cost_unbounded :   (* 08 01 0b b8: four bytes announcing 3000 entries *)
  let bs := [8; 1; 11; 184] in
  t_iter (tup_decode_pinned bs) = 3000 /\ loop_cost false false (Z.to_nat 3000) 3000 [] = (Z.to_nat 12001) /\ (tup_cost bs <= 49)%nat.
Proof. vm_compute. repeat split. lia. Qed.
Example tup_cost_ex : tup_cost (tup_encode ex_m) = 24%nat.
Proof. vm_compute. reflexivity. Qed.
