(* C05T cost model: the number of steps (function activations of the skipping functions, head lookups, loop
   iterations, fixed-size reads) that UniAttribute.Decode performs, defined along the executable model of Tup.v and
   Skip.v: every activation of skip_field / skip_n / skip_to_end / skip_to_no_check / dec_loop counts 1, every
   primitive read after a lookup counts 1. Copying the bytes of keys and buffers is accounted for by t_alloc.
   Definitions only; the linear bound is in TupCostProofs.v. *)
From Coq Require Import List NArith ZArith Bool Arith.
From TarsV Require Import Gen.Consts Base.Hex Codec.Wire Codec.Skip Codec.Prim Codec.Tup.
Import ListNotations.
Open Scope N_scope.

(* activations below one call of skipField / the count loops / SkipToStructEnd (same recursion as Skip.v) *)
Fixpoint skf (fuel : nat) (d : N) (ty : N) (bs : list N) : nat :=
  match fuel with
  | O => O
  | S f => S (
      if ty =? tMAP then
        (if maxd <=? d then O else match read_count bs with CErr _ => O | COk n r => skn f (d + 1) (wrap32 (n * 2)) r end)
      else if ty =? tLIST then
        (if maxd <=? d then O else match read_count bs with CErr _ => O | COk n r => skn f (d + 1) n r end)
      else if ty =? tSB then (if maxd <=? d then O else ske f (d + 1) bs)
      else O)
  end
with skn (fuel : nat) (d : N) (n : Z) (bs : list N) : nat :=
  match fuel with
  | O => O
  | S f => S (if (n <=? 0)%Z then O else
              match read_head bs with
              | None => O
              | Some (ty, _, r) => Nat.add (skf f d ty r) (skn f d (n - 1)%Z (snd (skip_field f d ty r)))
              end)
  end
with ske (fuel : nat) (d : N) (bs : list N) : nat :=
  match fuel with
  | O => O
  | S f => S (match read_head bs with
              | None => O
              | Some (ty, _, r) =>
                  Nat.add (skf f d ty r) (match skip_field f d ty r with
                                          | (SOk, r') => if ty =? tSE then O else ske f d r'
                                          | _ => O
                                          end)
              end)
  end.

(* SkipToNoCheck: one step per head inspected, plus the skipping of smaller tags *)
Fixpoint seekc (fuel : nat) (tag : N) (bs : list N) : nat :=
  match fuel with
  | O => O
  | S f => S (match read_head2 bs with
              | None => O
              | Some (ty, tg, r, _) =>
                  if (ty =? tSE) || (tag <? tg) then O
                  else if tg =? tag then O
                  else Nat.add (skf f 0 ty r) (match skip_field f 0 ty r with
                                               | (SOk, r') => seekc f tag r'
                                               | _ => O
                                               end)
              end)
  end.

(* the value of an entry: lookup of tag 1, lookup of the element head, the length, ReadBytes *)
Definition value_cost (vreq : bool) (r : list N) : nat :=
  Nat.add (seekc (fuel_for r) 1 r)
   (match skip_to_no_check (fuel_for r) 1 vreq r with
    | Found ty r1 => if ty =? tSIMPLE then Nat.add (seekc (fuel_for r1) 0 r1) 2 else O
    | _ => O
    end).
(* one loop iteration: lookup of the key, its body, the value *)
Definition entry_cost (kreq vreq : bool) (bs : list N) : nat :=
  Nat.add (Nat.add (seekc (fuel_for bs) 0 bs) 1)
   (match r_string (fuel_for bs) 0 kreq bs with
    | ROk _ r | RAbsent r => value_cost vreq r
    | _ => O
    end).
Fixpoint loop_cost (kreq vreq : bool) (fuel : nat) (n : Z) (bs : list N) : nat :=
  if (n <=? 0)%Z then 1%nat else
  match fuel with
  | O => O
  | S f => Nat.add (S (entry_cost kreq vreq bs))
            (match dec_entry kreq vreq bs with
             | EIns _ _ r | ESkip _ r => loop_cost kreq vreq f (n - 1)%Z r
             | _ => O
             end)
  end.
(* Decode: lookup of the map, the count, the loop *)
Definition tup_cost (bs : list N) : nat :=
  Nat.add (Nat.add (seekc (fuel_for bs) 0 bs) 1)
   (match skip_to (fuel_for bs) tMAP 0 true bs with
    | Found _ r | NotFound r => match read_count r with
                                | COk n r1 => loop_cost true true (S (length r1)) n r1
                                | CErr _ => O
                                end
    | _ => O
    end).
