(* Proofs about the generated-codec model used by Props/C03-C06. *)
From Coq Require Import List NArith ZArith Lia Bool Arith.
From Coq Require Import ZifyN ZifyNat ZifyBool.
From TarsV Require Import Gen.Consts Base.Hex Codec.Wire Codec.WireProofs Codec.Skip Codec.SkipProofs Codec.Prim Codec.PrimProofs Codec.GenCodec Codec.Corr.
Import ListNotations.
Ltac Zify.zify_post_hook ::= Z.div_mod_to_equations.
Open Scope N_scope.

(* ---------- C06: the repaired readers never pad, never return partial data ---------- *)

(* io.ReadFull semantics: a successful n-byte read consumed exactly n bytes that are all there *)
Theorem bread_exact n bs v r : bread n bs = Some (v, r) ->
  bs = firstn n bs ++ r /\ length (firstn n bs) = n /\ v = be_val 0 (firstn n bs).
Proof.
  unfold bread. destruct (n <=? length bs)%nat eqn:E; [|discriminate]. intros H. inversion H; subst.
  apply Nat.leb_le in E. split; [symmetry; apply firstn_skipn|]. split; [apply firstn_length_le; assumption|reflexivity].
Qed.
Theorem bread_truncated n bs : (length bs < n)%nat -> bread n bs = None.
Proof. exact (bread_short n bs). Qed.

(* strings and byte vectors: the announced length is all there or the read fails *)
Theorem take_str_exact l r s r' : take_str l r = Some (s, r') -> r = s ++ r' /\ N.of_nat (length s) = l.
Proof.
  unfold take_str. destruct (N.of_nat (length r) <? l) eqn:E; [discriminate|]. intros H. inversion H; subst.
  split; [symmetry; apply firstn_skipn|]. rewrite firstn_length_le by lia. lia.
Qed.
Theorem take_str_truncated l r : N.of_nat (length r) < l -> take_str l r = None.
Proof. intros H. unfold take_str. destruct (N.of_nat (length r) <? l) eqn:E; [reflexivity|lia]. Qed.
Theorem read_slice_exact n r s r' : read_slice n r = Some (s, r') -> r = s ++ r' /\ Z.of_nat (length s) = n.
Proof.
  unfold read_slice. destruct (n <? 0)%Z eqn:E0; [discriminate|].
  destruct (Z.of_nat (length r) <? n)%Z eqn:E; [discriminate|]. intros H. inversion H; subst.
  split; [symmetry; apply firstn_skipn|]. rewrite firstn_length_le by lia. lia.
Qed.
Theorem read_slice_truncated n r : (Z.of_nat (length r) < n)%Z -> read_slice n r = None.
Proof.
  intros H. unfold read_slice. destruct (n <? 0)%Z eqn:E0; [reflexivity|].
  destruct (Z.of_nat (length r) <? n)%Z eqn:E; [reflexivity|lia].
Qed.
Theorem read_slice_negative n r : (n < 0)%Z -> read_slice n r = None.
Proof. intros H. unfold read_slice. destruct (n <? 0)%Z eqn:E0; [reflexivity|lia]. Qed.

(* every proper prefix of a primitive field is rejected when the field is required *)
Lemma read_head2_partial ty : ty < 16 -> read_head2 [240 + ty] = None.
Proof. intros H. unfold read_head2. assert (Hd : (240 + ty) / 16 = 15) by lia. rewrite Hd. reflexivity. Qed.
Lemma seek_none f tag bs : read_head2 bs = None -> skip_to_no_check (S f) tag true bs = SeekErr.
Proof. intros H. cbn [skip_to_no_check]. now rewrite H. Qed.

Lemma seek_truncated_head f ty tag : ty < 16 -> tag < 256 -> forall p q, head ty tag = p ++ q -> q <> [] ->
  skip_to_no_check (S f) tag true p = SeekErr.
Proof.
  intros Hty Htag p q E Hq. unfold head in E. apply seek_none.
  destruct (tag <? 15) eqn:Et.
  - destruct p as [|a p]; [reflexivity|]. cbn [app] in E. injection E as Ea Ep.
    destruct p; [cbn in Ep; congruence|discriminate].
  - destruct p as [|a p]; [reflexivity|]. cbn [app] in E. injection E as Ea Ep. subst a.
    destruct p as [|b p].
    + now apply read_head2_partial.
    + cbn [app] in Ep. injection Ep as Eb Ep. destruct p; [cbn in Ep; congruence|discriminate].
Qed.

Lemma app_prefix_cases {A} (a b p q : list A) : a ++ b = p ++ q ->
  (exists t, a = p ++ t /\ q = t ++ b) \/ (exists t, p = a ++ t /\ b = t ++ q).
Proof.
  revert p. induction a as [|x a IH]; intros p E.
  - right. exists p. split; [reflexivity|exact E].
  - destruct p as [|y p].
    + left. exists (x :: a). split; [reflexivity|]. cbn in E. now rewrite <- E.
    + cbn in E. inversion E; subst. destruct (IH p H1) as [[t [-> ->]]|[t [-> ->]]].
      * left. exists t. split; reflexivity.
      * right. exists t. split; reflexivity.
Qed.

Theorem int_prefix_rejected bits f tag v : is_width bits -> tag < 256 -> fits 64 v = true ->
  forall p q, w_int64 v tag = p ++ q -> q <> [] -> r_int bits (S f) tag true p = RErr.
Proof.
  intros Hb Htag H64 p q E Hq. unfold r_int, with_seek.
  assert (Hgen : forall ty n x, ty < 16 -> (ty =? tSE) = false -> x < 256 ^ N.of_nat n ->
            head ty tag ++ be n x = p ++ q ->
            (forall r, (length r < n)%nat -> read_int_body bits ty r = None) ->
            match skip_to_no_check (S f) tag true p with
            | Found ty0 r => match read_int_body bits ty0 r with Some (a, r') => ROk a r' | None => RErr end
            | NotFound r => RAbsent r | SeekErr => RErr | SeekFuel => RFuel end = RErr).
  { intros ty n x Hty Hse Hx E' Hshort.
    destruct (app_prefix_cases _ _ _ _ E') as [[t [Ha Hq']]|[t [Hp Hb']]].
    - destruct t as [|t0 t].
      + rewrite app_nil_r in Ha. subst p. rewrite <- (app_nil_r (head ty tag)), seek_first by assumption.
        rewrite Hshort; [reflexivity|]. cbn. cbn in Hq'. subst q.
        destruct n; [cbn in Hq; congruence|lia].
      + rewrite (seek_truncated_head f ty tag Hty Htag p (t0 :: t) Ha) by discriminate. reflexivity.
    - subst p. rewrite seek_first by assumption. rewrite Hshort; [reflexivity|].
      assert (length (be n x) = length t + length q)%nat by (rewrite Hb', app_length; reflexivity).
      rewrite be_length in H. destruct q; [congruence|]. cbn in H. lia. }
  unfold w_int64, w_int32, w_int16, w_int8 in E.
  destruct ((-2147483648 <=? v) && (v <=? 2147483647))%Z.
  - destruct ((-32768 <=? v) && (v <=? 32767))%Z.
    + destruct ((-128 <=? v) && (v <=? 127))%Z.
      * destruct (v =? 0)%Z.
        -- apply (Hgen tZERO 0%nat 0); try reflexivity; try (intros; lia).
           cbn [be]. now rewrite app_nil_r.
        -- assert (Hb1 : be 1 (wrapu 8 v) = [wrapu 8 v]).
           { cbn [be app]. f_equal. apply N.mod_small. apply (wrapu_lt 8). lia. }
           rewrite <- Hb1 in E.
           apply (Hgen tBYTE 1%nat (wrapu 8 v)); try reflexivity; [apply (wrapu_lt 8); lia|exact E|].
           intros r Hr. destruct r; [reflexivity|cbn in Hr; lia].
      * apply (Hgen tSHORT 2%nat (wrapu 16 v)); try reflexivity; [apply (wrapu_lt 16); lia|exact E|].
        intros r Hr. unfold read_int_body. change (tSHORT =? tZERO) with false. change (tSHORT =? tBYTE) with false.
        change (tSHORT =? tSHORT) with true. cbv iota. destruct (16 <=? bits)%Z; cbn [andb]; [now rewrite bread_short|].
        change (tSHORT =? tINT) with false. change (tSHORT =? tLONG) with false. reflexivity.
    + apply (Hgen tINT 4%nat (wrapu 32 v)); try reflexivity; [apply (wrapu_lt 32); lia|exact E|].
      intros r Hr. unfold read_int_body. change (tINT =? tZERO) with false. change (tINT =? tBYTE) with false.
      change (tINT =? tSHORT) with false. change (tINT =? tINT) with true. cbv iota. cbn [andb].
      destruct (32 <=? bits)%Z; cbn [andb]; [now rewrite bread_short|].
      change (tINT =? tLONG) with false. reflexivity.
  - apply (Hgen tLONG 8%nat (wrapu 64 v)); try reflexivity; [apply (wrapu_lt 64); lia|exact E|].
    intros r Hr. unfold read_int_body. change (tLONG =? tZERO) with false. change (tLONG =? tBYTE) with false.
    change (tLONG =? tSHORT) with false. change (tLONG =? tINT) with false. change (tLONG =? tLONG) with true.
    cbv iota. cbn [andb]. destruct (64 <=? bits)%Z; cbn [andb]; [now rewrite bread_short|reflexivity].
Qed.

(* ---------- C04: the repaired ResetDefault assigns every member ---------- *)
(* decoding does not depend on what the target held before: ANY two prior targets (of any shape), any schema
   environment, any struct type, any bytes *)
Theorem decode_into_prior_indep e sid p1 p2 bs : decode_into e sid p1 bs = decode_into e sid p2 bs.
Proof. reflexivity. Qed.
Theorem dec_var_struct_prior_indep fuel e tag req sid p1 p2 bs :
  dec_var fuel e tag req (TStruct sid) p1 bs = dec_var fuel e tag req (TStruct sid) p2 bs.
Proof. destruct fuel; reflexivity. Qed.
(* ... in particular decoding into a used target gives what decoding into a fresh one gives *)
Theorem decode_into_fresh e sid prior bs : decode_into e sid prior bs = decode e sid bs.
Proof. reflexivity. Qed.

Example reuse_witness :
  (* the witness of the former finding: a target that holds [7; "boom"] decodes an encoding containing only the
     required member; the optional string without a declared default is reset (Codec/Pinned.v: the pinned code
     kept "boom") *)
  let e := [[ {| ftag := 0; freq := true; fty := TI32; fdef := None |};
              {| ftag := 1; freq := false; fty := TStr; fdef := None |} ]] in
  decode_into e 0 (VStruct [VInt 7; VStr [98; 111; 111; 109]]) (w_int32 5 0)
  = DOk (VStruct [VInt 5; VStr []]) [].
Proof. vm_compute. reflexivity. Qed.

(* every member is reset to its declared default or, where none is declared, to the zero value of its type
   (struct members: reset recursively) - whatever the target held *)
Lemma reset_default_member f e sid v : forall i fd,
  nth_error (fields_of e sid) i = Some fd ->
  match reset_default (S f) e sid v with
  | VStruct l => nth_error l i = Some (match fdef fd with
                                       | Some d => d
                                       | None => match fty fd with TStruct s => reset_default f e s v | t => zero_of f e t end
                                       end)
  | _ => False
  end.
Proof.
  intros i fd Hn. unfold reset_default. cbn [reset_val]. now rewrite nth_error_map, Hn.
Qed.
(* members with a declared default do not depend on the prior target *)
Lemma reset_default_declared f e sid vs : forall i fd d,
  nth_error (fields_of e sid) i = Some fd -> fdef fd = Some d -> (i < length vs)%nat ->
  match reset_default (S f) e sid (VStruct vs) with
  | VStruct l => nth_error l i = Some d
  | _ => False
  end.
Proof.
  intros i fd d Hn Hd _. pose proof (reset_default_member f e sid (VStruct vs) i fd Hn) as H.
  destruct (reset_default (S f) e sid (VStruct vs)); try exact H. now rewrite Hd in H.
Qed.

(* ---------- C05: outcome classification of the decoder's scalar layer; explicit refutation witnesses ---------- *)
Lemma dec_scalar_safe fuel tag req t prior bs :
  match dec_scalar fuel tag req t prior bs with DPanic _ | DHuge => False | _ => True end.
Proof.
  unfold dec_scalar. destruct t; try exact I;
  match goal with |- match of_rres ?r _ _ with _ => _ end => destruct r; exact I end.
Qed.

(* the witnesses of the former findings: a byte vector sent as a LIST with count -1 (the pinned code panicked in
   make) or 2^30 with nothing behind it (the pinned code allocated) is refused (Codec/Pinned.v has the pinned outcomes) *)
Example hostile_count_witness :
  let e := [[ {| ftag := 7; freq := true; fty := TVec TI8; fdef := None |} ]] in
  decode e 0 [121; 0; 255] = DErr /\
  decode e 0 [121; 2; 64; 0; 0; 0] = DErr.
Proof. vm_compute. split; reflexivity. Qed.

(* the nesting limit: at the limit a nested head is refused without recursing, whatever follows *)
Theorem skip_depth_limit fuel ty bs : (ty = tMAP \/ ty = tLIST \/ ty = tSB) ->
  skip_field (S fuel) maxd ty bs = (SErr, bs).
Proof. intros [H|[H|H]]; subst ty; reflexivity. Qed.

(* ---------- C03: member-level round trip for every scalar member type, any suffix, exact cursor ---------- *)
Definition scalar_typed (t : ty) (v : val) : Prop :=
  match t, v with
  | TBool, VBool _ => True
  | TI8, VInt z => fits 8 z = true | TI16, VInt z => fits 16 z = true
  | TI32, VInt z => fits 32 z = true | TEnum, VInt z => fits 32 z = true | TI64, VInt z => fits 64 z = true
  | TU8, VInt z => (0 <= z < 256)%Z | TU16, VInt z => (0 <= z < 65536)%Z | TU32, VInt z => (0 <= z < 4294967296)%Z
  | TF32, VFlt b => b < 4294967296 | TF64, VFlt b => b < 18446744073709551616
  | TStr, VStr s => N.of_nat (length s) < 4294967296
  | _, _ => False
  end.

Theorem scalar_member_roundtrip f e tag req t prior v rest : tag < 256 -> scalar_typed t v ->
  dec_var (S (S f)) e tag req t prior (w_scalar t v tag ++ rest) = DOk v rest.
Proof.
  intros Htag Hty. destruct t; destruct v; cbn [scalar_typed] in Hty; try contradiction;
  cbn [dec_var dec_scalar w_scalar].
  - now rewrite roundtrip_bool.
  - now rewrite roundtrip_int8.
  - now rewrite roundtrip_uint8.
  - now rewrite roundtrip_int16.
  - now rewrite roundtrip_uint16.
  - now rewrite roundtrip_int32.
  - now rewrite roundtrip_uint32.
  - now rewrite roundtrip_int64.
  - now rewrite roundtrip_f32.
  - now rewrite roundtrip_f64.
  - now rewrite roundtrip_string.
  - now rewrite roundtrip_int32.
Qed.

(* an omitted optional scalar member: nothing was written, and when what follows starts with a larger tag,
   the enclosing StructEnd or the end of input, the member keeps its reset value and nothing is consumed *)
Theorem optional_member_absent f e tag t prior rest :
  (match t with TVec _ | TMap _ _ | TArr _ _ | TStruct _ => False | _ => True end) ->
  (rest = [] \/ exists ty tg r, read_head2 rest = Some (ty, tg, r, negb (tg <? 15)) /\ ((ty =? tSE) || (tag <? tg) = true)) ->
  dec_var (S (S f)) e tag false t prior rest = DOk prior rest.
Proof.
  intros Hsc Hrest.
  assert (Hseek : skip_to_no_check (S f) tag false rest = NotFound rest).
  { cbn [skip_to_no_check]. destruct Hrest as [->|(ty & tg & r & Hh & Hc)]; [reflexivity|].
    rewrite Hh, Hc. unfold unread. destruct (tg <? 15); reflexivity. }
  destruct t; try contradiction; cbn [dec_var dec_scalar];
  unfold r_bool, r_int8, r_uint8, r_int16, r_uint16, r_int32, r_uint32, r_int64, r_f32, r_f64, r_string, r_int, with_seek;
  rewrite Hseek; reflexivity.
Qed.
