(* C02 model: the primitive writers (Buffer.WriteXxx) and readers (Reader.ReadXxx) of codec.go.
   Integers are Z within the Go type's range; floats are bit patterns; strings are byte lists. *)
From Coq Require Import List NArith ZArith Lia Bool Arith.
From TarsV Require Import Gen.Consts Base.Hex Codec.Wire Codec.Skip.
Import ListNotations.
Open Scope N_scope.

(* ---------- writers: the width cascade WriteInt64 -> 32 -> 16 -> 8, ZeroTag for 0 ---------- *)
Definition w_int8 (v : Z) (tag : N) : list N :=
  if (v =? 0)%Z then head tZERO tag else head tBYTE tag ++ [wrapu 8 v].
Definition w_int16 (v : Z) (tag : N) : list N :=
  if ((-128 <=? v) && (v <=? 127))%Z then w_int8 v tag else head tSHORT tag ++ be 2 (wrapu 16 v).
Definition w_int32 (v : Z) (tag : N) : list N :=
  if ((-32768 <=? v) && (v <=? 32767))%Z then w_int16 v tag else head tINT tag ++ be 4 (wrapu 32 v).
Definition w_int64 (v : Z) (tag : N) : list N :=
  if ((-2147483648 <=? v) && (v <=? 2147483647))%Z then w_int32 v tag else head tLONG tag ++ be 8 (wrapu 64 v).
(* unsigned types go through the next wider signed writer *)
Definition w_uint8 (v : Z) (tag : N) := w_int16 v tag.
Definition w_uint16 (v : Z) (tag : N) := w_int32 v tag.
Definition w_uint32 (v : Z) (tag : N) := w_int64 v tag.
Definition w_bool (b : bool) (tag : N) := w_int8 (if b then 1 else 0)%Z tag.
Definition w_f32 (bits : N) (tag : N) : list N := head tFLOAT tag ++ be 4 bits.
Definition w_f64 (bits : N) (tag : N) : list N := head tDOUBLE tag ++ be 8 bits.
Definition w_string (s : list N) (tag : N) : list N :=
  let l := N.of_nat (length s) in
  if 255 <? l then head tSTR4 tag ++ be 4 (l mod 4294967296) ++ s
  else head tSTR1 tag ++ [l] ++ s.

(* ---------- readers ---------- *)
Inductive rres (A : Type) := ROk (a : A) (rest : list N) | RAbsent (rest : list N) | RErr | RFuel.
Arguments ROk {A} a rest. Arguments RAbsent {A} rest. Arguments RErr {A}. Arguments RFuel {A}.

(* the type switch of ReadInt8/16/32/64 with sign extension; bits is the width of the reader *)
Definition read_int_body (bits : Z) (ty : N) (r : list N) : option (Z * list N) :=
  if ty =? tZERO then Some (0%Z, r)
  else if ty =? tBYTE then match r with [] => None | b :: r' => Some (sext 8 b, r') end
  else if (ty =? tSHORT) && (16 <=? bits)%Z then match bread 2 r with None => None | Some (v, r') => Some (sext 16 v, r') end
  else if (ty =? tINT) && (32 <=? bits)%Z then match bread 4 r with None => None | Some (v, r') => Some (sext 32 v, r') end
  else if (ty =? tLONG) && (64 <=? bits)%Z then match bread 8 r with None => None | Some (v, r') => Some (sext 64 v, r') end
  else None.

Definition with_seek {A} (fuel : nat) (tag : N) (req : bool) (bs : list N)
           (body : N -> list N -> option (A * list N)) : rres A :=
  match skip_to_no_check fuel tag req bs with
  | Found ty r => match body ty r with Some (a, r') => ROk a r' | None => RErr end
  | NotFound r => RAbsent r
  | SeekErr => RErr
  | SeekFuel => RFuel
  end.

Definition r_int (bits : Z) (fuel : nat) (tag : N) (req : bool) (bs : list N) : rres Z :=
  with_seek fuel tag req bs (read_int_body bits).
Definition map_r {A B} (f : A -> B) (r : rres A) : rres B :=
  match r with ROk a rest => ROk (f a) rest | RAbsent r => RAbsent r | RErr => RErr | RFuel => RFuel end.
Definition r_int8 := r_int 8.   Definition r_int16 := r_int 16.
Definition r_int32 := r_int 32. Definition r_int64 := r_int 64.
(* ReadUint8 = uint8(ReadInt16), ReadUint16 = uint16(ReadInt32), ReadUint32 = uint32(ReadInt64) *)
Definition r_uint8 fuel tag req bs := map_r (fun z => z mod 256)%Z (r_int 16 fuel tag req bs).
Definition r_uint16 fuel tag req bs := map_r (fun z => z mod 65536)%Z (r_int 32 fuel tag req bs).
Definition r_uint32 fuel tag req bs := map_r (fun z => z mod 4294967296)%Z (r_int 64 fuel tag req bs).
Definition r_bool fuel tag req bs := map_r (fun z => negb (z =? 0)%Z) (r_int 8 fuel tag req bs).

(* float32 -> float64 conversion on bit patterns (sign, exponent re-bias, subnormal normalisation, quieting NaNs) *)
Definition widen32 (b : N) : N :=
  let s := b / 2147483648 in let e := (b / 8388608) mod 256 in let m := b mod 8388608 in
  let s64 := s * 9223372036854775808 in
  if e =? 255 then (if m =? 0 then s64 + 2047 * 4503599627370496
                    else s64 + 2047 * 4503599627370496 + 2251799813685248 + (m mod 4194304) * 536870912)
  else if e =? 0 then
    (if m =? 0 then s64
     else let k := N.log2 m in           (* highest set bit, 0..22 *)
          s64 + (k + 874) * 4503599627370496 + (m - 2 ^ k) * 2 ^ (52 - k))
  else s64 + (e + 896) * 4503599627370496 + m * 536870912.

Definition read_f32_body (ty : N) (r : list N) : option (N * list N) :=
  if ty =? tZERO then Some (0, r) else if ty =? tFLOAT then bread 4 r else None.
Definition read_f64_body (ty : N) (r : list N) : option (N * list N) :=
  if ty =? tZERO then Some (0, r)
  else if ty =? tFLOAT then match bread 4 r with None => None | Some (v, r') => Some (widen32 v, r') end
  else if ty =? tDOUBLE then bread 8 r else None.
Definition r_f32 fuel tag req bs := with_seek fuel tag req bs read_f32_body.
Definition r_f64 fuel tag req bs := with_seek fuel tag req bs read_f64_body.

(* ReadString as repaired: an announced length that exceeds what is left is an error *)
Definition take_str (l : N) (r : list N) : option (list N * list N) :=
  if N.of_nat (length r) <? l then None else Some (firstn (N.to_nat l) r, skipn (N.to_nat l) r).
Definition read_string_body (ty : N) (r : list N) : option (list N * list N) :=
  if ty =? tSTR4 then match bread 4 r with None => None | Some (l, r') => take_str l r' end
  else if ty =? tSTR1 then match r with [] => None | l :: r' => take_str l r' end
  else None.
Definition r_string fuel tag req bs := with_seek fuel tag req bs read_string_body.

(* ---------- the declarative wire specification (from the protocol description, not from the code) ---------- *)
Definition fits (bits : Z) (v : Z) : bool := ((- 2 ^ (bits - 1) <=? v) && (v <? 2 ^ (bits - 1)))%Z.
Definition spec_head (ty tag : N) : list N := if tag <? 15 then [tag * 16 + ty] else [15 * 16 + ty; tag].
Definition spec_int (v : Z) (tag : N) : list N :=
  if (v =? 0)%Z then spec_head 12 tag
  else if fits 8 v then spec_head 0 tag ++ be 1 (wrapu 8 v)
  else if fits 16 v then spec_head 1 tag ++ be 2 (wrapu 16 v)
  else if fits 32 v then spec_head 2 tag ++ be 4 (wrapu 32 v)
  else spec_head 3 tag ++ be 8 (wrapu 64 v).
Definition spec_f32 (bits tag : N) := spec_head 4 tag ++ be 4 bits.
Definition spec_f64 (bits tag : N) := spec_head 5 tag ++ be 8 bits.
Definition spec_string (s : list N) (tag : N) : list N :=
  if N.of_nat (length s) <=? 255 then spec_head 6 tag ++ be 1 (N.of_nat (length s)) ++ s
  else spec_head 7 tag ++ be 4 (N.of_nat (length s)) ++ s.

(* ---------- correspondence (C02): one case = what was written and how it read back ---------- *)
Inductive pty := PBool | PI8 | PU8 | PI16 | PU16 | PI32 | PU32 | PI64 | PF32 | PF64 | PStr.
(* value: integers and bools as Z, floats as bit patterns in Z, strings as bytes *)
Inductive pval := PZ (z : Z) | PS (s : hexs).
Inductive pobs := ObsOk (v : pval) (remaining : N) | ObsErr.
Definition pval_eqb (a b : pval) : bool :=
  match a, b with PZ x, PZ y => (x =? y)%Z | PS x, PS y => bytes_eqb (unhex x) (unhex y) | _, _ => false end.

Definition write_p (t : pty) (v : pval) (tag : N) : list N :=
  match t, v with
  | PBool, PZ z => w_bool (negb (z =? 0)%Z) tag
  | PI8, PZ z => w_int8 z tag | PU8, PZ z => w_uint8 z tag
  | PI16, PZ z => w_int16 z tag | PU16, PZ z => w_uint16 z tag
  | PI32, PZ z => w_int32 z tag | PU32, PZ z => w_uint32 z tag
  | PI64, PZ z => w_int64 z tag
  | PF32, PZ z => w_f32 (Z.to_N z) tag | PF64, PZ z => w_f64 (Z.to_N z) tag
  | PStr, PS s => w_string (unhex s) tag
  | _, _ => []
  end.

Definition obs_of_z (r : rres Z) : pobs :=
  match r with ROk z rest => ObsOk (PZ z) (N.of_nat (length rest)) | RAbsent rest => ObsOk (PZ (-777)) (N.of_nat (length rest)) | _ => ObsErr end.

(* absent optional fields leave the target untouched: the harness pre-sets -777 / "absent" there *)
Definition read_p (t : pty) (fuel : nat) (tag : N) (req : bool) (bs : list N) : rres Z + rres (list N) :=
  match t with
  | PBool => inl (map_r (fun b : bool => if b then 1 else 0)%Z (r_bool fuel tag req bs))
  | PI8 => inl (r_int8 fuel tag req bs) | PU8 => inl (r_uint8 fuel tag req bs)
  | PI16 => inl (r_int16 fuel tag req bs) | PU16 => inl (r_uint16 fuel tag req bs)
  | PI32 => inl (r_int32 fuel tag req bs) | PU32 => inl (r_uint32 fuel tag req bs)
  | PI64 => inl (r_int64 fuel tag req bs)
  | PF32 => inl (map_r Z.of_N (r_f32 fuel tag req bs)) | PF64 => inl (map_r Z.of_N (r_f64 fuel tag req bs))
  | PStr => inr (r_string fuel tag req bs)
  end.

(* case: writer type, value, tag, bytes observed from the writer, suffix appended, reader type, read tag,
   require flag, observed read result (value or error, bytes remaining; None for the value = field absent) *)
Definition c02_case := (pty * pval * N * hexs * hexs * pty * N * bool * option (option pval * N))%type.
Definition c02_check (c : c02_case) : bool :=
  let '(wt, v, tag, written, suffix, rt, rtag, req, obs) := c in
  let w := write_p wt v tag in
  bytes_eqb w (unhex written) &&
  let bs := unhex written ++ unhex suffix in
  match read_p rt (fuel_for bs) rtag req bs, obs with
  | inl (ROk z rest), Some (Some (PZ z'), n) => (z =? z')%Z && (N.of_nat (length rest) =? n)
  | inr (ROk s rest), Some (Some (PS s'), n) => bytes_eqb s (unhex s') && (N.of_nat (length rest) =? n)
  | inl (RAbsent rest), Some (None, n) => N.of_nat (length rest) =? n
  | inr (RAbsent rest), Some (None, n) => N.of_nat (length rest) =? n
  | inl RErr, None => true
  | inr RErr, None => true
  | _, _ => false
  end.

(* arbitrary-bytes reads (malformed stream): bytes, reader type, tag, require, observation *)
Definition c02_raw_case := (hexs * pty * N * bool * option (option pval * N))%type.
Definition c02_raw_check (c : c02_raw_case) : bool :=
  let '(bytes, rt, rtag, req, obs) := c in
  let bs := unhex bytes in
  match read_p rt (fuel_for bs) rtag req bs, obs with
  | inl (ROk z rest), Some (Some (PZ z'), n) => (z =? z')%Z && (N.of_nat (length rest) =? n)
  | inr (ROk s rest), Some (Some (PS s'), n) => bytes_eqb s (unhex s') && (N.of_nat (length rest) =? n)
  | inl (RAbsent rest), Some (None, n) => N.of_nat (length rest) =? n
  | inr (RAbsent rest), Some (None, n) => N.of_nat (length rest) =? n
  | inl RErr, None => true
  | inr RErr, None => true
  | _, _ => false
  end.
Definition c02_all (c : c02_case + c02_raw_case) : bool :=
  match c with inl a => c02_check a | inr b => c02_raw_check b end.
