(* C05: the allocation of the repaired decoder is linear in the input for every type with a finite type graph: every
   count that passes the check in front of make, plus every map entry inserted, summed over one run on ANY bytes
   (successful or failing), is at most tneed(type) x the bytes consumed (success) / the bytes given (failure). *)
From Coq Require Import List NArith ZArith Lia Bool Arith.
From Coq Require Import ZifyN ZifyNat ZifyBool.
From TarsV Require Import Gen.Consts Base.Hex Codec.Wire Codec.WireProofs Codec.Skip Codec.SkipProofs Codec.Prim
  Codec.PrimProofs Codec.GenCodec Codec.Corr Codec.GenProofs Codec.RoundTrip Codec.RoundTripProofs Codec.TotalProofs Codec.Alloc
  Gen.Schemas Codec.RoundTripExamples.
Import ListNotations.
Ltac Zify.zify_post_hook ::= Z.div_mod_to_equations.
Open Scope N_scope.

(* ---------- arithmetic of "allocated <= T x bytes" along a sequence of decodes ---------- *)
Lemma bnd_seq T a1 a2 l0 l1 l2 : (l1 <= l0)%nat -> (l2 <= l1)%nat ->
  (a1 <= T * (l0 - l1))%nat -> (a2 <= T * (l1 - l2))%nat -> (a1 + a2 <= T * (l0 - l2))%nat.
Proof.
  intros H1 H2 A1 A2.
  assert (E : (T * (l0 - l2) = T * (l0 - l1) + T * (l1 - l2))%nat) by (rewrite <- Nat.mul_add_distr_l; f_equal; lia).
  lia.
Qed.
Lemma bnd_seq_fail T a1 a2 l0 l1 : (l1 <= l0)%nat ->
  (a1 <= T * (l0 - l1))%nat -> (a2 <= T * l1)%nat -> (a1 + a2 <= T * l0)%nat.
Proof.
  intros H1 A1 A2.
  assert (E : (T * l0 = T * (l0 - l1) + T * l1)%nat) by (rewrite <- Nat.mul_add_distr_l; f_equal; lia).
  lia.
Qed.
Lemma bnd_mono T T' a c c' : (T <= T')%nat -> (c <= c')%nat -> (a <= T * c)%nat -> (a <= T' * c')%nat.
Proof. intros HT Hc Ha. pose proof (Nat.mul_le_mono T T' c c' HT Hc). lia. Qed.
Lemma bnd_plus T k a c : (k <= c)%nat -> (a <= T * c)%nat -> (k + a <= (1 + T) * c)%nat.
Proof. intros Hk Ha. rewrite Nat.mul_add_distr_r. lia. Qed.

Definition bnd {A} (T : nat) (bs : list N) (res : dres A) (a : nat) : Prop :=
  match res with
  | DOk _ r => (a <= T * (length bs - length r))%nat
  | _ => (a <= T * length bs)%nat
  end.
Lemma bnd_zero {A} T bs (res : dres A) : bnd T bs res 0.
Proof. destruct res; cbn [bnd]; apply Nat.le_0_l. Qed.

Section Alloc.
Variable e : env.

Definition AL_var (f : nat) : Prop := forall n t tag req prior bs, tfin n e t = true ->
  (2 * length bs + 3 + tneed n e t <= f)%nat ->
  bnd (tneed n e t) bs (dec_var f e tag req t prior bs) (al_var f e tag req t prior bs).
Definition AL_elems (f : nat) : Prop := forall n x cnt bs, tfin n e x = true ->
  (2 * length bs + 4 + tneed n e x <= f)%nat ->
  bnd (tneed n e x) bs (dec_elems f e x cnt bs) (al_elems f e x cnt bs) /\
  (forall vs r, dec_elems f e x cnt bs = DOk vs r -> (cnt <= Z.of_nat (length bs - length r))%Z).
Definition AL_arr (f : nat) : Prop := forall n x len i cnt cur bs, tfin n e x = true ->
  (2 * length bs + 4 + tneed n e x <= f)%nat ->
  bnd (tneed n e x) bs (dec_arr f e x len i cnt cur bs) (al_arr f e x len i cnt cur bs).
Definition AL_entries (f : nat) : Prop := forall n kt vt cnt bs, tfin n e kt = true -> tfin n e vt = true ->
  (2 * length bs + 4 + Nat.max (tneed n e kt) (tneed n e vt) <= f)%nat ->
  bnd (1 + Nat.max (tneed n e kt) (tneed n e vt)) bs (dec_entries f e kt vt cnt bs) (al_entries f e kt vt cnt bs).
Definition AL_fields (f : nat) : Prop := forall n fds ps bs, (forall fd, In fd fds -> tfin n e (fty fd) = true) ->
  (2 * length bs + 4 + length fds + tmax (tneed n e) fds <= f)%nat ->
  bnd (tmax (tneed n e) fds) bs (dec_fields f e fds ps bs) (al_fields f e fds ps bs).

Lemma al_var_S f tag req t prior bs : al_var (S f) e tag req t prior bs =
  match t with
  | TVec x =>
      match skip_to_no_check f tag req bs with
      | Found wt r =>
          if wt =? tLIST then
            match read_count r with
            | COk n r1 =>
                if (n <? 0)%Z then 0%nat
                else if (Z.of_nat (length r1) <? n)%Z then 0%nat
                else (Z.to_nat n + al_elems f e x n r1)%nat
            | CErr _ => 0%nat
            end
          else 0%nat
      | _ => 0%nat
      end
  | TArr len x =>
      match skip_to_no_check f tag req bs with
      | Found wt r =>
          if wt =? tLIST then
            match read_count r with
            | COk n r1 =>
                if (n <? 0)%Z || (Z.of_nat len <? n)%Z then 0%nat
                else al_arr f e x len 0 n (match prior with VList l => l | _ => [] end) r1
            | CErr _ => 0%nat
            end
          else 0%nat
      | _ => 0%nat
      end
  | TMap kt vt =>
      match skip_to f tMAP tag req bs with
      | Found _ r =>
          match read_count r with
          | COk n r1 => if (n <? 0)%Z || (Z.of_nat (length r1) / 2 <? n)%Z then 0%nat else al_entries f e kt vt n r1
          | CErr _ => 0%nat
          end
      | _ => 0%nat
      end
  | TStruct sid =>
      match skip_to f tSB tag req bs with
      | Found _ r => al_fields f e (fields_of e sid)
                       (match reset_default f e sid (reset_default f e sid prior) with VStruct l => l | _ => [] end) r
      | _ => 0%nat
      end
  | _ => 0%nat
  end.
Proof. destruct t; reflexivity. Qed.

Lemma tmax_ge n fds fd : In fd fds -> (tneed n e (fty fd) <= tmax (tneed n e) fds)%nat.
Proof.
  induction fds as [|a fds IH]; intros Hin; [contradiction|]. cbn [tmax fold_right]. fold (tmax (tneed n e) fds).
  destruct Hin as [->|Hin]; [lia|]. specialize (IH Hin). lia.
Qed.

Lemma al_all : forall f, AL_var f /\ AL_elems f /\ AL_arr f /\ AL_entries f /\ AL_fields f.
Proof.
  induction f as [|f (HV & HE & HA & HM & HF)].
  { split; [|split; [|split; [|split]]]; intro; intros; exfalso; lia. }
  destruct (fs_all e f) as (FV & FE & FA & FM & FF).
  split; [|split; [|split; [|split]]].
  - (* dec_var *)
    intros n t tag req prior bs Hfin Hf. destruct n as [|n]; [discriminate|]. rewrite al_var_S.
    destruct t; try apply bnd_zero.
    + (* vec *) cbn [tfin tneed] in Hfin, Hf |- *. rewrite dec_var_vec.
      pose proof (seek_fuel f tag req bs ltac:(lia)) as Hs.
      destruct (skip_to_no_check f tag req bs) as [wt r|r| |]; try apply bnd_zero. cbn [seek_good] in Hs.
      destruct (wt =? tLIST); [|apply bnd_zero].
      pose proof (read_count_len_ok r) as Hc. destruct (read_count r) as [c r1|]; [|apply bnd_zero].
      destruct (c <? 0)%Z eqn:E0; [apply bnd_zero|]. destruct (Z.of_nat (length r1) <? c)%Z eqn:E1; [apply bnd_zero|].
      destruct (HE n t c r1 Hfin ltac:(lia)) as [Hb Hcnt].
      pose proof (FE n t c r1 Hfin ltac:(lia)) as Hg.
      destruct (dec_elems f e t c r1) as [xs r2| | | |] eqn:Ed; cbn [bnd good] in *;
        try (apply (bnd_mono (1 + tneed n e t) _ _ (length r1)); [lia|lia|]; apply bnd_plus; [lia|exact Hb]).
      specialize (Hcnt xs r2 eq_refl).
      apply (bnd_mono (1 + tneed n e t) _ _ (length r1 - length r2)); [lia|lia|]. apply bnd_plus; [lia|exact Hb].
    + (* map *) cbn [tfin tneed] in Hfin, Hf |- *. apply andb_true_iff in Hfin. destruct Hfin as [Ha Hb]. rewrite dec_var_map.
      pose proof (skip_to_fuel f tMAP tag req bs ltac:(lia)) as Hs.
      destruct (skip_to f tMAP tag req bs) as [wt r|r| |]; try apply bnd_zero. cbn [seek_good] in Hs.
      pose proof (read_count_len_ok r) as Hc. destruct (read_count r) as [c r1|]; [|apply bnd_zero].
      destruct ((c <? 0)%Z || (_ <? c)%Z); [apply bnd_zero|].
      pose proof (HM n t1 t2 c r1 Ha Hb ltac:(lia)) as Hbm. pose proof (FM n t1 t2 c r1 Ha Hb ltac:(lia)) as Hg.
      destruct (dec_entries f e t1 t2 c r1) as [kvs r2| | | |]; cbn [bnd good] in *;
        try (apply (bnd_mono (1 + Nat.max (tneed n e t1) (tneed n e t2)) _ _ (length r1)); [lia|lia|exact Hbm]).
      apply (bnd_mono (1 + Nat.max (tneed n e t1) (tneed n e t2)) _ _ (length r1 - length r2)); [lia|lia|exact Hbm].
    + (* arr *) cbn [tfin tneed] in Hfin, Hf |- *. rewrite dec_var_arr.
      pose proof (seek_fuel f tag req bs ltac:(lia)) as Hs.
      destruct (skip_to_no_check f tag req bs) as [wt r|r| |]; try apply bnd_zero. cbn [seek_good] in Hs.
      destruct (wt =? tLIST); [|apply bnd_zero].
      pose proof (read_count_len_ok r) as Hc. destruct (read_count r) as [c r1|]; [|apply bnd_zero].
      destruct ((c <? 0)%Z || (_ <? c)%Z); [apply bnd_zero|].
      pose proof (HA n t n0 0%nat c (match prior with VList l => l | _ => [] end) r1 Hfin ltac:(lia)) as Hb.
      pose proof (FA n t n0 0%nat c (match prior with VList l => l | _ => [] end) r1 Hfin ltac:(lia)) as Hg.
      destruct (dec_arr f e t n0 0 c _ r1) as [xs r2| | | |]; cbn [bnd good] in *;
        try (apply (bnd_mono (tneed n e t) _ _ (length r1)); [lia|lia|exact Hb]).
      apply (bnd_mono (tneed n e t) _ _ (length r1 - length r2)); [lia|lia|exact Hb].
    + (* struct *) cbn [tfin tneed] in Hfin, Hf |- *. rewrite forallb_forall in Hfin. rewrite dec_var_struct. cbv zeta.
      pose proof (skip_to_fuel f tSB tag req bs ltac:(lia)) as Hs.
      destruct (skip_to f tSB tag req bs) as [wt r|r| |]; try apply bnd_zero. cbn [seek_good] in Hs.
      pose proof (HF n (fields_of e sid) (match reset_default f e sid (reset_default f e sid prior) with VStruct l => l | _ => [] end) r Hfin ltac:(lia)) as Hb.
      pose proof (FF n (fields_of e sid) (match reset_default f e sid (reset_default f e sid prior) with VStruct l => l | _ => [] end) r Hfin ltac:(lia)) as Hg.
      destruct (dec_fields f e (fields_of e sid) _ r) as [vs r1| | | |]; cbn [bnd good] in *;
        try (apply (bnd_mono (tmax (tneed n e) (fields_of e sid)) _ _ (length r)); [lia|lia|exact Hb]).
      destruct (skip_fuel f) as (_ & _ & He). destruct (He 0 r1 ltac:(lia)) as [Hne Hl].
      destruct (skip_to_end f 0 r1) as [s r2]. cbn [fst snd] in *.
      destruct s; cbn [bnd];
        try (apply (bnd_mono (tmax (tneed n e) (fields_of e sid)) _ _ (length r - length r1)); [lia|lia|exact Hb]).
  - (* dec_elems: bound *)
    intros n x cnt bs Hfin Hf. rewrite dec_elems_S. cbn [al_elems].
    destruct (cnt <=? 0)%Z eqn:Ec.
    { split; [cbn [bnd]; lia|]. intros vs r H. inversion H; subst. lia. }
    pose proof (HV n x 0 true (zero_of f e x) bs Hfin ltac:(lia)) as H1.
    pose proof (FV n x 0 true (zero_of f e x) bs Hfin ltac:(lia)) as G1.
    destruct (dec_var f e 0 true x (zero_of f e x) bs) as [v r| | | |]; cbn [bnd good] in *;
      try (split; [lia|intros; discriminate]).
    destruct G1 as [G1a G1b]. specialize (G1b eq_refl).
    destruct (HE n x (cnt - 1)%Z r Hfin ltac:(lia)) as [H2 C2].
    pose proof (FE n x (cnt - 1)%Z r Hfin ltac:(lia)) as G2.
    destruct (dec_elems f e x (cnt - 1)%Z r) as [vs r'| | | |]; cbn [bnd good] in *;
      try (split; [apply (bnd_seq_fail _ _ _ _ (length r)); [lia|exact H1|exact H2]|intros; discriminate]).
    split.
    + apply (bnd_seq _ _ _ _ (length r)); [lia|lia|exact H1|exact H2].
    + intros vs0 r0 H. inversion H; subst. specialize (C2 vs r0 eq_refl). lia.
  - (* dec_arr *)
    intros n x len i cnt cur bs Hfin Hf. rewrite dec_arr_S. cbn [al_arr].
    destruct (cnt <=? 0)%Z; [cbn [bnd]; lia|]. destruct (len <=? i)%nat; [cbn [bnd]; lia|].
    pose proof (HV n x 0 true (nth i cur (zero_of f e x)) bs Hfin ltac:(lia)) as H1.
    pose proof (FV n x 0 true (nth i cur (zero_of f e x)) bs Hfin ltac:(lia)) as G1.
    destruct (dec_var f e 0 true x (nth i cur (zero_of f e x)) bs) as [v r| | | |]; cbn [bnd good] in *; try lia.
    destruct G1 as [G1a G1b]. specialize (G1b eq_refl).
    pose proof (HA n x len (S i) (cnt - 1)%Z (replace_nth i v cur) r Hfin ltac:(lia)) as H2.
    pose proof (FA n x len (S i) (cnt - 1)%Z (replace_nth i v cur) r Hfin ltac:(lia)) as G2.
    destruct (dec_arr f e x len (S i) (cnt - 1)%Z (replace_nth i v cur) r) as [vs r'| | | |]; cbn [bnd good] in *;
      try (apply (bnd_seq_fail _ _ _ _ (length r)); [lia|exact H1|exact H2]).
    apply (bnd_seq _ _ _ _ (length r)); [lia|lia|exact H1|exact H2].
  - (* dec_entries *)
    intros n kt vt cnt bs Ha Hb Hf. rewrite dec_entries_S. cbn [al_entries].
    destruct (cnt <=? 0)%Z; [cbn [bnd]; lia|].
    set (T := Nat.max (tneed n e kt) (tneed n e vt)) in *.
    pose proof (HV n kt 0 true (zero_of f e kt) bs Ha ltac:(lia)) as H1.
    pose proof (FV n kt 0 true (zero_of f e kt) bs Ha ltac:(lia)) as G1.
    destruct (dec_var f e 0 true kt (zero_of f e kt) bs) as [k r| | | |]; cbn [bnd good] in *;
      try (rewrite Nat.add_0_r; apply (bnd_mono (tneed n e kt) _ _ (length bs)); [lia|lia|exact H1]).
    destruct G1 as [G1a G1b]. specialize (G1b eq_refl).
    assert (H1' : (al_var f e 0 true kt (zero_of f e kt) bs <= T * (length bs - length r))%nat)
      by (apply (bnd_mono (tneed n e kt) _ _ (length bs - length r)); [lia|lia|exact H1]).
    pose proof (HV n vt 1 true (zero_of f e vt) r Hb ltac:(lia)) as H2.
    pose proof (FV n vt 1 true (zero_of f e vt) r Hb ltac:(lia)) as G2.
    destruct (dec_var f e 1 true vt (zero_of f e vt) r) as [v r'| | | |]; cbn [bnd good] in *;
      try (rewrite Nat.add_0_r; apply (bnd_mono T _ _ (length bs)); [lia|lia|];
           apply (bnd_seq_fail _ _ _ _ (length r)); [lia|exact H1'|];
           apply (bnd_mono (tneed n e vt) _ _ (length r)); [lia|lia|exact H2]).
    destruct G2 as [G2a G2b]. specialize (G2b eq_refl).
    assert (H2' : (al_var f e 1 true vt (zero_of f e vt) r <= T * (length r - length r'))%nat)
      by (apply (bnd_mono (tneed n e vt) _ _ (length r - length r')); [lia|lia|exact H2]).
    assert (Hkv : (al_var f e 0 true kt (zero_of f e kt) bs + (al_var f e 1 true vt (zero_of f e vt) r + 1)
                   <= (1 + T) * (length bs - length r'))%nat).
    { assert (L1 : (length r <= length bs)%nat) by lia. assert (L2 : (length r' <= length r)%nat) by lia.
      pose proof (bnd_seq T _ _ _ _ _ L1 L2 H1' H2') as H12.
      replace (_ + (_ + 1))%nat with (1 + (al_var f e 0 true kt (zero_of f e kt) bs + al_var f e 1 true vt (zero_of f e vt) r))%nat by lia.
      apply bnd_plus; [lia|exact H12]. }
    pose proof (HM n kt vt (cnt - 1)%Z r' Ha Hb ltac:(lia)) as H3. fold T in H3.
    pose proof (FM n kt vt (cnt - 1)%Z r' Ha Hb ltac:(lia)) as G3.
    destruct (dec_entries f e kt vt (cnt - 1)%Z r') as [kvs r''| | | |]; cbn [bnd good] in *.
    + replace (_ + (_ + (1 + _)))%nat
        with ((al_var f e 0 true kt (zero_of f e kt) bs + (al_var f e 1 true vt (zero_of f e vt) r + 1)) + al_entries f e kt vt (cnt - 1) r')%nat by lia.
      apply (bnd_seq _ _ _ _ (length r')); [lia|lia|exact Hkv|exact H3].
    + replace (_ + (_ + (1 + _)))%nat
        with ((al_var f e 0 true kt (zero_of f e kt) bs + (al_var f e 1 true vt (zero_of f e vt) r + 1)) + al_entries f e kt vt (cnt - 1) r')%nat by lia.
      apply (bnd_seq_fail _ _ _ _ (length r')); [lia|exact Hkv|exact H3].
    + replace (_ + (_ + (1 + _)))%nat
        with ((al_var f e 0 true kt (zero_of f e kt) bs + (al_var f e 1 true vt (zero_of f e vt) r + 1)) + al_entries f e kt vt (cnt - 1) r')%nat by lia.
      apply (bnd_seq_fail _ _ _ _ (length r')); [lia|exact Hkv|exact H3].
    + replace (_ + (_ + (1 + _)))%nat
        with ((al_var f e 0 true kt (zero_of f e kt) bs + (al_var f e 1 true vt (zero_of f e vt) r + 1)) + al_entries f e kt vt (cnt - 1) r')%nat by lia.
      apply (bnd_seq_fail _ _ _ _ (length r')); [lia|exact Hkv|exact H3].
    + contradiction.
  - (* dec_fields *)
    intros n fds ps bs Hfin Hf. rewrite dec_fields_S. cbn [al_fields]. destruct fds as [|fd fds]; [cbn [bnd]; lia|]. cbv zeta.
    cbn [length tmax fold_right] in Hf |- *. fold (tmax (tneed n e) fds) in Hf |- *.
    set (p := match ps with p :: _ => p | [] => zero_of f e (fty fd) end).
    set (T := Nat.max (tneed n e (fty fd)) (tmax (tneed n e) fds)) in *.
    pose proof (HV n (fty fd) (ftag fd) (freq fd) p bs (Hfin fd (or_introl eq_refl)) ltac:(lia)) as H1.
    pose proof (FV n (fty fd) (ftag fd) (freq fd) p bs (Hfin fd (or_introl eq_refl)) ltac:(lia)) as G1.
    destruct (dec_var f e (ftag fd) (freq fd) (fty fd) p bs) as [v r| | | |]; cbn [bnd good] in *;
      try (rewrite Nat.add_0_r; apply (bnd_mono (tneed n e (fty fd)) _ _ (length bs)); [lia|lia|exact H1]).
    destruct G1 as [G1a _].
    assert (H1' : (al_var f e (ftag fd) (freq fd) (fty fd) p bs <= T * (length bs - length r))%nat)
      by (apply (bnd_mono (tneed n e (fty fd)) _ _ (length bs - length r)); [lia|lia|exact H1]).
    pose proof (HF n fds (tl ps) r (fun fd' Hin => Hfin fd' (or_intror Hin)) ltac:(lia)) as H2.
    pose proof (FF n fds (tl ps) r (fun fd' Hin => Hfin fd' (or_intror Hin)) ltac:(lia)) as G2.
    destruct (dec_fields f e fds (tl ps) r) as [vs r'| | | |]; cbn [bnd good] in *;
      try (apply (bnd_seq_fail _ _ _ _ (length r)); [lia|exact H1'|];
           apply (bnd_mono (tmax (tneed n e) fds) _ _ (length r)); [lia|lia|exact H2]).
    apply (bnd_seq _ _ _ _ (length r)); [lia|lia|exact H1'|].
    apply (bnd_mono (tmax (tneed n e) fds) _ _ (length r - length r')); [lia|lia|exact H2].
Qed.

(* one ReadFrom of any bytes into any target: the allocation is at most tneed(type) x the input length *)
Theorem alloc_linear n sid prior bs : tfin n e (TStruct sid) = true -> (tneed n e (TStruct sid) <= 64)%nat ->
  (alloc_of e sid prior bs <= tneed n e (TStruct sid) * length bs)%nat.
Proof.
  intros Hfin Hn. destruct n as [|n]; [discriminate|]. cbn [tfin tneed] in Hfin, Hn |- *. rewrite forallb_forall in Hfin.
  unfold alloc_of. cbv zeta. destruct (al_all (4 * length bs + 64)) as (_ & _ & _ & _ & HF).
  pose proof (HF n (fields_of e sid) (match reset_default (4 * length bs + 64) e sid prior with VStruct l => l | _ => [] end) bs Hfin ltac:(lia)) as H.
  destruct (dec_fields (4 * length bs + 64) e (fields_of e sid) _ bs); cbn [bnd] in H;
    (eapply bnd_mono; [| |exact H]; lia).
Qed.
End Alloc.
Print Assumptions alloc_linear.

(* ---------- recursive types: the bound does NOT hold - allocation grows quadratically ---------- *)
(* struct Rec { 0 require int id; 1 optional vector<Rec> kids; }: every level announces as many kids as bytes are
   left; each count passes the check in front of make. 8 bytes per level: 0c (id = 0), 19 (kids: LIST), 02 nnnnnnnn
   (count), 0a (StructBegin of the first kid). *)
Definition rec_env : env :=
  [[ {| ftag := 0; freq := true; fty := TI32; fdef := None |};
     {| ftag := 1; freq := false; fty := TVec (TStruct 0); fdef := None |} ]].
Fixpoint rec_attack (levels : nat) (left : N) : list N :=
  match levels with
  | O => []
  | S k => [12; 25; 2] ++ be 4 left ++ [10] ++ rec_attack k (left - 8)
  end.
Example alloc_recursive_quadratic :
  N.of_nat (length (rec_attack 25 193)) = 200 /\ N.of_nat (alloc_of rec_env 0 (VInt 0) (rec_attack 25 193)) = 2425 /\
  N.of_nat (length (rec_attack 50 393)) = 400 /\ N.of_nat (alloc_of rec_env 0 (VInt 0) (rec_attack 50 393)) = 9850 /\
  decode rec_env 0 (rec_attack 50 393) = DErr.
Proof. vm_compute. repeat split; reflexivity. Qed.

(* on the schemas regenerated from the tree: every generated struct type that fits the model allocates at most
   64 x the input length, whatever the bytes *)
Theorem env0_alloc_linear : forall sid prior bs, fits_model sid = true ->
  (alloc_of env0 sid prior bs <= 64 * length bs)%nat.
Proof.
  intros sid prior bs Hm. destruct (fits_model_spec sid Hm) as [Hfin Hn].
  pose proof (alloc_linear env0 8 sid prior bs Hfin ltac:(lia)) as H.
  eapply bnd_mono; [| |exact H]; lia.
Qed.
