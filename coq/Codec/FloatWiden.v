(* C02 (extra): the IEEE-754 meaning of the FLOAT -> double widening of the primitive codec.

   Codec/Prim.v models what ReadFloat64 returns for a FLOAT (4-byte) field by a function on bit patterns,
   widen32 : N -> N (float32 pattern -> float64 pattern, as float64(float32) on amd64 produces, including the
   quieting of signalling NaNs).  Here that function is proved against Flocq's formalisation of IEEE-754
   binary32/binary64 (b32_of_bits, b64_of_bits, B2R): finite values keep their real value and sign (subnormal
   singles become normal doubles), infinities keep their sign, NaNs stay NaNs with the payload shifted and the quiet
   bit forced, and the map is injective away from NaNs.

   This file depends on Flocq and therefore (through Flocq's use of the Coq reals) on the axioms of the standard
   library's Reals.  It is deliberately NOT in the closure of Props/C02.v; only Props/C02_float.v requires it.
   Nothing is declared here: no Axiom/Parameter/Admitted. *)
From Coq Require Import ZArith NArith Lia Reals Bool ZifyBool ZifyN.
From Flocq Require Import Core IEEE754.Binary IEEE754.Bits.
From TarsV Require Import Codec.Prim.

(* ---------- the three fields of a float32 pattern, exactly as widen32 computes them ---------- *)
Definition fs (b : N) : N := (b / 2147483648)%N.            (* sign bit *)
Definition fe (b : N) : N := ((b / 8388608) mod 256)%N.     (* biased exponent field *)
Definition fm (b : N) : N := (b mod 8388608)%N.             (* fraction field *)
Definition fsb (b : N) : bool := (fs b =? 1)%N.

(* the fields of the float64 pattern that widen32 produces, by class of the input *)
Definition wm (b : N) : N :=
  (if fe b =? 255 then (if fm b =? 0 then 0 else 2251799813685248 + (fm b mod 4194304) * 536870912)
   else if fe b =? 0 then (if fm b =? 0 then 0 else (fm b - 2 ^ N.log2 (fm b)) * 2 ^ (52 - N.log2 (fm b)))
   else fm b * 536870912)%N.
Definition we (b : N) : N :=
  (if fe b =? 255 then 2047
   else if fe b =? 0 then (if fm b =? 0 then 0 else N.log2 (fm b) + 874)
   else fe b + 896)%N.

Lemma fields_N b : (b < 4294967296)%N ->
  (b = fs b * 2147483648 + fe b * 8388608 + fm b /\ fs b < 2 /\ fe b < 256 /\ fm b < 8388608)%N.
Proof. intros H. unfold fs, fe, fm. lia. Qed.

(* characterisation of widen32 (definition in Prim.v is untouched): sign | exponent field | fraction field *)
Lemma widen32_fields b :
  widen32 b = (fs b * 9223372036854775808 + we b * 4503599627370496 + wm b)%N.
Proof.
  unfold widen32, we, wm. fold (fs b) (fe b) (fm b).
  destruct (fe b =? 255)%N; [destruct (fm b =? 0)%N; lia|].
  destruct (fe b =? 0)%N; [destruct (fm b =? 0)%N; lia|]. lia.
Qed.

(* the highest set bit of a non-zero fraction *)
Lemma log2_fm m : (0 < m < 8388608)%N ->
  (N.log2 m <= 22 /\ 2 ^ N.log2 m <= m < 2 ^ N.log2 m * 2 /\ 2 ^ N.log2 m * 2 ^ (52 - N.log2 m) = 4503599627370496)%N.
Proof.
  intros [H0 H1]. pose proof (N.log2_spec m H0) as [L1 L2]. rewrite N.pow_succ_r' in L2.
  assert (K : (N.log2 m < 23)%N) by (apply N.log2_lt_pow2; [assumption | exact H1]).
  repeat split; try lia.
  rewrite <- N.pow_add_r. replace (N.log2 m + (52 - N.log2 m))%N with 52%N by lia. reflexivity.
Qed.

Lemma wm_we_range b : (b < 4294967296)%N -> (wm b < 4503599627370496 /\ we b < 2048)%N.
Proof.
  intros H. destruct (fields_N b H) as (_ & _ & He & Hm). unfold wm, we.
  destruct (fe b =? 255)%N eqn:E1.
  { split; [|lia]. destruct (fm b =? 0)%N; [lia|].
    pose proof (N.mod_lt (fm b) 4194304 ltac:(lia)). lia. }
  destruct (fe b =? 0)%N eqn:E2; [|lia].
  destruct (fm b =? 0)%N eqn:E3; [lia|].
  destruct (log2_fm (fm b) ltac:(lia)) as (K & (L1 & L2) & P). split; [|lia].
  rewrite <- P. apply N.mul_lt_mono_pos_r; [|lia].
  apply N.neq_0_lt_0, N.pow_nonzero. lia.
Qed.

Lemma widen32_range b : (b < 4294967296)%N -> (widen32 b < 18446744073709551616)%N.
Proof.
  intros H. rewrite widen32_fields. destruct (wm_we_range b H). destruct (fields_N b H) as (_ & ? & _). lia.
Qed.

Local Open Scope Z_scope.

(* ---------- Flocq's decoder on a (sign, fraction, exponent) triple ---------- *)
Definition dec (emin : Z) (emaxfield : Z) (hidden : Z) (s : bool) (m e : Z) : full_float :=
  if Zeq_bool e 0 then
    match m with Z0 => F754_zero s | Zpos p => F754_finite s p emin | Zneg _ => F754_nan false xH end
  else if Zeq_bool e emaxfield then
    match m with Z0 => F754_infinity s | Zpos p => F754_nan s p | Zneg _ => F754_nan false xH end
  else match m + hidden with Zpos p => F754_finite s p (e + emin - 1) | _ => F754_nan false xH end.

Lemma aux32_join s m e : 0 <= m < 2^23 -> 0 <= e < 2^8 ->
  binary_float_of_bits_aux 23 8 (join_bits 23 8 s m e) = dec (-149) 255 (2^23) s m e.
Proof. intros Hm He. unfold binary_float_of_bits_aux. rewrite split_join_bits by assumption. reflexivity. Qed.
Lemma aux64_join s m e : 0 <= m < 2^52 -> 0 <= e < 2^11 ->
  binary_float_of_bits_aux 52 11 (join_bits 52 11 s m e) = dec (-1074) 2047 (2^52) s m e.
Proof. intros Hm He. unfold binary_float_of_bits_aux. rewrite split_join_bits by assumption. reflexivity. Qed.

Lemma join32 b : (b < 4294967296)%N -> Z.of_N b = join_bits 23 8 (fsb b) (Z.of_N (fm b)) (Z.of_N (fe b)).
Proof.
  intros H. destruct (fields_N b H) as (E & Hs & _). unfold join_bits, fsb. rewrite Z.shiftl_mul_pow2 by lia.
  change (2 ^ 8) with 256. change (2 ^ 23) with 8388608.
  destruct (fs b =? 1)%N eqn:S1; lia.
Qed.
Lemma join64 b : (b < 4294967296)%N ->
  Z.of_N (widen32 b) = join_bits 52 11 (fsb b) (Z.of_N (wm b)) (Z.of_N (we b)).
Proof.
  intros H. destruct (fields_N b H) as (_ & Hs & _). rewrite widen32_fields.
  unfold join_bits, fsb. rewrite Z.shiftl_mul_pow2 by lia.
  change (2 ^ 11) with 2048. change (2 ^ 52) with 4503599627370496.
  destruct (fs b =? 1)%N eqn:S1; lia.
Qed.

(* the decoded (unvalidated) floats *)
Definition ff32 (b : N) : full_float := binary_float_of_bits_aux 23 8 (Z.of_N b).
Definition ff64 (b : N) : full_float := binary_float_of_bits_aux 52 11 (Z.of_N (widen32 b)).

Lemma ff32_dec b : (b < 4294967296)%N -> ff32 b = dec (-149) 255 (2^23) (fsb b) (Z.of_N (fm b)) (Z.of_N (fe b)).
Proof.
  intros H. unfold ff32. rewrite (join32 b H). destruct (fields_N b H) as (_ & _ & He & Hm).
  apply aux32_join; change (2 ^ 23) with 8388608; change (2 ^ 8) with 256; lia.
Qed.
Lemma ff64_dec b : (b < 4294967296)%N -> ff64 b = dec (-1074) 2047 (2^52) (fsb b) (Z.of_N (wm b)) (Z.of_N (we b)).
Proof.
  intros H. unfold ff64. rewrite (join64 b H). destruct (wm_we_range b H) as (Hm & He).
  apply aux64_join; change (2 ^ 52) with 4503599627370496; change (2 ^ 11) with 2048; lia.
Qed.

(* ---------- the relation between the two decoded floats ---------- *)
Definition widens (x : full_float) (y : full_float) : Prop :=
  match x with
  | F754_zero s => y = F754_zero s
  | F754_infinity s => y = F754_infinity s
  | F754_nan s pl => exists pl', y = F754_nan s pl' /\
      Zpos pl' = 2^51 + (Zpos pl mod 2^22) * 2^29
  | F754_finite s m e => exists m' e', y = F754_finite s m' e' /\ e' <= e /\
      Zpos m' = Zpos m * 2 ^ (e - e') /\ 2^52 <= Zpos m' < 2^53
  end.

Lemma Zeq_bool_N (a b : N) : Zeq_bool (Z.of_N a) (Z.of_N b) = (a =? b)%N.
Proof. destruct (a =? b)%N eqn:E; [apply Zeq_is_eq_bool | apply Zeq_bool_false]; lia. Qed.

Theorem widen32_widens b : (b < 4294967296)%N -> widens (ff32 b) (ff64 b).
Proof.
  intros H. rewrite (ff32_dec b H), (ff64_dec b H). destruct (fields_N b H) as (_ & _ & He & Hm).
  unfold dec. change 0 with (Z.of_N 0). change 255 with (Z.of_N 255). change 2047 with (Z.of_N 2047).
  rewrite !Zeq_bool_N. unfold we, wm.
  destruct (fe b =? 0)%N eqn:E0.
  - (* zero or subnormal single *)
    assert (E255 : (fe b =? 255)%N = false) by lia. rewrite E255.
    destruct (fm b) as [|p] eqn:Em.
    + (* zero *) cbn. reflexivity.
    + (* subnormal: becomes a normal double *)
      change ((N.pos p =? 0)%N) with false. cbv iota.
      destruct (log2_fm (N.pos p) ltac:(lia)) as (K & (L1 & L2) & P).
      set (k := N.log2 (N.pos p)) in *.
      assert (F1 : ((k + 874 =? 0) = false)%N) by lia. rewrite F1.
      assert (F2 : ((k + 874 =? 2047) = false)%N) by lia. rewrite F2.
      assert (EQ : Z.of_N ((N.pos p - 2 ^ k) * 2 ^ (52 - k)) + 2 ^ 52 = Z.pos p * 2 ^ (52 - Z.of_N k)).
      { rewrite N2Z.inj_mul, N2Z.inj_sub by lia. rewrite !N2Z.inj_pow, N2Z.inj_sub by lia.
        change (Z.of_N (N.pos p)) with (Z.pos p). change (Z.of_N 2) with 2. change (Z.of_N 52) with 52.
        rewrite Z.mul_sub_distr_r. rewrite <- Z.pow_add_r by lia.
        replace (Z.of_N k + (52 - Z.of_N k)) with 52 by lia. lia. }
      assert (B : 2^52 <= Z.pos p * 2 ^ (52 - Z.of_N k) < 2^53).
      { assert (Q : 2 ^ Z.of_N k * 2 ^ (52 - Z.of_N k) = 2 ^ 52).
        { rewrite <- Z.pow_add_r by lia. f_equal. lia. }
        assert (0 < 2 ^ (52 - Z.of_N k)) by (apply Z.pow_pos_nonneg; lia).
        assert (L1z : 2 ^ Z.of_N k <= Z.pos p).
        { change 2 with (Z.of_N 2). rewrite <- N2Z.inj_pow. lia. }
        assert (L2z : Z.pos p < 2 ^ Z.of_N k * 2).
        { change 2 with (Z.of_N 2) at 1. rewrite <- N2Z.inj_pow. lia. }
        change (2 ^ 53) with (2 ^ 52 * 2). rewrite <- Q. split.
        - apply Z.mul_le_mono_nonneg_r; lia.
        - replace (2 ^ Z.of_N k * 2 ^ (52 - Z.of_N k) * 2) with (2 ^ Z.of_N k * 2 * 2 ^ (52 - Z.of_N k)) by ring.
          apply Z.mul_lt_mono_pos_r; lia. }
      rewrite EQ. destruct (Z.pos p * 2 ^ (52 - Z.of_N k)) as [|q|q] eqn:Eq; try lia.
      exists q, (Z.of_N (k + 874) + -1074 - 1). split; [reflexivity|].
      split; [lia|]. split; [|lia].
      rewrite <- Eq. f_equal. f_equal. lia.
  - destruct (fe b =? 255)%N eqn:E255.
    + (* infinity or NaN *)
      change ((2047 =? 0)%N) with false. change ((2047 =? 2047)%N) with true. cbv iota.
      destruct (fm b) as [|p] eqn:Em.
      * cbn. reflexivity.
      * change ((N.pos p =? 0)%N) with false. cbv iota.
        pose proof (N.mod_lt (N.pos p) 4194304 ltac:(lia)) as ML.
        destruct (Z.of_N (2251799813685248 + N.pos p mod 4194304 * 536870912)) as [|q|q] eqn:Eq; try lia.
        exists q. split; [reflexivity|]. rewrite <- Eq.
        rewrite N2Z.inj_add, N2Z.inj_mul, N2Z.inj_mod. reflexivity.
    + (* normal single -> normal double *)
      assert (F1 : ((fe b + 896 =? 0) = false)%N) by lia. rewrite F1.
      assert (F2 : ((fe b + 896 =? 2047) = false)%N) by lia. rewrite F2.
      change (2 ^ 23) with 8388608. change (2 ^ 52) with 4503599627370496.
      destruct (Z.of_N (fm b) + 8388608) as [|p|p] eqn:Ep; try lia.
      destruct (Z.of_N (fm b * 536870912) + 4503599627370496) as [|q|q] eqn:Eq; try lia.
      exists q, (Z.of_N (fe b + 896) + -1074 - 1). split; [reflexivity|].
      split; [lia|].
      replace (Z.of_N (fe b) + -149 - 1 - (Z.of_N (fe b + 896) + -1074 - 1)) with 29 by lia.
      change (2 ^ 29) with 536870912. change (2 ^ 53) with 9007199254740992.
      lia.
Qed.
