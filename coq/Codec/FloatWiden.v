(* C02 (extra): the IEEE-754 meaning of the FLOAT -> double widening of the primitive codec.

   Codec/Prim.v models what ReadFloat64 returns for a FLOAT (4-byte) field by a function on bit patterns,
   widen32 : N -> N (float32 pattern -> float64 pattern, as float64(float32) on amd64 produces, including the
   quieting of signalling NaNs).  Here that function is proved against Flocq's formalisation of IEEE-754
   binary32/binary64 (b32_of_bits, b64_of_bits, B2R): finite values keep their real value and sign (subnormal
   singles become normal doubles), infinities keep their sign, NaNs stay NaNs with the payload shifted and the quiet
   bit forced, and the map is injective away from NaNs.

   This file depends on Flocq and therefore (through Flocq's use of the Coq reals) on the axioms of the standard
   library's Reals.  It is deliberately NOT in the closure of Props/C02.v; only Props/C02_float.v requires it.
   Nothing is declared here: no Axiom/Parameter/Admitted. *)
From Coq Require Import ZArith NArith Lia Reals Bool ZifyBool ZifyN.
From Flocq Require Import Core IEEE754.Binary IEEE754.Bits.
From TarsV Require Import Codec.Prim Codec.PrimProofs.

(* ---------- the three fields of a float32 pattern, exactly as widen32 computes them ---------- *)
Definition fs (b : N) : N := (b / 2147483648)%N.            (* sign bit *)
Definition fe (b : N) : N := ((b / 8388608) mod 256)%N.     (* biased exponent field *)
Definition fm (b : N) : N := (b mod 8388608)%N.             (* fraction field *)
Definition fsb (b : N) : bool := (fs b =? 1)%N.

(* the fields of the float64 pattern that widen32 produces, by class of the input *)
Definition wm (b : N) : N :=
  (if fe b =? 255 then (if fm b =? 0 then 0 else 2251799813685248 + (fm b mod 4194304) * 536870912)
   else if fe b =? 0 then (if fm b =? 0 then 0 else (fm b - 2 ^ N.log2 (fm b)) * 2 ^ (52 - N.log2 (fm b)))
   else fm b * 536870912)%N.
Definition we (b : N) : N :=
  (if fe b =? 255 then 2047
   else if fe b =? 0 then (if fm b =? 0 then 0 else N.log2 (fm b) + 874)
   else fe b + 896)%N.

Lemma fields_N b : (b < 4294967296)%N ->
  (b = fs b * 2147483648 + fe b * 8388608 + fm b /\ fs b < 2 /\ fe b < 256 /\ fm b < 8388608)%N.
Proof. intros H. unfold fs, fe, fm. lia. Qed.

(* characterisation of widen32 (definition in Prim.v is untouched): sign | exponent field | fraction field *)
Lemma widen32_fields b :
  widen32 b = (fs b * 9223372036854775808 + we b * 4503599627370496 + wm b)%N.
Proof.
  unfold widen32, we, wm. fold (fs b) (fe b) (fm b).
  destruct (fe b =? 255)%N; [destruct (fm b =? 0)%N; lia|].
  destruct (fe b =? 0)%N; [destruct (fm b =? 0)%N; lia|]. lia.
Qed.

(* the highest set bit of a non-zero fraction *)
Lemma log2_fm m : (0 < m < 8388608)%N ->
  (N.log2 m <= 22 /\ 2 ^ N.log2 m <= m < 2 ^ N.log2 m * 2 /\ 2 ^ N.log2 m * 2 ^ (52 - N.log2 m) = 4503599627370496)%N.
Proof.
  intros [H0 H1]. pose proof (N.log2_spec m H0) as [L1 L2]. rewrite N.pow_succ_r' in L2.
  assert (K : (N.log2 m < 23)%N) by (apply N.log2_lt_pow2; [assumption | exact H1]).
  repeat split; try lia.
  rewrite <- N.pow_add_r. replace (N.log2 m + (52 - N.log2 m))%N with 52%N by lia. reflexivity.
Qed.

Lemma wm_we_range b : (b < 4294967296)%N -> (wm b < 4503599627370496 /\ we b < 2048)%N.
Proof.
  intros H. destruct (fields_N b H) as (_ & _ & He & Hm). unfold wm, we.
  destruct (fe b =? 255)%N eqn:E1.
  { split; [|lia]. destruct (fm b =? 0)%N; [lia|].
    pose proof (N.mod_lt (fm b) 4194304 ltac:(lia)). lia. }
  destruct (fe b =? 0)%N eqn:E2; [|lia].
  destruct (fm b =? 0)%N eqn:E3; [lia|].
  destruct (log2_fm (fm b) ltac:(lia)) as (K & (L1 & L2) & P). split; [|lia].
  rewrite <- P. apply N.mul_lt_mono_pos_r; [|lia].
  apply N.neq_0_lt_0, N.pow_nonzero. lia.
Qed.

Lemma widen32_range b : (b < 4294967296)%N -> (widen32 b < 18446744073709551616)%N.
Proof.
  intros H. rewrite widen32_fields. destruct (wm_we_range b H). destruct (fields_N b H) as (_ & ? & _). lia.
Qed.

Local Open Scope Z_scope.

(* ---------- Flocq's decoder on a (sign, fraction, exponent) triple ---------- *)
Definition dec (emin : Z) (emaxfield : Z) (hidden : Z) (s : bool) (m e : Z) : full_float :=
  if Zeq_bool e 0 then
    match m with Z0 => F754_zero s | Zpos p => F754_finite s p emin | Zneg _ => F754_nan false xH end
  else if Zeq_bool e emaxfield then
    match m with Z0 => F754_infinity s | Zpos p => F754_nan s p | Zneg _ => F754_nan false xH end
  else match m + hidden with Zpos p => F754_finite s p (e + emin - 1) | _ => F754_nan false xH end.

Lemma aux32_join s m e : 0 <= m < 2^23 -> 0 <= e < 2^8 ->
  binary_float_of_bits_aux 23 8 (join_bits 23 8 s m e) = dec (-149) 255 (2^23) s m e.
Proof. intros Hm He. unfold binary_float_of_bits_aux. rewrite split_join_bits by assumption. reflexivity. Qed.
Lemma aux64_join s m e : 0 <= m < 2^52 -> 0 <= e < 2^11 ->
  binary_float_of_bits_aux 52 11 (join_bits 52 11 s m e) = dec (-1074) 2047 (2^52) s m e.
Proof. intros Hm He. unfold binary_float_of_bits_aux. rewrite split_join_bits by assumption. reflexivity. Qed.

Lemma join32 b : (b < 4294967296)%N -> Z.of_N b = join_bits 23 8 (fsb b) (Z.of_N (fm b)) (Z.of_N (fe b)).
Proof.
  intros H. destruct (fields_N b H) as (E & Hs & _). unfold join_bits, fsb. rewrite Z.shiftl_mul_pow2 by lia.
  change (2 ^ 8) with 256. change (2 ^ 23) with 8388608.
  destruct (fs b =? 1)%N eqn:S1; lia.
Qed.
Lemma join64 b : (b < 4294967296)%N ->
  Z.of_N (widen32 b) = join_bits 52 11 (fsb b) (Z.of_N (wm b)) (Z.of_N (we b)).
Proof.
  intros H. destruct (fields_N b H) as (_ & Hs & _). rewrite widen32_fields.
  unfold join_bits, fsb. rewrite Z.shiftl_mul_pow2 by lia.
  change (2 ^ 11) with 2048. change (2 ^ 52) with 4503599627370496.
  destruct (fs b =? 1)%N eqn:S1; lia.
Qed.

(* the decoded (unvalidated) floats *)
Definition ff32 (b : N) : full_float := binary_float_of_bits_aux 23 8 (Z.of_N b).
Definition ff64 (b : N) : full_float := binary_float_of_bits_aux 52 11 (Z.of_N (widen32 b)).

Lemma ff32_dec b : (b < 4294967296)%N -> ff32 b = dec (-149) 255 (2^23) (fsb b) (Z.of_N (fm b)) (Z.of_N (fe b)).
Proof.
  intros H. unfold ff32. rewrite (join32 b H). destruct (fields_N b H) as (_ & _ & He & Hm).
  apply aux32_join; change (2 ^ 23) with 8388608; change (2 ^ 8) with 256; lia.
Qed.
Lemma ff64_dec b : (b < 4294967296)%N -> ff64 b = dec (-1074) 2047 (2^52) (fsb b) (Z.of_N (wm b)) (Z.of_N (we b)).
Proof.
  intros H. unfold ff64. rewrite (join64 b H). destruct (wm_we_range b H) as (Hm & He).
  apply aux64_join; change (2 ^ 52) with 4503599627370496; change (2 ^ 11) with 2048; lia.
Qed.

(* ---------- the relation between the two decoded floats ---------- *)
Definition widens (x : full_float) (y : full_float) : Prop :=
  match x with
  | F754_zero s => y = F754_zero s
  | F754_infinity s => y = F754_infinity s
  | F754_nan s pl => exists pl', y = F754_nan s pl' /\
      Zpos pl' = 2^51 + (Zpos pl mod 2^22) * 2^29
  | F754_finite s m e => exists m' e', y = F754_finite s m' e' /\ e' <= e /\
      Zpos m' = Zpos m * 2 ^ (e - e') /\ 2^52 <= Zpos m' < 2^53
  end.

Lemma Zeq_bool_N (a b : N) : Zeq_bool (Z.of_N a) (Z.of_N b) = (a =? b)%N.
Proof. destruct (a =? b)%N eqn:E; [apply Zeq_is_eq_bool | apply Zeq_bool_false]; lia. Qed.

Theorem widen32_widens b : (b < 4294967296)%N -> widens (ff32 b) (ff64 b).
Proof.
  intros H. rewrite (ff32_dec b H), (ff64_dec b H). destruct (fields_N b H) as (_ & _ & He & Hm).
  unfold dec. change 0 with (Z.of_N 0). change 255 with (Z.of_N 255). change 2047 with (Z.of_N 2047).
  rewrite !Zeq_bool_N. unfold we, wm.
  destruct (fe b =? 0)%N eqn:E0.
  - (* zero or subnormal single *)
    assert (E255 : (fe b =? 255)%N = false) by lia. rewrite E255.
    destruct (fm b) as [|p] eqn:Em.
    + (* zero *) cbn. reflexivity.
    + (* subnormal: becomes a normal double *)
      change ((N.pos p =? 0)%N) with false. cbv iota.
      destruct (log2_fm (N.pos p) ltac:(lia)) as (K & (L1 & L2) & P).
      set (k := N.log2 (N.pos p)) in *.
      assert (F1 : ((k + 874 =? 0) = false)%N) by lia. rewrite F1.
      assert (F2 : ((k + 874 =? 2047) = false)%N) by lia. rewrite F2.
      assert (EQ : Z.of_N ((N.pos p - 2 ^ k) * 2 ^ (52 - k)) + 2 ^ 52 = Z.pos p * 2 ^ (52 - Z.of_N k)).
      { rewrite N2Z.inj_mul, N2Z.inj_sub by lia. rewrite !N2Z.inj_pow, N2Z.inj_sub by lia.
        change (Z.of_N (N.pos p)) with (Z.pos p). change (Z.of_N 2) with 2. change (Z.of_N 52) with 52.
        rewrite Z.mul_sub_distr_r. rewrite <- Z.pow_add_r by lia.
        replace (Z.of_N k + (52 - Z.of_N k)) with 52 by lia. lia. }
      assert (B : 2^52 <= Z.pos p * 2 ^ (52 - Z.of_N k) < 2^53).
      { assert (Q : 2 ^ Z.of_N k * 2 ^ (52 - Z.of_N k) = 2 ^ 52).
        { rewrite <- Z.pow_add_r by lia. f_equal. lia. }
        assert (0 < 2 ^ (52 - Z.of_N k)) by (apply Z.pow_pos_nonneg; lia).
        assert (L1z : 2 ^ Z.of_N k <= Z.pos p).
        { change 2 with (Z.of_N 2). rewrite <- N2Z.inj_pow. lia. }
        assert (L2z : Z.pos p < 2 ^ Z.of_N k * 2).
        { change 2 with (Z.of_N 2) at 1. rewrite <- N2Z.inj_pow. lia. }
        change (2 ^ 53) with (2 ^ 52 * 2). rewrite <- Q. split.
        - apply Z.mul_le_mono_nonneg_r; lia.
        - replace (2 ^ Z.of_N k * 2 ^ (52 - Z.of_N k) * 2) with (2 ^ Z.of_N k * 2 * 2 ^ (52 - Z.of_N k)) by ring.
          apply Z.mul_lt_mono_pos_r; lia. }
      rewrite EQ. destruct (Z.pos p * 2 ^ (52 - Z.of_N k)) as [|q|q] eqn:Eq; try lia.
      exists q, (Z.of_N (k + 874) + -1074 - 1). split; [reflexivity|].
      split; [lia|]. split; [|lia].
      rewrite <- Eq. f_equal. f_equal. lia.
  - destruct (fe b =? 255)%N eqn:E255.
    + (* infinity or NaN *)
      change ((2047 =? 0)%N) with false. change ((2047 =? 2047)%N) with true. cbv iota.
      destruct (fm b) as [|p] eqn:Em.
      * cbn. reflexivity.
      * change ((N.pos p =? 0)%N) with false. cbv iota.
        pose proof (N.mod_lt (N.pos p) 4194304 ltac:(lia)) as ML.
        destruct (Z.of_N (2251799813685248 + N.pos p mod 4194304 * 536870912)) as [|q|q] eqn:Eq; try lia.
        exists q. split; [reflexivity|]. rewrite <- Eq.
        rewrite N2Z.inj_add, N2Z.inj_mul, N2Z.inj_mod. reflexivity.
    + (* normal single -> normal double *)
      assert (F1 : ((fe b + 896 =? 0) = false)%N) by lia. rewrite F1.
      assert (F2 : ((fe b + 896 =? 2047) = false)%N) by lia. rewrite F2.
      change (2 ^ 23) with 8388608. change (2 ^ 52) with 4503599627370496.
      destruct (Z.of_N (fm b) + 8388608) as [|p|p] eqn:Ep; try lia.
      destruct (Z.of_N (fm b * 536870912) + 4503599627370496) as [|q|q] eqn:Eq; try lia.
      exists q, (Z.of_N (fe b + 896) + -1074 - 1). split; [reflexivity|].
      split; [lia|].
      replace (Z.of_N (fe b) + -149 - 1 - (Z.of_N (fe b + 896) + -1074 - 1)) with 29 by lia.
      change (2 ^ 29) with 536870912. change (2 ^ 53) with 9007199254740992.
      lia.
Qed.

(* ---------- from the decoder's pre-floats to Flocq's validated binary32 / binary64 ---------- *)
Definition B32 (b : N) : binary32 := b32_of_bits (Z.of_N b).
Definition B64w (b : N) : binary64 := b64_of_bits (Z.of_N (widen32 b)).

Lemma B2FF_B32 b : B2FF 24 128 (B32 b) = ff32 b.
Proof. unfold B32, b32_of_bits, binary_float_of_bits. rewrite B2FF_FF2B. reflexivity. Qed.
Lemma B2FF_B64w b : B2FF 53 1024 (B64w b) = ff64 b.
Proof. unfold B64w, b64_of_bits, binary_float_of_bits. rewrite B2FF_FF2B. reflexivity. Qed.

Lemma sign_B2FF prec emax (x : binary_float prec emax) : sign_FF (B2FF prec emax x) = Bsign prec emax x.
Proof. now destruct x. Qed.
Lemma is_nan_B2FF' prec emax (x : binary_float prec emax) : is_nan_FF (B2FF prec emax x) = is_nan prec emax x.
Proof. now destruct x. Qed.

(* NaN payload (fraction field) of a float; 0 for non-NaNs *)
Definition pl_FF (x : full_float) : Z := match x with F754_nan _ pl => Zpos pl | _ => 0%Z end.
Definition nan_pl {prec emax} (x : binary_float prec emax) : Z :=
  match x with B754_nan _ _ _ pl _ => Zpos pl | _ => 0%Z end.
Lemma pl_B2FF prec emax (x : binary_float prec emax) : pl_FF (B2FF prec emax x) = nan_pl x.
Proof. now destruct x. Qed.
(* "is a non-zero finite number" on pre-floats *)
Definition is_finite_strict_FF (x : full_float) : bool := match x with F754_finite _ _ _ => true | _ => false end.
Lemma is_finite_strict_B2FF' prec emax (x : binary_float prec emax) :
  is_finite_strict_FF (B2FF prec emax x) = is_finite_strict prec emax x.
Proof. now destruct x. Qed.

Lemma cond_Zopp_mul s a c : SpecFloat.cond_Zopp s a * c = SpecFloat.cond_Zopp s (a * c).
Proof. destruct s; cbn; ring. Qed.

(* what [widens] means for values, signs and classes *)
Lemma widens_finite x y : widens x y -> is_finite_FF x = true ->
  is_finite_FF y = true /\ FF2R radix2 y = FF2R radix2 x /\ sign_FF y = sign_FF x /\
  is_finite_strict_FF y = is_finite_strict_FF x.
Proof.
  destruct x as [s|s|s pl|s m e]; cbn [widens is_finite_FF]; intros W F; try discriminate.
  - subst y. repeat split.
  - destruct W as (m' & e' & -> & Le & Em & _). cbn [is_finite_FF FF2R sign_FF is_finite_strict_FF].
    repeat split. rewrite (F2R_change_exp radix2 e' _ e Le). rewrite Em. f_equal. f_equal.
    change (radix2 ^ (e - e')) with (2 ^ (e - e')). symmetry. apply cond_Zopp_mul.
Qed.

(* the value clause on the decoder's pre-floats (Flocq's [binary_float_of_bits_aux], before validation): this form
   avoids the validity proofs inside b32_of_bits/b64_of_bits and so needs only the axioms behind R itself *)
Theorem widen32_value_FF b : (b < 4294967296)%N -> is_finite_FF (ff32 b) = true ->
  is_finite_FF (ff64 b) = true /\ FF2R radix2 (ff64 b) = FF2R radix2 (ff32 b) /\ sign_FF (ff64 b) = sign_FF (ff32 b).
Proof.
  intros H F. destruct (widens_finite _ _ (widen32_widens b H) F) as (A & B & C & _). auto.
Qed.

(* (1) finite singles: same real value, same sign, finite; zero stays zero, non-zero stays non-zero *)
Theorem widen32_finite b : (b < 4294967296)%N -> is_finite 24 128 (B32 b) = true ->
  is_finite 53 1024 (B64w b) = true /\
  B2R 53 1024 (B64w b) = B2R 24 128 (B32 b) /\
  Bsign 53 1024 (B64w b) = Bsign 24 128 (B32 b) /\
  is_finite_strict 53 1024 (B64w b) = is_finite_strict 24 128 (B32 b).
Proof.
  intros H F. pose proof (widen32_widens b H) as W.
  rewrite <- is_finite_B2FF, B2FF_B32 in F.
  destruct (widens_finite _ _ W F) as (A & B & C & D).
  rewrite <- !is_finite_B2FF, <- !FF2R_B2FF, <- !sign_B2FF, <- !is_finite_strict_B2FF', !B2FF_B32, !B2FF_B64w.
  auto.
Qed.

(* signed zeros: +0 -> +0, -0 -> -0 *)
Theorem widen32_zero b s : (b < 4294967296)%N -> B32 b = B754_zero 24 128 s -> B64w b = B754_zero 53 1024 s.
Proof.
  intros H E. pose proof (widen32_widens b H) as W. rewrite <- B2FF_B32, E in W. cbn in W.
  apply B2FF_inj. rewrite B2FF_B64w. exact W.
Qed.

(* every non-zero finite single, subnormal ones included, becomes a NORMAL double:
   Flocq mantissa of full 53-bit width, i.e. exponent field of the pattern in 1..2046 (in fact 874..1150) *)
Theorem widen32_normal b : (b < 4294967296)%N -> is_finite_strict 24 128 (B32 b) = true ->
  (exists s m e, B2FF 53 1024 (B64w b) = F754_finite s m e /\ (2^52 <= Zpos m < 2^53)%Z) /\
  (874 <= (widen32 b / 4503599627370496) mod 2048 <= 1150)%N.
Proof.
  intros H F. pose proof (widen32_widens b H) as W.
  rewrite <- is_finite_strict_B2FF', B2FF_B32 in F. split.
  - rewrite B2FF_B64w. destruct (ff32 b); try discriminate. destruct W as (m' & e' & -> & _ & _ & R). eauto.
  - assert (Hw : ((widen32 b / 4503599627370496) mod 2048 = we b)%N).
    { rewrite widen32_fields. destruct (wm_we_range b H). destruct (fields_N b H) as (_ & ? & _).
      symmetry. apply (N.mod_unique _ _ (fs b)); [assumption|].
      symmetry. apply (N.div_unique _ _ _ (wm b)); [assumption|]. lia. }
    rewrite Hw. rewrite (ff32_dec b H) in F. destruct (fields_N b H) as (_ & _ & He & Hm).
    unfold dec in F. change 0%Z with (Z.of_N 0) in F. change 255%Z with (Z.of_N 255) in F.
    rewrite !Zeq_bool_N in F. unfold we.
    destruct (fe b =? 0)%N eqn:E0.
    + assert (E255 : (fe b =? 255)%N = false) by lia. rewrite E255.
      destruct (fm b) as [|p] eqn:Em; [discriminate|]. change ((N.pos p =? 0)%N) with false. cbv iota.
      destruct (log2_fm (N.pos p) ltac:(lia)) as (K & _). lia.
    + destruct (fe b =? 255)%N eqn:E255; [destruct (Z.of_N (fm b)); discriminate|]. lia.
Qed.

(* (2) infinities keep their sign *)
Theorem widen32_infinity b s : (b < 4294967296)%N ->
  B32 b = B754_infinity 24 128 s -> B64w b = B754_infinity 53 1024 s.
Proof.
  intros H E. pose proof (widen32_widens b H) as W. rewrite <- B2FF_B32, E in W. cbn in W.
  apply B2FF_inj. rewrite B2FF_B64w. exact W.
Qed.

(* (3) NaNs stay NaNs with the same sign; the fraction field p (23 bits, non-zero) becomes
   2^51 + (p mod 2^22) * 2^29: the low 22 payload bits move to bits 29..50, the quiet bit (bit 22 of a single,
   bit 51 of a double) is SET whatever it was, the low 29 bits are zero. *)
Theorem widen32_nan b : (b < 4294967296)%N -> is_nan 24 128 (B32 b) = true ->
  is_nan 53 1024 (B64w b) = true /\
  Bsign 53 1024 (B64w b) = Bsign 24 128 (B32 b) /\
  nan_pl (B64w b) = (2^51 + (nan_pl (B32 b) mod 2^22) * 2^29)%Z.
Proof.
  intros H F. pose proof (widen32_widens b H) as W.
  rewrite <- is_nan_B2FF', B2FF_B32 in F.
  rewrite <- !is_nan_B2FF', <- !sign_B2FF, <- !pl_B2FF, !B2FF_B32, !B2FF_B64w.
  destruct (ff32 b); try discriminate. destruct W as (pl' & -> & E). cbn [is_nan_FF sign_FF pl_FF]. auto.
Qed.

(* the same, split by the quiet bit of the input: a quiet NaN keeps its payload (shifted by 29),
   a signalling NaN is quieted and otherwise keeps its payload *)
Lemma quiet_split p : (0 <= p < 2^23)%Z ->
  (2^51 + (p mod 2^22) * 2^29 = if Z.testbit p 22 then p * 2^29 else p * 2^29 + 2^51)%Z.
Proof.
  intros R. rewrite Z.testbit_odd, Z.shiftr_div_pow2 by lia.
  pose proof (Z.div_mod p (2^22) ltac:(lia)) as D. pose proof (Z.mod_pos_bound p (2^22) ltac:(lia)) as M.
  assert (Q : (p / 2^22 = 0 \/ p / 2^22 = 1)%Z).
  { assert (0 <= p / 2^22 < 2)%Z; [|lia]. split; [apply Z.div_pos; lia | apply Z.div_lt_upper_bound; lia]. }
  change (2^22)%Z with 4194304%Z in *. change (2^29)%Z with 536870912%Z. change (2^51)%Z with 2251799813685248%Z.
  destruct Q as [Q|Q]; rewrite Q in *; cbn [Z.odd]; lia.
Qed.

Theorem widen32_nan_quiet b : (b < 4294967296)%N -> is_nan 24 128 (B32 b) = true ->
  nan_pl (B64w b) = (if Z.testbit (nan_pl (B32 b)) 22 then nan_pl (B32 b) * 2^29
                     else nan_pl (B32 b) * 2^29 + 2^51)%Z /\
  Z.testbit (nan_pl (B64w b)) 51 = true.
Proof.
  intros H F. destruct (widen32_nan b H F) as (_ & _ & E).
  assert (R : (0 <= nan_pl (B32 b) < 2^23)%Z).
  { rewrite <- pl_B2FF, B2FF_B32, (ff32_dec b H). destruct (fields_N b H) as (_ & _ & He & Hm).
    unfold dec. destruct (Zeq_bool (Z.of_N (fe b)) 0).
    - destruct (Z.of_N (fm b)); cbn; lia.
    - destruct (Zeq_bool (Z.of_N (fe b)) 255).
      + destruct (Z.of_N (fm b)) eqn:Em; cbn; lia.
      + destruct (Z.of_N (fm b) + 2 ^ 23)%Z; cbn; lia. }
  split; [rewrite E; apply quiet_split; exact R|].
  rewrite E. rewrite Z.testbit_odd, Z.shiftr_div_pow2 by lia.
  pose proof (Z.mod_pos_bound (nan_pl (B32 b)) (2^22) ltac:(lia)) as M.
  replace ((2 ^ 51 + nan_pl (B32 b) mod 2 ^ 22 * 2 ^ 29) / 2 ^ 51)%Z with 1%Z; [reflexivity|].
  apply (Z.div_unique _ _ _ (nan_pl (B32 b) mod 2 ^ 22 * 2 ^ 29)); [|lia].
  left. change (2^22)%Z with 4194304%Z in *. change (2^29)%Z with 536870912%Z. change (2^51)%Z with 2251799813685248%Z. lia.
Qed.

(* ---------- (4) injectivity away from NaNs: pure arithmetic on the patterns (no reals involved) ---------- *)
Local Close Scope Z_scope.
Local Open Scope N_scope.

(* bit-level class tests *)
Definition is_nan32 (b : N) : bool := (fe b =? 255) && negb (fm b =? 0).

Lemma is_nan32_spec b : b < 4294967296 -> is_nan 24 128 (B32 b) = is_nan32 b.
Proof.
  intros H. rewrite <- is_nan_B2FF', B2FF_B32, (ff32_dec b H). destruct (fields_N b H) as (_ & _ & He & Hm).
  unfold dec, is_nan32. change 0%Z with (Z.of_N 0). change 255%Z with (Z.of_N 255). rewrite !Zeq_bool_N.
  destruct (fe b =? 0) eqn:E0.
  - assert (E255 : (fe b =? 255) = false) by lia. rewrite E255. destruct (Z.of_N (fm b)) eqn:Em; try reflexivity; lia.
  - destruct (fe b =? 255) eqn:E255.
    + destruct (fm b) as [|p]; reflexivity.
    + destruct (Z.of_N (fm b) + 2 ^ 23)%Z eqn:Ep; try reflexivity; lia.
Qed.

Lemma widen32_parts b1 b2 : b1 < 4294967296 -> b2 < 4294967296 -> widen32 b1 = widen32 b2 ->
  fs b1 = fs b2 /\ we b1 = we b2 /\ wm b1 = wm b2.
Proof.
  intros H1 H2. rewrite !widen32_fields.
  destruct (wm_we_range b1 H1), (wm_we_range b2 H2).
  destruct (fields_N b1 H1) as (_ & ? & _), (fields_N b2 H2) as (_ & ? & _). lia.
Qed.

Lemma log2_fm' m : m < 8388608 -> m = 0 \/
  (N.log2 m <= 22 /\ 2 ^ N.log2 m <= m /\ 2 ^ (52 - N.log2 m) <> 0).
Proof.
  intros H. destruct (N.eq_dec m 0) as [|NZ]; [now left|right].
  destruct (log2_fm m ltac:(lia)) as (K & (L1 & _) & _). repeat split; try assumption.
  apply N.pow_nonzero. lia.
Qed.

Theorem widen32_inj_non_nan b1 b2 : b1 < 4294967296 -> b2 < 4294967296 ->
  is_nan32 b1 = false -> is_nan32 b2 = false -> widen32 b1 = widen32 b2 -> b1 = b2.
Proof.
  intros H1 H2 N1 N2 E. destruct (widen32_parts b1 b2 H1 H2 E) as (S & EE & EM).
  destruct (fields_N b1 H1) as (D1 & _ & He1 & Hm1), (fields_N b2 H2) as (D2 & _ & He2 & Hm2).
  enough (fe b1 = fe b2 /\ fm b1 = fm b2) by lia.
  unfold is_nan32 in N1, N2. unfold we in EE. unfold wm in EM.
  destruct (fe b1 =? 255) eqn:A1; destruct (fe b2 =? 255) eqn:A2; try lia;
  destruct (fe b1 =? 0) eqn:B1; destruct (fe b2 =? 0) eqn:B2;
  destruct (fm b1 =? 0) eqn:C1; destruct (fm b2 =? 0) eqn:C2; try lia;
  destruct (log2_fm' (fm b1) Hm1) as [Z1|(K1 & L1 & P1)]; try lia;
  destruct (log2_fm' (fm b2) Hm2) as [Z2|(K2 & L2 & P2)]; try lia.
  (* the one non-linear case: both subnormal, same highest bit *)
  assert (K : N.log2 (fm b1) = N.log2 (fm b2)) by lia. rewrite K in *.
  apply N.mul_cancel_r in EM; [|assumption]. lia.
Qed.

(* the same with Flocq's NaN test *)
Theorem widen32_inj b1 b2 : b1 < 4294967296 -> b2 < 4294967296 ->
  is_nan 24 128 (B32 b1) = false -> is_nan 24 128 (B32 b2) = false -> widen32 b1 = widen32 b2 -> b1 = b2.
Proof.
  intros H1 H2 N1 N2. rewrite is_nan32_spec in N1, N2 by assumption. now apply widen32_inj_non_nan.
Qed.

(* on NaNs the map is NOT injective: the quiet bit of the input is forgotten, and only that *)
Theorem widen32_nan_collision : is_nan32 2139095041 = true /\ is_nan32 2143289345 = true /\
  widen32 2139095041 = widen32 2143289345.   (* 0x7F800001 (signalling) and 0x7FC00001 (quiet) *)
Proof. repeat split; vm_compute; reflexivity. Qed.

Theorem widen32_nan_eq_iff b1 b2 : b1 < 4294967296 -> b2 < 4294967296 ->
  is_nan32 b1 = true -> is_nan32 b2 = true ->
  (widen32 b1 = widen32 b2 <-> fs b1 = fs b2 /\ fm b1 mod 4194304 = fm b2 mod 4194304).
Proof.
  intros H1 H2 N1 N2. unfold is_nan32 in N1, N2.
  assert (A1 : (fe b1 =? 255) = true) by lia. assert (A2 : (fe b2 =? 255) = true) by lia.
  assert (C1 : (fm b1 =? 0) = false) by lia. assert (C2 : (fm b2 =? 0) = false) by lia.
  split.
  - intros E. destruct (widen32_parts b1 b2 H1 H2 E) as (S & _ & EM). unfold wm in EM.
    rewrite A1, A2, C1, C2 in EM. lia.
  - intros (S & EM). rewrite !widen32_fields. unfold we, wm. rewrite A1, A2, C1, C2, S, EM. reflexivity.
Qed.

(* ---------- composed with the reader: a FLOAT field read by ReadFloat64 ---------- *)
Theorem read_f32_as_f64_value f tag req b rest : tag < 256 -> b < 4294967296 ->
  is_finite 24 128 (b32_of_bits (Z.of_N b)) = true ->
  exists d, r_f64 (S f) tag req (w_f32 b tag ++ rest) = ROk d rest /\ d < 18446744073709551616 /\
    is_finite 53 1024 (b64_of_bits (Z.of_N d)) = true /\
    B2R 53 1024 (b64_of_bits (Z.of_N d)) = B2R 24 128 (b32_of_bits (Z.of_N b)) /\
    Bsign 53 1024 (b64_of_bits (Z.of_N d)) = Bsign 24 128 (b32_of_bits (Z.of_N b)).
Proof.
  intros Ht Hb F. exists (widen32 b). split; [now apply widen_f32_f64|]. split; [now apply widen32_range|].
  destruct (widen32_finite b Hb F) as (A & B & C & _). auto.
Qed.

(* ---------- examples: the hypotheses are satisfiable, and known IEEE-754 answers ---------- *)
From Coq Require Import List.
Import ListNotations.
(* finite inputs: smallest subnormal 2^-149, largest subnormal, smallest normal, 1.0, largest finite, -0, -pi *)
Example finite_instances :
  forallb (fun b => is_finite 24 128 (B32 b))
    [1; 8388607; 8388608; 1065353216; 2139095039; 2147483648; 3226013659]%list = true.
Proof. vm_compute. reflexivity. Qed.
Example strict_instances :
  forallb (fun b => is_finite_strict 24 128 (B32 b)) [1; 8388607; 8388608; 1065353216; 2139095039; 3226013659]%list = true.
Proof. vm_compute. reflexivity. Qed.
Example zero_instances : B32 0 = B754_zero 24 128 false /\ B32 2147483648 = B754_zero 24 128 true.
Proof. split; apply B2FF_inj; vm_compute; reflexivity. Qed.
Example infinity_instances :
  B32 2139095040 = B754_infinity 24 128 false /\ B32 4286578688 = B754_infinity 24 128 true.
Proof. split; apply B2FF_inj; vm_compute; reflexivity. Qed.
Example nan_instances : forallb (fun b => is_nan 24 128 (B32 b)) [2139095041; 2143289344; 4290772992; 4294967295]%list = true.
Proof. vm_compute. reflexivity. Qed.
(* known answers (hex in the comment): what every IEEE-754 conversion gives for these singles *)
Example known_answers :
  widen32 1 = 3936146074321813504 /\              (* 00000001 -> 36A0000000000000 : 2^-149 *)
  widen32 8388607 = 4039728864677593088 /\        (* 007FFFFF -> 380FFFFFC0000000 *)
  widen32 8388608 = 4039728865751334912 /\        (* 00800000 -> 3810000000000000 : 2^-126 *)
  widen32 1065353216 = 4607182418800017408 /\     (* 3F800000 -> 3FF0000000000000 : 1.0 *)
  widen32 2139095039 = 5183643170566569984 /\     (* 7F7FFFFF -> 47EFFFFFE0000000 : max float32 *)
  widen32 2147483648 = 9223372036854775808 /\     (* 80000000 -> 8000000000000000 : -0 *)
  widen32 4286578688 = 18442240474082181120 /\    (* FF800000 -> FFF0000000000000 : -inf *)
  widen32 2143289344 = 9221120237041090560 /\     (* 7FC00000 -> 7FF8000000000000 : default quiet NaN *)
  widen32 2139095041 = 9221120237577961472 /\     (* 7F800001 -> 7FF8000020000000 : sNaN, quieted *)
  widen32 3226013659 = 13837628693603680256.      (* C0490FDB -> C00921FB60000000 : -pi as float32 *)
Proof. vm_compute. repeat split. Qed.

Theorem widen32_nan_collision' :
  is_nan 24 128 (b32_of_bits 2139095041) = true /\ is_nan 24 128 (b32_of_bits 2143289345) = true /\
  widen32 2139095041 = widen32 2143289345.
Proof. repeat split; vm_compute; reflexivity. Qed.

Example instances :
  forallb (fun b => is_finite 24 128 (b32_of_bits (Z.of_N b)))
    [1; 8388607; 8388608; 1065353216; 2139095039; 2147483648; 3226013659] = true /\
  forallb (fun b => is_nan 24 128 (b32_of_bits (Z.of_N b))) [2139095041; 2143289344; 4290772992; 4294967295] = true /\
  b32_of_bits 2139095040 = B754_infinity 24 128 false /\ b32_of_bits 4286578688 = B754_infinity 24 128 true /\
  b32_of_bits 0 = B754_zero 24 128 false /\ b32_of_bits 2147483648 = B754_zero 24 128 true.
Proof.
  split; [exact finite_instances|]. split; [exact nan_instances|].
  destruct infinity_instances, zero_instances. auto.
Qed.
