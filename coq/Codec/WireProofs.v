From Coq Require Import List NArith ZArith Lia Bool Arith.
From Coq Require Import ZifyN ZifyNat ZifyBool.
From TarsV Require Import Gen.Consts Codec.Wire.
Import ListNotations.
Ltac Zify.zify_post_hook ::= Z.div_mod_to_equations.
Open Scope N_scope.

Lemma read_head2_head ty tag rest : ty < 16 -> tag < 256 ->
  read_head2 (head ty tag ++ rest) = Some (ty, tag, rest, negb (tag <? 15)).
Proof.
  intros Hty Htag. unfold head, read_head2.
  destruct (tag <? 15) eqn:E; cbn [app negb].
  - assert ((tag * 16 + ty) mod 16 = ty) as -> by lia.
    assert ((tag * 16 + ty) / 16 = tag) as -> by lia.
    destruct (tag =? 15) eqn:E2; [lia|reflexivity].
  - assert ((240 + ty) mod 16 = ty) as -> by lia.
    assert ((240 + ty) / 16 = 15) as -> by lia.
    reflexivity.
Qed.

Lemma read_head_head ty tag rest : ty < 16 -> tag < 256 ->
  read_head (head ty tag ++ rest) = Some (ty, tag, rest).
Proof. intros. unfold read_head. now rewrite read_head2_head. Qed.

Lemma head_length ty tag : (1 <= length (head ty tag) <= 2)%nat.
Proof. unfold head; destruct (tag <? 15); cbn; lia. Qed.

Lemma be_length n : forall v, length (be n v) = n.
Proof. induction n; cbn; intros; [reflexivity|]. rewrite app_length, IHn. cbn. lia. Qed.

Lemma be_val_app l : forall acc x, be_val acc (l ++ [x]) = be_val acc l * 256 + x.
Proof. induction l as [|a l IH]; intros acc x; cbn; [reflexivity|]. apply IH. Qed.

Lemma be_val_be n : forall v acc, v < 256 ^ N.of_nat n -> be_val acc (be n v) = acc * 256 ^ N.of_nat n + v.
Proof.
  induction n; intros v acc Hv.
  - cbn in *. lia.
  - cbn [be]. rewrite be_val_app.
    assert (Hhi : v / 256 < 256 ^ N.of_nat n).
    { rewrite Nnat.Nat2N.inj_succ, N.pow_succ_r' in Hv. apply N.div_lt_upper_bound; lia. }
    rewrite IHn by assumption. rewrite Nnat.Nat2N.inj_succ, N.pow_succ_r'.
    pose proof (N.div_mod v 256 ltac:(lia)). lia.
Qed.

Lemma bread_be n v rest : v < 256 ^ N.of_nat n -> bread n (be n v ++ rest) = Some (v, rest).
Proof.
  intros Hv. unfold bread. rewrite app_length, be_length.
  destruct (n <=? n + length rest)%nat eqn:E; [|apply Nat.leb_gt in E; lia].
  rewrite firstn_app, skipn_app, be_length, Nat.sub_diag. cbn [firstn skipn].
  rewrite <- (be_length n v) at 1 3. rewrite firstn_all, skipn_all, app_nil_r. cbn [app].
  rewrite be_val_be by assumption. reflexivity.
Qed.

Lemma bread_short n bs : (length bs < n)%nat -> bread n bs = None.
Proof. intros H. unfold bread. destruct (n <=? length bs)%nat eqn:E; [apply Nat.leb_le in E; lia|reflexivity]. Qed.

Lemma be_bytes n : forall v, Forall (fun b => b < 256) (be n v).
Proof. induction n; intros v; cbn; [constructor|]. apply Forall_app; split; [apply IHn|]. constructor; [lia|constructor]. Qed.
