(* C03: the generated encoding is canonical. encode o norm = encode (re-encoding what was decoded from an encoding
   gives the same bytes), so two values have the same encoding exactly when they have the same normal form; and
   the decoder accepts more than the encoder produces (wider integers, STRING4 for short strings, members present
   at their default, unknown fields, vector<byte> as LIST, ZeroTag floats): on those images decode-then-encode
   is NOT the identity (witnesses). *)
From Coq Require Import List NArith ZArith Lia Bool Arith.
From Coq Require Import ZifyN ZifyNat ZifyBool.
From TarsV Require Import Gen.Consts Base.Hex Codec.Wire Codec.WireProofs Codec.Skip Codec.SkipProofs Codec.Prim
  Codec.PrimProofs Codec.GenCodec Codec.Corr Codec.GenProofs Codec.RoundTrip Codec.RoundTripProofs Codec.NormProofs.
Import ListNotations.
Open Scope N_scope.

(* the value an omitted optional scalar comes back as is itself omitted *)
Lemma f32_eq_self_of a b : f32_eq a b = true -> f32_eq b b = true.
Proof.
  unfold f32_eq. intros H. apply andb_true_iff in H. destruct H as [H _]. apply andb_true_iff in H. destruct H as [_ Hb].
  rewrite Hb. cbn [andb]. now rewrite N.eqb_refl.
Qed.
Lemma f64_eq_self_of a b : f64_eq a b = true -> f64_eq b b = true.
Proof.
  unfold f64_eq. intros H. apply andb_true_iff in H. destruct H as [H _]. apply andb_true_iff in H. destruct H as [_ Hb].
  rewrite Hb. cbn [andb]. now rewrite N.eqb_refl.
Qed.
Lemma bytes_eqb_refl s : bytes_eqb s s = true.
Proof. now apply bytes_eqb_eq. Qed.

Lemma omit_norm_scalar t req d v : scalar_ty t = true -> sc_typed t v -> (forall dv, d = Some dv -> sc_typed t dv) ->
  omit t req d v = true -> omit t req d (match d with Some dv => dv | None => zscalar t end) = true.
Proof.
  intros Hsc Hty Hd Ho. unfold omit in *.
  destruct t; try discriminate; apply andb_true_iff in Ho; destruct Ho as [Hr Ho]; rewrite Hr; cbn [andb];
    destruct v; cbn [sc_typed] in Hty; try contradiction; cbn [scalar_is_default] in Ho;
    (destruct d as [dv|]; [specialize (Hd dv eq_refl); destruct dv; cbn [sc_typed] in Hd; try contradiction|]);
    cbn [zscalar scalar_is_default];
    first [ apply Z.eqb_refl | apply eqb_reflx | apply bytes_eqb_refl | reflexivity
          | eapply f32_eq_self_of; eassumption | eapply f64_eq_self_of; eassumption ].
Qed.

Lemma norm_elems_length e x xs : length (norm_elems e x xs) = length xs.
Proof. induction xs; cbn [norm_elems length]; congruence. Qed.
Lemma norm_entries_length e kt vt kvs : length (norm_entries e kt vt kvs) = length kvs.
Proof. induction kvs as [|[k x] r IH]; cbn [norm_entries length]; congruence. Qed.
Lemma is_nil_norm_elems e x xs :
  (match norm_elems e x xs with [] => true | _ => false end) = (match xs with [] => true | _ => false end).
Proof. destruct xs; reflexivity. Qed.
Lemma is_nil_norm_entries e kt vt kvs :
  (match norm_entries e kt vt kvs with [] => true | _ => false end) = (match kvs with [] => true | _ => false end).
Proof. destruct kvs as [|[k x] r]; reflexivity. Qed.

Section Canon.
Variable e : env.
Hypothesis Hdt : defaults_typed e.

Definition C_var (n : nat) : Prop := forall tag req t d v, has_type e t v -> (need v <= n)%nat ->
  (forall dv, d = Some dv -> sc_typed t dv) ->
  enc_var e tag req t d (norm e t req d v) = enc_var e tag req t d v.
Definition C_elems (n : nat) : Prop := forall x xs, Forall (has_type e x) xs -> (need_list xs <= n)%nat ->
  enc_elems e x (norm_elems e x xs) = enc_elems e x xs.
Definition C_entries (n : nat) : Prop := forall kt vt kvs,
  Forall (fun p => has_type e kt (fst p) /\ has_type e vt (snd p)) kvs -> (need_entries kvs <= n)%nat ->
  enc_entries e kt vt (norm_entries e kt vt kvs) = enc_entries e kt vt kvs.
Definition C_fields (n : nat) : Prop := forall fds vs, Forall2 (fun fd x => has_type e (fty fd) x) fds vs ->
  (forall fd dv, In fd fds -> fdef fd = Some dv -> sc_typed (fty fd) dv) -> (need_list vs <= n)%nat ->
  enc_fields e (norm_fields e vs fds) fds = enc_fields e vs fds.

Lemma canon_all : forall n, C_var n /\ C_elems n /\ C_entries n /\ C_fields n.
Proof.
  induction n as [|n (HV & HE & HM & HF)].
  { repeat split.
    - intros tag req t d v _ Hn. pose proof (need_ge v). lia.
    - intros x xs _ Hn. pose proof (need_list_ge xs). lia.
    - intros kt vt kvs _ Hn. pose proof (need_entries_ge kvs). lia.
    - intros fds vs _ _ Hn. pose proof (need_list_ge vs). lia. }
  assert (Hnone : forall t dv, @None val = Some dv -> sc_typed t dv) by (intros; discriminate).
  repeat split.
  - intros tag req t d v Hty Hn Hd. inversion Hty; subst.
    + rewrite norm_scalar by assumption. destruct (omit t req d v) eqn:Eo; [|reflexivity].
      rewrite !enc_var_scalar by assumption. rewrite Eo. now rewrite (omit_norm_scalar t req d v) by assumption.
    + reflexivity.
    + rewrite norm_vec, !enc_var_list, is_nil_norm_elems, norm_elems_length. rewrite need_VList in Hn.
      rewrite (HE x xs) by (try assumption; lia). reflexivity.
    + rewrite norm_arr, !enc_var_arr, is_nil_norm_elems, norm_elems_length. rewrite need_VList in Hn.
      rewrite (HE x xs) by (try assumption; lia). reflexivity.
    + rewrite norm_map, !enc_var_map, is_nil_norm_entries, norm_entries_length. rewrite need_VMap in Hn.
      rewrite (HM kt vt kvs) by (try assumption; lia). reflexivity.
    + rewrite norm_str, !enc_var_struct. rewrite need_VStruct in Hn.
      rewrite (HF (fields_of e sid) vs); try assumption; [reflexivity| |lia].
      intros fd dv Hin. apply (Hdt sid fd dv Hin).
  - intros x xs Hty Hn. destruct Hty as [|y r Hy Hr]; [reflexivity|]. cbn [norm_elems enc_elems need_list] in *.
    rewrite (HV 0 true x None y) by (try assumption; try lia; apply Hnone). rewrite (HE x r) by (try assumption; lia). reflexivity.
  - intros kt vt kvs Hty Hn. destruct Hty as [|[ky y] r [Hk Hy] Hr]; [reflexivity|]. cbn [fst snd] in Hk, Hy.
    cbn [norm_entries enc_entries need_entries] in *.
    rewrite (HV 0 true kt None ky) by (try assumption; try lia; apply Hnone).
    rewrite (HV 1 true vt None y) by (try assumption; try lia; apply Hnone).
    rewrite (HM kt vt r) by (try assumption; lia). reflexivity.
  - intros fds vs Hty Hd Hn. destruct Hty as [|fd x fds vs Hx Hvs]; [reflexivity|]. cbn [norm_fields enc_fields need_list] in *.
    rewrite (HV (ftag fd) (freq fd) (fty fd) (fdef fd) x); try assumption; try lia.
    + rewrite (HF fds vs); try assumption; try lia; [reflexivity|]. intros fd' dv Hin. apply Hd. now right.
    + intros dv Hdv. apply (Hd fd dv); [now left|assumption].
Qed.

(* encode o norm = encode *)
Theorem encode_norm sid vs : has_type e (TStruct sid) (VStruct vs) ->
  encode e sid (norm_struct e sid (VStruct vs)) = encode e sid (VStruct vs).
Proof.
  intros Hty. unfold norm_struct. rewrite norm_str, !encode_fields.
  inversion Hty as [| | | | |? ? Hvs]; subst; [discriminate|].
  destruct (canon_all (need_list vs)) as (_ & _ & _ & HF). apply HF; try assumption; [|lia].
  intros fd dv Hin. apply (Hdt sid fd dv Hin).
Qed.
End Canon.
Print Assumptions encode_norm.

(* ---------- uniqueness of the canonical encoding ---------- *)
Section Unique.
Variable e : env.
Variable k n : nat.
Hypothesis Hwf : wf_schema k e.
Hypothesis Hdt : defaults_typed e.
Hypothesis Hk : (S k <= 64)%nat.
Variable sid : nat.
Hypothesis Hfin : tfin n e (TStruct sid) = true.
Hypothesis Hn : (tneed n e (TStruct sid) + k <= 64)%nat.

(* decode-then-encode is the identity on every image of the encoder *)
Theorem reencode_canonical vs : has_type e (TStruct sid) (VStruct vs) ->
  exists v', decode e sid (encode e sid (VStruct vs)) = DOk v' [] /\ encode e sid v' = encode e sid (VStruct vs).
Proof.
  intros Hty. exists (norm_struct e sid (VStruct vs)). split.
  - now apply (roundtrip_struct_static e k n).
  - now apply encode_norm.
Qed.
(* two values have the same bytes exactly when they have the same normal form: the encoder is injective up to
   norm (i.e. up to Go's == on omitted optional floats), and the bytes of a value are unique *)
Theorem encode_injective vs1 vs2 : has_type e (TStruct sid) (VStruct vs1) -> has_type e (TStruct sid) (VStruct vs2) ->
  (encode e sid (VStruct vs1) = encode e sid (VStruct vs2) <-> norm_struct e sid (VStruct vs1) = norm_struct e sid (VStruct vs2)).
Proof.
  intros H1 H2. split; intros E.
  - pose proof (roundtrip_struct_static e k n sid vs1 Hwf Hk Hfin Hn H1) as D1.
    pose proof (roundtrip_struct_static e k n sid vs2 Hwf Hk Hfin Hn H2) as D2.
    rewrite E in D1. rewrite D1 in D2.
    assert (Hinj : forall (a b : val), @DOk val a [] = DOk b [] -> a = b) by (intros a b Hab; inversion Hab; reflexivity).
    now apply Hinj.
  - transitivity (encode e sid (norm_struct e sid (VStruct vs1))); [symmetry; now apply encode_norm|].
    rewrite E. now apply encode_norm.
Qed.
End Unique.

(* ---------- the decoder accepts more than the encoder produces ---------- *)
(* "decode-then-encode is the identity on every accepted input" is false: the readers widen (an integer member
   accepts every narrower-or-equal wire width, not only the narrowest), accept STRING4 for a short string, a
   member present at its default, ZeroTag for a float, a vector<byte> sent as LIST, and skip unknown fields.
   Each witness is accepted with everything consumed and re-encodes to different (the canonical) bytes. *)
Definition reencode_identity_statement : Prop :=
  forall e sid bs v, decode e sid bs = DOk v [] -> encode e sid v = bs.
Definition w_schema : env :=
  [ [ {| ftag := 0; freq := true; fty := TI32; fdef := None |};
      {| ftag := 1; freq := false; fty := TStr; fdef := None |};
      {| ftag := 2; freq := false; fty := TI32; fdef := Some (VInt 7) |};
      {| ftag := 3; freq := false; fty := TVec TI8; fdef := None |};
      {| ftag := 5; freq := false; fty := TF64; fdef := Some (VFlt 4607182418800017408) |} ] ].
Definition noncanonical (bs : list N) : bool :=
  match decode w_schema 0 bs with
  | DOk v [] => negb (bytes_eqb (encode w_schema 0 v) bs)
  | _ => false
  end.
Example noncanonical_images :
  noncanonical [1; 0; 5] = true                        (* int 5 as SHORT; canonical: BYTE *)
  /\ noncanonical [2; 0; 0; 0; 5] = true               (* int 5 as INT *)
  /\ noncanonical [0; 5; 23; 0; 0; 0; 1; 97] = true    (* "a" as STRING4; canonical: STRING1 *)
  /\ noncanonical [0; 5; 32; 7] = true                 (* optional member present at its default 7; canonical: left out *)
  /\ noncanonical [0; 5; 57; 0; 1; 0; 9] = true        (* vector<byte> [9] as LIST; canonical: SimpleList *)
  /\ noncanonical [0; 5; 92] = true                    (* double 0.0 as ZeroTag; canonical: DOUBLE + 8 bytes *)
  /\ noncanonical [0; 5; 84; 63; 128; 0; 0] = true     (* double member sent as FLOAT 1.0 = its default; canonical: left out *)
  /\ noncanonical [0; 5; 64; 9] = true                 (* unknown field tag 4; canonical: absent *)
  /\ noncanonical [0; 5] = false.                      (* the canonical image *)
Proof. vm_compute. repeat split; reflexivity. Qed.
Theorem reencode_identity_refuted : ~ reencode_identity_statement.
Proof.
  intros H. specialize (H w_schema 0%nat [1; 0; 5] (VStruct [VInt 5; VStr []; VInt 7; VBytes []; VFlt 4607182418800017408])).
  assert (E : decode w_schema 0 [1; 0; 5] = DOk (VStruct [VInt 5; VStr []; VInt 7; VBytes []; VFlt 4607182418800017408]) [])
    by (vm_compute; reflexivity).
  specialize (H E). vm_compute in H. discriminate.
Qed.
Print Assumptions reencode_canonical.
Print Assumptions encode_injective.
Print Assumptions reencode_identity_refuted.
