(* C03, second clause: an INDEPENDENT schema-directed reference decoder. It works on wire trees (Skip.v: wf, the
   independent description of a well-formed Tars encoding), not on bytes, and shares nothing with the model of the
   generated decoder (GenCodec.v dec_var ...): no cursor, no skipping, no fuel accounting tied to the input. Definitions only. *)
From Coq Require Import List NArith ZArith Lia Bool Arith.
From TarsV Require Import Gen.Consts Base.Hex Codec.Wire Codec.Skip Codec.Prim Codec.GenCodec Codec.Corr Codec.RoundTrip.
Import ListNotations.
Open Scope N_scope.

(* the integer a wire field denotes *)
Definition unint (w : wf) : option Z :=
  match w with
  | WZero => Some 0%Z | WByte b => Some (sext 8 b) | WShort v => Some (sext 16 v) | WInt v => Some (sext 32 v) | WLong v => Some (sext 64 v)
  | _ => None
  end.
Definition ref_default (e : env) (fd : field) : val :=
  match fdef fd with Some dv => dv | None => match fty fd with
    | TBool => VBool false | TF32 | TF64 => VFlt 0 | TStr => VStr [] | TVec TI8 => VBytes [] | TVec _ => VList [] | TMap _ _ => VMap []
    | _ => VInt 0 end end.

Fixpoint unwire (fuel : nat) (e : env) (t : ty) (w : wf) {struct fuel} : option val :=
  match fuel with O => None | S f =>
  match t with
  | TBool => match unint w with Some z => Some (VBool (negb (z =? 0)%Z)) | None => None end
  | TI8 | TU8 | TI16 | TU16 | TI32 | TU32 | TI64 | TEnum => match unint w with Some z => Some (VInt z) | None => None end
  | TF32 => match w with WFloat b => Some (VFlt b) | WZero => Some (VFlt 0) | _ => None end
  | TF64 => match w with WDouble b => Some (VFlt b) | WFloat b => Some (VFlt (widen32 b)) | WZero => Some (VFlt 0) | _ => None end
  | TStr => match w with WStr1 s | WStr4 s => Some (VStr s) | _ => None end
  | TVec x =>
      match w with
      | WSimple s => if is_byte x then Some (bytes_val x s) else None
      | WList l =>
          match (fix go (l : list (N * wf)) : option (list val) :=
                   match l with
                   | [] => Some []
                   | p :: r => match unwire f e x (snd p), go r with Some v, Some vs => Some (v :: vs) | _, _ => None end
                   end) l with
          | Some vs => Some (list_val x vs) | None => None end
      | _ => None
      end
  | TArr n x =>
      match w with
      | WList l =>
          match (fix go (l : list (N * wf)) : option (list val) :=
                   match l with
                   | [] => Some []
                   | p :: r => match unwire f e x (snd p), go r with Some v, Some vs => Some (v :: vs) | _, _ => None end
                   end) l with
          | Some vs => if (length vs =? n)%nat then Some (VList vs) else None | None => None end
      | _ => None
      end
  | TMap kt vt =>
      match w with
      | WMap m =>
          match (fix go (m : list ((N * wf) * (N * wf))) : option (list (val * val)) :=
                   match m with
                   | [] => Some []
                   | p :: r => match unwire f e kt (snd (fst p)), unwire f e vt (snd (snd p)), go r with
                               | Some k, Some v, Some kvs => Some ((k, v) :: kvs) | _, _, _ => None end
                   end) m with
          | Some kvs => Some (VMap kvs) | None => None end
      | _ => None
      end
  | TStruct sid =>
      match w with
      | WStruct fs =>
          match (fix go (fds : schema) (fs : list (N * wf)) : option (list val) :=
                   match fds with
                   | [] => match fs with [] => Some [] | _ => None end
                   | fd :: fds' =>
                       match fs with
                       | (tg, x) :: fs' =>
                           if tg =? ftag fd then
                             match unwire f e (fty fd) x, go fds' fs' with Some v, Some vs => Some (v :: vs) | _, _ => None end
                           else if freq fd then None
                           else match go fds' fs with Some vs => Some (ref_default e fd :: vs) | None => None end
                       | [] => if freq fd then None
                               else match go fds' [] with Some vs => Some (ref_default e fd :: vs) | None => None end
                       end
                   end) (fields_of e sid) fs with
          | Some vs => Some (VStruct vs) | None => None end
      | _ => None
      end
  end end.
