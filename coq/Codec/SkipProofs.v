(* skip_exact: skipping the body of any well-formed wire tree (any nesting within the depth limit)
   consumes exactly that field. *)
From Coq Require Import List NArith ZArith Lia Bool Arith.
From Coq Require Import ZifyN ZifyNat ZifyBool.
From TarsV Require Import Gen.Consts Codec.Wire Codec.WireProofs Codec.Skip.
Import ListNotations.
Ltac Zify.zify_post_hook ::= Z.div_mod_to_equations.
Open Scope N_scope.

(* nested induction principle *)
Section wf_ind2.
  Variable P : wf -> Prop.
  Hypothesis H0 : P WZero.
  Hypothesis H1 : forall b, P (WByte b).
  Hypothesis H2 : forall v, P (WShort v).
  Hypothesis H3 : forall v, P (WInt v).
  Hypothesis H4 : forall v, P (WLong v).
  Hypothesis H5 : forall v, P (WFloat v).
  Hypothesis H6 : forall v, P (WDouble v).
  Hypothesis H7 : forall s, P (WStr1 s).
  Hypothesis H8 : forall s, P (WStr4 s).
  Hypothesis H9 : forall s, P (WSimple s).
  Hypothesis HL : forall xs, Forall (fun p => P (snd p)) xs -> P (WList xs).
  Hypothesis HM : forall kvs, Forall (fun p => P (snd (fst p)) /\ P (snd (snd p))) kvs -> P (WMap kvs).
  Hypothesis HS : forall fs, Forall (fun p => P (snd p)) fs -> P (WStruct fs).
  Fixpoint wf_ind2 (w : wf) : P w :=
    match w with
    | WZero => H0 | WByte b => H1 b | WShort v => H2 v | WInt v => H3 v | WLong v => H4 v
    | WFloat v => H5 v | WDouble v => H6 v | WStr1 s => H7 s | WStr4 s => H8 s | WSimple s => H9 s
    | WList xs => HL xs ((fix go l : Forall (fun p => P (snd p)) l :=
                            match l with [] => Forall_nil _ | (t, x) :: r => Forall_cons (t, x) (wf_ind2 x) (go r) end) xs)
    | WMap kvs => HM kvs ((fix go l : Forall (fun p => P (snd (fst p)) /\ P (snd (snd p))) l :=
                            match l with [] => Forall_nil _
                            | ((tk, k), (tv, v)) :: r => Forall_cons ((tk, k), (tv, v)) (conj (wf_ind2 k) (wf_ind2 v)) (go r) end) kvs)
    | WStruct fs => HS fs ((fix go l : Forall (fun p => P (snd p)) l :=
                            match l with [] => Forall_nil _ | (t, x) :: r => Forall_cons (t, x) (wf_ind2 x) (go r) end) fs)
    end.
End wf_ind2.

Lemma ser_list_go xs :
  (fix go l := match l with [] => [] | (t, x) :: r => head (ty_of x) t ++ ser_body x ++ go r end) xs = ser_fields xs.
Proof. induction xs as [|[t x] r IH]; cbn; [reflexivity|]. unfold ser_field; cbn. now rewrite IH, app_assoc. Qed.

Definition fields_ok (fs : list (N * wf)) : Prop := Forall (fun p => fst p < 256 /\ wf_ok (snd p)) fs.
Lemma wf_ok_fields fs :
  (fix all l := match l with [] => True | (t, x) :: r => t < 256 /\ wf_ok x /\ all r end) fs <-> fields_ok fs.
Proof.
  induction fs as [|[t x] r IH]; cbn.
  - split; [constructor|auto].
  - rewrite IH. split.
    + intros (A & B & C). constructor; auto.
    + intros H. inversion H; subst. cbn in *. tauto.
Qed.

Lemma ty_of_lt w : ty_of w < 16.
Proof. destruct w; reflexivity. Qed.
Lemma ty_of_not_se w : (ty_of w =? tSE) = false.
Proof. destruct w; reflexivity. Qed.

Lemma drop_app n (l r : list N) : N.to_nat n = length l -> drop n (l ++ r) = r.
Proof.
  intros H. unfold drop. rewrite app_length. destruct (N.of_nat (length l + length r) <=? n) eqn:E.
  - assert (length r = 0%nat) by lia. destruct r; [reflexivity|discriminate].
  - rewrite H. rewrite skipn_app, skipn_all, Nat.sub_diag. reflexivity.
Qed.

Ltac hd := first [reflexivity | apply ty_of_lt | assumption | lia].

Lemma read_count_w_len n rest : n < 2 ^ 31 -> read_count (w_len n ++ rest) = COk (Z.of_N n) rest.
Proof.
  intros Hn. unfold w_len, read_count.
  destruct (n =? 0) eqn:E0.
  - rewrite read_head_head by hd. cbn. f_equal. lia.
  - destruct (n <? 128) eqn:E1.
    + rewrite <- app_assoc, read_head_head by hd. cbn. unfold sext.
      destruct (Z.of_N n <? 2 ^ (8 - 1))%Z eqn:E; [reflexivity|]. lia.
    + destruct (n <? 32768) eqn:E2.
      * rewrite <- app_assoc, read_head_head by hd. cbn -[be bread].
        rewrite bread_be by (cbn; lia). unfold sext.
        destruct (Z.of_N n <? 2 ^ (16 - 1))%Z eqn:E; [reflexivity|]. lia.
      * rewrite <- app_assoc, read_head_head by hd. cbn -[be bread].
        rewrite bread_be by (cbn; lia). unfold sext.
        destruct (Z.of_N n <? 2 ^ (32 - 1))%Z eqn:E; [reflexivity|]. lia.
Qed.

Lemma w_len_length n : (1 <= length (w_len n))%nat.
Proof. unfold w_len. destruct (n =? 0); [apply head_length|].
  destruct (n <? 128); [|destruct (n <? 32768)]; rewrite app_length; pose proof (head_length tBYTE 0);
  pose proof (head_length tSHORT 0); pose proof (head_length tINT 0); lia. Qed.

(* nesting depth of a field list *)
Definition mxd (fs : list (N * wf)) : N :=
  (fix mx l := match l with [] => 0 | (_, x) :: r => N.max (wdepth x) (mx r) end) fs.
Lemma mxd_le fs : Forall (fun p => wdepth (snd p) <= mxd fs) fs.
Proof.
  induction fs as [|[t x] r IH]; [constructor|].
  change (mxd ((t, x) :: r)) with (N.max (wdepth x) (mxd r)).
  constructor; [cbn [snd]; apply N.le_max_l|].
  eapply Forall_impl; [|exact IH]. intros [t' x'] H. cbn [snd] in *.
  etransitivity; [exact H|apply N.le_max_r].
Qed.

(* The statement for one field body, and the two list statements, proved together by nested induction *)
Definition P_field (w : wf) : Prop :=
  wf_ok w -> forall d fuel rest, d + wdepth w <= maxd -> (2 * length (ser_body w ++ rest) + 2 <= fuel)%nat ->
  skip_field fuel d (ty_of w) (ser_body w ++ rest) = (SOk, rest).

Lemma skip_n_fields fs : Forall (fun p => P_field (snd p)) fs -> fields_ok fs ->
  forall d fuel rest, Forall (fun p => d + wdepth (snd p) <= maxd) fs ->
  (2 * length (ser_fields fs ++ rest) + 1 <= fuel)%nat ->
  skip_n fuel d (Z.of_nat (length fs)) (ser_fields fs ++ rest) = (SOk, rest).
Proof.
  induction fs as [|[t x] r IH]; intros HP Hok d fuel rest Hd Hf.
  - destruct fuel; [lia|]. reflexivity.
  - inversion HP as [|? ? Hx HPr]; subst. inversion Hok as [|? ? [Ht Hwx] Hokr]; subst.
    inversion Hd as [|? ? Hdx Hdr]; subst. cbn in Ht, Hwx, Hx, Hdx.
    destruct fuel as [|f]; [lia|].
    cbn [skip_n length]. destruct (Z.of_nat (S (length r)) <=? 0)%Z eqn:E; [lia|].
    cbn [ser_fields]. unfold ser_field. cbn [fst snd]. rewrite <- !app_assoc.
    rewrite read_head_head by hd.
    assert (Hlen : (2 * length (ser_body x ++ ser_fields r ++ rest) + 2 <= f)%nat).
    { cbn [ser_fields] in Hf. unfold ser_field in Hf. cbn [fst snd] in Hf.
      rewrite <- !app_assoc, !app_length in Hf. pose proof (head_length (ty_of x) t).
      rewrite !app_length. lia. }
    rewrite (Hx Hwx d f (ser_fields r ++ rest) Hdx Hlen).
    replace (Z.of_nat (S (length r)) - 1)%Z with (Z.of_nat (length r)) by lia.
    apply IH; auto. rewrite !app_length in *. lia.
Qed.

Lemma skip_to_end_fields fs : Forall (fun p => P_field (snd p)) fs -> fields_ok fs ->
  forall d fuel rest, Forall (fun p => d + wdepth (snd p) <= maxd) fs ->
  (2 * length (ser_fields fs ++ head tSE 0 ++ rest) + 1 <= fuel)%nat ->
  skip_to_end fuel d (ser_fields fs ++ head tSE 0 ++ rest) = (SOk, rest).
Proof.
  induction fs as [|[t x] r IH]; intros HP Hok d fuel rest Hd Hf.
  - destruct fuel as [|f]; [lia|]. cbn [ser_fields app skip_to_end].
    rewrite read_head_head by hd.
    destruct f as [|f']; [cbn in Hf; lia|]. reflexivity.
  - inversion HP as [|? ? Hx HPr]; subst. inversion Hok as [|? ? [Ht Hwx] Hokr]; subst.
    inversion Hd as [|? ? Hdx Hdr]; subst. cbn in Ht, Hwx, Hx, Hdx.
    destruct fuel as [|f]; [lia|].
    cbn [skip_to_end ser_fields]. unfold ser_field. cbn [fst snd]. rewrite <- !app_assoc.
    rewrite read_head_head by hd.
    assert (Hlen : (2 * length (ser_body x ++ ser_fields r ++ head tSE 0 ++ rest) + 2 <= f)%nat).
    { cbn [ser_fields] in Hf. unfold ser_field in Hf. cbn [fst snd] in Hf.
      rewrite <- !app_assoc, !app_length in Hf. pose proof (head_length (ty_of x) t).
      rewrite !app_length. lia. }
    rewrite (Hx Hwx d f _ Hdx Hlen). rewrite ty_of_not_se.
    apply IH; auto. rewrite !app_length in *. lia.
Qed.

Definition flat (kvs : list ((N * wf) * (N * wf))) : list (N * wf) :=
  flat_map (fun p => [fst p; snd p]) kvs.
Lemma ser_map_go kvs :
  (fix go l := match l with [] => []
     | ((tk, k), (tv, v)) :: r => head (ty_of k) tk ++ ser_body k ++ head (ty_of v) tv ++ ser_body v ++ go r end) kvs
  = ser_fields (flat kvs).
Proof.
  induction kvs as [|[[tk k] [tv v]] r IH]; cbn; [reflexivity|].
  unfold ser_field; cbn. rewrite IH. now rewrite <- !app_assoc.
Qed.
Lemma flat_length kvs : length (flat kvs) = (2 * length kvs)%nat.
Proof. unfold flat. induction kvs; cbn [flat_map length app] in *; lia. Qed.
Lemma wf_ok_map kvs :
  (fix all l := match l with [] => True
     | ((tk, k), (tv, v)) :: r => tk < 256 /\ tv < 256 /\ wf_ok k /\ wf_ok v /\ all r end) kvs -> fields_ok (flat kvs).
Proof.
  induction kvs as [|[[tk k] [tv v]] r IH]; cbn; intros H; [constructor|].
  destruct H as (A & B & C & D & E). repeat constructor; cbn; auto. apply IH; auto.
Qed.
Lemma mxd_flat kvs :
  (fix mx l := match l with [] => 0
     | ((_, k), (_, v)) :: r => N.max (N.max (wdepth k) (wdepth v)) (mx r) end) kvs = mxd (flat kvs).
Proof.
  induction kvs as [|[[tk k] [tv v]] r IH]; [reflexivity|].
  change (mxd (flat (((tk, k), (tv, v)) :: r))) with (N.max (wdepth k) (N.max (wdepth v) (mxd (flat r)))).
  rewrite <- IH. now rewrite N.max_assoc.
Qed.

Lemma depth_children d fs : d + (1 + mxd fs) <= maxd -> Forall (fun p => (d + 1) + wdepth (snd p) <= maxd) fs.
Proof. intros H. eapply Forall_impl; [|apply mxd_le]. intros p Hp. cbv beta in Hp. lia. Qed.

Theorem skip_exact : forall w, P_field w.
Proof.
  induction w using wf_ind2; unfold P_field; intros Hok d fuel rest Hd Hf;
    (destruct fuel as [|f]; [lia|]); cbn [ty_of ser_body] in *.
  - reflexivity.
  - cbn -[drop]. change (b :: rest) with ([b] ++ rest). now rewrite drop_app by reflexivity.
  - cbn -[be drop]. now rewrite drop_app by (rewrite be_length; reflexivity).
  - cbn -[be drop]. now rewrite drop_app by (rewrite be_length; reflexivity).
  - cbn -[be drop]. now rewrite drop_app by (rewrite be_length; reflexivity).
  - cbn -[be drop]. now rewrite drop_app by (rewrite be_length; reflexivity).
  - cbn -[be drop]. now rewrite drop_app by (rewrite be_length; reflexivity).
  - (* STRING1 *) cbn -[drop]. rewrite drop_app by lia. reflexivity.
  - (* STRING4 *) cbn -[be drop bread]. rewrite <- app_assoc.
    cbn in Hok. rewrite bread_be by (cbn; lia). rewrite drop_app by lia. reflexivity.
  - (* SimpleList *) cbn -[drop w_len head]. rewrite <- !app_assoc.
    rewrite read_head_head by hd. cbn -[drop w_len head].
    cbn in Hok. rewrite read_count_w_len by assumption.
    destruct (0 <? Z.of_N (N.of_nat (length s)))%Z eqn:E.
    + rewrite drop_app by lia. reflexivity.
    + destruct s; [reflexivity|cbn in E; lia].
  - (* LIST *) cbn -[w_len maxd N.add] in *. destruct Hok as [Hn Hall]. rewrite ser_list_go in *. apply wf_ok_fields in Hall.
    fold (mxd xs) in Hd.
    destruct (maxd <=? d) eqn:Ed; [lia|].
    rewrite <- app_assoc. rewrite read_count_w_len by lia.
    replace (Z.of_N (N.of_nat (length xs))) with (Z.of_nat (length xs)) by lia.
    apply skip_n_fields; auto.
    + apply depth_children. lia.
    + rewrite <- app_assoc, app_length in Hf. pose proof (w_len_length (N.of_nat (length xs))). lia.
  - (* MAP: flatten key/value pairs into a field list of twice the length *)
    cbn -[w_len maxd N.add] in *. destruct Hok as [Hn Hall]. rewrite ser_map_go in *. apply wf_ok_map in Hall.
    rewrite mxd_flat in Hd.
    destruct (maxd <=? d) eqn:Ed; [lia|].
    rewrite <- app_assoc. rewrite read_count_w_len by lia.
    assert (Hw : wrap32 (Z.of_N (N.of_nat (length kvs)) * 2) = Z.of_nat (length (flat kvs))).
    { rewrite flat_length. unfold wrap32.
      assert (E : ((Z.of_N (N.of_nat (length kvs)) * 2) mod 2 ^ 32 = Z.of_nat (2 * length kvs))%Z).
      { rewrite Z.mod_small; lia. }
      rewrite E. destruct (Z.of_nat (2 * length kvs) <? 2 ^ 31)%Z eqn:E2; lia. }
    rewrite Hw. apply skip_n_fields; auto.
    + clear - H. induction H as [|[[tk k] [tv v]] r [A B] _ IH]; cbn; [constructor|]. repeat constructor; auto.
    + apply depth_children. lia.
    + rewrite <- app_assoc, app_length in Hf. pose proof (w_len_length (N.of_nat (length kvs))). lia.
  - (* STRUCT *) cbn -[maxd N.add] in *. rewrite ser_list_go in *. apply wf_ok_fields in Hok.
    fold (mxd fs) in Hd.
    destruct (maxd <=? d) eqn:Ed; [lia|].
    rewrite <- app_assoc. apply skip_to_end_fields; auto.
    + apply depth_children. lia.
    + rewrite <- app_assoc in Hf. rewrite !app_length in *. change (length (head tSE 0)) with 1%nat. cbn [length] in Hf. lia.
Qed.
Print Assumptions skip_exact.
