(* C06: damage at any depth. [spot e tag t bs]: bs starts with a field under tag that the reader of IDL type t
   refuses on its own - a wire type it does not accept (the single-field wire-type substitution), or an embedded
   string length / byte-vector count / list count / map count / fixed-array count that announces more than is left -
   followed by ANYTHING. [dmg e tag t bs]: bs is the encoding of a member of type t in which everything in front of
   one such spot is encoded normally and the spot sits at any depth: in the member itself, in an element of a
   vector or fixed array, in a key or value of a map, in a member of a nested struct, recursively.
   Definitions only. *)
From Coq Require Import List NArith ZArith Lia Bool Arith.
From TarsV Require Import Gen.Consts Base.Hex Codec.Wire Codec.Skip Codec.Prim Codec.GenCodec Codec.Corr Codec.RoundTrip.
Import ListNotations.
Open Scope N_scope.

Inductive spot (e : env) : N -> ty -> list N -> Prop :=
| SP_mistyped tag t ty r : ty < 16 -> (ty =? tSE) = false -> adm t ty = false -> spot e tag t (head ty tag ++ r)
| SP_strlen tag (four : bool) l r : N.of_nat (length r) < l -> l < (if four then 4294967296 else 256) ->
    spot e tag TStr ((if four then head tSTR4 tag ++ be 4 l else head tSTR1 tag ++ [l]) ++ r)
| SP_byteslen tag x n r : is_byte x = true -> (length r < n)%nat -> N.of_nat n < 2147483648 ->
    spot e tag (TVec x) (head tSIMPLE tag ++ head tBYTE 0 ++ w_int32 (Z.of_nat n) 0 ++ r)
| SP_listcount tag x n r : (length r < n)%nat -> N.of_nat n < 2147483648 ->
    spot e tag (TVec x) (head tLIST tag ++ w_int32 (Z.of_nat n) 0 ++ r)
| SP_mapcount tag kt vt n r : (length r < 2 * n)%nat -> N.of_nat n < 2147483648 ->
    spot e tag (TMap kt vt) (head tMAP tag ++ w_int32 (Z.of_nat n) 0 ++ r)
| SP_arrcount tag len x n r : (len < n)%nat -> N.of_nat n < 2147483648 ->
    spot e tag (TArr len x) (head tLIST tag ++ w_int32 (Z.of_nat n) 0 ++ r).

Inductive dmg (e : env) : N -> ty -> list N -> Prop :=
| DM_spot tag t bs : spot e tag t bs -> dmg e tag t bs
| DM_vec tag x xs n bs' : Forall (has_type e x) xs -> (length xs < n)%nat -> N.of_nat n < 2147483648 ->
    dmg e 0 x bs' ->
    dmg e tag (TVec x) (head tLIST tag ++ w_int32 (Z.of_nat n) 0 ++ enc_elems e x xs ++ bs')
| DM_arr tag len x xs n bs' : Forall (has_type e x) xs -> (length xs < n)%nat -> N.of_nat n < 2147483648 ->
    dmg e 0 x bs' ->
    dmg e tag (TArr len x) (head tLIST tag ++ w_int32 (Z.of_nat n) 0 ++ enc_elems e x xs ++ bs')
| DM_map_key tag kt vt kvs n bs' : Forall (fun p => has_type e kt (fst p) /\ has_type e vt (snd p)) kvs ->
    (length kvs < n)%nat -> N.of_nat n < 2147483648 -> dmg e 0 kt bs' ->
    dmg e tag (TMap kt vt) (head tMAP tag ++ w_int32 (Z.of_nat n) 0 ++ enc_entries e kt vt kvs ++ bs')
| DM_map_val tag kt vt kvs k n bs' : Forall (fun p => has_type e kt (fst p) /\ has_type e vt (snd p)) kvs ->
    (length kvs < n)%nat -> N.of_nat n < 2147483648 -> has_type e kt k -> dmg e 1 vt bs' ->
    dmg e tag (TMap kt vt) (head tMAP tag ++ w_int32 (Z.of_nat n) 0 ++ enc_entries e kt vt kvs ++ enc_var e 0 true kt None k ++ bs')
| DM_struct tag sid fds1 fd fds2 vs1 bs' : fields_of e sid = fds1 ++ fd :: fds2 ->
    Forall2 (fun fd x => has_type e (fty fd) x) fds1 vs1 -> dmg e (ftag fd) (fty fd) bs' ->
    dmg e tag (TStruct sid) (head tSB tag ++ enc_fields e vs1 fds1 ++ bs').
