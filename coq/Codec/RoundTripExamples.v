(* The struct-level theorems instantiated on the schemas regenerated from the tree (Gen/Schemas.v): the schema
   conditions hold of the code's own struct types, and the hypotheses are satisfiable by non-trivial values. *)
From Coq Require Import List NArith ZArith Lia Bool Arith.
From TarsV Require Import Gen.Consts Base.Hex Codec.Wire Codec.Skip Codec.Prim Codec.GenCodec Codec.Corr
  Codec.RoundTrip Codec.RoundTripProofs Codec.TotalProofs Codec.PrefixProofs Codec.PrefixGenProofs Codec.NormProofs Codec.NestedProofs Codec.CorrT Gen.Schemas.
Import ListNotations.
Open Scope N_scope.

(* the regenerated schemas satisfy the conditions of the theorems: tags strictly ascending and < 256, declared
   defaults on scalar members only, by-value struct nesting of depth <= 8 (robust against added IDL structs) *)
Theorem env0_wf_schema : wf_schema 8 env0.
Proof. apply wf_schema_b_sound. vm_compute. reflexivity. Qed.

(* C03 on the code's schemas: every well-typed value of every generated struct type with a finite type graph whose
   static depth bound fits the model's fuel constant round-trips; the two side conditions are decided by
   evaluation for each named struct type (examples below) - nothing here depends on how many struct types the
   tree generates or on their numbering *)
Definition fits_model (sid : nat) : bool :=
  tfin 8 env0 (TStruct sid) && (tneed 8 env0 (TStruct sid) + 8 <=? 64)%nat.
Lemma fits_model_spec sid : fits_model sid = true ->
  tfin 8 env0 (TStruct sid) = true /\ (tneed 8 env0 (TStruct sid) + 8 <= 64)%nat.
Proof. unfold fits_model. intros H. apply andb_true_iff in H. destruct H as [A B]. apply Nat.leb_le in B. tauto. Qed.
Theorem env0_roundtrip : forall sid vs, fits_model sid = true ->
  has_type env0 (TStruct sid) (VStruct vs) ->
  decode env0 sid (encode env0 sid (VStruct vs)) = DOk (norm_struct env0 sid (VStruct vs)) [].
Proof.
  intros sid vs Hm Hty. destruct (fits_model_spec sid Hm) as [Hfin Hn].
  apply (roundtrip_struct_static env0 8 8); try assumption; [apply env0_wf_schema|lia].
Qed.
(* the packet types every process decodes from the network and the test IDL's struct types are covered; the
   recursive test struct is not (explicit fuel hypothesis, rec1_roundtrip below) *)
Example env0_covered :
  forallb fits_model [sid_requestf_RequestPacket; sid_requestf_ResponsePacket; sid_verifidl_Containers;
                      sid_verifidl_Inner; sid_verifidl_Scalars; sid_verifidl_Tail] = true
  /\ tfin 8 env0 (TStruct sid_verifidl_Rec) = false.
Proof. vm_compute. split; reflexivity. Qed.

(* ---------- non-vacuity: concrete values ---------- *)
Definition inner1 : val := VStruct [VInt 5; VStr [100; 102; 108; 116]; VList [VInt 9]; VInt 77].
Definition inner0 : val := VStruct [VInt 0; VStr []; VList []; VInt 0].
Definition containers1 : list val := [
  VBytes [1; 2; 255]; VList [VInt 200]; VList [VInt (-5); VInt 70000]; VList [VStr [104]; VStr []];
  VList [VList [VInt 1]; VList []]; VMap [(VStr [97], VStr [98])]; VMap [(VInt 3, VList [VStr [120]])];
  VMap [(VStr [107], VMap [(VInt 1, VInt 5000000000)])]; VList [inner1]; VMap [(VStr [105], inner0)]; inner1;
  VBytes []; VList [VInt (-300)]; VMap []; inner0; VList [VMap [(VStr [109], VBytes [9])]];
  VList [VInt 1; VInt 0; VInt (-1)]; VList [VStr [97]; VStr []]; VList [VBool true]; VList [];
  VList [VFlt 1069547520]; VList [VInt 2]; VMap [(VInt 7, VBool false)] ].
Example containers1_typed : has_type env0 (TStruct sid_verifidl_Containers) (VStruct containers1).
Proof. apply (has_type_b_sound env0 8). vm_compute. reflexivity. Qed.
Example containers1_roundtrip :
  decode env0 sid_verifidl_Containers (encode env0 sid_verifidl_Containers (VStruct containers1))
  = DOk (norm_struct env0 sid_verifidl_Containers (VStruct containers1)) [].
Proof. apply env0_roundtrip; [vm_compute; reflexivity|apply containers1_typed]. Qed.
(* the normal form differs from the value only where an optional scalar equal to its default was omitted;
   here it is the value itself *)
Example containers1_norm : norm_struct env0 sid_verifidl_Containers (VStruct containers1) = VStruct containers1.
Proof. vm_compute. reflexivity. Qed.
Example containers1_bytes : (length (encode env0 sid_verifidl_Containers (VStruct containers1)) = 190)%nat.
Proof. vm_compute. reflexivity. Qed.

(* the request packet *)
Definition request1 : list val := [
  VInt 1; VInt 0; VInt 0; VInt 7654321; VStr [65; 46; 66]; VStr [112; 105; 110; 103]; VBytes [0; 12; 255];
  VInt 3000; VMap [(VStr [107], VStr [118])]; VMap [] ].
Example request1_roundtrip :
  decode env0 sid_requestf_RequestPacket (encode env0 sid_requestf_RequestPacket (VStruct request1)) = DOk (VStruct request1) [].
Proof.
  rewrite env0_roundtrip; [vm_compute; reflexivity|vm_compute; reflexivity|].
  apply (has_type_b_sound env0 8). vm_compute. reflexivity.
Qed.

(* the recursive test struct: the general theorem with the fuel condition evaluated on the value *)
Definition rec1 : list val :=
  [VInt 1; VList [VStruct [VInt 2; VList [VStruct [VInt 3; VList []; VMap []]]; VMap []]];
   VMap [(VStr [120], VStruct [VInt 4; VList []; VMap []])]].
Example rec1_roundtrip :
  decode env0 sid_verifidl_Rec (encode env0 sid_verifidl_Rec (VStruct rec1)) = DOk (VStruct rec1) [].
Proof.
  rewrite (roundtrip_struct env0 8).
  - vm_compute. reflexivity.
  - apply env0_wf_schema.
  - lia.
  - apply (has_type_b_sound env0 12). vm_compute. reflexivity.
  - vm_compute. lia.
Qed.

(* C04: unknown fields (a nested struct with an extended tag, a map, a string) between and after the known
   members of verifidl.Inner change nothing *)
Definition junk_a : list (N * wf) := [(2, WStruct [(200, WMap [((0, WStr1 [1]), (1, WList [(0, WInt 70000)]))])])].
Definition junk_b : list (N * wf) := [(4, WStr4 [1; 2; 3])].
Definition junk_z : list (N * wf) := [(6, WDouble 7); (9, WSimple [5; 6]); (250, WZero)].
Definition inner2 : list val := [VInt 5; VStr [100; 102; 108; 116]; VList [VInt 9]; VInt 0].
Example inner2_extras :
  decode env0 sid_verifidl_Inner
    (encx_fields env0 inner2 (fields_of env0 sid_verifidl_Inner) [[]; []; junk_a; junk_b] ++ ser_fields junk_z)
  = DOk (VStruct inner2) (ser_fields junk_z)
  /\ decode env0 sid_verifidl_Inner (encode env0 sid_verifidl_Inner (VStruct inner2)) = DOk (VStruct inner2) [].
Proof. vm_compute. split; reflexivity. Qed.

(* C05 on the code's schemas: every generated struct type - ANY bytes, any target - never panics and never lets a
   count beyond the bytes left reach an allocation; the model's fuel never runs out for every generated struct
   type that fits the model, so those decode any bytes to a value or an error *)
Theorem env0_no_panic : forall sid prior bs, ok_out (decode_into env0 sid prior bs).
Proof. exact (decode_no_panic env0). Qed.
Theorem env0_fuel : forall sid prior bs, fits_model sid = true -> decode_into env0 sid prior bs <> DFuel.
Proof. intros sid prior bs Hm. destruct (fits_model_spec sid Hm) as [Hfin Hn]. apply (decode_fuel env0 8); [assumption|lia]. Qed.
Theorem env0_total : forall sid prior bs, fits_model sid = true -> total_out (decode_into env0 sid prior bs).
Proof.
  intros sid prior bs Hm. destruct (fits_model_spec sid Hm) as [Hfin Hn]. apply (decode_total env0 8); [assumption|lia].
Qed.
(* e.g. the packet types every process decodes from the network (byte vectors, maps) and the test IDL's container
   struct (vectors, maps, fixed arrays) are total on all bytes *)
Example env0_total_examples :
  forallb fits_model [sid_requestf_RequestPacket; sid_requestf_ResponsePacket; sid_verifidl_Containers;
                      sid_verifidl_Scalars; sid_endpointf_EndpointF; sid_authf_BasicAuthInfo; sid_authf_TokenKey;
                      sid_statf_StatMicMsgHead] = true.
Proof. vm_compute. reflexivity. Qed.

(* C06 on the code's schemas: the prefix theorem for every generated struct type all of whose members are scalar *)
Definition flat_b (fds : schema) : bool := forallb (fun fd => scalar_ty (fty fd)) fds.
Lemma flat_b_sound fds : flat_b fds = true -> flat fds.
Proof. unfold flat_b, flat. rewrite forallb_forall. intros H. apply Forall_forall. exact H. Qed.
Theorem env0_prefix_flat : forall sid vs p q, flat_b (fields_of env0 sid) = true ->
  (length (fields_of env0 sid) + 4 <= 64)%nat ->
  has_type env0 (TStruct sid) (VStruct vs) -> encode env0 sid (VStruct vs) = p ++ q ->
  decode env0 sid p = DErr \/
  exists i h ps, (i <= length (fields_of env0 sid))%nat /\
    p = enc_fields env0 (firstn i vs) (firstn i (fields_of env0 sid)) ++ h /\ (h = [] \/ halfhead h) /\
    optional (skipn i (fields_of env0 sid)) /\
    Forall2 (fun fd p => prior_ok env0 (fty fd) (fdef fd) p) (fields_of env0 sid) ps /\
    decode env0 sid p = DOk (VStruct (firstn i (norm_fields env0 vs (fields_of env0 sid)) ++ skipn i ps)) [].
Proof.
  intros sid vs p q Hfl Hlen Hty HE. apply (prefix_flat env0 8 sid vs p q); try assumption.
  - apply env0_wf_schema.
  - lia.
  - now apply flat_b_sound.
Qed.
Example env0_flat_examples :
  forallb (fun sid => flat_b (fields_of env0 sid) && (length (fields_of env0 sid) + 4 <=? 64)%nat)
          [sid_verifidl_Scalars; sid_endpointf_EndpointF; sid_authf_BasicAuthInfo; sid_authf_TokenKey] = true.
Proof. vm_compute. reflexivity. Qed.

(* the declared defaults of the regenerated schemas are values of their member's type; with that, the round trip
   on the code's schemas in the property's own terms: an equal value comes back *)
Theorem env0_defaults_typed : defaults_typed env0.
Proof. apply defaults_typed_b_sound. vm_compute. reflexivity. Qed.
Theorem env0_roundtrip_equal : forall sid vs, fits_model sid = true ->
  has_type env0 (TStruct sid) (VStruct vs) ->
  exists v', decode env0 sid (encode env0 sid (VStruct vs)) = DOk v' [] /\ veq env0 (TStruct sid) v' (VStruct vs).
Proof.
  intros sid vs Hm Hty. destruct (fits_model_spec sid Hm) as [Hfin Hn]. apply (roundtrip_equal env0 8 8); try assumption.
  - apply env0_wf_schema.
  - apply env0_defaults_typed.
  - lia.
Qed.
(* -0.0 in an optional float member with default +0.0 is omitted and comes back as +0.0: equal under ==, not identical *)
Example norm_not_identity :
  let e := [[ {| ftag := 1; freq := false; fty := TF32; fdef := None |} ]] in
  decode e 0 (encode e 0 (VStruct [VFlt 2147483648])) = DOk (VStruct [VFlt 0]) [].
Proof. vm_compute. reflexivity. Qed.

(* C06 on the code's schemas, every generated struct type with a finite type graph (containers and nested structs
   included): the general prefix theorem *)
Theorem env0_prefix_general : forall sid vs p q, fits_model sid = true ->
  has_type env0 (TStruct sid) (VStruct vs) -> encode env0 sid (VStruct vs) = p ++ q ->
  bad (decode env0 sid p) \/
  exists i h ps, (i <= length (fields_of env0 sid))%nat /\
    p = enc_fields env0 (firstn i vs) (firstn i (fields_of env0 sid)) ++ h /\ (h = [] \/ halfhead h) /\
    optional (skipn i (fields_of env0 sid)) /\
    Forall2 (fun fd pr => prior_ok env0 (fty fd) (fdef fd) pr) (fields_of env0 sid) ps /\
    decode env0 sid p = DOk (VStruct (firstn i (norm_fields env0 vs (fields_of env0 sid)) ++ skipn i ps)) [].
Proof.
  intros sid vs p q Hm Hty HE. destruct (fits_model_spec sid Hm) as [Hfin Hn].
  apply (prefix_general env0 8 8 sid vs p q); try assumption; [apply env0_wf_schema|lia].
Qed.

(* the side condition tneed + k <= 64 (and the fuel hypothesis for recursive types) is a limit of the MODEL, not of
   the code: the model's fuel is 4*len+64, and a struct type with more members than that constant allows runs out
   of fuel on a three-level value (the generated Go code has no such limit; the regenerated schemas need at most 44) *)
Definition wide_schema : env :=
  [ map (fun t => {| ftag := N.of_nat t; freq := false; fty := TI32; fdef := None |}) (seq 0 40)
    ++ [ {| ftag := 40; freq := false; fty := TVec (TStruct 0); fdef := None |} ] ].
Fixpoint wide_deep (n : nat) : val :=
  match n with
  | O => VStruct (repeat (VInt 0) 40 ++ [VList []])
  | S k => VStruct (repeat (VInt 0) 40 ++ [VList [wide_deep k]])
  end.
Example model_fuel_limit :
  wf_schema_b 2 wide_schema = true /\ has_type_b 20 wide_schema (TStruct 0) (wide_deep 3) = true /\
  decode wide_schema 0 (encode wide_schema 0 (wide_deep 3)) = DFuel.
Proof. vm_compute. repeat split; reflexivity. Qed.

(* C04 on the code's schemas: unknown fields at every struct level change nothing, for every generated struct type
   with a finite type graph *)
Theorem env0_extras_nested : forall sid vs Js body Jl, fits_model sid = true ->
  has_type env0 (TStruct sid) (VStruct vs) ->
  xfields env0 (fields_of env0 sid) vs Js body -> junks_ok None (fields_of env0 sid) Js -> trailing_ok (fields_of env0 sid) Jl ->
  decode env0 sid (body ++ ser_fields Jl) = DOk (norm_struct env0 sid (VStruct vs)) (ser_fields Jl)
  /\ decode env0 sid (encode env0 sid (VStruct vs)) = DOk (norm_struct env0 sid (VStruct vs)) [].
Proof.
  intros sid vs Js body Jl Hm Hty Hx HJ HJl. destruct (fits_model_spec sid Hm) as [Hfin Hn].
  apply (extras_nested env0 8 8 sid vs Js body Jl); try assumption; [apply env0_wf_schema|lia].
Qed.

(* the lenient evaluators excuse exactly the model's fuel artifact: on the 41-member struct type the strict check
   would report a disagreement although the code is right; on struct types that fit the model they are the strict ones
   (CorrT.gcase_check_t_strict) *)
Example fuel_artifact_excused :
  let bs := encode wide_schema 0 (wide_deep 3) in
  dec_check wide_schema (0%nat, HexS [], OVal (wide_deep 3)) = false /\
  model_fits wide_schema 0 = false /\ model_fits env0 sid_requestf_RequestPacket = true.
Proof. vm_compute. repeat split; reflexivity. Qed.
