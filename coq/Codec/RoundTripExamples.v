(* The struct-level theorems instantiated on the schemas regenerated from the tree (Gen/Schemas.v): the schema
   conditions hold of the code's own struct types, and the hypotheses are satisfiable by non-trivial values. *)
From Coq Require Import List NArith ZArith Lia Bool Arith.
From TarsV Require Import Gen.Consts Base.Hex Codec.Wire Codec.Skip Codec.Prim Codec.GenCodec Codec.Corr
  Codec.RoundTrip Codec.RoundTripProofs Codec.TotalProofs Codec.PrefixProofs Gen.Schemas.
Import ListNotations.
Open Scope N_scope.

(* the regenerated schemas satisfy the conditions of the theorems: tags strictly ascending and < 256, declared
   defaults on scalar members only, by-value struct nesting of depth <= 2 *)
Theorem env0_wf_schema : wf_schema 2 env0.
Proof. apply wf_schema_b_sound. vm_compute. reflexivity. Qed.

(* every struct type of the tree whose type graph is finite (all but the recursive test struct) has a static
   recursion bound that the model's fuel covers *)
Lemma env0_static : forall sid, tfin 8 env0 (TStruct sid) = true -> (tneed 8 env0 (TStruct sid) + 2 <= 64)%nat.
Proof.
  intros sid Hfin. destruct (Nat.ltb sid (length env0)) eqn:E.
  - apply Nat.ltb_lt in E.
    assert (H : forallb (fun s => implb (tfin 8 env0 (TStruct s)) (tneed 8 env0 (TStruct s) + 2 <=? 64)%nat) (seq 0 (length env0)) = true)
      by (vm_compute; reflexivity).
    rewrite forallb_forall in H. specialize (H sid). rewrite Hfin in H. cbn [implb] in H.
    apply Nat.leb_le. apply H. apply in_seq. lia.
  - apply Nat.ltb_ge in E. rewrite (tneed_overflow 7 env0 sid E). lia.
Qed.

(* C03 on the code's schemas: every well-typed value of every non-recursive generated struct type round-trips *)
Theorem env0_roundtrip : forall sid vs, tfin 8 env0 (TStruct sid) = true ->
  has_type env0 (TStruct sid) (VStruct vs) ->
  decode env0 sid (encode env0 sid (VStruct vs)) = DOk (norm_struct env0 sid (VStruct vs)) [].
Proof.
  intros sid vs Hfin Hty. apply (roundtrip_struct_static env0 2 8); try assumption.
  - apply env0_wf_schema.
  - lia.
  - now apply env0_static.
Qed.
Example env0_nonrecursive :
  filter (fun sid => negb (tfin 8 env0 (TStruct sid))) (seq 0 (length env0)) = [sid_verifidl_Rec].
Proof. vm_compute. reflexivity. Qed.

(* ---------- non-vacuity: concrete values ---------- *)
Definition inner1 : val := VStruct [VInt 5; VStr [100; 102; 108; 116]; VList [VInt 9]; VInt 77].
Definition inner0 : val := VStruct [VInt 0; VStr []; VList []; VInt 0].
Definition containers1 : list val := [
  VBytes [1; 2; 255]; VList [VInt 200]; VList [VInt (-5); VInt 70000]; VList [VStr [104]; VStr []];
  VList [VList [VInt 1]; VList []]; VMap [(VStr [97], VStr [98])]; VMap [(VInt 3, VList [VStr [120]])];
  VMap [(VStr [107], VMap [(VInt 1, VInt 5000000000)])]; VList [inner1]; VMap [(VStr [105], inner0)]; inner1;
  VBytes []; VList [VInt (-300)]; VMap []; inner0; VList [VMap [(VStr [109], VBytes [9])]];
  VList [VInt 1; VInt 0; VInt (-1)]; VList [VStr [97]; VStr []]; VList [VBool true]; VList [];
  VList [VFlt 1069547520]; VList [VInt 2]; VMap [(VInt 7, VBool false)] ].
Example containers1_typed : has_type env0 (TStruct sid_verifidl_Containers) (VStruct containers1).
Proof. apply (has_type_b_sound env0 8). vm_compute. reflexivity. Qed.
Example containers1_roundtrip :
  decode env0 sid_verifidl_Containers (encode env0 sid_verifidl_Containers (VStruct containers1))
  = DOk (norm_struct env0 sid_verifidl_Containers (VStruct containers1)) [].
Proof. apply env0_roundtrip; [vm_compute; reflexivity|apply containers1_typed]. Qed.
(* the normal form differs from the value only where an optional scalar equal to its default was omitted;
   here it is the value itself *)
Example containers1_norm : norm_struct env0 sid_verifidl_Containers (VStruct containers1) = VStruct containers1.
Proof. vm_compute. reflexivity. Qed.
Example containers1_bytes : (length (encode env0 sid_verifidl_Containers (VStruct containers1)) = 190)%nat.
Proof. vm_compute. reflexivity. Qed.

(* the request packet *)
Definition request1 : list val := [
  VInt 1; VInt 0; VInt 0; VInt 7654321; VStr [65; 46; 66]; VStr [112; 105; 110; 103]; VBytes [0; 12; 255];
  VInt 3000; VMap [(VStr [107], VStr [118])]; VMap [] ].
Example request1_roundtrip :
  decode env0 sid_requestf_RequestPacket (encode env0 sid_requestf_RequestPacket (VStruct request1)) = DOk (VStruct request1) [].
Proof.
  rewrite env0_roundtrip; [vm_compute; reflexivity|vm_compute; reflexivity|].
  apply (has_type_b_sound env0 8). vm_compute. reflexivity.
Qed.

(* the recursive test struct: the general theorem with the fuel condition evaluated on the value *)
Definition rec1 : list val :=
  [VInt 1; VList [VStruct [VInt 2; VList [VStruct [VInt 3; VList []; VMap []]]; VMap []]];
   VMap [(VStr [120], VStruct [VInt 4; VList []; VMap []])]].
Example rec1_roundtrip :
  decode env0 sid_verifidl_Rec (encode env0 sid_verifidl_Rec (VStruct rec1)) = DOk (VStruct rec1) [].
Proof.
  rewrite (roundtrip_struct env0 2).
  - vm_compute. reflexivity.
  - apply env0_wf_schema.
  - lia.
  - apply (has_type_b_sound env0 12). vm_compute. reflexivity.
  - vm_compute. lia.
Qed.

(* C04: unknown fields (a nested struct with an extended tag, a map, a string) between and after the known
   members of verifidl.Inner change nothing *)
Definition junk_a : list (N * wf) := [(2, WStruct [(200, WMap [((0, WStr1 [1]), (1, WList [(0, WInt 70000)]))])])].
Definition junk_b : list (N * wf) := [(4, WStr4 [1; 2; 3])].
Definition junk_z : list (N * wf) := [(6, WDouble 7); (9, WSimple [5; 6]); (250, WZero)].
Definition inner2 : list val := [VInt 5; VStr [100; 102; 108; 116]; VList [VInt 9]; VInt 0].
Example inner2_extras :
  decode env0 sid_verifidl_Inner
    (encx_fields env0 inner2 (fields_of env0 sid_verifidl_Inner) [[]; []; junk_a; junk_b] ++ ser_fields junk_z)
  = DOk (VStruct inner2) (ser_fields junk_z)
  /\ decode env0 sid_verifidl_Inner (encode env0 sid_verifidl_Inner (VStruct inner2)) = DOk (VStruct inner2) [].
Proof. vm_compute. split; reflexivity. Qed.

(* C05 on the code's schemas: the model's fuel never runs out on any bytes for every generated struct type with
   a finite type graph; the 21 struct types without vector/array members decode any bytes to a value or an error *)
Theorem env0_fuel : forall sid prior bs, tfin 8 env0 (TStruct sid) = true -> decode_into env0 sid prior bs <> DFuel.
Proof. intros sid prior bs Hfin. apply (decode_fuel env0 8); [assumption|]. pose proof (env0_static sid Hfin). lia. Qed.
Theorem env0_total : forall sid prior bs, safe_ty 8 env0 (TStruct sid) = true -> total_out (decode_into env0 sid prior bs).
Proof.
  intros sid prior bs Hs. apply (decode_total env0 8); [assumption|].
  pose proof (env0_static sid (safe_tfin env0 8 _ Hs)). lia.
Qed.
Example env0_safe_types :
  filter (fun sid => safe_ty 8 env0 (TStruct sid)) (seq 0 (length env0))
  = [0; 1; 2; 3; 4; 5; 6; 8; 9; 10; 11; 12; 13; 14; 15; 17; 20; 21; 22; 23; 29]%nat.
Proof. vm_compute. reflexivity. Qed.

(* C06 on the code's schemas: the prefix theorem for every generated struct type all of whose members are scalar *)
Definition flat_b (fds : schema) : bool := forallb (fun fd => scalar_ty (fty fd)) fds.
Lemma flat_b_sound fds : flat_b fds = true -> flat fds.
Proof. unfold flat_b, flat. rewrite forallb_forall. intros H. apply Forall_forall. exact H. Qed.
Lemma env0_members_bound sid : (length (fields_of env0 sid) + 4 <= 64)%nat.
Proof.
  destruct (Nat.ltb sid (length env0)) eqn:E.
  - apply Nat.ltb_lt in E.
    assert (H : forallb (fun s => (length (fields_of env0 s) + 4 <=? 64)%nat) (seq 0 (length env0)) = true) by (vm_compute; reflexivity).
    rewrite forallb_forall in H. apply Nat.leb_le. apply H. apply in_seq. lia.
  - apply Nat.ltb_ge in E. unfold fields_of. rewrite nth_overflow by assumption. cbn [length]. lia.
Qed.
Theorem env0_prefix_flat : forall sid vs p q, flat_b (fields_of env0 sid) = true ->
  has_type env0 (TStruct sid) (VStruct vs) -> encode env0 sid (VStruct vs) = p ++ q ->
  decode env0 sid p = DErr \/
  exists i h ps, (i <= length (fields_of env0 sid))%nat /\
    p = enc_fields env0 (firstn i vs) (firstn i (fields_of env0 sid)) ++ h /\ (h = [] \/ halfhead h) /\
    optional (skipn i (fields_of env0 sid)) /\
    Forall2 (fun fd p => prior_ok env0 (fty fd) (fdef fd) p) (fields_of env0 sid) ps /\
    decode env0 sid p = DOk (VStruct (firstn i (norm_fields env0 vs (fields_of env0 sid)) ++ skipn i ps)) [].
Proof.
  intros sid vs p q Hfl Hty HE. apply (prefix_flat env0 2 sid vs p q); try assumption.
  - apply env0_wf_schema.
  - lia.
  - now apply flat_b_sound.
  - apply env0_members_bound.
Qed.
Example env0_flat_types :
  filter (fun sid => flat_b (fields_of env0 sid)) (seq 0 (length env0)) = [3; 4; 6; 9; 10; 11; 12; 13; 14; 15; 17; 20; 22; 23; 29]%nat.
Proof. vm_compute. reflexivity. Qed.
