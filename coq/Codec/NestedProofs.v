(* C04, first clause at full strength: unknown fields at EVERY struct level (the top-level members, and the members of
   every struct value nested in members, vector elements, map keys and values, at any depth) change nothing. *)
From Coq Require Import List NArith ZArith Lia Bool Arith.
From Coq Require Import ZifyN ZifyNat ZifyBool.
From TarsV Require Import Gen.Consts Base.Hex Codec.Wire Codec.WireProofs Codec.Skip Codec.SkipProofs Codec.Prim
  Codec.PrimProofs Codec.GenCodec Codec.Corr Codec.GenProofs Codec.RoundTrip Codec.RoundTripProofs.
Import ListNotations.
Ltac Zify.zify_post_hook ::= Z.div_mod_to_equations.
Open Scope N_scope.

Lemma xenc_head e tag req t d v bs : has_type e t v -> xenc e tag req t d v bs ->
  (req = false /\ bs = []) \/ headed tag bs.
Proof.
  intros Hty Hx. inversion Hx; subst.
  - now apply enc_var_head.
  - now apply enc_var_head.
  - destruct req; cbn [negb andb]; [right; apply headed_app; reflexivity|].
    destruct xs; [left; split; reflexivity|right; apply headed_app; reflexivity].
  - destruct req; cbn [negb andb]; [right; apply headed_app; reflexivity|].
    destruct xs; [left; split; reflexivity|right; apply headed_app; reflexivity].
  - destruct req; cbn [negb andb]; [right; apply headed_app; reflexivity|].
    destruct kvs; [left; split; reflexivity|right; apply headed_app; reflexivity].
  - right. apply headed_app. reflexivity.
Qed.
Lemma xenc_req_length e tag t d v bs : has_type e t v -> xenc e tag true t d v bs -> (1 <= length bs)%nat.
Proof. intros Hty Hx. destruct (xenc_head e tag true t d v bs Hty Hx) as [[? _]|Hh]; [discriminate|]. now apply headed_length in Hh. Qed.
Lemma xelems_length e x xs body : xelems e x xs body -> Forall (has_type e x) xs -> (length xs <= length body)%nat.
Proof.
  induction 1 as [|x y r b bs Hb _ IH]; intros Hty; [cbn; lia|]. inversion Hty; subst.
  cbn [length]. rewrite app_length. pose proof (xenc_req_length e 0 x None y b H1 Hb). specialize (IH H2). lia.
Qed.
Lemma xentries_length e kt vt kvs body : xentries e kt vt kvs body ->
  Forall (fun p => has_type e kt (fst p) /\ has_type e vt (snd p)) kvs -> (2 * length kvs <= length body)%nat.
Proof.
  induction 1 as [|kt vt ky y r bk bv bs Hbk Hbv _ IH]; intros Hty; [cbn; lia|]. inversion Hty as [|? ? [Hk Hy] Hr]; subst.
  cbn [fst snd] in *. cbn [length]. rewrite !app_length.
  pose proof (xenc_req_length e 0 kt None ky bk Hk Hbk). pose proof (xenc_req_length e 1 vt None y bv Hy Hbv). specialize (IH Hr). lia.
Qed.

Lemma follows_xfields e : forall fds vs Js bs, xfields e fds vs Js bs -> forall lo t tail,
  t <= lo -> ascending lo fds -> junks_ok (Some lo) fds Js ->
  Forall2 (fun fd x => has_type e (fty fd) x) fds vs ->
  follows t tail -> follows t (bs ++ tail).
Proof.
  induction 1 as [|fd fds x vs J Js b bs Hb _ IH]; intros lo t tail Hle Hasc HJ Hty Hfo.
  - exact Hfo.
  - inversion Hty as [|? ? ? ? Hx Hvs]; subst. destruct Hasc as (Hlt & H256 & Hasc). destruct HJ as [HJ HJs].
    destruct J as [|[t0 w0] J].
    + cbn [ser_fields app]. destruct (xenc_head e (ftag fd) (freq fd) (fty fd) (fdef fd) x b Hx Hb) as [[_ ->]|(ty & r & Hty' & ->)].
      * cbn [app]. apply (IH (ftag fd)); try assumption. lia.
      * right. exists ty, (ftag fd), (r ++ bs ++ tail). repeat split; try assumption.
        -- now rewrite <- !app_assoc.
        -- right. lia.
    + inversion HJ as [|? ? (A1 & A2 & A3 & A4 & A5) _]; subst. cbn [fst snd] in *.
      right. exists (ty_of w0), t0. eexists. repeat split.
      * apply ty_of_lt.
      * assumption.
      * rewrite ser_fields_cons, <- !app_assoc. reflexivity.
      * right. lia.
Qed.

Lemma trail_skip fds Jl f rest : trail_ok fds Jl -> (2 * length (ser_fields Jl ++ head tSE 0 ++ rest) + 1 <= f)%nat ->
  skip_to_end f 0 (ser_fields Jl ++ head tSE 0 ++ rest) = (SOk, rest).
Proof.
  intros Ht Hf. apply skip_to_end_fields; try assumption.
  - apply Forall_forall. intros p _. apply skip_exact.
  - eapply Forall_impl; [|exact Ht]. intros p (A & B & _). split; assumption.
  - eapply Forall_impl; [|exact Ht]. intros p (_ & _ & C & _). lia.
Qed.
Lemma follows_trail fds Jl fd rest : trail_ok fds Jl -> In fd fds -> follows (ftag fd) (ser_fields Jl ++ head tSE 0 ++ rest).
Proof.
  intros Ht Hin. destruct Jl as [|[t w] Jl]; [apply follows_se|]. inversion Ht as [|? ? (H1 & _ & _ & H2) _]; subst. cbn [fst] in *.
  right. exists (ty_of w), t. eexists. repeat split; [apply ty_of_lt|assumption|rewrite ser_fields_cons, <- !app_assoc; reflexivity|].
  right. now apply H2.
Qed.

Section Nested.
Variable e : env.
Variable k : nat.
Hypothesis Hwf : wf_schema k e.

Definition X_var (fuel : nat) : Prop := forall tag req t d v prior lo J rest bs,
  has_type e t v -> ty_nest k e t = true -> tag < 256 ->
  (d <> None -> scalar_ty t = true) -> prior_ok e t d prior -> junk_ok lo tag J ->
  xenc e tag req t d v bs -> (req = true \/ follows tag rest) ->
  fuel_ok k (need v) (ser_fields J ++ bs ++ rest) fuel ->
  dec_var fuel e tag req t prior (ser_fields J ++ bs ++ rest) = DOk (norm e t req d v) rest.
Definition X_elems (fuel : nat) : Prop := forall x xs body rest,
  Forall (has_type e x) xs -> ty_nest k e x = true -> xelems e x xs body ->
  fuel_ok k (need_list xs) (body ++ rest) fuel ->
  dec_elems fuel e x (Z.of_nat (length xs)) (body ++ rest) = DOk (norm_elems e x xs) rest.
Definition X_arr (fuel : nat) : Prop := forall x len dn todo xs body rest,
  Forall (has_type e x) xs -> ty_nest k e x = true -> xelems e x xs body ->
  length todo = length xs -> (length dn + length xs = len)%nat -> Forall (zlike e x) todo ->
  fuel_ok k (need_list xs) (body ++ rest) fuel ->
  dec_arr fuel e x len (length dn) (Z.of_nat (length xs)) (dn ++ todo) (body ++ rest) = DOk (dn ++ norm_elems e x xs) rest.
Definition X_entries (fuel : nat) : Prop := forall kt vt kvs body rest,
  Forall (fun p => has_type e kt (fst p) /\ has_type e vt (snd p)) kvs ->
  ty_nest k e kt = true -> ty_nest k e vt = true -> xentries e kt vt kvs body ->
  fuel_ok k (need_entries kvs) (body ++ rest) fuel ->
  dec_entries fuel e kt vt (Z.of_nat (length kvs)) (body ++ rest) = DOk (norm_entries e kt vt kvs) rest.
Definition X_fields (fuel : nat) : Prop := forall fds vs ps Js lo body tail,
  Forall2 (fun fd x => has_type e (fty fd) x) fds vs -> Forall (member_ok e k) fds -> asc_opt lo fds ->
  Forall2 (fun fd p => prior_ok e (fty fd) (fdef fd) p) fds ps -> junks_ok lo fds Js -> xfields e fds vs Js body ->
  (forall fd, In fd fds -> follows (ftag fd) tail) ->
  fuel_ok k (need_list vs) (body ++ tail) fuel ->
  dec_fields fuel e fds ps (body ++ tail) = DOk (norm_fields e vs fds) tail.

Lemma xstep_elems f : X_var f -> X_elems f -> X_elems (S f).
Proof.
  intros HV HE x xs body rest Hty Hn Hx Hf. rewrite dec_elems_S. destruct Hx as [|x y r b bs Hb Hbs].
  - reflexivity.
  - inversion Hty as [|? ? Hy Hr]; subst.
    destruct (Z.of_nat (length (y :: r)) <=? 0)%Z eqn:E; [cbn [length] in E; lia|].
    cbn [norm_elems] in *. rewrite <- app_assoc in *. unfold fuel_ok in Hf. cbn [need_list] in Hf. rewrite app_length in Hf.
    assert (H1 : dec_var f e 0 true x (zero_of f e x) (b ++ bs ++ rest) = DOk (norm e x true None y) (bs ++ rest)).
    { apply (HV 0 true x None y (zero_of f e x) None [] (bs ++ rest) b); try assumption.
      - lia.
      - intros Hc; congruence.
      - apply (zero_zlike e k); [now apply ty_nest_nest|lia].
      - apply junk_nil.
      - now left.
      - unfold fuel_ok. cbn [ser_fields app]. rewrite app_length. lia. }
    rewrite H1.
    replace (Z.of_nat (length (y :: r)) - 1)%Z with (Z.of_nat (length r)) by (cbn [length]; lia).
    rewrite HE; try assumption; [reflexivity|]. unfold fuel_ok. lia.
Qed.

Lemma xstep_arr f : X_var f -> X_arr f -> X_arr (S f).
Proof.
  intros HV HA x len dn todo xs body rest Hty Hn Hx Hlen Hsum Hz Hf. rewrite dec_arr_S. destruct Hx as [|x y r b bs Hb Hbs].
  - destruct todo; [|discriminate]. reflexivity.
  - pose proof (Forall_inv Hty) as Hy. pose proof (Forall_inv_tail Hty) as Hr. destruct todo as [|z todo]; [discriminate|]. cbn [length] in Hlen, Hsum.
    destruct (Z.of_nat (length (y :: r)) <=? 0)%Z eqn:E; [cbn [length] in E; lia|].
    destruct (len <=? length dn)%nat eqn:E2; [apply Nat.leb_le in E2; lia|].
    rewrite nth_app_here. cbn [norm_elems] in *. rewrite <- app_assoc in *.
    unfold fuel_ok in Hf. cbn [need_list] in Hf. rewrite app_length in Hf.
    inversion Hz as [|? ? Hz1 Hz2]; subst.
    assert (H1 : dec_var f e 0 true x z (b ++ bs ++ rest) = DOk (norm e x true None y) (bs ++ rest)).
    { apply (HV 0 true x None y z None [] (bs ++ rest) b); try assumption.
      - lia.
      - intros Hc; congruence.
      - apply junk_nil.
      - now left.
      - unfold fuel_ok. cbn [ser_fields app]. rewrite app_length. lia. }
    rewrite H1. rewrite replace_nth_app.
    replace (Z.of_nat (length (y :: r)) - 1)%Z with (Z.of_nat (length r)) by (cbn [length]; lia).
    replace (dn ++ norm e x true None y :: todo) with ((dn ++ [norm e x true None y]) ++ todo) by (now rewrite <- app_assoc).
    replace (S (length dn)) with (length (dn ++ [norm e x true None y])) by (rewrite app_length; cbn [length]; lia).
    rewrite HA; try assumption.
    + now rewrite <- app_assoc.
    + lia.
    + rewrite app_length. cbn [length]. lia.
    + unfold fuel_ok. lia.
Qed.

Lemma xstep_entries f : X_var f -> X_entries f -> X_entries (S f).
Proof.
  intros HV HE kt vt kvs body rest Hty Hnk Hnv Hx Hf. rewrite dec_entries_S. destruct Hx as [|kt vt ky y r bk bv bs Hbk Hbv Hbs].
  - reflexivity.
  - inversion Hty as [|? ? [Hk Hy] Hr]; subst. cbn [fst snd] in Hk, Hy.
    destruct (Z.of_nat (length ((ky, y) :: r)) <=? 0)%Z eqn:E; [cbn [length] in E; lia|].
    cbn [norm_entries] in *. rewrite <- !app_assoc in *. unfold fuel_ok in Hf. cbn [need_entries] in Hf.
    rewrite !app_length in Hf.
    assert (H1 : dec_var f e 0 true kt (zero_of f e kt) (bk ++ bv ++ bs ++ rest) = DOk (norm e kt true None ky) (bv ++ bs ++ rest)).
    { apply (HV 0 true kt None ky (zero_of f e kt) None [] (bv ++ bs ++ rest) bk); try assumption.
      - lia.
      - intros Hc; congruence.
      - apply (zero_zlike e k); [now apply ty_nest_nest|lia].
      - apply junk_nil.
      - now left.
      - unfold fuel_ok. cbn [ser_fields app]. rewrite !app_length. lia. }
    rewrite H1.
    assert (H2 : dec_var f e 1 true vt (zero_of f e vt) (bv ++ bs ++ rest) = DOk (norm e vt true None y) (bs ++ rest)).
    { apply (HV 1 true vt None y (zero_of f e vt) None [] (bs ++ rest) bv); try assumption.
      - lia.
      - intros Hc; congruence.
      - apply (zero_zlike e k); [now apply ty_nest_nest|lia].
      - apply junk_nil.
      - now left.
      - unfold fuel_ok. cbn [ser_fields app]. rewrite !app_length. lia. }
    rewrite H2.
    replace (Z.of_nat (length ((ky, y) :: r)) - 1)%Z with (Z.of_nat (length r)) by (cbn [length]; lia).
    rewrite HE; try assumption; [reflexivity|]. unfold fuel_ok. rewrite app_length. lia.
Qed.

Lemma xstep_fields f : X_var f -> X_fields f -> X_fields (S f).
Proof.
  intros HV HF fds vs ps Js lo body tail Hty Hmem Hasc Hps HJ Hx Htail Hf. rewrite dec_fields_S.
  destruct Hx as [|fd fds x vs J Js b bs Hb Hbs].
  - reflexivity.
  - inversion Hty as [|? ? ? ? Hx Hvs]; subst. inversion Hps as [|? p ? ps' Hp Hps']; subst. destruct HJ as [HJ HJs].
    inversion Hmem as [|? ? [Hm1 Hm2] Hmem']; subst.
    assert (H256 : ftag fd < 256 /\ ascending (ftag fd) fds).
    { destruct lo; cbn [asc_opt schema_ascending ascending] in Hasc; tauto. }
    destruct H256 as [H256 Hasc'].
    cbn [norm_fields tl] in *. rewrite <- !app_assoc in *. cbv zeta.
    unfold fuel_ok in Hf. cbn [need_list] in Hf. rewrite !app_length in Hf.
    assert (H1 : dec_var f e (ftag fd) (freq fd) (fty fd) p (ser_fields J ++ b ++ bs ++ tail)
                 = DOk (norm e (fty fd) (freq fd) (fdef fd) x) (bs ++ tail)).
    { apply (HV (ftag fd) (freq fd) (fty fd) (fdef fd) x p lo J (bs ++ tail) b); try assumption.
      - right. apply (follows_xfields e fds vs Js bs Hbs (ftag fd)); try assumption; [lia|]. apply Htail. now left.
      - unfold fuel_ok. rewrite !app_length. lia. }
    rewrite H1.
    rewrite (HF fds vs ps' Js (Some (ftag fd)) bs tail); try assumption; [reflexivity| |].
    + intros fd' Hin. apply Htail. now right.
    + unfold fuel_ok. rewrite app_length. lia.
Qed.

Ltac sf := first [reflexivity | assumption | lia].

Lemma xstep_var_vec f tag req x xs body prior lo J rest : X_elems f ->
  x <> TI8 -> N.of_nat (length xs) < 2147483648 -> Forall (has_type e x) xs -> ty_nest k e x = true ->
  xelems e x xs body ->
  tag < 256 -> zlike e (TVec x) prior -> junk_ok lo tag J -> (req = true \/ follows tag rest) ->
  let bs := (if negb req && (match xs with [] => true | _ => false end) then []
             else head tLIST tag ++ w_int32 (Z.of_nat (length xs)) 0 ++ body) in
  fuel_ok k (need (VList xs)) (ser_fields J ++ bs ++ rest) (S f) ->
  dec_var (S f) e tag req (TVec x) prior (ser_fields J ++ bs ++ rest) = DOk (VList (norm_elems e x xs)) rest.
Proof.
  intros HE Hx Hlen Hty Hn Hxl Htag Hp HJ Hfo bs Hf. unfold fuel_ok in Hf. rewrite need_VList in Hf.
  assert (prior = VList []) by (apply zlike_vec in Hp; destruct x; congruence). subst prior.
  rewrite dec_var_vec. rewrite (seek_junk J f lo) by (try assumption; lia).
  destruct (fuel_sub J (bs ++ rest) f ltac:(lia)) as (f' & -> & Hf').
  subst bs. destruct (negb req && match xs with [] => true | _ => false end) eqn:Eo.
  - destruct req; [discriminate|]. destruct xs; [|discriminate]. cbn [app].
    destruct Hfo as [|Hfo]; [discriminate|]. now rewrite seek_stop by assumption.
  - rewrite <- !app_assoc in *. rewrite seek_first by sf.
    change (tLIST =? tLIST) with true. cbv iota.
    rewrite read_count_len by assumption.
    destruct (Z.of_nat (length xs) <? 0)%Z eqn:E1; [lia|].
    pose proof (xelems_length e x xs body Hxl Hty) as Hel.
    destruct (Z.of_nat (length (body ++ rest)) <? Z.of_nat (length xs))%Z eqn:E2; [rewrite app_length in E2; lia|].
    rewrite HE; try assumption.
    + destruct x; try reflexivity. congruence.
    + unfold fuel_ok. rewrite !app_length in *. lia.
Qed.

Lemma xstep_var_arr f tag req n x xs body prior lo J rest : X_arr f ->
  length xs = n -> (0 < n)%nat -> N.of_nat n < 2147483648 -> Forall (has_type e x) xs -> ty_nest k e x = true ->
  xelems e x xs body ->
  tag < 256 -> zlike e (TArr n x) prior -> junk_ok lo tag J ->
  let bs := (if negb req && (match xs with [] => true | _ => false end) then []
             else head tLIST tag ++ w_int32 (Z.of_nat (length xs)) 0 ++ body) in
  fuel_ok k (need (VList xs)) (ser_fields J ++ bs ++ rest) (S f) ->
  dec_var (S f) e tag req (TArr n x) prior (ser_fields J ++ bs ++ rest) = DOk (VList (norm_elems e x xs)) rest.
Proof.
  intros HA Hl Hpos Hlen Hty Hn Hxl Htag Hp HJ bs Hf. unfold fuel_ok in Hf. rewrite need_VList in Hf.
  inversion Hp as [? Hb|? ? l Hll Hz|]; subst; [discriminate|].
  rewrite dec_var_arr. rewrite (seek_junk J f lo) by (try assumption; lia).
  destruct (fuel_sub J (bs ++ rest) f ltac:(lia)) as (f' & -> & Hf').
  subst bs. destruct (negb req && match xs with [] => true | _ => false end) eqn:Eo.
  - destruct xs; [cbn [length] in Hpos; lia|]. destruct req; discriminate.
  - rewrite <- !app_assoc in *. rewrite seek_first by sf.
    change (tLIST =? tLIST) with true. cbv iota.
    rewrite read_count_len by (rewrite <- Hll in Hlen; lia).
    replace ((Z.of_nat (length xs) <? 0)%Z || (Z.of_nat (length xs) <? Z.of_nat (length xs))%Z) with false by lia.
    pose proof (HA x (length xs) [] l xs body rest) as H1. cbn [length app] in H1. rewrite H1; try assumption; try reflexivity.
    unfold fuel_ok. rewrite !app_length in *. lia.
Qed.

Lemma xstep_var_map f tag req kt vt kvs body prior lo J rest : X_entries f ->
  N.of_nat (length kvs) < 2147483648 -> Forall (fun p => has_type e kt (fst p) /\ has_type e vt (snd p)) kvs ->
  ty_nest k e kt = true -> ty_nest k e vt = true -> xentries e kt vt kvs body ->
  tag < 256 -> zlike e (TMap kt vt) prior -> junk_ok lo tag J -> (req = true \/ follows tag rest) ->
  let bs := (if negb req && (match kvs with [] => true | _ => false end) then []
             else head tMAP tag ++ w_int32 (Z.of_nat (length kvs)) 0 ++ body) in
  fuel_ok k (need (VMap kvs)) (ser_fields J ++ bs ++ rest) (S f) ->
  dec_var (S f) e tag req (TMap kt vt) prior (ser_fields J ++ bs ++ rest) = DOk (VMap (norm_entries e kt vt kvs)) rest.
Proof.
  intros HE Hlen Hty Hnk Hnv Hxm Htag Hp HJ Hfo bs Hf. unfold fuel_ok in Hf. rewrite need_VMap in Hf.
  apply zlike_map in Hp. subst prior.
  rewrite dec_var_map. unfold skip_to. rewrite (seek_junk J f lo) by (try assumption; lia).
  destruct (fuel_sub J (bs ++ rest) f ltac:(lia)) as (f' & -> & Hf').
  subst bs. destruct (negb req && match kvs with [] => true | _ => false end) eqn:Eo.
  - destruct req; [discriminate|]. destruct kvs; [|discriminate]. cbn [app].
    destruct Hfo as [|Hfo]; [discriminate|]. now rewrite seek_stop by assumption.
  - rewrite <- !app_assoc in *. rewrite seek_first by sf.
    change (tMAP =? tMAP) with true. cbv iota.
    rewrite read_count_len by assumption.
    pose proof (xentries_length e kt vt kvs body Hxm Hty) as Hel.
    replace ((Z.of_nat (length kvs) <? 0)%Z || (Z.of_nat (length (body ++ rest)) / 2 <? Z.of_nat (length kvs))%Z)
      with false by (rewrite app_length; lia).
    rewrite HE; try assumption; [reflexivity|].
    unfold fuel_ok. rewrite !app_length in *. lia.
Qed.

Lemma xstep_var_struct f tag req sid vs Js Jl body prior lo J rest : X_fields f ->
  Forall2 (fun fd x => has_type e (fty fd) x) (fields_of e sid) vs ->
  xfields e (fields_of e sid) vs Js body -> junks_ok None (fields_of e sid) Js -> trail_ok (fields_of e sid) Jl ->
  tag < 256 -> zlike e (TStruct sid) prior -> junk_ok lo tag J ->
  let bs := head tSB tag ++ body ++ ser_fields Jl ++ head tSE 0 in
  fuel_ok k (need (VStruct vs)) (ser_fields J ++ bs ++ rest) (S f) ->
  dec_var (S f) e tag req (TStruct sid) prior (ser_fields J ++ bs ++ rest) = DOk (VStruct (norm_fields e vs (fields_of e sid))) rest.
Proof.
  intros HF Hty Hxf HJs HJl Htag Hp HJ bs Hf. unfold fuel_ok in Hf. rewrite need_VStruct in Hf.
  rewrite dec_var_struct. cbv zeta. unfold skip_to. rewrite (seek_junk J f lo) by (try assumption; lia).
  destruct (fuel_sub J (bs ++ rest) f ltac:(lia)) as (f' & -> & Hf').
  subst bs. rewrite <- !app_assoc in *. rewrite seek_first by sf.
  change (tSB =? tSB) with true. cbv iota.
  pose proof (need_list_ge vs).
  destruct f as [|f0]; [lia|]. destruct (struct_priors e k f0 sid prior Hwf ltac:(lia)) as (ps & -> & Hps).
  rewrite (HF (fields_of e sid) vs ps Js None body (ser_fields Jl ++ head tSE 0 ++ rest)); try assumption.
  - rewrite (trail_skip (fields_of e sid)); [reflexivity|assumption|]. rewrite !app_length in *. lia.
  - now apply members_ok.
  - apply (wf_asc k e Hwf).
  - intros fd Hin. now apply (follows_trail (fields_of e sid)).
  - unfold fuel_ok. rewrite !app_length in *. lia.
Qed.

Lemma xstep_var f : X_elems f -> X_arr f -> X_entries f -> X_fields f -> X_var (S f).
Proof.
  intros HE HA HM HF tag req t d v prior lo J rest bs Hty Hn Htag Hd Hp HJ Hx Hfo Hf.
  assert (Hdn : scalar_ty t = false -> d = None).
  { intros Hs. destruct d; [|reflexivity]. specialize (Hd ltac:(discriminate)). congruence. }
  inversion Hty; subst.
  - inversion Hx; subst; try discriminate. apply (step_var_scalar e k f tag req t d v prior lo J rest); assumption.
  - inversion Hx; subst; try discriminate. rewrite (Hdn eq_refl) in *.
    apply (step_var_bytes e k f tag req None s prior lo J rest); auto.
  - inversion Hx; subst; try discriminate; try congruence. rewrite (Hdn eq_refl) in *.
    rewrite norm_vec. apply (xstep_var_vec f tag req x xs body prior lo J rest); auto. now apply (ty_nest_vec e k).
  - inversion Hx; subst; try discriminate. rewrite (Hdn eq_refl) in *.
    rewrite norm_arr. apply (xstep_var_arr f tag req (length xs) x xs body prior lo J rest); auto. now apply (ty_nest_arr e k) in Hn.
  - inversion Hx; subst; try discriminate. rewrite (Hdn eq_refl) in *.
    rewrite norm_map. apply (ty_nest_map e k) in Hn. destruct Hn.
    apply (xstep_var_map f tag req kt vt kvs body prior lo J rest); auto.
  - inversion Hx; subst; try discriminate. rewrite (Hdn eq_refl) in *.
    rewrite norm_str. apply (xstep_var_struct f tag req sid vs Js Jl body prior lo J rest); auto.
Qed.

Theorem rtx_all : forall fuel, X_var fuel /\ X_elems fuel /\ X_arr fuel /\ X_entries fuel /\ X_fields fuel.
Proof.
  induction fuel as [|f (HV & HE & HA & HM & HF)].
  - repeat split; intro; intros; unfold fuel_ok in *; lia.
  - repeat split.
    + now apply xstep_var.
    + now apply xstep_elems.
    + now apply xstep_arr.
    + now apply xstep_entries.
    + now apply xstep_fields.
Qed.
End Nested.

(* unknown fields at every struct level: the decoded value is that of the clean encoding, the cursor stops in front
   of the trailing unknown fields *)
Theorem decode_into_nested e k sid vs prior Js body tail :
  wf_schema k e -> has_type e (TStruct sid) (VStruct vs) ->
  xfields e (fields_of e sid) vs Js body -> junks_ok None (fields_of e sid) Js ->
  (forall fd, In fd (fields_of e sid) -> follows (ftag fd) tail) ->
  (need_list vs + k + 3 <= 2 * length (body ++ tail) + 64)%nat ->
  decode_into e sid prior (body ++ tail) = DOk (norm_struct e sid (VStruct vs)) tail.
Proof.
  intros Hwf Hty Hxf HJ Htail Hfuel. unfold decode_into, norm_struct. rewrite norm_str.
  set (bs := body ++ tail) in *.
  replace (4 * length bs + 64)%nat with (S (4 * length bs + 63)) by lia.
  destruct (struct_priors1 e k (4 * length bs + 63) sid prior Hwf ltac:(lia)) as (ps & -> & Hps).
  destruct (rtx_all e k Hwf (S (4 * length bs + 63))) as (_ & _ & _ & _ & HF).
  inversion Hty as [| | | | |? ? Hvs]; subst; [discriminate|].
  assert (H1 : dec_fields (S (4 * length bs + 63)) e (fields_of e sid) ps bs = DOk (norm_fields e vs (fields_of e sid)) tail).
  { unfold bs. apply (HF (fields_of e sid) vs ps Js None body tail); try assumption.
    - now apply members_ok.
    - apply (wf_asc k e Hwf).
    - unfold fuel_ok. fold bs. lia. }
  now rewrite H1.
Qed.
Print Assumptions decode_into_nested.

(* ---------- fuel adequacy from the schema, for extended encodings ---------- *)
Section NeedX.
Variable e : env.

Lemma need_bound_x : forall n t v tag req d bs, tfin n e t = true -> has_type e t v -> xenc e tag req t d v bs ->
  (need v <= tneed n e t + 2 * length bs)%nat.
Proof.
  induction n as [|n IH]; intros t v tag req d bs Hfin Hty Hx; [discriminate|].
  assert (Hel : forall x xs body, tfin n e x = true -> xelems e x xs body -> Forall (has_type e x) xs ->
                (need_list xs <= 1 + tneed n e x + 2 * length body)%nat).
  { intros x xs body Hfx Hxl. induction Hxl as [|x y r b bs' Hb _ IHl]; intros Hxs; [cbn [need_list length]; lia|].
    pose proof (Forall_inv Hxs) as Hy. pose proof (Forall_inv_tail Hxs) as Hr. cbn [need_list]. rewrite app_length.
    pose proof (IH x y 0 true None b Hfx Hy Hb). pose proof (xenc_req_length e 0 x None y b Hy Hb). specialize (IHl Hfx Hr). lia. }
  inversion Hty; subst; cbn [tfin] in Hfin.
  - inversion Hx; subst; try discriminate. now apply (need_bound e (S n)).
  - inversion Hx; subst; try discriminate. now apply (need_bound e (S n)).
  - inversion Hx; subst; try discriminate; try congruence. rewrite need_VList. cbn [tneed].
    assert (Hb : (need_list xs <= 1 + tneed n e x + 2 * length body)%nat)
      by (match goal with Hxl : xelems _ _ _ _, Hfa : Forall _ xs |- _ => exact (Hel x xs body Hfin Hxl Hfa) end).
    destruct (negb req && _)%bool eqn:Eo.
    + destruct xs; [cbn [need_list]; lia|]. destruct req; discriminate.
    + rewrite !app_length. lia.
  - inversion Hx; subst; try discriminate. rewrite need_VList. cbn [tneed].
    assert (Hb : (need_list xs <= 1 + tneed n e x + 2 * length body)%nat)
      by (match goal with Hxl : xelems _ _ _ _, Hfa : Forall _ xs |- _ => exact (Hel x xs body Hfin Hxl Hfa) end).
    destruct (negb req && _)%bool eqn:Eo.
    + destruct xs; [cbn [need_list]; lia|]. destruct req; discriminate.
    + rewrite !app_length. lia.
  - inversion Hx; subst; try discriminate. rewrite need_VMap. cbn [tneed]. apply andb_true_iff in Hfin. destruct Hfin as [Hfa Hfb].
    assert (Hb : (need_entries kvs <= 1 + Nat.max (tneed n e kt) (tneed n e vt) + 2 * length body)%nat).
    { clear Hx Hty. match goal with Hlen : N.of_nat (length kvs) < _ |- _ => clear Hlen end.
      match goal with Hfa : Forall _ kvs |- _ => revert Hfa end.
      match goal with H : xentries _ _ _ _ _ |- _ => induction H as [|kt vt ky y r bk bv bs' Hbk Hbv _ IHl] end;
        intros Hkvs; [cbn [need_entries length]; lia|].
      pose proof (Forall_inv Hkvs) as [Hk Hy]. pose proof (Forall_inv_tail Hkvs) as Hr. cbn [fst snd] in Hk, Hy.
      cbn [need_entries]. rewrite !app_length.
      pose proof (IH kt ky 0 true None bk Hfa Hk Hbk). pose proof (IH vt y 1 true None bv Hfb Hy Hbv).
      pose proof (xenc_req_length e 0 kt None ky bk Hk Hbk). pose proof (xenc_req_length e 1 vt None y bv Hy Hbv).
      specialize (IHl Hfa Hfb Hr). lia. }
    destruct (negb req && _)%bool eqn:Eo.
    + destruct kvs; [cbn [need_entries]; lia|]. destruct req; discriminate.
    + rewrite !app_length. lia.
  - inversion Hx; subst; try discriminate. rewrite need_VStruct. cbn [tneed]. rewrite !app_length.
    rewrite forallb_forall in Hfin.
    assert (Hb : (need_list vs <= 1 + length (fields_of e sid) + tmax (tneed n e) (fields_of e sid) + 2 * length body)%nat).
    { clear Hx Hty. repeat match goal with Hj : junks_ok _ _ _ |- _ => clear Hj | Hj : trail_ok _ _ |- _ => clear Hj end.
      match goal with Hfa : Forall2 _ _ vs |- _ => revert Hfa Hfin end.
      match goal with H : xfields _ _ _ _ _ |- _ => induction H as [|fd fds x vs' J Js b bs' Hb _ IHl] end;
        intros Hvs Hfin; [cbn [need_list length tmax fold_right]; lia|].
      inversion Hvs as [|? ? ? ? Hx Hvs']; subst. cbn [need_list length tmax fold_right]. fold (tmax (tneed n e) fds).
      rewrite !app_length.
      pose proof (IH (fty fd) x (ftag fd) (freq fd) (fdef fd) b (Hfin fd (or_introl eq_refl)) Hx Hb).
      specialize (IHl Hvs' (fun fd' Hin => Hfin fd' (or_intror Hin))). lia. }
    lia.
Qed.
End NeedX.

Lemma need_fields_x e n : forall fds vs Js body, xfields e fds vs Js body ->
  Forall2 (fun fd x => has_type e (fty fd) x) fds vs -> (forall fd, In fd fds -> tfin n e (fty fd) = true) ->
  (need_list vs <= 1 + length fds + tmax (tneed n e) fds + 2 * length body)%nat.
Proof.
  induction 1 as [|fd fds x vs' J Js b bs' Hb _ IHl]; intros Hvs Hfin; [cbn [need_list length tmax fold_right]; lia|].
  inversion Hvs as [|? ? ? ? Hx Hvs']; subst. cbn [need_list length tmax fold_right]. fold (tmax (tneed n e) fds).
  rewrite !app_length.
  pose proof (need_bound_x e n (fty fd) x (ftag fd) (freq fd) (fdef fd) b (Hfin fd (or_introl eq_refl)) Hx Hb).
  specialize (IHl Hvs' (fun fd' Hin => Hfin fd' (or_intror Hin))). lia.
Qed.

(* C04, first clause, full strength: for every wf_schema environment, every struct type with a finite type graph
   and every well-typed value, an encoding that carries well-formed unknown fields at any struct level (in front
   of any member and after the last member of the top-level struct and of every struct value nested in it)
   decodes to the same value as the clean encoding; the cursor stops in front of the trailing top-level ones *)
Theorem extras_nested e k n sid vs Js body Jl :
  wf_schema k e -> (S k <= 64)%nat -> tfin n e (TStruct sid) = true -> (tneed n e (TStruct sid) + k <= 64)%nat ->
  has_type e (TStruct sid) (VStruct vs) ->
  xfields e (fields_of e sid) vs Js body -> junks_ok None (fields_of e sid) Js -> trailing_ok (fields_of e sid) Jl ->
  decode e sid (body ++ ser_fields Jl) = DOk (norm_struct e sid (VStruct vs)) (ser_fields Jl)
  /\ decode e sid (encode e sid (VStruct vs)) = DOk (norm_struct e sid (VStruct vs)) [].
Proof.
  intros Hwf Hk Hfin Hn Hty Hxf HJ HJl. split; [|now apply (roundtrip_struct_static e k n)].
  unfold decode. apply (decode_into_nested e k sid vs _ Js); try assumption.
  - intros fd Hin. now apply (follows_trailing (fields_of e sid)).
  - destruct n as [|n']; [discriminate|]. cbn [tfin tneed] in Hfin, Hn. rewrite forallb_forall in Hfin.
    inversion Hty as [| | | | |? ? Hvs]; subst; [discriminate|].
    pose proof (need_fields_x e n' _ _ _ _ Hxf Hvs Hfin). rewrite app_length. lia.
Qed.
Print Assumptions extras_nested.

(* non-vacuity: a struct nested in a vector inside a struct, unknown fields at all three levels *)
Example nested_example :
  let e := [ [ {| ftag := 1; freq := true; fty := TVec (TStruct 1); fdef := None |};
               {| ftag := 5; freq := false; fty := TI32; fdef := Some (VInt 9) |} ];
             [ {| ftag := 0; freq := true; fty := TI32; fdef := None |};
               {| ftag := 2; freq := false; fty := TStr; fdef := None |} ] ] in
  let v := [VList [VStruct [VInt 5; VStr []]]; VInt 9] in
  let j0 : list (N * wf) := [(0, WStr1 [7; 7])] in
  let j1 : list (N * wf) := [(1, WList [(0, WInt 70000)])] in
  let jt : list (N * wf) := [(9, WStruct [(200, WZero)])] in
  let inner := head tSB 0 ++ (ser_fields [] ++ w_int32 5 0 ++ ser_fields j1 ++ [] ++ []) ++ ser_fields jt ++ head tSE 0 in
  let body := ser_fields j0 ++ (head tLIST 1 ++ w_int32 1 0 ++ (inner ++ [])) ++ ser_fields [(3, WZero)] ++ [] ++ [] in
  xfields e (fields_of e 0) v [j0; [(3, WZero)]] body /\
  decode e 0 (body ++ ser_fields [(77, WByte 1)]) = DOk (VStruct v) (ser_fields [(77, WByte 1)]) /\
  decode e 0 (encode e 0 (VStruct v)) = DOk (VStruct v) [].
Proof.
  cbv zeta. split; [|split; vm_compute; reflexivity].
  apply XF_cons.
  - apply (XE_vec _ 1 true None (TStruct 1) [VStruct [VInt 5; VStr []]]).
    apply XL_cons; [|apply XL_nil].
    apply (XE_struct _ 0 true None 1 [VInt 5; VStr []] [[]; [(1, WList [(0, WInt 70000)])]] [(9, WStruct [(200, WZero)])]).
    + apply XF_cons; [apply (XE_scalar _ 0 true TI32 None (VInt 5)); reflexivity|].
      apply XF_cons; [apply (XE_scalar _ 2 false TStr None (VStr [])); reflexivity|]. apply XF_nil.
    + cbn [junks_ok fields_of nth]. repeat (first [split | apply Forall_cons | apply Forall_nil]);
        cbn [fst snd]; try exact I; vm_compute; first [reflexivity | discriminate | tauto].
    + repeat (first [split | apply Forall_cons | apply Forall_nil]); cbn [fst snd]; try exact I;
        try (vm_compute; first [reflexivity | discriminate | tauto]).
      cbn [fields_of nth]. intros fd [<-|[<-|[]]]; vm_compute; reflexivity.
  - apply XF_cons; [apply (XE_scalar _ 5 false TI32 (Some (VInt 9)) (VInt 9)); reflexivity|]. apply XF_nil.
Qed.
