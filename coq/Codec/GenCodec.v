(* C03-C06 model: schema-directed encoder and decoder mirroring the code tars2go generates
   (genWriteVar / genReadVar in gen_go.go) on top of the codec primitives, as repaired: a count read from the
   wire is checked before it sizes an allocation or drives a loop (vector: 0 <= n <= bytes left, map:
   0 <= n <= bytes left / 2, fixed array: 0 <= n <= N), ResetDefault assigns every member, and
   ReadSliceInt8/Uint8 assign the target for every accepted length. Decoding starts from a prior target value
   exactly like the generated ReadFrom does. Go panics (fixed-array index out of range) stay explicit outcomes;
   DHuge (a count larger than the bytes left reaching make) and DPanic site_makeslice are no longer produced by
   any function below - the pinned behaviour is kept as the _pinned definitions at the end of the file. *)
From Coq Require Import List NArith ZArith Lia Bool Arith.
From TarsV Require Import Gen.Consts Base.Hex Codec.Wire Codec.Skip Codec.Prim.
Import ListNotations.
Open Scope N_scope.

Inductive ty :=
| TBool | TI8 | TU8 | TI16 | TU16 | TI32 | TU32 | TI64 | TF32 | TF64 | TStr | TEnum
| TVec (e : ty) | TMap (k v : ty) | TArr (n : nat) (e : ty) | TStruct (sid : nat).

(* vector<byte> ([]int8) is VBytes (raw bytes); every other vector and every array is VList *)
Inductive val :=
| VBool (b : bool) | VInt (z : Z) | VFlt (bits : N) | VStr (s : list N) | VBytes (s : list N)
| VList (xs : list val) | VMap (kvs : list (val * val)) | VStruct (fs : list val).

Record field := { ftag : N; freq : bool; fty : ty; fdef : option val }.
Definition schema := list field.
Definition env := list schema.   (* struct id = position *)
Definition fields_of (e : env) (sid : nat) : schema := nth sid e [].

Definition is_byte (t : ty) : bool := match t with TI8 | TU8 => true | _ => false end.

(* zero value of a Go type (structs: all members zero; declared defaults are applied by ResetDefault) *)
Fixpoint zero_of (fuel : nat) (e : env) (t : ty) : val :=
  match fuel with O => VInt 0 | S f =>
  match t with
  | TBool => VBool false
  | TI8 | TU8 | TI16 | TU16 | TI32 | TU32 | TI64 | TEnum => VInt 0
  | TF32 | TF64 => VFlt 0
  | TStr => VStr []
  | TVec TI8 => VBytes []
  | TVec _ => VList []
  | TMap _ _ => VMap []
  | TArr n x => VList (repeat (zero_of f e x) n)
  | TStruct sid => VStruct (map (fun fd => zero_of f e (fty fd)) (fields_of e sid))
  end end.

(* ResetDefault as repaired: EVERY member is assigned - its declared default, or (no default declared) the zero
   value of its type; struct members are reset recursively. The result does not depend on what the target held. *)
Fixpoint reset_val (fuel : nat) (e : env) (sid : nat) : val :=
  match fuel with O => VInt 0 | S f =>
  VStruct (map (fun fd => match fdef fd with
                          | Some d => d
                          | None => match fty fd with TStruct s => reset_val f e s | t => zero_of f e t end
                          end) (fields_of e sid))
  end.
Definition reset_default (fuel : nat) (e : env) (sid : nat) (v : val) : val := reset_val fuel e sid.

(* ---------- IEEE equality on bit patterns (Go's == / != on floats) ---------- *)
Definition f32_nan (b : N) : bool := ((b / 8388608) mod 256 =? 255) && negb (b mod 8388608 =? 0).
Definition f64_nan (b : N) : bool := ((b / 4503599627370496) mod 2048 =? 2047) && negb (b mod 4503599627370496 =? 0).
Definition f32_eq (a b : N) : bool :=
  negb (f32_nan a) && negb (f32_nan b) && ((a =? b) || ((a mod 2147483648 =? 0) && (b mod 2147483648 =? 0))).
Definition f64_eq (a b : N) : bool :=
  negb (f64_nan a) && negb (f64_nan b) && ((a =? b) || ((a mod 9223372036854775808 =? 0) && (b mod 9223372036854775808 =? 0))).

(* "value == typeDef(member)" for the scalar types: what makes an optional scalar be omitted *)
Definition scalar_is_default (t : ty) (d : option val) (v : val) : bool :=
  match t, v with
  | TBool, VBool b => Bool.eqb b (match d with Some (VBool x) => x | _ => false end)
  | TF32, VFlt b => f32_eq b (match d with Some (VFlt x) => x | _ => 0 end)
  | TF64, VFlt b => f64_eq b (match d with Some (VFlt x) => x | _ => 0 end)
  | TStr, VStr s => bytes_eqb s (match d with Some (VStr x) => x | _ => [] end)
  | _, VInt z => (z =? (match d with Some (VInt x) => x | _ => 0 end))%Z
  | _, _ => false
  end.

Definition w_scalar (t : ty) (v : val) (tag : N) : list N :=
  match t, v with
  | TBool, VBool b => w_bool b tag
  | TI8, VInt z => w_int8 z tag | TU8, VInt z => w_uint8 z tag
  | TI16, VInt z => w_int16 z tag | TU16, VInt z => w_uint16 z tag
  | TI32, VInt z => w_int32 z tag | TU32, VInt z => w_uint32 z tag
  | TI64, VInt z => w_int64 z tag | TEnum, VInt z => w_int32 z tag
  | TF32, VFlt b => w_f32 b tag | TF64, VFlt b => w_f64 b tag
  | TStr, VStr s => w_string s tag
  | _, _ => []
  end.

(* ---------- encoder: genWriteVar ---------- *)
Fixpoint enc_var (e : env) (tag : N) (req : bool) (t : ty) (d : option val) (v : val) {struct v} : list N :=
  match t, v with
  | TVec TI8, VBytes s =>
      if negb req && (match s with [] => true | _ => false end) then []
      else head tSIMPLE tag ++ head tBYTE 0 ++ w_int32 (Z.of_nat (length s)) 0 ++ s
  | TVec x, VList xs =>
      if negb req && (match xs with [] => true | _ => false end) then []
      else head tLIST tag ++ w_int32 (Z.of_nat (length xs)) 0 ++
           (fix go l := match l with [] => [] | y :: r => enc_var e 0 true x None y ++ go r end) xs
  | TArr _ x, VList xs =>
      if negb req && (match xs with [] => true | _ => false end) then []
      else head tLIST tag ++ w_int32 (Z.of_nat (length xs)) 0 ++
           (fix go l := match l with [] => [] | y :: r => enc_var e 0 true x None y ++ go r end) xs
  | TMap kt vt, VMap kvs =>
      if negb req && (match kvs with [] => true | _ => false end) then []
      else head tMAP tag ++ w_int32 (Z.of_nat (length kvs)) 0 ++
           (fix go l := match l with [] => []
              | (k, x) :: r => enc_var e 0 true kt None k ++ enc_var e 1 true vt None x ++ go r end) kvs
  | TStruct sid, VStruct vs =>
      head tSB tag ++
      (fix go (l : list val) (fds : schema) {struct l} : list N :=
         match l, fds with
         | x :: l', fd :: fds' => enc_var e (ftag fd) (freq fd) (fty fd) (fdef fd) x ++ go l' fds'
         | _, _ => []
         end) vs (fields_of e sid)
      ++ head tSE 0
  | TEnum, _ => w_scalar t v tag                 (* enums are always written *)
  | _, _ => if negb req && scalar_is_default t d v then [] else w_scalar t v tag
  end.

(* WriteTo of a top-level struct: the members without the StructBegin/StructEnd frame *)
Definition encode (e : env) (sid : nat) (v : val) : list N :=
  match v with
  | VStruct vs =>
      (fix go (l : list val) (fds : schema) {struct l} : list N :=
         match l, fds with
         | x :: l', fd :: fds' => enc_var e (ftag fd) (freq fd) (fty fd) (fdef fd) x ++ go l' fds'
         | _, _ => []
         end) vs (fields_of e sid)
  | _ => []
  end.

(* ---------- decoder: genReadVar ---------- *)
Inductive dres (A : Type) := DOk (a : A) (rest : list N) | DErr | DPanic (site : N) | DHuge | DFuel.
Arguments DOk {A} a rest. Arguments DErr {A}. Arguments DPanic {A} site. Arguments DHuge {A}. Arguments DFuel {A}.
Definition site_makeslice : N := 1.   (* make([]T, length) with length < 0 *)
Definition site_array_index : N := 2. (* st.Arr[i] with i >= N *)

Definition of_rres {A} (r : rres A) (prior : val) (inj : A -> val) : dres val :=
  match r with
  | ROk a rest => DOk (inj a) rest | RAbsent rest => DOk prior rest | RErr => DErr | RFuel => DFuel
  end.

Definition dec_scalar (fuel : nat) (tag : N) (req : bool) (t : ty) (prior : val) (bs : list N) : dres val :=
  match t with
  | TBool => of_rres (r_bool fuel tag req bs) prior VBool
  | TI8 => of_rres (r_int8 fuel tag req bs) prior VInt
  | TU8 => of_rres (r_uint8 fuel tag req bs) prior VInt
  | TI16 => of_rres (r_int16 fuel tag req bs) prior VInt
  | TU16 => of_rres (r_uint16 fuel tag req bs) prior VInt
  | TI32 | TEnum => of_rres (r_int32 fuel tag req bs) prior VInt
  | TU32 => of_rres (r_uint32 fuel tag req bs) prior VInt
  | TI64 => of_rres (r_int64 fuel tag req bs) prior VInt
  | TF32 => of_rres (r_f32 fuel tag req bs) prior VFlt
  | TF64 => of_rres (r_f64 fuel tag req bs) prior VFlt
  | TStr => of_rres (r_string fuel tag req bs) prior VStr
  | _ => DErr
  end.

(* ReadSliceInt8 / ReadSliceUint8 as repaired: len < 0 or len > remaining is an error, every other length
   (0 included) assigns the target *)
Definition read_slice (n : Z) (r : list N) : option (list N * list N) :=
  if (n <? 0)%Z then None
  else if (Z.of_nat (length r) <? n)%Z then None
  else Some (firstn (Z.to_nat n) r, skipn (Z.to_nat n) r).

Definition bytes_val (t : ty) (s : list N) : val :=
  match t with TI8 => VBytes s | _ => VList (map (fun b => VInt (Z.of_N b)) s) end.
(* a LIST-decoded vector<byte> is stored as raw bytes *)
Definition list_val (t : ty) (xs : list val) : val :=
  match t with
  | TI8 => VBytes (map (fun v => match v with VInt z => wrapu 8 z | _ => 0 end) xs)
  | _ => VList xs
  end.

Fixpoint replace_nth (i : nat) (x : val) (l : list val) : list val :=
  match i, l with
  | O, _ :: r => x :: r
  | S k, y :: r => y :: replace_nth k x r
  | _, [] => []
  end.

Fixpoint dec_var (fuel : nat) (e : env) (tag : N) (req : bool) (t : ty) (prior : val) (bs : list N) {struct fuel} : dres val :=
  match fuel with O => DFuel | S f =>
  match t with
  | TVec x =>
      match skip_to_no_check f tag req bs with
      | NotFound r => DOk prior r
      | SeekErr => DErr | SeekFuel => DFuel
      | Found wt r =>
          if wt =? tLIST then
            match read_count r with
            | CErr _ => DErr
            | COk n r1 =>
                if (n <? 0)%Z then DErr
                else if (Z.of_nat (length r1) <? n)%Z then DErr
                else match dec_elems f e x n r1 with
                     | DOk xs r2 => DOk (list_val x xs) r2
                     | DErr => DErr | DPanic s => DPanic s | DHuge => DHuge | DFuel => DFuel
                     end
            end
          else if wt =? tSIMPLE then
            if is_byte x then
              match skip_to f tBYTE 0 true r with
              | Found _ r1 =>
                  match read_count r1 with
                  | CErr _ => DErr
                  | COk n r2 => match read_slice n r2 with
                                | None => DErr
                                | Some (s, r3) => DOk (bytes_val x s) r3
                                end
                  end
              | SeekFuel => DFuel
              | _ => DErr
              end
            else DErr
          else DErr
      end
  | TArr len x =>
      match skip_to_no_check f tag req bs with
      | NotFound r => DOk prior r
      | SeekErr => DErr | SeekFuel => DFuel
      | Found wt r =>
          if wt =? tLIST then
            match read_count r with
            | CErr _ => DErr
            | COk n r1 =>
                if (n <? 0)%Z || (Z.of_nat len <? n)%Z then DErr else
                match dec_arr f e x len 0 n (match prior with VList l => l | _ => [] end) r1 with
                | DOk xs r2 => DOk (VList xs) r2
                | DErr => DErr | DPanic s => DPanic s | DHuge => DHuge | DFuel => DFuel
                end
            end
          else DErr                                      (* SimpleList into a fixed array is not generated *)
      end
  | TMap kt vt =>
      match skip_to f tMAP tag req bs with
      | NotFound r => DOk prior r
      | SeekErr => DErr | SeekFuel => DFuel
      | Found _ r =>
          match read_count r with
          | CErr _ => DErr
          | COk n r1 => if (n <? 0)%Z || (Z.of_nat (length r1) / 2 <? n)%Z then DErr else
                        match dec_entries f e kt vt n r1 with
                        | DOk kvs r2 => DOk (VMap kvs) r2
                        | DErr => DErr | DPanic s => DPanic s | DHuge => DHuge | DFuel => DFuel
                        end
          end
      end
  | TStruct sid =>
      let prior' := reset_default f e sid prior in
      match skip_to f tSB tag req bs with
      | NotFound r => DOk prior' r
      | SeekErr => DErr | SeekFuel => DFuel
      | Found _ r =>
          match dec_fields f e (fields_of e sid) (match reset_default f e sid prior' with VStruct l => l | _ => [] end) r with
          | DOk vs r1 => match skip_to_end f 0 r1 with
                         | (SOk, r2) => DOk (VStruct vs) r2
                         | (SFuel, _) => DFuel
                         | _ => DErr
                         end
          | DErr => DErr | DPanic s => DPanic s | DHuge => DHuge | DFuel => DFuel
          end
      end
  | _ => dec_scalar f tag req t prior bs
  end end
with dec_elems (fuel : nat) (e : env) (x : ty) (n : Z) (bs : list N) {struct fuel} : dres (list val) :=
  match fuel with O => DFuel | S f =>
    if (n <=? 0)%Z then DOk [] bs else
    match dec_var f e 0 true x (zero_of f e x) bs with
    | DOk v r => match dec_elems f e x (n - 1)%Z r with
                 | DOk vs r' => DOk (v :: vs) r'
                 | o => o
                 end
    | DErr => DErr | DPanic s => DPanic s | DHuge => DHuge | DFuel => DFuel
    end
  end
with dec_arr (fuel : nat) (e : env) (x : ty) (len : nat) (i : nat) (n : Z) (cur : list val) (bs : list N) {struct fuel} : dres (list val) :=
  match fuel with O => DFuel | S f =>
    if (n <=? 0)%Z then DOk cur bs else
    if (len <=? i)%nat then DPanic site_array_index else
    match dec_var f e 0 true x (nth i cur (zero_of f e x)) bs with
    | DOk v r => dec_arr f e x len (S i) (n - 1)%Z (replace_nth i v cur) r
    | DErr => DErr | DPanic s => DPanic s | DHuge => DHuge | DFuel => DFuel
    end
  end
with dec_entries (fuel : nat) (e : env) (kt vt : ty) (n : Z) (bs : list N) {struct fuel} : dres (list (val * val)) :=
  match fuel with O => DFuel | S f =>
    if (n <=? 0)%Z then DOk [] bs else
    match dec_var f e 0 true kt (zero_of f e kt) bs with
    | DOk k r =>
        match dec_var f e 1 true vt (zero_of f e vt) r with
        | DOk v r' => match dec_entries f e kt vt (n - 1)%Z r' with
                      | DOk kvs r'' => DOk ((k, v) :: kvs) r''
                      | o => o
                      end
        | DErr => DErr | DPanic s => DPanic s | DHuge => DHuge | DFuel => DFuel
        end
    | DErr => DErr | DPanic s => DPanic s | DHuge => DHuge | DFuel => DFuel
    end
  end
with dec_fields (fuel : nat) (e : env) (fds : schema) (priors : list val) (bs : list N) {struct fuel} : dres (list val) :=
  match fuel with O => DFuel | S f =>
    match fds with
    | [] => DOk [] bs
    | fd :: fds' =>
        let p := match priors with p :: _ => p | [] => zero_of f e (fty fd) end in
        match dec_var f e (ftag fd) (freq fd) (fty fd) p bs with
        | DOk v r => match dec_fields f e fds' (tl priors) r with
                     | DOk vs r' => DOk (v :: vs) r'
                     | o => o
                     end
        | DErr => DErr | DPanic s => DPanic s | DHuge => DHuge | DFuel => DFuel
        end
    end
  end.

(* ReadFrom of a top-level struct into a target holding [prior] *)
Definition decode_into (e : env) (sid : nat) (prior : val) (bs : list N) : dres val :=
  let fuel := (4 * length bs + 64)%nat in
  match dec_fields fuel e (fields_of e sid) (match reset_default fuel e sid prior with VStruct l => l | _ => [] end) bs with
  | DOk vs r => DOk (VStruct vs) r
  | DErr => DErr | DPanic s => DPanic s | DHuge => DHuge | DFuel => DFuel
  end.
Definition zero_struct (e : env) (sid : nat) : val := zero_of 64 e (TStruct sid).
Definition decode (e : env) (sid : nat) (bs : list N) : dres val := decode_into e sid (zero_struct e sid) bs.

(* ---------- value equality up to the identifications the property allows ---------- *)
Fixpoint val_eqb (a b : val) {struct a} : bool :=
  match a, b with
  | VBool x, VBool y => Bool.eqb x y
  | VInt x, VInt y => (x =? y)%Z
  | VFlt x, VFlt y => x =? y
  | VStr x, VStr y => bytes_eqb x y
  | VBytes x, VBytes y => bytes_eqb x y
  | VList xs, VList ys =>
      (fix go l1 l2 := match l1, l2 with
         | [], [] => true | x :: r1, y :: r2 => val_eqb x y && go r1 r2 | _, _ => false end) xs ys
  | VStruct xs, VStruct ys =>
      (fix go l1 l2 := match l1, l2 with
         | [], [] => true | x :: r1, y :: r2 => val_eqb x y && go r1 r2 | _, _ => false end) xs ys
  | VMap xs, VMap ys =>
      (fix go l1 l2 := match l1, l2 with
         | [], [] => true | (k1, v1) :: r1, (k2, v2) :: r2 => val_eqb k1 k2 && val_eqb v1 v2 && go r1 r2 | _, _ => false end) xs ys
  | _, _ => false
  end.
