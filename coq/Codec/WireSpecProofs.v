(* C03, second clause: the encoder emits exactly the serialisation of the wire tree prescribed by the schema. *)
From Coq Require Import List NArith ZArith Lia Bool Arith Sorted.
From Coq Require Import ZifyN ZifyNat ZifyBool.
From TarsV Require Import Gen.Consts Base.Hex Codec.Wire Codec.WireProofs Codec.Skip Codec.SkipProofs Codec.Prim
  Codec.PrimProofs Codec.GenCodec Codec.Corr Codec.GenProofs Codec.RoundTrip Codec.RoundTripProofs Codec.WireSpec.
Import ListNotations.
Ltac Zify.zify_post_hook ::= Z.div_mod_to_equations.
Open Scope N_scope.

Lemma wire_elems_go e x xs :
  (fix go l := match l with [] => [] | y :: r => (0, wire_of e x y) :: go r end) xs = wire_elems e x xs.
Proof. induction xs as [|y r IH]; cbn [wire_elems]; [reflexivity|]. now rewrite IH. Qed.
Lemma wire_entries_go e kt vt kvs :
  (fix go l := match l with [] => []
     | (k, x) :: r => ((0, wire_of e kt k), (1, wire_of e vt x)) :: go r end) kvs = wire_entries e kt vt kvs.
Proof. induction kvs as [|[k x] r IH]; cbn [wire_entries]; [reflexivity|]. now rewrite IH. Qed.
Lemma wire_fields_go e vs : forall fds,
  (fix go l (fds : schema) := match l, fds with
     | x :: l', fd :: fds' =>
         if left_out (fty fd) (freq fd) (fdef fd) x then go l' fds'
         else (ftag fd, wire_of e (fty fd) x) :: go l' fds'
     | _, _ => [] end) vs fds = wire_fields e vs fds.
Proof.
  induction vs as [|x r IH]; intros [|fd fds]; cbn [wire_fields]; try reflexivity. rewrite IH. reflexivity.
Qed.
Lemma wire_of_vec e x xs : wire_of e (TVec x) (VList xs) = WList (wire_elems e x xs).
Proof. cbn [wire_of]. now rewrite wire_elems_go. Qed.
Lemma wire_of_arr e n x xs : wire_of e (TArr n x) (VList xs) = WList (wire_elems e x xs).
Proof. cbn [wire_of]. now rewrite wire_elems_go. Qed.
Lemma wire_of_map e kt vt kvs : wire_of e (TMap kt vt) (VMap kvs) = WMap (wire_entries e kt vt kvs).
Proof. cbn [wire_of]. now rewrite wire_entries_go. Qed.
Lemma wire_of_struct e sid vs : wire_of e (TStruct sid) (VStruct vs) = WStruct (wire_fields e vs (fields_of e sid)).
Proof. cbn [wire_of]. now rewrite wire_fields_go. Qed.

(* ---------- scalars ---------- *)
Lemma w_int64_wint z tag : fits 64 z = true -> w_int64 z tag = ser_field (tag, wint z).
Proof.
  intros H64. rewrite wire_int64 by assumption. unfold spec_int, wint, ser_field. cbn [fst snd].
  destruct (z =? 0)%Z; [cbn [ty_of ser_body]; now rewrite app_nil_r|].
  destruct (fits 8 z) eqn:F8.
  { cbn [ty_of ser_body be app]. f_equal. f_equal. apply N.mod_small. apply (wrapu_lt 8). lia. }
  destruct (fits 16 z); [reflexivity|]. destruct (fits 32 z); reflexivity.
Qed.

Lemma w_scalar_wire e t v tag : scalar_ty t = true -> sc_typed t v -> w_scalar t v tag = ser_field (tag, wire_of e t v).
Proof.
  intros Hsc Hty.
  destruct t; try discriminate; destruct v; cbn [sc_typed] in Hty; try contradiction; cbn [w_scalar wire_of];
    unfold w_bool, w_uint8, w_uint16, w_uint32.
  - rewrite w_int8_64 by (destruct b; reflexivity). apply w_int64_wint. destruct b; reflexivity.
  - rewrite w_int8_64 by assumption. apply w_int64_wint. fits_tac.
  - rewrite w_int16_64 by fits_tac. apply w_int64_wint. fits_tac.
  - rewrite w_int16_64 by assumption. apply w_int64_wint. fits_tac.
  - rewrite w_int32_64 by fits_tac. apply w_int64_wint. fits_tac.
  - rewrite w_int32_64 by assumption. apply w_int64_wint. fits_tac.
  - apply w_int64_wint. fits_tac.
  - now apply w_int64_wint.
  - reflexivity.
  - reflexivity.
  - unfold w_string, wstr, ser_field. cbv zeta. cbn [fst snd].
    destruct (255 <? N.of_nat (length s)) eqn:E; destruct (N.of_nat (length s) <=? 255) eqn:E2; try lia.
    + cbn [ty_of ser_body]. now rewrite N.mod_small by assumption.
    + reflexivity.
  - rewrite w_int32_64 by assumption. apply w_int64_wint. fits_tac.
Qed.

Lemma left_out_req t d v : left_out t true d v = false.
Proof. destruct v; try reflexivity; destruct t; reflexivity. Qed.
Lemma left_out_scalar t req d v : scalar_ty t = true -> sc_typed t v -> left_out t req d v = omit t req d v.
Proof. destruct t; try discriminate; destruct v; cbn [sc_typed]; intros _ H; try contradiction; reflexivity. Qed.
Lemma wire_elems_length e x xs : length (wire_elems e x xs) = length xs.
Proof. induction xs; cbn [wire_elems length]; congruence. Qed.
Lemma wire_entries_length e kt vt kvs : length (wire_entries e kt vt kvs) = length kvs.
Proof. induction kvs as [|[k x] r IH]; cbn [wire_entries length]; congruence. Qed.
Lemma w_int32_count n : N.of_nat n < 2147483648 -> w_int32 (Z.of_nat n) 0 = w_len (N.of_nat n).
Proof. intros H. replace (Z.of_nat n) with (Z.of_N (N.of_nat n)) by lia. now apply w_int32_len. Qed.

Section Wire.
Variable e : env.

Definition W_var (n : nat) : Prop := forall tag req t d v, has_type e t v -> (need v <= n)%nat ->
  enc_var e tag req t d v = if left_out t req d v then [] else ser_field (tag, wire_of e t v).
Definition W_elems (n : nat) : Prop := forall x xs, Forall (has_type e x) xs -> (need_list xs <= n)%nat ->
  enc_elems e x xs = ser_fields (wire_elems e x xs).
Definition W_entries (n : nat) : Prop := forall kt vt kvs,
  Forall (fun p => has_type e kt (fst p) /\ has_type e vt (snd p)) kvs -> (need_entries kvs <= n)%nat ->
  enc_entries e kt vt kvs = ser_fields (flat (wire_entries e kt vt kvs)).
Definition W_fields (n : nat) : Prop := forall fds vs, Forall2 (fun fd x => has_type e (fty fd) x) fds vs ->
  (need_list vs <= n)%nat -> enc_fields e vs fds = ser_fields (wire_fields e vs fds).

Lemma wire_all : forall n, W_var n /\ W_elems n /\ W_entries n /\ W_fields n.
Proof.
  induction n as [|n (HV & HE & HM & HF)].
  { repeat split.
    - intros tag req t d v _ Hn. pose proof (need_ge v). lia.
    - intros x xs _ Hn. pose proof (need_list_ge xs). lia.
    - intros kt vt kvs _ Hn. pose proof (need_entries_ge kvs). lia.
    - intros fds vs _ Hn. pose proof (need_list_ge vs). lia. }
  repeat split.
  - intros tag req t d v Hty Hn. inversion Hty; subst.
    + rewrite enc_var_scalar, left_out_scalar by assumption. destruct (omit t req d v); [reflexivity|]. now apply w_scalar_wire.
    + cbn [enc_var left_out]. destruct (negb req && _)%bool; [reflexivity|].
      unfold ser_field. cbn [fst snd wire_of ty_of ser_body]. now rewrite w_int32_count by assumption.
    + rewrite enc_var_list, wire_of_vec. cbn [left_out]. destruct (negb req && _)%bool; [reflexivity|].
      unfold ser_field. cbn [fst snd ty_of ser_body]. rewrite ser_list_go, wire_elems_length, w_int32_count by assumption.
      rewrite need_VList in Hn. rewrite (HE x xs) by (try assumption; lia). reflexivity.
    + rewrite enc_var_arr, wire_of_arr. cbn [left_out]. destruct (negb req && _)%bool; [reflexivity|].
      unfold ser_field. cbn [fst snd ty_of ser_body]. rewrite ser_list_go, wire_elems_length, w_int32_count by assumption.
      rewrite need_VList in Hn. rewrite (HE x xs) by (try assumption; lia). reflexivity.
    + rewrite enc_var_map, wire_of_map. cbn [left_out]. destruct (negb req && _)%bool; [reflexivity|].
      unfold ser_field. cbn [fst snd ty_of ser_body]. rewrite ser_map_go, wire_entries_length, w_int32_count by assumption.
      rewrite need_VMap in Hn. rewrite (HM kt vt kvs) by (try assumption; lia). reflexivity.
    + rewrite enc_var_struct, wire_of_struct. cbn [left_out].
      unfold ser_field. cbn [fst snd ty_of ser_body]. rewrite ser_list_go.
      rewrite need_VStruct in Hn. rewrite (HF (fields_of e sid) vs) by (try assumption; lia). reflexivity.
  - intros x xs Hty Hn. destruct Hty as [|y r Hy Hr]; [reflexivity|]. cbn [enc_elems wire_elems ser_fields need_list] in *.
    rewrite (HV 0 true x None y) by (try assumption; lia). rewrite left_out_req.
    rewrite (HE x r) by (try assumption; lia). reflexivity.
  - intros kt vt kvs Hty Hn. destruct Hty as [|[ky y] r [Hk Hy] Hr]; [reflexivity|]. cbn [fst snd] in Hk, Hy.
    cbn [enc_entries wire_entries need_entries] in *. unfold flat. cbn [flat_map fst snd app ser_fields]. fold (flat (wire_entries e kt vt r)).
    rewrite (HV 0 true kt None ky) by (try assumption; lia). rewrite (HV 1 true vt None y) by (try assumption; lia).
    rewrite !left_out_req. rewrite (HM kt vt r) by (try assumption; lia). reflexivity.
  - intros fds vs Hty Hn. destruct Hty as [|fd x fds vs Hx Hvs]; [reflexivity|]. cbn [enc_fields wire_fields need_list] in *.
    rewrite (HV (ftag fd) (freq fd) (fty fd) (fdef fd) x) by (try assumption; lia).
    rewrite (HF fds vs) by (try assumption; lia).
    destruct (left_out (fty fd) (freq fd) (fdef fd) x); reflexivity.
Qed.

(* the bytes WriteTo produces are the serialisation of the wire fields the schema prescribes *)
Theorem encode_wire sid vs : has_type e (TStruct sid) (VStruct vs) ->
  encode e sid (VStruct vs) = ser_fields (wire_fields e vs (fields_of e sid)).
Proof.
  intros Hty. rewrite encode_fields. inversion Hty as [| | | | |? ? Hvs]; subst; [discriminate|].
  destruct (wire_all (need_list vs)) as (_ & _ & _ & HF). now apply HF.
Qed.
End Wire.
Print Assumptions encode_wire.

(* ---------- the wire tree has the shape the schema prescribes ---------- *)
Lemma wint_adm bits z : is_width bits -> fits bits z = true -> adm_int bits (ty_of (wint z)) = true.
Proof.
  intros Hb Hf. unfold wint. destruct (z =? 0)%Z; [reflexivity|].
  destruct (fits 8 z) eqn:F8; [reflexivity|].
  destruct (fits 16 z) eqn:F16.
  { destruct Hb as [-> | [-> | [-> | ->]]]; [congruence|reflexivity|reflexivity|reflexivity]. }
  destruct (fits 32 z) eqn:F32.
  { destruct Hb as [-> | [-> | [-> | ->]]]; [congruence|congruence|reflexivity|reflexivity]. }
  destruct Hb as [-> | [-> | [-> | ->]]]; [congruence|congruence|congruence|reflexivity].
Qed.

Lemma adm_wire e t v : has_type e t v -> adm t (ty_of (wire_of e t v)) = true.
Proof.
  intros Hty. inversion Hty; subst.
  - destruct t; try discriminate; destruct v; cbn [sc_typed] in *; try contradiction; cbn [adm wire_of].
    + apply wint_adm; [widths|destruct b; reflexivity].
    + apply wint_adm; [widths|assumption].
    + apply wint_adm; [widths|fits_tac].
    + apply wint_adm; [widths|assumption].
    + apply wint_adm; [widths|fits_tac].
    + apply wint_adm; [widths|assumption].
    + apply wint_adm; [widths|fits_tac].
    + apply wint_adm; [widths|assumption].
    + reflexivity.
    + reflexivity.
    + unfold wstr. destruct (_ <=? 255); reflexivity.
    + apply wint_adm; [widths|assumption].
  - reflexivity.
  - rewrite wire_of_vec. reflexivity.
  - rewrite wire_of_arr. reflexivity.
  - rewrite wire_of_map. reflexivity.
  - rewrite wire_of_struct. reflexivity.
Qed.

Theorem wire_fields_conform e : forall fds vs, Forall2 (fun fd x => has_type e (fty fd) x) fds vs ->
  conforms fds (wire_fields e vs fds).
Proof.
  induction 1 as [|fd x fds vs Hx _ IH]; cbn [wire_fields]; [constructor|].
  destruct (left_out (fty fd) (freq fd) (fdef fd) x) eqn:El.
  - apply cf_skip; [|assumption]. destruct (freq fd) eqn:Er; [|reflexivity]. now rewrite left_out_req in El.
  - apply cf_take; [|assumption]. now apply adm_wire.
Qed.

(* conforming to a schema with strictly ascending tags: tags strictly ascending (hence at most once) *)
Lemma conforms_tags_gt : forall fds fs p, ascending p fds -> conforms fds fs -> Forall (fun f => p < fst f /\ fst f < 256) fs.
Proof.
  induction fds as [|fd fds IH]; intros fs p Hasc Hc.
  - inversion Hc; subst. apply Forall_nil.
  - cbn [ascending] in Hasc. destruct Hasc as (H1 & H2 & H3). inversion Hc as [|? ? ? Hr Hc'|? ? w ? Ha Hc']; subst.
    + eapply Forall_impl; [|apply (IH _ _ H3 Hc')]. intros f [A B]. split; [lia|assumption].
    + apply Forall_cons; [cbn [fst]; split; assumption|].
      eapply Forall_impl; [|apply (IH _ _ H3 Hc')]. intros f [A B]. split; [lia|assumption].
Qed.
Lemma conforms_sorted_from : forall fds fs p, ascending p fds -> conforms fds fs -> StronglySorted N.lt (map fst fs).
Proof.
  induction fds as [|fd fds IH]; intros fs p Hasc Hc.
  - inversion Hc; subst. apply SSorted_nil.
  - cbn [ascending] in Hasc. destruct Hasc as (H1 & H2 & H3). inversion Hc as [|? ? ? Hr Hc'|? ? w ? Ha Hc']; subst.
    + now apply (IH _ _ H3).
    + cbn [map fst]. apply SSorted_cons; [now apply (IH _ _ H3)|].
      apply Forall_map. eapply Forall_impl; [|apply (conforms_tags_gt _ _ _ H3 Hc')]. intros f [A _]. exact A.
Qed.
Theorem conforms_sorted : forall fds fs, schema_ascending fds -> conforms fds fs -> StronglySorted N.lt (map fst fs).
Proof.
  intros fds fs Hasc Hc. destruct fds as [|fd fds].
  - inversion Hc; subst. apply SSorted_nil.
  - destruct Hasc as [H256 Hasc]. inversion Hc as [|? ? ? Hr Hc'|? ? w ? Ha Hc']; subst.
    + now apply (conforms_sorted_from _ _ _ Hasc).
    + cbn [map fst]. apply SSorted_cons; [now apply (conforms_sorted_from _ _ _ Hasc)|].
      apply Forall_map. eapply Forall_impl; [|apply (conforms_tags_gt _ _ _ Hasc Hc')]. intros f [A _]. exact A.
Qed.
Print Assumptions wire_fields_conform.
Print Assumptions conforms_sorted.

(* ---------- the wire tree is well formed (byte ranges, tags, lengths within the format's fields) ---------- *)
Notation lim := 1073741824 (only parsing).   (* 2^30: any encoding shorter than 1 GiB (packets are limited to 10 MiB) *)

Lemma wint_ok z : fits 64 z = true -> wf_ok (wint z).
Proof.
  intros H. unfold wint. destruct (z =? 0)%Z; [exact I|].
  destruct (fits 8 z); [cbn [wf_ok]; apply (wrapu_lt 8); lia|].
  destruct (fits 16 z); [cbn [wf_ok]; apply (wrapu_lt 16); lia|].
  destruct (fits 32 z); [cbn [wf_ok]; apply (wrapu_lt 32); lia|].
  cbn [wf_ok]. apply (wrapu_lt 64). lia.
Qed.
Lemma entries_ok_build (l : list ((N * wf) * (N * wf))) :
  Forall (fun p => fst (fst p) < 256 /\ fst (snd p) < 256 /\ wf_ok (snd (fst p)) /\ wf_ok (snd (snd p))) l ->
  (fix all l := match l with [] => True
     | ((tk, k), (tv, v)) :: r => tk < 256 /\ tv < 256 /\ wf_ok k /\ wf_ok v /\ all r end) l.
Proof. induction 1 as [|[[tk k] [tv v]] r (A & B & C & D) _ IH]; [exact I|]. cbn [fst snd] in *. tauto. Qed.
Lemma ser_body_le_field f : (length (ser_body (snd f)) <= length (ser_field f))%nat.
Proof. unfold ser_field. rewrite app_length. lia. Qed.

Section WireOk.
Variable e : env.
Hypothesis Htags : forall sid fd, In fd (fields_of e sid) -> ftag fd < 256.

Definition K_var (n : nat) : Prop := forall t v, has_type e t v -> (need v <= n)%nat ->
  N.of_nat (length (ser_body (wire_of e t v))) < lim -> wf_ok (wire_of e t v).
Definition K_elems (n : nat) : Prop := forall x xs, Forall (has_type e x) xs -> (need_list xs <= n)%nat ->
  N.of_nat (length (ser_fields (wire_elems e x xs))) < lim -> fields_ok (wire_elems e x xs).
Definition K_entries (n : nat) : Prop := forall kt vt kvs,
  Forall (fun p => has_type e kt (fst p) /\ has_type e vt (snd p)) kvs -> (need_entries kvs <= n)%nat ->
  N.of_nat (length (ser_fields (flat (wire_entries e kt vt kvs)))) < lim ->
  Forall (fun p => fst (fst p) < 256 /\ fst (snd p) < 256 /\ wf_ok (snd (fst p)) /\ wf_ok (snd (snd p))) (wire_entries e kt vt kvs).
Definition K_fields (n : nat) : Prop := forall fds vs, Forall2 (fun fd x => has_type e (fty fd) x) fds vs ->
  (forall fd, In fd fds -> ftag fd < 256) -> (need_list vs <= n)%nat ->
  N.of_nat (length (ser_fields (wire_fields e vs fds))) < lim -> fields_ok (wire_fields e vs fds).

Lemma wire_ok_all : forall n, K_var n /\ K_elems n /\ K_entries n /\ K_fields n.
Proof.
  induction n as [|n (HV & HE & HM & HF)].
  { repeat split.
    - intros t v _ Hn. pose proof (need_ge v). lia.
    - intros x xs _ Hn. pose proof (need_list_ge xs). lia.
    - intros kt vt kvs _ Hn. pose proof (need_entries_ge kvs). lia.
    - intros fds vs _ _ Hn. pose proof (need_list_ge vs). lia. }
  repeat split.
  - intros t v Hty Hn Hl. inversion Hty; subst.
    + destruct t; try discriminate; destruct v; cbn [sc_typed] in *; try contradiction; cbn [wire_of] in *;
        try (apply wint_ok; first [assumption | fits_tac | (destruct b; reflexivity)]); try assumption.
      unfold wstr in *. destruct (N.of_nat (length s) <=? 255) eqn:E; cbn [wf_ok ser_body] in *; [lia|].
      rewrite app_length, be_length in Hl. change (2 ^ 31) with 2147483648. lia.
    + cbn [wire_of wf_ok]. change (2 ^ 31) with 2147483648. lia.
    + rewrite wire_of_vec in *. cbn [wf_ok ser_body] in *. rewrite ser_list_go, app_length in Hl. rewrite need_VList in Hn.
      pose proof (ser_fields_length (wire_elems e x xs)) as Hlen. rewrite wire_elems_length in *.
      change (2 ^ 30) with 1073741824. split; [lia|]. apply wf_ok_fields. apply HE; try assumption; lia.
    + rewrite wire_of_arr in *. cbn [wf_ok ser_body] in *. rewrite ser_list_go, app_length in Hl. rewrite need_VList in Hn.
      pose proof (ser_fields_length (wire_elems e x xs)) as Hlen. rewrite wire_elems_length in *.
      change (2 ^ 30) with 1073741824. split; [lia|]. apply wf_ok_fields. apply HE; try assumption; lia.
    + rewrite wire_of_map in *. cbn [wf_ok ser_body] in *. rewrite ser_map_go, app_length in Hl. rewrite need_VMap in Hn.
      pose proof (ser_fields_length (flat (wire_entries e kt vt kvs))) as Hlen. rewrite flat_length, wire_entries_length in *.
      change (2 ^ 30) with 1073741824. split; [lia|]. apply entries_ok_build. apply HM; try assumption; lia.
    + rewrite wire_of_struct in *. cbn [wf_ok ser_body] in *. rewrite ser_list_go, app_length in Hl. rewrite need_VStruct in Hn.
      apply wf_ok_fields. apply HF; try assumption; [apply Htags|lia|lia].
  - intros x xs Hty Hn Hl. destruct Hty as [|y r Hy Hr]; [constructor|]. cbn [wire_elems ser_fields need_list] in *.
    rewrite app_length in Hl. pose proof (ser_body_le_field (0, wire_of e x y)). cbn [snd] in *.
    constructor; [cbn [fst snd]; split; [lia|apply HV; try assumption; lia]|apply HE; try assumption; lia].
  - intros kt vt kvs Hty Hn Hl. destruct Hty as [|[ky y] r [Hk Hy] Hr]; [constructor|]. cbn [fst snd] in Hk, Hy.
    cbn [wire_entries need_entries] in *. unfold flat in Hl. cbn [flat_map fst snd app ser_fields] in Hl. fold (flat (wire_entries e kt vt r)) in Hl.
    rewrite !app_length in Hl. pose proof (ser_body_le_field (0, wire_of e kt ky)). pose proof (ser_body_le_field (1, wire_of e vt y)). cbn [snd] in *.
    constructor; [cbn [fst snd]; repeat split; try lia; apply HV; try assumption; lia|apply HM; try assumption; lia].
  - intros fds vs Hty Ht Hn Hl. destruct Hty as [|fd x fds vs Hx Hvs]; [constructor|]. cbn [wire_fields need_list] in *.
    destruct (left_out (fty fd) (freq fd) (fdef fd) x).
    + apply HF; try assumption; [intros fd' Hin; apply Ht; now right|lia].
    + cbn [ser_fields] in Hl. rewrite app_length in Hl. pose proof (ser_body_le_field (ftag fd, wire_of e (fty fd) x)). cbn [snd] in *.
      constructor; [cbn [fst snd]; split; [apply Ht; now left|apply HV; try assumption; lia]|].
      apply HF; try assumption; [intros fd' Hin; apply Ht; now right|lia|lia].
Qed.
End WireOk.

Lemma schema_tags_lt k e : wf_schema k e -> forall sid fd, In fd (fields_of e sid) -> ftag fd < 256.
Proof.
  intros Hwf sid fd Hin. pose proof (wf_asc k e Hwf sid) as Hasc. destruct (fields_of e sid) as [|x a]; [contradiction|].
  destruct Hasc as [H256 Hasc]. destruct Hin as [->|Hin]; [assumption|].
  clear H256. revert Hasc Hin. generalize (ftag x). induction a as [|y a IH]; intros p Hasc Hin; [contradiction|].
  destruct Hasc as (_ & H2 & H3). destruct Hin as [->|Hin]; [assumption|]. now apply (IH _ H3).
Qed.

(* C03, second clause: the bytes of a well-typed value are the serialisation of a well-formed wire field list that
   conforms to the schema (declared tags, admissible wire types, required members present), tags strictly ascending *)
Theorem encode_conforms e k sid vs :
  wf_schema k e -> has_type e (TStruct sid) (VStruct vs) -> N.of_nat (length (encode e sid (VStruct vs))) < lim ->
  let fs := wire_fields e vs (fields_of e sid) in
  encode e sid (VStruct vs) = ser_fields fs /\ fields_ok fs /\ conforms (fields_of e sid) fs /\
  StronglySorted N.lt (map fst fs).
Proof.
  intros Hwf Hty Hl fs. pose proof (encode_wire e sid vs Hty) as He. fold fs in He.
  inversion Hty as [| | | | |? ? Hvs]; subst; [discriminate|].
  assert (Hc : conforms (fields_of e sid) fs) by (now apply wire_fields_conform).
  repeat split; try assumption.
  - destruct (wire_ok_all e (schema_tags_lt k e Hwf) (need_list vs)) as (_ & _ & _ & HF).
    apply HF; try assumption; [apply (schema_tags_lt k e Hwf sid)|lia|]. fold fs. now rewrite <- He.
  - apply (conforms_sorted (fields_of e sid)); [apply (wf_asc k e Hwf)|assumption].
Qed.
(* integers in their narrowest width: the wire tree of an integer is the declarative spec_int of Props/C02 *)
Theorem wint_narrowest z tag : fits 64 z = true -> ser_field (tag, wint z) = spec_int z tag.
Proof. intros H. rewrite <- w_int64_wint by assumption. now apply wire_int64. Qed.
Print Assumptions encode_conforms.
