(* C02 proofs: exact round trip with exact cursor, widening reads, conformance to the declarative wire spec. *)
From Coq Require Import List NArith ZArith Lia Bool Arith.
From Coq Require Import ZifyN ZifyNat ZifyBool.
From TarsV Require Import Gen.Consts Base.Hex Codec.Wire Codec.WireProofs Codec.Skip Codec.Prim.
Import ListNotations.
Ltac Zify.zify_post_hook ::= Z.div_mod_to_equations.
Open Scope N_scope.

Definition is_width (b : Z) : Prop := (b = 8 \/ b = 16 \/ b = 32 \/ b = 64)%Z.

Lemma seek_first f ty tag req r : ty < 16 -> tag < 256 -> (ty =? tSE) = false ->
  skip_to_no_check (S f) tag req (head ty tag ++ r) = Found ty r.
Proof.
  intros Hty Htag Hse. cbn [skip_to_no_check]. rewrite read_head2_head by assumption.
  rewrite Hse. cbn [orb]. rewrite N.ltb_irrefl, N.eqb_refl. reflexivity.
Qed.

Lemma sext_wrapu bits v : is_width bits -> fits bits v = true -> sext bits (wrapu bits v) = v.
Proof.
  intros Hb Hf. unfold fits in Hf. unfold sext, wrapu.
  destruct Hb as [-> | [-> | [-> | ->]]]; cbn [Z.sub Z.pow Z.pow_pos Pos.iter Z.mul Pos.mul Z.opp Z.add Z.pos_sub Pos.pred_double] in *;
  (rewrite Z2N.id by (apply Z.mod_pos_bound; lia));
  match goal with |- (if ?c then _ else _) = _ => destruct c eqn:E end; lia.
Qed.

Lemma wrapu_lt bits v : (0 < bits)%Z -> wrapu bits v < 2 ^ Z.to_N bits.
Proof.
  intros Hb. unfold wrapu. pose proof (Z.mod_pos_bound v (2 ^ bits) ltac:(apply Z.pow_pos_nonneg; lia)) as H.
  apply N2Z.inj_lt. rewrite Z2N.id by lia. rewrite N2Z.inj_pow. rewrite Z2N.id by lia. cbn. lia.
Qed.

(* the single lemma behind every integer round trip and every widening read: whatever the cascade wrote
   for v is read back as v by a reader of any width that can hold v *)
Lemma r_int_w_int64 bits f tag req v rest : is_width bits -> tag < 256 ->
  fits bits v = true -> fits 64 v = true ->
  r_int bits (S f) tag req (w_int64 v tag ++ rest) = ROk v rest.
Proof.
  intros Hb Htag Hfb Hf64. unfold r_int, with_seek, w_int64, w_int32, w_int16, w_int8.
  unfold fits in Hfb, Hf64.
  destruct ((-2147483648 <=? v) && (v <=? 2147483647))%Z eqn:E32.
  - destruct ((-32768 <=? v) && (v <=? 32767))%Z eqn:E16.
    + destruct ((-128 <=? v) && (v <=? 127))%Z eqn:E8.
      * destruct (v =? 0)%Z eqn:E0.
        -- rewrite seek_first by (try reflexivity; assumption). unfold read_int_body. cbn [N.eqb tZERO c_ZeroTag Pos.eqb].
           assert (v = 0%Z) by lia. subst. reflexivity.
        -- rewrite <- app_assoc. rewrite seek_first by (try reflexivity; assumption).
           unfold read_int_body. cbn [app]. change (tBYTE =? tZERO) with false. change (tBYTE =? tBYTE) with true. cbv iota.
           rewrite (sext_wrapu 8) by (first [left; reflexivity | unfold fits; cbn; lia]). reflexivity.
      * rewrite <- app_assoc. rewrite seek_first by (try reflexivity; assumption).
        unfold read_int_body. change (tSHORT =? tZERO) with false. change (tSHORT =? tBYTE) with false.
        change (tSHORT =? tSHORT) with true. cbv iota.
        assert (H16 : (16 <=? bits)%Z = true) by (destruct Hb as [-> | [-> | [-> | ->]]]; cbn in *; lia).
        rewrite H16. cbn [andb]. rewrite bread_be by (apply (wrapu_lt 16); lia).
        rewrite (sext_wrapu 16) by (first [right; left; reflexivity | unfold fits; cbn; lia]). reflexivity.
    + rewrite <- app_assoc. rewrite seek_first by (try reflexivity; assumption).
      unfold read_int_body. change (tINT =? tZERO) with false. change (tINT =? tBYTE) with false.
      change (tINT =? tSHORT) with false. change (tINT =? tINT) with true. cbv iota. cbn [andb].
      assert (H32 : (32 <=? bits)%Z = true) by (destruct Hb as [-> | [-> | [-> | ->]]]; cbn in *; lia).
      rewrite H32. cbn [andb]. rewrite bread_be by (apply (wrapu_lt 32); lia).
      rewrite (sext_wrapu 32) by (first [right; right; left; reflexivity | unfold fits; cbn; lia]). reflexivity.
  - rewrite <- app_assoc. rewrite seek_first by (try reflexivity; assumption).
    unfold read_int_body. change (tLONG =? tZERO) with false. change (tLONG =? tBYTE) with false.
    change (tLONG =? tSHORT) with false. change (tLONG =? tINT) with false. change (tLONG =? tLONG) with true.
    cbv iota. cbn [andb].
    assert (H64 : (64 <=? bits)%Z = true) by (destruct Hb as [-> | [-> | [-> | ->]]]; cbn in *; lia).
    rewrite H64. cbn [andb]. rewrite bread_be by (apply (wrapu_lt 64); lia).
    rewrite (sext_wrapu 64) by (first [right; right; right; reflexivity | unfold fits; cbn; lia]). reflexivity.
Qed.

(* the cascade collapses: a narrower writer writes what WriteInt64 writes *)
Lemma w_int32_64 v tag : fits 32 v = true -> w_int32 v tag = w_int64 v tag.
Proof. unfold fits, w_int64. cbn. intros H. destruct ((-2147483648 <=? v) && (v <=? 2147483647))%Z eqn:E; [reflexivity|lia]. Qed.
Lemma w_int16_64 v tag : fits 16 v = true -> w_int16 v tag = w_int64 v tag.
Proof. intros H. rewrite <- w_int32_64 by (unfold fits in *; cbn in *; lia). unfold fits, w_int32 in *. cbn in H.
  destruct ((-32768 <=? v) && (v <=? 32767))%Z eqn:E; [reflexivity|lia]. Qed.
Lemma w_int8_64 v tag : fits 8 v = true -> w_int8 v tag = w_int64 v tag.
Proof. intros H. rewrite <- w_int16_64 by (unfold fits in *; cbn in *; lia). unfold fits, w_int16 in *. cbn in H.
  destruct ((-128 <=? v) && (v <=? 127))%Z eqn:E; [reflexivity|lia]. Qed.

Ltac widths := first [left; reflexivity | right; left; reflexivity | right; right; left; reflexivity | right; right; right; reflexivity].
Ltac fits_tac := unfold fits in *; cbn in *; lia.

(* ---------- round trips: identical value, cursor exactly at the end of the field ---------- *)
Theorem roundtrip_int8 f tag req v rest : tag < 256 -> fits 8 v = true ->
  r_int8 (S f) tag req (w_int8 v tag ++ rest) = ROk v rest.
Proof. intros. rewrite w_int8_64 by assumption. apply r_int_w_int64; try assumption; [widths|fits_tac]. Qed.
Theorem roundtrip_int16 f tag req v rest : tag < 256 -> fits 16 v = true ->
  r_int16 (S f) tag req (w_int16 v tag ++ rest) = ROk v rest.
Proof. intros. rewrite w_int16_64 by assumption. apply r_int_w_int64; try assumption; [widths|fits_tac]. Qed.
Theorem roundtrip_int32 f tag req v rest : tag < 256 -> fits 32 v = true ->
  r_int32 (S f) tag req (w_int32 v tag ++ rest) = ROk v rest.
Proof. intros. rewrite w_int32_64 by assumption. apply r_int_w_int64; try assumption; [widths|fits_tac]. Qed.
Theorem roundtrip_int64 f tag req v rest : tag < 256 -> fits 64 v = true ->
  r_int64 (S f) tag req (w_int64 v tag ++ rest) = ROk v rest.
Proof. intros. apply r_int_w_int64; try assumption; widths. Qed.

Theorem roundtrip_uint8 f tag req v rest : tag < 256 -> (0 <= v < 256)%Z ->
  r_uint8 (S f) tag req (w_uint8 v tag ++ rest) = ROk v rest.
Proof. intros. unfold r_uint8, w_uint8. rewrite w_int16_64 by fits_tac.
  rewrite r_int_w_int64 by (try assumption; first [widths|fits_tac]). cbn [map_r]. f_equal. apply Z.mod_small. lia. Qed.
Theorem roundtrip_uint16 f tag req v rest : tag < 256 -> (0 <= v < 65536)%Z ->
  r_uint16 (S f) tag req (w_uint16 v tag ++ rest) = ROk v rest.
Proof. intros. unfold r_uint16, w_uint16. rewrite w_int32_64 by fits_tac.
  rewrite r_int_w_int64 by (try assumption; first [widths|fits_tac]). cbn [map_r]. f_equal. apply Z.mod_small. lia. Qed.
Theorem roundtrip_uint32 f tag req v rest : tag < 256 -> (0 <= v < 4294967296)%Z ->
  r_uint32 (S f) tag req (w_uint32 v tag ++ rest) = ROk v rest.
Proof. intros. unfold r_uint32, w_uint32.
  rewrite r_int_w_int64 by (try assumption; first [widths|fits_tac]). cbn [map_r]. f_equal. apply Z.mod_small. lia. Qed.
Theorem roundtrip_bool f tag req b rest : tag < 256 ->
  r_bool (S f) tag req (w_bool b tag ++ rest) = ROk b rest.
Proof. intros. unfold r_bool, w_bool. rewrite w_int8_64 by (destruct b; reflexivity).
  rewrite r_int_w_int64 by (try assumption; first [widths|destruct b; reflexivity]). destruct b; reflexivity. Qed.

(* ---------- widening: a reader of a wider type accepts every narrower encoding with the same value ---------- *)
Theorem widen_signed bits f tag req v rest : is_width bits -> tag < 256 -> fits bits v = true ->
  forall wbits, is_width wbits -> (bits <= wbits)%Z ->
  r_int wbits (S f) tag req (w_int64 v tag ++ rest) = ROk v rest.
Proof.
  intros Hb Htag Hf wbits Hw Hle. apply r_int_w_int64; try assumption;
  destruct Hb as [-> | [-> | [-> | ->]]]; destruct Hw as [-> | [-> | [-> | ->]]]; try lia; fits_tac.
Qed.
Theorem widen_uint8_16 f tag req v rest : tag < 256 -> (0 <= v < 256)%Z ->
  r_uint16 (S f) tag req (w_uint8 v tag ++ rest) = ROk v rest /\
  r_uint32 (S f) tag req (w_uint8 v tag ++ rest) = ROk v rest /\
  r_int16 (S f) tag req (w_uint8 v tag ++ rest) = ROk v rest /\
  r_int32 (S f) tag req (w_uint8 v tag ++ rest) = ROk v rest /\
  r_int64 (S f) tag req (w_uint8 v tag ++ rest) = ROk v rest.
Proof.
  intros. unfold r_uint16, r_uint32, w_uint8, r_int16, r_int32, r_int64. rewrite w_int16_64 by fits_tac.
  rewrite !r_int_w_int64 by (try assumption; first [widths|fits_tac]). cbn [map_r].
  rewrite !Z.mod_small by lia. repeat split.
Qed.
Theorem widen_uint16_32 f tag req v rest : tag < 256 -> (0 <= v < 65536)%Z ->
  r_uint32 (S f) tag req (w_uint16 v tag ++ rest) = ROk v rest /\
  r_int32 (S f) tag req (w_uint16 v tag ++ rest) = ROk v rest /\
  r_int64 (S f) tag req (w_uint16 v tag ++ rest) = ROk v rest.
Proof.
  intros. unfold r_uint32, w_uint16, r_int32, r_int64. rewrite w_int32_64 by fits_tac.
  rewrite !r_int_w_int64 by (try assumption; first [widths|fits_tac]). cbn [map_r].
  rewrite !Z.mod_small by lia. repeat split.
Qed.

(* ---------- floats: bit-exact (NaN payloads, infinities, -0 are just bit patterns) ---------- *)
Theorem roundtrip_f32 f tag req b rest : tag < 256 -> b < 4294967296 ->
  r_f32 (S f) tag req (w_f32 b tag ++ rest) = ROk b rest.
Proof.
  intros. unfold r_f32, with_seek, w_f32. rewrite <- app_assoc, seek_first by (try reflexivity; assumption).
  unfold read_f32_body. change (tFLOAT =? tZERO) with false. change (tFLOAT =? tFLOAT) with true. cbv iota.
  now rewrite bread_be by assumption.
Qed.
Theorem roundtrip_f64 f tag req b rest : tag < 256 -> b < 18446744073709551616 ->
  r_f64 (S f) tag req (w_f64 b tag ++ rest) = ROk b rest.
Proof.
  intros. unfold r_f64, with_seek, w_f64. rewrite <- app_assoc, seek_first by (try reflexivity; assumption).
  unfold read_f64_body. change (tDOUBLE =? tZERO) with false. change (tDOUBLE =? tFLOAT) with false.
  change (tDOUBLE =? tDOUBLE) with true. cbv iota. now rewrite bread_be by assumption.
Qed.
Theorem widen_f32_f64 f tag req b rest : tag < 256 -> b < 4294967296 ->
  r_f64 (S f) tag req (w_f32 b tag ++ rest) = ROk (widen32 b) rest.
Proof.
  intros. unfold r_f64, with_seek, w_f32. rewrite <- app_assoc, seek_first by (try reflexivity; assumption).
  unfold read_f64_body. change (tFLOAT =? tZERO) with false. change (tFLOAT =? tFLOAT) with true. cbv iota.
  now rewrite bread_be by assumption.
Qed.

(* ---------- strings: any bytes, any length below 2^32 ---------- *)
Lemma take_str_app s rest : take_str (N.of_nat (length s)) (s ++ rest) = Some (s, rest).
Proof.
  unfold take_str. rewrite app_length. destruct (N.of_nat (length s + length rest) <? N.of_nat (length s)) eqn:E; [lia|].
  rewrite Nnat.Nat2N.id, firstn_app, skipn_app, Nat.sub_diag, firstn_all, skipn_all. cbn. now rewrite app_nil_r.
Qed.
Theorem roundtrip_string f tag req s rest : tag < 256 -> N.of_nat (length s) < 4294967296 ->
  r_string (S f) tag req (w_string s tag ++ rest) = ROk s rest.
Proof.
  intros Htag Hl. unfold r_string, with_seek, w_string. cbv zeta.
  destruct (255 <? N.of_nat (length s)) eqn:E.
  - rewrite <- app_assoc, seek_first by (try reflexivity; assumption).
    unfold read_string_body. change (tSTR4 =? tSTR4) with true. cbv iota.
    rewrite <- app_assoc. rewrite N.mod_small by assumption. rewrite bread_be by (cbn; lia).
    now rewrite take_str_app.
  - rewrite <- app_assoc, seek_first by (try reflexivity; assumption).
    unfold read_string_body. change (tSTR1 =? tSTR4) with false. change (tSTR1 =? tSTR1) with true. cbv iota.
    cbn [app]. now rewrite take_str_app.
Qed.

(* ---------- conformance: the writers emit exactly what the wire format prescribes ---------- *)
Lemma head_spec ty tag : head ty tag = spec_head ty tag.
Proof. reflexivity. Qed.

Theorem wire_int64 v tag : fits 64 v = true -> w_int64 v tag = spec_int v tag.
Proof.
  intros H64. unfold w_int64, w_int32, w_int16, w_int8, spec_int, fits in *. rewrite !head_spec.
  destruct (v =? 0)%Z eqn:E0.
  - destruct ((-2147483648 <=? v) && (v <=? 2147483647))%Z eqn:E32; [|lia].
    destruct ((-32768 <=? v) && (v <=? 32767))%Z eqn:E16; [|lia].
    destruct ((-128 <=? v) && (v <=? 127))%Z eqn:E8; [reflexivity|lia].
  - cbn [Z.sub Z.pow Z.pow_pos Pos.iter Z.mul Pos.mul Z.opp Z.add Z.pos_sub Pos.pred_double] in *.
    destruct ((-128 <=? v) && (v <? 128))%Z eqn:F8.
    + destruct ((-2147483648 <=? v) && (v <=? 2147483647))%Z eqn:E32; [|lia].
      destruct ((-32768 <=? v) && (v <=? 32767))%Z eqn:E16; [|lia].
      destruct ((-128 <=? v) && (v <=? 127))%Z eqn:E8; [|lia].
      cbn [be app]. f_equal. f_equal. pose proof (wrapu_lt 8 v ltac:(lia)). cbn in *. lia.
    + destruct ((-32768 <=? v) && (v <? 32768))%Z eqn:F16.
      * destruct ((-2147483648 <=? v) && (v <=? 2147483647))%Z eqn:E32; [|lia].
        destruct ((-32768 <=? v) && (v <=? 32767))%Z eqn:E16; [|lia].
        destruct ((-128 <=? v) && (v <=? 127))%Z eqn:E8; [lia|reflexivity].
      * destruct ((-2147483648 <=? v) && (v <? 2147483648))%Z eqn:F32.
        -- destruct ((-2147483648 <=? v) && (v <=? 2147483647))%Z eqn:E32; [|lia].
           destruct ((-32768 <=? v) && (v <=? 32767))%Z eqn:E16; [lia|reflexivity].
        -- destruct ((-2147483648 <=? v) && (v <=? 2147483647))%Z eqn:E32; [lia|reflexivity].
Qed.
Theorem wire_f32 b tag : w_f32 b tag = spec_f32 b tag.  Proof. reflexivity. Qed.
Theorem wire_f64 b tag : w_f64 b tag = spec_f64 b tag.  Proof. reflexivity. Qed.
Theorem wire_string s tag : N.of_nat (length s) < 4294967296 -> w_string s tag = spec_string s tag.
Proof.
  intros Hl. unfold w_string, spec_string. cbv zeta. rewrite !head_spec.
  destruct (255 <? N.of_nat (length s)) eqn:E; destruct (N.of_nat (length s) <=? 255) eqn:E2; try lia.
  - now rewrite N.mod_small by assumption.
  - cbn [be app]. f_equal. f_equal. lia.
Qed.

(* non-vacuity *)
Example c02_ex1 : r_int32 5 200 true (w_int16 (-32769 + 1) 200 ++ [7]) = ROk (-32768)%Z [7].
Proof. vm_compute. reflexivity. Qed.
Example c02_ex2 : w_int64 (-32769) 15 = [242; 15; 255; 255; 127; 255].
Proof. vm_compute. reflexivity. Qed.
Example c02_ex3 : r_string 5 3 true (w_string (repeat 65 300) 3 ++ [1; 2]) = ROk (repeat 65 300) [1; 2].
Proof. vm_compute. reflexivity. Qed.
