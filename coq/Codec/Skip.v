(* Wire trees (the independent description of a well-formed Tars encoding), their serialiser, and the
   mirror of codec.Reader's skipping functions: skipField, skipFieldList/Map/SimpleList, SkipToStructEnd,
   including ignored inner errors, the int32 product of the map count, seeking past the end, the nesting
   limit of the repaired code, and the reader position after an error. *)
From Coq Require Import List NArith ZArith Lia Bool Arith.
From Coq Require Import ZifyN ZifyNat ZifyBool.
From TarsV Require Import Gen.Consts Codec.Wire.
Import ListNotations.
Open Scope N_scope.

Inductive wf :=
| WZero | WByte (b : N) | WShort (v : N) | WInt (v : N) | WLong (v : N) | WFloat (v : N) | WDouble (v : N)
| WStr1 (s : list N) | WStr4 (s : list N) | WSimple (s : list N)
| WList (xs : list (N * wf)) | WMap (kvs : list ((N * wf) * (N * wf))) | WStruct (fs : list (N * wf)).

Definition ty_of (w : wf) : N :=
  match w with
  | WZero => tZERO | WByte _ => tBYTE | WShort _ => tSHORT | WInt _ => tINT | WLong _ => tLONG
  | WFloat _ => tFLOAT | WDouble _ => tDOUBLE | WStr1 _ => tSTR1 | WStr4 _ => tSTR4
  | WSimple _ => tSIMPLE | WList _ => tLIST | WMap _ => tMAP | WStruct _ => tSB
  end.

(* a non-negative count written as the narrowest int field at tag 0 (what WriteInt32(len, 0) emits) *)
Definition w_len (n : N) : list N :=
  if n =? 0 then head tZERO 0
  else if n <? 128 then head tBYTE 0 ++ [n]
  else if n <? 32768 then head tSHORT 0 ++ be 2 n
  else head tINT 0 ++ be 4 n.

Fixpoint ser_body (w : wf) : list N :=
  match w with
  | WZero => []
  | WByte b => [b]
  | WShort v => be 2 v | WInt v => be 4 v | WLong v => be 8 v
  | WFloat v => be 4 v | WDouble v => be 8 v
  | WStr1 s => N.of_nat (length s) :: s
  | WStr4 s => be 4 (N.of_nat (length s)) ++ s
  | WSimple s => head tBYTE 0 ++ w_len (N.of_nat (length s)) ++ s
  | WList xs => w_len (N.of_nat (length xs)) ++
                (fix go l := match l with [] => [] | (t, x) :: r => head (ty_of x) t ++ ser_body x ++ go r end) xs
  | WMap kvs => w_len (N.of_nat (length kvs)) ++
                (fix go l := match l with [] => []
                  | ((tk, k), (tv, v)) :: r => head (ty_of k) tk ++ ser_body k ++ head (ty_of v) tv ++ ser_body v ++ go r end) kvs
  | WStruct fs => (fix go l := match l with [] => [] | (t, x) :: r => head (ty_of x) t ++ ser_body x ++ go r end) fs
                  ++ head tSE 0
  end.
Definition ser_field (f : N * wf) : list N := head (ty_of (snd f)) (fst f) ++ ser_body (snd f).
Fixpoint ser_fields (fs : list (N * wf)) : list N :=
  match fs with [] => [] | f :: r => ser_field f ++ ser_fields r end.

(* well-formedness of a wire tree: byte ranges, tags < 256, lengths within the format's fields *)
Fixpoint wf_ok (w : wf) : Prop :=
  match w with
  | WByte b => b < 256
  | WShort v => v < 65536 | WInt v => v < 4294967296 | WLong v => v < 18446744073709551616
  | WFloat v => v < 4294967296 | WDouble v => v < 18446744073709551616
  | WStr1 s => (length s <= 255)%nat
  | WStr4 s => N.of_nat (length s) < 2 ^ 31
  | WSimple s => N.of_nat (length s) < 2 ^ 31
  | WList xs => N.of_nat (length xs) < 2 ^ 30 /\
                (fix all l := match l with [] => True | (t, x) :: r => t < 256 /\ wf_ok x /\ all r end) xs
  | WMap kvs => N.of_nat (length kvs) < 2 ^ 30 /\
                (fix all l := match l with [] => True
                   | ((tk, k), (tv, v)) :: r => tk < 256 /\ tv < 256 /\ wf_ok k /\ wf_ok v /\ all r end) kvs
  | WStruct fs => (fix all l := match l with [] => True | (t, x) :: r => t < 256 /\ wf_ok x /\ all r end) fs
  | WZero => True
  end.

(* nesting depth through list / map / struct fields *)
Fixpoint wdepth (w : wf) : N :=
  match w with
  | WList xs => 1 + (fix mx l := match l with [] => 0 | (_, x) :: r => N.max (wdepth x) (mx r) end) xs
  | WMap kvs => 1 + (fix mx l := match l with [] => 0
                       | ((_, k), (_, v)) :: r => N.max (N.max (wdepth k) (wdepth v)) (mx r) end) kvs
  | WStruct fs => 1 + (fix mx l := match l with [] => 0 | (_, x) :: r => N.max (wdepth x) (mx r) end) fs
  | _ => 0
  end.

(* ---------- model of codec.Reader skipping ---------- *)
Inductive st := SOk | SErr | SFuel.
(* Seek forward: past the end is fine (the reader is then empty); never converts a wire-supplied count to nat *)
Definition drop (n : N) (bs : list N) : list N :=
  if N.of_nat (length bs) <=? n then [] else skipn (N.to_nat n) bs.

Definition wrap32 (z : Z) : Z := let m := (z mod 2 ^ 32)%Z in if (m <? 2 ^ 31)%Z then m else (m - 2 ^ 32)%Z.

(* ReadInt32(&length, 0, true) as used for counts: value, or error, with the reader position afterwards *)
Inductive cnt := COk (z : Z) (rest : list N) | CErr (rest : list N).
Definition read_count (bs : list N) : cnt :=
  match read_head bs with
  | None => CErr []
  | Some (ty, tag, r) =>
      if negb (tag =? 0) || (ty =? tSE) then CErr r
      else if ty =? tZERO then COk 0%Z r
      else if ty =? tBYTE then match r with [] => CErr [] | b :: r' => COk (sext 8 b) r' end
      else if ty =? tSHORT then match bread 2 r with None => CErr [] | Some (v, r') => COk (sext 16 v) r' end
      else if ty =? tINT then match bread 4 r with None => CErr [] | Some (v, r') => COk (sext 32 v) r' end
      else CErr r
  end.

Definition maxd : N := c_maxSkipDepth.

Fixpoint skip_field (fuel : nat) (d : N) (ty : N) (bs : list N) : st * list N :=
  match fuel with
  | O => (SFuel, bs)
  | S f =>
    if ty =? tBYTE then (SOk, drop 1 bs) else if ty =? tSHORT then (SOk, drop 2 bs)
    else if ty =? tINT then (SOk, drop 4 bs) else if ty =? tLONG then (SOk, drop 8 bs)
    else if ty =? tFLOAT then (SOk, drop 4 bs) else if ty =? tDOUBLE then (SOk, drop 8 bs)
    else if ty =? tSTR1 then match bs with [] => (SErr, []) | l :: r => (SOk, drop l r) end
    else if ty =? tSTR4 then match bread 4 bs with None => (SErr, []) | Some (l, r) => (SOk, drop l r) end
    else if ty =? tMAP then
      if maxd <=? d then (SErr, bs) else
      match read_count bs with CErr r => (SErr, r)
      | COk n r => skip_n f (d + 1) (wrap32 (n * 2)) r end
    else if ty =? tLIST then
      if maxd <=? d then (SErr, bs) else
      match read_count bs with CErr r => (SErr, r)
      | COk n r => skip_n f (d + 1) n r end
    else if ty =? tSIMPLE then
      match read_head bs with
      | None => (SErr, [])
      | Some (t, _, r) => if negb (t =? tBYTE) then (SErr, r) else
          match read_count r with CErr r' => (SErr, r')
          | COk n r' => (SOk, if (0 <? n)%Z then drop (Z.to_N n) r' else r') end
      end
    else if ty =? tSB then (if maxd <=? d then (SErr, bs) else skip_to_end f (d + 1) bs)
    else if (ty =? tSE) || (ty =? tZERO) then (SOk, bs)
    else (SErr, bs)
  end
with skip_n (fuel : nat) (d : N) (n : Z) (bs : list N) : st * list N :=
  match fuel with
  | O => (SFuel, bs)
  | S f => if (n <=? 0)%Z then (SOk, bs) else
      match read_head bs with
      | None => (SErr, [])
      | Some (ty, _, r) => let '(_, r') := skip_field f d ty r in skip_n f d (n - 1)%Z r'   (* error ignored, as in Go *)
      end
  end
with skip_to_end (fuel : nat) (d : N) (bs : list N) : st * list N :=
  match fuel with
  | O => (SFuel, bs)
  | S f => match read_head bs with
           | None => (SErr, [])
           | Some (ty, _, r) =>
               match skip_field f d ty r with
               | (SOk, r') => if ty =? tSE then (SOk, r') else skip_to_end f d r'
               | e => e
               end
           end
  end.

(* SkipToNoCheck: scan heads in tag order; stop (un-reading the head) at a larger tag or at StructEnd;
   skip smaller tags. unreadHead steps back one byte, two when the tag it was given is >= 15: after a
   two-byte head that carries a tag < 15 (non-canonical) it therefore steps back only one byte. *)
Inductive seek := Found (ty : N) (rest : list N) | NotFound (rest : list N) | SeekErr | SeekFuel.

Definition unread (bs : list N) (tg : N) (two : bool) : list N :=
  if two && (tg <? 15) then tl bs else bs.

Fixpoint skip_to_no_check (fuel : nat) (tag : N) (require : bool) (bs : list N) : seek :=
  match fuel with
  | O => SeekFuel
  | S f =>
    match read_head2 bs with
    | None => if require then SeekErr else NotFound []
    | Some (ty, tg, r, two) =>
        if (ty =? tSE) || (tag <? tg) then (if require then SeekErr else NotFound (unread bs tg two))
        else if tg =? tag then Found ty r
        else match skip_field f 0 ty r with
             | (SOk, r') => skip_to_no_check f tag require r'
             | (SFuel, _) => SeekFuel
             | _ => SeekErr
             end
    end
  end.

(* SkipTo: as above plus the wire type check *)
Definition skip_to (fuel : nat) (ty tag : N) (require : bool) (bs : list N) : seek :=
  match skip_to_no_check fuel tag require bs with
  | Found t r => if t =? ty then Found t r else SeekErr
  | x => x
  end.

(* fuel that always suffices for an input of this length *)
Definition fuel_for (bs : list N) : nat := 2 * length bs + 4.
