(* C05: what the repaired generated decoders allocate AHEAD of reading. The only sites where the size of an
   allocation is taken from the wire before the data is there are the LIST branch (make([]T, count)) and the map
   loop (one entry inserted per decoded pair); strings and byte vectors are copied from bytes that are present
   (C06: whole or an error). [al_var] ... [al_fields] add up, over one run of the decoder on the given bytes, every
   count that passes the check in front of make plus one per map entry inserted - on successful AND on failing
   decodes. They are defined over the decoder itself (the continuation after an element is the decoder's), so
   there is no second decoder to keep in step. Definitions only. *)
From Coq Require Import List NArith ZArith Lia Bool Arith.
From TarsV Require Import Gen.Consts Base.Hex Codec.Wire Codec.Skip Codec.Prim Codec.GenCodec.
Import ListNotations.
Open Scope N_scope.

Fixpoint al_var (fuel : nat) (e : env) (tag : N) (req : bool) (t : ty) (prior : val) (bs : list N) {struct fuel} : nat :=
  match fuel with O => 0%nat | S f =>
  match t with
  | TVec x =>
      match skip_to_no_check f tag req bs with
      | Found wt r =>
          if wt =? tLIST then
            match read_count r with
            | COk n r1 =>
                if (n <? 0)%Z then 0%nat
                else if (Z.of_nat (length r1) <? n)%Z then 0%nat
                else (Z.to_nat n + al_elems f e x n r1)%nat       (* make([]T, n), then the elements *)
            | CErr _ => 0%nat
            end
          else 0%nat
      | _ => 0%nat
      end
  | TArr len x =>
      match skip_to_no_check f tag req bs with
      | Found wt r =>
          if wt =? tLIST then
            match read_count r with
            | COk n r1 =>
                if (n <? 0)%Z || (Z.of_nat len <? n)%Z then 0%nat
                else al_arr f e x len 0 n (match prior with VList l => l | _ => [] end) r1
            | CErr _ => 0%nat
            end
          else 0%nat
      | _ => 0%nat
      end
  | TMap kt vt =>
      match skip_to f tMAP tag req bs with
      | Found _ r =>
          match read_count r with
          | COk n r1 => if (n <? 0)%Z || (Z.of_nat (length r1) / 2 <? n)%Z then 0%nat else al_entries f e kt vt n r1
          | CErr _ => 0%nat
          end
      | _ => 0%nat
      end
  | TStruct sid =>
      let prior' := reset_default f e sid prior in
      match skip_to f tSB tag req bs with
      | Found _ r => al_fields f e (fields_of e sid) (match reset_default f e sid prior' with VStruct l => l | _ => [] end) r
      | _ => 0%nat
      end
  | _ => 0%nat
  end end
with al_elems (fuel : nat) (e : env) (x : ty) (n : Z) (bs : list N) {struct fuel} : nat :=
  match fuel with O => 0%nat | S f =>
    if (n <=? 0)%Z then 0%nat else
    (al_var f e 0 true x (zero_of f e x) bs +
     match dec_var f e 0 true x (zero_of f e x) bs with
     | DOk _ r => al_elems f e x (n - 1)%Z r
     | _ => 0
     end)%nat
  end
with al_arr (fuel : nat) (e : env) (x : ty) (len : nat) (i : nat) (n : Z) (cur : list val) (bs : list N) {struct fuel} : nat :=
  match fuel with O => 0%nat | S f =>
    if (n <=? 0)%Z then 0%nat else
    if (len <=? i)%nat then 0%nat else
    (al_var f e 0 true x (nth i cur (zero_of f e x)) bs +
     match dec_var f e 0 true x (nth i cur (zero_of f e x)) bs with
     | DOk v r => al_arr f e x len (S i) (n - 1)%Z (replace_nth i v cur) r
     | _ => 0
     end)%nat
  end
with al_entries (fuel : nat) (e : env) (kt vt : ty) (n : Z) (bs : list N) {struct fuel} : nat :=
  match fuel with O => 0%nat | S f =>
    if (n <=? 0)%Z then 0%nat else
    (al_var f e 0 true kt (zero_of f e kt) bs +
     match dec_var f e 0 true kt (zero_of f e kt) bs with
     | DOk _ r =>
         al_var f e 1 true vt (zero_of f e vt) r +
         match dec_var f e 1 true vt (zero_of f e vt) r with
         | DOk _ r' => 1 + al_entries f e kt vt (n - 1)%Z r'      (* the entry is inserted *)
         | _ => 0
         end
     | _ => 0
     end)%nat
  end
with al_fields (fuel : nat) (e : env) (fds : schema) (priors : list val) (bs : list N) {struct fuel} : nat :=
  match fuel with O => 0%nat | S f =>
    match fds with
    | [] => 0%nat
    | fd :: fds' =>
        let p := match priors with p :: _ => p | [] => zero_of f e (fty fd) end in
        (al_var f e (ftag fd) (freq fd) (fty fd) p bs +
         match dec_var f e (ftag fd) (freq fd) (fty fd) p bs with
         | DOk _ r => al_fields f e fds' (tl priors) r
         | _ => 0
         end)%nat
    end
  end.

(* one ReadFrom of a top-level struct into a target holding [prior] *)
Definition alloc_of (e : env) (sid : nat) (prior : val) (bs : list N) : nat :=
  let fuel := (4 * length bs + 64)%nat in
  al_fields fuel e (fields_of e sid) (match reset_default fuel e sid prior with VStruct l => l | _ => [] end) bs.
