(* C06 struct level, flat structs (all members scalar: bool, integers, floats, strings, enums): decoding any
   proper prefix of an encoding fails, or yields exactly the members completely present with the later
   (optional) members at their defaults. *)
From Coq Require Import List NArith ZArith Lia Bool Arith.
From Coq Require Import ZifyN ZifyNat ZifyBool.
From TarsV Require Import Gen.Consts Base.Hex Codec.Wire Codec.WireProofs Codec.Skip Codec.SkipProofs Codec.Prim
  Codec.PrimProofs Codec.GenCodec Codec.Corr Codec.GenProofs Codec.RoundTrip Codec.RoundTripProofs.
Import ListNotations.
Ltac Zify.zify_post_hook ::= Z.div_mod_to_equations.
Open Scope N_scope.

(* the first byte of a two-byte head on its own *)
Definition halfhead (p : list N) : Prop := exists ty, ty < 16 /\ p = [240 + ty].

Lemma head_proper_prefix ty tg t u : ty < 16 -> head ty tg = t ++ u -> u <> [] -> t = [] \/ (t = [240 + ty] /\ 15 <= tg).
Proof.
  intros Hty E Hu. unfold head in E. destruct (tg <? 15) eqn:Et.
  - destruct t as [|a t]; [now left|]. cbn [app] in E. injection E as Ea Ep. destruct t; [cbn in Ep; congruence|discriminate].
  - destruct t as [|a t]; [now left|]. cbn [app] in E. injection E as Ea Ep. subst a.
    destruct t as [|b t]; [right; split; [reflexivity|lia]|].
    cbn [app] in Ep. injection Ep as Eb Ep. destruct t; [cbn in Ep; congruence|discriminate].
Qed.
Lemma halfhead_none ty : ty < 16 -> read_head2 [240 + ty] = None.
Proof. exact (read_head2_partial ty). Qed.

(* ---------- a present scalar member cut short ---------- *)
Lemma gen_prefix {A} f tag req ty B p q (body : N -> list N -> option (A * list N)) :
  ty < 16 -> tag < 256 -> (ty =? tSE) = false ->
  head ty tag ++ B = p ++ q -> q <> [] -> p <> [] ->
  (forall r q', B = r ++ q' -> q' <> [] -> body ty r = None) ->
  with_seek (S f) tag req p body = RErr \/ (req = false /\ halfhead p /\ with_seek (S f) tag req p body = RAbsent []).
Proof.
  intros Hty Htag Hse E Hq Hp Hb. unfold with_seek.
  destruct (app_prefix_cases _ _ _ _ E) as [(t & Ha & Hq')|(t & Hp' & HB)].
  - destruct t as [|t0 t].
    + rewrite app_nil_r in Ha. subst p. cbn [app] in Hq'. subst q.
      rewrite <- (app_nil_r (head ty tag)), seek_first by assumption.
      rewrite (Hb [] B); [now left|reflexivity|assumption].
    + destruct (head_proper_prefix ty tag p (t0 :: t) Hty Ha ltac:(discriminate)) as [->|[-> Hge]]; [congruence|].
      cbn [skip_to_no_check]. rewrite halfhead_none by assumption.
      destruct req; [now left|]. right. repeat split. exists ty. split; [assumption|reflexivity].
  - subst p. rewrite seek_first by assumption. rewrite (Hb t q HB Hq). now left.
Qed.

Lemma be_prefix_short n x r q' : be n x = r ++ q' -> q' <> [] -> (length r < n)%nat.
Proof.
  intros E Hq. assert (H : length (be n x) = (length r + length q')%nat) by (rewrite E, app_length; reflexivity).
  rewrite be_length in H. destruct q'; [congruence|]. cbn [length] in H. lia.
Qed.

Lemma int_body_short bits ty n r : (ty = tBYTE /\ n = 1%nat) \/ (ty = tSHORT /\ n = 2%nat) \/ (ty = tINT /\ n = 4%nat) \/ (ty = tLONG /\ n = 8%nat) ->
  (length r < n)%nat -> read_int_body bits ty r = None.
Proof.
  intros H Hr. unfold read_int_body. destruct H as [[-> ->]|[[-> ->]|[[-> ->]|[-> ->]]]].
  - destruct r; [reflexivity|cbn [length] in Hr; lia].
  - change (tSHORT =? tZERO) with false. change (tSHORT =? tBYTE) with false. change (tSHORT =? tSHORT) with true.
    change (tSHORT =? tINT) with false. change (tSHORT =? tLONG) with false. cbv iota. cbn [andb].
    destruct (16 <=? bits)%Z; [now rewrite bread_short|reflexivity].
  - change (tINT =? tZERO) with false. change (tINT =? tBYTE) with false. change (tINT =? tSHORT) with false.
    change (tINT =? tINT) with true. change (tINT =? tLONG) with false. cbv iota. cbn [andb].
    destruct (32 <=? bits)%Z; [now rewrite bread_short|reflexivity].
  - change (tLONG =? tZERO) with false. change (tLONG =? tBYTE) with false. change (tLONG =? tSHORT) with false.
    change (tLONG =? tINT) with false. change (tLONG =? tLONG) with true. cbv iota. cbn [andb].
    destruct (64 <=? bits)%Z; [now rewrite bread_short|reflexivity].
Qed.

(* the shape of every integer encoding the cascade can produce *)
Lemma w_int64_shape v tag : exists ty n x, w_int64 v tag = head ty tag ++ be n x /\ ty < 16 /\ (ty =? tSE) = false /\
  (forall bits r, (length r < n)%nat -> read_int_body bits ty r = None).
Proof.
  unfold w_int64, w_int32, w_int16, w_int8.
  destruct ((-2147483648 <=? v) && (v <=? 2147483647))%Z.
  - destruct ((-32768 <=? v) && (v <=? 32767))%Z.
    + destruct ((-128 <=? v) && (v <=? 127))%Z.
      * destruct (v =? 0)%Z.
        -- exists tZERO, 0%nat, 0. cbn [be]. rewrite app_nil_r. repeat split; try reflexivity. intros; lia.
        -- exists tBYTE, 1%nat, (wrapu 8 v). repeat split; try reflexivity.
           ++ cbn [be app]. f_equal. f_equal. symmetry. apply N.mod_small. apply (wrapu_lt 8). lia.
           ++ intros bits r Hr. apply (int_body_short bits tBYTE 1); [now left|assumption].
      * exists tSHORT, 2%nat, (wrapu 16 v). repeat split; try reflexivity.
        intros bits r Hr. apply (int_body_short bits tSHORT 2); [right; now left|assumption].
    + exists tINT, 4%nat, (wrapu 32 v). repeat split; try reflexivity.
      intros bits r Hr. apply (int_body_short bits tINT 4); [right; right; now left|assumption].
  - exists tLONG, 8%nat, (wrapu 64 v). repeat split; try reflexivity.
    intros bits r Hr. apply (int_body_short bits tLONG 8); [right; right; now right|assumption].
Qed.

Lemma int_prefix f bits tag req v p q : tag < 256 -> w_int64 v tag = p ++ q -> q <> [] -> p <> [] ->
  r_int bits (S f) tag req p = RErr \/ (req = false /\ halfhead p /\ r_int bits (S f) tag req p = RAbsent []).
Proof.
  intros Htag E Hq Hp. destruct (w_int64_shape v tag) as (ty & n & x & Ew & Hty & Hse & Hshort). rewrite Ew in E.
  unfold r_int. apply (gen_prefix f tag req ty (be n x) p q); try assumption.
  intros r q' Eb Hq'. apply Hshort. now apply (be_prefix_short n x r q').
Qed.

Definition rabs {A} (req : bool) (p : list N) (r : rres A) : Prop :=
  r = RErr \/ (req = false /\ halfhead p /\ r = RAbsent []).
Lemma rabs_map {A B} (g : A -> B) req p r : rabs req p r -> rabs req p (map_r g r).
Proof. intros [->|(A1 & A2 & ->)]; [now left|right; repeat split; assumption]. Qed.
Lemma rabs_of {A} req p (r : rres A) prior inj : rabs req p r ->
  of_rres r prior inj = DErr \/ (req = false /\ halfhead p /\ of_rres r prior inj = DOk prior []).
Proof. intros [->|(A1 & A2 & ->)]; [now left|right; repeat split; assumption]. Qed.

Lemma take_str_short l s : N.of_nat (length s) < l -> take_str l s = None.
Proof. exact (take_str_truncated l s). Qed.

(* every scalar member: a non-empty proper prefix of its encoding is an error, except that the first byte of a
   two-byte head on its own is ignored when the member is optional (the member is then absent) *)
Lemma scalar_prefix f tag req t v prior p q : scalar_ty t = true -> sc_typed t v -> tag < 256 ->
  w_scalar t v tag = p ++ q -> q <> [] -> p <> [] ->
  dec_scalar (S f) tag req t prior p = DErr \/ (req = false /\ halfhead p /\ dec_scalar (S f) tag req t prior p = DOk prior []).
Proof.
  intros Hsc Hty Htag E Hq Hp.
  destruct t; try discriminate; destruct v; cbn [sc_typed] in Hty; try contradiction; cbn [w_scalar dec_scalar] in *;
    unfold r_bool, r_int8, r_uint8, r_int16, r_uint16, r_int32, r_uint32, r_int64, w_bool, w_uint8, w_uint16, w_uint32 in *.
  - apply rabs_of, rabs_map. rewrite w_int8_64 in E by (destruct b; reflexivity). exact (int_prefix f 8 tag req _ p q Htag E Hq Hp).
  - apply rabs_of. rewrite w_int8_64 in E by assumption. exact (int_prefix f 8 tag req _ p q Htag E Hq Hp).
  - apply rabs_of, rabs_map. rewrite w_int16_64 in E by fits_tac. exact (int_prefix f 16 tag req _ p q Htag E Hq Hp).
  - apply rabs_of. rewrite w_int16_64 in E by assumption. exact (int_prefix f 16 tag req _ p q Htag E Hq Hp).
  - apply rabs_of, rabs_map. rewrite w_int32_64 in E by fits_tac. exact (int_prefix f 32 tag req _ p q Htag E Hq Hp).
  - apply rabs_of. rewrite w_int32_64 in E by assumption. exact (int_prefix f 32 tag req _ p q Htag E Hq Hp).
  - apply rabs_of, rabs_map. exact (int_prefix f 64 tag req _ p q Htag E Hq Hp).
  - apply rabs_of. exact (int_prefix f 64 tag req _ p q Htag E Hq Hp).
  - apply rabs_of. unfold r_f32, w_f32 in *. apply (gen_prefix f tag req tFLOAT (be 4 bits) p q); try assumption; try reflexivity.
    intros r q' Eb Hq'. unfold read_f32_body. change (tFLOAT =? tZERO) with false. change (tFLOAT =? tFLOAT) with true. cbv iota.
    apply bread_short. now apply (be_prefix_short 4 bits r q').
  - apply rabs_of. unfold r_f64, w_f64 in *. apply (gen_prefix f tag req tDOUBLE (be 8 bits) p q); try assumption; try reflexivity.
    intros r q' Eb Hq'. unfold read_f64_body. change (tDOUBLE =? tZERO) with false. change (tDOUBLE =? tFLOAT) with false.
    change (tDOUBLE =? tDOUBLE) with true. cbv iota. apply bread_short. now apply (be_prefix_short 8 bits r q').
  - apply rabs_of. unfold r_string, w_string in *. cbv zeta in E. destruct (255 <? N.of_nat (length s)) eqn:El.
    + apply (gen_prefix f tag req tSTR4 (be 4 (N.of_nat (length s) mod 4294967296) ++ s) p q); try assumption; try reflexivity.
      intros r q' Eb Hq'. unfold read_string_body. change (tSTR4 =? tSTR4) with true. cbv iota.
      rewrite N.mod_small in Eb by assumption.
      destruct (app_prefix_cases _ _ _ _ Eb) as [(u & Ha & Hu)|(u & Hr & Hs)].
      * destruct u as [|u0 u].
        -- rewrite app_nil_r in Ha. subst r. rewrite <- (app_nil_r (be 4 _)). rewrite bread_be by (cbn; lia).
           apply take_str_short. cbn [length]. lia.
        -- rewrite bread_short; [reflexivity|]. apply (be_prefix_short 4 (N.of_nat (length s)) r (u0 :: u)); [assumption|discriminate].
      * subst r. rewrite bread_be by (cbn; lia). apply take_str_short.
        assert (length s = length u + length q')%nat by (rewrite Hs, app_length; reflexivity).
        destruct q'; [congruence|]. cbn [length] in *. lia.
    + apply (gen_prefix f tag req tSTR1 ([N.of_nat (length s)] ++ s) p q); try assumption; try reflexivity.
      intros r q' Eb Hq'. unfold read_string_body. change (tSTR1 =? tSTR4) with false. change (tSTR1 =? tSTR1) with true. cbv iota.
      destruct r as [|l r]; [reflexivity|]. cbn [app] in Eb. injection Eb as El' Es. subst l.
      apply take_str_short. assert (length s = length r + length q')%nat by (rewrite Es, app_length; reflexivity).
      destruct q'; [congruence|]. cbn [length] in *. lia.
  - apply rabs_of. rewrite w_int32_64 in E by assumption. exact (int_prefix f 32 tag req _ p q Htag E Hq Hp).
Qed.

(* ---------- members on an exhausted input ---------- *)
Definition flat (fds : schema) : Prop := Forall (fun fd => scalar_ty (fty fd) = true) fds.
Definition optional (fds : schema) : Prop := Forall (fun fd => freq fd = false) fds.

Lemma dec_scalar_nil f tag req t prior : scalar_ty t = true ->
  dec_scalar (S f) tag req t prior [] = if req then DErr else DOk prior [].
Proof.
  intros Ht. unfold dec_scalar, r_bool, r_int8, r_uint8, r_int16, r_uint16, r_int32, r_uint32, r_int64, r_int, r_f32, r_f64,
    r_string, with_seek.
  destruct t; try discriminate; destruct req; reflexivity.
Qed.

Lemma fields_on_nil e : forall fds ps fuel, flat fds -> length ps = length fds -> (length fds + 3 <= fuel)%nat ->
  dec_fields fuel e fds ps [] = DErr \/ (dec_fields fuel e fds ps [] = DOk ps [] /\ optional fds).
Proof.
  induction fds as [|fd fds IH]; intros ps fuel Hfl Hl Hf.
  - destruct ps; [|discriminate]. destruct fuel; [lia|]. right. split; [reflexivity|constructor].
  - destruct ps as [|p ps]; [discriminate|]. inversion Hfl as [|? ? Hsc Hfl']; subst. cbn [length] in *.
    destruct fuel as [|f]; [lia|]. rewrite dec_fields_S. cbv zeta. cbn [tl].
    destruct f as [|f]; [lia|]. rewrite dec_var_scalar by assumption.
    destruct f as [|f]; [lia|]. rewrite dec_scalar_nil by assumption.
    destruct (freq fd) eqn:Er; [now left|].
    destruct (IH ps (S (S f)) Hfl' ltac:(lia) ltac:(lia)) as [->|[-> Ho]]; [now left|].
    right. split; [reflexivity|]. constructor; assumption.
Qed.

(* ---------- an omitted optional member in front of a cut tail ---------- *)
Lemma pre_follows f tag E t q : follows tag E -> E = t ++ q ->
  skip_to_no_check (S f) tag false t = NotFound t \/ (halfhead t /\ skip_to_no_check (S f) tag false t = NotFound []).
Proof.
  intros Hfo HE. destruct Hfo as [->|(ty & tg & r & Hty & Htg & -> & Hc)].
  - destruct t; [now left|discriminate].
  - symmetry in HE. destruct (app_prefix_cases _ _ _ _ HE) as [(u & Hp' & HB)|(u & Ha & Hq')].
    + (* t = head ++ u *) left. apply seek_stop. right. exists ty, tg, u. repeat split; assumption.
    + destruct u as [|u0 u].
      * rewrite app_nil_r in Ha. left. apply seek_stop. right. exists ty, tg, []. rewrite app_nil_r. repeat split; auto.
      * destruct (head_proper_prefix ty tg t (u0 :: u) Hty Ha ltac:(discriminate)) as [->|[-> Hge]]; [now left|].
        right. split; [exists ty; split; [assumption|reflexivity]|].
        cbn [skip_to_no_check]. now rewrite halfhead_none.
Qed.

Lemma omitted_norm e t req d v prior : scalar_ty t = true -> sc_typed t v -> prior_ok e t d prior ->
  omit t req d v = true -> norm e t req d v = prior.
Proof.
  intros Hsc Hty Hp Ho. rewrite norm_scalar by assumption. rewrite Ho. unfold prior_ok in Hp.
  destruct d; [now symmetry|]. symmetry. now apply (zlike_scalar e).
Qed.

Lemma firstn_S_cons {A} n (x : A) l : firstn (S n) (x :: l) = x :: firstn n l.
Proof. reflexivity. Qed.

Ltac split5 := split; [|split; [|split; [|split]]].

Section Prefix.
Variable e : env.

(* the result for a prefix p of the encoding of vs: an error, or the members completely present (the first i)
   followed by the target's values for the others, which are all optional *)
Definition prefix_ok (fds : schema) (vs ps : list val) (p : list N) (res : dres (list val)) : Prop :=
  res = DErr \/
  exists i h, (i <= length fds)%nat /\ p = enc_fields e (firstn i vs) (firstn i fds) ++ h /\ (h = [] \/ halfhead h) /\
              optional (skipn i fds) /\ res = DOk (firstn i (norm_fields e vs fds) ++ skipn i ps) [].

Lemma prefix_fields : forall fds vs ps p q lo fuel,
  Forall2 (fun fd x => has_type e (fty fd) x) fds vs -> flat fds -> asc_opt lo fds ->
  Forall2 (fun fd p => prior_ok e (fty fd) (fdef fd) p) fds ps ->
  enc_fields e vs fds = p ++ q -> (length fds + 4 <= fuel)%nat ->
  prefix_ok fds vs ps p (dec_fields fuel e fds ps p).
Proof.
  induction fds as [|fd fds IH]; intros vs ps p q lo fuel Hty Hfl Hasc Hps HE Hf.
  - inversion Hty; subst. inversion Hps; subst. cbn [enc_fields] in HE. destruct p; [|discriminate].
    destruct fuel; [lia|]. right. exists 0%nat, []. split5; [cbn; lia|reflexivity|now left|constructor|reflexivity].
  - inversion Hty as [|? x ? vs' Hx Hvs]; subst. inversion Hps as [|? p0 ? ps' Hp0 Hps']; subst.
    inversion Hfl as [|? ? Hsc Hfl']; subst.
    assert (H256 : ftag fd < 256 /\ ascending (ftag fd) fds).
    { destruct lo; cbn [asc_opt schema_ascending ascending] in Hasc; tauto. }
    destruct H256 as [H256 Hasc'].
    assert (Hsx : sc_typed (fty fd) x).
    { inversion Hx; subst; try assumption; rewrite <- ?H in Hsc; try discriminate;
      match goal with H : _ = fty fd |- _ => rewrite <- H in Hsc; discriminate end. }
    cbn [enc_fields length] in *.
    destruct fuel as [|f]; [lia|]. rewrite dec_fields_S. cbv zeta. cbn [tl].
    destruct f as [|f]; [lia|]. rewrite dec_var_scalar by assumption.
    destruct f as [|f]; [lia|].
    assert (Hlen : length ps' = length fds) by (symmetry; now apply Forall2_len in Hps').
    rewrite enc_var_scalar in HE by assumption.
    destruct (omit (fty fd) (freq fd) (fdef fd) x) eqn:Eo.
    + (* omitted: the member is absent whatever follows *)
      cbn [app] in HE. assert (Hreq : freq fd = false) by (unfold omit in Eo; destruct (fty fd); destruct (freq fd); cbn in Eo; congruence).
      rewrite Hreq in *.
      assert (Hfo : follows (ftag fd) (enc_fields e vs' fds)) by (now apply enc_fields_follows).
      assert (Henc0 : enc_var e (ftag fd) false (fty fd) (fdef fd) x = []) by (rewrite enc_var_scalar, Eo by assumption; reflexivity).
      assert (Hn0 : norm e (fty fd) false (fdef fd) x = p0) by (now apply omitted_norm).
      assert (Hd : dec_scalar (S f) (ftag fd) false (fty fd) p0 p = DOk p0 p \/
                   (halfhead p /\ dec_scalar (S f) (ftag fd) false (fty fd) p0 p = DOk p0 [])).
      { unfold dec_scalar, r_bool, r_int8, r_uint8, r_int16, r_uint16, r_int32, r_uint32, r_int64, r_int, r_f32, r_f64, r_string.
        destruct (fty fd); try discriminate;
        unfold with_seek; destruct (pre_follows f (ftag fd) _ p q Hfo HE) as [->|[Hh ->]]; (left; reflexivity) || (right; split; [assumption|reflexivity]). }
      destruct Hd as [->|[Hh ->]].
      * specialize (IH vs' ps' p q (Some (ftag fd)) (S (S f)) Hvs Hfl' Hasc' Hps' HE ltac:(lia)).
        destruct IH as [->|(i & h & Hi & Hp & Hh & Ho & ->)]; [now left|].
        right. exists (S i), h. split5; [cbn [length]; lia| |assumption|assumption|].
        -- cbn [firstn enc_fields]. rewrite Hreq, Henc0. exact Hp.
        -- cbn [norm_fields firstn skipn app]. now rewrite Hreq, Hn0.
      * destruct (fields_on_nil e fds ps' (S (S f)) Hfl' Hlen ltac:(lia)) as [->|[-> Ho]]; [now left|].
        right. exists 1%nat, p. split5; [cbn [length]; lia| |now right|exact Ho|].
        -- cbn [firstn enc_fields]. now rewrite Hreq, Henc0.
        -- cbn [norm_fields firstn skipn app]. now rewrite Hreq, Hn0.
    + (* written *)
      assert (Henc1 : enc_var e (ftag fd) (freq fd) (fty fd) (fdef fd) x = w_scalar (fty fd) x (ftag fd))
        by (rewrite enc_var_scalar, Eo by assumption; reflexivity).
      assert (Hn1 : norm e (fty fd) (freq fd) (fdef fd) x = x) by (rewrite norm_scalar, Eo by assumption; reflexivity).
      destruct (app_prefix_cases _ _ _ _ HE) as [(t & Ha & Hq')|(t & Hp' & HB)].
      * destruct t as [|t0 t].
        -- (* the member is exactly complete *)
           rewrite app_nil_r in Ha. subst p. cbn [app] in Hq'. subst q.
           rewrite <- (app_nil_r (w_scalar _ _ _)). rewrite <- (dec_var_scalar (S f) e) by assumption.
           rewrite (scalar_member_roundtrip f e) by assumption.
           destruct (fields_on_nil e fds ps' (S (S f)) Hfl' Hlen ltac:(lia)) as [->|[-> Ho]]; [now left|].
           right. exists 1%nat, []. split5; [cbn [length]; lia| |now left|exact Ho|].
           ++ cbn [firstn enc_fields]. now rewrite Henc1, !app_nil_r.
           ++ cbn [norm_fields firstn skipn app]. now rewrite Hn1.
        -- (* cut inside the member *)
           destruct p as [|b p].
           ++ rewrite dec_scalar_nil by assumption. destruct (freq fd) eqn:Er; [now left|].
              destruct (fields_on_nil e fds ps' (S (S f)) Hfl' Hlen ltac:(lia)) as [->|[-> Ho]]; [now left|].
              right. exists 0%nat, []. split5; [lia|reflexivity|now left| |reflexivity].
              cbn [skipn]. constructor; assumption.
           ++ destruct (scalar_prefix f (ftag fd) (freq fd) (fty fd) x p0 (b :: p) (t0 :: t) Hsc Hsx H256 Ha ltac:(discriminate) ltac:(discriminate))
                as [->|(Er & Hh & ->)]; [now left|].
              destruct (fields_on_nil e fds ps' (S (S f)) Hfl' Hlen ltac:(lia)) as [->|[-> Ho]]; [now left|].
              right. exists 0%nat, (b :: p). split5; [lia|reflexivity|now right| |reflexivity].
              cbn [skipn]. constructor; assumption.
      * (* the member is complete, the cut is later *)
        subst p. rewrite <- (dec_var_scalar (S f) e) by assumption.
        rewrite (scalar_member_roundtrip f e) by assumption.
        specialize (IH vs' ps' t q (Some (ftag fd)) (S (S f)) Hvs Hfl' Hasc' Hps' HB ltac:(lia)).
        destruct IH as [->|(i & h & Hi & Hp & Hh & Ho & ->)]; [now left|].
        right. exists (S i), h. split5; [cbn [length]; lia| |assumption|assumption|].
        -- cbn [firstn enc_fields]. rewrite Henc1, Hp. now rewrite app_assoc.
        -- cbn [norm_fields firstn skipn app]. now rewrite Hn1.
Qed.
End Prefix.

(* C06, flat structs: every prefix p of the encoding of a well-typed value decodes to an error, or to exactly
   the first i members (those completely present in p; p is their encoding possibly followed by the first byte
   of a two-byte head, which is ignored) with all later members optional and at their reset values (declared
   default, else zero) *)
Theorem prefix_flat e k sid vs p q :
  wf_schema k e -> (S k <= 64)%nat -> flat (fields_of e sid) -> (length (fields_of e sid) + 4 <= 64)%nat ->
  has_type e (TStruct sid) (VStruct vs) -> encode e sid (VStruct vs) = p ++ q ->
  decode e sid p = DErr \/
  exists i h ps, (i <= length (fields_of e sid))%nat /\
    p = enc_fields e (firstn i vs) (firstn i (fields_of e sid)) ++ h /\ (h = [] \/ halfhead h) /\
    optional (skipn i (fields_of e sid)) /\
    Forall2 (fun fd p => prior_ok e (fty fd) (fdef fd) p) (fields_of e sid) ps /\
    decode e sid p = DOk (VStruct (firstn i (norm_fields e vs (fields_of e sid)) ++ skipn i ps)) [].
Proof.
  intros Hwf Hk Hfl Hn Hty HE. unfold decode, decode_into.
  replace (4 * length p + 64)%nat with (S (4 * length p + 63)) by lia.
  destruct (struct_priors1 e k (4 * length p + 63) sid (zero_struct e sid) Hwf ltac:(lia)) as (ps & -> & Hps).
  rewrite encode_fields in HE. inversion Hty as [| | | | |? ? Hvs]; subst; [discriminate|].
  pose proof (prefix_fields e (fields_of e sid) vs ps p q None (S (4 * length p + 63)) Hvs Hfl (wf_asc k e Hwf sid) Hps HE ltac:(lia)) as H.
  destruct H as [->|(i & h & Hi & Hp & Hh & Ho & ->)]; [now left|].
  right. exists i, h, ps. repeat (split; [assumption|]). reflexivity.
Qed.
Print Assumptions prefix_flat.

(* ================= inadmissible wire types ================= *)
Lemma read_int_body_inadm bits ty r : adm_int bits ty = false -> read_int_body bits ty r = None.
Proof.
  unfold adm_int, read_int_body. intros H.
  destruct (ty =? tZERO); [discriminate|]. destruct (ty =? tBYTE); [discriminate|]. cbn [orb] in H.
  destruct ((ty =? tSHORT) && (16 <=? bits)%Z); [discriminate|].
  destruct ((ty =? tINT) && (32 <=? bits)%Z); [discriminate|].
  destruct ((ty =? tLONG) && (64 <=? bits)%Z); [discriminate|]. reflexivity.
Qed.

(* a present member (behind any unknown fields) whose wire type the reader of its IDL type does not accept *)
Theorem inadmissible_member e f tag req t prior lo J ty r :
  junk_ok lo tag J -> ty < 16 -> tag < 256 -> (ty =? tSE) = false -> adm t ty = false ->
  (2 * length (ser_fields J ++ head ty tag ++ r) + 3 <= f)%nat ->
  dec_var (S f) e tag req t prior (ser_fields J ++ head ty tag ++ r) = DErr.
Proof.
  intros HJ Hty Htag Hse Hadm Hf.
  assert (Hs : skip_to_no_check f tag req (ser_fields J ++ head ty tag ++ r) = Found ty r).
  { rewrite (seek_junk J f lo) by assumption. destruct (fuel_sub J (head ty tag ++ r) f Hf) as (f' & -> & _).
    now apply seek_first. }
  destruct t; cbn [adm] in Hadm;
    try (rewrite dec_var_scalar by reflexivity;
         unfold dec_scalar, r_bool, r_int8, r_uint8, r_int16, r_uint16, r_int32, r_uint32, r_int64, r_int, r_f32, r_f64, r_string, with_seek;
         rewrite Hs; try (rewrite read_int_body_inadm by assumption; reflexivity)).
  - unfold read_f32_body. apply orb_false_iff in Hadm. destruct Hadm as [-> ->]. reflexivity.
  - unfold read_f64_body. apply orb_false_iff in Hadm. destruct Hadm as [Hadm ->]. apply orb_false_iff in Hadm. destruct Hadm as [-> ->]. reflexivity.
  - unfold read_string_body. apply orb_false_iff in Hadm. destruct Hadm as [-> ->]. reflexivity.
  - rewrite dec_var_vec, Hs. apply orb_false_iff in Hadm. destruct Hadm as [-> Hadm].
    destruct (ty =? tSIMPLE); [|reflexivity]. cbn [andb] in Hadm. now rewrite Hadm.
  - rewrite dec_var_map. unfold skip_to. now rewrite Hs, Hadm.
  - rewrite dec_var_arr, Hs. now rewrite Hadm.
  - rewrite dec_var_struct. cbv zeta. unfold skip_to. now rewrite Hs, Hadm.
Qed.

(* struct level: the members before it encoded normally, then a field under the member's tag with an
   inadmissible wire type and anything after it: rejected *)
Theorem inadmissible_rejected e k n sid fds1 fd fds2 vs1 ty r :
  wf_schema k e -> (S k <= 64)%nat -> fields_of e sid = fds1 ++ fd :: fds2 ->
  Forall2 (fun fd x => has_type e (fty fd) x) fds1 vs1 ->
  ty < 16 -> (ty =? tSE) = false -> adm (fty fd) ty = false ->
  tfin n e (TStruct sid) = true -> (tneed n e (TStruct sid) + k <= 64)%nat ->
  decode e sid (enc_fields e vs1 fds1 ++ head ty (ftag fd) ++ r) = DErr.
Proof.
  intros Hwf Hk Hsid H1 Hty Hse Hadm Hfin Hn.
  assert (H256 : ftag fd < 256).
  { pose proof (wf_asc k e Hwf sid) as Hasc. rewrite Hsid in Hasc. destruct fds1 as [|x a]; cbn [app schema_ascending] in Hasc; [tauto|].
    destruct Hasc as [_ Hasc]. apply ascending_app_mid in Hasc. tauto. }
  pose proof (wf_asc k e Hwf sid) as Hasc. rewrite Hsid in Hasc.
  apply (struct_member_error e k n sid fds1 fd fds2); try assumption.
  - intros f' prior Hf'. destruct f' as [|f'']; [lia|].
    pose proof (inadmissible_member e f'' (ftag fd) (freq fd) (fty fd) prior None [] ty r (junk_nil None (ftag fd)) Hty H256 Hse Hadm) as H9.
    cbn [ser_fields app] in H9. apply H9. lia.
  - intros fd1 Hin. right. exists ty, (ftag fd), r. repeat split; try assumption. right.
    destruct fds1 as [|x a]; [contradiction|]. cbn [app schema_ascending] in Hasc. destruct Hasc as [_ Hasc].
    destruct Hin as [->|Hin].
    + apply (ascending_all_gt _ _ Hasc). apply in_or_app. right. now left.
    + now apply (ascending_before fd fds2 fd1 a _ Hasc).
Qed.
Print Assumptions inadmissible_member.
Print Assumptions inadmissible_rejected.

(* ================= inflated embedded lengths ================= *)
(* a string member whose length field (1-byte or 4-byte form) announces more than what is left of the input *)
Theorem inflated_string_member e f tag req prior lo J (four : bool) l r :
  junk_ok lo tag J -> tag < 256 -> N.of_nat (length r) < l -> l < (if four then 4294967296 else 256) ->
  let field := (if four then head tSTR4 tag ++ be 4 l else head tSTR1 tag ++ [l]) ++ r in
  (2 * length (ser_fields J ++ field) + 3 <= f)%nat ->
  dec_var (S f) e tag req TStr prior (ser_fields J ++ field) = DErr.
Proof.
  intros HJ Htag Hl Hl2 field Hf. subst field. rewrite dec_var_scalar by reflexivity.
  unfold dec_scalar, r_string, with_seek. rewrite (seek_junk J f lo) by assumption.
  destruct (fuel_sub J _ f Hf) as (f' & -> & _). destruct four; rewrite <- !app_assoc; rewrite seek_first by (reflexivity || assumption);
    unfold read_string_body.
  - change (tSTR4 =? tSTR4) with true. cbv iota. rewrite bread_be by (cbn; lia). now rewrite take_str_truncated.
  - change (tSTR1 =? tSTR4) with false. change (tSTR1 =? tSTR1) with true. cbv iota. cbn [app]. now rewrite take_str_truncated.
Qed.
(* a byte-vector member (SimpleList) whose count announces more than what is left *)
Theorem inflated_bytes_member e f tag req x prior lo J n r :
  junk_ok lo tag J -> tag < 256 -> is_byte x = true -> (length r < n)%nat -> N.of_nat n < 2147483648 ->
  let field := head tSIMPLE tag ++ head tBYTE 0 ++ w_int32 (Z.of_nat n) 0 ++ r in
  (2 * length (ser_fields J ++ field) + 3 <= f)%nat ->
  dec_var (S f) e tag req (TVec x) prior (ser_fields J ++ field) = DErr.
Proof.
  intros HJ Htag Hb Hl Hn field Hf. subst field. rewrite dec_var_vec. rewrite (seek_junk J f lo) by assumption.
  destruct (fuel_sub J _ f Hf) as (f' & -> & _). rewrite seek_first by (reflexivity || assumption).
  change (tSIMPLE =? tLIST) with false. change (tSIMPLE =? tSIMPLE) with true. cbv iota. rewrite Hb.
  unfold skip_to. destruct f as [|f0]; [lia|]. rewrite seek_first by (reflexivity || lia).
  change (tBYTE =? tBYTE) with true. cbv iota. rewrite read_count_len by assumption.
  rewrite read_slice_truncated by lia. reflexivity.
Qed.
(* a LIST member whose count announces more elements than bytes are left (every element takes at least one
   byte): refused before anything is allocated or decoded *)
Theorem inflated_list_member e f tag req x prior lo J n r :
  junk_ok lo tag J -> tag < 256 -> (length r < n)%nat -> N.of_nat n < 2147483648 ->
  let field := head tLIST tag ++ w_int32 (Z.of_nat n) 0 ++ r in
  (2 * length (ser_fields J ++ field) + 3 <= f)%nat ->
  dec_var (S f) e tag req (TVec x) prior (ser_fields J ++ field) = DErr.
Proof.
  intros HJ Htag Hl Hn field Hf. subst field. rewrite dec_var_vec. rewrite (seek_junk J f lo) by assumption.
  destruct (fuel_sub J _ f Hf) as (f' & -> & _). rewrite seek_first by (reflexivity || assumption).
  change (tLIST =? tLIST) with true. cbv iota. rewrite read_count_len by assumption.
  destruct (Z.of_nat n <? 0)%Z eqn:E1; [lia|].
  destruct (Z.of_nat (length r) <? Z.of_nat n)%Z eqn:E2; [reflexivity|lia].
Qed.
(* a MAP member whose count announces more entries than half the bytes left (every entry takes at least two) *)
Theorem inflated_map_member e f tag req kt vt prior lo J n r :
  junk_ok lo tag J -> tag < 256 -> (length r < 2 * n)%nat -> N.of_nat n < 2147483648 ->
  let field := head tMAP tag ++ w_int32 (Z.of_nat n) 0 ++ r in
  (2 * length (ser_fields J ++ field) + 3 <= f)%nat ->
  dec_var (S f) e tag req (TMap kt vt) prior (ser_fields J ++ field) = DErr.
Proof.
  intros HJ Htag Hl Hn field Hf. subst field. rewrite dec_var_map. unfold skip_to. rewrite (seek_junk J f lo) by assumption.
  destruct (fuel_sub J _ f Hf) as (f' & -> & _). rewrite seek_first by (reflexivity || assumption).
  change (tMAP =? tMAP) with true. cbv iota. rewrite read_count_len by assumption.
  replace ((Z.of_nat n <? 0)%Z || (Z.of_nat (length r) / 2 <? Z.of_nat n)%Z) with true by lia. reflexivity.
Qed.
(* a fixed-array member whose count exceeds the array's length: refused (the pinned code indexed past the end) *)
Theorem array_count_member e f tag req len x prior lo J n r :
  junk_ok lo tag J -> tag < 256 -> (len < n)%nat -> N.of_nat n < 2147483648 ->
  let field := head tLIST tag ++ w_int32 (Z.of_nat n) 0 ++ r in
  (2 * length (ser_fields J ++ field) + 3 <= f)%nat ->
  dec_var (S f) e tag req (TArr len x) prior (ser_fields J ++ field) = DErr.
Proof.
  intros HJ Htag Hl Hn field Hf. subst field. rewrite dec_var_arr. rewrite (seek_junk J f lo) by assumption.
  destruct (fuel_sub J _ f Hf) as (f' & -> & _). rewrite seek_first by (reflexivity || assumption).
  change (tLIST =? tLIST) with true. cbv iota. rewrite read_count_len by assumption.
  replace ((Z.of_nat n <? 0)%Z || (Z.of_nat len <? Z.of_nat n)%Z) with true by lia. reflexivity.
Qed.

(* struct level: the members before it encoded normally, then a string member whose length exceeds what is left *)
Theorem inflated_string_rejected e k n sid fds1 fd fds2 vs1 (four : bool) l r :
  wf_schema k e -> (S k <= 64)%nat -> fields_of e sid = fds1 ++ fd :: fds2 -> fty fd = TStr ->
  Forall2 (fun fd x => has_type e (fty fd) x) fds1 vs1 ->
  N.of_nat (length r) < l -> l < (if four then 4294967296 else 256) ->
  tfin n e (TStruct sid) = true -> (tneed n e (TStruct sid) + k <= 64)%nat ->
  decode e sid (enc_fields e vs1 fds1 ++ (if four then head tSTR4 (ftag fd) ++ be 4 l else head tSTR1 (ftag fd) ++ [l]) ++ r) = DErr.
Proof.
  intros Hwf Hk Hsid Hstr H1 Hl Hl2 Hfin Hn.
  pose proof (wf_asc k e Hwf sid) as Hasc. rewrite Hsid in Hasc.
  assert (H256 : ftag fd < 256).
  { destruct fds1 as [|x a]; cbn [app schema_ascending] in Hasc; [tauto|]. destruct Hasc as [_ Hasc]. apply ascending_app_mid in Hasc. tauto. }
  apply (struct_member_error e k n sid fds1 fd fds2); try assumption.
  - intros f' prior Hf'. destruct f' as [|f'']; [lia|]. rewrite Hstr.
    pose proof (inflated_string_member e f'' (ftag fd) (freq fd) prior None [] four l r (junk_nil None (ftag fd)) H256 Hl Hl2) as H9.
    cbn [ser_fields app] in H9. apply H9. lia.
  - intros fd1 Hin. right.
    assert (Hlt : ftag fd1 < ftag fd).
    { destruct fds1 as [|x a]; [contradiction|]. cbn [app schema_ascending] in Hasc. destruct Hasc as [_ Hasc].
      destruct Hin as [->|Hin]; [apply (ascending_all_gt _ _ Hasc); apply in_or_app; right; now left|now apply (ascending_before fd fds2 fd1 a _ Hasc)]. }
    destruct four.
    + exists tSTR4, (ftag fd), (be 4 l ++ r). split; [reflexivity|]. split; [assumption|]. split; [now rewrite <- app_assoc|now right].
    + exists tSTR1, (ftag fd), ([l] ++ r). split; [reflexivity|]. split; [assumption|]. split; [now rewrite <- app_assoc|now right].
Qed.
Print Assumptions inflated_string_member.
Print Assumptions inflated_bytes_member.
Print Assumptions inflated_list_member.
Print Assumptions inflated_map_member.
Print Assumptions array_count_member.
Print Assumptions inflated_string_rejected.
