(* C06 "never decoded into made-up data", typing half: whatever the bytes, a value the decoder returns is a value of
   the IDL type (integers within the range of their Go type, float bit patterns of the right width, containers of
   typed elements with counts the format can express, fixed arrays of the declared length, struct members typed by
   the schema). With it, C03's canonicity becomes exact: decode-then-encode is the identity on an accepted input
   exactly when the input is an image of the encoder. *)
From Coq Require Import List NArith ZArith Lia Bool Arith.
From Coq Require Import ZifyN ZifyNat ZifyBool.
From TarsV Require Import Gen.Consts Base.Hex Codec.Wire Codec.WireProofs Codec.Skip Codec.SkipProofs Codec.Prim
  Codec.PrimProofs Codec.GenCodec Codec.Corr Codec.GenProofs Codec.RoundTrip Codec.RoundTripProofs Codec.TotalProofs
  Codec.FloatWiden Codec.NormProofs Codec.CanonProofs.
Import ListNotations.
Ltac Zify.zify_post_hook ::= Z.div_mod_to_equations.
Open Scope N_scope.

(* ---------- every reader returns a suffix of its input ---------- *)
Definition sfx (r bs : list N) : Prop := exists p, bs = p ++ r.
Lemma sfx_refl bs : sfx bs bs. Proof. now exists []. Qed.
Lemma sfx_nil bs : sfx [] bs. Proof. exists bs. now rewrite app_nil_r. Qed.
Lemma sfx_trans a b c : sfx a b -> sfx b c -> sfx a c.
Proof. intros [p ->] [q ->]. exists (q ++ p). now rewrite app_assoc. Qed.
Lemma sfx_cons b r : sfx r (b :: r). Proof. now exists [b]. Qed.
Lemma sfx_skipn n bs : sfx (skipn n bs) bs. Proof. exists (firstn n bs). symmetry. apply firstn_skipn. Qed.
Lemma sfx_tl bs : sfx (tl bs) bs. Proof. destruct bs; [apply sfx_refl|apply sfx_cons]. Qed.
Lemma sfx_Forall (P : N -> Prop) r bs : sfx r bs -> Forall P bs -> Forall P r.
Proof. intros [p ->] H. apply Forall_app in H. tauto. Qed.
Lemma sfx_len r bs : sfx r bs -> (length r <= length bs)%nat.
Proof. intros [p ->]. rewrite app_length. lia. Qed.
Lemma sfx_drop n bs : sfx (drop n bs) bs.
Proof. unfold drop. destruct (_ <=? _); [apply sfx_nil|apply sfx_skipn]. Qed.

Lemma read_head2_sfx bs ty tg r two : read_head2 bs = Some (ty, tg, r, two) -> sfx r bs.
Proof.
  unfold read_head2. destruct bs as [|b r0]; [discriminate|].
  destruct (b / 16 =? 15); [destruct r0 as [|t r1]; [discriminate|]|]; intros H; inversion H; subst.
  - eexists [_; _]. reflexivity.
  - apply sfx_cons.
Qed.
Lemma read_head_sfx bs ty tg r : read_head bs = Some (ty, tg, r) -> sfx r bs.
Proof.
  unfold read_head. destruct (read_head2 bs) as [[[[a b] c] d]|] eqn:E; [|discriminate].
  intros H; inversion H; subst. eapply read_head2_sfx; eauto.
Qed.
Lemma bread_sfx n bs v r : bread n bs = Some (v, r) -> sfx r bs /\ v = be_val 0 (firstn n bs) /\ (n <= length bs)%nat.
Proof.
  unfold bread. destruct (n <=? length bs)%nat eqn:E; [|discriminate]. intros H; inversion H; subst.
  apply Nat.leb_le in E. repeat split; [apply sfx_skipn|assumption].
Qed.
Lemma read_count_sfx bs : match read_count bs with COk _ r => sfx r bs | CErr r => sfx r bs end.
Proof.
  unfold read_count. destruct (read_head bs) as [[[ty tg] r]|] eqn:E; [|apply sfx_nil].
  apply read_head_sfx in E.
  destruct (negb (tg =? 0) || (ty =? tSE)); [assumption|].
  destruct (ty =? tZERO); [assumption|].
  destruct (ty =? tBYTE). { destruct r as [|b r']; [apply sfx_nil|]. eapply sfx_trans; [apply sfx_cons|eassumption]. }
  destruct (ty =? tSHORT). { destruct (bread 2 r) as [[v r']|] eqn:B; [|apply sfx_nil]. apply bread_sfx in B. eapply sfx_trans; [apply B|assumption]. }
  destruct (ty =? tINT). { destruct (bread 4 r) as [[v r']|] eqn:B; [|apply sfx_nil]. apply bread_sfx in B. eapply sfx_trans; [apply B|assumption]. }
  assumption.
Qed.

Lemma skip_sfx : forall fuel,
  (forall d ty bs, sfx (snd (skip_field fuel d ty bs)) bs) /\
  (forall d n bs, sfx (snd (skip_n fuel d n bs)) bs) /\
  (forall d bs, sfx (snd (skip_to_end fuel d bs)) bs).
Proof.
  induction fuel as [|f (IHf & IHn & IHe)]; [repeat split; intros; apply sfx_refl|].
  split; [|split].
  - intros d ty bs. cbn [skip_field].
    destruct (ty =? tBYTE); [apply sfx_drop|]. destruct (ty =? tSHORT); [apply sfx_drop|].
    destruct (ty =? tINT); [apply sfx_drop|]. destruct (ty =? tLONG); [apply sfx_drop|].
    destruct (ty =? tFLOAT); [apply sfx_drop|]. destruct (ty =? tDOUBLE); [apply sfx_drop|].
    destruct (ty =? tSTR1). { destruct bs as [|l r]; [apply sfx_nil|]. cbn [snd]. eapply sfx_trans; [apply sfx_drop|apply sfx_cons]. }
    destruct (ty =? tSTR4).
    { destruct (bread 4 bs) as [[l r]|] eqn:B; [|apply sfx_nil]. apply bread_sfx in B. cbn [snd]. eapply sfx_trans; [apply sfx_drop|apply B]. }
    destruct (ty =? tMAP).
    { destruct (maxd <=? d); [apply sfx_refl|]. pose proof (read_count_sfx bs) as Hc.
      destruct (read_count bs) as [n r|r]; [|exact Hc]. eapply sfx_trans; [apply IHn|exact Hc]. }
    destruct (ty =? tLIST).
    { destruct (maxd <=? d); [apply sfx_refl|]. pose proof (read_count_sfx bs) as Hc.
      destruct (read_count bs) as [n r|r]; [|exact Hc]. eapply sfx_trans; [apply IHn|exact Hc]. }
    destruct (ty =? tSIMPLE).
    { destruct (read_head bs) as [[[t tg] r]|] eqn:E; [|apply sfx_nil]. apply read_head_sfx in E.
      destruct (negb (t =? tBYTE)); [exact E|].
      pose proof (read_count_sfx r) as Hc. destruct (read_count r) as [n r'|r']; [|eapply sfx_trans; eassumption].
      cbn [snd]. destruct (0 <? n)%Z; [eapply sfx_trans; [apply sfx_drop|]|]; eapply sfx_trans; eassumption. }
    destruct (ty =? tSB). { destruct (maxd <=? d); [apply sfx_refl|apply IHe]. }
    destruct ((ty =? tSE) || (ty =? tZERO)); apply sfx_refl.
  - intros d n bs. cbn [skip_n]. destruct (n <=? 0)%Z; [apply sfx_refl|].
    destruct (read_head bs) as [[[ty tg] r]|] eqn:E; [|apply sfx_nil]. apply read_head_sfx in E.
    pose proof (IHf d ty r) as H1. destruct (skip_field f d ty r) as [s r']. cbn [snd] in H1.
    eapply sfx_trans; [apply IHn|]. eapply sfx_trans; eassumption.
  - intros d bs. cbn [skip_to_end].
    destruct (read_head bs) as [[[ty tg] r]|] eqn:E; [|apply sfx_nil]. apply read_head_sfx in E.
    pose proof (IHf d ty r) as H1. destruct (skip_field f d ty r) as [s r']. cbn [snd] in H1.
    destruct s; cbn [snd]; try (eapply sfx_trans; eassumption).
    destruct (ty =? tSE); cbn [snd]; [eapply sfx_trans; eassumption|].
    eapply sfx_trans; [apply IHe|]. eapply sfx_trans; eassumption.
Qed.

Definition seek_sfx (bs : list N) (s : seek) : Prop :=
  match s with Found _ r => sfx r bs | NotFound r => sfx r bs | _ => True end.
Lemma seek_suffix : forall fuel tag req bs, seek_sfx bs (skip_to_no_check fuel tag req bs).
Proof.
  induction fuel as [|f IH]; intros tag req bs; [exact I|]. cbn [skip_to_no_check].
  destruct (read_head2 bs) as [[[[ty tg] r] two]|] eqn:E.
  - apply read_head2_sfx in E. destruct ((ty =? tSE) || (tag <? tg)).
    + destruct req; [exact I|]. cbn [seek_sfx]. unfold unread. destruct (two && (tg <? 15)); [apply sfx_tl|apply sfx_refl].
    + destruct (tg =? tag); [exact E|]. destruct (skip_sfx f) as (Hf & _). pose proof (Hf 0 ty r) as H1.
      destruct (skip_field f 0 ty r) as [s r']. cbn [snd] in H1. destruct s; try exact I.
      specialize (IH tag req r'). destruct (skip_to_no_check f tag req r'); cbn [seek_sfx] in *; try exact I;
        (eapply sfx_trans; [exact IH|]; eapply sfx_trans; eassumption).
  - destruct req; [exact I|]. apply sfx_nil.
Qed.
Lemma skip_to_suffix fuel ty tag req bs : seek_sfx bs (skip_to fuel ty tag req bs).
Proof.
  unfold skip_to. pose proof (seek_suffix fuel tag req bs) as H.
  destruct (skip_to_no_check fuel tag req bs); try exact H. destruct (ty0 =? ty); [exact H|exact I].
Qed.

(* ---------- what the primitive readers return ---------- *)
Definition bytes_ok (bs : list N) : Prop := Forall (fun b => b < 256) bs.
Definition lenok (bs : list N) : Prop := N.of_nat (length bs) < 2147483648.
Lemma bytes_ok_sfx r bs : sfx r bs -> bytes_ok bs -> bytes_ok r.
Proof. apply sfx_Forall. Qed.
Lemma lenok_sfx r bs : sfx r bs -> lenok bs -> lenok r.
Proof. intros H L. apply sfx_len in H. unfold lenok in *. lia. Qed.
Lemma bytes_ok_firstn n bs : bytes_ok bs -> bytes_ok (firstn n bs).
Proof. intros H. rewrite <- (firstn_skipn n bs) in H. apply Forall_app in H. tauto. Qed.

Lemma be_val_lt l : forall acc, bytes_ok l -> be_val acc l < (acc + 1) * 256 ^ N.of_nat (length l).
Proof.
  induction l as [|b r IH]; intros acc H; cbn [be_val length].
  - cbn. lia.
  - inversion H as [|? ? Hb Hr]; subst. specialize (IH (acc * 256 + b) Hr).
    rewrite Nnat.Nat2N.inj_succ, N.pow_succ_r'.
    eapply N.lt_le_trans; [exact IH|].
    replace ((acc + 1) * (256 * 256 ^ N.of_nat (length r))) with (((acc + 1) * 256) * 256 ^ N.of_nat (length r)) by lia.
    apply N.mul_le_mono_r. lia.
Qed.
Lemma bread_val n bs v r : bread n bs = Some (v, r) -> bytes_ok bs -> v < 256 ^ N.of_nat n.
Proof.
  intros B H. apply bread_sfx in B. destruct B as (_ & -> & Hn).
  pose proof (be_val_lt (firstn n bs) 0 (bytes_ok_firstn n bs H)) as Hl. rewrite firstn_length_le in Hl by assumption. lia.
Qed.

Lemma sext_fits bits v : is_width bits -> (Z.of_N v < 2 ^ bits)%Z -> fits bits (sext bits v) = true.
Proof.
  intros Hb Hv. unfold fits, sext.
  destruct Hb as [-> | [-> | [-> | ->]]]; cbn [Z.sub Z.pow Z.pow_pos Pos.iter Z.mul Pos.mul Z.opp Z.add Z.pos_sub Pos.pred_double] in *;
  match goal with |- context [if ?c then _ else _] => destruct c eqn:E end; lia.
Qed.
Lemma fits_mono a b z : is_width a -> is_width b -> (a <= b)%Z -> fits a z = true -> fits b z = true.
Proof.
  intros Ha Hb Hle H. unfold fits in *.
  destruct Ha as [-> | [-> | [-> | ->]]]; destruct Hb as [-> | [-> | [-> | ->]]]; try lia;
  cbn [Z.sub Z.pow Z.pow_pos Pos.iter Z.mul Pos.mul Z.opp Z.add Z.pos_sub Pos.pred_double] in *; lia.
Qed.

Lemma read_int_body_typed bits ty r z r' : is_width bits -> bytes_ok r -> read_int_body bits ty r = Some (z, r') ->
  fits bits z = true /\ sfx r' r.
Proof.
  intros Hb Hr. unfold read_int_body.
  destruct (ty =? tZERO). { intros H; inversion H; subst. split; [destruct Hb as [-> | [-> | [-> | ->]]]; reflexivity|apply sfx_refl]. }
  destruct (ty =? tBYTE).
  { destruct r as [|b r0]; [discriminate|]. intros H; inversion H; subst. inversion Hr; subst. split; [|apply sfx_cons].
    apply (fits_mono 8 bits); [widths|assumption|destruct Hb as [-> | [-> | [-> | ->]]]; lia|]. apply sext_fits; [widths|]. cbn. lia. }
  destruct ((ty =? tSHORT) && (16 <=? bits)%Z) eqn:E1.
  { apply andb_true_iff in E1. destruct E1 as [_ E1]. destruct (bread 2 r) as [[v x]|] eqn:B; [|discriminate]. intros H; inversion H; subst.
    pose proof (bread_val _ _ _ _ B Hr) as Hv. apply bread_sfx in B. split; [|apply B].
    apply (fits_mono 16 bits); [widths|assumption|lia|]. apply sext_fits; [widths|]. cbn in *. lia. }
  destruct ((ty =? tINT) && (32 <=? bits)%Z) eqn:E2.
  { apply andb_true_iff in E2. destruct E2 as [_ E2]. destruct (bread 4 r) as [[v x]|] eqn:B; [|discriminate]. intros H; inversion H; subst.
    pose proof (bread_val _ _ _ _ B Hr) as Hv. apply bread_sfx in B. split; [|apply B].
    apply (fits_mono 32 bits); [widths|assumption|lia|]. apply sext_fits; [widths|]. cbn in *. lia. }
  destruct ((ty =? tLONG) && (64 <=? bits)%Z) eqn:E3.
  { apply andb_true_iff in E3. destruct E3 as [_ E3]. destruct (bread 8 r) as [[v x]|] eqn:B; [|discriminate]. intros H; inversion H; subst.
    pose proof (bread_val _ _ _ _ B Hr) as Hv. apply bread_sfx in B. split; [|apply B].
    apply (fits_mono 64 bits); [widths|assumption|lia|]. apply sext_fits; [widths|]. cbn in *. lia. }
  discriminate.
Qed.
Lemma read_f32_body_typed ty r b r' : bytes_ok r -> read_f32_body ty r = Some (b, r') -> b < 4294967296 /\ sfx r' r.
Proof.
  intros Hr. unfold read_f32_body. destruct (ty =? tZERO); [intros H; inversion H; subst; split; [lia|apply sfx_refl]|].
  destruct (ty =? tFLOAT); [|discriminate]. intros B. pose proof (bread_val _ _ _ _ B Hr) as Hv. apply bread_sfx in B. split; [cbn in Hv; lia|apply B].
Qed.
Lemma read_f64_body_typed ty r b r' : bytes_ok r -> read_f64_body ty r = Some (b, r') -> b < 18446744073709551616 /\ sfx r' r.
Proof.
  intros Hr. unfold read_f64_body. destruct (ty =? tZERO); [intros H; inversion H; subst; split; [lia|apply sfx_refl]|].
  destruct (ty =? tFLOAT).
  { destruct (bread 4 r) as [[v x]|] eqn:B; [|discriminate]. intros H; inversion H; subst.
    pose proof (bread_val _ _ _ _ B Hr) as Hv. apply bread_sfx in B. split; [apply widen32_range; cbn in Hv; lia|apply B]. }
  destruct (ty =? tDOUBLE); [|discriminate]. intros B. pose proof (bread_val _ _ _ _ B Hr) as Hv. apply bread_sfx in B. split; [cbn in Hv; lia|apply B].
Qed.
Lemma take_str_sfx l r s r' : take_str l r = Some (s, r') -> sfx r' r /\ (length s <= length r)%nat /\ s = firstn (N.to_nat l) r.
Proof.
  unfold take_str. destruct (_ <? _); [discriminate|]. intros H; inversion H; subst.
  repeat split; [apply sfx_skipn|rewrite firstn_length; lia].
Qed.
Lemma read_string_body_typed ty r s r' : read_string_body ty r = Some (s, r') -> sfx r' r /\ (length s <= length r)%nat.
Proof.
  unfold read_string_body. destruct (ty =? tSTR4).
  { destruct (bread 4 r) as [[l x]|] eqn:B; [|discriminate]. apply bread_sfx in B. destruct B as (B & _ & _). intros H.
    apply take_str_sfx in H. destruct H as (H1 & H2 & _). pose proof (sfx_len _ _ B). split; [eapply sfx_trans; eassumption|lia]. }
  destruct (ty =? tSTR1); [|discriminate]. destruct r as [|l x]; [discriminate|]. intros H.
  apply take_str_sfx in H. destruct H as (H1 & H2 & _). split; [eapply sfx_trans; [exact H1|apply sfx_cons]|cbn [length]; lia].
Qed.

Definition rty {A} (Q : A -> Prop) (bs : list N) (rr : rres A) : Prop :=
  match rr with ROk a rest => Q a /\ sfx rest bs | RAbsent rest => sfx rest bs | _ => True end.
Lemma with_seek_typed {A} (Q : A -> Prop) f tag req bs (body : N -> list N -> option (A * list N)) :
  (forall ty r a r', bytes_ok r -> lenok r -> body ty r = Some (a, r') -> Q a /\ sfx r' r) ->
  bytes_ok bs -> lenok bs -> rty Q bs (with_seek f tag req bs body).
Proof.
  intros Hb Hbs Hl. unfold with_seek. pose proof (seek_suffix f tag req bs) as Hs.
  destruct (skip_to_no_check f tag req bs) as [ty r|r| |]; cbn [seek_sfx rty] in *; try exact I; try exact Hs.
  destruct (body ty r) as [[a r']|] eqn:E; [|exact I]. cbn [rty].
  destruct (Hb ty r a r' (bytes_ok_sfx _ _ Hs Hbs) (lenok_sfx _ _ Hs Hl) E) as [HQ Hr]. split; [exact HQ|eapply sfx_trans; eassumption].
Qed.
Lemma rty_map {A B} (g : A -> B) (Q : A -> Prop) (Q' : B -> Prop) bs rr :
  (forall a, Q a -> Q' (g a)) -> rty Q bs rr -> rty Q' bs (map_r g rr).
Proof. intros Hg. destruct rr; cbn [rty map_r]; try tauto. intros [H1 H2]. split; [now apply Hg|assumption]. Qed.
Lemma rty_of {A} (Q : A -> Prop) bs rr prior (inj : A -> val) (T : val -> Prop) v r :
  rty Q bs rr -> (forall a, Q a -> T (inj a)) -> T prior -> of_rres rr prior inj = DOk v r -> T v /\ sfx r bs.
Proof.
  destruct rr; cbn [rty of_rres]; intros H Hi Hp E; try discriminate; inversion E; subst.
  - destruct H. split; [now apply Hi|assumption].
  - split; assumption.
Qed.

Lemma dec_scalar_typed f tag req t prior bs v r : scalar_ty t = true -> sc_typed t prior -> bytes_ok bs -> lenok bs ->
  dec_scalar f tag req t prior bs = DOk v r -> sc_typed t v /\ sfx r bs.
Proof.
  intros Hsc Hp Hbs Hl E.
  assert (Hint : forall bits, is_width bits -> rty (fun z => fits bits z = true) bs (r_int bits f tag req bs)).
  { intros bits Hb. unfold r_int. apply with_seek_typed; try assumption. intros ty r0 a r' Hr _ Hbody. now apply (read_int_body_typed bits ty r0). }
  destruct t; try discriminate; cbn [dec_scalar] in E.
  - (* bool *) unfold r_bool in E. apply (rty_of (fun _ : bool => True) bs _ prior VBool (sc_typed TBool)) in E; try assumption; [|intros; exact I].
    eapply rty_map; [|apply (Hint 8%Z); widths]. intros; exact I.
  - unfold r_int8 in E. apply (rty_of (fun z => fits 8 z = true) bs _ prior VInt (sc_typed TI8)) in E; try assumption; [apply Hint; widths|intros a Ha; exact Ha].
  - unfold r_uint8 in E. apply (rty_of (fun z => (0 <= z < 256)%Z) bs _ prior VInt (sc_typed TU8)) in E; try assumption; [|intros a Ha; exact Ha].
    eapply rty_map; [|apply (Hint 16%Z); widths]. intros a _. apply Z.mod_pos_bound. lia.
  - unfold r_int16 in E. apply (rty_of (fun z => fits 16 z = true) bs _ prior VInt (sc_typed TI16)) in E; try assumption; [apply Hint; widths|intros a Ha; exact Ha].
  - unfold r_uint16 in E. apply (rty_of (fun z => (0 <= z < 65536)%Z) bs _ prior VInt (sc_typed TU16)) in E; try assumption; [|intros a Ha; exact Ha].
    eapply rty_map; [|apply (Hint 32%Z); widths]. intros a _. apply Z.mod_pos_bound. lia.
  - unfold r_int32 in E. apply (rty_of (fun z => fits 32 z = true) bs _ prior VInt (sc_typed TI32)) in E; try assumption; [apply Hint; widths|intros a Ha; exact Ha].
  - unfold r_uint32 in E. apply (rty_of (fun z => (0 <= z < 4294967296)%Z) bs _ prior VInt (sc_typed TU32)) in E; try assumption; [|intros a Ha; exact Ha].
    eapply rty_map; [|apply (Hint 64%Z); widths]. intros a _. apply Z.mod_pos_bound. lia.
  - unfold r_int64 in E. apply (rty_of (fun z => fits 64 z = true) bs _ prior VInt (sc_typed TI64)) in E; try assumption; [apply Hint; widths|intros a Ha; exact Ha].
  - unfold r_f32 in E. apply (rty_of (fun b => b < 4294967296) bs _ prior VFlt (sc_typed TF32)) in E; try assumption; [|intros a Ha; exact Ha].
    apply with_seek_typed; try assumption. intros ty r0 a r' Hr _ Hbody. now apply (read_f32_body_typed ty r0).
  - unfold r_f64 in E. apply (rty_of (fun b => b < 18446744073709551616) bs _ prior VFlt (sc_typed TF64)) in E; try assumption; [|intros a Ha; exact Ha].
    apply with_seek_typed; try assumption. intros ty r0 a r' Hr _ Hbody. now apply (read_f64_body_typed ty r0).
  - unfold r_string in E. apply (rty_of (fun s => N.of_nat (length s) < 4294967296) bs _ prior VStr (sc_typed TStr)) in E; try assumption; [|intros a Ha; exact Ha].
    apply with_seek_typed; try assumption. intros ty r0 a r' Hr Hl0 Hbody. apply read_string_body_typed in Hbody.
    destruct Hbody as [H1 H2]. split; [unfold lenok in Hl0; lia|assumption].
  - unfold r_int32 in E. apply (rty_of (fun z => fits 32 z = true) bs _ prior VInt (sc_typed TEnum)) in E; try assumption; [apply Hint; widths|intros a Ha; exact Ha].
Qed.

(* ---------- the targets the decoder starts from are typed ---------- *)
Fixpoint arr_ok (t : ty) : bool :=
  match t with
  | TVec x => arr_ok x
  | TMap a b => arr_ok a && arr_ok b
  | TArr n x => (0 <? n)%nat && (N.of_nat n <? 2147483648) && arr_ok x
  | _ => true
  end.
Definition arrs_ok (e : env) : Prop := forall sid fd, In fd (fields_of e sid) -> arr_ok (fty fd) = true.
Definition arrs_ok_b (e : env) : bool := forallb (forallb (fun fd => arr_ok (fty fd))) e.
Lemma arrs_ok_b_sound e : arrs_ok_b e = true -> arrs_ok e.
Proof.
  intros H sid fd Hin. unfold arrs_ok_b in H. rewrite forallb_forall in H.
  unfold fields_of in Hin. destruct (nth_in_or_default sid e []) as [Hs|Hs]; [|rewrite Hs in Hin; contradiction].
  specialize (H _ Hs). rewrite forallb_forall in H. now apply H.
Qed.
Lemma Forall2_map_in {A B} (R : A -> B -> Prop) (g : A -> B) l : (forall a, In a l -> R a (g a)) -> Forall2 R l (map g l).
Proof. induction l as [|a l IH]; intros H; cbn [map]; constructor; [apply H; now left|apply IH; intros; apply H; now right]. Qed.

Section Typed.
Variable e : env.
Variable k : nat.
Hypothesis Hwf : wf_schema k e.
Hypothesis Hdt : defaults_typed e.
Hypothesis Harr : arrs_ok e.

Lemma zero_typed : forall n t f, nest_ok n e t = true -> (n <= f)%nat -> arr_ok t = true -> has_type e t (zero_of f e t).
Proof.
  induction n as [|n IH]; intros t f Hn Hf Ha; [discriminate|]. destruct f as [|f]; [lia|].
  destruct t; cbn [nest_ok arr_ok] in Hn, Ha;
    try (apply HT_scalar; [reflexivity|cbn; first [exact I | reflexivity | lia]]).
  - cbn [zero_of]. destruct t; try (apply HT_vec; [discriminate|cbn; lia|constructor]). apply HT_bytes. cbn. lia.
  - cbn [zero_of]. apply HT_map; [cbn; lia|constructor].
  - cbn [zero_of]. apply andb_true_iff in Ha. destruct Ha as [Ha Hx]. apply andb_true_iff in Ha. destruct Ha as [H0 H1].
    apply Nat.ltb_lt in H0. apply HT_arr; [apply repeat_length|assumption|lia|].
    apply Forall_forall. intros z Hz. apply repeat_spec in Hz. subst z. apply IH; [assumption|lia|assumption].
  - cbn [zero_of]. apply HT_struct. rewrite forallb_forall in Hn. apply Forall2_map_in. intros fd Hin.
    apply IH; [now apply Hn|lia|now apply (Harr sid)].
Qed.

Lemma reset_typed : forall n sid f, nest_ok n e (TStruct sid) = true -> (n <= f)%nat -> has_type e (TStruct sid) (reset_val f e sid).
Proof.
  induction n as [|n IH]; intros sid f Hn Hf; [discriminate|]. destruct f as [|f]; [lia|].
  cbn [nest_ok] in Hn. rewrite forallb_forall in Hn. cbn [reset_val]. apply HT_struct. apply Forall2_map_in. intros fd Hin.
  destruct (fdef fd) as [d|] eqn:Ed.
  - apply HT_scalar; [apply (wf_def k e Hwf sid fd Hin); congruence|now apply (Hdt sid fd d Hin)].
  - pose proof (Hn fd Hin) as Hfd. destruct (fty fd) eqn:Et; try (rewrite <- Et; apply zero_typed with (n := n); rewrite ?Et; [assumption|lia|rewrite <- Et; now apply (Harr sid)]).
    apply IH; [assumption|lia].
Qed.
End Typed.

Lemma has_type_scalar e t v : scalar_ty t = true -> has_type e t v -> sc_typed t v.
Proof. intros Hs H. inversion H; subst; try assumption; discriminate. Qed.
Lemma replace_nth_Forall (P : val -> Prop) v : forall i l, Forall P l -> P v -> Forall P (replace_nth i v l).
Proof.
  induction i as [|i IH]; intros [|y l] Hl Hv; cbn [replace_nth]; try constructor; inversion Hl; subst; try assumption.
  now apply IH.
Qed.
Lemma replace_nth_length v : forall i l, length (replace_nth i v l) = length l.
Proof. induction i as [|i IH]; intros [|y l]; cbn [replace_nth length]; try reflexivity. now rewrite IH. Qed.
Lemma nth_Forall (P : val -> Prop) i l d : Forall P l -> P d -> P (nth i l d).
Proof. intros Hl Hd. destruct (nth_in_or_default i l d) as [Hin| ->]; [|assumption]. rewrite Forall_forall in Hl. now apply Hl. Qed.
Lemma is_byte_cases x : is_byte x = true -> x = TI8 \/ x = TU8.
Proof. destruct x; cbn; intros H; try discriminate; tauto. Qed.

Section TypedDec.
Variable e : env.
Variable k : nat.
Hypothesis Hwf : wf_schema k e.
Hypothesis Hdt : defaults_typed e.
Hypothesis Harr : arrs_ok e.

Lemma fs_len_var f n t tag req prior bs v r : tfin n e t = true -> (2 * length bs + 3 + tneed n e t <= f)%nat ->
  dec_var f e tag req t prior bs = DOk v r -> (length r <= length bs)%nat /\ (req = true -> (length r < length bs)%nat).
Proof. intros Hfin Hf E. destruct (fs_all e f) as (HV & _). pose proof (HV n t tag req prior bs Hfin Hf) as H. rewrite E in H. exact H. Qed.

Definition TY_var (f : nat) : Prop := forall n t tag req prior bs v r,
  tfin n e t = true -> arr_ok t = true -> ty_nest k e t = true -> has_type e t prior -> bytes_ok bs -> lenok bs ->
  (2 * length bs + 3 + tneed n e t + k <= f)%nat -> dec_var f e tag req t prior bs = DOk v r ->
  has_type e t v /\ sfx r bs.
Definition TY_elems (f : nat) : Prop := forall n x cnt bs vs r,
  tfin n e x = true -> arr_ok x = true -> ty_nest k e x = true -> bytes_ok bs -> lenok bs ->
  (2 * length bs + 4 + tneed n e x + k <= f)%nat -> dec_elems f e x cnt bs = DOk vs r ->
  Forall (has_type e x) vs /\ sfx r bs /\ Z.of_nat (length vs) = Z.max 0 cnt.
Definition TY_arr (f : nat) : Prop := forall n x len i cnt cur bs vs r,
  tfin n e x = true -> arr_ok x = true -> ty_nest k e x = true -> Forall (has_type e x) cur -> bytes_ok bs -> lenok bs ->
  (2 * length bs + 4 + tneed n e x + k <= f)%nat -> dec_arr f e x len i cnt cur bs = DOk vs r ->
  Forall (has_type e x) vs /\ sfx r bs /\ length vs = length cur.
Definition TY_entries (f : nat) : Prop := forall n kt vt cnt bs kvs r,
  tfin n e kt = true -> tfin n e vt = true -> arr_ok kt = true -> arr_ok vt = true -> ty_nest k e kt = true -> ty_nest k e vt = true ->
  bytes_ok bs -> lenok bs -> (2 * length bs + 4 + Nat.max (tneed n e kt) (tneed n e vt) + k <= f)%nat ->
  dec_entries f e kt vt cnt bs = DOk kvs r ->
  Forall (fun p => has_type e kt (fst p) /\ has_type e vt (snd p)) kvs /\ sfx r bs /\ Z.of_nat (length kvs) = Z.max 0 cnt.
Definition TY_fields (f : nat) : Prop := forall n fds ps bs vs r,
  (forall fd, In fd fds -> tfin n e (fty fd) = true /\ arr_ok (fty fd) = true /\ ty_nest k e (fty fd) = true) ->
  Forall2 (fun fd p => has_type e (fty fd) p) fds ps -> bytes_ok bs -> lenok bs ->
  (2 * length bs + 4 + length fds + tmax (tneed n e) fds + k <= f)%nat -> dec_fields f e fds ps bs = DOk vs r ->
  Forall2 (fun fd x => has_type e (fty fd) x) fds vs /\ sfx r bs.

Lemma ty_step_elems f : TY_var f -> TY_elems f -> TY_elems (S f).
Proof.
  intros HV HE n x cnt bs vs r Hfin Ha Hn Hbs Hl Hf E. rewrite dec_elems_S in E.
  destruct (cnt <=? 0)%Z eqn:E0; [inversion E; subst; repeat split; [constructor|apply sfx_refl|cbn; lia]|].
  destruct (dec_var f e 0 true x (zero_of f e x) bs) as [v r1| | | |] eqn:E1; try discriminate.
  destruct (fs_len_var f n x 0 true _ bs v r1 Hfin ltac:(lia) E1) as [_ Hlt]. specialize (Hlt eq_refl).
  destruct (HV n x 0 true (zero_of f e x) bs v r1 Hfin Ha Hn) as [Hv Hs1]; try assumption; try lia.
  { apply (zero_typed e Harr k); [now apply (ty_nest_nest e k)|lia|assumption]. }
  destruct (dec_elems f e x (cnt - 1)%Z r1) as [vs' r2| | | |] eqn:E2; try discriminate. inversion E; subst.
  destruct (HE n x (cnt - 1)%Z r1 vs' r Hfin Ha Hn (bytes_ok_sfx _ _ Hs1 Hbs) (lenok_sfx _ _ Hs1 Hl) ltac:(lia) E2) as (Hvs & Hs2 & Hc).
  repeat split; [constructor; assumption|eapply sfx_trans; eassumption|cbn [length]; lia].
Qed.

Lemma ty_step_arr f : TY_var f -> TY_arr f -> TY_arr (S f).
Proof.
  intros HV HA n x len i cnt cur bs vs r Hfin Ha Hn Hcur Hbs Hl Hf E. rewrite dec_arr_S in E.
  destruct (cnt <=? 0)%Z eqn:E0; [inversion E; subst; repeat split; [assumption|apply sfx_refl]|].
  destruct (len <=? i)%nat; [discriminate|].
  assert (Hz : has_type e x (zero_of f e x)) by (apply (zero_typed e Harr k); [now apply (ty_nest_nest e k)|lia|assumption]).
  destruct (dec_var f e 0 true x (nth i cur (zero_of f e x)) bs) as [v r1| | | |] eqn:E1; try discriminate.
  destruct (fs_len_var f n x 0 true _ bs v r1 Hfin ltac:(lia) E1) as [_ Hlt]. specialize (Hlt eq_refl).
  destruct (HV n x 0 true _ bs v r1 Hfin Ha Hn (nth_Forall _ i cur _ Hcur Hz) Hbs Hl ltac:(lia) E1) as [Hv Hs1].
  destruct (HA n x len (S i) (cnt - 1)%Z (replace_nth i v cur) r1 vs r Hfin Ha Hn (replace_nth_Forall _ v i cur Hcur Hv)
              (bytes_ok_sfx _ _ Hs1 Hbs) (lenok_sfx _ _ Hs1 Hl) ltac:(lia) E) as (Hvs & Hs2 & Hc).
  rewrite replace_nth_length in Hc. repeat split; [assumption|eapply sfx_trans; eassumption|assumption].
Qed.

Lemma ty_step_entries f : TY_var f -> TY_entries f -> TY_entries (S f).
Proof.
  intros HV HM n kt vt cnt bs kvs r Hfk Hfv Hak Hav Hnk Hnv Hbs Hl Hf E. rewrite dec_entries_S in E.
  destruct (cnt <=? 0)%Z eqn:E0; [inversion E; subst; repeat split; [constructor|apply sfx_refl|cbn; lia]|].
  destruct (dec_var f e 0 true kt (zero_of f e kt) bs) as [kv r1| | | |] eqn:E1; try discriminate.
  destruct (fs_len_var f n kt 0 true _ bs kv r1 Hfk ltac:(lia) E1) as [_ Hlt1]. specialize (Hlt1 eq_refl).
  destruct (HV n kt 0 true (zero_of f e kt) bs kv r1 Hfk Hak Hnk) as [Hkv Hs1]; try assumption; try lia.
  { apply (zero_typed e Harr k); [now apply (ty_nest_nest e k)|lia|assumption]. }
  destruct (dec_var f e 1 true vt (zero_of f e vt) r1) as [vv r2| | | |] eqn:E2; try discriminate.
  destruct (fs_len_var f n vt 1 true _ r1 vv r2 Hfv ltac:(lia) E2) as [_ Hlt2]. specialize (Hlt2 eq_refl).
  destruct (HV n vt 1 true (zero_of f e vt) r1 vv r2 Hfv Hav Hnv) as [Hvv Hs2]; try assumption; try lia;
    try (now apply (bytes_ok_sfx _ _ Hs1)); try (now apply (lenok_sfx _ _ Hs1)).
  { apply (zero_typed e Harr k); [now apply (ty_nest_nest e k)|lia|assumption]. }
  destruct (dec_entries f e kt vt (cnt - 1)%Z r2) as [kvs' r3| | | |] eqn:E3; try discriminate. inversion E; subst.
  assert (Hs12 : sfx r2 bs) by (eapply sfx_trans; eassumption).
  destruct (HM n kt vt (cnt - 1)%Z r2 kvs' r Hfk Hfv Hak Hav Hnk Hnv (bytes_ok_sfx _ _ Hs12 Hbs) (lenok_sfx _ _ Hs12 Hl) ltac:(lia) E3) as (Hkvs & Hs3 & Hc).
  repeat split; [constructor; [split; assumption|assumption]|eapply sfx_trans; eassumption|cbn [length]; lia].
Qed.

Lemma ty_step_fields f : TY_var f -> TY_fields f -> TY_fields (S f).
Proof.
  intros HV HF n fds ps bs vs r Hfds Hps Hbs Hl Hf E. rewrite dec_fields_S in E.
  destruct Hps as [|fd p fds ps Hp Hps]; [inversion E; subst; split; [constructor|apply sfx_refl]|]. cbv zeta in E. cbn [tl] in E.
  cbn [length tmax fold_right] in Hf. fold (tmax (tneed n e) fds) in Hf.
  destruct (Hfds fd (or_introl eq_refl)) as (Hfin & Ha & Hn).
  destruct (dec_var f e (ftag fd) (freq fd) (fty fd) p bs) as [v r1| | | |] eqn:E1; try discriminate.
  destruct (HV n (fty fd) (ftag fd) (freq fd) p bs v r1 Hfin Ha Hn Hp Hbs Hl ltac:(lia) E1) as [Hv Hs1].
  pose proof (sfx_len _ _ Hs1) as Hle.
  destruct (dec_fields f e fds ps r1) as [vs' r2| | | |] eqn:E2; try discriminate. inversion E; subst.
  destruct (HF n fds ps r1 vs' r (fun fd' Hin => Hfds fd' (or_intror Hin)) Hps (bytes_ok_sfx _ _ Hs1 Hbs) (lenok_sfx _ _ Hs1 Hl) ltac:(lia) E2) as (Hvs & Hs2).
  split; [constructor; assumption|eapply sfx_trans; eassumption].
Qed.
End TypedDec.

Section TypedDec2.
Variable e : env.
Variable k : nat.
Hypothesis Hwf : wf_schema k e.
Hypothesis Hdt : defaults_typed e.
Hypothesis Harr : arrs_ok e.

Lemma seek_len f tag req bs : (2 * length bs + 3 <= f)%nat ->
  match skip_to_no_check f tag req bs with Found _ r => (length r < length bs)%nat | _ => True end.
Proof. intros Hf. pose proof (seek_fuel f tag req bs Hf) as H. destruct (skip_to_no_check f tag req bs); try exact I. exact H. Qed.
Lemma skip_to_len f ty tag req bs : (2 * length bs + 3 <= f)%nat ->
  match skip_to f ty tag req bs with Found _ r => (length r < length bs)%nat | _ => True end.
Proof. intros Hf. pose proof (skip_to_fuel f ty tag req bs Hf) as H. destruct (skip_to f ty tag req bs); try exact I. exact H. Qed.

Lemma ty_step_var f : TY_elems e k f -> TY_arr e k f -> TY_entries e k f -> TY_fields e k f -> TY_var e k (S f).
Proof.
  intros HE HA HM HF n t tag req prior bs v r Hfin Ha Hn Hp Hbs Hl Hf E.
  destruct n as [|n]; [discriminate|].
  destruct t as [| | | | | | | | | | | |x|kt vt|len x|sid]; try (rewrite dec_var_scalar in E by reflexivity;
                   match type of E with dec_scalar _ _ _ ?t0 _ _ = _ =>
                     destruct (dec_scalar_typed f tag req t0 prior bs v r eq_refl (has_type_scalar e t0 prior eq_refl Hp) Hbs Hl E) as [Hv Hs] end;
                   split; [apply HT_scalar; [reflexivity|exact Hv]|exact Hs]).
  - (* vec *) cbn [tfin tneed arr_ok] in Hfin, Hf, Ha. pose proof (ty_nest_vec e k x Hn) as Hnx. rewrite dec_var_vec in E.
    pose proof (seek_suffix f tag req bs) as Hs0. pose proof (seek_len f tag req bs ltac:(lia)) as Hl0.
    destruct (skip_to_no_check f tag req bs) as [wt r0|r0| |]; try discriminate; cbn [seek_sfx] in Hs0.
    2:{ inversion E; subst. split; assumption. }
    destruct (wt =? tLIST).
    + pose proof (read_count_sfx r0) as Hs1. pose proof (read_count_len_ok r0) as Hl1.
      destruct (read_count r0) as [c r1|]; [|discriminate].
      destruct (c <? 0)%Z eqn:Ec0; [discriminate|]. destruct (Z.of_nat (length r1) <? c)%Z eqn:Ec1; [discriminate|].
      destruct (dec_elems f e x c r1) as [xs r2| | | |] eqn:Ee; try discriminate. inversion E; subst.
      assert (Hs01 : sfx r1 bs) by (eapply sfx_trans; eassumption).
      destruct (HE n x c r1 xs r Hfin Ha Hnx (bytes_ok_sfx _ _ Hs01 Hbs) (lenok_sfx _ _ Hs01 Hl) ltac:(lia) Ee) as (Hxs & Hs2 & Hc).
      split; [|eapply sfx_trans; eassumption].
      pose proof (lenok_sfx _ _ Hs01 Hl) as Hl1'. unfold lenok in Hl1'.
      destruct x; try (apply HT_vec; [discriminate|lia|exact Hxs]).
      cbn [list_val]. apply HT_bytes. rewrite map_length. lia.
    + destruct (wt =? tSIMPLE); [|discriminate]. destruct (is_byte x) eqn:Eb; [|discriminate].
      pose proof (skip_to_suffix f tBYTE 0 true r0) as Hs1.
      destruct (skip_to f tBYTE 0 true r0) as [wt1 r1|r1| |]; try discriminate; cbn [seek_sfx] in Hs1.
      pose proof (read_count_sfx r1) as Hs2. destruct (read_count r1) as [c r2|]; [|discriminate].
      destruct (read_slice c r2) as [[s r3]|] eqn:Er; [|discriminate]. inversion E; subst.
      assert (Hs02 : sfx r2 bs) by (eapply sfx_trans; [exact Hs2|]; eapply sfx_trans; eassumption).
      unfold read_slice in Er. destruct (c <? 0)%Z; [discriminate|]. destruct (_ <? c)%Z; [discriminate|]. inversion Er; subst.
      split; [|eapply sfx_trans; [apply sfx_skipn|exact Hs02]].
      pose proof (lenok_sfx _ _ Hs02 Hl) as Hl2. unfold lenok in Hl2.
      assert (Hfl : (length (firstn (Z.to_nat c) r2) <= length r2)%nat) by (rewrite firstn_length; lia).
      destruct (is_byte_cases x Eb) as [-> | ->]; cbn [bytes_val].
      * apply HT_bytes. lia.
      * apply HT_vec; [discriminate|rewrite map_length; lia|].
        pose proof (bytes_ok_firstn (Z.to_nat c) r2 (bytes_ok_sfx _ _ Hs02 Hbs)) as Hbf.
        apply Forall_map. eapply Forall_impl; [|exact Hbf]. intros b Hb. cbv beta in Hb. apply HT_scalar; [reflexivity|cbn [sc_typed]; lia].
  - (* map *) cbn [tfin tneed arr_ok] in Hfin, Hf, Ha. apply andb_true_iff in Hfin. destruct Hfin as [Hfk Hfv].
    apply andb_true_iff in Ha. destruct Ha as [Hak Hav]. destruct (ty_nest_map e k kt vt Hn) as [Hnk Hnv]. rewrite dec_var_map in E.
    pose proof (skip_to_suffix f tMAP tag req bs) as Hs0. pose proof (skip_to_len f tMAP tag req bs ltac:(lia)) as Hl0.
    destruct (skip_to f tMAP tag req bs) as [wt r0|r0| |]; try discriminate; cbn [seek_sfx] in Hs0.
    2:{ inversion E; subst. split; assumption. }
    pose proof (read_count_sfx r0) as Hs1. pose proof (read_count_len_ok r0) as Hl1.
    destruct (read_count r0) as [c r1|]; [|discriminate].
    destruct ((c <? 0)%Z || (Z.of_nat (length r1) / 2 <? c)%Z) eqn:Ec; [discriminate|].
    destruct (dec_entries f e kt vt c r1) as [kvs r2| | | |] eqn:Ee; try discriminate. inversion E; subst.
    assert (Hs01 : sfx r1 bs) by (eapply sfx_trans; eassumption).
    destruct (HM n kt vt c r1 kvs r Hfk Hfv Hak Hav Hnk Hnv (bytes_ok_sfx _ _ Hs01 Hbs) (lenok_sfx _ _ Hs01 Hl) ltac:(lia) Ee) as (Hkvs & Hs2 & Hc).
    split; [|eapply sfx_trans; eassumption].
    pose proof (lenok_sfx _ _ Hs01 Hl) as Hl1'. unfold lenok in Hl1'. apply HT_map; [lia|exact Hkvs].
  - (* arr *) cbn [tfin tneed arr_ok] in Hfin, Hf, Ha. pose proof (ty_nest_arr e k len x Hn) as Hnx. rewrite dec_var_arr in E.
    apply andb_true_iff in Ha. destruct Ha as [Ha Hax]. apply andb_true_iff in Ha. destruct Ha as [Hpos Hbnd]. apply Nat.ltb_lt in Hpos.
    pose proof (seek_suffix f tag req bs) as Hs0. pose proof (seek_len f tag req bs ltac:(lia)) as Hl0.
    destruct (skip_to_no_check f tag req bs) as [wt r0|r0| |]; try discriminate; cbn [seek_sfx] in Hs0.
    2:{ inversion E; subst. split; assumption. }
    destruct (wt =? tLIST); [|discriminate].
    pose proof (read_count_sfx r0) as Hs1. pose proof (read_count_len_ok r0) as Hl1.
    destruct (read_count r0) as [c r1|]; [|discriminate].
    destruct ((c <? 0)%Z || (Z.of_nat len <? c)%Z); [discriminate|].
    inversion Hp as [? ? Hsc|  | |? ? l Hll _ _ Hlt| |]; subst; [discriminate|].
    destruct (dec_arr f e x (length l) 0 c l r1) as [xs r2| | | |] eqn:Ee; try discriminate. inversion E; subst.
    assert (Hs01 : sfx r1 bs) by (eapply sfx_trans; eassumption).
    destruct (HA n x (length l) 0%nat c l r1 xs r Hfin Hax Hnx Hlt (bytes_ok_sfx _ _ Hs01 Hbs) (lenok_sfx _ _ Hs01 Hl) ltac:(lia) Ee) as (Hxs & Hs2 & Hc).
    split; [|eapply sfx_trans; eassumption]. apply HT_arr; [assumption|assumption|lia|assumption].
  - (* struct *) cbn [tfin tneed] in Hfin, Hf. rewrite forallb_forall in Hfin. rewrite dec_var_struct in E. cbv zeta in E.
    unfold reset_default in E.
    assert (Hreset : has_type e (TStruct sid) (reset_val f e sid)).
    { apply (reset_typed e k Hwf Hdt Harr k); [now apply (ty_nest_nest e k)|lia]. }
    pose proof (skip_to_suffix f tSB tag req bs) as Hs0. pose proof (skip_to_len f tSB tag req bs ltac:(lia)) as Hl0.
    destruct (skip_to f tSB tag req bs) as [wt r0|r0| |]; try discriminate; cbn [seek_sfx] in Hs0.
    2:{ inversion E; subst. split; assumption. }
    destruct f as [|f']; [lia|]. cbn [reset_val] in E, Hreset.
    inversion Hreset as [? ? Hsc| | | | |? ? Hps]; subst; [discriminate|].
    match type of E with context [dec_fields _ _ _ ?ps0 _] => set (ps := ps0) in * end.
    destruct (dec_fields (S f') e (fields_of e sid) ps r0) as [vs r1| | | |] eqn:Ee; try discriminate.
    destruct (HF n (fields_of e sid) ps r0 vs r1) as (Hvs & Hs1); try assumption;
      try (now apply (bytes_ok_sfx _ _ Hs0)); try (now apply (lenok_sfx _ _ Hs0)); try lia.
    { intros fd Hin. repeat split; [now apply Hfin|now apply (Harr sid)|now apply (wf_nest k e Hwf sid)]. }
    destruct (skip_sfx (S f')) as (_ & _ & Hse). pose proof (Hse 0 r1) as Hs2.
    destruct (skip_to_end (S f') 0 r1) as [s r2]. cbn [snd] in Hs2. destruct s; try discriminate. inversion E; subst.
    split; [now apply HT_struct|]. eapply sfx_trans; [exact Hs2|]. eapply sfx_trans; eassumption.
Qed.

Theorem ty_all : forall f, TY_var e k f /\ TY_elems e k f /\ TY_arr e k f /\ TY_entries e k f /\ TY_fields e k f.
Proof.
  induction f as [|f (HV & HE & HA & HM & HF)].
  - unfold TY_var, TY_elems, TY_arr, TY_entries, TY_fields. split; [|split; [|split; [|split]]]; intros; lia.
  - split; [|split; [|split; [|split]]].
    + now apply ty_step_var.
    + now apply ty_step_elems.
    + now apply ty_step_arr.
    + now apply ty_step_entries.
    + now apply ty_step_fields.
Qed.

(* whatever the bytes (of a packet-sized input) and the target, a value the decoder returns is a value of the struct type *)
Theorem decode_typed n sid prior bs v r :
  (S k <= 64)%nat -> tfin n e (TStruct sid) = true -> (tneed n e (TStruct sid) + k <= 64)%nat ->
  bytes_ok bs -> lenok bs -> decode_into e sid prior bs = DOk v r -> has_type e (TStruct sid) v /\ sfx r bs.
Proof.
  intros Hk Hfin Hn Hbs Hl E. unfold decode_into, reset_default in E.
  replace (4 * length bs + 64)%nat with (S (4 * length bs + 63)) in E by lia.
  assert (Hreset : has_type e (TStruct sid) (reset_val (S (4 * length bs + 63)) e sid)).
  { apply (reset_typed e k Hwf Hdt Harr (S k)); [|lia]. cbn [nest_ok]. apply forallb_forall. intros fd Hin.
    apply (ty_nest_nest e k). now apply (wf_nest k e Hwf sid). }
  cbn [reset_val] in E, Hreset. inversion Hreset as [? ? Hsc| | | | |? ? Hps]; subst; [discriminate|].
  match type of E with context [dec_fields _ _ _ ?ps0 _] => set (ps := ps0) in * end.
  destruct (dec_fields (S (4 * length bs + 63)) e (fields_of e sid) ps bs) as [vs r1| | | |] eqn:Ee; try discriminate. inversion E; subst.
  destruct n as [|n']; [discriminate|]. cbn [tfin tneed] in Hfin, Hn. rewrite forallb_forall in Hfin.
  destruct (ty_all (S (4 * length bs + 63))) as (_ & _ & _ & _ & HF).
  destruct (HF n' (fields_of e sid) ps bs vs r) as (Hvs & Hs); try assumption; try lia.
  { intros fd Hin. repeat split; [now apply Hfin|now apply (Harr sid)|now apply (wf_nest k e Hwf sid)]. }
  split; [now apply HT_struct|assumption].
Qed.
End TypedDec2.
Print Assumptions decode_typed.

(* C03, canonicity made exact: on an accepted input (everything consumed), decode-then-encode gives the input back
   exactly when the input is an image of the encoder on a well-typed value *)
Theorem reencode_exact e k n sid bs v :
  wf_schema k e -> defaults_typed e -> arrs_ok e -> (S k <= 64)%nat ->
  tfin n e (TStruct sid) = true -> (tneed n e (TStruct sid) + k <= 64)%nat ->
  bytes_ok bs -> lenok bs -> decode e sid bs = DOk v [] ->
  (encode e sid v = bs <-> exists vs, has_type e (TStruct sid) (VStruct vs) /\ bs = encode e sid (VStruct vs)).
Proof.
  intros Hwf Hdt Harr Hk Hfin Hn Hbs Hl E. split.
  - intros Eb. destruct (decode_typed e k Hwf Hdt Harr n sid _ bs v [] Hk Hfin Hn Hbs Hl E) as [Hv _].
    inversion Hv as [? ? Hsc| | | | |? vs Hvs]; subst; [discriminate|]. exists vs. split; [exact Hv|now symmetry].
  - intros (vs & Hty & ->). pose proof (roundtrip_struct_static e k n sid vs Hwf Hk Hfin Hn Hty) as D.
    rewrite D in E. assert (v = norm_struct e sid (VStruct vs)) by (inversion E; reflexivity). subst v.
    now apply encode_norm.
Qed.
Print Assumptions reencode_exact.

(* canonicalisation preserves the meaning: the re-encoding of whatever was accepted decodes, with everything consumed,
   to a value equal to the one first decoded (and, by encode_norm, re-encoding again changes nothing) *)
Theorem reencode_meaning e k n sid bs v :
  wf_schema k e -> defaults_typed e -> arrs_ok e -> (S k <= 64)%nat ->
  tfin n e (TStruct sid) = true -> (tneed n e (TStruct sid) + k <= 64)%nat ->
  bytes_ok bs -> lenok bs -> decode e sid bs = DOk v [] ->
  exists v', decode e sid (encode e sid v) = DOk v' [] /\ veq e (TStruct sid) v' v /\ encode e sid v' = encode e sid v.
Proof.
  intros Hwf Hdt Harr Hk Hfin Hn Hbs Hl E.
  destruct (decode_typed e k Hwf Hdt Harr n sid _ bs v [] Hk Hfin Hn Hbs Hl E) as [Hv _].
  inversion Hv as [? ? Hsc| | | | |? vs Hvs]; subst; [discriminate|].
  exists (norm_struct e sid (VStruct vs)). split; [now apply (roundtrip_struct_static e k n)|].
  split; [now apply norm_veq|now apply encode_norm].
Qed.
Print Assumptions reencode_meaning.
