(* C05T correspondence: one case = an input and what the implementation did with it; the check re-derives the
   observation from the models of Tup.v and Packet.v. *)
From Coq Require Import List NArith ZArith Bool Arith.
From TarsV Require Import Gen.Consts Base.Hex Codec.Wire Codec.Skip Codec.Prim Codec.GenCodec Codec.Corr
  Frame.Framing Codec.Tup Codec.Packet Gen.Schemas.
Import ListNotations.
Open Scope N_scope.

Definition hattrs := list (hexs * hexs).
Definition un (m : hattrs) : attrs := map (fun p => (unhex (fst p), unhex (snd p))) m.
Definition sim2 (a b : attrs) : bool := attrs_sim a b && attrs_sim b a.

Definition opt_eqb (a b : option (list N)) : bool :=
  match a, b with Some x, Some y => bytes_eqb x y | None, None => true | _, _ => false end.

(* observed status of UniAttribute.Decode *)
Definition st_ok : N := 0. Definition st_err : N := 1. Definition st_panic : N := 2.

Inductive tcase :=
(* Decode into an attribute set holding [prior]: status, bytes left in the reader, the set afterwards (sorted by
   the harness, one binding per key), GetBuffer probes (key, None = "donot find key") *)
| TDec (prior : hattrs) (bytes : hexs) (st remaining : N) (final : hattrs) (probes : list (hexs * option hexs))
(* Encode of the set [m] (one binding per key, sorted by the harness): the bytes it produced *)
| TEnc (m : hattrs) (bytes : hexs)
(* RequestPack: the packet, and the value the implementation decodes from its body *)
| PReq (bytes : hexs) (decoded : val)
(* rsp2Byte of [rsp]: the packet *)
| PSrv (rsp : val) (bytes : hexs)
(* ResponseUnpack *)
| PRsp (pkg : hexs) (obs : dobs)
(* ParsePackage *)
| PParse (buf : hexs) (n st : N)
(* Protocol.InvokeTimeout: the reply (None: it panicked) *)
| PTmo (pkg : hexs) (reply : option hexs).

Definition rq := sid_requestf_RequestPacket.
Definition rs := sid_requestf_ResponsePacket.

(* a packet whose header announces exactly its length and whose body is the encoding of a value that is
   [expected] up to map order: decode the body with the model, compare, re-encode byte-exact *)
Definition packet_of (sid : nat) (expected : val) (pkt : list N) : bool :=
  match hdr pkt with
  | Some l => (l =? N.of_nat (length pkt)) &&
              let body := skipn 4 pkt in
              match decode env0 sid body with
              | DOk v [] => val_sim (canon v) expected && bytes_eqb (frame (encode env0 sid v)) pkt
              | _ => false
              end
  | None => false
  end.

Definition tcase_check (c : tcase) : bool :=
  match c with
  | TDec prior bytes st remaining final probes =>
      let o := tup_decode (unhex bytes) in
      let m := un prior ++ t_ins o in
      let same := sim2 (dedupe m) (un final) &&
                  forallb (fun p => opt_eqb (get m (unhex (fst p))) (option_map unhex (snd p))) probes in
      match t_stat o with
      | TSOk => (st =? st_ok) && (len (t_rest o) =? remaining) && same
      | TSErr => (st =? st_err) && same
      | TSFuel => false
      end
  | TEnc m bytes =>
      let o := tup_decode (unhex bytes) in
      match t_stat o, t_rest o with
      | TSOk, [] => sim2 (t_ins o) (un m) && bytes_eqb (tup_encode (t_ins o)) (unhex bytes)
      | _, _ => false
      end
  | PReq bytes decoded => packet_of rq decoded (unhex bytes)
  | PSrv rsp bytes =>
      let '(sid, v) := rsp_body env0 rq rs c_TUPVERSION rsp in packet_of sid v (unhex bytes)
  | PRsp pkg obs =>
      match response_unpack env0 rs (unhex pkg), obs with
      | DOk v _, OVal o => val_sim (canon v) o
      | DErr, OErr => true
      | DHuge, OErr => true
      | DPanic _, OPanic => true
      | _, _ => false
      end
  | PParse buf n st =>
      let '(n', st') := parse_package c_maxPackageLength (unhex buf) in (n =? n') && (st =? st')
  | PTmo pkg reply =>
      match invoke_timeout env0 rq rs c_TUPVERSION (unhex pkg), reply with
      | DOk bs _, Some o => bytes_eqb bs (unhex o)
      | DErr, Some _ => true          (* built from a partially read request: not predicted *)
      | DHuge, Some _ => true
      | DPanic _, None => true
      | _, _ => false
      end
  end.
Definition tcase_mismatches (off : N) (cs : list tcase) : list N := failing_from tcase_check off cs.
