(* C12 — graceful shutdown of a TCP server (tars/transport/tarsserver.go Shutdown, tcphandler.go Handle / recv /
   handleConn / CloseIdles / sendCloseMsg, tars/util/gpool): a labelled transition system over connections and
   requests. Definitions only.

   Goroutines of the code and their steps:
     accept loop      LConnect (Accept + conns.Store), LAcceptErr (a non-timeout Accept error: logged, the loop goes on),
                      LAcceptExit (isListenClosed := 1)
     recv (per conn)  LReadBytes (conn.Read returned a whole request), LRead (handleConn: numInvoke++ — two steps, as in
                      the code), LEnqueue (JobQueue <- handler; pool only),
                      LRecvExit (recv returns: isClosed = 1, read error, nothing buffered),
                      LRecvClose (deferred: numInvoke = 0 seen on a 500 ms tick, conn.Close, conns.Delete),
                      LRecvGone (same for a connection the poller closed already)
     pool dispatcher  LTake (job := <-JobQueue), LStart (worker.JobChannel <- job), LPoolStop (takes `stop`: the
                      unrepaired code releases the pool as soon as the accept loop ended, the repaired code only
                      after every receive loop has returned)
     handler          LStart (pool 0: the goroutine runs), LFinish (response written, numInvoke--)
     Shutdown poller  LShutdown (isClosed := 1, OnShutdown), LPollBegin (tick: close message to every connection of the
                      table when isListenClosed = 1, then := 2), LPollCheck (numInvoke = 0 and idle tested) and LPollClose (conn.Close()) — two steps, as in the code,
                      LPollReturn (CloseIdles returned true), LPollEnd (returned false), LCtxExpire (Shutdown returns;
                      the CloseIdles call in flight, if any, still finishes: LPollClose / LPollEnd stay enabled)
                      ghost earlypoll: some tick began while isListenClosed was still 0 (the accept loop had not yet
                      noticed isClosed; the code wakes it with SetDeadline(now) 500 ms before the first tick)
     process          LExit (tars.Run returned after Shutdown returned; the process ends, every socket dies)
     clients          LSend (a client that resets its connection is not a label: for the server it is a connection of the
                      table like any other until its receive loop closes it; the close message is attempted on it, the
                      failed write does not concern the other connections — LPollBegin notifies each one on its own)
   numInvoke of a connection is the length of the ghost list [busy]: a request is counted from handleConn's increment
   (LRead — a separate step after conn.Read returned it, LReadBytes) until its response is written (LFinish),
   i.e. also while it is Pending, Queued or in the dispatcher's hand. *)
From Coq Require Import List NArith Bool Arith.
Import ListNotations.

Definition cid := nat.
Definition rid := nat.
Definition req := (cid * rid)%type.

Definition req_eqb (a b : req) : bool := (fst a =? fst b) && (snd a =? snd b).

Inductive rstate := Fresh | InFlight | Pending | Spawned | Queued | InHand | Running | Answered | Lost.
Inductive cstate := CNone | COpen | CExited | CClosed.
Inductive sphase := SRun | SDown | SRetDrained | SRetCtx | SExited.

Definition rstate_eqb (a b : rstate) : bool :=
  match a, b with
  | Fresh, Fresh | InFlight, InFlight | Pending, Pending | Spawned, Spawned | Queued, Queued
  | InHand, InHand | Running, Running | Answered, Answered | Lost, Lost => true
  | _, _ => false end.
Definition cstate_eqb (a b : cstate) : bool :=
  match a, b with CNone, CNone | COpen, COpen | CExited, CExited | CClosed, CClosed => true | _, _ => false end.

(* a request that was read (numInvoke counted) and is not answered yet *)
Definition unanswered (x : rstate) : bool :=
  match x with Pending | Spawned | Queued | InHand | Running => true | _ => false end.

Record state := {
  ph : sphase;
  listen : nat;                    (* isListenClosed: 0, 1, 2 *)
  inpoll : bool;                   (* CloseIdles is running *)
  known : list cid;                (* every connection ever accepted *)
  cst : cid -> cstate;
  inmap : cid -> bool;             (* in tcpHandler.conns *)
  notified : cid -> bool;          (* close message written to it *)
  polled : cid -> bool;            (* a poller tick happened since its recv returned *)
  busy : cid -> list rid;          (* ghost: requests counted in numInvoke *)
  pend : cid -> option rid;        (* recv blocked in JobQueue <- handler *)
  rs : cid -> rid -> rstate;
  queue : list req;                (* pool.JobQueue *)
  hand : option req;               (* job held by the dispatcher *)
  running : list req;              (* jobs on workers / handler goroutines that run *)
  stopped : bool;                  (* dispatcher took `stop` *)
  earlypoll : bool;                (* ghost: a poller tick began while the listener was still up (isListenClosed = 0) *)
  rdbuf : cid -> option rid;       (* recv: Read has returned this request, handleConn has not yet done numInvoke++ *)
  chk : cid -> bool;               (* CloseIdles: numInvoke = 0 and idle were tested for this connection, Close not yet called *)
  raced : bool                     (* ghost: one of the two windows above was hit (bytes read between the poller's test and
                                      its Close, or the test made while a request was read and not yet counted) *)
}.

Inductive label :=
| LConnect (c : cid) | LSend (c : cid) (r : rid) | LReadBytes (c : cid) (r : rid) | LRead (c : cid) (r : rid)
| LEnqueue (c : cid) (r : rid)
| LTake (c : cid) (r : rid) | LStart (c : cid) (r : rid) | LFinish (c : cid) (r : rid)
| LShutdown | LAcceptExit | LPoolStop
| LAcceptErr
| LPollBegin | LPollCheck (c : cid) | LPollClose (c : cid) | LPollReturn | LPollEnd
| LRecvExit (c : cid) | LRecvClose (c : cid) | LRecvGone (c : cid)
| LCtxExpire | LExit.

Definition upd {A} (f : nat -> A) (k : nat) (v : A) : nat -> A := fun x => if x =? k then v else f x.
Definition upd2 {A} (f : nat -> nat -> A) (k1 k2 : nat) (v : A) : nat -> nat -> A :=
  fun x y => if (x =? k1) && (y =? k2) then v else f x y.
Definition remove_nat (r : nat) (l : list nat) : list nat := filter (fun x => negb (x =? r)) l.
Definition remove_req (q : req) (l : list req) : list req := filter (fun x => negb (req_eqb x q)) l.

Section Shutdown.
Variable W : nat.        (* maxroutine: 0 = one goroutine per request, > 0 = worker pool of W workers *)
Variable cap : N.        (* capacity of JobQueue *)
Variable early : bool.   (* true: the pool is released when the accept loop exits (the code before fix 0e6f835);
                            false: only after every receive loop has returned *)

Definition init : state :=
  {| ph := SRun; listen := 0; inpoll := false; known := []; cst := fun _ => CNone; inmap := fun _ => false;
     notified := fun _ => false; polled := fun _ => false; busy := fun _ => []; pend := fun _ => None;
     rs := fun _ _ => Fresh; queue := []; hand := None; running := []; stopped := false; earlypoll := false;
     rdbuf := fun _ => None; chk := fun _ => false; raced := false |}.

Definition set_conn (s : state) (c : cid) (st : cstate) (im nt pl : bool) : state :=
  {| ph := ph s; listen := listen s; inpoll := inpoll s; known := known s; cst := upd (cst s) c st;
     inmap := upd (inmap s) c im; notified := upd (notified s) c nt; polled := upd (polled s) c pl;
     busy := busy s; pend := pend s; rs := rs s; queue := queue s; hand := hand s; running := running s;
     stopped := stopped s; earlypoll := earlypoll s; rdbuf := rdbuf s; chk := chk s; raced := raced s |}.

Definition set_srv (s : state) (p : sphase) (l : nat) (ip : bool) : state :=
  {| ph := p; listen := l; inpoll := ip; known := known s; cst := cst s; inmap := inmap s; notified := notified s;
     polled := polled s; busy := busy s; pend := pend s; rs := rs s; queue := queue s; hand := hand s;
     running := running s; stopped := stopped s; earlypoll := earlypoll s; rdbuf := rdbuf s; chk := chk s;
     raced := raced s |}.

(* request/pool part *)
Definition set_req (s : state) (c : cid) (r : rid) (x : rstate) (b : list rid) (p : option rid)
                   (q : list req) (h : option req) (ru : list req) : state :=
  {| ph := ph s; listen := listen s; inpoll := inpoll s; known := known s; cst := cst s; inmap := inmap s;
     notified := notified s; polled := polled s; busy := upd (busy s) c b; pend := upd (pend s) c p;
     rs := upd2 (rs s) c r x; queue := q; hand := h; running := ru; stopped := stopped s; earlypoll := earlypoll s;
     rdbuf := rdbuf s; chk := chk s; raced := raced s |}.

(* the two windows: what recv holds uncounted, what the poller has tested and not yet closed, and the ghost flag *)
Definition set_aux (s : state) (rd : cid -> option rid) (ck : cid -> bool) (rc : bool) : state :=
  {| ph := ph s; listen := listen s; inpoll := inpoll s; known := known s; cst := cst s; inmap := inmap s;
     notified := notified s; polled := polled s; busy := busy s; pend := pend s; rs := rs s; queue := queue s;
     hand := hand s; running := running s; stopped := stopped s; earlypoll := earlypoll s;
     rdbuf := rd; chk := ck; raced := rc |}.

Definition is_some {A} (o : option A) : bool := match o with Some _ => true | None => false end.

(* the poller handles one connection at a time: no test is pending when a CloseIdles call ends *)
Definition nochk (s : state) : bool := forallb (fun c => negb (chk s c)) (known s).

Definition all_closed (s : state) : bool :=
  forallb (fun c => negb (inmap s c) || cstate_eqb (cst s c) CClosed) (known s).

(* every receive loop has returned: no connection is left in tcpHandler.conns *)
Definition all_gone (s : state) : bool := forallb (fun c => negb (inmap s c)) (known s).

Definition is_down (p : sphase) : bool := match p with SDown => true | _ => false end.
(* Shutdown has returned (or the process is gone): no further poller tick will begin *)
Definition returned (p : sphase) : bool := match p with SRetDrained | SRetCtx | SExited => true | _ => false end.
(* a CloseIdles call can be running: during Shutdown, and — since it runs beside the select on the context — the one
   in flight when the context expired goes on after Shutdown returned *)
Definition poller_live (p : sphase) : bool := match p with SDown | SRetCtx => true | _ => false end.
Definition alive (p : sphase) : bool := match p with SExited => false | _ => true end.
(* isClosed = 1 *)
Definition closed_flag (p : sphase) : bool := match p with SRun => false | _ => true end.

Definition step (s : state) (l : label) : option state :=
  if negb (alive (ph s)) then None else
  match l with
  | LConnect c =>
      if (listen s =? 0) && cstate_eqb (cst s c) CNone then
        Some (let s' := set_conn s c COpen true false false in
              {| ph := ph s'; listen := listen s'; inpoll := inpoll s'; known := c :: known s'; cst := cst s';
                 inmap := inmap s'; notified := notified s'; polled := polled s'; busy := busy s'; pend := pend s';
                 rs := rs s'; queue := queue s'; hand := hand s'; running := running s'; stopped := stopped s';
                 earlypoll := earlypoll s'; rdbuf := rdbuf s'; chk := chk s'; raced := raced s' |})
      else None
  | LSend c r =>
      if rstate_eqb (rs s c r) Fresh then
        Some (set_req s c r InFlight (busy s c) (pend s c) (queue s) (hand s) (running s))
      else None
  | LReadBytes c r =>
      (* recv: conn.Read returned the bytes of request r (a whole request parsed); handleConn not yet entered *)
      match cst s c, rs s c r, pend s c, rdbuf s c with
      | COpen, InFlight, None, None => Some (set_aux s (upd (rdbuf s) c (Some r)) (chk s) (raced s || chk s c))
      | _, _, _, _ => None end
  | LRead c r =>
      (* handleConn: numInvoke++ and the handler spawned / on its way to JobQueue — also on a connection that the
         poller closed in between *)
      match rdbuf s c, rs s c r with
      | Some r', InFlight =>
          if r' =? r then
            if W =? 0 then
              Some (set_aux (set_req s c r Spawned (r :: busy s c) None (queue s) (hand s) (running s))
                            (upd (rdbuf s) c None) (chk s) (raced s))
            else
              Some (set_aux (set_req s c r Pending (r :: busy s c) (Some r) (queue s) (hand s) (running s))
                            (upd (rdbuf s) c None) (chk s) (raced s))
          else None
      | _, _ => None end
  | LEnqueue c r =>
      match pend s c, rs s c r with
      | Some r', Pending =>
          if (r' =? r) && (N.of_nat (length (queue s)) <? cap)%N then
            Some (set_req s c r Queued (busy s c) None (queue s ++ [(c, r)]) (hand s) (running s))
          else None
      | _, _ => None end
  | LTake c r =>
      (* the order of JobQueue is abstracted: the dispatcher may receive any queued job *)
      match hand s with
      | None =>
          if negb (W =? 0) && negb (stopped s) && existsb (req_eqb (c, r)) (queue s) then
            Some (set_req s c r InHand (busy s c) (pend s c) (remove_req (c, r) (queue s)) (Some (c, r)) (running s))
          else None
      | Some _ => None end
  | LStart c r =>
      if W =? 0 then
        if rstate_eqb (rs s c r) Spawned then
          Some (set_req s c r Running (busy s c) (pend s c) (queue s) (hand s) ((c, r) :: running s))
        else None
      else
        match hand s with
        | Some q => if req_eqb q (c, r) && (length (running s) <? W) then
                      Some (set_req s c r Running (busy s c) (pend s c) (queue s) None ((c, r) :: running s))
                    else None
        | None => None end
  | LFinish c r =>
      if rstate_eqb (rs s c r) Running then
        Some (set_req s c r (if cstate_eqb (cst s c) CClosed then Lost else Answered)
                      (remove_nat r (busy s c)) (pend s c) (queue s) (hand s) (remove_req (c, r) (running s)))
      else None
  | LShutdown => match ph s with SRun => Some (set_srv s SDown (listen s) false) | _ => None end
  | LAcceptExit =>
      if closed_flag (ph s) && (listen s =? 0) then Some (set_srv s (ph s) 1 (inpoll s)) else None
  | LAcceptErr =>
      (* Accept returned an error that is not a timeout (EMFILE ...): logged, the loop goes on *)
      if listen s =? 0 then Some s else None
  | LPoolStop =>
      (* Handle after the accept loop: the unrepaired code releases the pool at once; the repaired code first waits
         for every receive loop to return (recvDone.Wait()), i.e. no connection is left in the table *)
      match hand s with
      | None => if negb (W =? 0) && negb (listen s =? 0) && negb (stopped s) && (early || all_gone s) then
                  Some {| ph := ph s; listen := listen s; inpoll := inpoll s; known := known s; cst := cst s;
                          inmap := inmap s; notified := notified s; polled := polled s; busy := busy s; pend := pend s;
                          rs := rs s; queue := queue s; hand := hand s; running := running s; stopped := true;
                          earlypoll := earlypoll s; rdbuf := rdbuf s; chk := chk s; raced := raced s |}
                else None
      | Some _ => None end
  | LPollBegin =>
      if is_down (ph s) && negb (inpoll s) then
        let nt := if listen s =? 1 then (fun c => notified s c || (inmap s c && negb (cstate_eqb (cst s c) CClosed)))
                  else notified s in
        Some {| ph := ph s; listen := (if listen s =? 1 then 2 else listen s); inpoll := true; known := known s;
                cst := cst s; inmap := inmap s; notified := nt; polled := (fun _ => true); busy := busy s;
                pend := pend s; rs := rs s; queue := queue s; hand := hand s; running := running s;
                stopped := stopped s; earlypoll := earlypoll s || (listen s =? 0); rdbuf := rdbuf s; chk := chk s;
                raced := raced s |}
      else None
  | LPollCheck c =>
      (* CloseIdles, one connection of the Range: numInvoke = 0 (and idle long enough) tested *)
      if poller_live (ph s) && inpoll s && inmap s c then
        match cst s c, busy s c with
        | COpen, [] | CExited, [] => Some (set_aux s (rdbuf s) (upd (chk s) c true) (raced s || is_some (rdbuf s c)))
        | _, _ => None end
      else None
  | LPollClose c =>
      (* ... and conn.Close() on it, whatever happened since the test *)
      if chk s c then
        match cst s c with
        | COpen | CExited =>
            Some (set_aux (set_conn s c CClosed true (notified s c) (polled s c)) (rdbuf s) (upd (chk s) c false) (raced s))
        | CClosed => Some (set_aux s (rdbuf s) (upd (chk s) c false) (raced s))   (* its receive loop closed it meanwhile *)
        | CNone => None end
      else None
  | LPollReturn =>
      if is_down (ph s) && inpoll s && all_closed s && nochk s then Some (set_srv s SRetDrained (listen s) false) else None
  | LPollEnd =>
      if poller_live (ph s) && inpoll s && nochk s then Some (set_srv s (ph s) (listen s) false) else None
  | LRecvExit c =>
      match cst s c, pend s c, rdbuf s c with
      | COpen, None, None => if closed_flag (ph s) then Some (set_conn s c CExited true (notified s c) false) else None
      | _, _, _ => None end
  | LRecvClose c =>
      match cst s c, busy s c with
      | CExited, [] =>
          (* the receive loop's own 500 ms drain tick; while Shutdown polls (same period) a poller tick lies in between *)
          if polled s c || returned (ph s) then Some (set_conn s c CClosed false (notified s c) (polled s c)) else None
      | _, _ => None end
  | LRecvGone c =>
      (* the receive loop of a connection the poller closed: Read fails, the loop returns, its deferred function
         waits for numInvoke = 0 and removes the connection from the table *)
      match cst s c, busy s c, rdbuf s c with
      | CClosed, [], None => if inmap s c then Some (set_conn s c CClosed false (notified s c) (polled s c)) else None
      | _, _, _ => None end
  | LCtxExpire => if is_down (ph s) then Some (set_srv s SRetCtx (listen s) (inpoll s)) else None
  | LExit => match ph s with
             | SRetDrained | SRetCtx => Some (set_srv s SExited (listen s) (inpoll s))
             | _ => None end
  end.

Fixpoint run (s : state) (ls : list label) : option state :=
  match ls with
  | [] => Some s
  | l :: r => match step s l with Some s' => run s' r | None => None end
  end.

(* the request pipeline: steps that move a read request towards its answer *)
Definition pipeline_enabled (s : state) : bool :=
  existsb (fun c => existsb (fun r =>
      match step s (LEnqueue c r), step s (LTake c r), step s (LStart c r), step s (LFinish c r) with
      | None, None, None, None => false | _, _, _, _ => true end) (busy s c)) (known s).

Definition some_unanswered (s : state) : bool :=
  existsb (fun c => match busy s c with [] => false | _ => true end) (known s).

End Shutdown.

(* ------------------------------------------------------------------------------------------------------------ *)
(* Trace validation. The harness records what scripted clients, the servant and a state poller observe of one real
   shutdown; [accepts] replays the observations on [step], inserting the steps nobody can observe (read, enqueue,
   take, accept-loop exit, recv exit, poller ticks) at the latest point that explains the observation. Every
   observation is logged after (connect, readall, start, resp, notify, eof, listendown, returned) or before
   (send, trigger, finish-of-handler) the step it stands for, so "latest" is always a possible position. *)

Inductive obs :=
| OConnect (c : cid)            (* the connection is in the server's table *)
| OSend (c : cid) (r : rid)     (* about to be written *)
| OReadAll (c : cid) (n : nat)  (* numInvoke + responses show that requests 0..n-1 of c were read *)
| OStart (c : cid) (r : rid)    (* handler entered *)
| OEnd (c : cid) (r : rid)      (* handler about to return *)
| OResp (c : cid) (r : rid)     (* response received by the client *)
| ONotify (c : cid)             (* close message received *)
| OEof (c : cid)                (* server closed the connection *)
| OTrigger                      (* signal about to be sent *)
| OListenDown                   (* isListenClosed >= 1 seen *)
| OReturned (drained : bool)    (* tars.Run returned; drained = well before the grace timeout *)
| OExit.

Section Accepts.
Variable W : nat.
Variable cap : N.
Notation stepR := (step W cap false).

(* replay state: model state + the requests whose handler was seen to return (their LFinish may be placed anywhere
   after that observation) *)
Definition rstate2 := (state * list req)%type.

Definition try (s : state) (l : label) : state := match stepR s l with Some s' => s' | None => s end.

(* receivers blocked on JobQueue <- handler go ahead when there is room *)
Definition pump (s : state) : state :=
  fold_left (fun st c => match pend st c with Some r => try st (LEnqueue c r) | None => st end) (known s) s.

(* finish the handlers that were seen to return *)
Definition settle (s : state) (ended : list req) : state :=
  fold_left (fun st q => if rstate_eqb (rs st (fst q) (snd q)) Running then try st (LFinish (fst q) (snd q)) else st) ended s.

Definition ensure_read (s : option state) (c : cid) (r : rid) : option state :=
  match s with
  | None => None
  | Some s =>
      if unanswered (rs s c r) || rstate_eqb (rs s c r) Answered then Some s
      else match stepR (pump s) (LReadBytes c r) with
           | Some s0 => match stepR s0 (LRead c r) with
                        | Some s' => Some (pump s')
                        | None => None end
           | None => None end
  end.

Definition ensure_started (s : state) (ended : list req) (c : cid) (r : rid) : option state :=
  match ensure_read (Some s) c r with
  | None => None
  | Some s1 =>
      if rstate_eqb (rs s1 c r) Running || rstate_eqb (rs s1 c r) Answered then Some s1
      else if W =? 0 then stepR s1 (LStart c r)
      else
        let s2 := if length (running s1) <? W then s1 else settle s1 ended in
        match stepR s2 (LTake c r) with
        | Some s3 => match stepR s3 (LStart c r) with Some s4 => Some (pump s4) | None => None end
        | None => None end
  end.

Definition ensure_down (s : state) : state := try (try s LShutdown) LAcceptExit.

Definition poll_tick (s : state) : state := try (try (ensure_down s) LPollEnd) LPollBegin.

(* the close message of c: a poller tick with isListenClosed = 1 *)
Definition ensure_notified (s : state) (c : cid) : option state :=
  if notified s c then Some s
  else let s1 := poll_tick s in if notified s1 c then Some s1 else None.

Definition ensure_closed (s : state) (ended : list req) (c : cid) : option state :=
  match cst s c with
  | CClosed => Some s
  | COpen | CExited =>
      let s0 := settle (pump s) ended in
      let s1 := match cst s0 c with COpen => try (try s0 LShutdown) (LRecvExit c) | _ => s0 end in
      let s2 := if polled s1 c then s1 else poll_tick s1 in
      stepR s2 (LRecvClose c)
  | CNone => None
  end.

Definition ensure_returned (s : state) (ended : list req) (drained : bool) : option state :=
  if drained then
    match fold_left (fun st c => match st with
                                 | Some st => if inmap st c then ensure_closed st ended c else Some st
                                 | None => None end) (known s) (Some s) with
    | Some s1 => stepR (poll_tick s1) LPollReturn
    | None => None end
  else stepR (poll_tick (try s LShutdown)) LCtxExpire.

Definition obs_step (se : rstate2) (o : obs) : option rstate2 :=
  let '(s, ended) := se in
  let keep := fun (x : option state) => match x with Some s' => Some (s', ended) | None => None end in
  match o with
  | OConnect c => keep (stepR s (LConnect c))
  | OSend c r => keep (stepR s (LSend c r))
  | OReadAll c n => keep (fold_left (fun st r => ensure_read st c r) (seq 0 n) (Some s))
  | OStart c r => keep (ensure_started s ended c r)
  | OEnd c r => match ensure_started s ended c r with
                | Some s1 => if rstate_eqb (rs s1 c r) Running then Some (s1, (c, r) :: ended) else None
                | None => None end
  | OResp c r =>
      if existsb (req_eqb (c, r)) ended then
        match rs s c r with
        | Answered => Some (s, ended)
        | Running => match stepR s (LFinish c r) with
                     | Some s2 => if rstate_eqb (rs s2 c r) Answered then Some (pump s2, ended) else None
                     | None => None end
        | _ => None end
      else None
  | ONotify c => keep (ensure_notified s c)
  | OEof c => keep (ensure_closed s ended c)
  | OTrigger => keep (stepR s LShutdown)
  | OListenDown => let s1 := ensure_down s in if listen s1 =? 0 then None else Some (s1, ended)
  | OReturned d => keep (ensure_returned s ended d)
  | OExit => keep (stepR s LExit)
  end.

Fixpoint obs_run (s : rstate2) (tr : list obs) : option rstate2 :=
  match tr with
  | [] => Some s
  | o :: r => match obs_step s o with Some s' => obs_run s' r | None => None end
  end.

(* a trace is accepted when it can be replayed and ends with the process exit *)
Definition accepts (tr : list obs) : bool :=
  match obs_run (init, []) tr with
  | Some (s, _) => match ph s with SExited => true | _ => false end
  | None => false end.

End Accepts.

(* one recorded shutdown: pool size, queue capacity, observations *)
Definition trace_case := (nat * N * list obs)%type.

Definition trace_ok (t : trace_case) : bool := let '(w, cp, tr) := t in accepts w cp tr.

Fixpoint mismatches_from (i : N) (l : list trace_case) : list N :=
  match l with
  | [] => []
  | t :: r => if trace_ok t then mismatches_from (i + 1)%N r else i :: mismatches_from (i + 1)%N r
  end.
Definition Mismatch (off : N) (l : list trace_case) : list N := mismatches_from off l.
