(* Invariants of the composed process machine (Conc/C08Sys.v), over all label sequences. *)
From Coq Require Import List ZArith NArith Bool Lia Arith ZifyNat.
From TarsV Require Import Rpc.ReqId Rpc.ReqIdProofs Conc.Pending Conc.PendingProofs Conc.C08Sys.
Import ListNotations.
Open Scope Z_scope.

(* ---------- lists ---------- *)
Lemma set_nth_length {A} (l : list A) n x : length (set_nth n x l) = length l.
Proof. revert n. induction l as [|y l IH]; intros [|n]; cbn; auto. Qed.

Lemma nth_set_nth_eq {A} (l : list A) n x d : (n < length l)%nat -> nth n (set_nth n x l) d = x.
Proof. revert n. induction l as [|y l IH]; intros [|n] H; cbn in *; try lia; auto. apply IH. lia. Qed.

Lemma nth_set_nth_neq {A} (l : list A) n m x d : n <> m -> nth m (set_nth n x l) d = nth m l d.
Proof. revert n m. induction l as [|y l IH]; intros [|n] [|m] H; cbn in *; try congruence; auto. Qed.

Lemma nth_error_rev_cons {A} (h : list A) v p x : nth_error (rev h) p = Some x -> nth_error (rev (v :: h)) p = Some x.
Proof. intros H. cbn [rev]. rewrite nth_error_app1; auto. apply nth_error_Some. congruence. Qed.

Lemma nth_error_rev_new {A} (h : list A) v : nth_error (rev (v :: h)) (length h) = Some v.
Proof. cbn [rev]. rewrite nth_error_app2; rewrite rev_length; auto. rewrite Nat.sub_diag. reflexivity. Qed.

Lemma nth_error_lt {A} (l : list A) p x : nth_error l p = Some x -> (p < length l)%nat.
Proof. intros H. apply nth_error_Some. congruence. Qed.

(* two positions holding the same value: the list splits around them *)
Lemma two_positions {A} (l : list A) p1 p2 x : (p1 < p2)%nat -> nth_error l p1 = Some x -> nth_error l p2 = Some x ->
  exists l1 l2 l3, l = l1 ++ x :: l2 ++ x :: l3 /\ length l1 = p1 /\ (length l2 = p2 - p1 - 1)%nat.
Proof.
  intros Hlt H1 H2. destruct (nth_error_split _ _ H1) as [l1 [r [E L1]]]. subst l.
  rewrite nth_error_app2 in H2 by lia. rewrite L1 in H2.
  destruct (p2 - p1)%nat as [|d] eqn:Ed; [lia|]. cbn [nth_error] in H2.
  destruct (nth_error_split _ _ H2) as [l2 [l3 [E2 L2]]]. subst r.
  exists l1, l2, l3. repeat split; auto. lia.
Qed.

(* ---------- the adapter machine: what a step does to the list of calls ---------- *)
Ltac step_cases E :=
  match type of E with Pending.step ?s ?l = Some ?s' =>
    destruct l; cbn [Pending.step] in E;
    repeat match type of E with
    | context [match nth_error ?a ?b with _ => _ end] => destruct (nth_error a b) eqn:?; [|discriminate E]
    | context [match c_pc ?c with _ => _ end] => destruct (c_pc c) eqn:?; try discriminate E
    | context [match r_pc ?c with _ => _ end] => destruct (r_pc c) eqn:?; try discriminate E
    end; inversion E; subst s'; clear E; cbn [table calls recvs] in *
  end.

Lemma step_calls_len s l s' : Pending.step s l = Some s' -> is_register l = false -> length (calls s') = length (calls s).
Proof. intros E R. step_cases E; try discriminate R; rewrite ?upd_length; auto. Qed.

Lemma step_calls_back s l s' : Pending.step s l = Some s' -> is_register l = false ->
  forall k c', nth_error (calls s') k = Some c' ->
  exists c, nth_error (calls s) k = Some c /\ c_id c = c_id c' /\ (active c' = true -> active c = true).
Proof.
  intros E R k c' H. pose proof (step_calls_len _ _ _ E R) as L.
  assert (Hk : (k < length (calls s))%nat) by (rewrite <- L; eapply nth_error_lt; eauto).
  destruct (nth_error (calls s) k) as [c|] eqn:Ec; [|apply nth_error_None in Ec; lia].
  exists c. split; auto.
  step_cases E; try discriminate R; try (rewrite Ec in H; inversion H; subst; auto; fail);
    rewrite nth_error_upd in H;
    match type of H with context [Nat.eqb ?x k] => destruct (Nat.eqb x k) eqn:Ek end;
    try (rewrite Ec in H; inversion H; subst; auto; fail);
    apply Nat.eqb_eq in Ek; subst;
    match goal with Hn : nth_error (calls s) k = Some ?c0 |- _ => rewrite Hn in H, Ec end;
    inversion H; inversion Ec; subst; cbn [c_id set_cpc]; split; auto; intros _; unfold active;
    match goal with Hp : c_pc _ = _ |- _ => rewrite Hp end; reflexivity.
Qed.

Lemma register_calls s id ow s' : Pending.step s (LRegister id ow) = Some s' ->
  calls s' = calls s ++ [{| c_id := id; c_oneway := ow; c_pc := CReg |}].
Proof. cbn [Pending.step]. intros E. inversion E. reflexivity. Qed.

Section Proofs.
  Variable maxi : Z.
  Hypothesis Hmax : maxi = 2147483647.
  Variable c0 : Z.
  Hypothesis Hc0 : in_i32 c0.

  Definition hpos (s : sys) (p : nat) : option Z := nth_error (rev (hist (gen s))) p.
  Definition thr (s : sys) (t : nat) : option tpc := nth_error (pcs (gen s)) t.
  Definition tp (s : sys) (t : nat) : nat := nth t (tpos s) O.

  Record SI (s : sys) : Prop := {
    si_ops : exists ops, run_ops maxi c0 ops = (ctr (gen s), rev (hist (gen s)));
    si_len : length (tpos s) = length (pcs (gen s));
    si_reach : forall a ad, nth_error (ads s) a = Some ad -> exists ls, Pending.run Pending.init ls = Some ad;
    si_born : forall a ad, nth_error (ads s) a = Some ad -> exists b, nth_error (born s) a = Some b /\ length b = length (calls ad);
    si_thr : forall t v, thr s t = Some (TDone v) -> hpos s (tp s t) = Some v /\ v <> 0;
    si_call : forall a k c p, call_at s a k c p -> hpos s p = Some (c_id c) /\ c_id c <> 0;
    si_tt : forall t1 t2 v1 v2, thr s t1 = Some (TDone v1) -> thr s t2 = Some (TDone v2) -> tp s t1 = tp s t2 -> t1 = t2;
    si_tc : forall t v a k c p, thr s t = Some (TDone v) -> call_at s a k c p -> p <> tp s t;
    si_cc : forall a1 k1 c1 a2 k2 c2 p, call_at s a1 k1 c1 p -> call_at s a2 k2 c2 p -> a1 = a2 /\ k1 = k2
  }.

  Lemma nth_error_repeat {A} (x : A) n k y : nth_error (repeat x n) k = Some y -> y = x.
  Proof. revert k. induction n; intros [|k] H; cbn in H; try discriminate; [inversion H; auto|eauto]. Qed.

  Lemma SI_init nt na : SI (sinit c0 nt na).
  Proof.
    constructor; unfold thr, tp, hpos, sinit, call_at; cbn [gen tpos ads born ReqId.init ctr pcs hist rev].
    - exists []. reflexivity.
    - rewrite !repeat_length. reflexivity.
    - intros a ad H. apply nth_error_repeat in H. subst. exists []. reflexivity.
    - intros a ad H. pose proof (nth_error_lt _ _ _ H) as L. rewrite repeat_length in L.
      apply nth_error_repeat in H. subst. exists []. split; auto.
      destruct (nth_error (repeat (@nil nat) na) a) eqn:E.
      + apply nth_error_repeat in E. subst. reflexivity.
      + apply nth_error_None in E. rewrite repeat_length in E. lia.
    - intros t v H. apply nth_error_repeat in H. discriminate.
    - intros a k c p [ad [b [A [B [C D]]]]]. apply nth_error_repeat in A. subst. destruct k; discriminate.
    - intros t1 t2 v1 v2 H. apply nth_error_repeat in H. discriminate.
    - intros t v a k c p H. apply nth_error_repeat in H. discriminate.
    - intros a1 k1 c1 a2 k2 c2 p [ad [b [A [B [C D]]]]]. apply nth_error_repeat in A. subst. destruct k1; discriminate.
  Qed.

  Lemma hpos_lt s p x : hpos s p = Some x -> (p < length (hist (gen s)))%nat.
  Proof. unfold hpos. intros H. apply nth_error_lt in H. rewrite rev_length in H. exact H. Qed.

  (* a step that creates neither a thread result nor a call *)
  Lemma SI_mono s s' : SI s ->
    (exists ops, run_ops maxi c0 ops = (ctr (gen s'), rev (hist (gen s')))) ->
    length (tpos s') = length (pcs (gen s')) ->
    (forall a ad, nth_error (ads s') a = Some ad -> exists ls, Pending.run Pending.init ls = Some ad) ->
    (forall a ad, nth_error (ads s') a = Some ad -> exists b, nth_error (born s') a = Some b /\ length b = length (calls ad)) ->
    (forall p x, hpos s p = Some x -> hpos s' p = Some x) ->
    (forall t v, thr s' t = Some (TDone v) -> thr s t = Some (TDone v) /\ tp s' t = tp s t) ->
    (forall a k c' p, call_at s' a k c' p -> exists c, call_at s a k c p /\ c_id c = c_id c') ->
    SI s'.
  Proof.
    intros I Ho Hl Hr Hb Hh Ht Hc. constructor; auto.
    - intros t v H. destruct (Ht _ _ H) as [A B]. rewrite B. destruct (si_thr _ I _ _ A). auto.
    - intros a k c p H. destruct (Hc _ _ _ _ H) as [c1 [A B]]. rewrite <- B. destruct (si_call _ I _ _ _ _ A). auto.
    - intros t1 t2 v1 v2 H1 H2 E. destruct (Ht _ _ H1) as [A1 B1]. destruct (Ht _ _ H2) as [A2 B2].
      rewrite B1, B2 in E. eapply (si_tt _ I); eauto.
    - intros t v a k c p H1 H2. destruct (Ht _ _ H1) as [A1 B1]. destruct (Hc _ _ _ _ H2) as [c1 [A B]].
      rewrite B1. eapply (si_tc _ I); eauto.
    - intros a1 k1 c1 a2 k2 c2 p H1 H2. destruct (Hc _ _ _ _ H1) as [d1 [A1 B1]]. destruct (Hc _ _ _ _ H2) as [d2 [A2 B2]].
      eapply (si_cc _ I); eauto.
  Qed.

  Lemma call_at_same s s' a k c p : ads s' = ads s -> born s' = born s -> call_at s' a k c p -> call_at s a k c p.
  Proof. unfold call_at. intros -> ->. auto. Qed.

  Lemma SI_gen s gl g' : SI s -> ReqId.step maxi (gen s) gl = Some g' ->
    SI {| gen := g'; tpos := match gl with LAdd t => set_nth t (length (hist (gen s))) (tpos s) | _ => tpos s end;
          ads := ads s; born := born s |}.
  Proof.
    intros I E.
    destruct gl as [t|t|t]; cbn [ReqId.step] in E; destruct (nth_error (pcs (gen s)) t) as [[| | |v]|] eqn:Et;
      inversion E; subst g'; clear E.
    1-3: (apply (SI_mono s); auto; cbn [gen tpos ads born ctr pcs hist];
          [apply (si_ops _ I) || (destruct (si_ops _ I) as [ops Ho]; exists (ops ++ [OCas]); rewrite run_ops_app, Ho; cbn [run_ops]; rewrite app_nil_r; reflexivity)
          |rewrite set_nth_length; apply (si_len _ I)
          |apply (si_reach _ I)|apply (si_born _ I)
          |unfold thr, tp; cbn [gen tpos pcs]; intros t' v' H; rewrite nth_error_set_nth in H;
           destruct (Nat.eqb t t'); [rewrite Et in H; discriminate|auto]
          |intros a k c' p H; exists c'; split; auto]).
    (* Add *)
    set (v := add (ctr (gen s))).
    assert (Ltp : (t < length (tpos s))%nat) by (rewrite (si_len _ I); eapply nth_error_lt; eauto).
    constructor; unfold thr, tp, hpos; cbn [gen tpos ads born ctr pcs hist].
    - destruct (si_ops _ I) as [ops Ho]. exists (ops ++ [OAdd]). rewrite run_ops_app, Ho. cbn [run_ops rev]. reflexivity.
    - rewrite !set_nth_length. apply (si_len _ I).
    - apply (si_reach _ I).
    - apply (si_born _ I).
    - intros t' v' H. rewrite nth_error_set_nth in H. destruct (Nat.eqb t t') eqn:Ett.
      + apply Nat.eqb_eq in Ett. subst t'. rewrite Et in H. destruct (v =? 0) eqn:Ez; inversion H; subst v'.
        rewrite nth_set_nth_eq by auto. split; [apply nth_error_rev_new|apply Z.eqb_neq; auto].
      + apply Nat.eqb_neq in Ett. rewrite nth_set_nth_neq by auto. destruct (si_thr _ I _ _ H) as [A B].
        split; auto. apply nth_error_rev_cons. exact A.
    - intros a k c p H. destruct (si_call _ I _ _ _ _ H) as [A B]. split; auto. apply nth_error_rev_cons. exact A.
    - intros t1 t2 v1 v2 H1 H2 Etp. rewrite nth_error_set_nth in H1, H2.
      destruct (Nat.eqb t t1) eqn:E1; [apply Nat.eqb_eq in E1|apply Nat.eqb_neq in E1];
        (destruct (Nat.eqb t t2) eqn:E2; [apply Nat.eqb_eq in E2|apply Nat.eqb_neq in E2]); subst.
      + reflexivity.
      + rewrite nth_set_nth_eq in Etp by auto. rewrite nth_set_nth_neq in Etp by auto.
        destruct (si_thr _ I _ _ H2) as [A _]. apply hpos_lt in A. unfold tp in A. lia.
      + rewrite nth_set_nth_eq in Etp by auto. rewrite nth_set_nth_neq in Etp by auto.
        destruct (si_thr _ I _ _ H1) as [A _]. apply hpos_lt in A. unfold tp in A. lia.
      + rewrite !nth_set_nth_neq in Etp by auto. eapply (si_tt _ I); eauto.
    - intros t' v' a k c p H1 H2. rewrite nth_error_set_nth in H1. destruct (Nat.eqb t t') eqn:E1.
      + apply Nat.eqb_eq in E1. subst t'. rewrite nth_set_nth_eq by auto.
        destruct (si_call _ I _ _ _ _ H2) as [A _]. apply hpos_lt in A. lia.
      + apply Nat.eqb_neq in E1. rewrite nth_set_nth_neq by auto. eapply (si_tc _ I); eauto.
    - apply (si_cc _ I).
  Qed.

  (* an adapter step other than a registration *)
  Lemma SI_ad s a l ad ad' : SI s -> is_register l = false -> nth_error (ads s) a = Some ad -> Pending.step ad l = Some ad' ->
    SI {| gen := gen s; tpos := tpos s; ads := upd a ad' (ads s); born := born s |}.
  Proof.
    intros I R Ea E. apply (SI_mono s); [exact I|..]; cbn [gen tpos ads born].
    - apply (si_ops _ I).
    - apply (si_len _ I).
    - intros a' x H. rewrite nth_error_upd in H. destruct (Nat.eqb a a') eqn:Eq.
      + apply Nat.eqb_eq in Eq. subst a'. rewrite Ea in H. inversion H; subst x.
        destruct (si_reach _ I _ _ Ea) as [ls Hl]. exists (ls ++ [l]). rewrite PendingProofs.run_app, Hl. cbn [Pending.run]. rewrite E. reflexivity.
      + apply (si_reach _ I _ _ H).
    - intros a' x H. rewrite nth_error_upd in H. destruct (Nat.eqb a a') eqn:Eq.
      + apply Nat.eqb_eq in Eq. subst a'. rewrite Ea in H. inversion H; subst x.
        destruct (si_born _ I _ _ Ea) as [b [A B]]. exists b. split; auto. rewrite (step_calls_len _ _ _ E R). exact B.
      + apply (si_born _ I _ _ H).
    - intros p x H. exact H.
    - intros t' v' H. split; [exact H|reflexivity].
    - intros a' k c' p [x [b [A [B [C D]]]]]. cbn [ads born] in A, B. rewrite nth_error_upd in A. destruct (Nat.eqb a a') eqn:Eq.
      + apply Nat.eqb_eq in Eq. subst a'. rewrite Ea in A. inversion A; subst x.
        destruct (step_calls_back _ _ _ E R _ _ C) as [c [X [Y _]]]. exists c. split; auto. exists ad, b. auto.
      + exists c'. split; auto. exists x, b. auto.
  Qed.

  (* what the calls of the state after a registration are *)
  Lemma call_at_reg s t a ow v ad b ad' : SI s -> nth_error (ads s) a = Some ad -> nth_error (born s) a = Some b ->
    Pending.step ad (LRegister v ow) = Some ad' ->
    forall g' a' k c p,
    call_at {| gen := g'; tpos := tpos s; ads := upd a ad' (ads s); born := upd a (b ++ [tp s t]) (born s) |} a' k c p ->
    call_at s a' k c p \/ (a' = a /\ k = length (calls ad) /\ c_id c = v /\ p = tp s t).
  Proof.
    intros I Ea Eb E g' a' k c p [x [y [A [B [C D]]]]]. cbn [ads born] in A, B.
    rewrite nth_error_upd in A. rewrite nth_error_upd in B. destruct (Nat.eqb a a') eqn:Eq.
    - apply Nat.eqb_eq in Eq. subst a'. rewrite Ea in A. rewrite Eb in B. inversion A; subst x. inversion B; subst y.
      rewrite (register_calls _ _ _ _ E) in C. rewrite nth_error_snoc in C. rewrite nth_error_snoc in D.
      destruct (si_born _ I _ _ Ea) as [b0 [B0 L0]]. rewrite Eb in B0. inversion B0; subst b0. rewrite L0 in D.
      destruct (Nat.eqb k (length (calls ad))) eqn:Ek.
      + right. apply Nat.eqb_eq in Ek. inversion C; inversion D; subst. cbn [c_id]. auto.
      + left. exists ad, b. auto.
    - left. exists x, y. auto.
  Qed.

  Lemma SI_reg s t a ow v ad b ad' : SI s -> thr s t = Some (TDone v) -> nth_error (ads s) a = Some ad -> nth_error (born s) a = Some b ->
    Pending.step ad (LRegister v ow) = Some ad' ->
    SI {| gen := {| ctr := ctr (gen s); pcs := set_nth t TIdle (pcs (gen s)); hist := hist (gen s); ids := ids (gen s) |};
          tpos := tpos s; ads := upd a ad' (ads s); born := upd a (b ++ [tp s t]) (born s) |}.
  Proof.
    intros I Et Ea Eb E.
    pose proof (call_at_reg s t a ow v ad b ad' I Ea Eb E) as CR.
    assert (Hthr : forall t' v', nth_error (set_nth t TIdle (pcs (gen s))) t' = Some (TDone v') -> t' <> t /\ thr s t' = Some (TDone v')).
    { intros t' v' H. rewrite nth_error_set_nth in H. destruct (Nat.eqb t t') eqn:Eq.
      - unfold thr in Et. rewrite Et in H. discriminate.
      - apply Nat.eqb_neq in Eq. split; auto. }
    constructor; unfold thr, tp, hpos; cbn [gen tpos ctr pcs hist].
    - apply (si_ops _ I).
    - rewrite set_nth_length. apply (si_len _ I).
    - cbn [ads]. intros a' x H. rewrite nth_error_upd in H. destruct (Nat.eqb a a') eqn:Eq.
      + apply Nat.eqb_eq in Eq. subst a'. rewrite Ea in H. inversion H; subst x.
        destruct (si_reach _ I _ _ Ea) as [ls Hl]. exists (ls ++ [LRegister v ow]). rewrite PendingProofs.run_app, Hl. cbn [Pending.run]. rewrite E. reflexivity.
      + apply (si_reach _ I _ _ H).
    - cbn [ads born]. intros a' x H. rewrite nth_error_upd in H. rewrite nth_error_upd. destruct (Nat.eqb a a') eqn:Eq.
      + apply Nat.eqb_eq in Eq. subst a'. rewrite Ea in H. inversion H; subst x. rewrite Eb.
        exists (b ++ [tp s t]). split; auto. rewrite (register_calls _ _ _ _ E), !app_length. cbn [length].
        destruct (si_born _ I _ _ Ea) as [b0 [B0 L0]]. rewrite Eb in B0. inversion B0; subst b0. lia.
      + apply (si_born _ I _ _ H).
    - intros t' v' H. destruct (Hthr _ _ H) as [_ A]. apply (si_thr _ I _ _ A).
    - intros a' k c p H. destruct (CR _ _ _ _ _ H) as [A|[A1 [A2 [A3 A4]]]].
      + apply (si_call _ I _ _ _ _ A).
      + subst a' k p. rewrite A3. apply (si_thr _ I _ _ Et).
    - intros t1 t2 v1 v2 H1 H2 Etp. destruct (Hthr _ _ H1) as [_ A1]. destruct (Hthr _ _ H2) as [_ A2].
      eapply (si_tt _ I); eauto.
    - intros t' v' a' k c p H1 H2. destruct (Hthr _ _ H1) as [N1 A1]. destruct (CR _ _ _ _ _ H2) as [A|[B1 [B2 [B3 B4]]]].
      + eapply (si_tc _ I); eauto.
      + subst p. intros Etp. apply N1. eapply (si_tt _ I); eauto.
    - intros a1 k1 c1 a2 k2 c2 p H1 H2.
      destruct (CR _ _ _ _ _ H1) as [A|[A1 [A2 [A3 A4]]]]; destruct (CR _ _ _ _ _ H2) as [B|[B1 [B2 [B3 B4]]]].
      + eapply (si_cc _ I); eauto.
      + subst p. exfalso. eapply (si_tc _ I _ _ _ _ _ _ Et A). reflexivity.
      + subst p. exfalso. eapply (si_tc _ I _ _ _ _ _ _ Et B). reflexivity.
      + subst. auto.
  Qed.

  Lemma sstep_SI s l s' : SI s -> sstep maxi s l = Some s' -> SI s'.
  Proof.
    intros I E. destruct l as [gl|t a ow|a l]; cbn [sstep] in E.
    - destruct (ReqId.step maxi (gen s) gl) as [g'|] eqn:Eg; [|discriminate]. inversion E; subst s'. apply SI_gen; auto.
    - destruct (nth_error (pcs (gen s)) t) as [[| | |v]|] eqn:Et; try discriminate.
      destruct (nth_error (ads s) a) as [ad|] eqn:Ea; [|discriminate].
      destruct (nth_error (born s) a) as [b|] eqn:Eb; [|discriminate].
      destruct (Pending.step ad (LRegister v ow)) as [ad'|] eqn:Es; [|discriminate].
      inversion E; subst s'. eapply SI_reg; eauto.
    - destruct (is_register l) eqn:R; [discriminate|].
      destruct (nth_error (ads s) a) as [ad|] eqn:Ea; [|discriminate].
      destruct (Pending.step ad l) as [ad'|] eqn:Es; [|discriminate].
      inversion E; subst s'. eapply SI_ad; eauto.
  Qed.

  Lemma srun_SI ls : forall s s', SI s -> srun maxi s ls = Some s' -> SI s'.
  Proof.
    induction ls as [|l ls IH]; intros s s' I E; cbn [srun] in E.
    - inversion E; subst; auto.
    - destruct (sstep maxi s l) as [s1|] eqn:E1; [|discriminate]. eapply IH; [|exact E]. eapply sstep_SI; eauto.
  Qed.

  (* ---------- theorems ---------- *)
  Section Run.
    Variables (nt na : nat) (ls : list slabel) (s : sys).
    Hypothesis Hrun : srun maxi (sinit c0 nt na) ls = Some s.

    Lemma run_SI : SI s.
    Proof. eapply srun_SI; [apply SI_init|exact Hrun]. Qed.

    (* every adapter of the process is, on its own, a run of the adapter machine: all theorems of Conc/PendingProofs.v
       hold of it *)
    Theorem sys_adapter_is_run a ad : nth_error (ads s) a = Some ad -> exists pls, Pending.run Pending.init pls = Some ad.
    Proof. apply (si_reach _ run_SI). Qed.

    Theorem sys_ids_nonzero a k c p : call_at s a k c p -> c_id c <> 0.
    Proof. intros H. apply (si_call _ run_SI _ _ _ _ H). Qed.

    (* every call has its own allocation *)
    Theorem sys_own_allocation a1 k1 c1 a2 k2 c2 p : call_at s a1 k1 c1 p -> call_at s a2 k2 c2 p -> a1 = a2 /\ k1 = k2.
    Proof. apply (si_cc _ run_SI). Qed.

    Lemma far_lt p1 p2 x : (p1 < p2)%nat -> hpos s p1 = Some x -> hpos s p2 = Some x -> two31 - 2 <= Z.of_nat p2 - Z.of_nat p1.
    Proof.
      intros Hlt H1 H2. destruct (two_positions _ _ _ _ Hlt H1 H2) as [l1 [l2 [l3 [E [L1 L2]]]]].
      destruct (si_ops _ run_SI) as [ops Ho].
      assert (A : adds maxi c0 ops = l1 ++ x :: l2 ++ x :: l3) by (unfold adds; rewrite Ho; exact E).
      pose proof (adds_distance maxi Hmax c0 ops l1 x l2 l3 Hc0 A). lia.
    Qed.

    (* two different calls of the process — on whatever adapters, outstanding or not — that carry the same id were
       allocated at least 2^31-2 allocations apart *)
    Theorem sys_shared_id_far a1 k1 c1 p1 a2 k2 c2 p2 : call_at s a1 k1 c1 p1 -> call_at s a2 k2 c2 p2 ->
      (a1 <> a2 \/ k1 <> k2) -> c_id c1 = c_id c2 -> two31 - 2 <= Z.abs (Z.of_nat p1 - Z.of_nat p2).
    Proof.
      intros H1 H2 Hne Hid.
      destruct (si_call _ run_SI _ _ _ _ H1) as [A1 _]. destruct (si_call _ run_SI _ _ _ _ H2) as [A2 _].
      rewrite Hid in A1.
      destruct (Nat.lt_trichotomy p1 p2) as [L|[L|L]].
      - pose proof (far_lt _ _ _ L A1 A2). lia.
      - subst p2. destruct (si_cc _ run_SI _ _ _ _ _ _ _ H1 H2). tauto.
      - pose proof (far_lt _ _ _ L A2 A1). lia.
    Qed.

    (* no two concurrently outstanding calls of the process share an id, as long as no outstanding call has been
       overtaken by 2^31-2 later allocations *)
    Theorem sys_outstanding_distinct a1 k1 c1 p1 a2 k2 c2 p2 : all_young s ->
      call_at s a1 k1 c1 p1 -> call_at s a2 k2 c2 p2 -> active c1 = true -> active c2 = true ->
      c_id c1 = c_id c2 -> a1 = a2 /\ k1 = k2.
    Proof.
      intros Y H1 H2 Act1 Act2 Hid.
      destruct (Nat.eq_dec a1 a2) as [Ea|Ea]; [destruct (Nat.eq_dec k1 k2) as [Ek|Ek]; [auto|]|]; exfalso.
      all: pose proof (sys_shared_id_far _ _ _ _ _ _ _ _ H1 H2 ltac:(auto) Hid) as F;
        pose proof (Y _ _ _ _ H1 Act1) as Y1; pose proof (Y _ _ _ _ H2 Act2) as Y2;
        destruct (si_call _ run_SI _ _ _ _ H1) as [A1 _]; destruct (si_call _ run_SI _ _ _ _ H2) as [A2 _];
        apply hpos_lt in A1; apply hpos_lt in A2; unfold age, allocs in Y1, Y2; unfold two31 in F; lia.
    Qed.

    (* the reply a call holds carries the call's id, and (young calls) no other outstanding call of the process — on this
       or any other connection — has that id: it is addressed to nobody else *)
    Theorem sys_no_foreign_reply a k c p pk : all_young s -> call_at s a k c p -> c_pc c = CGot pk ->
      p_id pk = c_id c /\ p_id pk <> 0 /\
      forall a' k' c' p', call_at s a' k' c' p' -> active c' = true -> (a' <> a \/ k' <> k) -> c_id c' <> p_id pk.
    Proof.
      intros Y H Hpc. destruct H as [ad [b [A [B [C D]]]]].
      destruct (si_reach _ run_SI _ _ A) as [pls Hp].
      destruct (PendingProofs.routing _ _ _ _ _ Hp C (or_introl Hpc)) as [R1 [R2 _]].
      split; auto. split; auto. intros a' k' c' p' H' Act' Hne Hid.
      assert (Act : active c = true) by (unfold active; rewrite Hpc; reflexivity).
      assert (H0 : call_at s a k c p) by (exists ad, b; auto).
      rewrite R1 in Hid. destruct (sys_outstanding_distinct _ _ _ _ _ _ _ _ Y H' H0 Act' Act Hid). tauto.
    Qed.

    (* the hypothesis of the two theorems above holds, in particular, as long as the process has performed fewer than
       2^31-1 allocations in all *)
    Lemma young_if_few : Z.of_nat (allocs s) < two31 - 1 -> all_young s.
    Proof. intros H a k c p _ _. unfold age, two31 in *. lia. Qed.
  End Run.

  Lemma srun_snoc ls : forall s l, srun maxi s (ls ++ [l]) = match srun maxi s ls with Some s1 => sstep maxi s1 l | None => None end.
  Proof.
    induction ls as [|x ls IH]; intros s l; cbn [app srun].
    - destruct (sstep maxi s l); reflexivity.
    - destruct (sstep maxi s x); auto.
  Qed.

  (* the generator discharges the hypothesis of the table theorems ([good_run]): whenever a thread registers a call, the id
     is non-zero and — provided no outstanding call has been overtaken by 2^31-2 later allocations — no outstanding call
     on any adapter of the process holds it *)
  Theorem sys_registration_good nt na ls s t a ow s' :
    srun maxi (sinit c0 nt na) ls = Some s -> sstep maxi s (SReg t a ow) = Some s' -> all_young s' ->
    exists v, nth_error (pcs (gen s)) t = Some (TDone v) /\ mgoodb (ads s) (a, LRegister v ow) = true.
  Proof.
    intros Hrun E Y.
    assert (Hrun' : srun maxi (sinit c0 nt na) (ls ++ [SReg t a ow]) = Some s') by (rewrite srun_snoc, Hrun; exact E).
    pose proof (run_SI _ _ _ _ Hrun) as I.
    cbn [sstep] in E.
    destruct (nth_error (pcs (gen s)) t) as [[| | |v]|] eqn:Et; try discriminate.
    destruct (nth_error (ads s) a) as [ad|] eqn:Ea; [|discriminate].
    destruct (nth_error (born s) a) as [b|] eqn:Eb; [|discriminate].
    destruct (Pending.step ad (LRegister v ow)) as [ad'|] eqn:Es; [|discriminate].
    inversion E; subst s'; clear E.
    exists v. split; auto. unfold mgoodb. cbn [snd].
    destruct (si_thr _ I _ _ Et) as [_ Hv]. apply andb_true_intro. split; [apply negb_true_iff, Z.eqb_neq; exact Hv|].
    apply forallb_forall. intros ad1 Hin. destruct (In_nth_error _ _ Hin) as [a1 Ea1].
    unfold id_free. apply forallb_forall. intros c1 Hc1. destruct (In_nth_error _ _ Hc1) as [k1 Ek1].
    destruct (active c1) eqn:Act; [|reflexivity]. destruct (c_id c1 =? v) eqn:Eid; [|reflexivity]. exfalso.
    apply Z.eqb_eq in Eid.
    destruct (si_born _ I _ _ Ea1) as [b1 [Eb1 L1]].
    assert (Hk1 : (k1 < length b1)%nat) by (rewrite L1; eapply nth_error_lt; eauto).
    destruct (nth_error b1 k1) as [p1|] eqn:Ep1; [|apply nth_error_None in Ep1; lia].
    destruct (si_born _ I _ _ Ea) as [b0 [Eb0 L0]]. rewrite Eb in Eb0. inversion Eb0; subst b0.
    (* the old call is still a call of the new state *)
    assert (C1 : call_at {| gen := {| ctr := ctr (gen s); pcs := set_nth t TIdle (pcs (gen s)); hist := hist (gen s); ids := ids (gen s) |};
                            tpos := tpos s; ads := upd a ad' (ads s); born := upd a (b ++ [nth t (tpos s) 0%nat]) (born s) |} a1 k1 c1 p1).
    { unfold call_at. cbn [ads born]. rewrite !nth_error_upd. destruct (Nat.eqb a a1) eqn:Eq.
      - apply Nat.eqb_eq in Eq. subst a1. rewrite Ea, Eb. rewrite Ea in Ea1. inversion Ea1; subst ad1.
        rewrite Eb in Eb1. inversion Eb1; subst b1.
        exists ad', (b ++ [nth t (tpos s) 0%nat]). repeat split; auto.
        + rewrite (register_calls _ _ _ _ Es). rewrite nth_error_app1; auto. eapply nth_error_lt; eauto.
        + rewrite nth_error_app1; auto.
      - exists ad1, b1. auto. }
    (* the new call *)
    assert (C2 : call_at {| gen := {| ctr := ctr (gen s); pcs := set_nth t TIdle (pcs (gen s)); hist := hist (gen s); ids := ids (gen s) |};
                            tpos := tpos s; ads := upd a ad' (ads s); born := upd a (b ++ [nth t (tpos s) 0%nat]) (born s) |}
                         a (length (calls ad)) {| c_id := v; c_oneway := ow; c_pc := CReg |} (nth t (tpos s) 0%nat)).
    { unfold call_at. cbn [ads born]. rewrite !nth_error_upd, Nat.eqb_refl, Ea, Eb.
      exists ad', (b ++ [nth t (tpos s) 0%nat]). repeat split; auto.
      + rewrite (register_calls _ _ _ _ Es). rewrite nth_error_app2, Nat.sub_diag; auto.
      + rewrite nth_error_app2; rewrite L0; auto. rewrite Nat.sub_diag. reflexivity. }
    destruct (sys_outstanding_distinct _ _ _ _ Hrun' _ _ _ _ _ _ _ _ Y C1 C2 Act eq_refl Eid) as [X1 X2].
    subst a1. rewrite Ea in Ea1. inversion Ea1; subst ad1. apply nth_error_lt in Ek1. lia.
  Qed.
End Proofs.

(* the adapters of the process evolve by steps of the product machine that validates the recorded traces (Pending.mstep) *)
Theorem sstep_ads_mstep maxi s l s' : sstep maxi s l = Some s' ->
  ads s' = ads s \/ exists al, mstep (ads s) al = Some (ads s').
Proof.
  intros E. destruct l as [gl|t a ow|a l]; cbn [sstep] in E.
  - destruct (ReqId.step maxi (gen s) gl); [|discriminate]. inversion E; subst s'. left. reflexivity.
  - destruct (nth_error (pcs (gen s)) t) as [[| | |v]|]; try discriminate.
    destruct (nth_error (ads s) a) as [ad|] eqn:Ea; [|discriminate].
    destruct (nth_error (born s) a) as [b|]; [|discriminate].
    destruct (Pending.step ad (LRegister v ow)) as [ad'|] eqn:Es; [|discriminate].
    inversion E; subst s'. right. exists (a, LRegister v ow). unfold mstep. cbn [fst snd ads]. rewrite Ea, Es. reflexivity.
  - destruct (is_register l); [discriminate|].
    destruct (nth_error (ads s) a) as [ad|] eqn:Ea; [|discriminate].
    destruct (Pending.step ad l) as [ad'|] eqn:Es; [|discriminate].
    inversion E; subst s'. right. exists (a, l). unfold mstep. cbn [fst snd ads]. rewrite Ea, Es. reflexivity.
Qed.

(* ---------- non-vacuity ---------- *)
(* two threads, two adapters (connections): thread 0 allocates an id and registers a call on adapter 0, thread 1
   on adapter 1; the peer of adapter 1 answers with the id of the call on adapter 0 (dropped: adapter 1 has no such entry)
   and then with the right id; the call on adapter 0 times out.  Counter starts just below the wrap threshold. *)
Definition ex_labels : list slabel :=
  [SGen (LCall 0); SGen (LCall 1); SGen (LCas 0); SGen (LAdd 0); SGen (LCas 1); SGen (LAdd 1);
   SReg 1 1 false; SReg 0 0 false; SAd 0 (LSendOk 0); SAd 1 (LSendOk 0);
   SAd 1 (LPacket (mkp 2147483647 7 false)); SAd 1 (LLookup 0);
   SAd 1 (LPacket (mkp 2 9 false)); SAd 1 (LLookup 1); SAd 1 (LHandoff 1);
   SAd 0 (LTimeout 0); SAd 0 (LReturn 0)].

Example sys_ex :
  option_map (fun s => (map (fun ad => map (fun c => (c_id c, c_pc c)) (calls ad)) (ads s), born s, allocs s,
                        map (fun ad => map r_pc (recvs ad)) (ads s)))
    (srun 2147483647 (sinit 2147483646 2 2) ex_labels)
  = Some ([[(2147483647, CRet OTimeout)]; [(2, CGot (mkp 2 9 false))]], [[0%nat]; [1%nat]], 2%nat,
          [[]; [RDropped; RDone 0]]).
Proof. vm_compute. reflexivity. Qed.

Example sys_ex_young : forall s, srun 2147483647 (sinit 2147483646 2 2) ex_labels = Some s -> all_young s.
Proof.
  intros s H. apply young_if_few. vm_compute in H. inversion H; subst s. vm_compute. reflexivity.
Qed.

(* a one-way call takes its id from the same generator and is registered like any other (it returns right after the send) *)
Example sys_ex_oneway :
  option_map (fun s => map (fun ad => map (fun c => (c_id c, c_oneway c, c_pc c)) (calls ad)) (ads s))
    (srun 2147483647 (sinit (-2) 2 1)
       [SGen (LCall 0); SGen (LCall 1); SGen (LCas 0); SGen (LCas 1); SGen (LAdd 0); SGen (LAdd 1); SGen (LAdd 1);
        SReg 0 0 true; SReg 1 0 false; SAd 0 (LSendOk 0); SAd 0 (LReturn 0); SAd 0 (LSendOk 1)])
  = Some [[(-1, true, CRet OOneWay); (1, false, CWait)]].
Proof. vm_compute. reflexivity. Qed.

(* a registration needs an id of the thread's own: a thread that has not finished genRequestID cannot register *)
Example sys_ex_no_id : srun 2147483647 (sinit 5 1 1) [SGen (LCall 0); SGen (LCas 0); SReg 0 0 false] = None.
Proof. vm_compute. reflexivity. Qed.

(* ---------- without the proviso the clause is false: the counter is 32 bits wide ---------- *)
Definition one_call (t : nat) : list slabel := [SGen (LCall t); SGen (LCas t); SGen (LAdd t)].
Definition M : Z := 2147483647.

Lemma srun_app_M ls1 : forall s ls2, srun M s (ls1 ++ ls2) = match srun M s ls1 with Some s1 => srun M s1 ls2 | None => None end.
Proof. induction ls1 as [|l ls1 IH]; intros s ls2; cbn [app srun]; auto. destruct (sstep M s l); auto. Qed.

Definition idle_or_done (pc : tpc) : Prop := pc = TIdle \/ exists v, pc = TDone v.

(* one whole genRequestID call of thread t, counter in 2 .. maxInt32-1: the id is counter+1 *)
Lemma one_call_run s t pc : nth_error (pcs (gen s)) t = Some pc -> idle_or_done pc ->
  2 <= ctr (gen s) < M ->
  exists s', srun M s (one_call t) = Some s' /\ ctr (gen s') = ctr (gen s) + 1 /\ ads s' = ads s /\ born s' = born s /\
             nth_error (pcs (gen s')) t = Some (TDone (ctr (gen s) + 1)) /\
             (forall t', t' <> t -> nth_error (pcs (gen s')) t' = nth_error (pcs (gen s)) t').
Proof.
  intros Et Hpc Hc.
  (* LCall *)
  assert (S1 : sstep M s (SGen (LCall t)) = Some {| gen := {| ctr := ctr (gen s); pcs := set_nth t TAtCas (pcs (gen s)); hist := hist (gen s); ids := ids (gen s) |};
                                                   tpos := tpos s; ads := ads s; born := born s |}).
  { cbn [sstep ReqId.step]. rewrite Et. destruct Hpc as [->|[v ->]]; reflexivity. }
  set (s1 := {| gen := {| ctr := ctr (gen s); pcs := set_nth t TAtCas (pcs (gen s)); hist := hist (gen s); ids := ids (gen s) |};
                tpos := tpos s; ads := ads s; born := born s |}) in *.
  assert (E1 : nth_error (pcs (gen s1)) t = Some TAtCas).
  { unfold s1. cbn [gen pcs]. rewrite nth_error_set_nth, Nat.eqb_refl, Et. reflexivity. }
  (* LCas: the counter is not at the threshold *)
  assert (S2 : sstep M s1 (SGen (LCas t)) = Some {| gen := {| ctr := ctr (gen s); pcs := set_nth t TAtAdd (pcs (gen s1)); hist := hist (gen s); ids := ids (gen s) |};
                                                    tpos := tpos s; ads := ads s; born := born s |}).
  { cbn [sstep ReqId.step]. rewrite E1. unfold cas. unfold s1 at 1. cbn [gen ctr].
    destruct (ctr (gen s) =? M) eqn:Em; [apply Z.eqb_eq in Em; lia|]. reflexivity. }
  set (s2 := {| gen := {| ctr := ctr (gen s); pcs := set_nth t TAtAdd (pcs (gen s1)); hist := hist (gen s); ids := ids (gen s) |};
                tpos := tpos s; ads := ads s; born := born s |}) in *.
  assert (E2 : nth_error (pcs (gen s2)) t = Some TAtAdd).
  { unfold s2. cbn [gen pcs]. rewrite nth_error_set_nth, Nat.eqb_refl, E1. reflexivity. }
  (* LAdd *)
  assert (A : add (ctr (gen s2)) = ctr (gen s) + 1).
  { unfold s2. cbn [gen ctr]. apply add_lt; unfold in_i32, two31, M in *; lia. }
  assert (S3 : exists s3, sstep M s2 (SGen (LAdd t)) = Some s3 /\ ctr (gen s3) = ctr (gen s) + 1 /\ ads s3 = ads s /\ born s3 = born s /\
                          pcs (gen s3) = set_nth t (TDone (ctr (gen s) + 1)) (pcs (gen s2))).
  { cbn [sstep ReqId.step]. rewrite E2, A.
    destruct (ctr (gen s) + 1 =? 0) eqn:Ez; [apply Z.eqb_eq in Ez; lia|].
    eexists. split; [reflexivity|]. cbn [gen ctr ads born pcs]. auto. }
  destruct S3 as [s3 [S3 [C3 [A3 [B3 P3]]]]].
  exists s3. unfold one_call. cbn [srun]. rewrite S1, S2, S3. repeat split; auto.
  - rewrite P3, nth_error_set_nth, Nat.eqb_refl, E2. reflexivity.
  - intros t' Hne. rewrite P3. unfold s2, s1. cbn [gen pcs]. rewrite !nth_error_set_nth.
    destruct (Nat.eqb t t') eqn:Eq; [apply Nat.eqb_eq in Eq; congruence|reflexivity].
Qed.

(* the wrapping call: the counter stands at the threshold, the Cas resets it to 1, the Add returns 2 *)
Lemma one_call_wrap s t pc : nth_error (pcs (gen s)) t = Some pc -> idle_or_done pc -> ctr (gen s) = M ->
  exists s', srun M s (one_call t) = Some s' /\ ads s' = ads s /\ born s' = born s /\
             nth_error (pcs (gen s')) t = Some (TDone 2).
Proof.
  intros Et Hpc Hc.
  assert (S1 : sstep M s (SGen (LCall t)) = Some {| gen := {| ctr := ctr (gen s); pcs := set_nth t TAtCas (pcs (gen s)); hist := hist (gen s); ids := ids (gen s) |};
                                                   tpos := tpos s; ads := ads s; born := born s |}).
  { cbn [sstep ReqId.step]. rewrite Et. destruct Hpc as [->|[v ->]]; reflexivity. }
  set (s1 := {| gen := {| ctr := ctr (gen s); pcs := set_nth t TAtCas (pcs (gen s)); hist := hist (gen s); ids := ids (gen s) |};
                tpos := tpos s; ads := ads s; born := born s |}) in *.
  assert (E1 : nth_error (pcs (gen s1)) t = Some TAtCas).
  { unfold s1. cbn [gen pcs]. rewrite nth_error_set_nth, Nat.eqb_refl, Et. reflexivity. }
  assert (S2 : sstep M s1 (SGen (LCas t)) = Some {| gen := {| ctr := 1; pcs := set_nth t TAtAdd (pcs (gen s1)); hist := hist (gen s); ids := ids (gen s) |};
                                                    tpos := tpos s; ads := ads s; born := born s |}).
  { cbn [sstep ReqId.step]. rewrite E1. unfold cas. unfold s1 at 1. cbn [gen ctr]. rewrite Hc, Z.eqb_refl. reflexivity. }
  set (s2 := {| gen := {| ctr := 1; pcs := set_nth t TAtAdd (pcs (gen s1)); hist := hist (gen s); ids := ids (gen s) |};
                tpos := tpos s; ads := ads s; born := born s |}) in *.
  assert (E2 : nth_error (pcs (gen s2)) t = Some TAtAdd).
  { unfold s2. cbn [gen pcs]. rewrite nth_error_set_nth, Nat.eqb_refl, E1. reflexivity. }
  assert (S3 : exists s3, sstep M s2 (SGen (LAdd t)) = Some s3 /\ ads s3 = ads s /\ born s3 = born s /\
                          pcs (gen s3) = set_nth t (TDone 2) (pcs (gen s2))).
  { cbn [sstep ReqId.step]. rewrite E2. change (add (ctr (gen s2))) with 2. cbn [Z.eqb].
    eexists. split; [reflexivity|]. cbn [gen ctr ads born pcs]. auto. }
  destruct S3 as [s3 [S3 [A3 [B3 P3]]]].
  exists s3. unfold one_call. cbn [srun]. rewrite S1, S2, S3. repeat split; auto.
  rewrite P3, nth_error_set_nth, Nat.eqb_refl, E2. reflexivity.
Qed.

(* n calls in a row by thread t *)
Lemma calls_run n : forall s t pc, nth_error (pcs (gen s)) t = Some pc -> idle_or_done pc ->
  2 <= ctr (gen s) -> ctr (gen s) + Z.of_nat n <= M ->
  exists s' pc', srun M s (concat (repeat (one_call t) n)) = Some s' /\ ctr (gen s') = ctr (gen s) + Z.of_nat n /\
             ads s' = ads s /\ born s' = born s /\
             nth_error (pcs (gen s')) t = Some pc' /\ idle_or_done pc' /\
             (forall t', t' <> t -> nth_error (pcs (gen s')) t' = nth_error (pcs (gen s)) t').
Proof.
  induction n as [|n IH]; intros s t pc Et Hpc Hc Hn.
  - exists s, pc. cbn [repeat concat srun]. repeat split; auto. lia.
  - cbn [repeat concat]. rewrite srun_app_M.
    destruct (one_call_run s t pc Et Hpc ltac:(lia)) as [s1 [R1 [C1 [A1 [B1 [P1 O1]]]]]].
    rewrite R1.
    destruct (IH s1 t _ P1 (or_intror (ex_intro _ _ eq_refl)) ltac:(lia) ltac:(lia)) as [s2 [pc2 [R2 [C2 [A2 [B2 [P2 [I2 O2]]]]]]]].
    exists s2, pc2. rewrite R2. repeat split; auto; try congruence; try lia.
    intros t' Hne. rewrite (O2 _ Hne). auto.
Qed.

Lemma big_sum : 2 + Z.of_nat (Z.to_nat 2147483645) = M.
Proof. unfold M. lia. Qed.

Definition wrap_labels_n (n : nat) : list slabel :=
  one_call 0 ++ [SReg 0 0 false] ++ concat (repeat (one_call 1) n) ++ one_call 1 ++ [SReg 1 0 false].

Lemma wrap_general n : 2 + Z.of_nat n = M ->
  exists s ad c1 c2, srun M (sinit 1 2 1) (wrap_labels_n n) = Some s /\ nth_error (ads s) 0 = Some ad /\
    nth_error (calls ad) 0 = Some c1 /\ nth_error (calls ad) 1 = Some c2 /\
    active c1 = true /\ active c2 = true /\ c_id c1 = 2 /\ c_id c2 = 2.
Proof.
  intros Hn. unfold wrap_labels_n. rewrite srun_app_M.
  (* thread 0: id 2, registered *)
  assert (R0 : srun M (sinit 1 2 1) (one_call 0) =
    Some {| gen := {| ctr := 2; pcs := [TDone 2; TIdle]; hist := [2]; ids := [2] |}; tpos := [0%nat; 0%nat]; ads := [Pending.init]; born := [[]] |})
    by (vm_compute; reflexivity).
  rewrite R0. rewrite srun_app_M.
  set (s1 := {| gen := {| ctr := 2; pcs := [TIdle; TIdle]; hist := [2]; ids := [2] |}; tpos := [0%nat; 0%nat];
            ads := [{| table := [(2, 0%nat)]; calls := [{| c_id := 2; c_oneway := false; c_pc := CReg |}]; recvs := [] |}]; born := [[0%nat]] |}).
  assert (R1 : srun M {| gen := {| ctr := 2; pcs := [TDone 2; TIdle]; hist := [2]; ids := [2] |}; tpos := [0%nat; 0%nat]; ads := [Pending.init]; born := [[]] |} [SReg 0 0 false] = Some s1)
    by (vm_compute; reflexivity).
  rewrite R1. rewrite srun_app_M.
  destruct (calls_run n s1 1%nat TIdle eq_refl (or_introl eq_refl)) as [s2 [pc2 [R2 [C2 [A2 [B2 [P2 [I2 O2]]]]]]]].
  { change (ctr (gen s1)) with 2. lia. } { change (ctr (gen s1)) with 2. lia. }
  rewrite R2. change (ctr (gen s1)) with 2 in C2. rewrite Hn in C2.
  (* the wrapping call of thread 1 *)
  rewrite srun_app_M.
  destruct (one_call_wrap s2 1%nat pc2 P2 I2 C2) as [s3 [R3 [A3 [B3 P3]]]].
  rewrite R3. cbn [srun sstep]. rewrite P3, A3, A2, B3, B2.
  eexists. eexists. eexists. eexists. split; [vm_compute; reflexivity|]. vm_compute. repeat split; reflexivity.
Qed.

(* The unconditional clause "no two concurrently outstanding calls of a process share an id" is false of the model, hence
   of the code (a 32-bit counter): thread 0 allocates id 2 and registers a call that stays outstanding; thread 1 performs
   2^31-3 further allocations (3 .. maxInt32), then one more — the Cas resets the counter, the Add returns 2 — and registers
   a second call under id 2 on the same adapter.  (Symbolic: the 2^31 labels are never computed.) *)
Definition wrap_labels : list slabel := wrap_labels_n (Z.to_nat 2147483645).

Theorem outstanding_share_id_after_wrap :
  exists s ad c1 c2, srun M (sinit 1 2 1) wrap_labels = Some s /\ nth_error (ads s) 0 = Some ad /\
    nth_error (calls ad) 0 = Some c1 /\ nth_error (calls ad) 1 = Some c2 /\
    active c1 = true /\ active c2 = true /\ c_id c1 = 2 /\ c_id c2 = 2.
Proof. exact (wrap_general _ big_sum). Qed.

(* ... so the clause holds only with the proviso of sys_outstanding_distinct *)
Theorem unconditional_distinct_refuted :
  ~ (forall c0 nt na ls s a1 k1 c1 p1 a2 k2 c2 p2, in_i32 c0 -> srun M (sinit c0 nt na) ls = Some s ->
       call_at s a1 k1 c1 p1 -> call_at s a2 k2 c2 p2 -> active c1 = true -> active c2 = true -> c_id c1 = c_id c2 ->
       a1 = a2 /\ k1 = k2).
Proof.
  intros H. destruct outstanding_share_id_after_wrap as [s [ad [c1 [c2 [R [A [C1 [C2 [Act1 [Act2 [I1 I2]]]]]]]]]]].
  pose proof (run_SI M 1 _ _ _ _ R) as I.
  destruct (si_born _ _ _ I _ _ A) as [b [B L]].
  assert (L1 : (0 < length b)%nat) by (rewrite L; eapply nth_error_lt; eauto).
  assert (L2 : (1 < length b)%nat) by (rewrite L; eapply nth_error_lt; eauto).
  destruct (nth_error b 0) as [p1|] eqn:E1; [|apply nth_error_None in E1; lia].
  destruct (nth_error b 1) as [p2|] eqn:E2; [|apply nth_error_None in E2; lia].
  assert (X : 0%nat = 0%nat /\ 0%nat = 1%nat).
  { apply (H 1 2%nat 1%nat wrap_labels s 0%nat 0%nat c1 p1 0%nat 1%nat c2 p2); auto.
    - unfold in_i32, two31. lia.
    - exists ad, b. auto.
    - exists ad, b. auto.
    - congruence. }
  destruct X as [_ X]. discriminate X.
Qed.
