(* C09 proofs about the call-life LTS of CallLife.v *)
From Coq Require Import List NArith ZArith Bool Arith Lia ZifyBool ZifyNat ZifyN.
From TarsV Require Import Base.Hex Gen.C09Consts Conc.CallLife.
Import ListNotations.
Open Scope N_scope.

(* the canonical run of a silent peer: the call times out exactly at its deadline and leaves nothing behind *)
Example silent_peer_times_out :
  let '(s, _, ok) := canonical (mkscen (mkcfg 30 40 10 4) CAccept [mkact false None false false] 1 1 20 0 false) in
  ok = true /\ model_calls s = [(OTimeout, 20)] /\ queueLen s = 0%Z /\ invokeNum s = 0%Z /\ resp s = [].
Proof. vm_compute. repeat split; reflexivity. Qed.
