(* C09 proofs about the call-life LTS of CallLife.v: invariants over all label sequences. *)
From Coq Require Import List NArith ZArith Bool Arith Lia ZifyBool ZifyNat ZifyN.
From TarsV Require Import Base.Hex Gen.C09Consts Conc.CallLife.
Import ListNotations.
Open Scope N_scope.

(* ---------- reachability ---------- *)
Inductive reach (c : cfg) : state -> Prop :=
| reach_init : reach c init
| reach_step : forall s l s', reach c s -> step c s l = Some s' -> reach c s'.

Lemma run_reach : forall c ls s s', reach c s -> run c s ls = Some s' -> reach c s'.
Proof.
  induction ls as [|l ls IH]; intros s s' Hr H; cbn in H.
  - inversion H; subst; exact Hr.
  - destruct (step c s l) eqn:E; [|discriminate]. eapply IH; [eapply reach_step; eauto|exact H].
Qed.

(* ---------- lists ---------- *)
Lemma nth_upd_eq : forall A (l : list A) i x k, nth_error l i = Some k -> nth_error (upd l i x) i = Some x.
Proof. induction l as [|h t IH]; intros [|i] x k H; cbn in *; try discriminate; eauto. Qed.

Lemma nth_upd_neq : forall A (l : list A) i j x, i <> j -> nth_error (upd l i x) j = nth_error l j.
Proof.
  induction l as [|h t IH]; intros [|i] [|j] x H; cbn; try reflexivity; try congruence.
  apply IH; congruence.
Qed.

Lemma nth_upd_inv : forall A (l : list A) i j x k0 k, nth_error l i = Some k0 ->
  nth_error (upd l i x) j = Some k -> (j = i /\ k = x) \/ (j <> i /\ nth_error l j = Some k).
Proof.
  intros A l i j x k0 k H0 H. destruct (Nat.eq_dec i j) as [->|Hn].
  - rewrite (nth_upd_eq _ _ _ _ _ H0) in H. inversion H; auto.
  - rewrite nth_upd_neq in H by exact Hn. right; split; auto.
Qed.

Lemma nth_app_inv : forall A (l : list A) x j k, nth_error (l ++ [x]) j = Some k ->
  nth_error l j = Some k \/ (j = length l /\ k = x).
Proof.
  intros A l x j k H. destruct (Nat.lt_ge_cases j (length l)) as [Hl|Hl].
  - rewrite nth_error_app1 in H by exact Hl. auto.
  - rewrite nth_error_app2 in H by exact Hl. destruct (j - length l)%nat eqn:E; cbn in H.
    + inversion H; subst. right; split; [lia|reflexivity].
    + destruct n; discriminate.
Qed.

Lemma existsb_false_nth : forall A (f : A -> bool) l i x, existsb f l = false -> nth_error l i = Some x -> f x = false.
Proof.
  intros A f l i x H Hn. destruct (f x) eqn:E; [|reflexivity].
  assert (existsb f l = true) by (apply existsb_exists; exists x; split; [eapply nth_error_In; eauto|exact E]). congruence.
Qed.

(* one step, opened: every [match]/[if] of [step] is destructed, impossible branches are closed *)
Ltac inv_step H :=
  unfold step in H;
  repeat match type of H with
  | context [match ?x with _ => _ end] => destruct x eqn:?; try discriminate H
  end;
  inversion H; subst; clear H.

(* ---------- A. the counters and the pending-reply table are functions of the program counters ---------- *)
(* counted: between atomic.AddInt32(&queueLen, 1) and the deferred AddInt32(-1); inside: between resp.Store and the deferred
   resp.Delete (the two pairs are separate instructions: the windows differ at both ends) *)
Definition counted (k : call) : bool :=
  match k_pc k with Counted | Reg | Dialing | Enq | Waiting | Done => true | _ => false end.
Definition inside (k : call) : bool :=
  match k_pc k with Reg | Dialing | Enq | Waiting | Done | Uncounted => true | _ => false end.
Definition in_doInvoke (k : call) : bool := counted k || inside k.
(* counted on the queueLen of proxy p *)
Definition counted_by (p : nat) (k : call) : bool := counted k && Nat.eqb p (k_px k).
Definition invoked (k : call) : bool :=
  match k_pc k with Init | Returned => false | _ => true end.
Fixpoint cnt (f : call -> bool) (l : list call) : Z :=
  match l with [] => 0%Z | k :: t => ((if f k then 1 else 0) + cnt f t)%Z end.
Definition inside_at (l : list call) (i : nat) : Prop := exists k, nth_error l i = Some k /\ inside k = true.

Lemma cnt_upd : forall f l i k x, nth_error l i = Some k ->
  cnt f (upd l i x) = (cnt f l - (if f k then 1 else 0) + (if f x then 1 else 0))%Z.
Proof.
  induction l as [|h t IH]; intros [|i] k x H; cbn in *; try discriminate.
  - inversion H; subst. lia.
  - rewrite (IH _ _ x H). lia.
Qed.
Lemma cnt_app : forall f l x, cnt f (l ++ [x]) = (cnt f l + (if f x then 1 else 0))%Z.
Proof. induction l as [|h t IH]; intros x; cbn; [lia|rewrite IH; lia]. Qed.
Lemma cnt_nonneg : forall f l, (0 <= cnt f l)%Z.
Proof. induction l as [|h t IH]; cbn; [lia|destruct (f h); lia]. Qed.
Lemma cnt_zero : forall f l, cnt f l = 0%Z -> forall i k, nth_error l i = Some k -> f k = false.
Proof.
  induction l as [|h t IH]; intros H [|i] k Hn; cbn in *; try discriminate.
  - inversion Hn; subst. pose proof (cnt_nonneg f t). destruct (f k); [lia|reflexivity].
  - pose proof (cnt_nonneg f t). eapply IH; eauto. destruct (f h); lia.
Qed.
Lemma cnt_all_false : forall f l, (forall i k, nth_error l i = Some k -> f k = false) -> cnt f l = 0%Z.
Proof.
  induction l as [|h t IH]; intros H; cbn; [reflexivity|].
  rewrite (H O h eq_refl). rewrite IH; [reflexivity|]. intros i k Hn. apply (H (S i) k Hn).
Qed.

Lemma inside_at_upd_same : forall l i k x, nth_error l i = Some k -> inside x = inside k ->
  forall j, inside_at (upd l i x) j <-> inside_at l j.
Proof.
  intros l i k x H He j. unfold inside_at. split; intros [k' [Hn Hi]].
  - destruct (nth_upd_inv _ _ _ _ _ _ _ H Hn) as [[-> ->]|[Hne Hn']].
    + exists k. split; [exact H|congruence].
    + exists k'. auto.
  - destruct (Nat.eq_dec i j) as [<-|Hne].
    + exists x. split; [eapply nth_upd_eq; eauto|]. rewrite H in Hn. inversion Hn; subst. congruence.
    + exists k'. rewrite nth_upd_neq by exact Hne. auto.
Qed.

Record InvA (s : state) : Prop := {
  a_q : forall p, queueLen s p = cnt (counted_by p) (calls s);
  a_n : invokeNum s = cnt invoked (calls s);
  a_r : forall i, In i (resp s) <-> inside_at (calls s) i;
  a_nd : NoDup (resp s) }.

Lemma remove_nat_in : forall i j l, In j (remove_nat i l) <-> (In j l /\ j <> i).
Proof.
  intros i j l. unfold remove_nat. rewrite filter_In. split; intros [H1 H2]; split; auto.
  - intros ->. rewrite Nat.eqb_refl in H2. discriminate.
  - destruct (Nat.eqb i j) eqn:E; [apply Nat.eqb_eq in E; congruence|reflexivity].
Qed.
Lemma remove_nat_nodup : forall i l, NoDup l -> NoDup (remove_nat i l).
Proof. intros. apply NoDup_filter. assumption. Qed.

Ltac pcs := unfold counted_by, counted, inside, in_doInvoke, invoked, set_pc, set_reg, set_wait, set_lock, set_out, set_full, set_enq, set_ret in *; cbn [k_pc] in *.

Lemma InvA_init : InvA init.
Proof.
  split; cbn; try reflexivity; [|constructor].
  intros i; split; [intros []|]. intros [k [H _]]. destruct i; discriminate.
Qed.

(* a step that replaces call i by x where both are inside or both are not, and leaves the counters and the table alone *)
Lemma InvA_same : forall s s' i k x,
  InvA s -> nth_error (calls s) i = Some k -> (forall p, counted_by p x = counted_by p k) -> inside x = inside k -> invoked x = invoked k ->
  calls s' = upd (calls s) i x -> queueLen s' = queueLen s -> invokeNum s' = invokeNum s -> resp s' = resp s -> InvA s'.
Proof.
  intros s s' i k x [Hq Hn Hr Hd] Hk Hcn Hi Hv Hc Hq' Hn' Hr'. split.
  - intros p. rewrite Hq', Hc, (cnt_upd _ _ _ _ x Hk), Hcn, Hq. lia.
  - rewrite Hn', Hc, (cnt_upd _ _ _ _ x Hk), Hv, Hn. lia.
  - intros j. rewrite Hr', Hc, (inside_at_upd_same _ _ _ _ Hk Hi). apply Hr.
  - rewrite Hr'. exact Hd.
Qed.

(* a step that does not touch the calls, the counters or the table *)
Lemma InvA_frame : forall s s', InvA s -> calls s' = calls s -> queueLen s' = queueLen s -> invokeNum s' = invokeNum s ->
  resp s' = resp s -> InvA s'.
Proof. intros s s' [Hq Hn Hr Hd] Hc Hq' Hn' Hr'. split; try intros p; rewrite ?Hq', ?Hn', ?Hr', ?Hc; auto. Qed.

Lemma InvA_step : forall c s l s', InvA s -> step c s l = Some s' -> InvA s'.
Proof.
  intros c s l s' HA H. destruct l; inv_step H.
  - (* Tick *) eapply InvA_frame; eauto.
  - (* Start *) destruct HA as [Hq Hn Hr Hd]. split; cbn [calls queueLen invokeNum resp with_calls].
    + intros p. specialize (Hq p). rewrite cnt_app. cbn. lia.
    + rewrite cnt_app. cbn. lia.
    + intros j. rewrite Hr. unfold inside_at. split; intros [k [Hk Hi]].
      * exists k. split; [|exact Hi]. rewrite nth_error_app1; [exact Hk|]. apply nth_error_Some. congruence.
      * apply nth_app_inv in Hk. destruct Hk as [Hk|[_ ->]]; [eauto|]. cbn in Hi. discriminate.
    + exact Hd.
  - (* LPre *) destruct HA as [Hq Hn Hr Hd]. split; cbn [calls queueLen invokeNum resp].
    + intros p. specialize (Hq p). try unfold fset. rewrite (cnt_upd _ _ _ _ _ Heqo). pcs. cbn [k_px] in *. rewrite Heqp. cbn [andb]. destruct (Nat.eqb p (k_px c0)) eqn:Ep; [apply Nat.eqb_eq in Ep; subst p|]; cbn [andb]; lia.
    + rewrite (cnt_upd _ _ _ _ _ Heqo). pcs. rewrite Heqp. lia.
    + intros j. rewrite (inside_at_upd_same _ _ _ _ Heqo); [apply Hr|]. pcs. rewrite Heqp. reflexivity.
    + exact Hd.
  - (* LReg *) destruct HA as [Hq Hn Hr Hd].
    assert (Hni : ~ In i (resp s)).
    { rewrite Hr. intros [k' [Hk' Hi]]. rewrite Heqo in Hk'. inversion Hk'; subst. unfold inside in Hi. rewrite Heqp in Hi. discriminate. }
    split; cbn [calls queueLen invokeNum resp].
    + intros p. specialize (Hq p). try unfold fset. rewrite (cnt_upd _ _ _ _ _ Heqo). pcs. cbn [k_px] in *. rewrite Heqp. cbn [andb]. destruct (Nat.eqb p (k_px c0)) eqn:Ep; [apply Nat.eqb_eq in Ep; subst p|]; cbn [andb]; lia.
    + rewrite (cnt_upd _ _ _ _ _ Heqo). pcs. rewrite Heqp. lia.
    + intros j. cbn [In]. unfold inside_at. split.
      * intros [<-|Hj].
        -- exists (set_reg c0 (rels (tr s))). split; [eapply nth_upd_eq; eauto|reflexivity].
        -- apply Hr in Hj. destruct Hj as [k' [Hk' Hi]]. exists k'. split; [|exact Hi].
           rewrite nth_upd_neq; [exact Hk'|]. intros ->. apply Hni. apply Hr. exists k'. auto.
      * intros [k' [Hk' Hi]]. destruct (nth_upd_inv _ _ _ _ _ _ _ Heqo Hk') as [[-> _]|[Hne Hk'']]; [left; reflexivity|].
        right. apply Hr. exists k'. auto.
    + constructor; assumption.
  - (* LQueueFull *) eapply (InvA_same s _ i c0 (set_full c0)); eauto; pcs; rewrite Heqp; reflexivity.
  - (* LLock, connection open *) eapply (InvA_same s _ i c0 (set_lock c0 Enq (now s) false (rels (tr s) - k_rel0 c0))); eauto; pcs; rewrite Heqp; reflexivity.
  - (* LLock, dial *) eapply (InvA_same s _ i c0 (set_lock c0 Dialing (now s) true (rels (tr s) - k_rel0 c0))); eauto; pcs; rewrite Heqp; reflexivity.
  - (* LDialOk *) eapply (InvA_same s _ i c0 (set_wait c0 Enq (now s))); eauto; pcs; rewrite Heqp; reflexivity.
  - (* LDialFail *) eapply (InvA_same s _ i c0 (set_out c0 Error (k_e c0))); eauto; pcs; rewrite Heqp; reflexivity.
  - (* LDialTimeout *) eapply (InvA_same s _ i c0 (set_out c0 Error (k_e c0))); eauto; pcs; rewrite Heqp; reflexivity.
  - (* LEnq *) eapply (InvA_same s _ i c0 (set_enq c0 (k_t0 c0 <? now s))); eauto; pcs; rewrite Heqp; destruct (k_ow c0); reflexivity.
  - (* LEnqTimeout *) eapply (InvA_same s _ i c0 (set_out c0 Error true)); eauto; pcs; rewrite Heqp; reflexivity.
  - (* LCtxFire *) eapply (InvA_same s _ i c0 (set_out c0 Timeout (k_e c0))); eauto; pcs; rewrite Heqp; reflexivity.
  - (* LClean *) destruct HA as [Hq Hn Hr Hd]. split; cbn [calls queueLen invokeNum resp].
    + intros p. specialize (Hq p). try unfold fset. rewrite (cnt_upd _ _ _ _ _ Heqo). pcs. cbn [k_px] in *. rewrite Heqp. cbn [andb]. destruct (Nat.eqb p (k_px c0)) eqn:Ep; [apply Nat.eqb_eq in Ep; subst p|]; cbn [andb]; lia.
    + rewrite (cnt_upd _ _ _ _ _ Heqo). pcs. rewrite Heqp. lia.
    + intros j. rewrite remove_nat_in, Hr. unfold inside_at. split.
      * intros [[k' [Hk' Hi]] Hne]. exists k'. split; [|exact Hi]. rewrite nth_upd_neq; [exact Hk'|congruence].
      * intros [k' [Hk' Hi]]. destruct (nth_upd_inv _ _ _ _ _ _ _ Heqo Hk') as [[-> ->]|[Hne Hk'']].
        -- cbn in Hi. discriminate.
        -- split; [exists k'; auto|exact Hne].
    + apply remove_nat_nodup. exact Hd.
  - (* LPost *) destruct HA as [Hq Hn Hr Hd]. split; cbn [calls queueLen invokeNum resp].
    + intros p. specialize (Hq p). try unfold fset. rewrite (cnt_upd _ _ _ _ _ Heqo). pcs. cbn [k_px] in *. rewrite Heqp. cbn [andb]. destruct (Nat.eqb p (k_px c0)) eqn:Ep; [apply Nat.eqb_eq in Ep; subst p|]; cbn [andb]; lia.
    + rewrite (cnt_upd _ _ _ _ _ Heqo). pcs. rewrite Heqp. lia.
    + intros j. rewrite (inside_at_upd_same _ _ _ _ Heqo); [apply Hr|]. pcs. rewrite Heqp. reflexivity.
    + exact Hd.
  - (* LSendTake *) eapply InvA_frame; eauto.
  - (* LConnDown *) eapply InvA_frame; eauto.
  - (* LPeerPkt *) eapply InvA_frame; eauto.
  - (* LLookup, found *) eapply InvA_frame; eauto.
  - (* LLookup, not in the table *) eapply InvA_frame; eauto.
  - (* LLookup, id 0 *) eapply InvA_frame; eauto.
  - (* LDeliver *) eapply (InvA_same s _ j c0 (set_out c0 (Reply (r_pay r0)) (k_e c0))); eauto; pcs; rewrite Heqp; reflexivity.
  - (* LGiveUp *) eapply InvA_frame; eauto.
  - (* LIdleClose *) eapply InvA_frame; eauto.
  - (* LCancel *) eapply (InvA_same s _ i c0 (set_out c0 Cancelled (k_e c0))); eauto; pcs; rewrite Heqp; reflexivity.
  - (* LFilterErr *) eapply (InvA_same s _ i c0 (set_full c0)); eauto; pcs; rewrite Heqp; reflexivity.
  - (* LCount *) destruct HA as [Hq Hn Hr Hd]. split; cbn [calls queueLen invokeNum resp].
    + intros p. specialize (Hq p). try unfold fset. rewrite (cnt_upd _ _ _ _ _ Heqo). pcs. cbn [k_px] in *. rewrite Heqp. cbn [andb]. destruct (Nat.eqb p (k_px c0)) eqn:Ep; [apply Nat.eqb_eq in Ep; subst p|]; cbn [andb]; lia.
    + rewrite (cnt_upd _ _ _ _ _ Heqo). pcs. rewrite Heqp. lia.
    + intros j. rewrite (inside_at_upd_same _ _ _ _ Heqo); [apply Hr|]. pcs. rewrite Heqp. reflexivity.
    + exact Hd.
  - (* LUncount *) destruct HA as [Hq Hn Hr Hd]. split; cbn [calls queueLen invokeNum resp].
    + intros p. specialize (Hq p). try unfold fset. rewrite (cnt_upd _ _ _ _ _ Heqo). pcs. cbn [k_px] in *. rewrite Heqp. cbn [andb]. destruct (Nat.eqb p (k_px c0)) eqn:Ep; [apply Nat.eqb_eq in Ep; subst p|]; cbn [andb]; lia.
    + rewrite (cnt_upd _ _ _ _ _ Heqo). pcs. rewrite Heqp. lia.
    + intros j. rewrite (inside_at_upd_same _ _ _ _ Heqo); [apply Hr|]. pcs. rewrite Heqp. reflexivity.
    + exact Hd.
  - (* LCloseOld *) eapply InvA_frame; eauto.
Qed.

Theorem InvA_reach : forall c s, reach c s -> InvA s.
Proof. induction 1; [apply InvA_init|eapply InvA_step; eauto]. Qed.

(* ---------- per-call invariants: generic preservation ---------- *)
Definition all_calls (P : nat -> call -> Prop) (l : list call) : Prop := forall i k, nth_error l i = Some k -> P i k.

Lemma all_upd : forall (P : nat -> call -> Prop) l i k0 x,
  nth_error l i = Some k0 -> all_calls P l -> P i x -> all_calls P (upd l i x).
Proof.
  intros P l i k0 x H0 Ha Hx j k Hj. destruct (nth_upd_inv _ _ _ _ _ _ _ H0 Hj) as [[-> ->]|[_ Hj']]; auto.
Qed.
Lemma all_upd2 : forall (P : nat -> call -> Prop) l i k0 x,
  nth_error l i = Some k0 -> (forall j k, j <> i -> nth_error l j = Some k -> P j k) -> P i x -> all_calls P (upd l i x).
Proof.
  intros P l i k0 x H0 Ha Hx j k Hj. destruct (nth_upd_inv _ _ _ _ _ _ _ H0 Hj) as [[-> ->]|[Hne Hj']]; auto.
Qed.
Lemma all_app : forall (P : nat -> call -> Prop) l x, all_calls P l -> P (length l) x -> all_calls P (l ++ [x]).
Proof. intros P l x Ha Hx j k Hj. apply nth_app_inv in Hj. destruct Hj as [Hj|[-> ->]]; auto. Qed.
Lemma all_imp : forall (P Q : nat -> call -> Prop) l, all_calls P l -> (forall i k, nth_error l i = Some k -> P i k -> Q i k) -> all_calls Q l.
Proof. intros P Q l Ha Hi i k Hk. apply Hi; auto. Qed.

(* ---------- T. time: what each program counter implies about the clock ---------- *)
Definition dl_d (c : cfg) (k : call) : N := if k_d k then dialT c else 0.
Definition wr_e (c : cfg) (k : call) : N := if k_e k then writeT c else 0.
(* the bound of a call: its deadline, or the end of its Send (lock acquired + dial if it dialled + enqueue wait if it waited) *)
Definition B (c : cfg) (k : call) : N := N.max (k_dl k) (k_lockt k + dl_d c k + wr_e c k).

Definition time_ok (c : cfg) (n : N) (k : call) : Prop :=
  k_start k <= n /\ k_start k <= k_dl k /\ k_start k <= k_lockt k /\
  match k_pc k with
  | Init | Pre | Counted => n = k_start k /\ k_e k = false
  | Reg => k_e k = false
  | Dialing => k_d k = true /\ k_e k = false /\ k_t0 k = k_lockt k /\ k_lockt k <= n /\ n <= k_lockt k + dialT c
  | Enq => k_e k = false /\ k_lockt k <= k_t0 k /\ k_t0 k <= k_lockt k + dl_d c k /\ k_t0 k <= n /\ n <= k_t0 k + writeT c
  | Waiting | Done | Uncounted | Cleaned => n <= B c k
  | Returned => k_ret k <= B c k /\ k_ret k <= n
  end.

Definition InvT (c : cfg) (s : state) : Prop := all_calls (fun _ k => time_ok c (now s) k) (calls s).

Ltac fields := cbn [k_px k_ow k_start k_dl k_pc k_t0 k_lockt k_d k_e k_out k_ret k_rel0 k_w] in *.
Ltac usepc := repeat match goal with H : k_pc _ = _ |- _ => rewrite H in *; clear H end.
Ltac splitifs :=
  repeat match goal with
  | |- context [if ?b then _ else _] => destruct b eqn:?
  | H : context [if ?b then _ else _] |- _ => destruct b eqn:?
  end.
Ltac tsolve := unfold time_ok, B, dl_d, wr_e in *; pcs; fields; usepc; fields; splitifs; fields; splitifs; lia.

Lemma InvT_init : forall c, InvT c init.
Proof. intros c i k H. destruct i; discriminate. Qed.

Lemma InvT_step : forall c s l s', 0 < writeT c -> InvT c s -> step c s l = Some s' -> InvT c s'.
Proof.
  intros c s l s' Hw HT H. unfold InvT in *.
  destruct l; inv_step H; cbn [calls now with_calls with_rcvs];
    try exact HT;
    try (match goal with Hk : nth_error (calls s) _ = Some _ |- _ =>
           apply (all_upd _ _ _ _ _ Hk HT); pose proof (HT _ _ Hk) as Hok; cbv beta in *; tsolve end).
  - (* Tick *)
    intros i k Hk. pose proof (HT _ _ Hk) as Hok. cbv beta in *.
    apply orb_false_elim in Heqb. destruct Heqb as [Hu _].
    pose proof (existsb_false_nth _ _ _ _ _ Hu Hk) as Hnu. unfold call_urgent in Hnu.
    unfold time_ok in *. destruct (k_pc k); unfold B, dl_d, wr_e in *; splitifs; try discriminate; lia.
  - (* Start *)
    apply all_app; [exact HT|]. cbv beta. unfold time_ok. cbn. lia.
Qed.

Theorem InvT_reach : forall c s, 0 < writeT c -> reach c s -> InvT c s.
Proof. intros c s Hw. induction 1; [apply InvT_init|eapply InvT_step; eauto]. Qed.

(* ---------- L. connLock is held exactly by the call that is dialling ---------- *)
Definition InvL (s : state) : Prop :=
  (forall i, lock s = Some i -> exists k, nth_error (calls s) i = Some k /\ k_pc k = Dialing) /\
  (forall i k, nth_error (calls s) i = Some k -> k_pc k = Dialing -> lock s = Some i).

Lemma InvL_init : InvL init.
Proof. split; [intros i H; discriminate|intros [|i] k H; discriminate]. Qed.

(* a step that replaces call i (not dialling before or after) and keeps the lock *)
Lemma InvL_same : forall s cs' i k x, InvL s -> nth_error (calls s) i = Some k -> k_pc k <> Dialing -> k_pc x <> Dialing ->
  cs' = upd (calls s) i x ->
  (forall j, lock s = Some j -> exists k', nth_error cs' j = Some k' /\ k_pc k' = Dialing) /\
  (forall j k', nth_error cs' j = Some k' -> k_pc k' = Dialing -> lock s = Some j).
Proof.
  intros s cs' i k x [H1 H2] Hk Hnk Hnx ->. split.
  - intros j Hj. destruct (H1 _ Hj) as [k' [Hk' Hd]]. exists k'. split; [|exact Hd].
    rewrite nth_upd_neq; [exact Hk'|]. intros ->. rewrite Hk in Hk'. inversion Hk'; subst. contradiction.
  - intros j k' Hk' Hd. destruct (nth_upd_inv _ _ _ _ _ _ _ Hk Hk') as [[-> ->]|[_ Hk'']]; [contradiction|eauto].
Qed.

Lemma InvL_step : forall c s l s', InvL s -> step c s l = Some s' -> InvL s'.
Proof.
  intros c s l s' HL H. unfold InvL.
  destruct l; inv_step H; cbn [calls lock with_calls with_rcvs];
    try exact HL;
    try (match goal with Hk : nth_error (calls s) ?i = Some ?k |- context [upd (calls s) ?i ?x] =>
           apply (InvL_same s _ i k x HL Hk); [pcs; congruence|pcs; splitifs; fields; congruence|reflexivity] end).
  - (* Start *) destruct HL as [H1 H2]. split.
    + intros i Hi. destruct (H1 _ Hi) as [k [Hk Hd]]. exists k. split; [|exact Hd].
      rewrite nth_error_app1; [exact Hk|]. apply nth_error_Some. congruence.
    + intros i k Hk Hd. apply nth_app_inv in Hk. destruct Hk as [Hk|[_ ->]]; [eauto|discriminate].
  - (* LLock, dial *) destruct HL as [H1 H2]. split.
    + intros j Hj. inversion Hj; subst. exists (set_lock c0 Dialing (now s) true (rels (tr s) - k_rel0 c0)). split; [eapply nth_upd_eq; eauto|reflexivity].
    + intros j k' Hk' Hd. destruct (nth_upd_inv _ _ _ _ _ _ _ Heqo Hk') as [[-> _]|[_ Hk'']]; [reflexivity|].
      rewrite (H2 _ _ Hk'' Hd) in Heqo0. discriminate.
  - (* LDialOk *) destruct HL as [H1 H2]. split; [intros j Hj; discriminate|].
    intros j k' Hk' Hd. destruct (nth_upd_inv _ _ _ _ _ _ _ Heqo Hk') as [[-> ->]|[Hne Hk'']]; [discriminate|].
    pose proof (H2 _ _ Heqo Heqp) as E1. pose proof (H2 _ _ Hk'' Hd) as E2. congruence.
  - (* LDialFail *) destruct HL as [H1 H2]. split; [intros j Hj; discriminate|].
    intros j k' Hk' Hd. destruct (nth_upd_inv _ _ _ _ _ _ _ Heqo Hk') as [[-> ->]|[Hne Hk'']]; [discriminate|].
    pose proof (H2 _ _ Heqo Heqp) as E1. pose proof (H2 _ _ Hk'' Hd) as E2. congruence.
  - (* LDialTimeout *) destruct HL as [H1 H2]. split; [intros j Hj; discriminate|].
    intros j k' Hk' Hd. destruct (nth_upd_inv _ _ _ _ _ _ _ Heqo Hk') as [[-> ->]|[Hne Hk'']]; [discriminate|].
    pose proof (H2 _ _ Heqo Heqp) as E1. pose proof (H2 _ _ Hk'' Hd) as E2. congruence.
  - (* LConnDown: under connLock *)
    destruct HL as [H1 H2]. split; [intros j Hj; discriminate|].
    intros j k' Hk' Hd. pose proof (H2 _ _ Hk' Hd). congruence.
  - (* LIdleClose: taken and released within the step, possible only while nobody dials *)
    destruct HL as [H1 H2]. split; [intros j Hj; discriminate|].
    intros j k' Hk' Hd. pose proof (H2 _ _ Hk' Hd). congruence.
  - (* LCloseOld *)
    destruct HL as [H1 H2]. split; [intros j Hj; discriminate|].
    intros j k' Hk' Hd. pose proof (H2 _ _ Hk' Hd). congruence.
Qed.

Theorem InvL_reach : forall c s, reach c s -> InvL s.
Proof. induction 1; [apply InvL_init|eapply InvL_step; eauto]. Qed.

(* ---------- R. reply receivers ---------- *)
Definition rcv_ok (c : cfg) (s : state) (x : rcv) : Prop :=
  In (r_id x, r_pay x) (sent s) /\
  match r_pc x with
  | RFound j => call_of (r_id x) = Some j /\ r_t0 x <= now s /\ now s <= r_t0 x + readT c
  | _ => True end.
Definition InvR (c : cfg) (s : state) : Prop := forall r x, nth_error (rcvs s) r = Some x -> rcv_ok c s x.

Lemma InvR_init : forall c, InvR c init.
Proof. intros c [|r] x H; discriminate. Qed.

Lemma InvR_frame : forall c s s', InvR c s -> rcvs s' = rcvs s -> sent s' = sent s -> now s' = now s -> InvR c s'.
Proof. intros c s s' H Hr Hs Hn r x Hx. rewrite Hr in Hx. specialize (H _ _ Hx). unfold rcv_ok in *. rewrite Hs, Hn. exact H. Qed.

Lemma InvR_upd : forall c s s' r x0 x, InvR c s -> nth_error (rcvs s) r = Some x0 -> rcvs s' = upd (rcvs s) r x ->
  sent s' = sent s -> now s' = now s -> rcv_ok c s x -> InvR c s'.
Proof.
  intros c s s' r x0 x H H0 Hr Hs Hn Hx r' x' Hx'. rewrite Hr in Hx'.
  destruct (nth_upd_inv _ _ _ _ _ _ _ H0 Hx') as [[-> ->]|[_ Hx'']].
  - unfold rcv_ok in *. rewrite Hs, Hn. exact Hx.
  - specialize (H _ _ Hx''). unfold rcv_ok in *. rewrite Hs, Hn. exact H.
Qed.

Lemma InvR_step : forall c s l s', InvR c s -> step c s l = Some s' -> InvR c s'.
Proof.
  intros c s l s' HR H.
  destruct l; inv_step H;
    try (eapply InvR_frame; [exact HR|reflexivity|reflexivity|reflexivity]);
    try (match goal with Hx : nth_error (rcvs s) ?r = Some ?x0 |- _ =>
           eapply (InvR_upd c s _ r x0); [exact HR|exact Hx|reflexivity|reflexivity|reflexivity|];
           pose proof (HR _ _ Hx) as Hok; unfold rcv_ok in *; cbn [r_id r_pay r_pc r_t0]; destruct Hok as [Hin Hrest]; split; [exact Hin|] end).
  - (* Tick *)
    intros r x Hx. pose proof (HR _ _ Hx) as [Hin Hok]. split; [exact Hin|]. cbn [now].
    apply orb_false_elim in Heqb. destruct Heqb as [_ Hu].
    pose proof (existsb_false_nth _ _ _ _ _ Hu Hx) as Hnu. unfold rcv_urgent in Hnu.
    destruct (r_pc x); auto. apply orb_false_elim in Hnu. destruct Hnu as [_ Hnu]. destruct Hok as [Hc [H1 H2]]. repeat split; auto; lia.
  - (* LPeerPkt *)
    intros r x Hx. cbn [rcvs] in Hx. apply nth_app_inv in Hx. destruct Hx as [Hx|[_ ->]].
    + pose proof (HR _ _ Hx) as [Hin Hok]. split; [right; exact Hin|exact Hok].
    + split; [left; reflexivity|exact I].
  - (* LLookup found *) repeat split; auto; lia.
  - exact I.
  - exact I.
  - exact I.
  - exact I.
Qed.

Theorem InvR_reach : forall c s, reach c s -> InvR c s.
Proof. intros c. induction 1; [apply InvR_init|eapply InvR_step; eauto]. Qed.

(* ---------- O. outcomes ---------- *)
Lemma call_of_id : forall id j, call_of id = Some j -> id_of j = id.
Proof.
  unfold call_of, id_of. intros id j H. destruct (id =? 0) eqn:E; [discriminate|]. inversion H; subst. lia.
Qed.
Lemma upd_length : forall A (l : list A) i x, length (upd l i x) = length l.
Proof. induction l as [|h t IH]; intros [|i] x; cbn; auto. Qed.

Definition notq (s : state) (i : nat) : Prop := ~ In i (sendq s) /\ ~ In i (wire s).
Definition out_ok (s : state) (i : nat) (k : call) : Prop :=
  match k_pc k with
  | Init | Pre | Counted | Reg | Dialing | Enq => k_out k = None /\ notq s i
  | Waiting => k_out k = None
  | Done | Uncounted | Cleaned => exists o, k_out k = Some o
  | Returned => (exists o, k_out k = Some o) /\ (k_out k = Some Timeout -> k_dl k <= k_ret k)
  end
  /\ (forall p, k_out k = Some (Reply p) -> In (id_of i, p) (sent s))
  /\ (k_out k = Some Timeout -> k_dl k <= now s)
  /\ (k_out k = Some Error -> notq s i)
  /\ (k_out k = Some Sent -> In i (sendq s) \/ In i (wire s))
  /\ (k_out k = Some Sent -> k_ow k = true).
Definition InvO (s : state) : Prop :=
  all_calls (out_ok s) (calls s) /\ (forall i, In i (sendq s) \/ In i (wire s) -> (i < length (calls s))%nat).

Lemma out_ok_frame : forall s s' j k,
  (In j (sendq s') -> In j (sendq s)) -> (In j (wire s') -> In j (sendq s) \/ In j (wire s)) ->
  (In j (sendq s) \/ In j (wire s) -> In j (sendq s') \/ In j (wire s')) ->
  incl (sent s) (sent s') -> now s <= now s' -> out_ok s j k -> out_ok s' j k.
Proof.
  intros s s' j k Hq Hw Hf Hs Hn [H1 [H2 [H3 [H4 [H5 H6]]]]].
  assert (Hnq : notq s j -> notq s' j) by (intros [A1 A2]; split; intros A; [apply A1; auto|destruct (Hw A); auto]).
  unfold out_ok. split; [|split; [|split; [|split; [|split]]]].
  - destruct (k_pc k); try exact H1; destruct H1 as [A1 A2]; split; auto.
  - intros p Hp. apply Hs. auto.
  - intros Ht. specialize (H3 Ht). lia.
  - intros He. apply Hnq. auto.
  - intros He. apply Hf. auto.
  - exact H6.
Qed.

Lemma InvO_init : InvO init.
Proof. split; [intros [|i] k H; discriminate|intros i [[]|[]]]. Qed.

Ltac osolve := unfold out_ok, notq in *; cbn [now sendq wire sent] in *; pcs; fields; usepc; fields;
  repeat match goal with H : _ /\ _ |- _ => destruct H end;
  repeat split; intros; try discriminate; try congruence; eauto; try lia; try solve [intuition (try congruence; try lia)].

Lemma InvO_step : forall c s l s', InvR c s -> InvO s -> step c s l = Some s' -> InvO s'.
Proof.
  intros c s l s' HR [HO HI] H.
  destruct l; inv_step H; unfold InvO, with_calls, with_rcvs; cbn [calls sendq wire];
    try (split; [|rewrite ?upd_length; exact HI]);
    try (match goal with Hk : nth_error (calls s) ?i = Some ?k |- all_calls _ (upd (calls s) ?i ?x) =>
           apply (all_upd _ _ _ _ _ Hk);
           [intros jj kk Hkk; apply (out_ok_frame s); cbn [sendq wire sent now]; auto using incl_refl; try lia; apply HO; exact Hkk
           |pose proof (HO _ _ Hk) as Hok] end);
    try (intros jj kk Hkk; apply (out_ok_frame s); cbn [sendq wire sent now]; auto using incl_refl, incl_tl; try lia; apply HO; exact Hkk).
  - (* Start *) split.
    + apply all_app.
      * intros j k' Hk'. apply (out_ok_frame s); cbn [sendq wire sent now with_calls]; auto using incl_refl; try lia; try (apply HO; exact Hk').
      * unfold out_ok, notq. cbn. repeat split; try discriminate; intros A; (assert (length (calls s) < length (calls s))%nat by (apply HI; auto)); lia.
    + intros i Hi. rewrite app_length. cbn. specialize (HI _ Hi). lia.
  - osolve.
  - osolve.
  - osolve.
  - osolve.
  - osolve.
  - osolve.
  - osolve.
  - osolve.
  - (* LEnq *) split.
    + apply (all_upd2 _ _ _ _ _ Heqo).
      * intros j k' Hne Hk'.
        apply (out_ok_frame s); cbn [sendq wire sent now]; auto using incl_refl; try lia.
        -- intros A. apply in_app_or in A. destruct A as [A|[A|[]]]; [exact A|congruence].
        -- intros [A|A]; [left; apply in_or_app; left; exact A|right; exact A].
      * pose proof (HO _ _ Heqo) as Hok. unfold out_ok, notq in *. cbn [sendq wire sent now]. pcs. rewrite Heqp in Hok.
        destruct Hok as [[A1 [A2 A3]] [B1 [B2 [B3 [B4 B5]]]]]. destruct (k_ow c0) eqn:How; fields; rewrite ?A1;
          repeat split; intros; try discriminate; eauto.
        left. apply in_or_app. right. left. reflexivity.
    + rewrite upd_length. intros j [A|A]; [|apply HI; auto]. apply in_app_or in A. destruct A as [A|[<-|[]]]; [apply HI; auto|].
      apply nth_error_Some. congruence.
  - osolve.
  - (* LCtxFire *) osolve.
  - osolve.
  - (* LPost *) osolve.
  - (* LSendTake *) split.
    + intros j k' Hk'. apply (out_ok_frame s); cbn [sendq wire sent now]; auto using incl_refl; try lia.
      * rewrite Heql. intros A; right; exact A.
      * rewrite Heql. intros [<-|A]; [left; left; reflexivity|right; exact A].
      * rewrite Heql. intros [[<-|A]|A]; [right; left; reflexivity|left; exact A|right; right; exact A].
    + intros j HA. apply HI. cbn [In]. destruct HA as [A|[<-|A]]; auto.
  - (* LDeliver *)
    pose proof (HR _ _ Heqo) as [Hin Hrf]. rewrite Heqr1 in Hrf. destruct Hrf as [Hc _]. apply call_of_id in Hc.
    osolve.
  - (* LCancel *) osolve.
  - (* LFilterErr *) osolve.
  - (* LCount *) osolve.
  - (* LUncount *) osolve.
Qed.

Theorem InvO_reach : forall c s, reach c s -> InvO s.
Proof. intros c. induction 1; [apply InvO_init|eapply InvO_step; eauto using InvR_reach]. Qed.

(* ================= the theorems of the property ================= *)

(* ---- restored ---- *)
Lemma nil_of_no_in : forall (l : list nat), (forall j, ~ In j l) -> l = [].
Proof. intros [|h t] H; [reflexivity|]. exfalso. apply (H h). left; reflexivity. Qed.

Theorem restored_counts : forall c s, reach c s ->
  (forall p, queueLen s p = cnt (counted_by p) (calls s)) /\ invokeNum s = cnt invoked (calls s) /\
  (forall i, In i (resp s) <-> inside_at (calls s) i) /\ NoDup (resp s).
Proof. intros c s H. destruct (InvA_reach c s H). auto. Qed.

Theorem restored_quiescent : forall c s, reach c s ->
  (forall i k, nth_error (calls s) i = Some k -> k_pc k = Init \/ k_pc k = Returned) ->
  (forall p, queueLen s p = 0%Z) /\ invokeNum s = 0%Z /\ resp s = [].
Proof.
  intros c s H Hq. destruct (InvA_reach c s H) as [Hql Hin Hr Hd]. repeat split.
  - intros p. rewrite Hql. apply cnt_all_false. intros i k Hk. unfold counted_by, counted. destruct (Hq _ _ Hk) as [-> | ->]; reflexivity.
  - rewrite Hin. apply cnt_all_false. intros i k Hk. unfold invoked. destruct (Hq _ _ Hk) as [-> | ->]; reflexivity.
  - apply nil_of_no_in. intros j Hj. apply Hr in Hj. destruct Hj as [k [Hk Hi]].
    unfold inside in Hi. destruct (Hq _ _ Hk) as [Hp|Hp]; rewrite Hp in Hi; discriminate.
Qed.

(* no call inside doInvoke: queueLen and the pending-reply table are empty, whatever the other calls do outside *)
Theorem restored_no_call_inside : forall c s, reach c s ->
  (forall i k, nth_error (calls s) i = Some k -> in_doInvoke k = false) -> (forall p, queueLen s p = 0%Z) /\ resp s = [].
Proof.
  intros c s H Hq0. destruct (InvA_reach c s H) as [Hql Hin Hr Hd].
  assert (Hq : forall i k, nth_error (calls s) i = Some k -> counted k = false /\ inside k = false).
  { intros i k Hk. specialize (Hq0 i k Hk). unfold in_doInvoke in Hq0. apply orb_false_elim in Hq0. exact Hq0. }
  split.
  - intros p. rewrite Hql. apply cnt_all_false. intros i k Hk. unfold counted_by. destruct (Hq i k Hk) as [E _]. rewrite E. reflexivity.
  - apply nil_of_no_in. intros j Hj. apply Hr in Hj. destruct Hj as [k [Hk Hi]].
    destruct (Hq _ _ Hk) as [_ E]. rewrite E in Hi. discriminate.
Qed.

Lemma cnt_ext : forall f l1 l2, length l1 = length l2 ->
  (forall j k1 k2, nth_error l1 j = Some k1 -> nth_error l2 j = Some k2 -> f k1 = f k2) -> cnt f l1 = cnt f l2.
Proof.
  induction l1 as [|h1 t1 IH]; intros [|h2 t2] Hl He; cbn in *; try discriminate; [reflexivity|].
  rewrite (He O h1 h2 eq_refl eq_refl). rewrite (IH t2); [reflexivity|lia|]. intros j k1 k2 H1 H2. apply (He (S j)); auto.
Qed.

(* per call: the three values after the call has returned equal the values before it entered, given the other calls
   stand where they stood *)
Theorem restored_per_call : forall c s1 s2 i k1 k2, reach c s1 -> reach c s2 ->
  length (calls s1) = length (calls s2) ->
  (forall j a b, j <> i -> nth_error (calls s1) j = Some a -> nth_error (calls s2) j = Some b -> k_pc a = k_pc b) ->
  (forall j a b, nth_error (calls s1) j = Some a -> nth_error (calls s2) j = Some b -> k_px a = k_px b) ->
  nth_error (calls s1) i = Some k1 -> k_pc k1 = Init -> nth_error (calls s2) i = Some k2 -> k_pc k2 = Returned ->
  (forall p, queueLen s1 p = queueLen s2 p) /\ invokeNum s1 = invokeNum s2 /\ (forall j, In j (resp s1) <-> In j (resp s2)).
Proof.
  intros c s1 s2 i k1 k2 H1 H2 Hl Hsame Hpx Hk1 Hp1 Hk2 Hp2.
  destruct (InvA_reach c s1 H1) as [Hq1 Hn1 Hr1 _]. destruct (InvA_reach c s2 H2) as [Hq2 Hn2 Hr2 _].
  assert (Hcn : forall j a b, nth_error (calls s1) j = Some a -> nth_error (calls s2) j = Some b -> counted a = counted b).
  { intros j a b Ha Hb. destruct (Nat.eq_dec j i) as [->|Hne].
    - rewrite Hk1 in Ha. rewrite Hk2 in Hb. inversion Ha; inversion Hb; subst. unfold counted. rewrite Hp1, Hp2. auto.
    - unfold counted. rewrite (Hsame _ _ _ Hne Ha Hb). auto. }
  assert (Hpc : forall j a b, nth_error (calls s1) j = Some a -> nth_error (calls s2) j = Some b -> inside a = inside b /\ invoked a = invoked b).
  { intros j a b Ha Hb. destruct (Nat.eq_dec j i) as [->|Hne].
    - rewrite Hk1 in Ha. rewrite Hk2 in Hb. inversion Ha; inversion Hb; subst. unfold inside, invoked. rewrite Hp1, Hp2. auto.
    - unfold inside, invoked. rewrite (Hsame _ _ _ Hne Ha Hb). auto. }
  repeat split.
  - intros p. rewrite Hq1, Hq2. apply cnt_ext; [exact Hl|]. intros j a b Ha Hb. unfold counted_by. rewrite (Hcn j a b Ha Hb), (Hpx j a b Ha Hb). reflexivity.
  - rewrite Hn1, Hn2. apply cnt_ext; [exact Hl|]. intros j a b Ha Hb. apply (Hpc j a b Ha Hb).
  - rewrite Hr1, Hr2. intros [a [Ha Hi]].
    assert (Hlt : (j < length (calls s2))%nat) by (rewrite <- Hl; apply nth_error_Some; congruence).
    apply nth_error_Some in Hlt. destruct (nth_error (calls s2) j) as [b|] eqn:Hb; [|congruence].
    unfold inside_at. rewrite Hb. exists b. split; [reflexivity|]. destruct (Hpc j a b Ha Hb) as [E _]. congruence.
  - rewrite Hr1, Hr2. intros [b [Hb Hi]].
    assert (Hlt : (j < length (calls s1))%nat) by (rewrite Hl; apply nth_error_Some; congruence).
    apply nth_error_Some in Hlt. destruct (nth_error (calls s1) j) as [a|] eqn:Ha; [|congruence].
    unfold inside_at. rewrite Ha. exists a. split; [reflexivity|]. destruct (Hpc j a b Ha Hb) as [E _]. congruence.
Qed.

(* ---- outcome ---- *)
Theorem outcome_classes : forall c s i k, reach c s -> nth_error (calls s) i = Some k -> k_pc k = Returned ->
  exists o, k_out k = Some o /\
    match o with
    | Reply p => In (id_of i, p) (sent s)                 (* a packet the peer sent with this call's id *)
    | Timeout => k_dl k <= k_ret k                         (* never before the deadline *)
    | Error => ~ In i (sendq s) /\ ~ In i (wire s)         (* the request never left *)
    | Sent => k_ow k = true /\ (In i (sendq s) \/ In i (wire s))   (* one-way: the request was queued *)
    | Cancelled => True                                    (* the caller gave up while the call waited *)
    end.
Proof.
  intros c s i k H Hk Hp. destruct (InvO_reach c s H) as [HO _]. specialize (HO _ _ Hk). unfold out_ok in HO. rewrite Hp in HO.
  destruct HO as [[[o Ho] Ht] [Hr [_ [He [Hs Hw]]]]]. exists o. split; [exact Ho|].
  destruct o; [apply Hr; exact Ho|apply Ht; exact Ho|apply He; exact Ho|split; [apply Hw; exact Ho|apply Hs; exact Ho]|exact I].
Qed.

(* ---- returns ---- *)
Theorem returns_partial : forall c s i k, 0 < writeT c -> reach c s -> nth_error (calls s) i = Some k -> k_pc k = Returned ->
  k_ret k <= B c k.
Proof. intros c s i k Hw H Hk Hp. pose proof (InvT_reach c s Hw H _ _ Hk) as Ht. cbv beta in Ht. unfold time_ok in Ht. rewrite Hp in Ht. tauto. Qed.

Theorem returns_uncontended : forall c s i k, 0 < writeT c -> reach c s -> nth_error (calls s) i = Some k -> k_pc k = Returned ->
  k_lockt k = k_start k -> k_e k = false -> k_ret k <= k_dl k + dialT c.
Proof.
  intros c s i k Hw H Hk Hp Hl He. pose proof (returns_partial c s i k Hw H Hk Hp) as Hb.
  pose proof (InvT_reach c s Hw H _ _ Hk) as Ht. cbv beta in Ht. unfold time_ok in Ht. unfold B, dl_d, wr_e in Hb. rewrite He in Hb.
  destruct (k_d k); lia.
Qed.

Theorem returns_established : forall c s i k, 0 < writeT c -> reach c s -> nth_error (calls s) i = Some k -> k_pc k = Returned ->
  k_lockt k = k_start k -> k_d k = false -> k_e k = false -> k_ret k <= k_dl k.
Proof.
  intros c s i k Hw H Hk Hp Hl Hd He. pose proof (returns_partial c s i k Hw H Hk Hp) as Hb.
  pose proof (InvT_reach c s Hw H _ _ Hk) as Ht. cbv beta in Ht. unfold time_ok in Ht. unfold B, dl_d, wr_e in Hb. rewrite He, Hd in Hb. lia.
Qed.

(* the clock cannot pass the bound of a call that is past connLock and has not returned *)
Theorem alive_bounded : forall c s i k, 0 < writeT c -> reach c s -> nth_error (calls s) i = Some k ->
  match k_pc k with
  | Dialing => now s <= k_lockt k + dialT c
  | Enq => now s <= k_lockt k + dl_d c k + writeT c
  | Waiting | Done | Cleaned => now s <= B c k
  | _ => True end.
Proof.
  intros c s i k Hw H Hk. pose proof (InvT_reach c s Hw H _ _ Hk) as Ht. cbv beta in Ht. unfold time_ok in Ht.
  destruct Ht as [H1 [H2 [H3 Hx]]]. destruct (k_pc k); auto; lia.
Qed.

(* before connLock: a call waits only while another call holds the lock, and nobody holds it longer than DialTimeout *)
Theorem lock_wait : forall c s i k, 0 < writeT c -> reach c s -> nth_error (calls s) i = Some k -> k_pc k = Reg ->
  step c s Tick <> None ->
  exists j kj, lock s = Some j /\ nth_error (calls s) j = Some kj /\ k_pc kj = Dialing /\ now s < k_lockt kj + dialT c.
Proof.
  intros c s i k Hw H Hk Hp Ht. cbn [step] in Ht. destruct (urgent c s) eqn:Hu; [congruence|].
  unfold urgent in Hu. apply orb_false_elim in Hu. destruct Hu as [Hu _].
  pose proof (existsb_false_nth _ _ _ _ _ Hu Hk) as Hn. unfold call_urgent in Hn. rewrite Hp in Hn.
  destruct (lock s) as [j|] eqn:Hl; [|discriminate]. destruct (InvL_reach c s H) as [H1 _]. destruct (H1 _ Hl) as [kj [Hkj Hd]].
  exists j, kj. repeat split; auto.
  pose proof (existsb_false_nth _ _ _ _ _ Hu Hkj) as Hnj. unfold call_urgent in Hnj. rewrite Hd in Hnj.
  pose proof (InvT_reach c s Hw H _ _ Hkj) as Htj. cbv beta in Htj. unfold time_ok in Htj. rewrite Hd in Htj. lia.
Qed.

(* the full-strength statement of the deadline clause, and its two refutations *)
Definition returns_statement : Prop :=
  forall c s i k, 0 < writeT c -> reach c s -> nth_error (calls s) i = Some k -> k_pc k = Returned -> k_ret k <= k_dl k + dialT c.

Fixpoint ticks (n : nat) : list label := match n with O => [] | S m => Tick :: ticks m end.

(* (a) two callers, connection establishment stalls: the second caller waits for connLock while the first one dials *)
Definition stalled_cfg : cfg := mkcfg 40 60 10 100 100000 60000.
Definition stalled_trace : list label :=
  [Start 20 false 0%nat; Start 20 false 0%nat; LPre 0; LCount 0; LReg 0; LLock 0; LPre 1; LCount 1; LReg 1] ++ ticks 40 ++
  [LDialTimeout 0; LUncount 0; LClean 0; LPost 0; LLock 1] ++ ticks 40 ++ [LDialTimeout 1; LUncount 1; LClean 1; LPost 1].
(* (b) the peer accepts and never reads, send queue of length 1: the second caller waits WriteTimeout for room *)
Definition fullq_cfg : cfg := mkcfg 10 60 10 1 100000 60000.
Definition fullq_trace : list label :=
  [Start 10 false 0%nat; Start 10 false 0%nat; LPre 0; LCount 0; LReg 0; LLock 0; LDialOk 0; LEnq 0; LPre 1; LCount 1; LReg 1; LLock 1] ++ ticks 10 ++
  [LCtxFire 0; LUncount 0; LClean 0; LPost 0] ++ ticks 50 ++ [LEnqTimeout 1; LUncount 1; LClean 1; LPost 1].

Definition late_call (c : cfg) (ls : list label) (i : nat) : bool :=
  match run c init ls with
  | Some s => match nth_error (calls s) i with
              | Some k => match k_pc k with Returned => k_dl k + dialT c <? k_ret k | _ => false end
              | None => false end
  | None => false end.

Lemma stalled_dial_late : late_call stalled_cfg stalled_trace 1 = true.
Proof. vm_compute. reflexivity. Qed.
Lemma full_queue_late : late_call fullq_cfg fullq_trace 1 = true.
Proof. vm_compute. reflexivity. Qed.

Lemma late_call_refutes : forall c ls i, 0 < writeT c -> late_call c ls i = true -> ~ returns_statement.
Proof.
  intros c ls i Hw Hl Hs. unfold late_call in Hl.
  destruct (run c init ls) as [s|] eqn:Hr; [|discriminate].
  destruct (nth_error (calls s) i) as [k|] eqn:Hk; [|discriminate].
  destruct (k_pc k) eqn:Hp; try discriminate.
  pose proof (Hs c s i k Hw (run_reach c ls init s (reach_init c) Hr) Hk Hp). lia.
Qed.

Theorem returns_refuted_stalled_dial : ~ returns_statement.
Proof. apply (late_call_refutes stalled_cfg stalled_trace 1); [reflexivity|exact stalled_dial_late]. Qed.
Theorem returns_refuted_full_queue : ~ returns_statement.
Proof. apply (late_call_refutes fullq_cfg fullq_trace 1); [reflexivity|exact full_queue_late]. Qed.

(* ---- late replies ---- *)
Definition not_waiting (s : state) (j : nat) : Prop := forall k, nth_error (calls s) j = Some k -> k_pc k <> Waiting.
Definition same_calls (s s' : state) : Prop :=
  calls s' = calls s /\ queueLen s' = queueLen s /\ invokeNum s' = invokeNum s /\ resp s' = resp s /\
  sendq s' = sendq s /\ wire s' = wire s /\ lock s' = lock s /\ conn_open s' = conn_open s /\ now s' = now s.

(* a packet whose id belongs to a call that is not waiting (returned, never issued, id 0) changes no call, no counter and
   no table entry, whatever its receiver does; and its emission changes nothing either *)
Theorem late_reply_inert : forall c s r x l s', reach c s -> nth_error (rcvs s) r = Some x ->
  (forall j, call_of (r_id x) = Some j -> not_waiting s j) ->
  l = LLookup r \/ l = LDeliver r \/ l = LGiveUp r -> step c s l = Some s' -> same_calls s s'.
Proof.
  intros c s r x l s' H Hx Hnw Hl Hs. pose proof (InvR_reach c s H _ _ Hx) as [_ Hrf].
  destruct Hl as [-> | [-> | ->]]; inv_step Hs; unfold same_calls, with_rcvs; cbn; try (repeat split; reflexivity).
  exfalso. assert (r0 = x) by congruence. subst r0. rewrite Heqr1 in Hrf. destruct Hrf as [Hc _].
  apply (Hnw _ Hc _ Heqo0). exact Heqp.
Qed.

Theorem peer_packet_inert : forall c s id pay s', step c s (LPeerPkt id pay) = Some s' -> same_calls s s'.
Proof. intros c s id pay s' H. inv_step H. unfold same_calls; cbn. repeat split; reflexivity. Qed.

(* closing a connection - the current one or, by a goroutine of an earlier connection, one that is not current any more -
   needs connLock free and leaves it free; a stale close changes nothing at all *)
Theorem close_releases_lock : forall c s l s', l = LConnDown \/ l = LCloseOld -> step c s l = Some s' ->
  lock s = None /\ lock s' = None /\ calls s' = calls s /\ (forall p, queueLen s' p = queueLen s p) /\ invokeNum s' = invokeNum s /\
  resp s' = resp s /\ sendq s' = sendq s /\ (l = LCloseOld -> conn_open s' = conn_open s).
Proof. intros c s l s' [-> | ->] H; inv_step H; cbn; repeat split; auto; discriminate. Qed.

(* the sender goroutine's idle check closes the connection and nothing else: it needs connLock free and leaves it free,
   touches no call, counter, table entry or queue; the next call simply dials again *)
Theorem idle_close_inert : forall c s s', step c s LIdleClose = Some s' ->
  lock s = None /\ lock s' = None /\ conn_open s' = false /\ calls s' = calls s /\ queueLen s' = queueLen s /\
  invokeNum s' = invokeNum s /\ resp s' = resp s /\ sendq s' = sendq s /\ wire s' = wire s /\ now s' = now s.
Proof. intros c s s' H. inv_step H. cbn. repeat split; auto. Qed.

(* a reply that arrives after its call has returned is dropped at the table lookup *)
Theorem late_reply_dropped : forall c s r x j k s', reach c s -> nth_error (rcvs s) r = Some x -> r_pc x = RNew ->
  call_of (r_id x) = Some j -> nth_error (calls s) j = Some k -> k_pc k = Returned ->
  step c s (LLookup r) = Some s' -> exists x', nth_error (rcvs s') r = Some x' /\ r_pc x' = RDone.
Proof.
  intros c s r x j k s' H Hx Hn Hc Hk Hp Hs. destruct (InvA_reach c s H) as [_ _ Hr _].
  assert (Hm : memb j (resp s) = false).
  { destruct (memb j (resp s)) eqn:E; [|reflexivity]. unfold memb in E. apply existsb_exists in E. destruct E as [j' [Hin Hj]].
    apply Nat.eqb_eq in Hj. subst j'. apply Hr in Hin. destruct Hin as [k' [Hk' Hi]]. rewrite Hk in Hk'. inversion Hk'; subst.
    unfold inside in Hi. rewrite Hp in Hi. discriminate. }
  cbn [step] in Hs. rewrite Hx, Hn, Hc, Hm in Hs. inversion Hs; subst. unfold with_rcvs; cbn [rcvs].
  eexists. split; [eapply nth_upd_eq; eauto|reflexivity].
Qed.

(* a delivery changes exactly the call whose id the packet carries, and only while that call is waiting *)
Theorem reply_only_to_its_call : forall c s r x s', reach c s -> nth_error (rcvs s) r = Some x -> step c s (LDeliver r) = Some s' ->
  exists j k, call_of (r_id x) = Some j /\ nth_error (calls s) j = Some k /\ k_pc k = Waiting /\
              calls s' = upd (calls s) j (set_out k (Reply (r_pay x)) (k_e k)).
Proof.
  intros c s r x s' H Hx Hs. pose proof (InvR_reach c s H _ _ Hx) as [_ Hrf]. inv_step Hs.
  assert (r0 = x) by congruence. subst r0. rewrite Heqr1 in Hrf. destruct Hrf as [Hc _].
  exists j, c0. cbn [calls]. auto.
Qed.

(* a receiver that found the channel of a departed caller is released within ReadTimeout *)
Theorem receiver_released : forall c s r x j, reach c s -> nth_error (rcvs s) r = Some x -> r_pc x = RFound j ->
  now s <= r_t0 x + readT c.
Proof. intros c s r x j H Hx Hp. pose proof (InvR_reach c s H _ _ Hx) as [_ Hrf]. rewrite Hp in Hrf. tauto. Qed.

(* ---- the time wheel: rtimer.After(T) never fires earlier than 19/20 of T (needs the accuracy constant of the tree) ---- *)
Theorem wheel_not_early : forall T, 19 * T <= 20 * lo T.
Proof.
  intros T. unfold lo, c_rtimer_accuracy.
  assert (Hd : T = 20 * (T / 20) + T mod 20) by (apply N.div_mod; discriminate).
  assert (Hm : T mod 20 < 20) by (apply N.mod_lt; discriminate).
  remember (T / 20) as q. remember (T mod 20) as m. lia.
Qed.
Theorem wheel_not_late : forall T, lo T <= T.
Proof. intros T. unfold lo. apply N.le_sub_l. Qed.

(* ---- no time lock: from every state finitely many local steps lead to a state in which the clock can tick ---- *)
Definition rank (k : call) : nat :=
  match k_pc k with Init => 10 | Pre => 9 | Counted => 8 | Reg => 7 | Dialing => 6 | Enq => 5 | Waiting => 4 | Done => 3 | Uncounted => 2 | Cleaned => 1 | Returned => 0 end.
Definition rrank (x : rcv) : nat := match r_pc x with RNew => 2 | RFound _ => 1 | RDone => 0 end.
Fixpoint total {A} (f : A -> nat) (l : list A) : nat := match l with [] => 0 | x :: t => f x + total f t end.
Definition mu (s : state) : nat := total rank (calls s) + total rrank (rcvs s).

Lemma total_upd : forall A (f : A -> nat) l i k x, nth_error l i = Some k -> (total f (upd l i x) + f k = total f l + f x)%nat.
Proof.
  induction l as [|h t IH]; intros [|i] k x H; cbn in *; try discriminate.
  - inversion H; subst. lia.
  - specialize (IH _ _ x H). lia.
Qed.

Lemma existsb_nth : forall A (f : A -> bool) l, existsb f l = true -> exists i x, nth_error l i = Some x /\ f x = true.
Proof.
  intros A f l H. apply existsb_exists in H. destruct H as [x [Hin Hf]]. apply In_nth_error in Hin. destruct Hin as [i Hi]. eauto.
Qed.

Lemma lo_le : forall T, lo T <= T.
Proof. intros T. unfold lo. apply N.le_sub_l. Qed.

Lemma urgent_step : forall c s, urgent c s = true ->
  exists l s', l <> Tick /\ step c s l = Some s' /\ (mu s' < mu s)%nat /\ now s' = now s.
Proof.
  intros c s Hu. unfold urgent in Hu. apply orb_true_iff in Hu. destruct Hu as [Hu|Hu].
  - apply existsb_nth in Hu. destruct Hu as [i [k [Hk Hc]]]. unfold call_urgent in Hc.
    pose proof (fun x => total_upd _ rank (calls s) i k x Hk) as Hm. unfold rank at 2 in Hm.
    destruct (k_pc k) eqn:Hp; try discriminate.
    + exists (LPre i). eexists. cbn [step]. rewrite Hk, Hp. split; [discriminate|]. split; [reflexivity|]. unfold mu; cbn [calls rcvs now].
      specialize (Hm (set_pc k Pre)). cbn in Hm. split; [lia|reflexivity].
    + destruct (qmax c <? queueLen s (k_px k))%Z eqn:Hq.
      * exists (LQueueFull i). eexists. cbn [step]. rewrite Hk, Hp, Hq. split; [discriminate|]. split; [reflexivity|]. unfold mu, with_calls; cbn [calls rcvs now].
        specialize (Hm (set_full k)). cbn in Hm. split; [lia|reflexivity].
      * exists (LCount i). eexists. cbn [step]. rewrite Hk, Hp, Hq. split; [discriminate|]. split; [reflexivity|]. unfold mu; cbn [calls rcvs now].
        specialize (Hm (set_pc k Counted)). cbn in Hm. split; [lia|reflexivity].
    + exists (LReg i). eexists. cbn [step]. rewrite Hk, Hp. split; [discriminate|]. split; [reflexivity|]. unfold mu; cbn [calls rcvs now].
      specialize (Hm (set_reg k (rels (tr s)))). cbn in Hm. split; [lia|reflexivity].
    + destruct (lock s) eqn:Hl; [discriminate|]. exists (LLock i). destruct (conn_open s) eqn:Ho.
      * eexists. cbn [step]. rewrite Hk, Hl, Hp, Ho. split; [discriminate|]. split; [reflexivity|]. unfold mu, with_calls; cbn [calls rcvs now].
        specialize (Hm (set_lock k Enq (now s) false (rels (tr s) - k_rel0 k))). cbn in Hm. split; [lia|reflexivity].
      * eexists. cbn [step]. rewrite Hk, Hl, Hp, Ho. split; [discriminate|]. split; [reflexivity|]. unfold mu; cbn [calls rcvs now].
        specialize (Hm (set_lock k Dialing (now s) true (rels (tr s) - k_rel0 k))). cbn in Hm. split; [lia|reflexivity].
    + exists (LDialTimeout i). eexists. cbn [step]. rewrite Hk, Hp, Hc. split; [discriminate|]. split; [reflexivity|]. unfold mu; cbn [calls rcvs now].
      specialize (Hm (set_out k Error (k_e k))). cbn in Hm. split; [lia|reflexivity].
    + destruct (N.of_nat (length (sendq s)) <? qcap c) eqn:Hr.
      * exists (LEnq i). eexists. cbn [step]. rewrite Hk, Hp, Hr. split; [discriminate|]. split; [reflexivity|]. unfold mu; cbn [calls rcvs now].
        specialize (Hm (set_enq k (k_t0 k <? now s))). unfold set_enq in *. destruct (k_ow k); cbn in Hm; (split; [lia|reflexivity]).
      * cbn [orb] in Hc. apply andb_true_iff in Hc. destruct Hc as [Hw Hd].
        assert (Hg : (0 <? writeT c) && (k_t0 k + lo (writeT c) <=? now s) = true).
        { rewrite Hw. cbn [andb]. pose proof (lo_le (writeT c)). lia. }
        exists (LEnqTimeout i). eexists. cbn [step]. rewrite Hk, Hp, Hg. split; [discriminate|]. split; [reflexivity|]. unfold mu, with_calls; cbn [calls rcvs now].
        specialize (Hm (set_out k Error true)). cbn in Hm. split; [lia|reflexivity].
    + exists (LCtxFire i). eexists. cbn [step]. rewrite Hk, Hp, Hc. split; [discriminate|]. split; [reflexivity|]. unfold mu, with_calls; cbn [calls rcvs now].
      specialize (Hm (set_out k Timeout (k_e k))). cbn in Hm. split; [lia|reflexivity].
    + exists (LUncount i). eexists. cbn [step]. rewrite Hk, Hp. split; [discriminate|]. split; [reflexivity|]. unfold mu; cbn [calls rcvs now].
      specialize (Hm (set_pc k Uncounted)). cbn in Hm. split; [lia|reflexivity].
    + exists (LClean i). eexists. cbn [step]. rewrite Hk, Hp. split; [discriminate|]. split; [reflexivity|]. unfold mu; cbn [calls rcvs now].
      specialize (Hm (set_pc k Cleaned)). cbn in Hm. split; [lia|reflexivity].
    + exists (LPost i). eexists. cbn [step]. rewrite Hk, Hp. split; [discriminate|]. split; [reflexivity|]. unfold mu; cbn [calls rcvs now].
      specialize (Hm (set_ret k (now s))). cbn in Hm. split; [lia|reflexivity].
  - apply existsb_nth in Hu. destruct Hu as [r [x [Hx Hc]]]. unfold rcv_urgent in Hc.
    pose proof (fun y => total_upd _ rrank (rcvs s) r x y Hx) as Hm. unfold rrank at 2 in Hm.
    destruct (r_pc x) as [|j|] eqn:Hp; try discriminate.
    + exists (LLookup r). cbn [step]. rewrite Hx, Hp. destruct (call_of (r_id x)) as [j|]; [destruct (memb j (resp s))|];
        eexists; (split; [discriminate|]); (split; [reflexivity|]); unfold mu, with_rcvs; cbn [calls rcvs now];
        match goal with |- context [upd (rcvs s) r ?y] => specialize (Hm y) end; cbn in Hm; (split; [lia|reflexivity]).
    + destruct (is_waiting s j) eqn:Hw.
      * unfold is_waiting in Hw. destruct (nth_error (calls s) j) as [k|] eqn:Hk; [|discriminate]. destruct (k_pc k) eqn:Hpk; try discriminate.
        pose proof (total_upd _ rank (calls s) j k (set_out k (Reply (r_pay x)) (k_e k)) Hk) as Hmk. unfold rank at 2 in Hmk. rewrite Hpk in Hmk. cbn in Hmk.
        exists (LDeliver r). eexists. cbn [step]. rewrite Hx, Hp, Hk, Hpk. split; [discriminate|]. split; [reflexivity|]. unfold mu; cbn [calls rcvs now].
        match goal with |- context [upd (rcvs s) r ?y] => specialize (Hm y) end. cbn in Hm. split; [lia|reflexivity].
      * cbn [orb] in Hc.
        assert (Hg : (r_t0 x + lo (readT c) <=? now s) = true) by (pose proof (lo_le (readT c)); lia).
        exists (LGiveUp r). eexists. cbn [step]. rewrite Hx, Hp, Hg. split; [discriminate|]. split; [reflexivity|]. unfold mu, with_rcvs; cbn [calls rcvs now].
        match goal with |- context [upd (rcvs s) r ?y] => specialize (Hm y) end. cbn in Hm. split; [lia|reflexivity].
Qed.

Theorem no_timelock : forall c s, exists ls s',
  run c s ls = Some s' /\ now s' = now s /\ ~ In Tick ls /\ step c s' Tick <> None.
Proof.
  intros c s. remember (mu s) as m eqn:Hm. revert s Hm. induction m as [m IH] using lt_wf_ind. intros s Hm.
  destruct (urgent c s) eqn:Hu.
  - destruct (urgent_step c s Hu) as [l [s1 [Hl [Hs [Hlt Hn]]]]].
    destruct (IH (mu s1) ltac:(lia) s1 eq_refl) as [ls [s' [Hr [Hn' [Hni Ht]]]]].
    exists (l :: ls), s'. cbn [run]. rewrite Hs. repeat split; auto; [congruence|].
    intros [A|A]; [congruence|contradiction].
  - exists [], s. cbn. repeat split; auto. rewrite Hu. discriminate.
Qed.

(* ---- W. waiting for connLock: every release by a dialling call is counted; a call that waits has waited at most
   (releases since it began to wait) * DialTimeout, plus the current holder's dial ---- *)
Definition wait_ok (c : cfg) (s : state) (k : call) : Prop :=
  match k_pc k with
  | Reg => k_rel0 k <= rels (tr s) /\
           match lock s with
           | None => now s <= k_start k + (rels (tr s) - k_rel0 k) * dialT c
           | Some j => forall kj, nth_error (calls s) j = Some kj -> k_lockt kj <= k_start k + (rels (tr s) - k_rel0 k) * dialT c
           end
  | _ => k_lockt k <= k_start k + k_w k * dialT c
  end.
Definition InvW (c : cfg) (s : state) : Prop := all_calls (fun _ k => wait_ok c s k) (calls s).

Lemma InvW_init : forall c, InvW c init.
Proof. intros c [|i] k H; discriminate. Qed.

(* call i is replaced; lock, release count and clock stay; the replaced call keeps its lock time unless nobody holds the lock *)
Lemma wait_frame : forall c s s' i k x, nth_error (calls s) i = Some k -> calls s' = upd (calls s) i x ->
  lock s' = lock s -> rels (tr s') = rels (tr s) -> now s' = now s -> (k_lockt x = k_lockt k \/ lock s = None) ->
  InvW c s -> wait_ok c s' x -> InvW c s'.
Proof.
  intros c s s' i k x Hk Hc Hl Hr Hn Hlt HW Hx. unfold InvW. rewrite Hc. apply (all_upd2 _ _ _ _ _ Hk); [|exact Hx].
  intros j kj Hne Hj. specialize (HW j kj Hj). cbv beta in *. unfold wait_ok in *. rewrite Hl, Hr, Hn.
  destruct (k_pc kj); try exact HW. destruct HW as [H0 HW]. split; [exact H0|].
  destruct (lock s) as [h|] eqn:Eh; [|exact HW]. intros kh Hkh. rewrite Hc in Hkh.
  destruct (nth_upd_inv _ _ _ _ _ _ _ Hk Hkh) as [[-> ->]|[_ Hkh']].
  - destruct Hlt as [E|E]; [rewrite E; apply HW; exact Hk|discriminate].
  - apply HW; exact Hkh'.
Qed.

(* nothing about the calls, the lock, the release count or the clock changes *)
Lemma wait_same : forall c s s', calls s' = calls s -> lock s' = lock s -> rels (tr s') = rels (tr s) -> now s' = now s ->
  InvW c s -> InvW c s'.
Proof.
  intros c s s' Hc Hl Hr Hn HW. unfold InvW. rewrite Hc. intros j kj Hj. specialize (HW j kj Hj). cbv beta in *.
  unfold wait_ok in *. rewrite Hl, Hr, Hn, Hc. exact HW.
Qed.

Ltac wsolve := unfold wait_ok in *; pcs; fields; usepc; fields; splitifs; fields; try lia.

Lemma InvW_step : forall c s l s', 0 < writeT c -> reach c s -> InvW c s -> step c s l = Some s' -> InvW c s'.
Proof.
  intros c s l s' Hw Hreach HW H.
  pose proof (InvT_reach c s Hw Hreach) as HT. pose proof (InvL_reach c s Hreach) as [HL1 HL2].
  destruct l; inv_step H.
  - (* Tick *)
    intros j kj Hj. pose proof (HW j kj Hj) as Hok. cbv beta in *. cbn [calls] in Hj. unfold wait_ok in *. cbn [lock tr now calls].
    destruct (k_pc kj) eqn:Hp; try exact Hok. destruct Hok as [H0 Hok]. split; [exact H0|].
    destruct (lock s) eqn:El; [exact Hok|]. exfalso.
    apply orb_false_elim in Heqb. destruct Heqb as [Hu _].
    pose proof (existsb_false_nth _ _ _ _ _ Hu Hj) as Hnu. unfold call_urgent in Hnu. rewrite Hp, El in Hnu. discriminate.
  - (* Start *)
    unfold InvW, with_calls. cbn [calls]. apply all_app.
    + intros j kj Hj. pose proof (HW j kj Hj) as Hok. cbv beta in *. unfold wait_ok in *. cbn [lock tr now calls].
      destruct (k_pc kj); try exact Hok. destruct Hok as [H0 Hok]. split; [exact H0|].
      destruct (lock s) as [h|] eqn:El; [|exact Hok]. intros kh Hkh. apply nth_app_inv in Hkh. destruct Hkh as [Hkh|[Eh _]]; [apply Hok; exact Hkh|].
      destruct (HL1 h eq_refl) as [kd [Hkd _]]. assert (h < length (calls s))%nat by (apply nth_error_Some; congruence). lia.
    + cbv beta. unfold wait_ok. cbn. lia.
  - (* LPre *) eapply (wait_frame c s _ i c0 _ Heqo); try reflexivity; [left; reflexivity|exact HW|]. pose proof (HW _ _ Heqo) as Hok. cbv beta in Hok. wsolve.
  - (* LReg: the call begins to wait for connLock *)
    eapply (wait_frame c s _ i c0 _ Heqo); try reflexivity; [left; reflexivity|exact HW|].
    pose proof (HT _ _ Heqo) as Ht. cbv beta in Ht. unfold time_ok in Ht. rewrite Heqp in Ht. destruct Ht as [T1 [T2 [T3 [T4 T5]]]].
    unfold wait_ok. cbn [set_reg k_pc k_rel0 k_start lock tr now]. split; [lia|].
    destruct (lock s) as [h|] eqn:El; [|lia]. intros kh Hkh. cbn [calls] in Hkh.
    destruct (Nat.eq_dec h i) as [->|Hne].
    + exfalso. destruct (HL1 i eq_refl) as [kd [Hkd Hd]]. rewrite Heqo in Hkd. inversion Hkd; subst kd. congruence.
    + rewrite nth_upd_neq in Hkh by congruence. destruct (HL1 h eq_refl) as [kd [Hkd Hd]]. rewrite Hkd in Hkh. inversion Hkh; subst kh.
      pose proof (HT _ _ Hkd) as Th. cbv beta in Th. unfold time_ok in Th. rewrite Hd in Th. lia.
  - (* LQueueFull *) eapply (wait_frame c s _ i c0 _ Heqo); try reflexivity; [left; reflexivity|exact HW|]. pose proof (HW _ _ Heqo) as Hok. cbv beta in Hok. wsolve.
  - (* LLock, connection open *)
    eapply (wait_frame c s _ i c0 _ Heqo); try reflexivity; [right; assumption|exact HW|].
    pose proof (HW _ _ Heqo) as Hok. cbv beta in Hok. unfold wait_ok in *. rewrite Heqp, Heqo0 in Hok. cbn [set_lock k_pc k_lockt k_start k_w]. lia.
  - (* LLock, dial: this call becomes the holder *)
    unfold InvW. cbn [calls]. apply (all_upd2 _ _ _ _ _ Heqo).
    + intros j kj Hne Hj. pose proof (HW j kj Hj) as Hok. cbv beta in *. unfold wait_ok in *. cbn [lock tr now calls].
      destruct (k_pc kj); try exact Hok. rewrite Heqo0 in Hok. destruct Hok as [H0 Hok]. split; [exact H0|].
      intros kh Hkh. rewrite (nth_upd_eq _ _ _ _ _ Heqo) in Hkh. inversion Hkh; subst kh. cbn [set_lock k_lockt]. exact Hok.
    + cbv beta. pose proof (HW _ _ Heqo) as Hok. cbv beta in Hok. unfold wait_ok in *. rewrite Heqp, Heqo0 in Hok. cbn [set_lock k_pc k_lockt k_start k_w]. lia.
  - (* LDialOk: a release *)
    pose proof (HL2 _ _ Heqo Heqp) as El. pose proof (HT _ _ Heqo) as Th. cbv beta in Th. unfold time_ok in Th. rewrite Heqp in Th.
    unfold InvW. cbn [calls]. apply (all_upd2 _ _ _ _ _ Heqo).
    + intros j kj Hne Hj. pose proof (HW j kj Hj) as Hok. cbv beta in *. unfold wait_ok in *. cbn [lock tr now calls rels].
      destruct (k_pc kj); try exact Hok. rewrite El in Hok. destruct Hok as [H0 Hok]. specialize (Hok _ Heqo). split; [lia|].
      replace (rels (tr s) + 1 - k_rel0 kj) with (rels (tr s) - k_rel0 kj + 1) by lia. lia.
    + cbv beta. pose proof (HW _ _ Heqo) as Hok. cbv beta in Hok. wsolve.
  - (* LDialFail: a release *)
    pose proof (HL2 _ _ Heqo Heqp) as El. pose proof (HT _ _ Heqo) as Th. cbv beta in Th. unfold time_ok in Th. rewrite Heqp in Th.
    unfold InvW. cbn [calls]. apply (all_upd2 _ _ _ _ _ Heqo).
    + intros j kj Hne Hj. pose proof (HW j kj Hj) as Hok. cbv beta in *. unfold wait_ok in *. cbn [lock tr now calls rels].
      destruct (k_pc kj); try exact Hok. rewrite El in Hok. destruct Hok as [H0 Hok]. specialize (Hok _ Heqo). split; [lia|].
      replace (rels (tr s) + 1 - k_rel0 kj) with (rels (tr s) - k_rel0 kj + 1) by lia. lia.
    + cbv beta. pose proof (HW _ _ Heqo) as Hok. cbv beta in Hok. wsolve.
  - (* LDialTimeout: a release *)
    pose proof (HL2 _ _ Heqo Heqp) as El. pose proof (HT _ _ Heqo) as Th. cbv beta in Th. unfold time_ok in Th. rewrite Heqp in Th.
    unfold InvW. cbn [calls]. apply (all_upd2 _ _ _ _ _ Heqo).
    + intros j kj Hne Hj. pose proof (HW j kj Hj) as Hok. cbv beta in *. unfold wait_ok in *. cbn [lock tr now calls rels].
      destruct (k_pc kj); try exact Hok. rewrite El in Hok. destruct Hok as [H0 Hok]. specialize (Hok _ Heqo). split; [lia|].
      replace (rels (tr s) + 1 - k_rel0 kj) with (rels (tr s) - k_rel0 kj + 1) by lia. lia.
    + cbv beta. pose proof (HW _ _ Heqo) as Hok. cbv beta in Hok. wsolve.
  - (* LEnq *) eapply (wait_frame c s _ i c0 _ Heqo); try reflexivity; [left; unfold set_enq; destruct (k_ow c0); reflexivity|exact HW|]. pose proof (HW _ _ Heqo) as Hok. cbv beta in Hok. wsolve.
  - (* LEnqTimeout *) eapply (wait_frame c s _ i c0 _ Heqo); try reflexivity; [left; reflexivity|exact HW|]. pose proof (HW _ _ Heqo) as Hok. cbv beta in Hok. wsolve.
  - (* LCtxFire *) eapply (wait_frame c s _ i c0 _ Heqo); try reflexivity; [left; reflexivity|exact HW|]. pose proof (HW _ _ Heqo) as Hok. cbv beta in Hok. wsolve.
  - (* LClean *) eapply (wait_frame c s _ i c0 _ Heqo); try reflexivity; [left; reflexivity|exact HW|]. pose proof (HW _ _ Heqo) as Hok. cbv beta in Hok. wsolve.
  - (* LPost *) eapply (wait_frame c s _ i c0 _ Heqo); try reflexivity; [left; reflexivity|exact HW|]. pose proof (HW _ _ Heqo) as Hok. cbv beta in Hok. wsolve.
  - (* LSendTake *) apply (wait_same c s); [reflexivity|reflexivity|reflexivity|reflexivity|exact HW].
  - (* LConnDown *) apply (wait_same c s); [reflexivity|cbn [lock]; congruence|reflexivity|reflexivity|exact HW].
  - (* LPeerPkt *) apply (wait_same c s); [reflexivity|reflexivity|reflexivity|reflexivity|exact HW].
  - (* LLookup *) apply (wait_same c s); [reflexivity|reflexivity|reflexivity|reflexivity|exact HW].
  - apply (wait_same c s); [reflexivity|reflexivity|reflexivity|reflexivity|exact HW].
  - apply (wait_same c s); [reflexivity|reflexivity|reflexivity|reflexivity|exact HW].
  - (* LDeliver *) eapply (wait_frame c s _ j c0 _ Heqo0); try reflexivity; [left; reflexivity|exact HW|]. pose proof (HW _ _ Heqo0) as Hok. cbv beta in Hok. wsolve.
  - (* LGiveUp *) apply (wait_same c s); [reflexivity|reflexivity|reflexivity|reflexivity|exact HW].
  - (* LIdleClose *) apply (wait_same c s); [reflexivity|cbn [lock]; congruence|reflexivity|reflexivity|exact HW].
  - (* LCancel *) eapply (wait_frame c s _ i c0 _ Heqo); try reflexivity; [left; reflexivity|exact HW|]. pose proof (HW _ _ Heqo) as Hok. cbv beta in Hok. wsolve.
  - (* LFilterErr *) eapply (wait_frame c s _ i c0 _ Heqo); try reflexivity; [left; reflexivity|exact HW|]. pose proof (HW _ _ Heqo) as Hok. cbv beta in Hok. wsolve.
  - (* LCount *) eapply (wait_frame c s _ i c0 _ Heqo); try reflexivity; [left; reflexivity|exact HW|]. pose proof (HW _ _ Heqo) as Hok. cbv beta in Hok. wsolve.
  - (* LUncount *) eapply (wait_frame c s _ i c0 _ Heqo); try reflexivity; [left; reflexivity|exact HW|]. pose proof (HW _ _ Heqo) as Hok. cbv beta in Hok. wsolve.
  - (* LCloseOld *) apply (wait_same c s); [reflexivity|cbn [lock]; congruence|reflexivity|reflexivity|exact HW].
Qed.

Theorem InvW_reach : forall c s, 0 < writeT c -> reach c s -> InvW c s.
Proof. intros c s Hw. induction 1; [apply InvW_init|eapply InvW_step; eauto]. Qed.

(* the deadline clause with the wait for connLock made explicit: position in the dial queue *)
Theorem returns_position : forall c s i k, 0 < writeT c -> reach c s -> nth_error (calls s) i = Some k -> k_pc k = Returned ->
  k_ret k <= N.max (k_dl k) (k_start k + (k_w k + (if k_d k then 1 else 0)) * dialT c + (if k_e k then writeT c else 0)).
Proof.
  intros c s i k Hw H Hk Hp. pose proof (returns_partial c s i k Hw H Hk Hp) as Hb.
  pose proof (InvW_reach c s Hw H _ _ Hk) as Hwk. cbv beta in Hwk. unfold wait_ok in Hwk. rewrite Hp in Hwk.
  unfold B, dl_d, wr_e in Hb. destruct (k_d k), (k_e k); lia.
Qed.

(* the bound is attained: in the stalled-dial witness the second caller waited for one dial of the first and dialled itself *)
Example position_bound_attained :
  match run stalled_cfg init stalled_trace with
  | Some s => match nth_error (calls s) 1 with
              | Some k => k_w k = 1 /\ k_d k = true /\ k_e k = false /\ k_ret k = k_start k + (k_w k + 1) * dialT stalled_cfg
              | None => False end
  | None => False end.
Proof. vm_compute. repeat split; reflexivity. Qed.

(* ---- the resource ledger of a call: everything a call can hold, cleared whatever its outcome ---- *)
Record ledger_clear (c : cfg) (s : state) (i : nat) : Prop := {
  lc_table : ~ In i (resp s);                                        (* no entry in the pending-reply table *)
  lc_counts : forall k, nth_error (calls s) i = Some k -> counted k = false /\ inside k = false /\ invoked k = false;
                                                                      (* counted neither in queueLen nor in invokeNum *)
  lc_lock : lock s <> Some i;                                        (* does not hold connLock *)
  lc_queue : forall k, nth_error (calls s) i = Some k -> k_out k = Some Error -> ~ In i (sendq s) /\ ~ In i (wire s);
  lc_timers : step c s (LCtxFire i) = None /\ step c s (LCancel i) = None /\ step c s (LEnqTimeout i) = None /\
              step c s (LDialTimeout i) = None;                       (* none of its timers can act any more *)
  lc_receivers : forall r x, nth_error (rcvs s) r = Some x -> r_pc x = RFound i ->
                   now s <= r_t0 x + readT c /\ step c s (LDeliver r) = None
                                (* a receiver still holding its reply channel is released within ReadTimeout and cannot deliver *) }.

Theorem ledger_all_outcomes : forall c s i k, reach c s -> nth_error (calls s) i = Some k -> k_pc k = Returned ->
  (exists o, k_out k = Some o) /\ (forall o, k_out k = Some o -> ledger_clear c s i).
Proof.
  intros c s i k H Hk Hp.
  destruct (InvO_reach c s H) as [HO _]. pose proof (HO _ _ Hk) as Hok. unfold out_ok in Hok. rewrite Hp in Hok.
  destruct Hok as [[[o Ho] _] [_ [_ [He _]]]]. split; [exists o; exact Ho|]. intros o' _.
  destruct (InvA_reach c s H) as [_ _ Hr _]. destruct (InvL_reach c s H) as [HL1 _].
  split.
  - intros Hin. apply Hr in Hin. destruct Hin as [k' [Hk' Hi]]. rewrite Hk in Hk'. inversion Hk'; subst k'.
    unfold inside in Hi. rewrite Hp in Hi. discriminate.
  - intros k' Hk'. rewrite Hk in Hk'. inversion Hk'; subst k'. unfold counted, inside, invoked. rewrite Hp. auto.
  - intros Hl. destruct (HL1 _ Hl) as [k' [Hk' Hd]]. rewrite Hk in Hk'. inversion Hk'; subst k'. congruence.
  - intros k' Hk' Hoe. rewrite Hk in Hk'. inversion Hk'; subst k'. apply He. exact Hoe.
  - cbn [step]. rewrite Hk, Hp. auto.
  - intros r x Hx Hf. split.
    + pose proof (InvR_reach c s H _ _ Hx) as [_ Hrf]. rewrite Hf in Hrf. tauto.
    + cbn [step]. rewrite Hx, Hf, Hk, Hp. reflexivity.
Qed.

(* the owner of the counter: registration and cleanup of a call move the queueLen of the proxy the call was made on, and
   no other proxy's; no other step moves any queueLen *)
Theorem counter_owner : forall c s l s', step c s l = Some s' ->
  forall p, queueLen s' p <> queueLen s p ->
  exists i k, nth_error (calls s) i = Some k /\ k_px k = p /\
    ((l = LCount i /\ queueLen s' p = (queueLen s p + 1)%Z) \/ (l = LUncount i /\ queueLen s' p = (queueLen s p - 1)%Z)).
Proof.
  intros c s l s' H p Hne. destruct l; inv_step H; unfold with_calls, with_rcvs in Hne; cbn [queueLen] in Hne; try congruence.
  - exists i, c0. unfold fset in *. cbn [queueLen]. destruct (Nat.eqb p (k_px c0)) eqn:E; [|congruence].
    apply Nat.eqb_eq in E. subst p. auto.
  - exists i, c0. unfold fset in *. cbn [queueLen]. destruct (Nat.eqb p (k_px c0)) eqn:E; [|congruence].
    apply Nat.eqb_eq in E. subst p. auto.
Qed.

(* two ServantProxy objects for one object, overlapping calls: each proxy's own counter is back to 0 *)
Example two_proxies_overlap :
  let '(s, _, ok) := canonical (mkscen (mkcfg 30 40 10 100 100000 60000) CAccept [mkact false (Some 4) false false] 4 1 (mktmo 20 None None) [0] false 2 None 0 false) in
  ok = true /\ map fst (model_calls s) = [OReply; OReply; OReply; OReply] /\ map k_px (calls s) = [0; 1; 0; 1]%nat /\
  queueLen s 0%nat = 0%Z /\ queueLen s 1%nat = 0%Z /\ invokeNum s = 0%Z /\ resp s = [].
Proof. vm_compute. repeat split; reflexivity. Qed.

(* every way a call can end is a run of the model: one reachable returned call per outcome (and per path to Error) *)
Example outcome_paths_exist :
  let cfg0 := mkcfg 30 40 10 1 100000 60000 in
  let ret ls i := match run cfg0 init ls with
                  | Some s => match nth_error (calls s) i with Some k => match k_pc k with Returned => k_out k | _ => None end | None => None end
                  | None => None end in
  ret [Start 20 false 0%nat; LPre 0; LCount 0; LReg 0; LLock 0; LDialOk 0; LEnq 0; LSendTake; LPeerPkt 1 7; LLookup 0; LDeliver 0; LUncount 0; LClean 0; LPost 0] 0%nat = Some (Reply 7) /\
  ret ([Start 20 false 0%nat; LPre 0; LCount 0; LReg 0; LLock 0; LDialOk 0; LEnq 0] ++ ticks 20 ++ [LCtxFire 0; LUncount 0; LClean 0; LPost 0]) 0%nat = Some Timeout /\
  ret [Start 20 false 0%nat; LPre 0; LCount 0; LReg 0; LLock 0; LDialOk 0; LEnq 0; LCancel 0; LUncount 0; LClean 0; LPost 0] 0%nat = Some Cancelled /\
  ret [Start 20 false 0%nat; LPre 0; LCount 0; LReg 0; LLock 0; LDialFail 0; LUncount 0; LClean 0; LPost 0] 0%nat = Some Error /\
  ret ([Start 20 false 0%nat; LPre 0; LCount 0; LReg 0; LLock 0] ++ ticks 30 ++ [LDialTimeout 0; LUncount 0; LClean 0; LPost 0]) 0%nat = Some Error /\
  ret ([Start 20 false 0%nat; Start 20 false 0%nat; LPre 0; LCount 0; LReg 0; LLock 0; LDialOk 0; LEnq 0; LPre 1; LCount 1; LReg 1; LLock 1] ++ ticks 20 ++
       [LCtxFire 0; LUncount 0; LClean 0; LPost 0] ++ ticks 20 ++ [LEnqTimeout 1; LUncount 1; LClean 1; LPost 1]) 1%nat = Some Error /\
  ret [Start 20 false 0%nat; LPre 0; LFilterErr 0; LPost 0] 0%nat = Some Error /\
  ret [Start 20 true 0%nat; LPre 0; LCount 0; LReg 0; LLock 0; LDialOk 0; LEnq 0; LUncount 0; LClean 0; LPost 0] 0%nat = Some Sent.
Proof. vm_compute. repeat split; reflexivity. Qed.

(* ---- the effective timeout: the caller's deadline wins, then the per-call timeout, then the proxy's; a configured
   timeout of zero or below is a deadline that has passed ---- *)
Theorem eff_caller_deadline_wins : forall p pc d, eff_of (mktmo p pc (Some d)) = d.
Proof. reflexivity. Qed.
Theorem eff_percall_over_proxy : forall p q, eff_of (mktmo p (Some q) None) = Z.to_N q.
Proof. reflexivity. Qed.
Theorem eff_proxy_default : forall p, eff_of (mktmo p None None) = Z.to_N p.
Proof. reflexivity. Qed.
Theorem eff_nonpositive_expired : forall t, t_ctx t = None -> (configured t <= 0)%Z -> eff_of t = 0.
Proof. intros [p pc cx] H Hc. cbn in *. subst cx. unfold eff_of. cbn. lia. Qed.
(* a call started with an expired deadline and a silent peer returns the timeout error at the instant it started *)
Example zero_timeout_returns_at_once :
  let '(s, _, ok) := canonical (mkscen (mkcfg 30 40 10 4 100000 60000) CAccept [mkact false None false false] 1 2 (mktmo (-5) None None) [1] false 0 None 0 false) in
  ok = true /\ model_calls s = [(OTimeout, 0); (OTimeout, 0)] /\ queueLen s 0%nat = 0%Z /\ invokeNum s = 0%Z /\ resp s = [].
Proof. vm_compute. repeat split; reflexivity. Qed.
Example cancelled_call_returns_at_once :
  let '(s, _, ok) := canonical (mkscen (mkcfg 30 40 10 4 100000 60000) CAccept [mkact false None false false] 1 1 (mktmo 30 None None) [0] false 0 (Some 8) 0 false) in
  ok = true /\ model_calls s = [(OTimeout, 8)] /\ queueLen s 0%nat = 0%Z /\ invokeNum s = 0%Z /\ resp s = [].
Proof. vm_compute. repeat split; reflexivity. Qed.
Example rejected_calls_leave_nothing :
  let '(s, _, ok) := canonical (mkscen (mkcfg 30 40 10 4 100000 60000) CAccept [mkact false (Some 0) false false] 1 4 (mktmo 30 None None) [1] false 0 None 2 false) in
  ok = true /\ map fst (model_calls s) = [OReply; OError; OReply; OError] /\ queueLen s 0%nat = 0%Z /\ invokeNum s = 0%Z /\ resp s = [].
Proof. vm_compute. repeat split; reflexivity. Qed.

(* ---- non-vacuity: concrete reachable runs ---- *)
Example silent_peer_times_out :
  let '(s, _, ok) := canonical (mkscen (mkcfg 30 40 10 4 100000 60000) CAccept [mkact false None false false] 1 1 (mktmo 20 None None) [0] false 0 None 0 false) in
  ok = true /\ model_calls s = [(OTimeout, 20)] /\ queueLen s 0%nat = 0%Z /\ invokeNum s = 0%Z /\ resp s = [].
Proof. vm_compute. repeat split; reflexivity. Qed.

Example late_then_fast_replies :
  let '(s, _, ok) := canonical (mkscen (mkcfg 30 40 10 4 100000 60000) CAccept [mkact false (Some 30) false false; mkact false (Some 0) false false] 1 2 (mktmo 20 None None) [1] false 0 None 0 false) in
  ok = true /\ model_calls s = [(OTimeout, 20); (OReply, 0)] /\ queueLen s 0%nat = 0%Z /\ invokeNum s = 0%Z /\ resp s = [].
Proof. vm_compute. repeat split; reflexivity. Qed.

Example one_way_returns_at_once :
  let '(s, _, ok) := canonical (mkscen (mkcfg 30 40 10 4 100000 60000) CAccept [mkact false None false false] 1 2 (mktmo 20 None None) [1] true 0 None 0 false) in
  ok = true /\ model_calls s = [(OSent, 0); (OSent, 0)] /\ queueLen s 0%nat = 0%Z /\ invokeNum s = 0%Z /\ resp s = [].
Proof. vm_compute. repeat split; reflexivity. Qed.

Example stalled_three_callers :
  let '(s, _, ok) := canonical (mkscen (mkcfg 30 40 10 4 100000 60000) CStall [mkact false None false false] 3 1 (mktmo 10 None None) [0] false 0 None 0 false) in
  ok = true /\ model_calls s = [(OError, 30); (OError, 60); (OError, 90)].
Proof. vm_compute. repeat split; reflexivity. Qed.
