(* C19 — "every submitted job is eventually run": infinite executions of the pool's transition system under weak fairness.
   An execution is a pair of functions (state and label at every index) with [step (σ n) (λ n) = Some (σ (S n))];
   submitters may keep sending for ever. Weak fairness of the pool's goroutines and of running jobs: an internal step
   that is enabled at some index is, at some later index, taken or not enabled. As long as the dispatcher never accepts a
   Release, every job that has been sent has finished at some later index. Constructive proof from the rank [mu] of
   GpoolFair.v (well-founded induction on the rank, chasing one helpful step until it is taken). *)
From Coq Require Import List Arith NArith Lia Bool Permutation.
From TarsV Require Import Conc.Gpool Conc.GpoolProofs Conc.GpoolLive Conc.GpoolFair.
Import ListNotations.

Definition own_step (w : nat) (p : wpc) : option label :=
  match p with WGot _ => Some (JStart w) | WRun _ => Some (JEnd w) | WEnded _ => Some (JobEnd w) | _ => None end.

(* the steps that bring j closer: any step of the pool while j waits in the queue or in the dispatcher's hand;
   the next step of the worker that holds j afterwards *)
Definition helpful_for (j : job) (s : st) (l : label) : Prop :=
  (In j (jobq s ++ held (dp s)) /\ internal l = true /\ l <> RelCall) \/
  (exists w p, nth_error (wk s) w = Some p /\ f_occ p = Some j /\ own_step w p = Some l).

Definition label_eq_dec (a b : label) : {a = b} + {a <> b}.
Proof. decide equality; try apply N.eq_dec; apply Nat.eq_dec. Defined.

Section Ev.
Variable W Q : nat.
Notation step := (step W Q). Notation run := (run W Q).
Notation reachable := (reachable W Q).

Lemma pending_not_occupying s j : reachable s -> In j (jobq s ++ held (dp s)) -> ~ In j (occupying (wk s)) /\ ~ In j (fin s).
Proof.
  intros Hr Hp. destruct (conservation W Q s Hr) as [_ HN]. rewrite app_assoc in HN.
  split; intros X; eapply NoDup_app_disj; try exact HN; try exact Hp; apply in_or_app; [now left|now right].
Qed.

(* taking a helpful step lowers the rank *)
Lemma helpful_decreases s j l s1 : reachable s -> pre_release (dp s) = true -> ~ In j (fin s) ->
  helpful_for j s l -> step s l = Some s1 -> mu j s1 < mu j s.
Proof.
  intros Hr Hp Hf [(A & Hi & Hl)|(w & p & Hw & Ho & Hown)] Hs.
  - destruct (pending_not_occupying s j Hr A) as [B _].
    destruct (pending_step W Q s l s1 j Hr Hp A B Hf Hl Hs) as [_ H]. now rewrite Hi in H.
  - assert (A : In j (occupying (wk s))) by (eapply jobs_in; eauto).
    assert (C : ~ In j (held (dp s))).
    { intros X. destruct (conservation W Q s Hr) as [_ HN]. apply NoDup_app_tail in HN.
      eapply NoDup_app_disj; [exact HN|exact X|]. apply in_or_app. now left. }
    assert (Hl : l <> RelCall) by (destruct p; cbn in Hown; try discriminate; injection Hown as <-; discriminate).
    destruct (occupying_step W Q s l s1 j Hr Hp A C Hf Hl Hs) as (E1 & E2 & _). rewrite E1.
    pose proof (wrank_ge j _ _ _ Hw) as G. apply mem_nIn in Hf.
    destruct p; cbn in Ho, Hown; try discriminate; injection Ho as ->; injection Hown as <-;
      unfold Gpool.step in Hs; rewrite Hw in Hs; injection Hs as <-; unfold mu; simp; cbn [wrank1] in G; rewrite N.eqb_refl in G.
    + rewrite Hf. pose proof (wrank_upd j _ _ _ (WRun j) Hw) as F. cbn [wrank1] in F. rewrite N.eqb_refl in F.
      destruct (wrank j (upd w (WRun j) (wk s))); lia.
    + rewrite Hf. pose proof (wrank_upd j _ _ _ (WEnded j) Hw) as F. cbn [wrank1] in F. rewrite N.eqb_refl in F.
      destruct (wrank j (upd w (WEnded j) (wk s))); lia.
    + rewrite mem_app. cbn [mem existsb]. rewrite N.eqb_refl, orb_true_r. cbn. lia.
Qed.

(* while j has not finished a helpful step is enabled *)
Lemma helpful_enabled s j : 1 <= W -> reachable s -> pre_release (dp s) = true -> In j (subm s) -> ~ In j (fin s) ->
  exists l, helpful_for j s l /\ internal l = true /\ l <> RelCall /\ step s l <> None.
Proof.
  intros HW Hr Hp Hj Hf. destruct (job_place W Q s j Hr Hj Hf) as [[A B]|[A [B C]]].
  - assert (E : exists l s', internal l = true /\ l <> RelCall /\ step s l = Some s').
    { destruct (no_deadlock W Q s HW Hr) as (l & s' & Hi & Hs).
      { left. split; [apply pre_release_rp with (W := W) (Q := Q); auto|].
        apply in_app_or in A. destruct A as [A|A]; [left|right]; intros X; rewrite X in A; destruct A. }
      destruct l; try (eexists; eexists; split; [exact Hi|split; [discriminate|exact Hs]]; fail).
      unfold Gpool.step in Hs. destruct (rp s); try discriminate. destruct (dp s) eqn:Hd; try discriminate.
      cbn [held] in A. rewrite app_nil_r in A. destruct (jobq s) as [|x r] eqn:Hq; [destruct A|].
      exists DTake. eexists. split; [reflexivity|]. split; [discriminate|]. unfold Gpool.step. rewrite Hd, Hq. reflexivity. }
    destruct E as (l & s' & Hi & Hl & Hs). exists l. repeat split; auto; [left; auto|congruence].
  - destruct (wrank_in _ _ A) as (w & p & Hw & Ho & _).
    destruct p; cbn in Ho; try discriminate.
    + exists (JStart w). repeat split; try discriminate. { right. exists w, (WGot j0). auto. } unfold Gpool.step. rewrite Hw. discriminate.
    + exists (JEnd w). repeat split; try discriminate. { right. exists w, (WRun j0). auto. } unfold Gpool.step. rewrite Hw. discriminate.
    + exists (JobEnd w). repeat split; try discriminate. { right. exists w, (WEnded j0). auto. } unfold Gpool.step. rewrite Hw. discriminate.
Qed.

(* a step of somebody else that leaves the rank unchanged leaves a helpful step helpful *)
Lemma external_keeps_pending s l s' j : internal l = false -> step s l = Some s' -> In j (jobq s ++ held (dp s)) ->
  In j (jobq s' ++ held (dp s')).
Proof.
  intros Hi Hs Hp. destruct l; cbn in Hi; try discriminate; unfold Gpool.step in Hs; brk; injection Hs as <-; simp; auto.
  - apply in_app_or in Hp. apply in_or_app. destruct Hp as [Hp|Hp]; [left; apply in_or_app; now left|now right].
  - destruct Hp.
Qed.

Ltac keep_fin :=
  simp; try congruence;
  repeat match goal with
  | |- context [nth_error (upd ?a ?x ?l) ?b] =>
      destruct (Nat.eq_dec a b) as [?|?]; [subst; try congruence|rewrite (nth_upd_neq a b x l) by assumption]
  end; try assumption; try congruence.

Lemma other_step_keeps_worker s l' s' w p l : nth_error (wk s) w = Some p -> own_step w p = Some l ->
  pre_release (dp s) = true -> step s l' = Some s' -> l' <> l -> nth_error (wk s') w = Some p.
Proof.
  intros Hw Hown Hp Hs Hne.
  destruct p; cbn in Hown; try discriminate; injection Hown as <-.
  all: destruct l'; unfold Gpool.step in Hs; brk; injection Hs as <-; keep_fin.
  all: keep_fin.
Qed.

Lemma helpful_persists s j l l' s' : reachable s -> pre_release (dp s) = true -> ~ In j (fin s) ->
  helpful_for j s l -> step s l' = Some s' -> l' <> l -> l' <> RelCall -> mu j s' = mu j s -> helpful_for j s' l.
Proof.
  intros Hr Hp Hf [(A & Hi & Hl)|(w & p & Hw & Ho & Hown)] Hs Hne Hl' Hmu.
  - left. repeat split; auto. destruct (pending_not_occupying s j Hr A) as [B _].
    destruct (pending_step W Q s l' s' j Hr Hp A B Hf Hl' Hs) as [_ H].
    destruct (internal l') eqn:Hi'; [lia|]. eapply external_keeps_pending; eauto.
  - right. exists w, p. repeat split; auto. eapply other_step_keeps_worker; eauto.
Qed.

(* ---------- infinite executions ---------- *)
Definition execution (σ : nat -> st) (λ : nat -> label) : Prop :=
  reachable (σ 0) /\ forall n, step (σ n) (λ n) = Some (σ (S n)).
(* weak fairness of every goroutine of the pool and of every running job: an enabled internal step is later taken or not enabled *)
Definition weakly_fair (σ : nat -> st) (λ : nat -> label) : Prop :=
  forall n l, internal l = true -> step (σ n) l <> None -> exists m, n <= m /\ (λ m = l \/ step (σ m) l = None).

Section Exec.
Variable σ : nat -> st.
Variable λ : nat -> label.
Hypothesis Hex : execution σ λ.
Hypothesis Hnorel : forall n, λ n <> RelCall.     (* the dispatcher never accepts a Release *)
Hypothesis Hpre0 : pre_release (dp (σ 0)) = true.

Lemma ex_reachable n : reachable (σ n).
Proof. destruct Hex as [H0 Hst]. induction n; [exact H0|]. eapply reachable_step; [exact IHn|apply Hst]. Qed.
Lemma ex_pre n : pre_release (dp (σ n)) = true.
Proof. destruct Hex as [H0 Hst]. induction n; [exact Hpre0|]. eapply pre_release_step; [exact IHn|apply Hnorel|apply Hst]. Qed.
Lemma ex_subm j n m : n <= m -> In j (subm (σ n)) -> In j (subm (σ m)).
Proof.
  destruct Hex as [_ Hst]. induction 1; auto. intros H0. eapply step_subm_mono; [apply Hst|auto].
Qed.
Lemma ex_fin j n m : n <= m -> In j (fin (σ n)) -> In j (fin (σ m)).
Proof.
  destruct Hex as [_ Hst]. induction 1; auto. intros H0. eapply step_fin_mono; [apply Hst|auto].
Qed.

(* chase a helpful enabled step until it is taken (or the rank drops earlier) *)
Lemma chase j l : internal l = true -> l <> RelCall -> forall d n,
  (λ (n + d) = l \/ step (σ (n + d)) l = None) ->
  In j (subm (σ n)) -> ~ In j (fin (σ n)) -> helpful_for j (σ n) l -> step (σ n) l <> None ->
  exists m, n <= m /\ mu j (σ (S m)) < mu j (σ n).
Proof.
  intros Hi Hl. destruct Hex as [_ Hst].
  induction d as [|d IH]; intros n Hend Hj Hf Hh Hen.
  - rewrite Nat.add_0_r in Hend. destruct Hend as [E|E]; [|contradiction].
    exists n. split; [lia|]. eapply helpful_decreases; [apply ex_reachable|apply ex_pre|exact Hf|exact Hh|]. rewrite <- E. apply Hst.
  - destruct (label_eq_dec (λ n) l) as [E|E].
    + exists n. split; [lia|]. eapply helpful_decreases; [apply ex_reachable|apply ex_pre|exact Hf|exact Hh|]. rewrite <- E. apply Hst.
    + pose proof (mu_nonincreasing W Q (σ n) (λ n) (σ (S n)) j (ex_reachable n) (ex_pre n) Hj (Hnorel n) (Hst n)) as Hle.
      destruct (Nat.eq_dec (mu j (σ (S n))) (mu j (σ n))) as [Heq|Hneq]; [|exists n; split; lia].
      assert (Hf' : ~ In j (fin (σ (S n)))).
      { intros X. apply mu_zero_iff in X. rewrite X in Heq. symmetry in Heq. apply mu_zero_iff in Heq. contradiction. }
      destruct (IH (S n)) as (m & Hm & Hlt).
      * replace (S n + d) with (n + S d) by lia. exact Hend.
      * eapply step_subm_mono; [apply Hst|exact Hj].
      * exact Hf'.
      * eapply helpful_persists; [apply ex_reachable|apply ex_pre|exact Hf|exact Hh|apply Hst|exact E|apply Hnorel|exact Heq].
      * eapply enabled_step_persists; [apply ex_pre|exact Hi|exact Hl|exact Hen|apply Hst|exact E|apply Hnorel].
      * exists m. split; lia.
Qed.

Theorem eventually_finished : 1 <= W -> weakly_fair σ λ ->
  forall j n, In j (subm (σ n)) -> exists m, n <= m /\ In j (fin (σ m)).
Proof.
  intros HW Hfair j.
  assert (G : forall k n, mu j (σ n) <= k -> In j (subm (σ n)) -> exists m, n <= m /\ In j (fin (σ m))).
  { induction k as [|k IH]; intros n Hk Hj.
    - exists n. split; [lia|]. apply mu_zero_iff. lia.
    - destruct (in_dec N.eq_dec j (fin (σ n))) as [Hf|Hf]; [exists n; split; [lia|exact Hf]|].
      destruct (helpful_enabled (σ n) j HW (ex_reachable n) (ex_pre n) Hj Hf) as (l & Hh & Hi & Hl & Hen).
      destruct (Hfair n l Hi Hen) as (m0 & Hm0 & Hend).
      destruct (chase j l Hi Hl (m0 - n) n) as (m & Hm & Hlt); auto.
      { replace (n + (m0 - n)) with m0 by lia. exact Hend. }
      destruct (IH (S m)) as (m' & Hm' & Hfin); [lia|apply (ex_subm j n (S m)); [lia|exact Hj]|].
      exists m'. split; [lia|exact Hfin]. }
  intros n Hj. apply (G (mu j (σ n)) n); auto.
Qed.
End Exec.
End Ev.

(* ---------- the hypotheses are satisfiable: a weakly fair infinite execution, for every W >= 1 and Q ---------- *)
(* A scheduler: run the pool while one of its steps is enabled; when it is quiescent let a submitter go on (complete the
   pending send, log its return, or call with a fresh job) — submitters never stop, no Release. *)
Definition fresh (l : list job) : job := N.succ (fold_right N.max 0%N l).
Lemma fresh_notin l : ~ In (fresh l) l.
Proof.
  assert (H : forall x, In x l -> (x <= fold_right N.max 0 l)%N).
  { induction l as [|a l IH]; cbn; [tauto|]. intros x [<-|Hx]; [lia|]. specialize (IH x Hx). lia. }
  intros X. apply H in X. unfold fresh in X. lia.
Qed.

Section Sched.
Variable W Q : nat.
Notation step := (step W Q).
Notation reachable := (reachable W Q).

Definition sched (s : st) : label :=
  match next_internal W Q s with
  | Some l => l
  | None => match calling s with
            | j :: _ => if Q =? 0 then SubmitH j else Submit j
            | [] => match sentl s with j :: _ => SubRet j | [] => SubCall (fresh (clog s)) end
            end
  end.
Fixpoint sst (n : nat) : st :=
  match n with
  | O => init W
  | S k => let s := sst k in match step s (sched s) with Some s' => s' | None => s end
  end.
Definition slab (n : nat) : label := sched (sst n).

Lemma submitter_step_rp s l s' : step s l = Some s' -> internal l = false -> l <> RelLog -> rp s' = rp s.
Proof.
  intros Hs Hi Hl. destruct l; cbn in Hi; try discriminate; try congruence; unfold Gpool.step in Hs; brk; injection Hs as <-; reflexivity.
Qed.

Lemma sched_enabled s : 1 <= W -> reachable s -> rp s = RNot -> exists s', step s (sched s) = Some s' /\ rp s' = RNot.
Proof.
  intros HW Hr Hrp. unfold sched. destruct (next_internal W Q s) as [l|] eqn:E.
  - destruct (next_some _ _ _ _ E) as (Hi & s' & Hs). exists s'. split; [exact Hs|].
    destruct (internal_keeps _ _ _ _ _ Hs Hi) as (_ & _ & C & _). auto.
  - pose proof (next_none _ _ _ E) as Hq.
    destruct (quiescent_state W Q s HW Hr Hq) as [(_ & Hjq & Hd & _)|Hd]; [|congruence].
    destruct (calling s) as [|j c] eqn:Hc.
    + destruct (sentl s) as [|j r] eqn:Hsl.
      * pose proof (fresh_notin (clog s)) as Hn. apply mem_nIn in Hn.
        eexists. unfold Gpool.step. rewrite Hn. split; [reflexivity|exact Hrp].
      * eexists. unfold Gpool.step. rewrite Hsl. cbn [mem existsb]. rewrite N.eqb_refl. cbn [orb]. split; [reflexivity|exact Hrp].
    + assert (Hin : In j (calling s)) by (rewrite Hc; now left).
      destruct (submit_enabled_when_room W Q s j Hin) as [S1 S2]. destruct (Q =? 0) eqn:EQ.
      * destruct (S2 Hd Hjq) as [s' Hs]. exists s'. split; [exact Hs|].
        rewrite (submitter_step_rp _ _ _ Hs eq_refl ltac:(discriminate)). exact Hrp.
      * destruct S1 as [s' Hs]. { rewrite Hjq. cbn. apply Nat.eqb_neq in EQ. lia. } exists s'. split; [exact Hs|].
        rewrite (submitter_step_rp _ _ _ Hs eq_refl ltac:(discriminate)). exact Hrp.
Qed.

Lemma sst_inv : 1 <= W -> forall n, reachable (sst n) /\ rp (sst n) = RNot /\ step (sst n) (slab n) = Some (sst (S n)).
Proof.
  intros HW. induction n as [|n (Hr & Hrp & Hs)].
  - assert (Hr : reachable (sst 0)) by (exists []; reflexivity).
    destruct (sched_enabled (sst 0) HW Hr eq_refl) as (s' & Hs & _).
    repeat split; auto. unfold slab. cbn [sst] in *. rewrite Hs. reflexivity.
  - assert (Hr' : reachable (sst (S n))) by (eapply reachable_step; eauto).
    assert (Hrp' : rp (sst (S n)) = RNot).
    { destruct (sched_enabled (sst n) HW Hr Hrp) as (s' & Hs' & Hrp'). unfold slab in Hs. rewrite Hs in Hs'. now injection Hs' as <-. }
    destruct (sched_enabled (sst (S n)) HW Hr' Hrp') as (s' & Hs' & _).
    repeat split; auto. unfold slab. change (sst (S (S n))) with (let s := sst (S n) in match step s (sched s) with Some s' => s' | None => s end).
    cbv zeta. rewrite Hs'. reflexivity.
Qed.

Lemma sst_reaches_quiescence : 1 <= W -> forall k n, measure (sst n) <= k -> exists m, n <= m /\ quiescent W Q (sst m).
Proof.
  intros HW. induction k as [|k IH]; intros n Hk.
  - exists n. split; [lia|]. intros l Hi. destruct (step (sst n) l) eqn:E; [|reflexivity].
    pose proof (internal_step_decreases _ _ _ _ _ E Hi). lia.
  - destruct (next_internal W Q (sst n)) as [l|] eqn:E.
    + destruct (next_some _ _ _ _ E) as (Hi & s' & Hs). destruct (sst_inv HW n) as (_ & _ & Hst).
      unfold slab, sched in Hst. rewrite E in Hst. rewrite Hs in Hst. injection Hst as Hst.
      pose proof (internal_step_decreases _ _ _ _ _ Hs Hi) as Hd. rewrite Hst in Hd.
      change (measure (sst (S n)) < measure (sst n)) in Hd.
      destruct (IH (S n)) as (m & Hm & Hq); [lia|]. exists m. split; [lia|exact Hq].
    + exists n. split; [lia|]. exact (next_none _ _ _ E).
Qed.

Theorem fair_execution_exists : 1 <= W ->
  execution W Q sst slab /\ (forall n, slab n <> RelCall) /\ pre_release (dp (sst 0)) = true /\ weakly_fair W Q sst slab.
Proof.
  intros HW. split; [|split; [|split]].
  - split; [exists []; reflexivity|]. intros n. apply (sst_inv HW n).
  - intros n E. destruct (sst_inv HW n) as (_ & Hrp & Hs). rewrite E in Hs. unfold Gpool.step in Hs. rewrite Hrp in Hs. discriminate.
  - reflexivity.
  - intros n l Hi _. destruct (sst_reaches_quiescence HW (measure (sst n)) n (le_n _)) as (m & Hm & Hq).
    exists m. split; [exact Hm|]. right. apply Hq. exact Hi.
Qed.
End Sched.

(* the instance W = 2, Q = 1: after 300 steps of this execution 27 jobs have been sent and 26 of them have finished;
   W = 1, Q = 0 (every send is a hand-over to the dispatcher): 30 sent, 29 finished *)
(* the instance W = 2, Q = 1: in 300 steps of this execution 30 jobs are sent and finished, alternating between the two workers;
   W = 1, Q = 0 (every send is a hand-over to the dispatcher waiting in its select): 34 sent, 33 finished *)
Example fair_execution_example :
  length (subm (sst 2 1 300)) = 30 /\ length (fin (sst 2 1 300)) = 30 /\
  length (subm (sst 1 0 300)) = 34 /\ length (fin (sst 1 0 300)) = 33 /\
  map (slab 2 1) (seq 0 14) = [WorkerReg 0; WorkerReg 1; SubCall 1; Submit 1; DTake; DWorker; Hand; JStart 0; JEnd 0; JobEnd 0;
                               WorkerReg 0; SubRet 1; SubCall 2; Submit 2]%N.
Proof. vm_compute. repeat split. Qed.
