(* C09: every run of the call-life LTS, seen through the harness's observation points (CallLife.project), is accepted by
   the specification machine that validates the implementation's event traces (CallLife.accepts / arun). *)
From Coq Require Import List NArith ZArith Bool Arith Lia ZifyBool ZifyNat ZifyN.
From TarsV Require Import Base.Hex Gen.C09Consts Conc.CallLife Conc.CallLifeProofs.
Import ListNotations.
Open Scope N_scope.

(* ---------- the association list of the specification machine ---------- *)
Lemma aget_aset_eq : forall a c k st rt rc sd er, aget (mkast (aset a c k) st rt rc sd er) c = k.
Proof. intros a c k st rt rc sd er. unfold aget, aset. cbn [acs find fst snd]. rewrite Nat.eqb_refl. reflexivity. Qed.

Lemma find_filter_neq : forall (l : list (nat * acall)) c c', c <> c' ->
  find (fun x => Nat.eqb (fst x) c') (filter (fun x => negb (Nat.eqb (fst x) c)) l) = find (fun x => Nat.eqb (fst x) c') l.
Proof.
  induction l as [|[j k] t IH]; intros c c' H; cbn; [reflexivity|].
  destruct (Nat.eqb j c) eqn:E1; cbn.
  - apply Nat.eqb_eq in E1. subst j. destruct (Nat.eqb c c') eqn:E2; [apply Nat.eqb_eq in E2; congruence|]. apply IH; exact H.
  - destruct (Nat.eqb j c'); [reflexivity|]. apply IH; exact H.
Qed.

Lemma aget_aset_neq : forall a c k c' st rt rc sd er, c <> c' -> aget (mkast (aset a c k) st rt rc sd er) c' = aget a c'.
Proof.
  intros a c k c' st rt rc sd er H. unfold aget, aset. cbn [acs find fst snd].
  destruct (Nat.eqb c c') eqn:E; [apply Nat.eqb_eq in E; congruence|]. rewrite find_filter_neq by exact H. reflexivity.
Qed.

Lemma keys_filter : forall (l : list (nat * acall)) c, NoDup (map fst l) -> NoDup (map fst (filter (fun x => negb (Nat.eqb (fst x) c)) l)) /\
  ~ In c (map fst (filter (fun x => negb (Nat.eqb (fst x) c)) l)).
Proof.
  induction l as [|[j k] t IH]; intros c H; cbn; [split; [constructor|tauto]|].
  inversion H; subst. destruct (IH c H3) as [IH1 IH2]. destruct (Nat.eqb j c) eqn:E; cbn.
  - split; assumption.
  - split.
    + constructor; [|exact IH1]. intros Hin. apply H2. apply in_map_iff in Hin. destruct Hin as [x [Hx Hin]].
      apply filter_In in Hin. apply in_map_iff. exists x. tauto.
    + intros [A|A]; [apply Nat.eqb_neq in E; congruence|contradiction].
Qed.

Lemma aset_keys : forall a c k, NoDup (map fst (acs a)) -> NoDup (map fst (aset a c k)).
Proof. intros a c k H. unfold aset. cbn. destruct (keys_filter (acs a) c H). constructor; assumption. Qed.

Lemma aset_in : forall a c k c' k', In (c', k') (aset a c k) -> (c' = c /\ k' = k) \/ (c' <> c /\ In (c', k') (acs a)).
Proof.
  intros a c k c' k' H. unfold aset in H. destruct H as [H|H]; [inversion H; auto|].
  apply filter_In in H. destruct H as [H1 H2]. cbn in H2. right. split; [|exact H1].
  intros ->. rewrite Nat.eqb_refl in H2. discriminate.
Qed.

Lemma find_in_nodup : forall (l : list (nat * acall)) c k, NoDup (map fst l) -> In (c, k) l ->
  find (fun x => Nat.eqb (fst x) c) l = Some (c, k).
Proof.
  induction l as [|[j kj] t IH]; intros c k Hn Hin; [contradiction|]. cbn. inversion Hn; subst.
  destruct Hin as [Hin|Hin].
  - inversion Hin; subst. rewrite Nat.eqb_refl. reflexivity.
  - destruct (Nat.eqb j c) eqn:E; [|apply IH; assumption]. apply Nat.eqb_eq in E. subst j.
    exfalso. apply H1. apply in_map_iff. exists (c, k). auto.
Qed.
Lemma aget_in : forall a c k, NoDup (map fst (acs a)) -> In (c, k) (acs a) -> aget a c = k.
Proof. intros a c k Hn Hin. unfold aget. rewrite (find_in_nodup _ _ _ Hn Hin). reflexivity. Qed.
Lemma aget_none : forall a c, (forall k, ~ In (c, k) (acs a)) -> ph (aget a c) = PhNone.
Proof.
  intros a c H. unfold aget. destruct (find (fun x => Nat.eqb (fst x) c) (acs a)) as [[j k]|] eqn:E; [|reflexivity].
  apply find_some in E. destruct E as [Hin He]. cbn in He. apply Nat.eqb_eq in He. subst j. exfalso. apply (H k Hin).
Qed.
Lemma aget_some_in : forall a c, ph (aget a c) <> PhNone -> In (c, aget a c) (acs a).
Proof.
  intros a c H. unfold aget in *. destruct (find (fun x => Nat.eqb (fst x) c) (acs a)) as [[j k]|] eqn:E; [|cbn in H; congruence].
  apply find_some in E. destruct E as [Hin He]. cbn in He. apply Nat.eqb_eq in He. subst j. exact Hin.
Qed.

Lemma id_of_inj : forall i j, id_of i = id_of j -> i = j.
Proof. unfold id_of. intros. lia. Qed.
Lemma id_of_nz : forall i, (id_of i =? 0) = false.
Proof. unfold id_of. intros. lia. Qed.
Lemma memN_in : forall x l, memN x l = true <-> In x l.
Proof.
  intros x l. unfold memN. rewrite existsb_exists. split.
  - intros [y [Hy He]]. apply N.eqb_eq in He. subst. exact Hy.
  - intros H. exists x. split; [exact H|apply N.eqb_refl].
Qed.

(* ---------- counting ---------- *)
Definition is_ret (k : call) : bool := match k_pc k with Returned => true | _ => false end.
Definition nret (s : state) : Z := cnt is_ret (calls s).

Lemma cnt_le_length : forall f l, (cnt f l <= Z.of_nat (length l))%Z.
Proof. induction l as [|h t IH]; cbn [cnt length]; [lia|destruct (f h); lia]. Qed.

(* two disjoint classes and one element in neither *)
Lemma cnt_two_bound : forall f g l i k, (forall x, f x = true -> g x = false) -> nth_error l i = Some k -> f k = false -> g k = false ->
  (cnt f l + cnt g l + 1 <= Z.of_nat (length l))%Z.
Proof.
  induction l as [|h t IH]; intros [|i] k Hd Hk Hf Hg; cbn in Hk; try discriminate.
  - inversion Hk; subst. cbn [cnt length]. rewrite Hf, Hg.
    assert (cnt f t + cnt g t <= Z.of_nat (length t))%Z.
    { clear -Hd. induction t as [|x t IH]; cbn [cnt length]; [lia|]. destruct (f x) eqn:E; [rewrite (Hd _ E); lia|destruct (g x); lia]. }
    lia.
  - specialize (IH i k Hd Hk Hf Hg). cbn [cnt length]. destruct (f h) eqn:E; [rewrite (Hd _ E); lia|destruct (g h); lia].
Qed.

(* ---------- P. the pending-reply table has as many entries as queueLen says ---------- *)
Definition InvP (s : state) : Prop := Z.of_nat (length (resp s)) = cnt inside (calls s).

Lemma remove_nat_length : forall i l, NoDup l -> In i l -> S (length (remove_nat i l)) = length l.
Proof.
  induction l as [|h t IH]; intros Hn Hin; [contradiction|]. inversion Hn; subst. unfold remove_nat in *. cbn [filter].
  destruct (Nat.eqb i h) eqn:E; cbn [negb].
  - apply Nat.eqb_eq in E. subst h. cbn [length]. f_equal.
    assert (Hf : filter (fun j => negb (Nat.eqb i j)) t = t).
    { clear -H1. induction t as [|x t IH]; [reflexivity|]. cbn. destruct (Nat.eqb i x) eqn:E.
      - apply Nat.eqb_eq in E. subst. exfalso. apply H1. left; reflexivity.
      - cbn. f_equal. apply IH. intros A. apply H1. right; exact A. }
    rewrite Hf. reflexivity.
  - cbn [length]. f_equal. apply IH; [exact H2|]. destruct Hin as [->|Hin]; [rewrite Nat.eqb_refl in E; discriminate|exact Hin].
Qed.

Lemma InvP_step : forall c s l s', InvA s -> InvP s -> step c s l = Some s' -> InvP s'.
Proof.
  intros c s l s' HA HP H. unfold InvP in *.
  destruct l; inv_step H; unfold with_calls, with_rcvs; cbn [resp calls]; try exact HP;
    try (match goal with Hk : nth_error (calls s) ?i = Some ?k |- context [upd (calls s) ?i ?x] =>
           rewrite (cnt_upd inside (calls s) i k x Hk) end;
         try (destruct HA as [_ _ Hr Hd];
              match goal with Hk : nth_error (calls s) ?i = Some ?k, Hp : k_pc ?k = Uncounted |- _ =>
                assert (Hin : In i (resp s)) by (apply Hr; exists k; split; [assumption|unfold inside; rewrite Hp; reflexivity]);
                pose proof (remove_nat_length i (resp s) Hd Hin) end);
         pcs; fields; usepc; fields; splitifs; fields; cbn [length] in *; lia).
  - (* Start *) rewrite cnt_app. cbn. lia.
Qed.
Theorem InvP_reach : forall c s, reach c s -> InvP s.
Proof. intros c. induction 1; [reflexivity|eapply InvP_step; eauto using InvA_reach]. Qed.

(* ---------- the simulation ---------- *)
Definition phase_of (p : pc) : phase :=
  match p with Init | Pre => PhStarted | Counted | Reg | Dialing | Enq | Waiting | Done | Uncounted => PhPre | Cleaned => PhPost | Returned => PhRet end.

Definition call_sim (s : state) (a : astate) (i : nat) (k : call) : Prop :=
  ph (aget a i) = phase_of (k_pc k) /\
  (match phase_of (k_pc k) with PhStarted | PhNone => True | _ => aid (aget a i) = id_of i end) /\
  (k_pc k = Cleaned -> (Z.of_N (retd_at_post (aget a i)) <= nret s)%Z).

Record Sim (s : state) (a : astate) : Prop := {
  s_keys : NoDup (map fst (acs a));
  s_dom : forall c k, In (c, k) (acs a) -> (c < length (calls s))%nat;
  s_get : all_calls (call_sim s a) (calls s);
  s_started : started a = N.of_nat (length (calls s));
  s_returned : Z.of_N (returned a) = nret s;
  s_recvd : forall id, In id (recvd a) -> exists i, In i (wire s) /\ id = id_of i;
  s_sends : sends a = sent s;
  s_err : forall id, In id (errored a) -> exists i k, nth_error (calls s) i = Some k /\ id = id_of i /\ k_pc k = Returned /\ k_out k = Some Error }.

Lemma Sim_init : Sim init (mkast [] 0 0 [] [] []).
Proof.
  split; cbn [acs calls init length map started returned recvd sends errored wire sent].
  - constructor.
  - intros c0 k0 [].
  - intros [|i0] k0 H0; discriminate.
  - reflexivity.
  - reflexivity.
  - intros id [].
  - reflexivity.
  - intros id [].
Qed.

(* calls untouched *)
Lemma Sim_frame : forall s s' a, Sim s a -> calls s' = calls s -> wire s' = wire s -> sent s' = sent s -> Sim s' a.
Proof.
  intros s s' a [H1 H2 H3 H4 H5 H6 H7 H8] Hc Hw Hs.
  assert (Hn : nret s' = nret s) by (unfold nret; rewrite Hc; reflexivity).
  split; rewrite ?Hc, ?Hw, ?Hs, ?Hn; auto.
  intros i k Hk. specialize (H3 i k Hk). unfold call_sim in *. rewrite Hn. exact H3.
Qed.

(* call i moves within one phase (never from or to Returned / Cleaned boundaries) *)
Lemma Sim_same_phase : forall s s' a i k x, Sim s a -> nth_error (calls s) i = Some k ->
  calls s' = upd (calls s) i x -> phase_of (k_pc x) = phase_of (k_pc k) -> k_pc k <> Returned ->
  wire s' = wire s -> sent s' = sent s -> Sim s' a.
Proof.
  intros s s' a i k x [H1 H2 H3 H4 H5 H6 H7 H8] Hk Hc Hp Hnr Hw Hs.
  assert (Hr : is_ret x = is_ret k).
  { unfold is_ret. destruct (k_pc x), (k_pc k); cbn in Hp; try discriminate; reflexivity. }
  assert (Hn : nret s' = nret s) by (unfold nret; rewrite Hc, (cnt_upd _ _ _ _ x Hk), Hr; lia).
  assert (Hcl : k_pc x = Cleaned <-> k_pc k = Cleaned).
  { destruct (k_pc x), (k_pc k); cbn in Hp; try discriminate; split; intros; try discriminate; reflexivity. }
  split; rewrite ?Hw, ?Hs, ?Hn; auto.
  - intros c kc Hin. rewrite Hc, upd_length. eauto.
  - rewrite Hc. apply (all_upd _ _ _ _ _ Hk).
    + intros j kj Hj. specialize (H3 j kj Hj). unfold call_sim in *. rewrite Hn. exact H3.
    + specialize (H3 i k Hk). unfold call_sim in *. rewrite Hn, Hp. destruct H3 as [A [B C]]. repeat split; auto.
      intros Hx. apply C. apply Hcl. exact Hx.
  - rewrite Hc, upd_length. exact H4.
  - intros id Hid. destruct (H8 id Hid) as [j [kj [Hj [E1 [E2 E3]]]]]. rewrite Hc.
    destruct (Nat.eq_dec j i) as [->|Hne].
    + rewrite Hk in Hj. inversion Hj; subst kj. contradiction.
    + exists j, kj. rewrite nth_upd_neq by congruence. auto.
Qed.

Lemma upd_upd : forall A (l : list A) i x y, upd (upd l i x) i y = upd l i y.
Proof. induction l as [|h t IH]; intros [|i] x y; cbn; try reflexivity. rewrite IH. reflexivity. Qed.

Lemma cnt_disjoint : forall f g l, (forall x, f x = true -> g x = false) -> (cnt f l + cnt g l <= Z.of_nat (length l))%Z.
Proof.
  intros f g l Hd. induction l as [|x t IH]; cbn [cnt length]; [lia|].
  destruct (f x) eqn:E; [rewrite (Hd _ E); lia|destruct (g x); lia].
Qed.

(* call i enters a new phase; its bookkeeping entry is replaced *)
Lemma Sim_set : forall s s' a i k x ka rt er,
  Sim s a -> nth_error (calls s) i = Some k -> calls s' = upd (calls s) i x ->
  wire s' = wire s -> sent s' = sent s -> k_pc k <> Returned ->
  ph ka = phase_of (k_pc x) ->
  (match phase_of (k_pc x) with PhStarted | PhNone => True | _ => aid ka = id_of i end) ->
  (k_pc x = Cleaned -> (Z.of_N (retd_at_post ka) <= nret s')%Z) ->
  (nret s <= nret s')%Z -> Z.of_N rt = nret s' ->
  (forall id, In id er -> In id (errored a) \/ (id = id_of i /\ k_pc x = Returned /\ k_out x = Some Error)) ->
  Sim s' (mkast (aset a i ka) (started a) rt (recvd a) (sends a) er).
Proof.
  intros s s' a i k x ka rt er [H1 H2 H3 H4 H5 H6 H7 H8] Hk Hc Hw Hs Hnr Hph Hid Hrd Hmono Hrt Her.
  assert (Hi : (i < length (calls s))%nat) by (apply nth_error_Some; congruence).
  split; cbn [acs started returned recvd sends errored]; rewrite ?Hw, ?Hs; auto.
  - apply aset_keys. exact H1.
  - intros c kc Hin. rewrite Hc, upd_length. apply aset_in in Hin. destruct Hin as [[-> _]|[_ Hin]]; [exact Hi|eauto].
  - rewrite Hc. apply (all_upd2 _ _ _ _ _ Hk).
    + intros j kj Hne Hj. specialize (H3 j kj Hj). unfold call_sim in *. rewrite aget_aset_neq by congruence.
      destruct H3 as [A [B C]]. repeat split; auto. intros Hx. specialize (C Hx). lia.
    + unfold call_sim. rewrite aget_aset_eq. auto.
  - rewrite Hc, upd_length. exact H4.
  - intros id Hin. destruct (Her id Hin) as [Hold|[-> [E1 E2]]].
    + destruct (H8 id Hold) as [j [kj [Hj [F1 [F2 F3]]]]]. rewrite Hc. destruct (Nat.eq_dec j i) as [->|Hne].
      * rewrite Hk in Hj. inversion Hj; subst kj. contradiction.
      * exists j, kj. rewrite nth_upd_neq by congruence. auto.
    + exists i, x. rewrite Hc. split; [eapply nth_upd_eq; eauto|auto].
Qed.

Lemma arun_app : forall es1 es2 a a1, arun a es1 = Some a1 -> arun a (es1 ++ es2) = arun a1 es2.
Proof.
  induction es1 as [|e r IH]; intros es2 a a1 H; cbn in *.
  - inversion H; reflexivity.
  - destruct (astep a e) as [a'|]; [|discriminate]. apply IH. exact H.
Qed.

Lemma nret_upd : forall s i k x, nth_error (calls s) i = Some k -> is_ret k = false ->
  cnt is_ret (upd (calls s) i x) = (nret s + (if is_ret x then 1 else 0))%Z.
Proof. intros s i k x Hk Hr. rewrite (cnt_upd _ _ _ _ x Hk), Hr. unfold nret. lia. Qed.

Lemma nret_of : forall s' s i k x, calls s' = upd (calls s) i x -> nth_error (calls s) i = Some k -> is_ret k = false ->
  nret s' = (nret s + (if is_ret x then 1 else 0))%Z.
Proof. intros s' s i k x Hc Hk Hr. unfold nret at 1. rewrite Hc. apply (nret_upd s i k x Hk Hr). Qed.

Ltac nret_new Hk :=
  match goal with |- context [nret ?s'] =>
    match s' with
    | context [upd (calls ?s0) ?i ?x] =>
        replace (nret s') with (nret s0 + (if is_ret x then 1 else 0))%Z
          by (symmetry; apply (nret_upd s0 i _ x Hk); unfold is_ret; (repeat match goal with H : k_pc _ = _ |- _ => rewrite H end); reflexivity)
    end end.

Lemma inside_not_ret : forall x, inside x = true -> is_ret x = false.
Proof. intros x. unfold inside, is_ret. destruct (k_pc x); intros; try discriminate; reflexivity. Qed.
Lemma counted_not_ret : forall x, counted x = true -> is_ret x = false.
Proof. intros x. unfold counted, is_ret. destruct (k_pc x); intros; try discriminate; reflexivity. Qed.
Lemma cnt_and_le : forall f g l, (cnt (fun k => f k && g k) l <= cnt f l)%Z.
Proof. induction l as [|h t IH]; cbn [cnt]; [lia|]. destruct (f h), (g h); cbn [andb]; lia. Qed.
Lemma cnt_counted_by_le : forall p l, (cnt (counted_by p) l <= cnt counted l)%Z.
Proof. induction l as [|h t IH]; cbn [cnt]; [lia|]. unfold counted_by at 1. destruct (counted h), (Nat.eqb p (k_px h)); cbn [andb]; lia. Qed.
Lemma invoked_not_ret : forall x, invoked x = true -> is_ret x = false.
Proof. intros x. unfold invoked, is_ret. destruct (k_pc x); intros; try discriminate; reflexivity. Qed.

Lemma sim_step : forall c s a l s1, reach c s -> Sim s a -> step c s l = Some s1 ->
  exists a1, arun a (events_of s l s1) = Some a1 /\ Sim s1 a1.
Proof.
  intros c s a l s1 Hreach HS H.
  pose proof (InvA_reach c s Hreach) as HA. pose proof (InvO_reach c s Hreach) as [HO HOI]. pose proof (InvP_reach c s Hreach) as HP.
  destruct l.
  - (* Tick *) inv_step H. exists a. split; [reflexivity|]. eapply Sim_frame; eauto.
  - (* Start *) inv_step H. cbn [events_of arun astep].
    assert (Hnone : ph (aget a (length (calls s))) = PhNone).
    { apply aget_none. intros k Hin. pose proof (s_dom s a HS _ _ Hin). lia. }
    rewrite Hnone. eexists. split; [reflexivity|].
    destruct HS as [H1 H2 H3 H4 H5 H6 H7 H8].
    assert (Hn : nret (with_calls s (calls s ++ [mkcall px ow (now s) (now s + d) Init (now s) (now s) false false None 0 0 0])) = nret s).
    { unfold nret, with_calls; cbn [calls]. rewrite cnt_app. cbn. lia. }
    split; cbn [acs started returned recvd sends errored]; unfold with_calls; cbn [calls wire sent]; auto.
    + apply aset_keys. exact H1.
    + intros c0 kc Hin. rewrite app_length. cbn [length]. apply aset_in in Hin. destruct Hin as [[-> _]|[_ Hin]]; [lia|specialize (H2 _ _ Hin); lia].
    + apply all_app.
      * intros j kj Hj. specialize (H3 j kj Hj). unfold call_sim in *.
        assert (j < length (calls s))%nat by (apply nth_error_Some; congruence).
        rewrite aget_aset_neq by lia. fold (with_calls s (calls s ++ [mkcall px ow (now s) (now s + d) Init (now s) (now s) false false None 0 0 0])). rewrite Hn. exact H3.
      * unfold call_sim. rewrite aget_aset_eq. cbn. repeat split; auto. intros; discriminate.
    + rewrite app_length. cbn [length]. lia.
    + fold (with_calls s (calls s ++ [mkcall px ow (now s) (now s + d) Init (now s) (now s) false false None 0 0 0])). rewrite Hn. exact H5.
    + intros id Hin. destruct (H8 id Hin) as [j [kj [Hj Hrest]]]. exists j, kj. split; [|exact Hrest].
      rewrite nth_error_app1; [exact Hj|apply nth_error_Some; congruence].
  - (* LPre *) inv_step H. exists a. split; [reflexivity|].
    eapply (Sim_same_phase s _ a i c0 (set_pc c0 Pre)); eauto; pcs; try rewrite Heqp; try reflexivity; congruence.
  - (* LReg: resp.Store, after the counter *)
    inv_step H; (exists a; split; [reflexivity|];
      match goal with Hk : nth_error (calls s) ?i = Some ?k |- Sim ?s1 _ =>
        match s1 with context [upd (calls s) i ?x] =>
          apply (Sim_same_phase s s1 a i k x HS Hk); [reflexivity|pcs; splitifs; fields; usepc; reflexivity|congruence|reflexivity|reflexivity]
        end end).
  - (* LQueueFull: pre-filter and post-filter with nothing registered in between *)
    inv_step H. cbn [events_of].
    pose proof (s_get s a HS _ _ Heqo) as [Gp [Gi Gc]]. rewrite Heqp in Gp. cbn [phase_of] in Gp.
    assert (Hfresh : (id_of i =? 0) || id_used a (id_of i) = false).
    { rewrite id_of_nz. cbn [orb]. destruct (id_used a (id_of i)) eqn:E; [|reflexivity]. exfalso.
      unfold id_used in E. apply existsb_exists in E. destruct E as [[cc kk] [Hin Hm]]. cbn [snd] in Hm.
      pose proof (aget_in a cc kk (s_keys s a HS) Hin) as Hg. pose proof (s_dom s a HS _ _ Hin) as Hlt.
      apply nth_error_Some in Hlt. destruct (nth_error (calls s) cc) as [kc|] eqn:Hkc; [|congruence].
      pose proof (s_get s a HS _ _ Hkc) as [Cp [Ci _]]. rewrite Hg in Cp, Ci.
      destruct (ph kk) eqn:Ek; try discriminate Hm; rewrite <- Cp in Ci; cbn beta iota in Ci; apply N.eqb_eq in Hm; rewrite Ci in Hm;
        apply id_of_inj in Hm; subst cc; rewrite Heqo in Hkc; inversion Hkc; subst kc; rewrite Heqp in Cp; discriminate Cp. }
    (* an intermediate picture in which the call stands registered *)
    set (smid := with_calls s (upd (calls s) i (set_pc c0 Reg))).
    assert (Smid : Sim smid (mkast (aset a i (mkacall PhPre (id_of i) 0)) (started a) (returned a) (recvd a) (sends a) (errored a))).
    { eapply (Sim_set s smid a i c0 (set_pc c0 Reg)); eauto; try reflexivity; pcs; try congruence.
      + unfold smid, with_calls. nret_new Heqo. cbn. lia.
      + unfold smid, with_calls. nret_new Heqo. cbn. rewrite (s_returned s a HS). lia. }
    assert (Hkm : nth_error (calls smid) i = Some (set_pc c0 Reg)) by (unfold smid, with_calls; cbn [calls]; eapply nth_upd_eq; eauto).
    cbn [arun astep]. rewrite Gp, Hfresh. cbn [arun astep]. rewrite aget_aset_eq. cbn [ph aid].
    eexists. split; [reflexivity|].
    match goal with |- Sim ?s1 _ =>
      eapply (Sim_set smid s1 _ i (set_pc c0 Reg) (set_full c0)); [exact Smid|exact Hkm|unfold smid, with_calls; cbn [calls]; rewrite upd_upd; reflexivity
        |reflexivity|reflexivity|pcs; congruence|reflexivity|reflexivity| | | |] end; cbn [retd_at_post returned errored].
    + intros _. unfold nret, with_calls; cbn [calls]. rewrite (nret_upd s i c0 _ Heqo); [|unfold is_ret; rewrite Heqp; reflexivity]. cbn. rewrite (s_returned s a HS). lia.
    + unfold nret, smid, with_calls; cbn [calls]. rewrite !(nret_upd s i c0 _ Heqo); try (unfold is_ret; rewrite Heqp; reflexivity). cbn. lia.
    + unfold nret, with_calls; cbn [calls]. rewrite (nret_upd s i c0 _ Heqo); [|unfold is_ret; rewrite Heqp; reflexivity]. cbn. rewrite (s_returned s a HS). lia.
    + intros id Hin. left. exact Hin.
  - (* LLock *)
    inv_step H; (exists a; split; [reflexivity|];
      match goal with Hk : nth_error (calls s) ?i = Some ?k |- Sim ?s1 _ =>
        match s1 with context [upd (calls s) i ?x] =>
          apply (Sim_same_phase s s1 a i k x HS Hk); [reflexivity|pcs; splitifs; fields; usepc; reflexivity|congruence|reflexivity|reflexivity]
        end end).
  - (* LDialOk *)
    inv_step H; (exists a; split; [reflexivity|];
      match goal with Hk : nth_error (calls s) ?i = Some ?k |- Sim ?s1 _ =>
        match s1 with context [upd (calls s) i ?x] =>
          apply (Sim_same_phase s s1 a i k x HS Hk); [reflexivity|pcs; splitifs; fields; usepc; reflexivity|congruence|reflexivity|reflexivity]
        end end).
  - (* LDialFail *)
    inv_step H; (exists a; split; [reflexivity|];
      match goal with Hk : nth_error (calls s) ?i = Some ?k |- Sim ?s1 _ =>
        match s1 with context [upd (calls s) i ?x] =>
          apply (Sim_same_phase s s1 a i k x HS Hk); [reflexivity|pcs; splitifs; fields; usepc; reflexivity|congruence|reflexivity|reflexivity]
        end end).
  - (* LDialTimeout *)
    inv_step H; (exists a; split; [reflexivity|];
      match goal with Hk : nth_error (calls s) ?i = Some ?k |- Sim ?s1 _ =>
        match s1 with context [upd (calls s) i ?x] =>
          apply (Sim_same_phase s s1 a i k x HS Hk); [reflexivity|pcs; splitifs; fields; usepc; reflexivity|congruence|reflexivity|reflexivity]
        end end).
  - (* LEnq *)
    inv_step H; (exists a; split; [reflexivity|];
      match goal with Hk : nth_error (calls s) ?i = Some ?k |- Sim ?s1 _ =>
        match s1 with context [upd (calls s) i ?x] =>
          apply (Sim_same_phase s s1 a i k x HS Hk); [reflexivity|pcs; splitifs; fields; usepc; reflexivity|congruence|reflexivity|reflexivity]
        end end).
  - (* LEnqTimeout *)
    inv_step H; (exists a; split; [reflexivity|];
      match goal with Hk : nth_error (calls s) ?i = Some ?k |- Sim ?s1 _ =>
        match s1 with context [upd (calls s) i ?x] =>
          apply (Sim_same_phase s s1 a i k x HS Hk); [reflexivity|pcs; splitifs; fields; usepc; reflexivity|congruence|reflexivity|reflexivity]
        end end).
  - (* LCtxFire *)
    inv_step H; (exists a; split; [reflexivity|];
      match goal with Hk : nth_error (calls s) ?i = Some ?k |- Sim ?s1 _ =>
        match s1 with context [upd (calls s) i ?x] =>
          apply (Sim_same_phase s s1 a i k x HS Hk); [reflexivity|pcs; splitifs; fields; usepc; reflexivity|congruence|reflexivity|reflexivity]
        end end).
  - (* LClean: post-filter *)
    inv_step H. cbn [events_of arun astep].
    pose proof (s_get s a HS _ _ Heqo) as [Gp [Gi Gc]]. rewrite Heqp in Gp, Gi. cbn [phase_of] in Gp, Gi. rewrite Gp.
    eexists. split; [reflexivity|].
    eapply (Sim_set s _ a i c0 (set_pc c0 Cleaned)); eauto; try reflexivity; pcs; try congruence; cbn [retd_at_post aid ph].
    + intros _. nret_new Heqo. cbn. rewrite (s_returned s a HS). lia.
    + nret_new Heqo. cbn. lia.
    + nret_new Heqo. cbn. rewrite (s_returned s a HS). lia.
  - (* LPost: return, with the counters as they are then *)
    inv_step H. cbn [events_of calls]. rewrite (nth_upd_eq _ _ _ _ _ Heqo).
    pose proof (s_get s a HS _ _ Heqo) as [Gp [Gi Gc]]. rewrite Heqp in Gp, Gi. cbn [phase_of] in Gp, Gi. specialize (Gc Heqp).
    pose proof (HO _ _ Heqo) as [O1 [O2 [O3 [O4 [O5 O6]]]]]. rewrite Heqp in O1. destruct O1 as [o Ho].
    destruct HA as [Aq An Ar Ad]. unfold InvP in HP.
    pose proof (cnt_two_bound inside is_ret (calls s) i c0 inside_not_ret Heqo
                  ltac:(unfold inside; rewrite Heqp; reflexivity) ltac:(unfold is_ret; rewrite Heqp; reflexivity)) as B1.
    pose proof (cnt_two_bound counted is_ret (calls s) i c0 counted_not_ret Heqo
                  ltac:(unfold counted; rewrite Heqp; reflexivity) ltac:(unfold is_ret; rewrite Heqp; reflexivity)) as B3.
    pose proof (cnt_nonneg counted (calls s)) as P3.
    pose proof (cnt_disjoint invoked is_ret (calls s) invoked_not_ret) as B2.
    pose proof (cnt_nonneg inside (calls s)) as P1. pose proof (cnt_nonneg invoked (calls s)) as P2.
    pose proof (s_started s a HS) as Hst. pose proof (s_returned s a HS) as Hrt. fold (nret s) in B1, B2, B3.
    pose proof (Aq (k_px c0)) as Aq0. pose proof (cnt_counted_by_le (k_px c0) (calls s)) as Ble.
    pose proof (cnt_nonneg (counted_by (k_px c0)) (calls s)) as P4.
    assert (Hokc : ((Z.to_N (queueLen s (k_px c0)) <=? started a - retd_at_post (aget a i) - 1)
                 && (Z.to_N (invokeNum s - 1) <=? started a - retd_at_post (aget a i) - 1)
                 && (N.of_nat (length (resp s)) <=? started a - retd_at_post (aget a i) - 1)) = true) by lia.
    cbn [arun astep]. rewrite Gp. cbv zeta. cbn [queueLen invokeNum resp]. change (k_px (set_ret c0 (now s))) with (k_px c0). change (k_out (set_ret c0 (now s))) with (k_out c0). rewrite Ho, Hokc. cbn [andb].
    assert (Hnr : nret (mkst (now s) (upd (calls s) i (set_ret c0 (now s))) (rcvs s) (queueLen s) (invokeNum s - 1)%Z (resp s) (conn_open s) (lock s) (sendq s) (wire s) (sent s) (tr s)) = (nret s + 1)%Z).
    { nret_new Heqo. cbn. reflexivity. }
    destruct o as [p| | | |]; cbn [cls_of].
    + (* reply *)
      assert (Hoko : existsb (fun x : N * N => let '(i0, py) := x in (i0 =? aid (aget a i)) && (py =? p)) (sends a) = true).
      { apply existsb_exists. exists (id_of i, p). split; [rewrite (s_sends s a HS); apply O2; exact Ho|]. rewrite Gi, !N.eqb_refl. reflexivity. }
      rewrite Hoko. eexists. split; [reflexivity|].
      eapply (Sim_set s _ a i c0 (set_ret c0 (now s))); eauto; try reflexivity; pcs; try congruence; cbn [ph aid retd_at_post]; try (intros; discriminate); try (rewrite Hnr; lia); try (intros id Hin; left; exact Hin).
    + (* timeout *)
      eexists. split; [reflexivity|].
      eapply (Sim_set s _ a i c0 (set_ret c0 (now s))); eauto; try reflexivity; pcs; try congruence; cbn [ph aid retd_at_post]; try (intros; discriminate); try (rewrite Hnr; lia); try (intros id Hin; left; exact Hin).
    + (* error: the request never reached the peer *)
      assert (Hoko : negb (memN (aid (aget a i)) (recvd a)) = true).
      { destruct (memN (aid (aget a i)) (recvd a)) eqn:E; [|reflexivity]. exfalso. apply memN_in in E.
        destruct (s_recvd s a HS _ E) as [j [Hj Hid]]. rewrite Gi in Hid. apply id_of_inj in Hid. subst j.
        destruct (O4 Ho) as [_ Hw]. contradiction. }
      rewrite Hoko. eexists. split; [reflexivity|].
      eapply (Sim_set s _ a i c0 (set_ret c0 (now s))); eauto; try reflexivity; pcs; try congruence; cbn [ph aid retd_at_post]; try (intros; discriminate); try (rewrite Hnr; lia).
      intros id [<-|Hin]; [right; repeat split; auto|left; exact Hin].
    + (* one-way *)
      eexists. split; [reflexivity|].
      eapply (Sim_set s _ a i c0 (set_ret c0 (now s))); eauto; try reflexivity; pcs; try congruence; cbn [ph aid retd_at_post]; try (intros; discriminate); try (rewrite Hnr; lia); try (intros id Hin; left; exact Hin).
    + (* cancelled: reported as the timeout error *)
      eexists. split; [reflexivity|].
      eapply (Sim_set s _ a i c0 (set_ret c0 (now s))); eauto; try reflexivity; pcs; try congruence; cbn [ph aid retd_at_post]; try (intros; discriminate); try (rewrite Hnr; lia); try (intros id Hin; left; exact Hin).
  - (* LSendTake: the peer reads a request *)
    inv_step H. cbn [events_of]. rewrite Heql. cbn [arun astep].
    assert (Hin : In n (sendq s)) by (rewrite Heql; left; reflexivity).
    assert (Hlt : (n < length (calls s))%nat) by (apply HOI; left; left; reflexivity).
    apply nth_error_Some in Hlt. destruct (nth_error (calls s) n) as [kn|] eqn:Hkn; [|congruence].
    pose proof (HO _ _ Hkn) as [O1 [_ [_ [O4 _]]]].
    pose proof (s_get s a HS _ _ Hkn) as [Gp [Gi _]].
    assert (Hph : phase_of (k_pc kn) = PhPre \/ phase_of (k_pc kn) = PhPost \/ phase_of (k_pc kn) = PhRet).
    { destruct (k_pc kn); cbn; auto; destruct O1 as [_ [Hq _]]; contradiction. }
    assert (Hused : id_used a (id_of n) = true).
    { unfold id_used. apply existsb_exists. exists (n, aget a n). split.
      - apply aget_some_in. rewrite Gp. destruct Hph as [E|[E|E]]; rewrite E; discriminate.
      - cbn [snd]. rewrite Gp. destruct Hph as [E|[E|E]]; rewrite E in *; cbn beta iota in Gi; rewrite Gi; apply N.eqb_refl. }
    assert (Hnerr : memN (id_of n) (errored a) = false).
    { destruct (memN (id_of n) (errored a)) eqn:E; [|reflexivity]. exfalso. apply memN_in in E.
      destruct (s_err s a HS _ E) as [j [kj [Hj [F1 [F2 F3]]]]]. apply id_of_inj in F1. subst j.
      rewrite Hkn in Hj. inversion Hj; subst kj. destruct (O4 F3) as [Hq _]. contradiction. }
    rewrite Hused, Hnerr. cbn [andb negb]. eexists. split; [reflexivity|].
    destruct HS as [H1 H2 H3 H4 H5 H6 H7 H8]. split; cbn [acs started returned recvd sends errored calls wire sent]; auto.
    intros id [<-|Hid]; [exists n; split; [left; reflexivity|reflexivity]|].
    destruct (H6 id Hid) as [j [Hj ->]]. exists j. split; [right; exact Hj|reflexivity].
  - (* LConnDown *)
    inv_step H; (exists a; split; [reflexivity|]; eapply Sim_frame; eauto).
  - (* LPeerPkt *)
    inv_step H. cbn [events_of arun astep]. eexists. split; [reflexivity|].
    destruct HS as [H1 H2 H3 H4 H5 H6 H7 H8]. split; cbn [acs started returned recvd sends errored calls wire sent]; auto.
    rewrite H7. reflexivity.
  - (* LLookup *)
    inv_step H; (exists a; split; [reflexivity|]; eapply Sim_frame; eauto).
  - (* LDeliver *)
    inv_step H; (exists a; split; [reflexivity|];
      match goal with Hk : nth_error (calls s) ?i = Some ?k |- Sim ?s1 _ =>
        match s1 with context [upd (calls s) i ?x] =>
          apply (Sim_same_phase s s1 a i k x HS Hk); [reflexivity|pcs; splitifs; fields; usepc; reflexivity|congruence|reflexivity|reflexivity]
        end end).
  - (* LGiveUp *)
    inv_step H; (exists a; split; [reflexivity|]; eapply Sim_frame; eauto).
  - (* LIdleClose *)
    inv_step H; (exists a; split; [reflexivity|]; eapply Sim_frame; eauto).
  - (* LCancel *)
    inv_step H; (exists a; split; [reflexivity|];
      match goal with Hk : nth_error (calls s) ?i = Some ?k |- Sim ?s1 _ =>
        match s1 with context [upd (calls s) i ?x] =>
          apply (Sim_same_phase s s1 a i k x HS Hk); [reflexivity|pcs; splitifs; fields; usepc; reflexivity|congruence|reflexivity|reflexivity]
        end end).
  - (* LFilterErr: the same observation points as a full invoke queue *)
    inv_step H. cbn [events_of].
    pose proof (s_get s a HS _ _ Heqo) as [Gp [Gi Gc]]. rewrite Heqp in Gp. cbn [phase_of] in Gp.
    assert (Hfresh : (id_of i =? 0) || id_used a (id_of i) = false).
    { rewrite id_of_nz. cbn [orb]. destruct (id_used a (id_of i)) eqn:E; [|reflexivity]. exfalso.
      unfold id_used in E. apply existsb_exists in E. destruct E as [[cc kk] [Hin Hm]]. cbn [snd] in Hm.
      pose proof (aget_in a cc kk (s_keys s a HS) Hin) as Hg. pose proof (s_dom s a HS _ _ Hin) as Hlt.
      apply nth_error_Some in Hlt. destruct (nth_error (calls s) cc) as [kc|] eqn:Hkc; [|congruence].
      pose proof (s_get s a HS _ _ Hkc) as [Cp [Ci _]]. rewrite Hg in Cp, Ci.
      destruct (ph kk) eqn:Ek; try discriminate Hm; rewrite <- Cp in Ci; cbn beta iota in Ci; apply N.eqb_eq in Hm; rewrite Ci in Hm;
        apply id_of_inj in Hm; subst cc; rewrite Heqo in Hkc; inversion Hkc; subst kc; rewrite Heqp in Cp; discriminate Cp. }
    (* an intermediate picture in which the call stands registered *)
    set (smid := with_calls s (upd (calls s) i (set_pc c0 Reg))).
    assert (Smid : Sim smid (mkast (aset a i (mkacall PhPre (id_of i) 0)) (started a) (returned a) (recvd a) (sends a) (errored a))).
    { eapply (Sim_set s smid a i c0 (set_pc c0 Reg)); eauto; try reflexivity; pcs; try congruence.
      + unfold smid, with_calls. nret_new Heqo. cbn. lia.
      + unfold smid, with_calls. nret_new Heqo. cbn. rewrite (s_returned s a HS). lia. }
    assert (Hkm : nth_error (calls smid) i = Some (set_pc c0 Reg)) by (unfold smid, with_calls; cbn [calls]; eapply nth_upd_eq; eauto).
    cbn [arun astep]. rewrite Gp, Hfresh. cbn [arun astep]. rewrite aget_aset_eq. cbn [ph aid].
    eexists. split; [reflexivity|].
    match goal with |- Sim ?s1 _ =>
      eapply (Sim_set smid s1 _ i (set_pc c0 Reg) (set_full c0)); [exact Smid|exact Hkm|unfold smid, with_calls; cbn [calls]; rewrite upd_upd; reflexivity
        |reflexivity|reflexivity|pcs; congruence|reflexivity|reflexivity| | | |] end; cbn [retd_at_post returned errored].
    + intros _. unfold nret, with_calls; cbn [calls]. rewrite (nret_upd s i c0 _ Heqo); [|unfold is_ret; rewrite Heqp; reflexivity]. cbn. rewrite (s_returned s a HS). lia.
    + unfold nret, smid, with_calls; cbn [calls]. rewrite !(nret_upd s i c0 _ Heqo); try (unfold is_ret; rewrite Heqp; reflexivity). cbn. lia.
    + unfold nret, with_calls; cbn [calls]. rewrite (nret_upd s i c0 _ Heqo); [|unfold is_ret; rewrite Heqp; reflexivity]. cbn. rewrite (s_returned s a HS). lia.
    + intros id Hin. left. exact Hin.
  - (* LCount: the first instruction after the pre-filter *) inv_step H. cbn [events_of arun astep].
    pose proof (s_get s a HS _ _ Heqo) as [Gp [Gi Gc]]. rewrite Heqp in Gp. cbn [phase_of] in Gp. rewrite Gp.
    assert (Hfresh : (id_of i =? 0) || id_used a (id_of i) = false).
    { rewrite id_of_nz. cbn [orb]. destruct (id_used a (id_of i)) eqn:E; [|reflexivity]. exfalso.
      unfold id_used in E. apply existsb_exists in E. destruct E as [[cc kk] [Hin Hm]]. cbn [snd] in Hm.
      pose proof (aget_in a cc kk (s_keys s a HS) Hin) as Hg. pose proof (s_dom s a HS _ _ Hin) as Hlt.
      apply nth_error_Some in Hlt. destruct (nth_error (calls s) cc) as [kc|] eqn:Hkc; [|congruence].
      pose proof (s_get s a HS _ _ Hkc) as [Cp [Ci _]]. rewrite Hg in Cp, Ci.
      destruct (ph kk) eqn:Ek; try discriminate Hm; rewrite <- Cp in Ci; cbn beta iota in Ci; apply N.eqb_eq in Hm; rewrite Ci in Hm;
        apply id_of_inj in Hm; subst cc; rewrite Heqo in Hkc; inversion Hkc; subst kc; rewrite Heqp in Cp; discriminate Cp. }
    rewrite Hfresh. eexists. split; [reflexivity|].
    eapply (Sim_set s _ a i c0 (set_pc c0 Counted)); eauto; try reflexivity; pcs; try congruence.
    + nret_new Heqo. cbn. lia.
    + nret_new Heqo. cbn. rewrite (s_returned s a HS). lia.
  - (* LUncount *)
    inv_step H; (exists a; split; [reflexivity|];
      match goal with Hk : nth_error (calls s) ?i = Some ?k |- Sim ?s1 _ =>
        match s1 with context [upd (calls s) i ?x] =>
          apply (Sim_same_phase s s1 a i k x HS Hk); [reflexivity|pcs; splitifs; fields; usepc; reflexivity|congruence|reflexivity|reflexivity]
        end end).
  - (* LCloseOld *)
    inv_step H; (exists a; split; [reflexivity|]; eapply Sim_frame; eauto).
Qed.





Lemma sim_run : forall c ls s a s', reach c s -> Sim s a -> run c s ls = Some s' ->
  exists a', arun a (project c s ls) = Some a' /\ Sim s' a'.
Proof.
  induction ls as [|l r IH]; intros s a s' Hr HS H; cbn [run project] in *.
  - inversion H; subst. exists a. split; [reflexivity|exact HS].
  - destruct (step c s l) as [s1|] eqn:E; [|discriminate].
    destruct (sim_step c s a l s1 Hr HS E) as [a1 [Ha1 HS1]].
    destruct (IH s1 a1 s' (reach_step c s l s1 Hr E) HS1 H) as [a' [Ha' HS']].
    exists a'. split; [|exact HS']. rewrite (arun_app _ _ _ _ Ha1). exact Ha'.
Qed.

(* every run of the model, observed at the harness's observation points, is accepted event by event *)
Theorem trace_sound : forall c ls s, run c init ls = Some s ->
  exists a, arun (mkast [] 0 0 [] [] []) (project c init ls) = Some a /\ Sim s a.
Proof. intros c ls s H. apply (sim_run c ls init _ s (reach_init c) Sim_init H). Qed.

Lemma cnt_all_true : forall f l, (forall i k, nth_error l i = Some k -> f k = true) -> cnt f l = Z.of_nat (length l).
Proof.
  induction l as [|h t IH]; intros H; cbn [cnt length]; [reflexivity|].
  rewrite (H O h eq_refl), IH; [lia|]. intros i k Hk. apply (H (S i) k Hk).
Qed.

(* ... and when every started call has returned the whole trace is accepted *)
Theorem trace_accepted : forall c ls s, run c init ls = Some s ->
  (forall i k, nth_error (calls s) i = Some k -> k_pc k = Returned) -> accepts (project c init ls) = true.
Proof.
  intros c ls s H Hall. destruct (trace_sound c ls s H) as [a [Ha HS]]. unfold accepts. rewrite Ha.
  pose proof (s_started s a HS) as H1. pose proof (s_returned s a HS) as H2. unfold nret in H2.
  rewrite (cnt_all_true is_ret (calls s)) in H2; [lia|]. intros i k Hk. unfold is_ret. rewrite (Hall i k Hk). reflexivity.
Qed.

(* ---------- the canonical run of a fault script is a run of the transition system ---------- *)
Lemma run_snoc : forall c ls s s1 l s2, run c s ls = Some s1 -> step c s1 l = Some s2 -> run c s (ls ++ [l]) = Some s2.
Proof.
  induction ls as [|x r IH]; intros s s1 l s2 H1 H2; cbn [run app] in *.
  - inversion H1; subst. rewrite H2. reflexivity.
  - destruct (step c s x) as [s'|]; [|discriminate]. eapply IH; eauto.
Qed.

Lemma crun_is_run : forall fuel sc s e acc s' ls,
  run (sc_cfg sc) init (rev acc) = Some s -> crun fuel sc s e acc = (s', ls, true) -> run (sc_cfg sc) init (rev ls) = Some s'.
Proof.
  induction fuel as [|f IH]; intros sc s e acc s' ls Hr H; cbn [crun] in H; [discriminate|].
  destruct (finished sc s e).
  - inversion H; subst. exact Hr.
  - destruct (sched sc s e) as [l e']. destruct (step (sc_cfg sc) s l) as [s1|] eqn:E; [|discriminate].
    eapply IH; [|exact H]. cbn [rev]. eapply run_snoc; eauto.
Qed.

Theorem canonical_is_run : forall sc s ls, canonical sc = (s, ls, true) ->
  run (sc_cfg sc) init (rev ls) = Some s /\ reach (sc_cfg sc) s.
Proof.
  intros sc s ls H. unfold canonical in H.
  assert (Hr : run (sc_cfg sc) init (rev ls) = Some s) by (eapply crun_is_run; [|exact H]; reflexivity).
  split; [exact Hr|]. eapply run_reach; [apply reach_init|exact Hr].
Qed.
