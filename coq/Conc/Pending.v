(* C08 — the pending-reply table:  tars/servant.go:doInvoke, tars/adapter.go:Recv

     doInvoke:  readCh := make(chan *ResponsePacket)          (unbuffered, one per call)
                adp.resp.Store(id, readCh)                    LRegister
                defer { queueLen--; adp.resp.Delete(id) }     LReturn
                adp.Send(req)  -> error: return err           LSendOk / LSendFail
                one-way: return nil
                select { <-ctx.Done(): error return           LTimeout  (deadline expired OR context cancelled by the caller:
                                                                        the branch must return an error either way)
                       | resp = <-readCh }                    LHandoff (rendez-vous with a receiver)
     connection.recv: `go protocol.Recv(pkg)` per packet      LPacket (a new receiver goroutine) / LGarbage
     Recv:      id = 0 -> push handling; one-way -> drop      LLookup
                ch, ok := resp.Load(id); !ok -> drop
                select { ch <- packet                         LHandoff
                       | <-After(ReadTimeout) }               LGiveUp

   A labelled transition system: the state is the table, the calls with their program counters and the receiver
   goroutines with theirs.  The peer is the label source [LPacket p]: any (id, payload, type) at any time — duplicates,
   ids nobody waits for, id 0.  The scheduler is the label sequence.  Definitions only. *)
From Coq Require Import List ZArith NArith Bool.
Import ListNotations.
Open Scope Z_scope.

Record packet := { p_id : Z; p_pay : N; p_oneway : bool }.

Inductive outcome := OReply (p : packet) | OTimeout | OErr | OOneWay.

Inductive cpc :=
| CReg                 (* entry stored, Send not finished *)
| CWait                (* in the select *)
| CGot (p : packet)
| CTimedOut
| CSendErr
| COneWayDone
| CRet (o : outcome).  (* returned; deferred cleanup done *)

Record call := { c_id : Z; c_oneway : bool; c_pc : cpc }.

Inductive rpc :=
| RStart
| RSending (ch : nat)  (* found channel ch (= call number) under the packet's id; blocked in the send *)
| RDone (ch : nat)     (* handed the packet to call ch *)
| RPush                (* id 0: push handling *)
| RDropped             (* one-way type, or no entry *)
| RGaveUp (ch : nat).  (* ReadTimeout elapsed while blocked on channel ch *)

Record recvr := { r_pkt : packet; r_pc : rpc }.

Record state := { table : list (Z * nat); calls : list call; recvs : list recvr }.

Inductive label :=
| LRegister (id : Z) (oneway : bool)
| LSendOk (c : nat)
| LSendFail (c : nat)
| LTimeout (c : nat)
| LReturn (c : nat)
| LPacket (p : packet)
| LGarbage
| LLookup (r : nat)
| LHandoff (r : nat)
| LGiveUp (r : nat).

(* ---- sync.Map as an association list with unique keys ---- *)
Fixpoint lookup (id : Z) (t : list (Z * nat)) : option nat :=
  match t with [] => None | (k, v) :: r => if k =? id then Some v else lookup id r end.
Fixpoint delete (id : Z) (t : list (Z * nat)) : list (Z * nat) :=
  match t with [] => [] | (k, v) :: r => if k =? id then delete id r else (k, v) :: delete id r end.
Definition store (id : Z) (ch : nat) (t : list (Z * nat)) : list (Z * nat) := (id, ch) :: delete id t.

Fixpoint upd {A} (n : nat) (x : A) (l : list A) : list A :=
  match l, n with
  | [], _ => []
  | _ :: r, O => x :: r
  | y :: r, S k => y :: upd k x r
  end.

Definition set_cpc (c : call) (pc : cpc) : call := {| c_id := c_id c; c_oneway := c_oneway c; c_pc := pc |}.
Definition set_rpc (r : recvr) (pc : rpc) : recvr := {| r_pkt := r_pkt r; r_pc := pc |}.

Definition active (c : call) : bool := match c_pc c with CRet _ => false | _ => true end.

Definition step (s : state) (l : label) : option state :=
  match l with
  | LRegister id ow =>
      Some {| table := store id (length (calls s)) (table s);
              calls := calls s ++ [{| c_id := id; c_oneway := ow; c_pc := CReg |}];
              recvs := recvs s |}
  | LSendOk k =>
      match nth_error (calls s) k with
      | Some c => match c_pc c with
                  | CReg => Some {| table := table s;
                                    calls := upd k (set_cpc c (if c_oneway c then COneWayDone else CWait)) (calls s);
                                    recvs := recvs s |}
                  | _ => None end
      | None => None end
  | LSendFail k =>
      match nth_error (calls s) k with
      | Some c => match c_pc c with
                  | CReg => Some {| table := table s; calls := upd k (set_cpc c CSendErr) (calls s); recvs := recvs s |}
                  | _ => None end
      | None => None end
  | LTimeout k =>
      match nth_error (calls s) k with
      | Some c => match c_pc c with
                  | CWait => Some {| table := table s; calls := upd k (set_cpc c CTimedOut) (calls s); recvs := recvs s |}
                  | _ => None end
      | None => None end
  | LReturn k =>
      match nth_error (calls s) k with
      | Some c =>
          let ret o := Some {| table := delete (c_id c) (table s); calls := upd k (set_cpc c (CRet o)) (calls s); recvs := recvs s |} in
          match c_pc c with
          | CGot p => ret (OReply p)
          | CTimedOut => ret OTimeout
          | CSendErr => ret OErr
          | COneWayDone => ret OOneWay
          | _ => None end
      | None => None end
  | LPacket p => Some {| table := table s; calls := calls s; recvs := recvs s ++ [{| r_pkt := p; r_pc := RStart |}] |}
  | LGarbage => Some s
  | LLookup r =>
      match nth_error (recvs s) r with
      | Some rc => match r_pc rc with
                   | RStart =>
                       let pc := if p_id (r_pkt rc) =? 0 then RPush
                                 else if p_oneway (r_pkt rc) then RDropped
                                 else match lookup (p_id (r_pkt rc)) (table s) with Some ch => RSending ch | None => RDropped end in
                       Some {| table := table s; calls := calls s; recvs := upd r (set_rpc rc pc) (recvs s) |}
                   | _ => None end
      | None => None end
  | LHandoff r =>
      match nth_error (recvs s) r with
      | Some rc => match r_pc rc with
                   | RSending ch =>
                       match nth_error (calls s) ch with
                       | Some c => match c_pc c with
                                   | CWait => Some {| table := table s; calls := upd ch (set_cpc c (CGot (r_pkt rc))) (calls s);
                                                      recvs := upd r (set_rpc rc (RDone ch)) (recvs s) |}
                                   | _ => None end
                       | None => None end
                   | _ => None end
      | None => None end
  | LGiveUp r =>
      match nth_error (recvs s) r with
      | Some rc => match r_pc rc with
                   | RSending ch => Some {| table := table s; calls := calls s; recvs := upd r (set_rpc rc (RGaveUp ch)) (recvs s) |}
                   | _ => None end
      | None => None end
  end.

Fixpoint run (s : state) (ls : list label) : option state :=
  match ls with
  | [] => Some s
  | l :: r => match step s l with Some s' => run s' r | None => None end
  end.

Definition init : state := {| table := []; calls := []; recvs := [] |}.

(* the hypothesis the id generator discharges: a call registers under a non-zero id that no call still
   outstanding holds *)
Definition id_free (id : Z) (cs : list call) : bool := forallb (fun c => negb (active c) || negb (c_id c =? id)) cs.
Definition goodb (s : state) (l : label) : bool :=
  match l with LRegister id _ => negb (id =? 0) && id_free id (calls s) | _ => true end.

Fixpoint good_run (s : state) (ls : list label) : bool :=
  match ls with
  | [] => true
  | l :: r => goodb s l && match step s l with Some s' => good_run s' r | None => false end
  end.

Definition mkp (id : Z) (pay : N) (ow : bool) : packet := {| p_id := id; p_pay := pay; p_oneway := ow |}.

(* ---- trace validation ---- *)
(* observed: the labels reconstructed from the implementation's event log; per call (in registration order) the
   payload its caller got (None = error / timeout / one-way); snapshots of the implementation's table taken while calls
   were outstanding (number of labels before the snapshot, ids found); the ids left in the table at the end *)
Definition c08_trace_case := (list label * list (option N) * list (nat * list Z) * list Z)%type.

Definition outcome_matches (c : call) (o : option N) : bool :=
  match c_pc c, o with
  | CRet (OReply p), Some n => N.eqb (p_pay p) n
  | CRet OTimeout, None | CRet OErr, None | CRet OOneWay, None => true
  | _, _ => false
  end.

Fixpoint all2 {A B} (f : A -> B -> bool) (a : list A) (b : list B) : bool :=
  match a, b with
  | [], [] => true
  | x :: a', y :: b' => f x y && all2 f a' b'
  | _, _ => false
  end.

(* a snapshot taken after the first n labels: every id the implementation's table held is an entry of the model's table
   (the log places a registration before the real Store and a return after the real Delete, so the model's table is
   the larger one while calls come and go) *)
Definition snap_ok (ls : list label) (sn : nat * list Z) : bool :=
  match run init (firstn (fst sn) ls) with
  | Some s => forallb (fun id => match lookup id (table s) with Some _ => true | None => false end) (snd sn)
  | None => false
  end.

(* the trace is a run of the machine in which every registration is good, every call has returned with the observed
   outcome, the snapshots agree, and both tables are empty again *)
Definition accepts (c : c08_trace_case) : bool :=
  let '(ls, obs, snaps, lft) := c in
  good_run init ls && forallb (snap_ok ls) snaps &&
  match run init ls with
  | Some s => all2 outcome_matches (calls s) obs && match table s, lft with [], [] => true | _, _ => false end
  | None => false
  end.

(* ---- several adapters (connections) of one process: a product of table machines; a label is tagged with the adapter it
   belongs to; a packet arriving on a connection is looked up in that adapter's table only.  Request ids come from one
   process-wide generator: a registration is good when the id is non-zero and no outstanding call on ANY adapter
   holds it. ---- *)
Definition mstep (ms : list state) (al : nat * label) : option (list state) :=
  match nth_error ms (fst al) with
  | Some s => match step s (snd al) with Some s' => Some (upd (fst al) s' ms) | None => None end
  | None => None
  end.

Definition mgoodb (ms : list state) (al : nat * label) : bool :=
  match snd al with
  | LRegister id _ => negb (id =? 0) && forallb (fun s => id_free id (calls s)) ms
  | _ => true
  end.

Fixpoint mrun (ms : list state) (ls : list (nat * label)) : option (list state) :=
  match ls with
  | [] => Some ms
  | l :: r => match mstep ms l with Some ms' => mrun ms' r | None => None end
  end.

Fixpoint mgood_run (ms : list state) (ls : list (nat * label)) : bool :=
  match ls with
  | [] => true
  | l :: r => mgoodb ms l && match mstep ms l with Some ms' => mgood_run ms' r | None => false end
  end.

(* observed: number of connections; tagged labels; per connection, per call (registration order) the payload the caller
   got; table snapshots (number of labels before it, ids found in the tables of the adapters the accessor sees); ids left
   at the end; the connections whose adapter has a push callback and the payloads that callback was called with *)
Definition c08_mtrace_case :=
  (nat * list (nat * label) * list (list (option N)) * list (nat * list Z) * list Z * (list nat * list N))%type.

Definition msnap_ok (n : nat) (ls : list (nat * label)) (sn : nat * list Z) : bool :=
  match mrun (repeat init n) (firstn (fst sn) ls) with
  | Some ms => forallb (fun id => existsb (fun s => match lookup id (table s) with Some _ => true | None => false end) ms) (snd sn)
  | None => false
  end.

(* payloads of the packets the receivers of an adapter routed to push handling (id 0) *)
Definition pushed (s : state) : list N :=
  flat_map (fun r => match r_pc r with RPush => [p_pay (r_pkt r)] | _ => [] end) (recvs s).
Fixpoint ncount (x : N) (l : list N) : nat := match l with [] => O | y :: r => (if N.eqb x y then 1 else 0) + ncount x r end.
Definition same_multiset (a b : list N) : bool :=
  Nat.eqb (length a) (length b) && forallb (fun x => Nat.eqb (ncount x a) (ncount x b)) a.
Definition push_ok (ms : list state) (pu : list nat * list N) : bool :=
  same_multiset (flat_map (fun a => match nth_error ms a with Some s => pushed s | None => [] end) (fst pu)) (snd pu).

Definition maccepts (c : c08_mtrace_case) : bool :=
  let '(n, ls, obs, snaps, lft, pu) := c in
  mgood_run (repeat init n) ls && forallb (msnap_ok n ls) snaps &&
  match mrun (repeat init n) ls with
  | Some ms => all2 (fun s o => all2 outcome_matches (calls s) o) ms obs
               && forallb (fun s => match table s with [] => true | _ => false end) ms
               && match lft with [] => true | _ => false end
               && push_ok ms pu
  | None => false
  end.

(* a keep-alive ping seen on the wire after the first n labels: its id is an allocation from the same generator, so it must
   be as fresh as a registration's — non-zero and held by no outstanding call on any adapter *)
Definition mping_ok (n : nat) (ls : list (nat * label)) (pg : nat * Z) : bool :=
  match mrun (repeat init n) (firstn (fst pg) ls) with
  | Some ms => mgoodb ms (O, LRegister (snd pg) true)
  | None => false
  end.
