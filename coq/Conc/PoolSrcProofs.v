(* C19 — what the SOURCE of the tree (coq/Gen/C19Src.v, regenerated on every run) says, tied to the models:
   * gpool.go is, statement for statement, the program that the transition system of Conc/Gpool.v models;
   * the handlers route a request to the pool exactly when MaxInvoke > 0 (whatever QueueCap is, 0 included), by a
     blocking send, and build the pool under the same condition with W = MaxInvoke workers and a queue of QueueCap;
   * the statement order in tcpHandler.Handle / handleConn / recv is the one for which Conc/PoolUseProofs.v proves that
     the pool is released only when every request handed to it has been executed.
   Any edit of these functions changes the regenerated terms and re-opens these proofs. *)
From Coq Require Import List String ZArith Bool.
From TarsV Require Import Conc.PoolSrc Gen.C19Src Conc.PoolUse Conc.PoolUseProofs.
Import ListNotations.
Open Scope string_scope.

(* ---------- gpool.go as modelled (labels of Conc/Gpool.v in the comments) ---------- *)
Definition modelled_Worker_Start : list outline := [
  Node "go func" [
    Node "decl var job Job" [];
    Node "for" [
      Node "send w.WorkerQueue <- w" [];                       (* WorkerReg w : WReg -> WWait *)
      Node "select" [
        Node "case recv w.JobChannel into job" [               (* Hand : WWait -> WGot j *)
          Node "call job()" [] ];                              (* JStart / JEnd / JobEnd : ... -> WReg *)
        Node "case recv w.Stop" [                              (* StopSend : WWait -> WStopping *)
          Node "send w.Stop <- struct{}{}" [];                 (* StopAck : WStopping -> WDone *)
          Node "return" [] ] ] ] ] ].
Definition modelled_newWorker : list outline := [
  Node "return &Worker" [
    Node "field WorkerQueue: pool" [];
    Node "field JobChannel: make(chan Job)" [];
    Node "field Stop: make(chan struct{})" [] ] ].
Definition modelled_NewPool : list outline := [
  Node "assign jobQueue := make(chan Job, jobQueueLen)" [];
  Node "assign workerQueue := make(chan *Worker, numWorkers)" [];
  Node "assign pool := &Pool{ JobQueue: jobQueue, WorkerQueue: workerQueue, stop: make(chan struct{}), }" [];
  Node "call pool.Start()" [];
  Node "return pool" [] ].
Definition modelled_Pool_Start : list outline := [
  Node "for i := 0; i < cap(p.WorkerQueue); i++" [             (* W workers: init = repeat WReg W *)
    Node "assign worker := newWorker(p.WorkerQueue)" [];
    Node "call worker.Start()" [] ];
  Node "go p.dispatch()" [] ].
Definition modelled_Pool_dispatch : list outline := [
  Node "for" [
    Node "select" [                                            (* DSel *)
      Node "case recv p.JobQueue into job" [                   (* DTake / SubmitH : DSel -> DHave j *)
        Node "recv p.WorkerQueue into worker" [];              (* DWorker : DHave j -> DHand j w *)
        Node "send worker.JobChannel <- job" [] ];             (* Hand : DHand j w -> DSel *)
      Node "case recv p.stop" [                                (* RelCall : DSel -> DCollect 0 *)
        Node "for i := 0; i < cap(p.WorkerQueue); i++" [       (* DColFin when i = W *)
          Node "recv p.WorkerQueue into worker" [];            (* DColTake : DCollect i -> DStop i w *)
          Node "send worker.Stop <- struct{}{}" [];            (* StopSend : DStop i w -> DWaitAck i w *)
          Node "recv worker.Stop" [] ];                        (* StopAck : DWaitAck i w -> DCollect (S i) *)
        Node "send p.stop <- struct{}{}" [];                   (* RelRet : DAck -> DDone *)
        Node "return" [] ] ] ] ].
Definition modelled_Pool_Release : list outline := [
  Node "send p.stop <- struct{}{}" [];                         (* RelCall : RCalled -> RSent *)
  Node "recv p.stop" [] ].                                     (* RelRet : RSent -> RAcked *)

Definition modelled_functions : list string := ["NewPool"; "Pool.Release"; "Pool.Start"; "Pool.dispatch"; "Worker.Start"; "newWorker"].
Theorem gpool_source_is_the_modelled_program :
  src_gpool_functions = modelled_functions /\
  src_gpool_Worker_Start = modelled_Worker_Start /\ src_gpool_newWorker = modelled_newWorker /\
  src_gpool_NewPool = modelled_NewPool /\ src_gpool_Pool_Start = modelled_Pool_Start /\
  src_gpool_Pool_dispatch = modelled_Pool_dispatch /\ src_gpool_Pool_Release = modelled_Pool_Release.
Proof. repeat split; reflexivity. Qed.

(* capacities: JobQueue has the second parameter, WorkerQueue the first, every other channel is unbuffered *)
Definition modelled_NewPool_params : list string := ["numWorkers"; "jobQueueLen"].
Definition modelled_NewPool_chans : list (string * cexpr) :=
  [("jobQueue", CVar "jobQueueLen"); ("workerQueue", CVar "numWorkers"); ("stop", CInt 0)].
Definition modelled_newWorker_chans : list (string * cexpr) := [("JobChannel", CInt 0); ("Stop", CInt 0)].
Theorem gpool_channel_capacities :
  src_gpool_NewPool_params = modelled_NewPool_params /\ src_gpool_NewPool_chans = modelled_NewPool_chans /\
  src_gpool_newWorker_chans = modelled_newWorker_chans.
Proof. repeat split; reflexivity. Qed.

(* ---------- routing ---------- *)
Definition routing (max_invoke : Z) : route := if (0 <? max_invoke)%Z then ToPool else ToGoroutine.

Theorem handlers_route_by_MaxInvoke : forall max_invoke queue_cap,
  route_of src_tcp_route_cond max_invoke queue_cap = Some (routing max_invoke) /\
  route_of src_udp_route_cond max_invoke queue_cap = Some (routing max_invoke) /\
  (* the pool exists exactly when requests are routed to it, with W = MaxInvoke and Q = QueueCap *)
  cond_value src_tcp_pool_cond max_invoke queue_cap = Some (0 <? max_invoke)%Z /\
  cond_value src_udp_pool_cond max_invoke queue_cap = Some (0 <? max_invoke)%Z /\
  arg_values src_tcp_pool_args max_invoke queue_cap = [Some (VZ max_invoke); Some (VZ queue_cap)] /\
  arg_values src_udp_pool_args max_invoke queue_cap = [Some (VZ max_invoke); Some (VZ queue_cap)].
Proof.
  intros mi qc. unfold route_of, routing, cond_value, arg_values. cbn. destruct (0 <? mi)%Z; repeat split; reflexivity.
Qed.
(* in particular a queue capacity of 0 is an ordinary configuration: requests still go through the pool *)
Corollary queue_cap_zero_still_pooled : forall max_invoke, (0 < max_invoke)%Z ->
  route_of src_tcp_route_cond max_invoke 0 = Some ToPool /\ route_of src_udp_route_cond max_invoke 0 = Some ToPool.
Proof.
  intros mi H. destruct (handlers_route_by_MaxInvoke mi 0) as (A & B & _). rewrite A, B. unfold routing.
  apply Z.ltb_lt in H. rewrite H. split; reflexivity.
Qed.
(* the pooled branch is the blocking send and nothing else; the other branch is `go handler()` *)
Definition tcp_submit_is_blocking_send : bool := routing_shape "send t.pool.JobQueue <- handler" "if cfg.MaxInvoke > 0" src_tcp_handleConn.
Definition udp_submit_is_blocking_send : bool := routing_shape "send u.pool.JobQueue <- handler" "if cfg.MaxInvoke > 0" src_udp_handleUDPAddr.
Theorem handlers_submit_by_blocking_send : tcp_submit_is_blocking_send = true /\ udp_submit_is_blocking_send = true.
Proof. split; reflexivity. Qed.

(* Listen builds the pool once, under that condition, and does nothing else with it (NewPool starts the workers itself) *)
Definition modelled_tcp_Listen : list outline :=
  [Node "if cfg.MaxInvoke > 0" [Node "assign t.pool = gpool.NewPool(int(cfg.MaxInvoke), cfg.QueueCap)" []]].
Definition modelled_udp_Listen : list outline :=
  [Node "if cfg.MaxInvoke > 0" [Node "assign u.pool = gpool.NewPool(int(cfg.MaxInvoke), cfg.QueueCap)" []]].
Theorem listen_builds_the_pool_once : src_tcp_Listen = modelled_tcp_Listen /\ src_udp_Listen = modelled_udp_Listen.
Proof. split; reflexivity. Qed.

(* ---------- the shutdown tail ---------- *)
Definition source_flags : flags := handle_flags src_tcp_Handle src_tcp_handleConn src_tcp_recv.
Theorem source_statement_order : source_flags = good_flags.
Proof. reflexivity. Qed.

Theorem source_release_only_when_drained : forall s, treachable source_flags s -> t_released s = true ->
  t_pend s = [] /\ t_runn s = [] /\ Permutation.Permutation (t_handed s) (t_exec s) /\ Forall (fun c => c_pc c = CDone) (t_conns s).
Proof. rewrite source_statement_order. exact released_only_when_drained. Qed.
Theorem source_no_lost_request : forall s, treachable source_flags s -> lost_request s = false.
Proof. rewrite source_statement_order. exact no_lost_request. Qed.
Theorem source_handed_once : forall s, treachable source_flags s ->
  Permutation.Permutation (t_handed s) (t_pend s ++ t_runn s ++ t_exec s) /\ NoDup (t_pend s ++ t_runn s ++ t_exec s).
Proof. rewrite source_statement_order. exact handed_once. Qed.
Theorem source_nothing_handed_over_after_release : forall s i n s', treachable source_flags s -> t_released s = true ->
  tstep source_flags s (CSubmit i n) = Some s' -> False.
Proof. rewrite source_statement_order. exact nothing_handed_over_after_release. Qed.
Theorem source_shutdown_progress : forall s, treachable source_flags s -> t_closed s = true -> t_ap s <> ADone ->
  exists l s', l <> TShutdown /\ tstep source_flags s l = Some s'.
Proof. rewrite source_statement_order. exact shutdown_progress. Qed.
Theorem source_server_traces_accepted : forall ls s, trun source_flags tinit ls = Some s -> puse_ok (ptrace source_flags tinit ls) = true.
Proof. rewrite source_statement_order. exact server_traces_accepted. Qed.
