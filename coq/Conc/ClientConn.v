(* C11 — model of the client connection lifecycle of tars/transport/tarsclient.go.

   One [connection] object per client: the shared closed flag [closedF] (connection.isClosed), the current
   connection [cur] (connection.conn), the shared queues (TarsClient.sendQueue, sendFailQueue of capacity 1).
   Every TCP connection the client ever dials is a *generation* g = 0, 1, ... with its own recv goroutine and
   send goroutine (started by connection.ReConnect), its own connDone channel, its peer.

   The model is a labelled transition system whose labels are the atomic actions of the goroutines at the
   granularity of the code's channel operations and lock sections; the scheduler, the peer and the callers are
   the (universally quantified) label sequence.  [fixed = true] is the repaired code (commit "fix: calls time
   out after the server closes a connection ..."), [fixed = false] the code as pinned.

   The harness's log is part of the model: logging actions are labels of their own (the LLog labels), the hook in the
   send goroutine is the label LSHook, and the field [log] is exactly the recorded event sequence.  The
   specification machine [c11_accepts] at the end of the file is what the recorded logs are validated against.
   Definitions only. *)
From Coq Require Import List Arith Bool NArith.
Import ListNotations.

(* ------------------------------------------------------------------------------------------------ *)
(* recorded events (harness/c11.go, c11Coq) *)
Inductive c11_event :=
| EDial (g : nat)                       (* the server accepted generation g *)
| EEnq (id : nat)                       (* the harness is about to issue call id *)
| EWrite (g id : nat) (stale : bool)    (* hook: the send goroutine of g is about to write id; stale = g was closed by the client or is not its current connection *)
| ESrv (g id : nat)                     (* the server read request id on g *)
| EPeerClose (g : nat)                  (* the server is about to close g *)
| EObsClosed (g : nat)                  (* the harness read: closed flag set, current connection g *)
| EObsPush                              (* push mode: the adapter switched to a new transport client *)
| ECliClose (g : nat)                   (* the server saw the client close g *)
| ECFlag (g : nat) (closed : bool)      (* the harness read: current connection g, closed flag *)
| EReply (id : nat)
| EFail (id : nat).

(* ------------------------------------------------------------------------------------------------ *)
(* program counters *)
Inductive spc :=
| STop                (* loop top: poll connDone *)
| SPollFail           (* non-blocking poll of sendFailQueue *)
| SBlock              (* blocking select *)
| STick               (* ticker fired: staleness test *)
| SIdle               (* idle test *)
| SCheck (m : nat)    (* repaired code: holds m, about to test isCurrent *)
| SHook (m : nat)     (* holds m, just before the write (hook position) *)
| SWrite (m : nat)    (* conn.Write *)
| SRequeue (m : nat)  (* repaired code: not current, sendFailQueue <- m, then return *)
| SFailPush (m : nat) (* write failed: sendFailQueue <- m *)
| SFailClose          (* write failed: c.close(conn), then return *)
| SExit.

Inductive rpc := RRun | RSignal | RExit.

Record gen := mkGen {
  peerc : bool;        (* the peer has closed this connection *)
  dead : bool;         (* the client has run conn.Close() on it: "known dead" *)
  done : bool;         (* connDone has been signalled *)
  rp : rpc; sp : spc;
  late : list nat;     (* ghost: requests enqueued while [dead] *)
  got : list nat       (* ghost: requests that reached the peer *)
}.
Definition gen0 := mkGen false false false RRun STop [] [].

Definition set_sp (x : gen) p := mkGen (peerc x) (dead x) (done x) (rp x) p (late x) (got x).
Definition set_rp (x : gen) r := mkGen (peerc x) (dead x) (done x) r (sp x) (late x) (got x).
Definition set_dead (x : gen) := mkGen (peerc x) true (done x) (rp x) (sp x) (late x) (got x).
Definition set_done (x : gen) := mkGen (peerc x) (dead x) true (rp x) (sp x) (late x) (got x).
Definition set_peerc (x : gen) := mkGen true (dead x) (done x) (rp x) (sp x) (late x) (got x).
Definition add_got (x : gen) m := mkGen (peerc x) (dead x) (done x) (rp x) (sp x) (late x) (got x ++ [m]).
Definition add_late (x : gen) m :=
  if dead x then mkGen (peerc x) (dead x) (done x) (rp x) (sp x) (late x ++ [m]) (got x) else x.

Definition upd (f : nat -> gen) (g : nat) (v : gen) : nat -> gen := fun x => if Nat.eqb x g then v else f x.

Record st := mkSt {
  closedF : bool;            (* connection.isClosed *)
  cur : option nat;          (* connection.conn *)
  ngen : nat;                (* connections dialled so far *)
  gens : nat -> gen;
  sendQ : list nat; failQ : list nat;
  hist : list nat;           (* ghost: requests enqueued so far *)
  atts : list (nat * nat * bool); (* ghost: write attempts (g, m, g known dead at the write) *)
  lenq : list nat; lpc : list nat; lsrv : list (nat * nat); ldial : nat;   (* harness bookkeeping *)
  log : list c11_event       (* the harness's log *)
}.

Definition init : st := mkSt true None 0 (fun _ => gen0) [] [] [] [] [] [] [] 0 [].

Definition is_cur (s : st) (g : nat) : bool := match cur s with Some c => Nat.eqb c g | None => false end.
(* connection.isCurrent (repaired code) *)
Definition isCurrent (s : st) (g : nat) : bool := negb (closedF s) && is_cur s g.

Definition w_gens s f := mkSt (closedF s) (cur s) (ngen s) f (sendQ s) (failQ s) (hist s) (atts s) (lenq s) (lpc s) (lsrv s) (ldial s) (log s).
Definition w_gen s g x := w_gens s (upd (gens s) g x).
Definition w_sp s g p := w_gen s g (set_sp (gens s g) p).
Definition w_closedF s b := mkSt b (cur s) (ngen s) (gens s) (sendQ s) (failQ s) (hist s) (atts s) (lenq s) (lpc s) (lsrv s) (ldial s) (log s).
Definition w_sendQ s q := mkSt (closedF s) (cur s) (ngen s) (gens s) q (failQ s) (hist s) (atts s) (lenq s) (lpc s) (lsrv s) (ldial s) (log s).
Definition w_failQ s q := mkSt (closedF s) (cur s) (ngen s) (gens s) (sendQ s) q (hist s) (atts s) (lenq s) (lpc s) (lsrv s) (ldial s) (log s).
Definition w_hist s h := mkSt (closedF s) (cur s) (ngen s) (gens s) (sendQ s) (failQ s) h (atts s) (lenq s) (lpc s) (lsrv s) (ldial s) (log s).
Definition w_atts s a := mkSt (closedF s) (cur s) (ngen s) (gens s) (sendQ s) (failQ s) (hist s) a (lenq s) (lpc s) (lsrv s) (ldial s) (log s).
Definition w_log s e := mkSt (closedF s) (cur s) (ngen s) (gens s) (sendQ s) (failQ s) (hist s) (atts s) (lenq s) (lpc s) (lsrv s) (ldial s) (log s ++ [e]).
Definition w_lenq s l := mkSt (closedF s) (cur s) (ngen s) (gens s) (sendQ s) (failQ s) (hist s) (atts s) l (lpc s) (lsrv s) (ldial s) (log s).
Definition w_lpc s l := mkSt (closedF s) (cur s) (ngen s) (gens s) (sendQ s) (failQ s) (hist s) (atts s) (lenq s) l (lsrv s) (ldial s) (log s).
Definition w_lsrv s l := mkSt (closedF s) (cur s) (ngen s) (gens s) (sendQ s) (failQ s) (hist s) (atts s) (lenq s) (lpc s) l (ldial s) (log s).
Definition w_ldial s n := mkSt (closedF s) (cur s) (ngen s) (gens s) (sendQ s) (failQ s) (hist s) (atts s) (lenq s) (lpc s) (lsrv s) n (log s).

Definition memn (x : nat) (l : list nat) : bool := existsb (Nat.eqb x) l.
Definition memp (g m : nat) (l : list (nat * nat)) : bool := existsb (fun p => Nat.eqb (fst p) g && Nat.eqb (snd p) m) l.
Definition mem2 (m : nat) (l : list (nat * nat)) : bool := existsb (fun p => Nat.eqb (snd p) m) l.

Inductive label :=
(* callers *)
| LReconnect | LEnq (m : nat) | LUserClose
(* peer *)
| LPeerClose (g : nat)
(* recv goroutine of g *)
| LRClose (g : nat) | LRSignal (g : nat)
(* send goroutine of g *)
| LSTop (g : nat) | LSPoll (g : nat)
| LSBlkDone (g : nat) | LSBlkFail (g : nat) | LSBlkQueue (g : nat) | LSBlkTick (g : nat)
| LSTick (g : nat) | LSIdleNo (g : nat) | LSIdleClose (g : nat)
| LSCheck (g : nat) | LSRequeue (g : nat)
| LSHook (g : nat) | LSWriteOk (g : nat) | LSWriteErr (g : nat) | LSFailPush (g : nat) | LSFailClose (g : nat)
(* harness log *)
| LLogEnq (id : nat) | LLogPClose (g : nat) | LLogObs (g : nat) | LLogSrv (g id : nat) | LLogReply (id : nat)
| LLogFail (id : nat) | LLogDial (g : nat) | LLogCliClose (g : nat) | LLogCFlag (g : nat)
(* caller, endpoint down *)
| LReconnectFail.

Section Model.
Variable fixed : bool.

(* connection.close(conn) under connLock *)
Definition do_close (s : st) (g : nat) : st :=
  let s1 := w_closedF s (if fixed then (if is_cur s g then true else closedF s) else true) in
  w_gen s1 g (set_dead (gens s1 g)).

Definition after_deq (m : nat) : spc := if fixed then SCheck m else SHook m.

Definition step (s : st) (l : label) : option st :=
  match l with
  | LReconnect =>                              (* connection.ReConnect under connLock; the endpoint is reachable *)
      if closedF s then
        Some (mkSt false (Some (ngen s)) (S (ngen s)) (upd (gens s) (ngen s) gen0) (sendQ s) (failQ s) (hist s) (atts s)
                   (lenq s) (lpc s) (lsrv s) (ldial s) (log s))
      else Some s
  | LReconnectFail =>                          (* ReConnect while the endpoint refuses connections: the dial fails, the
                                                  error is returned to the caller, the client stays closed, no goroutine
                                                  is started (connection.conn becomes nil; with the flag set nothing
                                                  distinguishes that from the old value, so [cur] is kept) *)
      if closedF s then Some s else None
  | LEnq m =>                                  (* TarsClient.Send: sendQueue <- m *)
      if memn m (lenq s) && negb (memn m (hist s)) then
        Some (w_hist (w_sendQ (w_gens s (fun x => add_late (gens s x) m)) (sendQ s ++ [m])) (hist s ++ [m]))
      else None
  | LUserClose =>                              (* TarsClient.Close *)
      match cur s with
      | Some g => if closedF s then Some s else Some (w_gen (w_closedF s true) g (set_dead (gens s g)))
      | None => Some s
      end
  | LPeerClose g =>
      if (g <? ngen s) && negb (peerc (gens s g)) && memn g (lpc s) then Some (w_gen s g (set_peerc (gens s g))) else None
  | LRClose g =>                               (* recv: Read fails, c.close(conn) *)
      match rp (gens s g) with
      | RRun => if (g <? ngen s) && (peerc (gens s g) || dead (gens s g)) then
                  let s1 := do_close s g in Some (w_gen s1 g (set_rp (gens s1 g) RSignal))
                else None
      | _ => None
      end
  | LRSignal g =>                              (* recv: deferred connDone <- true *)
      match rp (gens s g) with
      | RSignal => Some (w_gen s g (set_rp (set_done (gens s g)) RExit))
      | _ => None
      end
  | LSTop g =>
      if g <? ngen s then
        match sp (gens s g) with
        | STop => Some (w_sp s g (if done (gens s g) then SExit else SPollFail))
        | _ => None
        end
      else None
  | LSPoll g =>
      match sp (gens s g) with
      | SPollFail => match failQ s with
                     | m :: r => Some (w_sp (w_failQ s r) g (after_deq m))
                     | [] => Some (w_sp s g SBlock)
                     end
      | _ => None
      end
  | LSBlkDone g =>
      match sp (gens s g) with
      | SBlock => if fixed && done (gens s g) then Some (w_sp s g SExit) else None
      | _ => None
      end
  | LSBlkFail g =>
      match sp (gens s g) with
      | SBlock => if fixed then match failQ s with
                                | m :: r => Some (w_sp (w_failQ s r) g (after_deq m))
                                | [] => None
                                end else None
      | _ => None
      end
  | LSBlkQueue g =>
      match sp (gens s g) with
      | SBlock => match sendQ s with
                  | m :: r => Some (w_sp (w_sendQ s r) g (after_deq m))
                  | [] => None
                  end
      | _ => None
      end
  | LSBlkTick g =>
      match sp (gens s g) with
      | SBlock => Some (w_sp s g STick)
      | _ => None
      end
  | LSTick g =>
      match sp (gens s g) with
      | STick => let stale := if fixed then negb (isCurrent s g) else closedF s in
                 Some (w_sp s g (if stale then SExit else SIdle))
      | _ => None
      end
  | LSIdleNo g =>
      match sp (gens s g) with
      | SIdle => Some (w_sp s g STop)
      | _ => None
      end
  | LSIdleClose g =>
      match sp (gens s g) with
      | SIdle => let s1 := do_close s g in Some (w_sp s1 g SExit)
      | _ => None
      end
  | LSCheck g =>
      match sp (gens s g) with
      | SCheck m => Some (w_sp s g (if isCurrent s g then SHook m else SRequeue m))
      | _ => None
      end
  | LSRequeue g =>
      match sp (gens s g), failQ s with
      | SRequeue m, [] => Some (w_sp (w_failQ s [m]) g SExit)
      | _, _ => None
      end
  | LSHook g =>
      match sp (gens s g) with
      | SHook m => Some (w_log (w_sp s g (SWrite m)) (EWrite g m (dead (gens s g) || negb (is_cur s g))))
      | _ => None
      end
  | LSWriteOk g =>
      match sp (gens s g) with
      | SWrite m => if dead (gens s g) then None else
                      let s1 := w_atts s (atts s ++ [(g, m, false)]) in
                      let x := gens s1 g in
                      Some (w_gen s1 g (set_sp (if peerc x then x else add_got x m) STop))
      | _ => None
      end
  | LSWriteErr g =>
      match sp (gens s g) with
      | SWrite m => if dead (gens s g) || peerc (gens s g) then
                      Some (w_sp (w_atts s (atts s ++ [(g, m, dead (gens s g))])) g (SFailPush m))
                    else None
      | _ => None
      end
  | LSFailPush g =>
      match sp (gens s g), failQ s with
      | SFailPush m, [] => Some (w_sp (w_failQ s [m]) g SFailClose)
      | _, _ => None
      end
  | LSFailClose g =>
      match sp (gens s g) with
      | SFailClose => let s1 := do_close s g in Some (w_sp s1 g SExit)
      | _ => None
      end
  | LLogEnq id => if memn id (lenq s) then None else Some (w_log (w_lenq s (lenq s ++ [id])) (EEnq id))
  | LLogPClose g => if (g <? ngen s) && negb (memn g (lpc s)) then Some (w_log (w_lpc s (lpc s ++ [g])) (EPeerClose g)) else None
  | LLogObs g => if closedF s && is_cur s g then Some (w_log s (EObsClosed g)) else None
  | LLogSrv g id => if (g <? ngen s) && memn id (got (gens s g)) && negb (memp g id (lsrv s))
                    then Some (w_log (w_lsrv s (lsrv s ++ [(g, id)])) (ESrv g id)) else None
  | LLogReply id => if mem2 id (lsrv s) then Some (w_log s (EReply id)) else None
  | LLogFail id => if memn id (lenq s) then Some (w_log s (EFail id)) else None
  | LLogDial g => if (g =? ldial s) && (g <? ngen s) then Some (w_log (w_ldial s (S g)) (EDial g)) else None
  | LLogCliClose g => if (g <? ngen s) && dead (gens s g) then Some (w_log s (ECliClose g)) else None
  | LLogCFlag g => if is_cur s g then Some (w_log s (ECFlag g (closedF s))) else None
  end.

Fixpoint run (s : st) (ls : list label) : option st :=
  match ls with
  | [] => Some s
  | l :: r => match step s l with Some s' => run s' r | None => None end
  end.

End Model.

(* the variant seeded as C11-m3: ReConnect clears the closed flag BEFORE it dials, so a failed dial leaves the client
   marked open with no connection and no goroutines *)
Definition dial_fail_m3 (s : st) : st :=
  mkSt false None (ngen s) (gens s) (sendQ s) (failQ s) (hist s) (atts s) (lenq s) (lpc s) (lsrv s) (ldial s) (log s).

(* the variant seeded as C11-m11: connection.close tests `conn == c.conn` BEFORE it takes the lock and sets the flag
   after it; the decision [close_decide_m11] is taken in one state, [close_commit_m11] acts on a later one *)
Definition close_decide_m11 (s : st) (g : nat) : bool := is_cur s g.
Definition close_commit_m11 (s : st) (g : nat) : st := w_gen (w_closedF s true) g (set_dead (gens s g)).

(* labels that belong to the harness/peer/callers rather than to the client's goroutines *)
Definition internal (l : label) : bool :=
  match l with
  | LReconnect | LReconnectFail | LEnq _ | LUserClose | LPeerClose _ | LLogEnq _ | LLogPClose _ | LLogObs _ | LLogSrv _ _
  | LLogReply _ | LLogFail _ | LLogDial _ | LLogCliClose _ | LLogCFlag _ | LSIdleClose _ | LSBlkTick _ => false
  | _ => true
  end.

(* labels by which the client itself gives up a connection without the peer having closed it *)
Definition client_close (l : label) : bool :=
  match l with LUserClose | LSIdleClose _ => true | _ => false end.

(* ------------------------------------------------------------------------------------------------ *)
(* specification machine for recorded logs *)
Record chk := mkChk {
  k_dialed : nat; k_pclosed : list nat; k_obs : list nat; k_enq : list nat;
  k_late : list (nat * nat); k_writes : list (nat * nat); k_srvs : list (nat * nat)
}.
Definition chk0 := mkChk 0 [] [] [] [] [] [].

Definition countp (g m : nat) (l : list (nat * nat)) : nat :=
  length (filter (fun p => Nat.eqb (fst p) g && Nat.eqb (snd p) m) l).

Definition chk_step (k : chk) (e : c11_event) : option chk :=
  match e with
  | EDial g =>
      if (g =? k_dialed k) && (match g with 0 => true | S p => memn p (k_pclosed k) end)
      then Some (mkChk (S g) (k_pclosed k) (k_obs k) (k_enq k) (k_late k) (k_writes k) (k_srvs k)) else None
  | EEnq id =>
      if memn id (k_enq k) then None
      else Some (mkChk (k_dialed k) (k_pclosed k) (k_obs k) (k_enq k ++ [id]) (k_late k ++ map (fun g => (g, id)) (k_obs k)) (k_writes k) (k_srvs k))
  | EWrite g id stale =>
      if memn id (k_enq k) && negb (memp g id (k_late k)) && (negb stale || memn g (k_pclosed k))
      then Some (mkChk (k_dialed k) (k_pclosed k) (k_obs k) (k_enq k) (k_late k) (k_writes k ++ [(g, id)]) (k_srvs k)) else None
  | ESrv g id =>
      if memp g id (k_writes k) && negb (mem2 id (k_srvs k))
      then Some (mkChk (k_dialed k) (k_pclosed k) (k_obs k) (k_enq k) (k_late k) (k_writes k) (k_srvs k ++ [(g, id)])) else None
  | EPeerClose g =>
      if memn g (k_pclosed k) then None
      else Some (mkChk (k_dialed k) (k_pclosed k ++ [g]) (k_obs k) (k_enq k) (k_late k) (k_writes k) (k_srvs k))
  | EObsClosed g =>
      if memn g (k_pclosed k)
      then Some (mkChk (k_dialed k) (k_pclosed k) (if memn g (k_obs k) then k_obs k else k_obs k ++ [g]) (k_enq k) (k_late k) (k_writes k) (k_srvs k)) else None
  | EObsPush => Some k
  | ECliClose g => if memn g (k_pclosed k) then Some k else None
  | ECFlag g closed => if negb closed || memn g (k_pclosed k) then Some k else None
  | EReply id => if mem2 id (k_srvs k) then Some k else None
  | EFail id => if memn id (k_enq k) then Some k else None
  end.

Fixpoint chk_run (k : chk) (es : list c11_event) : option chk :=
  match es with
  | [] => Some k
  | e :: r => match chk_step k e with Some k' => chk_run k' r | None => None end
  end.

Definition c11_accepts (es : list c11_event) : bool :=
  match chk_run chk0 es with Some _ => true | None => false end.

(* indices (from [off]) of the recorded logs the specification machine rejects; the flag is the push mode of the script *)
Fixpoint c11_rejected (off : N) (cs : list (bool * list c11_event)) : list N :=
  match cs with
  | [] => []
  | (_, es) :: r => (if c11_accepts es then [] else [off]) ++ c11_rejected (N.succ off) r
  end.
