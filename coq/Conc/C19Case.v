(* C19 — case files (trace validation of the real pool and of the real servers). Definitions only. *)
From Coq Require Import List NArith Bool.
From TarsV Require Import Base.Hex Conc.Gpool Conc.PoolSrc Conc.PoolUse.
Import ListNotations.

(* the server-side view of a trace: kind 6 = request read, 2 = start, 3 = end, 5 = Serve has returned; the requests of a trace are
   attributed to one connection (the specification does not look at the connection) *)
Fixpoint decode_ptrace (l : list N) : list pevent :=
  match l with
  | k :: a :: b :: r =>
      let p : pj := (0, (a * 256 + b)%N) in
      (match k with
       | 6%N => PRead p | 2%N => PStartE p | 3%N => PEndE p | 5%N => PRelRetE | _ => POther
       end) :: decode_ptrace r
  | _ => []
  end.

(* [c_fifo]: the harness asks for the FIFO check (one worker, a trace short enough for the cubic check);
   [c_server]: the trace comes from a TCP server scenario and carries the "request read" events: also validated by [puse_ok] *)
Record tcase := mkcase { c_W : N; c_complete : bool; c_fifo : bool; c_server : bool; c_trace : list N }.
Definition case_ok (c : tcase) : bool :=
  let tr := decode_trace (c_trace c) in
  (if c_complete c then accepts_complete (N.to_nat (c_W c)) tr else accepts (N.to_nat (c_W c)) tr) &&
  (if c_fifo c && (c_W c =? 1)%N then fifo1_ok tr else true) &&
  (if c_server c then puse_ok (decode_ptrace (c_trace c)) else true).

(* indices (from [off]) of the recorded traces that a specification rejects *)
Definition c19_mismatch (off : N) (cs : list tcase) : list N := failing_from case_ok off cs.
