(* C19 — progress of the pool (liveness-style statements about the transition system of Gpool.v).
   A weighted count of the work left ([measure]) drops with every step of the pool's own goroutines, of a running job
   and of a Release in progress, and rises by at most 8 with a submit. Hence: the pool cannot run for ever on its own
   (no livelock), every run of internal steps is bounded, a state in which no internal step is enabled has finished
   every job sent into it (before Release) or has returned from Release — so under ANY schedule that does not simply
   stop the pool, every submitted job is run and Release returns. *)
From Coq Require Import List Arith NArith Lia Bool Permutation.
From TarsV Require Import Conc.Gpool Conc.GpoolProofs.
Import ListNotations.

(* ---------- the measure ---------- *)
Definition wcost (p : wpc) : nat :=
  match p with WDone => 0 | WStopping => 1 | WWait => 2 | WReg => 4 | WEnded _ => 5 | WRun _ => 6 | WGot _ => 7 end.
Definition dcost (d : dpc) : nat :=
  match d with DDone => 0 | DAck => 1 | DCollect _ | DStop _ _ | DWaitAck _ _ => 2 | DSel => 3 | DHand _ _ => 9 | DHave _ => 10 end.
Definition rcost (r : rpc) : nat := match r with RDone => 0 | _ => 1 end.
Fixpoint wsum (l : list wpc) : nat := match l with [] => 0 | p :: r => wcost p + wsum r end.
Definition measure (s : st) : nat :=
  8 * length (jobq s) + length (wq s) + wsum (wk s) + dcost (dp s) + rcost (rp s).

Lemma wsum_upd l : forall w p x, nth_error l w = Some p -> wsum (upd w x l) + wcost p = wsum l + wcost x.
Proof.
  induction l as [|a l IH]; intros [|w] p x H; cbn [nth_error upd wsum] in *; try discriminate.
  - inversion H; subst. lia.
  - specialize (IH _ _ x H). lia.
Qed.

Definition is_submit (l : label) : bool := match l with Submit _ | SubmitH _ => true | _ => false end.
Definition ninternal (ls : list label) : nat := length (filter internal ls).
Definition nsubmit (ls : list label) : nat := length (filter is_submit ls).

Section Live.
Variable W Q : nat.
Notation step := (step W Q). Notation run := (run W Q).
Notation init := (init W). Notation reachable := (reachable W Q).

Ltac upd_facts :=
  repeat match goal with
  | H : nth_error ?l ?w = Some ?p |- context [wsum (upd ?w ?x ?l)] =>
      let F := fresh "F" in pose proof (wsum_upd l w p x H) as F; cbn [wcost] in F; revert F; generalize (wsum (upd w x l)); intros ? F
  end.

(* every step of the pool, of a job, of a Release in progress uses up some of the work left — in ANY state *)
Lemma internal_step_decreases s l s' : step s l = Some s' -> internal l = true -> measure s' < measure s.
Proof.
  intros Hs Hi. destruct l; cbn in Hi; try discriminate; unfold Gpool.step in Hs; brk; injection Hs as <-;
    unfold measure; simp; rewrite ?app_length; cbn [length dcost rcost]; upd_facts;
    repeat match goal with H : _ = _ :> list _ |- _ => rewrite H in * end;
    repeat match goal with H : _ = _ :> dpc |- _ => rewrite H in * end;
    repeat match goal with H : _ = _ :> rpc |- _ => rewrite H in * end;
    cbn [length dcost rcost] in *; lia.
Qed.

(* a submit adds at most 8; the instrumentation steps and the release-call log add nothing *)
Lemma external_step_adds s l s' : step s l = Some s' -> internal l = false ->
  measure s' <= measure s + (if is_submit l then 8 else 0).
Proof.
  intros Hs Hi. destruct l; cbn in Hi; try discriminate; unfold Gpool.step in Hs; brk; injection Hs as <-;
    unfold measure; simp; rewrite ?app_length; cbn [length dcost rcost is_submit];
    repeat match goal with H : _ = _ :> list _ |- _ => rewrite H in * end;
    repeat match goal with H : _ = _ :> dpc |- _ => rewrite H in * end;
    repeat match goal with H : _ = _ :> rpc |- _ => rewrite H in * end;
    cbn [length dcost rcost] in *; lia.
Qed.

(* no livelock: in every execution the number of internal steps is bounded by the work present at its start plus 8 per submit *)
Theorem work_bounded ls : forall s s', run s ls = Some s' ->
  ninternal ls + measure s' <= measure s + 8 * nsubmit ls.
Proof.
  unfold ninternal, nsubmit. induction ls as [|l ls IH]; cbn [Gpool.run filter]; intros s s' Hr.
  - inversion Hr; subst. cbn. lia.
  - destruct (step s l) as [s1|] eqn:E; [|discriminate]. specialize (IH _ _ Hr).
    destruct (internal l) eqn:Hi.
    + pose proof (internal_step_decreases _ _ _ E Hi).
      assert (is_submit l = false) by (destruct l; cbn in *; congruence). rewrite H0. cbn [length]. lia.
    + pose proof (external_step_adds _ _ _ E Hi). destruct (is_submit l); cbn [length]; lia.
Qed.

Corollary internal_runs_bounded ls s s' : Forall (fun l => internal l = true) ls -> run s ls = Some s' ->
  length ls + measure s' <= measure s.
Proof.
  intros Hf Hr. pose proof (work_bounded ls s s' Hr) as H. unfold ninternal, nsubmit in H.
  assert (E1 : filter internal ls = ls).
  { clear Hr H. induction Hf as [|l ls Hl _ IH]; cbn; [reflexivity|]. rewrite Hl. now f_equal. }
  assert (E2 : filter is_submit ls = []).
  { clear Hr H E1. induction Hf as [|l ls Hl _ IH]; cbn; [reflexivity|].
    destruct l; cbn in Hl; try discriminate; cbn; exact IH. }
  rewrite E1, E2 in H. cbn [length] in H. lia.
Qed.

(* ---------- the internal steps a state can take: a finite list of candidates ---------- *)
Definition cands (s : st) : list label :=
  [DTake; DWorker; Hand; RelCall; DColTake; DColFin; StopSend; StopAck; RelRet; RelRetLog] ++
  flat_map (fun w => [WorkerReg w; JStart w; JEnd w; JobEnd w]) (seq 0 (length (wk s))).
Definition enabled (s : st) (l : label) : bool := match step s l with Some _ => true | None => false end.
Definition next_internal (s : st) : option label := find (enabled s) (cands s).

Lemma cands_internal s l : In l (cands s) -> internal l = true.
Proof.
  unfold cands. intros H. apply in_app_or in H. destruct H as [H|H].
  - cbn in H. repeat (destruct H as [<-|H]; [reflexivity|]). contradiction.
  - apply in_flat_map in H. destruct H as (w & _ & H). cbn in H.
    repeat (destruct H as [<-|H]; [reflexivity|]). contradiction.
Qed.
Lemma cands_complete s l s' : step s l = Some s' -> internal l = true -> In l (cands s).
Proof.
  intros Hs Hi. unfold cands. apply in_or_app.
  destruct l; cbn in Hi; try discriminate; try (left; cbn; tauto); right; apply in_flat_map; exists w.
  all: split; [|cbn; tauto].
  all: apply in_seq; cbn; split; [lia|].
  all: unfold Gpool.step in Hs; destruct (nth_error (wk s) w) eqn:E; try discriminate.
  all: apply nth_some_lt in E; exact E.
Qed.
Lemma next_some s l : next_internal s = Some l -> internal l = true /\ exists s', step s l = Some s'.
Proof.
  unfold next_internal. intros H. apply find_some in H. destruct H as [Hin He]. split; [eapply cands_internal; eauto|].
  unfold enabled in He. destruct (step s l); [eauto|discriminate].
Qed.
Lemma next_none s : next_internal s = None -> forall l, internal l = true -> step s l = None.
Proof.
  unfold next_internal. intros H l Hi. destruct (step s l) as [s'|] eqn:E; [|reflexivity].
  pose proof (find_none _ _ H l (cands_complete _ _ _ E Hi)) as Hn. unfold enabled in Hn. rewrite E in Hn. discriminate.
Qed.

Definition quiescent (s : st) : Prop := forall l, internal l = true -> step s l = None.

(* from ANY state the pool reaches, by its own steps, a state in which none of its steps is enabled *)
Lemma run_to_quiescence_n n : forall s, measure s <= n ->
  exists ls s', Forall (fun l => internal l = true) ls /\ run s ls = Some s' /\ quiescent s'.
Proof.
  induction n as [|n IH]; intros s Hm.
  - exists [], s. repeat split; auto. intros l Hi. destruct (step s l) eqn:E; [|reflexivity].
    pose proof (internal_step_decreases _ _ _ E Hi). lia.
  - destruct (next_internal s) as [l|] eqn:E.
    + destruct (next_some _ _ E) as (Hi & s1 & Hs). pose proof (internal_step_decreases _ _ _ Hs Hi) as Hd.
      destruct (IH s1) as (ls & s' & Hf & Hr & Hq); [lia|].
      exists (l :: ls), s'. repeat split; auto. cbn. rewrite Hs. exact Hr.
    + exists [], s. repeat split; auto. exact (next_none _ E).
Qed.
Lemma run_to_quiescence s : exists ls s', Forall (fun l => internal l = true) ls /\ run s ls = Some s' /\ quiescent s'.
Proof. apply (run_to_quiescence_n (measure s)). lia. Qed.

(* ---------- what a quiescent state looks like ---------- *)
Lemma none_occupying l : (forall w p, nth_error l w = Some p -> f_occ p = None) -> occupying l = [].
Proof.
  induction l as [|a l IH]; intros H; [reflexivity|]. unfold occupying, jobs_of in *. cbn.
  rewrite (H 0 a eq_refl). cbn. apply IH. intros w p Hn. apply (H (S w) p Hn).
Qed.

Lemma reachable_run s ls s' : reachable s -> run s ls = Some s' -> reachable s'.
Proof.
  revert s. induction ls as [|l ls IH]; cbn; intros s Hr H. { now inversion H; subst. }
  destruct (step s l) eqn:E; [|discriminate]. eapply IH; [eapply reachable_step; eauto|exact H].
Qed.

Theorem quiescent_state s : 1 <= W -> reachable s -> quiescent s ->
  (rp s = RNot /\ jobq s = [] /\ dp s = DSel /\ occupying (wk s) = [] /\ Permutation (subm s) (fin s) /\
   (forall w p, nth_error (wk s) w = Some p -> p = WWait /\ In w (wq s)))
  \/ rp s = RDone.
Proof.
  intros HW Hr Hq.
  assert (Hno : forall l s', internal l = true -> step s l = Some s' -> False).
  { intros l s' Hi Hs. rewrite (Hq l Hi) in Hs. discriminate. }
  destruct (rp s) eqn:Hrp.
  - left.
    assert (Hj : jobq s = []).
    { destruct (jobq s) as [|j0 r0] eqn:Ej; [reflexivity|]. exfalso.
      destruct (no_deadlock W Q s HW Hr) as (l & s' & Hi & Hs); [|eauto].
      left. split; [now left|]. left. rewrite Ej. discriminate. }
    assert (Hh : held (dp s) = []).
    { destruct (held (dp s)) as [|j0 r0] eqn:Eh; [reflexivity|]. exfalso.
      destruct (no_deadlock W Q s HW Hr) as (l & s' & Hi & Hs); [|eauto].
      left. split; [now left|]. right. rewrite Eh. discriminate. }
    destruct (reachable_inv _ _ _ Hr) as ((HL & HC & _ & _ & _ & _ & _ & _ & _ & _ & _ & HP0) & (B1 & B2 & _) & _).
    destruct (HP0 (or_introl Hrp)) as [Hpre Hnd].
    assert (Hd : dp s = DSel) by (destruct (dp s); cbn in Hpre, Hh; try discriminate; reflexivity).
    assert (Hwk : forall w p, nth_error (wk s) w = Some p -> p = WWait /\ In w (wq s)).
    { intros w p Hw. destruct p.
      - exfalso. apply (Hno (WorkerReg w) (set_wk (set_wq s (wq s ++ [w])) (upd w WWait (wk s)))); [reflexivity|].
        unfold Gpool.step. now rewrite Hw.
      - split; [reflexivity|]. destruct (B1 w Hw) as [Hin|[[j E]|[i E]]]; [exact Hin|congruence|congruence].
      - exfalso. eapply (Hno (JStart w)); [reflexivity|]. unfold Gpool.step. now rewrite Hw.
      - exfalso. eapply (Hno (JEnd w)); [reflexivity|]. unfold Gpool.step. now rewrite Hw.
      - exfalso. eapply (Hno (JobEnd w)); [reflexivity|]. unfold Gpool.step. now rewrite Hw.
      - exfalso. destruct (B2 w Hw) as [i E]. congruence.
      - exfalso. assert (0 < ndone (wk s)); [|lia].
        clear - Hw. revert w Hw. induction (wk s) as [|a l IH]; intros [|w] Hw; cbn in Hw; try discriminate.
        + inversion Hw; subst. unfold ndone. cbn. lia.
        + specialize (IH _ Hw). unfold ndone in *. cbn. destruct a; cbn; lia. }
    assert (Ho : occupying (wk s) = []).
    { apply none_occupying. intros w p Hw. destruct (Hwk w p Hw) as [-> _]. reflexivity. }
    repeat split; auto.
    + rewrite Hj, Hh, Ho in HC. exact HC.
    + apply (Hwk w p H).
    + apply (Hwk w p H).
  - exfalso. destruct (no_deadlock W Q s HW Hr) as (l & s' & Hi & Hs); [auto|eauto].
  - exfalso. destruct (no_deadlock W Q s HW Hr) as (l & s' & Hi & Hs); [auto|eauto].
  - exfalso. destruct (no_deadlock W Q s HW Hr) as (l & s' & Hi & Hs); [auto|eauto].
  - now right.
Qed.

(* ---------- what internal steps keep ---------- *)
Lemma internal_keeps s l s' : step s l = Some s' -> internal l = true ->
  subm s' = subm s /\ calling s' = calling s /\ (rp s = RNot -> rp s' = RNot) /\ (rp s <> RNot -> rp s' <> RNot).
Proof.
  intros Hs Hi. destruct l; cbn in Hi; try discriminate; unfold Gpool.step in Hs; brk; injection Hs as <-; simp;
    repeat split; auto; try congruence; intros; try discriminate; try congruence.
Qed.
Lemma internal_run_keeps ls : forall s s', Forall (fun l => internal l = true) ls -> run s ls = Some s' ->
  subm s' = subm s /\ calling s' = calling s /\ (rp s = RNot -> rp s' = RNot) /\ (rp s <> RNot -> rp s' <> RNot).
Proof.
  induction ls as [|l ls IH]; cbn; intros s s' Hf Hr. { inversion Hr; subst. tauto. }
  destruct (step s l) as [s1|] eqn:E; [|discriminate]. inversion Hf; subst.
  destruct (internal_keeps _ _ _ E H1) as (A & B & C & D). destruct (IH _ _ H2 Hr) as (A' & B' & C' & D').
  repeat split; try congruence; auto.
Qed.

(* ---------- progress ---------- *)
(* every job sent into a pool that is not being released can be brought to completion by steps of the pool and of jobs *)
Theorem progress s j : 1 <= W -> reachable s -> rp s = RNot -> In j (subm s) ->
  exists ls s', Forall (fun l => internal l = true) ls /\ run s ls = Some s' /\ In j (fin s').
Proof.
  intros HW Hr Hrp Hj. destruct (run_to_quiescence s) as (ls & s' & Hf & Hrun & Hq).
  exists ls, s'. repeat split; auto.
  destruct (internal_run_keeps _ _ _ Hf Hrun) as (A & _ & C & _).
  destruct (quiescent_state s' HW (reachable_run _ _ _ Hr Hrun) Hq) as [(_ & _ & _ & _ & HP & _)|Hd].
  - eapply Permutation_in; [exact HP|]. now rewrite A.
  - rewrite (C Hrp) in Hd. discriminate.
Qed.

(* ... and no schedule can avoid it: EVERY run of pool/job steps from such a state is at most [measure s] long, and when it
   cannot be extended every job sent into the pool has finished, the queue is empty and all W workers are registered again *)
Theorem every_schedule_completes s ls s' : 1 <= W -> reachable s -> rp s = RNot ->
  Forall (fun l => internal l = true) ls -> run s ls = Some s' ->
  length ls <= measure s /\
  (quiescent s' -> Permutation (subm s) (fin s') /\ jobq s' = [] /\ occupying (wk s') = [] /\ length (wq s') = W).
Proof.
  intros HW Hr Hrp Hf Hrun. split. { pose proof (internal_runs_bounded _ _ _ Hf Hrun). lia. }
  intros Hq. destruct (internal_run_keeps _ _ _ Hf Hrun) as (A & _ & C & _).
  pose proof (reachable_run _ _ _ Hr Hrun) as Hr'.
  destruct (quiescent_state s' HW Hr' Hq) as [(_ & Hj & _ & Ho & HP & Hw)|Hd]; [|rewrite (C Hrp) in Hd; discriminate].
  rewrite <- A. repeat split; auto.
  destruct (reachable_inv _ _ _ Hr') as ((HL & _ & _ & Hnd & Hin & _) & _).
  apply Nat.le_antisymm.
  - rewrite <- HL. rewrite <- (seq_length (length (wk s')) 0). apply NoDup_incl_length; [exact Hnd|].
    intros w Hw'. apply Hin in Hw'. apply nth_some_lt in Hw'. apply in_seq. lia.
  - rewrite <- HL. rewrite <- (seq_length (length (wk s')) 0). apply NoDup_incl_length; [apply seq_NoDup|].
    intros w Hw'. apply in_seq in Hw'. destruct (nth_error (wk s') w) eqn:E.
    + apply (Hw w w0 E).
    + apply nth_error_None in E. lia.
Qed.

(* a blocked submitter: the pool can always make room for its send by its own steps *)
Theorem blocked_submit_gets_room s j : 1 <= W -> reachable s -> rp s = RNot -> In j (calling s) ->
  exists ls s', Forall (fun l => internal l = true) ls /\ run s ls = Some s' /\
    exists s'', step s' (if Q =? 0 then SubmitH j else Submit j) = Some s''.
Proof.
  intros HW Hr Hrp Hj. destruct (run_to_quiescence s) as (ls & s' & Hf & Hrun & Hq).
  exists ls, s'. repeat split; auto.
  destruct (internal_run_keeps _ _ _ Hf Hrun) as (_ & B & C & _).
  destruct (quiescent_state s' HW (reachable_run _ _ _ Hr Hrun) Hq) as [(_ & Hjq & Hd & _)|Hd]; [|rewrite (C Hrp) in Hd; discriminate].
  rewrite <- B in Hj. destruct (submit_enabled_when_room W Q s' j Hj) as [S1 S2].
  destruct (Q =? 0) eqn:EQ.
  - apply S2; auto.
  - apply S1. rewrite Hjq. cbn. apply Nat.eqb_neq in EQ. lia.
Qed.

(* ---------- Release returns ---------- *)
(* once Release has been called it can be brought to its return by steps of the pool and of jobs; every such run is bounded and
   can only stop with Release returned *)
Theorem release_returns s : 1 <= W -> reachable s -> rp s <> RNot ->
  (exists ls s', Forall (fun l => internal l = true) ls /\ run s ls = Some s' /\ rp s' = RDone) /\
  (forall ls s', Forall (fun l => internal l = true) ls -> run s ls = Some s' ->
     length ls <= measure s /\ (quiescent s' -> rp s' = RDone)).
Proof.
  intros HW Hr Hrp.
  assert (G : forall ls s', Forall (fun l => internal l = true) ls -> run s ls = Some s' -> quiescent s' -> rp s' = RDone).
  { intros ls s' Hf Hrun Hq. destruct (internal_run_keeps _ _ _ Hf Hrun) as (_ & _ & _ & D).
    destruct (quiescent_state s' HW (reachable_run _ _ _ Hr Hrun) Hq) as [(E & _)|E]; [|exact E].
    exfalso. apply (D Hrp E). }
  split.
  - destruct (run_to_quiescence s) as (ls & s' & Hf & Hrun & Hq). exists ls, s'. repeat split; eauto.
  - intros ls s' Hf Hrun. split; [|eauto]. pose proof (internal_runs_bounded _ _ _ Hf Hrun). lia.
Qed.
End Live.

(* ---------- a concrete instance: two workers, queue of one, three jobs sent, the pool finishes all of them on its own ---------- *)
(* ---------- a concrete instance: two workers, a queue of one, three jobs sent (one running, one in the dispatcher's hand, one
   queued, the second worker not yet registered); the pool finishes all of them on its own within [measure] steps ---------- *)
Fixpoint drive (W Q n : nat) (s : st) : st :=
  match n with
  | O => s
  | S k => match next_internal W Q s with
           | Some l => match step W Q s l with Some s' => drive W Q k s' | None => s end
           | None => s end
  end.
Example live_example :
  let s := match run 2 1 (init 2) [SubCall 1; SubCall 2; SubCall 3; Submit 1; DTake; Submit 2; WorkerReg 0; DWorker; Hand; DTake; Submit 3]%N with
           | Some s => s | None => init 2 end in
  subm s = [1; 2; 3]%N /\ fin s = [] /\ jobq s = [3]%N /\ measure s = 30 /\ next_internal 2 1 s = Some (JStart 0) /\
  let s' := drive 2 1 30 s in
  next_internal 2 1 s' = None /\ fin s' = [1; 2; 3]%N /\ jobq s' = [] /\ wq s' = [0; 1].
Proof. vm_compute. repeat split. Qed.
