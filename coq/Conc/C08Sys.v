(* C08 — the process: one request id generator, any number of threads, any number of adapters (connections), each
   adapter with its own pending-reply table.

     TarsInvoke:  req.IRequestId = s.genRequestID()          SGen (LCall t) (LCas t) (LAdd t)...   (Rpc/ReqId.v)
                  ... s.doInvoke(ctx, msg, timeout):
                        adp := SelectAdapterProxy(msg)        the adapter [a] is the scheduler's choice
                        adp.resp.Store(id, readCh)            SReg t a ow: thread t registers, on adapter a, a call under
                                                              the id its own genRequestID call returned
     everything else an adapter does (send, time out, return, packets arriving on ITS connection, its receiver
     goroutines looking ids up in ITS table)                  SAd a l   (Conc/Pending.v, every label but LRegister)

   The composition adds nothing to the two machines but the fact that connects them: the id a call is registered under is
   the value its own thread's last Add returned.  Ghost state records, for every call, WHICH allocation (position in the
   history of Adds) produced its id; the theorems about shared ids are stated in terms of these positions.
   A thread in [TDone v] that calls genRequestID again without registering (the one-way keep-alive ping does this) is
   the plain [SGen (LCall t)].  Definitions only. *)
From Coq Require Import List ZArith NArith Bool.
From TarsV Require Import Rpc.ReqId Conc.Pending.
Import ListNotations.
Open Scope Z_scope.

Record sys := {
  gen : ReqId.st;
  tpos : list nat;          (* ghost, per thread: position (in [rev (hist gen)]) of the thread's last Add *)
  ads : list Pending.state; (* the adapters *)
  born : list (list nat)    (* ghost, per adapter, per call: position of the Add that produced the call's id *)
}.

Inductive slabel :=
| SGen (l : ReqId.label)
| SReg (t a : nat) (ow : bool)
| SAd (a : nat) (l : Pending.label).

Definition is_register (l : Pending.label) : bool := match l with LRegister _ _ => true | _ => false end.

Section Sys.
  Variable maxi : Z.

  Definition sstep (s : sys) (l : slabel) : option sys :=
    match l with
    | SGen gl =>
        match ReqId.step maxi (gen s) gl with
        | Some g' => Some {| gen := g';
                             tpos := match gl with LAdd t => set_nth t (length (hist (gen s))) (tpos s) | _ => tpos s end;
                             ads := ads s; born := born s |}
        | None => None
        end
    | SReg t a ow =>
        match nth_error (pcs (gen s)) t, nth_error (ads s) a, nth_error (born s) a with
        | Some (TDone v), Some ad, Some b =>
            match Pending.step ad (LRegister v ow) with
            | Some ad' =>
                Some {| gen := {| ctr := ctr (gen s); pcs := set_nth t TIdle (pcs (gen s)); hist := hist (gen s); ids := ids (gen s) |};
                        tpos := tpos s;
                        ads := upd a ad' (ads s);
                        born := upd a (b ++ [nth t (tpos s) O]) (born s) |}
            | None => None
            end
        | _, _, _ => None
        end
    | SAd a l =>
        if is_register l then None else
        match nth_error (ads s) a with
        | Some ad => match Pending.step ad l with
                     | Some ad' => Some {| gen := gen s; tpos := tpos s; ads := upd a ad' (ads s); born := born s |}
                     | None => None
                     end
        | None => None
        end
    end.

  Fixpoint srun (s : sys) (ls : list slabel) : option sys :=
    match ls with
    | [] => Some s
    | l :: r => match sstep s l with Some s' => srun s' r | None => None end
    end.

  (* counter value c0, nt threads, na adapters, nothing in flight *)
  Definition sinit (c0 : Z) (nt na : nat) : sys :=
    {| gen := ReqId.init c0 nt; tpos := repeat O nt; ads := repeat Pending.init na; born := repeat [] na |}.
End Sys.

(* call k of adapter a, with the position of the allocation that produced its id *)
Definition call_at (s : sys) (a k : nat) (c : call) (p : nat) : Prop :=
  exists ad b, nth_error (ads s) a = Some ad /\ nth_error (born s) a = Some b /\
               nth_error (calls ad) k = Some c /\ nth_error b k = Some p.

(* number of allocations (Adds) performed so far *)
Definition allocs (s : sys) : nat := length (hist (gen s)).

(* number of allocations performed after the one at position p *)
Definition age (s : sys) (p : nat) : Z := Z.of_nat (allocs s) - Z.of_nat p - 1.

(* fewer than 2^31-2 allocations have happened since the allocation of any call that is still outstanding *)
Definition all_young (s : sys) : Prop :=
  forall a k c p, call_at s a k c p -> active c = true -> age s p < 2147483648 - 2.
