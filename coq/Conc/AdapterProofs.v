(* C11 — proofs about the close-notification model (Conc/Adapter.v). *)
From Coq Require Import List Arith Bool Lia.
From TarsV Require Import Conc.ClientConn Conc.ClientConnProofs Conc.Adapter.
Import ListNotations.
Local Arguments Nat.ltb : simpl never.

Lemma updc_same {A} (f : nat -> A) i v : updc f i v i = v.
Proof. unfold updc. now rewrite Nat.eqb_refl. Qed.
Lemma updc_other {A} (f : nat -> A) i v x : x <> i -> updc f i v x = f x.
Proof. unfold updc. intros H. apply Nat.eqb_neq in H. now rewrite H. Qed.

Lemma run_snoc ls l s s1 s' : run true s ls = Some s1 -> step true s1 l = Some s' -> run true s (ls ++ [l]) = Some s'.
Proof. intros R S. rewrite run_app, R. cbn. now rewrite S. Qed.

Lemma proj_snoc i als al : proj i (als ++ [al]) = proj i als ++ proj i [al].
Proof.
  induction als as [|x r IH]; cbn; [reflexivity|]. destruct x; cbn; rewrite ?IH; auto.
  - destruct (Nat.eqb i0 i); cbn; now rewrite ?IH.
  - destruct (Nat.eqb i0 i); cbn; now rewrite ?IH.
Qed.

Lemma arun_snoc als : forall a al a1 a', arun a als = Some a1 -> astep a1 al = Some a' -> arun a (als ++ [al]) = Some a'.
Proof.
  induction als as [|x r IH]; cbn; intros a al a1 a' R S.
  - injection R as <-. now rewrite S.
  - destruct (astep a x); [|discriminate]. eapply IH; eauto.
Qed.

(* invariant of adapter runs, stated on the run's label list (snoc induction) *)
Definition AInv (als : list alabel) (a : ast) : Prop :=
  1 <= ncli a /\
  (forall i, i < ncli a -> run true init (proj i als) = Some (cli a i)) /\
  (forall i, ncli a <= i -> cli a i = init /\ proj i als = []) /\
  (forall i, graced a i = true -> S i < ncli a) /\
  (forall i, S i = ncli a -> ~ In LUserClose (proj i als)).

Lemma AInv_step als a al a' : AInv als a -> astep a al = Some a' -> AInv (als ++ [al]) a'.
Proof.
  intros (N1 & P & F & G & U) H. destruct al as [i l|g|i]; cbn [astep] in H.
  - destruct ((i <? ncli a) && negb (user_close l) && (negb (caller_label l) || Nat.eqb (S i) (ncli a))) eqn:C; [|discriminate].
    destruct (step true (cli a i) l) as [s'|] eqn:S; [|discriminate]. injection H as <-.
    apply andb_prop in C. destruct C as [C _]. apply andb_prop in C. destruct C as [L NU]. apply Nat.ltb_lt in L.
    apply negb_true_iff in NU.
    unfold AInv; cbn. split; [auto|]. split; [|split; [|split]].
    + intros j Lj. rewrite proj_snoc. cbn. destruct (Nat.eqb_spec i j).
      * subst. rewrite updc_same. eapply run_snoc; eauto.
      * rewrite app_nil_r, updc_other by auto. auto.
    + intros j Lj. rewrite proj_snoc. cbn. destruct (Nat.eqb_spec i j); [lia|]. rewrite app_nil_r, updc_other by auto. auto.
    + auto.
    + intros j Ej. rewrite proj_snoc. cbn. destruct (Nat.eqb_spec i j).
      * subst. rewrite in_app_iff. intros [X|[X|[]]]; [eapply U; eauto|]. subst l. discriminate.
      * rewrite app_nil_r. auto.
  - destruct (rp (gens (cli a (ncli a - 1)) g)); try discriminate.
    destruct ((g <? ngen (cli a (ncli a - 1))) && negb (dead (gens (cli a (ncli a - 1)) g)) && memn g (lpc (cli a (ncli a - 1)))); [|discriminate].
    injection H as <-. unfold AInv; cbn. split; [lia|]. split; [|split; [|split]].
    + intros j Lj. rewrite proj_snoc. cbn. rewrite app_nil_r. destruct (Nat.eq_dec j (ncli a)).
      * subst. rewrite updc_same. destruct (F (ncli a)) as [_ ->]; auto.
      * rewrite updc_other by auto. apply P. lia.
    + intros j Lj. rewrite proj_snoc. cbn. rewrite app_nil_r, updc_other by lia. apply F. lia.
    + intros j. unfold updc. destruct (Nat.eqb_spec j (ncli a - 1)); [lia|]. intros X. apply G in X. lia.
    + intros j Ej. injection Ej as ->. rewrite proj_snoc. cbn. rewrite app_nil_r. destruct (F (ncli a)) as [_ ->]; auto.
  - destruct (graced a i) eqn:GR; [|discriminate].
    destruct (step true (cli a i) LUserClose) as [s'|] eqn:S; [|discriminate]. injection H as <-.
    pose proof (G i GR) as L.
    unfold AInv; cbn. split; [auto|]. split; [|split; [|split]].
    + intros j Lj. rewrite proj_snoc. cbn. destruct (Nat.eqb_spec i j).
      * subst. rewrite updc_same. eapply run_snoc; eauto; try (apply P; lia).
      * rewrite app_nil_r, updc_other by auto. auto.
    + intros j Lj. rewrite proj_snoc. cbn. destruct (Nat.eqb_spec i j); [lia|]. rewrite app_nil_r, updc_other by auto. auto.
    + intros j. unfold updc. destruct (Nat.eqb_spec j i); [discriminate|]. auto.
    + intros j Ej. rewrite proj_snoc. cbn. destruct (Nat.eqb_spec i j); [lia|]. rewrite app_nil_r. auto.
Qed.

Lemma AInv_init : AInv [] ainit.
Proof. unfold AInv, ainit; cbn. repeat split; auto; intros; try discriminate; try lia; try (assert (i = 0) by lia; now subst). Qed.

Lemma arun_inv_gen als2 : forall als1 a a', AInv als1 a -> arun a als2 = Some a' -> AInv (als1 ++ als2) a'.
Proof.
  induction als2 as [|x r IH]; cbn; intros als1 a a' I R.
  - injection R as <-. now rewrite app_nil_r.
  - destruct (astep a x) as [a1|] eqn:S; [|discriminate].
    replace (als1 ++ x :: r) with ((als1 ++ [x]) ++ r) by (rewrite <- app_assoc; reflexivity).
    eapply IH; eauto. eapply AInv_step; eauto.
Qed.

Lemma arun_inv als a : arun ainit als = Some a -> AInv als a.
Proof. intros R. apply (arun_inv_gen als [] ainit a AInv_init R). Qed.

(* every client of an adapter run is a run of the client model: all theorems of Props/C11.v apply to each client *)
Theorem client_is_client_run als a i : arun ainit als = Some a -> i < ncli a -> run true init (proj i als) = Some (cli a i).
Proof. intros R L. destruct (arun_inv _ _ R) as (_ & P & _). auto. Qed.

(* the swap never aims the grace close at the new client: TarsClient.Close has never been applied to the current
   client, and a grace close is pending for, hence applied to, replaced clients only *)
Theorem current_never_closed_by_swap als a : arun ainit als = Some a ->
  ~ In LUserClose (proj (ncli a - 1) als) /\ graced a (ncli a - 1) = false.
Proof.
  intros R. destruct (arun_inv _ _ R) as (N1 & _ & _ & G & U). split.
  - apply U. lia.
  - destruct (graced a (ncli a - 1)) eqn:E; auto. apply G in E. lia.
Qed.

Theorem grace_close_hits_replaced_client_only als a i a' : arun ainit als = Some a -> astep a (AGrace i) = Some a' -> S i < ncli a.
Proof.
  intros R S. destruct (arun_inv _ _ R) as (_ & _ & _ & G & _). cbn in S. destruct (graced a i) eqn:E; [auto|discriminate].
Qed.

Lemma no_client_close ls : ~ In LUserClose ls -> (forall g, ~ In (LSIdleClose g) ls) -> Forall (fun l => client_close l = false) ls.
Proof.
  intros U I. apply Forall_forall. intros l Hl. destruct l; try reflexivity.
  - contradiction. - exfalso. eapply I; eauto.
Qed.

(* hence, unless its own send goroutine idle-closes it, the current client closes a connection only after the
   server has closed it or announced its close, its closed flag is set only then, and its log is accepted *)
Theorem current_client_healthy_stays als a : arun ainit als = Some a ->
  let c := ncli a - 1 in
  (forall g, ~ In (LSIdleClose g) (proj c als)) ->
  (forall g, dead (gens (cli a c) g) = true -> peerc (gens (cli a c) g) = true /\ In g (lpc (cli a c))) /\
  c11_accepts (log (cli a c)) = true.
Proof.
  intros R c NI. destruct (current_never_closed_by_swap _ _ R) as [NU _].
  assert (L : c < ncli a). { destruct (arun_inv _ _ R) as (N1 & _). unfold c. lia. }
  pose proof (client_is_client_run _ _ c R L) as RC. pose proof (no_client_close _ NU NI) as F. split.
  - intros g D. eapply dead_only_after_peer_close; eauto.
  - eapply spec_machine_sound; eauto.
Qed.

(* the seeded variant (oldClient read after the new client is installed): the grace close hits the new client's
   healthy connection, which the server has neither closed nor announced to close *)
Definition sched_swapped : list alabel :=
  [ACli 0 LReconnect; ACli 0 (LLogPClose 0); APush 0; ACli 1 LReconnect; AGrace 1].

Lemma swapped_refuted : exists a, arun_swapped ainit sched_swapped = Some a /\ ncli a = 2 /\
  dead (gens (cli a 1) 0) = true /\ peerc (gens (cli a 1) 0) = false /\ lpc (cli a 1) = [] /\ closedF (cli a 1) = true /\
  dead (gens (cli a 0) 0) = false.
Proof. eexists. split; [vm_compute; reflexivity|]. cbn. repeat split. Qed.

Lemma swap_example : exists a, arun ainit [ACli 0 LReconnect; ACli 0 (LLogPClose 0); APush 0; ACli 1 LReconnect; AGrace 0] = Some a /\
  ncli a = 2 /\ dead (gens (cli a 1) 0) = false /\ closedF (cli a 1) = false /\ dead (gens (cli a 0) 0) = true /\
  arun ainit sched_swapped = None.
Proof. eexists. split; [vm_compute; reflexivity|]. cbn. repeat split. Qed.
