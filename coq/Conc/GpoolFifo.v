(* C19 — the pool is FIFO: jobs are handed to workers in exactly the order in which their sends completed
   ([subm s = started s ++ held (dp s) ++ jobq s], for every W, Q and schedule); with one worker this order is visible in the
   event trace, and every trace of the transition system passes the executable check [fifo1_ok] that the harness applies to
   the traces of the real pool with W = 1. (The progress of one job under continuing submissions, GpoolFair.v, rests on it.) *)
From Coq Require Import List Arith NArith Lia Bool Permutation.
From TarsV Require Import Conc.Gpool Conc.GpoolProofs Conc.GpoolFair.
Import ListNotations.

(* position of the first occurrence; the length when absent *)
Fixpoint index (j : job) (l : list job) : nat :=
  match l with [] => 0 | x :: r => if N.eqb j x then 0 else S (index j r) end.
Lemma index_in j l : In j l <-> index j l < length l.
Proof.
  induction l as [|x l IH]; cbn; [split; [tauto|lia]|]. destruct (N.eqb j x) eqn:E.
  - apply N.eqb_eq in E. subst. split; [lia|tauto].
  - apply N.eqb_neq in E. rewrite IH. split; [intros [H|H]; [congruence|lia]|intros H; right; lia].
Qed.
Lemma index_app_in j l l' : In j l -> index j (l ++ l') = index j l.
Proof.
  induction l as [|x l IH]; cbn; [tauto|]. destruct (N.eqb j x) eqn:E; [reflexivity|].
  intros [H|H]; [subst; rewrite N.eqb_refl in E; discriminate|]. now rewrite IH.
Qed.
Lemma index_app_notin j l l' : ~ In j l -> index j (l ++ l') = length l + index j l'.
Proof.
  induction l as [|x l IH]; cbn; [reflexivity|]. intros H. destruct (N.eqb j x) eqn:E.
  - apply N.eqb_eq in E. subst. tauto.
  - rewrite IH; tauto.
Qed.
Definition before (a b : job) (l : list job) : Prop := index a l < index b l /\ In b l.

Lemma in_rm j x l : In x (rm j l) -> In x l.
Proof.
  induction l as [|y l IH]; cbn; [tauto|]. destruct (N.eqb j y); [tauto|]. intros [H|H]; [now left|right; auto].
Qed.
Lemma in_rm_other j x l : x <> j -> In x l -> In x (rm j l).
Proof.
  intros Hne. induction l as [|y l IH]; cbn; [tauto|]. destruct (N.eqb j y) eqn:E.
  - apply N.eqb_eq in E. subst. intros [H|H]; [congruence|exact H].
  - intros [H|H]; [now left|right; auto].
Qed.

Lemma fruns_app φ a b : fruns φ (a ++ b) = match fruns φ a with Some φ' => fruns φ' b | None => None end.
Proof. revert φ. induction a as [|e a IH]; intros φ; cbn; [reflexivity|]. destruct (fstep φ e); auto. Qed.

Section Fifo.
Variable W Q : nat.
Notation step := (step W Q). Notation run := (run W Q). Notation trace := (trace W Q).
Notation init := (init W). Notation reachable := (reachable W Q).

(* ---------- hand-over order = send order ---------- *)
Definition InvF (s : st) : Prop := subm s = started s ++ held (dp s) ++ jobq s.
Lemma InvF_step s l s' : InvF s -> step s l = Some s' -> InvF s'.
Proof.
  unfold InvF. intros HI Hs.
  destruct l; unfold Gpool.step in Hs; brk; injection Hs as <-; simp; auto;
    repeat match goal with H : dp s = _ |- _ => rewrite ?H in *; clear H end;
    repeat match goal with H : jobq s = _ |- _ => rewrite ?H in *; clear H end;
    cbn [held app] in *; rewrite HI; rewrite ?app_nil_r, <- ?app_assoc; cbn [app]; reflexivity.
Qed.
Theorem hand_over_fifo s : reachable s -> subm s = started s ++ held (dp s) ++ jobq s.
Proof.
  intros [ls H]. assert (I0 : InvF init) by reflexivity. revert H I0. generalize init.
  induction ls as [|l ls IH]; cbn; intros s0 H I0. { now inversion H; subst. }
  destruct (step s0 l) eqn:E; [|discriminate]. eapply IH; [exact H|eapply InvF_step; eauto].
Qed.

(* a job sent before another one has been handed over whenever the other one has *)
Corollary sent_before_started_before s a b : reachable s -> before a b (subm s) -> In b (started s) -> In a (started s).
Proof.
  intros Hr [Hlt Hb] Hs. rewrite (hand_over_fifo s Hr) in Hlt.
  rewrite (index_app_in b _ _ Hs) in Hlt. apply index_in in Hs.
  destruct (in_dec N.eq_dec a (started s)) as [Ha|Ha]; [exact Ha|].
  rewrite (index_app_notin a _ _ Ha) in Hlt. lia.
Qed.
End Fifo.

(* ---------- one worker: every trace of the transition system passes the FIFO check ---------- *)
Section One.
Variable Q : nat.
Notation step := (step 1 Q). Notation run := (run 1 Q). Notation trace := (trace 1 Q).
Notation init := (init 1). Notation reachable := (reachable 1 Q).

Definition G (s : st) (φ : fifo_st) : Prop :=
  (forall a, In a (f_ret φ) <-> In a (rlog s)) /\
  (forall a, In a (f_started φ) <-> In a (runl s ++ dlog s)) /\
  (forall b B a, In (b, B) (f_snaps φ) -> In a B -> In a (subm s) /\ (In b (calling s) \/ before a b (subm s))).

Lemma before_snoc a b l x : before a b l -> before a b (l ++ [x]).
Proof.
  intros [Hlt Hb]. split; [|apply in_or_app; now left].
  rewrite (index_app_in b _ _ Hb).
  destruct (in_dec N.eq_dec a l) as [Ha|Ha]; [now rewrite (index_app_in a _ _ Ha)|].
  exfalso. apply index_in in Hb. assert (index a l = length l); [|lia].
  clear - Ha. induction l as [|y l IH]; cbn; [reflexivity|]. destruct (N.eqb a y) eqn:E.
  - apply N.eqb_eq in E. subst. exfalso. apply Ha. now left.
  - rewrite IH; [reflexivity|]. intros X. apply Ha. now right.
Qed.
Lemma before_new a b l : In a l -> ~ In b l -> before a b (l ++ [b]).
Proof.
  intros Ha Hb. split; [|apply in_or_app; right; now left].
  rewrite (index_app_in a _ _ Ha), (index_app_notin b _ _ Hb). apply index_in in Ha. lia.
Qed.

Lemma sim_fifo s l s' φ : reachable s -> step s l = Some s' -> G s φ ->
  exists φ', fruns φ (ev s l) = Some φ' /\ G s' φ'.
Proof.
  intros Hr Hs (G1 & G2 & G3).
  destruct (reachable_inv _ _ _ Hr) as ((HL & HC & HS & _) & _ & (C1 & C2 & C3 & C4 & C5)).
  destruct l; unfold ev; unfold Gpool.step in Hs; brk; injection Hs as <-; cbn [fruns fstep].
  - (* SubCall *)
    eexists. split; [reflexivity|]. unfold G; simp; cbn [f_ret f_snaps f_started]. repeat split; auto; try apply G1; try apply G2.
    + destruct H as [E|H]; [injection E as <- <-|apply (G3 _ _ _ H H0)].
      apply G1 in H0. eapply Permutation_in; [symmetry; exact C3|]. apply in_or_app. now right.
    + destruct H as [E|H]; [injection E as <- <-; left; apply in_or_app; right; now left|].
      destruct (G3 _ _ _ H H0) as [_ [X|X]]; [left; apply in_or_app; now left|now right].
  - (* Submit *)
    match goal with H : (_ && _) = true |- _ => apply andb_true_iff in H; destruct H as [Hc _]; apply mem_In in Hc end.
    pose proof (calling_not_subm 1 Q s j Hr Hc) as Hns.
    exists φ. split; [reflexivity|]. unfold G; simp. repeat split; auto; try apply G1; try apply G2.
    + apply in_or_app. left. apply (G3 _ _ _ H H0).
    + destruct (G3 _ _ _ H H0) as [Ha [X|X]].
      * destruct (N.eq_dec b j) as [->|Hne]; [right; now apply before_new|left; now apply in_rm_other].
      * right. now apply before_snoc.
  - (* SubmitH *)
    match goal with H : mem j (calling s) = true |- _ => apply mem_In in H; rename H into Hc end.
    pose proof (calling_not_subm 1 Q s j Hr Hc) as Hns.
    exists φ. split; [reflexivity|]. unfold G; simp. repeat split; auto; try apply G1; try apply G2.
    + apply in_or_app. left. apply (G3 _ _ _ H H0).
    + destruct (G3 _ _ _ H H0) as [Ha [X|X]].
      * destruct (N.eq_dec b j) as [->|Hne]; [right; now apply before_new|left; now apply in_rm_other].
      * right. now apply before_snoc.
  - (* SubRet *)
    eexists. split; [reflexivity|]. unfold G; simp; cbn [f_ret f_snaps f_started]. repeat split; auto; try apply G2.
    + intros [<-|H]; apply in_or_app; [right; now left|left; now apply G1].
    + intros H. apply in_app_or in H. destruct H as [H|[<-|[]]]; [right; now apply G1|now left].
    + apply (G3 _ _ _ H H0).
    + destruct (G3 _ _ _ H H0) as [_ X]. exact X.
  - (* WorkerReg *) exists φ. split; [reflexivity|]. unfold G; simp. auto.
  - (* DTake *) exists φ. split; [reflexivity|]. unfold G; simp. auto.
  - (* DWorker *) exists φ. split; [reflexivity|]. unfold G; simp. auto.
  - (* Hand *) exists φ. split; [reflexivity|]. unfold G; simp. auto.
  - (* JStart: every job returned before the call of j was sent before j, hence handed over before j; the single worker holds j,
       so it has finished *)
    match goal with H : nth_error (wk s) w = Some _ |- _ => rename H into Hw end.
    assert (Hwk : wk s = [WGot j]).
    { destruct (wk s) as [|p [|q r]]; cbn in HL; try discriminate. destruct w as [|w]; cbn in Hw; [now inversion Hw|]. destruct w; discriminate. }
    assert (Hocc : occupying (wk s) = [j]) by (rewrite Hwk; reflexivity).
    assert (Hst : In j (started s)). { eapply Permutation_in; [symmetry; exact HS|]. rewrite Hocc. now left. }
    assert (Hsub : In j (subm s)). { apply (no_job_starts_twice 1 Q s Hr). exact Hst. }
    assert (Hchk : forallb (fun sn : job * list job => if N.eqb (fst sn) j then forallb (fun a => mem a (f_started φ)) (snd sn) else true) (f_snaps φ) = true).
    { apply forallb_forall. intros [b B] Hin. cbn [fst snd]. destruct (N.eqb b j) eqn:E; [|reflexivity]. apply N.eqb_eq in E. subst b.
      apply forallb_forall. intros a Ha. apply mem_In. apply G2.
      destruct (G3 _ _ _ Hin Ha) as [_ [X|X]]; [exfalso; eapply calling_not_subm; eauto|].
      pose proof (sent_before_started_before 1 Q s a j Hr X Hst) as Has.
      assert (Hne : a <> j). { intros ->. destruct X as [X _]. lia. }
      apply (Permutation_in _ HS) in Has. rewrite Hocc in Has. destruct Has as [Has|Has]; [congruence|].
      apply in_or_app. right. eapply Permutation_in; [symmetry; exact C5|]. apply in_or_app. now right. }
    try rewrite Hw. cbn [fruns fstep]. rewrite Hchk. eexists. split; [reflexivity|].
    unfold G; simp; cbn [f_ret f_snaps f_started]. repeat split; auto; try apply G1.
    + intros [<-|H]; [apply in_or_app; left; apply in_or_app; right; now left|].
      apply G2 in H. apply in_app_or in H. apply in_or_app. destruct H as [H|H]; [left; apply in_or_app; now left|now right].
    + intros H. apply in_app_or in H. destruct H as [H|H].
      * apply in_app_or in H. destruct H as [H|[<-|[]]]; [right; apply G2; apply in_or_app; now left|now left].
      * right. apply G2. apply in_or_app. now right.
    + apply (G3 _ _ _ H H0).
    + destruct (G3 _ _ _ H H0) as [_ X]. exact X.
  - (* JEnd *)
    match goal with H : nth_error (wk s) w = Some _ |- _ => rename H into Hw end.
    assert (Hrun : In j (runl s)). { eapply Permutation_in; [symmetry; exact C4|]. eapply jobs_in; eauto. }
    try rewrite Hw. cbn [fruns fstep]. exists φ. split; [reflexivity|]. unfold G; simp. repeat split; auto; try apply G1.
    + intros H. apply G2 in H. apply in_app_or in H. apply in_or_app. destruct H as [H|H].
      * destruct (N.eq_dec a j) as [->|Hne]; [right; apply in_or_app; right; now left|left; now apply in_rm_other].
      * right. apply in_or_app. now left.
    + intros H. apply G2. apply in_app_or in H. apply in_or_app. destruct H as [H|H]; [left; eapply in_rm; eauto|].
      apply in_app_or in H. destruct H as [H|[<-|[]]]; [now right|now left].
    + apply (G3 _ _ _ H H0).
    + destruct (G3 _ _ _ H H0) as [_ X]. exact X.
  - (* JobEnd *) exists φ. split; [reflexivity|]. unfold G; simp. auto.
  - (* RelLog *) exists φ. split; [reflexivity|]. unfold G; simp. auto.
  - (* RelCall *) exists φ. split; [reflexivity|]. unfold G; simp. auto.
  - (* DColTake *) exists φ. split; [reflexivity|]. unfold G; simp. auto.
  - (* DColFin *) exists φ. split; [reflexivity|]. unfold G; simp. auto.
  - (* StopSend *) exists φ. split; [reflexivity|]. unfold G; simp. auto.
  - (* StopAck *) exists φ. split; [reflexivity|]. unfold G; simp. auto.
  - (* RelRet *) exists φ. split; [reflexivity|]. unfold G; simp. auto.
  - (* RelRetLog *) exists φ. split; [reflexivity|]. unfold G; simp. auto.
Qed.

Lemma fifo_from ls : forall s s' φ, reachable s -> run s ls = Some s' -> G s φ -> exists φ', fruns φ (trace s ls) = Some φ' /\ G s' φ'.
Proof.
  induction ls as [|l ls IH]; cbn; intros s s' φ Hr H HG. { inversion H; subst. eauto. }
  destruct (step s l) as [s1|] eqn:E; [|discriminate].
  destruct (sim_fifo s l s1 φ Hr E HG) as (φ1 & F1 & G1).
  destruct (IH s1 s' φ1 (reachable_step _ _ _ _ _ Hr E) H G1) as (φ' & F' & G').
  exists φ'. split; [|exact G']. rewrite fruns_app, F1. exact F'.
Qed.

Theorem fifo1_traces ls s : run init ls = Some s -> fifo1_ok (trace init ls) = true.
Proof.
  intros H. assert (R0 : reachable init) by (exists []; reflexivity).
  assert (G0 : G init finit). { unfold G. cbn. repeat split; try tauto; intros; contradiction. }
  destruct (fifo_from ls init s finit R0 H G0) as (φ' & F & _). unfold fifo1_ok. now rewrite F.
Qed.
End One.

(* the check is not vacuous: with one worker, a job whose send had returned before job 2 was even called cannot start after job 2 *)
Example fifo_rejects_overtaking :
  fifo1_ok [ESubCall 1; ESubRet 1; ESubCall 2; ESubRet 2; EStart 2; EEnd 2; EStart 1; EEnd 1]%N = false /\
  accepts 1 [ESubCall 1; ESubRet 1; ESubCall 2; ESubRet 2; EStart 2; EEnd 2; EStart 1; EEnd 1]%N = true /\
  fifo1_ok [ESubCall 1; ESubCall 2; ESubRet 2; ESubRet 1; EStart 2; EEnd 2; EStart 1; EEnd 1]%N = true.
Proof. vm_compute. repeat split. Qed.

(* ---------- Release and the jobs that were started; the buffered WorkerQueue ---------- *)
Section ReleaseStarted.
Variable W Q : nat.
Notation step := (step W Q). Notation reachable := (reachable W Q).

(* when Release returns, every job that was ever handed to a worker has finished (and only those: what was still queued never runs) *)
Theorem release_after_every_started_job_finished s : reachable s -> (rp s = RDone \/ rp s = RAcked) ->
  Permutation (started s) (fin s) /\ (forall j, In j (started s) -> In j (fin s)) /\
  (forall j, In j (jobq s) -> ~ In j (started s)).
Proof.
  intros Hr Hd. destruct (no_job_starts_twice W Q s Hr) as (_ & HP & _).
  destruct (release_returns_after_all_stopped W Q s Hr Hd) as (_ & _ & Ho & _). rewrite Ho in HP. cbn [app] in HP.
  split; [exact HP|]. split; [intros j Hj; eapply Permutation_in; eauto|].
  intros j Hj Hs. destruct (conservation W Q s Hr) as [_ HN]. rewrite Ho in HN. cbn [app] in HN.
  apply (Permutation_in _ HP) in Hs. eapply NoDup_app_disj; [exact HN|exact Hj|]. apply in_or_app. now right.
Qed.

(* `w.WorkerQueue <- w` never blocks: the buffered WorkerQueue (capacity W) never holds more than W workers, so modelling the
   registration as an always enabled step is faithful *)
Theorem worker_queue_within_capacity s : reachable s -> length (wq s) <= W.
Proof.
  intros Hr. destruct (reachable_inv _ _ _ Hr) as ((HL & _ & _ & Hnd & Hin & _) & _).
  rewrite <- HL. rewrite <- (seq_length (length (wk s)) 0). apply NoDup_incl_length; [exact Hnd|].
  intros w Hw. apply Hin in Hw. apply nth_some_lt in Hw. apply in_seq. lia.
Qed.
Corollary worker_registration_never_blocks s w s' : reachable s -> step s (WorkerReg w) = Some s' -> length (wq s) < W.
Proof.
  intros Hr Hs. pose proof (worker_queue_within_capacity s' (reachable_step _ _ _ _ _ Hr Hs)) as H.
  unfold Gpool.step in Hs. destruct (nth_error (wk s) w) as [[]|]; try discriminate. injection Hs as <-.
  cbn [wq set_wk set_wq] in H. rewrite app_length in H. cbn in H. lia.
Qed.
(* a worker in the idle queue, and the worker the dispatcher is about to hand a job to, is idle (waiting in its select): a job is
   never handed to a worker that is still running another one, so it does not wait behind a long job while workers are idle *)
Theorem registered_workers_are_idle s : reachable s ->
  (forall w, In w (wq s) -> nth_error (wk s) w = Some WWait) /\
  (forall j w, dp s = DHand j w -> nth_error (wk s) w = Some WWait /\ exists s', step s Hand = Some s').
Proof.
  intros Hr. destruct (reachable_inv _ _ _ Hr) as ((_ & _ & _ & _ & Hin & HH & _) & _). split; [exact Hin|].
  intros j w Hd. destruct (HH j w Hd) as [Hw _]. split; [exact Hw|]. unfold Gpool.step. rewrite Hd, Hw. eauto.
Qed.

Theorem worker_queue_never_blocks s : reachable s ->
  length (wq s) <= W /\ (forall w s', step s (WorkerReg w) = Some s' -> length (wq s) < W).
Proof. intros Hr. split; [now apply worker_queue_within_capacity|intros w s'; now apply worker_registration_never_blocks]. Qed.
End ReleaseStarted.
