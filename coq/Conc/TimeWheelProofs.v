(* C09: the time wheel closes the channel returned by After exactly at the (pos+1)-th following tick *)
From Coq Require Import List NArith Arith Bool Lia ZifyBool ZifyNat ZifyN.
From TarsV Require Import Gen.C09Consts Conc.TimeWheel.
Import ListNotations.
Open Scope nat_scope.

Definition wf (w : wheel) : Prop := (0 < w_size w /\ w_cur w < w_size w /\ length (w_gen w) = w_size w)%nat.

Lemma bump_length : forall l i, length (bump i l) = length l.
Proof. induction l as [|g t IH]; intros [|i]; cbn; auto. Qed.
Lemma bump_same : forall l i, (i < length l)%nat -> nth i (bump i l) 0 = S (nth i l 0).
Proof. induction l as [|g t IH]; intros [|i] H; cbn in *; try lia; auto. apply IH. lia. Qed.
Lemma bump_other : forall l i j, i <> j -> nth j (bump i l) 0 = nth j l 0.
Proof. induction l as [|g t IH]; intros [|i] [|j] H; cbn; try reflexivity; try congruence. apply IH. congruence. Qed.

Lemma wf_new : forall size, (0 < size)%nat -> wf (new_wheel size).
Proof. intros size H. unfold wf, new_wheel; cbn. rewrite repeat_length. lia. Qed.
Lemma wf_tick : forall w, wf w -> wf (wtick w).
Proof.
  intros w [H1 [H2 H3]]. unfold wf, wtick; cbn. rewrite bump_length. repeat split; auto.
  apply Nat.mod_upper_bound. lia.
Qed.

Lemma slot_not_cur : forall size cur pos, (cur < size -> 1 <= pos -> pos < size -> (cur + pos) mod size <> cur)%nat.
Proof.
  intros size cur pos Hc H1 Hp. destruct (Nat.lt_ge_cases (cur + pos) size) as [Hs|Hs].
  - rewrite Nat.mod_small by exact Hs. lia.
  - replace (cur + pos)%nat with ((cur + pos - size) + 1 * size)%nat by lia.
    rewrite Nat.mod_add by lia. rewrite Nat.mod_small by lia. lia.
Qed.
Lemma slot_shift : forall size cur p, (0 < size -> ((cur + 1) mod size + p) mod size = (cur + S p) mod size)%nat.
Proof. intros size cur p H. rewrite Nat.add_mod_idemp_l by lia. f_equal. lia. Qed.

(* the channel in slot (cur + pos) survives pos ticks and is closed by the next one *)
Lemma fires_at : forall pos w, wf w -> (pos < w_size w)%nat ->
  let target := ((w_cur w + pos) mod w_size w)%nat in
  (forall n, (n <= pos)%nat -> nth target (w_gen (wticks n w)) 0 = nth target (w_gen w) 0) /\
  nth target (w_gen (wticks (S pos) w)) 0 = S (nth target (w_gen w) 0).
Proof.
  induction pos as [|p IH]; intros w Hwf Hp target.
  - destruct Hwf as [H1 [H2 H3]]. assert (Ht : target = w_cur w) by (unfold target; rewrite Nat.add_0_r; apply Nat.mod_small; exact H2).
    split.
    + intros n Hn. assert (n = 0)%nat by lia. subst n. reflexivity.
    + cbn [wticks wtick w_gen]. rewrite Ht. apply bump_same. lia.
  - pose proof (wf_tick w Hwf) as Hwf'. destruct Hwf as [H1 [H2 H3]].
    assert (Hsz : w_size (wtick w) = w_size w) by reflexivity.
    specialize (IH (wtick w) Hwf' ltac:(rewrite Hsz; lia)). cbv zeta in IH.
    assert (Ht : ((w_cur (wtick w) + p) mod w_size (wtick w))%nat = target).
    { unfold target. cbn [wtick w_cur w_size]. apply slot_shift; exact H1. }
    rewrite Ht in IH. destruct IH as [IHa IHb].
    assert (Hkeep : nth target (w_gen (wtick w)) 0 = nth target (w_gen w) 0).
    { cbn [wtick w_gen]. apply bump_other. intros E. apply (slot_not_cur (w_size w) (w_cur w) (S p)); try lia; unfold target in E; congruence. }
    split.
    + intros [|n] Hn; [reflexivity|]. cbn [wticks]. rewrite IHa by lia. exact Hkeep.
    + change (wticks (S (S p)) w) with (wticks (S p) (wtick w)). rewrite IHb, Hkeep. reflexivity.
Qed.

Lemma bump_ge : forall l i j, nth j l 0 <= nth j (bump i l) 0.
Proof. induction l as [|g t IH]; intros [|i] [|j]; cbn; try lia. apply IH. Qed.
Lemma gen_mono : forall n w j, (nth j (w_gen w) 0 <= nth j (w_gen (wticks n w)) 0)%nat.
Proof.
  induction n as [|n IH]; intros w j; cbn [wticks]; [lia|].
  eapply Nat.le_trans; [|apply IH]. cbn [wtick w_gen]. apply bump_ge.
Qed.
Lemma wticks_add : forall a b w, wticks (a + b) w = wticks b (wticks a w).
Proof. induction a as [|a IH]; intros b w; cbn; auto. Qed.

(* After(timeout): not closed during the first pos ticks, closed from tick pos+1 on, for ever *)
Theorem after_fires : forall t timeout w ch, (0 < t)%N -> wf w -> after t timeout w = Some ch ->
  let pos := after_pos t timeout in
  (forall n, (n <= pos)%nat -> closed (wticks n w) ch = false) /\
  (forall n, (pos < n)%nat -> closed (wticks n w) ch = true).
Proof.
  intros t timeout w ch Ht Hwf Ha pos. unfold after in Ha.
  destruct (t * N.of_nat (w_size w) <=? timeout)%N eqn:Hm; [discriminate|]. inversion Ha; subst ch; clear Ha.
  assert (Hp : (pos < w_size w)%nat).
  { unfold pos, after_pos. apply N.leb_gt in Hm.
    assert (timeout / t < N.of_nat (w_size w))%N by (apply N.div_lt_upper_bound; lia). destruct Hwf as [H1 _]. lia. }
  destruct (fires_at pos w Hwf Hp) as [Hkeep Hfire]. fold pos. unfold closed; cbn [fst snd]. split.
  - intros n Hn. rewrite (Hkeep n Hn). rewrite Nat.eqb_refl. reflexivity.
  - intros n Hn. replace n with (S pos + (n - S pos))%nat by lia. rewrite wticks_add.
    pose proof (gen_mono (n - S pos) (wticks (S pos) w) ((w_cur w + pos) mod w_size w)) as Hmono.
    rewrite Hfire in Hmono. apply negb_true_iff. apply Nat.eqb_neq. lia.
Qed.

(* rtimer.After(T) for T a positive multiple of the accuracy (every duration configured in milliseconds is): no panic,
   and the channel is closed by exactly the accuracy-th tick, i.e. between T - T/accuracy (exclusive) and T after the
   call when the first tick comes within one tick period *)
Theorem rt_after_pos : forall q, (0 < q)%N -> after_pos (rt_tick (c_rtimer_accuracy * q)) (c_rtimer_accuracy * q) = pred (N.to_nat c_rtimer_accuracy).
Proof.
  intros q Hq. unfold after_pos, rt_tick. unfold c_rtimer_accuracy.
  replace (20 * q / 20)%N with q by (rewrite N.mul_comm, N.div_mul; lia).
  replace (20 * q / q)%N with 20%N by (rewrite N.div_mul; lia). reflexivity.
Qed.
Theorem rt_after_no_panic : forall q w, (0 < q)%N -> w_size w = rt_size -> rt_after (c_rtimer_accuracy * q) w <> None.
Proof.
  intros q w Hq Hs. unfold rt_after, after, rt_tick. rewrite Hs. unfold rt_size, c_rtimer_accuracy.
  replace (20 * q / 20)%N with q by (rewrite N.mul_comm, N.div_mul; lia).
  destruct (q * N.of_nat (S (N.to_nat 20)) <=? 20 * q)%N eqn:E; [|discriminate]. lia.
Qed.
(* durations in milliseconds are multiples of the accuracy (time.Millisecond = 10^6 ns) *)
Theorem ms_is_multiple : forall ms, exists q, (ms * 1000000 = c_rtimer_accuracy * q)%N.
Proof. intros ms. exists (ms * 50000)%N. unfold c_rtimer_accuracy. lia. Qed.
(* a duration that is not such a multiple can make After panic: 39 ns *)
Example rt_after_can_panic : rt_after 39 (new_wheel rt_size) = None.
Proof. vm_compute. reflexivity. Qed.
Example rt_after_600ms : exists ch, rt_after 600000000 (new_wheel rt_size) = Some ch /\
  closed (wticks 19 (new_wheel rt_size)) ch = false /\ closed (wticks 20 (new_wheel rt_size)) ch = true.
Proof. eexists. vm_compute. repeat split; reflexivity. Qed.

(* in time: ticks come every t; if the first tick after the After call comes phi later (0 < phi <= t) the accuracy-th tick
   comes at phi + (accuracy-1)*t, i.e. later than T - T/accuracy and no later than T, for T = accuracy * t *)
Theorem fire_time_window : forall t phi, (0 < phi <= t)%N ->
  let T := (c_rtimer_accuracy * t)%N in
  let fire := (phi + (c_rtimer_accuracy - 1) * t)%N in
  (T - T / c_rtimer_accuracy < fire /\ fire <= T)%N.
Proof.
  intros t phi H T fire. unfold T, fire, c_rtimer_accuracy.
  replace (20 * t / 20)%N with t by (rewrite N.mul_comm, N.div_mul; lia). lia.
Qed.

(* After never leaves the table of wheels locked, whether it returns a channel or panics *)
Theorem rt_after_unlocks : forall T w, snd (rt_after_full T w) = false.
Proof. intros T w. unfold rt_after_full. destruct (rt_tick T =? 0)%N; [reflexivity|]. destruct (rt_after T w); reflexivity. Qed.
(* it panics for every duration below the accuracy (the read timeout 0 included) *)
Theorem rt_after_tiny_panics : forall T, (T < c_rtimer_accuracy)%N -> rt_panics T = true.
Proof.
  intros T H. unfold rt_panics, rt_after_full, rt_tick. rewrite (N.div_small T c_rtimer_accuracy H). reflexivity.
Qed.
