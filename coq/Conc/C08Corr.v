(* C08 — what the harness asks the model (evaluated by coqc on every run). *)
From Coq Require Import List ZArith NArith Bool.
From TarsV Require Import Base.Hex Gen.Consts Rpc.ReqId Conc.Pending.
Import ListNotations.

(* thorough tier: the wrap-around witness of C08SysProofs.outstanding_share_id_after_wrap replayed on the code: from counter 1,
   call A (left outstanding), 2^31-3 further genRequestID calls, call B.  Observed: A's id, the last of the 2^31-3 ids, B's
   id; whether B got its own payload; whether A got anything.  Predicted by the theorem (not recomputed: 2^31 steps):
   2, maxInt32, 2; by routing / cleanup: B is served, A — whose entry B's registration replaced and B's return removed — is not *)
Definition c08_wrap_case := (Z * Z * Z * bool * bool)%type.
Definition c08_wrap_check (maxi : Z) (c : c08_wrap_case) : bool :=
  let '(a, l, b, b_served, a_served) := c in
  (a =? 2)%Z && (l =? maxi)%Z && (b =? 2)%Z && b_served && negb a_served.

Inductive c08_case :=
| KSeq (c : c08_seq_case)        (* single-threaded genRequestID sequence from a set counter: must equal the model exactly *)
| KMt (c : c08_mt_case)          (* concurrent batch: what the theorems conclude + reachability window *)
| KWrap (c : c08_wrap_case)
| KTrace (c : c08_mtrace_case * list Z * list (nat * Z) * list Z * (Z * list (Z * Z))).  (* recorded call/packet/outcome trace, per connection: must be a good run of the product of pending-table machines;
                                    and the request ids the peer received on the wire (every packet type: two-way, one-way, keep-alive): non-zero
                                    and pairwise distinct, and each keep-alive ping's id fresh against the calls outstanding when it was seen
                                    (position in the label list, id); and the readings of the id counter taken with every logged event (in reading order):
                                    the counter only moves forward — a drawn id is never handed back (ReqId.ctrs_fwd); and the counter at the start with, for every call and ping, (id, counter reading
                                    taken after the draw): every id is one the generator handed out in between (ReqId.id_in_window) — whatever per-call
                                    options the caller put into its context — a scenario is far shorter than 2^31-2 allocations (C08_id_nonzero, C08_id_window_distinct) *)

Definition c08_check (c : c08_case) : bool :=
  match c with
  | KSeq x => c08_seq_check (Z.of_N c_maxInt32) x
  | KMt x => c08_mt_check (Z.of_N c_maxInt32) x
  | KWrap x => c08_wrap_check (Z.of_N c_maxInt32) x
  | KTrace (x, wire, pings, ctrs, (c0, regs)) =>
      let '(n, ls, _, _, _, _) := x in
      maccepts x && znodup wire && negb (zmem 0%Z wire) && forallb (mping_ok n ls) pings
      && ctrs_fwd (Z.of_N c_maxInt32) ctrs
      && forallb (fun r => id_in_window c0 (fst r) (snd r)) regs
  end.
