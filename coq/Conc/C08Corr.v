(* C08 — what the harness asks the model (evaluated by coqc on every run). *)
From Coq Require Import List ZArith NArith Bool.
From TarsV Require Import Base.Hex Gen.Consts Rpc.ReqId Conc.Pending.
Import ListNotations.

Inductive c08_case :=
| KSeq (c : c08_seq_case)        (* single-threaded genRequestID sequence from a set counter: must equal the model exactly *)
| KMt (c : c08_mt_case)          (* concurrent batch: what the theorems conclude + reachability window *)
| KTrace (c : c08_mtrace_case).  (* recorded call/packet/outcome trace, per connection: must be a good run of the product of pending-table machines *)

Definition c08_check (c : c08_case) : bool :=
  match c with
  | KSeq x => c08_seq_check (Z.of_N c_maxInt32) x
  | KMt x => c08_mt_check (Z.of_N c_maxInt32) x
  | KTrace x => maccepts x
  end.
